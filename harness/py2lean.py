#!/usr/bin/env python3
"""py2lean — translate the pure-Python functions of a dsw module into Lean 4 definitions.

    py2lean.py <module.py> <LeanNamespaceSuffix> [function ...]   -> Lean source on stdout

The target is the shallow embedding of `lean/DswModel/Py/Value.lean`: dynamically typed values `PV`,
one Lean definition per Python function (plus one per loop body / loop condition), statement lists
as terms of type `R (Flow Env)` where `Env` is a structure holding every local of the function.
The translation is purely syntax-directed; nothing is looked up by function name.  Anything outside
the supported fragment raises `Unsupported` (the translation tie is then reported as unavailable,
never silently approximated).

What is *not* translated (and therefore trusted / left to the correspondence): the progress monitor
(`Monitor()` is an opaque `None`, a statement `monitor(...)` is skipped together with its argument
expressions), exception messages (only the class is kept), docstrings.

Value semantics: Python lists are references, the target has values.  The translator therefore
refuses any function in which a list-valued local could be aliased: a local may be mutated
(`x[i] = v`, `x.insert`, `x.append`, `x[i] op= v`) only if every assignment to it in the function
is from a fresh-list expression (comprehension, list literal, `list(...)`, `[..] * n`, a call of a
translated function) or a tuple of such, and it is never the right-hand side of a plain `y = x`.
"""
import ast
import sys

LEAN_KEYWORDS = {"from", "at", "end", "open", "in", "do", "if", "then", "else", "let", "have", "show", "fun",
                 "match", "with", "where", "def", "theorem", "structure", "namespace", "section", "import",
                 "instance", "class", "mutual", "by", "local", "private", "protected", "return", "for", "unless",
                 "break", "continue", "try", "catch", "finally", "mut", "type", "Type", "Prop", "Sort", "e", "fuel", "self"}


class Unsupported(Exception):
    pass


def lean_str(s):
    out = []
    for c in s:
        if c == '"':
            out.append('\\"')
        elif c == '\\':
            out.append('\\\\')
        elif c == '\n':
            out.append('\\n')
        elif c == '\r':
            out.append('\\r')
        elif c == '\t':
            out.append('\\t')
        elif ord(c) < 32:
            raise Unsupported("control character in string literal")
        else:
            out.append(c)
    return '"' + "".join(out) + '"'


def lean_chars(s):
    """a Python str literal as a Lean `List Char` literal."""
    out = []
    for c in s:
        if c == "'":
            out.append("'\\''")
        elif c == '\\':
            out.append("'\\\\'")
        elif c == '\n':
            out.append("'\\n'")
        elif c == '\t':
            out.append("'\\t'")
        elif c == '\r':
            out.append("'\\r'")
        elif ord(c) < 32:
            raise Unsupported("control character in string literal")
        else:
            out.append("'%s'" % c)
    return "[" + ", ".join(out) + "]"


def fld(name):
    if name == "_":
        return "py_underscore"
    if name in LEAN_KEYWORDS or name.startswith("tmp") or name.startswith("it_"):
        return "«py_%s»" % name
    return name


EXC = {"ValueError": ".valueError", "IndexError": ".indexError", "TypeError": ".typeError",
       "OverflowError": ".overflowError"}

BINOPS = {ast.Add: "pyAdd", ast.Sub: "pySub", ast.Mult: "pyMul", ast.FloorDiv: "pyFloorDiv", ast.Mod: "pyMod",
          ast.Pow: "pyPow", ast.Div: "pyTrueDiv"}
# in a module that imports NumPy an operand may be an array: the broadcasting versions are emitted there
NP_BINOPS = {ast.Add: "npAdd", ast.Sub: "npSub", ast.Mult: "npMul"}
CMPOPS = {ast.Lt: "pyLt", ast.LtE: "pyLe", ast.Gt: "pyGt", ast.GtE: "pyGe", ast.Eq: "pyEq", ast.NotEq: "pyNe"}


class FunctionTranslator:
    def __init__(self, module, fn, cls=None):
        """`cls`: the ClassDef when `fn` is a method.  A method is translated like a function whose first parameter is the
        object (the `.dict` of its attributes); `__init__` returns the object it has built."""
        self.m = module
        self.fn = fn
        self.cls = cls
        self.name = fn.name if cls is None else "%s.%s" % (cls.name, fn.name)
        self.is_init = cls is not None and fn.name == "__init__"
        if cls is not None:
            if fn.name.startswith("__") and fn.name != "__init__":
                raise Unsupported("%s: special method" % self.name)
            if not fn.args.args:
                raise Unsupported("%s: method without self" % self.name)
            self.self_name = fn.args.args[0].arg
            for node in ast.walk(fn):
                if isinstance(node, ast.Name) and node.id == self.self_name and isinstance(node.ctx, ast.Store):
                    raise Unsupported("%s: the object parameter is rebound" % self.name)
                if isinstance(node, ast.Attribute) and isinstance(node.ctx, (ast.Store, ast.Del)) and not self.is_init:
                    raise Unsupported("%s: attribute assignment outside __init__ (hidden state)" % self.name)
                if self.is_init and isinstance(node, ast.Return):
                    raise Unsupported("%s: return inside __init__" % self.name)
        else:
            self.self_name = None
        self.counter = 0
        self.loop_counter = 0
        self.cont_counter = 0
        self.aux = []           # auxiliary definitions (loop bodies), innermost first
        self.params = [a.arg for a in fn.args.args]
        if fn.args.vararg or fn.args.kwarg or fn.args.kwonlyargs or fn.args.posonlyargs:
            raise Unsupported("%s: only plain positional parameters" % self.name)
        self.locals = list(self.params)
        for node in ast.walk(fn):
            if isinstance(node, ast.Name) and isinstance(node.ctx, ast.Store) and node.id not in self.locals:
                if not self._is_comp_target(node):
                    self.locals.append(node.id)
        self._check_aliasing()

    # ------------------------------------------------------------------ helpers
    def _is_comp_target(self, name_node):
        for node in ast.walk(self.fn):
            if isinstance(node, ast.ListComp):
                for gen in node.generators:
                    for sub in ast.walk(gen.target):
                        if sub is name_node:
                            return True
        return False

    def tmp(self):
        self.counter += 1
        return "tmp%d" % self.counter

    def _fresh_list_expr(self, node):
        if isinstance(node, (ast.ListComp, ast.List, ast.Dict)):
            return True
        if isinstance(node, ast.Constant):
            return True                      # immutable
        if isinstance(node, ast.Call) and isinstance(node.func, ast.Name):
            if node.func.id in ("list", "str", "int", "len", "set", "sorted", "zip") or node.func.id in self.m.functions:
                return True
            if self.m.numpy.get(node.func.id) in ("zeros", "array", "ones", "where", "argsort"):
                return True
        if isinstance(node, ast.UnaryOp) and isinstance(node.op, ast.USub):
            return self._fresh_list_expr(node.operand)
        if isinstance(node, ast.Call) and isinstance(node.func, ast.Attribute) and node.func.attr in ("join", "zfill", "index", "tolist", "astype", "copy"):
            return True                      # str / int results are immutable; tolist / astype build new objects
        if isinstance(node, ast.BinOp):
            # `+` and `*` build a new object; with an int/str operand the result is immutable anyway
            return self._fresh_list_expr(node.left) or self._fresh_list_expr(node.right)
        return False

    def _check_aliasing(self):
        mutated = set()
        for node in ast.walk(self.fn):
            if isinstance(node, (ast.Assign, ast.AugAssign)):
                targets = node.targets if isinstance(node, ast.Assign) else [node.target]
                for t in targets:
                    if isinstance(t, ast.Subscript) and isinstance(t.value, ast.Name):
                        mutated.add(t.value.id)
                    elif isinstance(t, ast.Subscript) and isinstance(t.value, ast.Subscript) and isinstance(t.value.value, ast.Name) \
                            and self.m.numpy:
                        mutated.add(t.value.value.id)     # a[i][j] = v writes through a row view of the array a
                    elif isinstance(t, ast.Subscript):
                        raise Unsupported("%s: subscript assignment to a non-name" % self.name)
            if isinstance(node, ast.Expr) and isinstance(node.value, ast.Call) and \
                    isinstance(node.value.func, ast.Attribute) and node.value.func.attr in ("insert", "append", "add"):
                recv = node.value.func.value
                if isinstance(recv, ast.Subscript) and isinstance(recv.value, ast.Name) and node.value.func.attr == "add":
                    recv = recv.value          # x[i].add(v): x must own its items (fresh comprehension), checked below
                    self.owning = getattr(self, "owning", set()) | {recv.id}
                if not isinstance(recv, ast.Name):
                    raise Unsupported("%s: mutating method on a non-name" % self.name)
                mutated.add(recv.id)
            if isinstance(node, ast.Delete):
                for t in node.targets:
                    if isinstance(t, ast.Subscript) and isinstance(t.value, ast.Name):
                        mutated.add(t.value.id)
                    elif isinstance(t, ast.Subscript) and isinstance(t.value, ast.Subscript) and isinstance(t.value.value, ast.Name):
                        mutated.add(t.value.value.id)
        alias_targets = set()
        for node in ast.walk(self.fn):
            if isinstance(node, ast.Assign):
                pairs = []
                for t in node.targets:
                    if isinstance(t, ast.Name):
                        pairs.append((t, node.value))
                    elif isinstance(t, ast.Tuple) and isinstance(node.value, ast.Tuple) and len(t.elts) == len(node.value.elts):
                        pairs += list(zip(t.elts, node.value.elts))
                    elif isinstance(t, ast.Tuple):
                        for el in t.elts:
                            if isinstance(el, ast.Name) and el.id in mutated:
                                # unpacked from a call result: allowed only from a translated function
                                if not (isinstance(node.value, ast.Call) and isinstance(node.value.func, ast.Name)
                                        and node.value.func.id in self.m.functions):
                                    raise Unsupported("%s: mutated local %s unpacked from an unknown value" % (self.name, el.id))
                for t, v in pairs:
                    if isinstance(t, ast.Name) and t.id in mutated and not self._fresh_list_expr(v):
                        raise Unsupported("%s: mutated local %s is assigned from a possibly shared value" % (self.name, t.id))
                    if isinstance(v, ast.Name) and v.id in mutated:
                        if not (isinstance(t, ast.Name) and self._alias_at_end_of_iteration(node, t.id, v.id)):
                            raise Unsupported("%s: mutated local %s is aliased" % (self.name, v.id))
                        alias_targets.add(t.id)
            if isinstance(node, (ast.For, ast.comprehension)):
                for sub in ast.walk(node.target):
                    if isinstance(sub, ast.Name) and sub.id in mutated:
                        raise Unsupported("%s: mutated local %s is a loop target" % (self.name, sub.id))
        for nm in alias_targets:
            if nm in mutated:
                raise Unsupported("%s: %s aliases a mutated local and is mutated itself" % (self.name, nm))
        for nm in getattr(self, "owning", set()):
            for node in ast.walk(self.fn):
                if isinstance(node, ast.Assign):
                    for t in node.targets:
                        if isinstance(t, ast.Name) and t.id == nm:
                            v = node.value
                            if not (isinstance(v, ast.ListComp) and isinstance(v.elt, ast.Call) and isinstance(v.elt.func, ast.Name)
                                    and v.elt.func.id in ("set", "list") and not v.elt.args):
                                raise Unsupported("%s: items of %s are mutated but may be shared" % (self.name, nm))
        for p in self.params:
            if p in mutated:
                # a parameter may be mutated only after being rebound to a fresh list, which the
                # assignment check above enforces for every assignment; but the *initial* value is shared
                first = self._first_use_is_rebinding(p)
                if not first and not self._returned_by_every_return(p):
                    raise Unsupported("%s: parameter %s is mutated in place" % (self.name, p))
        self.mutated = mutated

    def _alias_at_end_of_iteration(self, assign, y, x):
        """`y = x` where x is a mutated local: harmless for value semantics when, after it, x is always rebound to a
        fresh value before it is mentioned again.  Recognised shape: every mention of x lies in the body of a loop
        whose first statement mentioning x assigns it a fresh value ("rebinding loop"); `y = x` is a top-level statement
        of such a body and nothing after it in that body mentions x; y is never mutated (checked by the caller)."""
        def mentions(st, name):
            return any(isinstance(n, ast.Name) and n.id == name for n in ast.walk(st))

        def rebinding(body):
            first = next((st for st in body if mentions(st, x)), None)
            if not isinstance(first, ast.Assign) or mentions(first.value, x):
                return False
            for t in first.targets:
                if isinstance(t, ast.Name) and t.id == x and self._fresh_list_expr(first.value):
                    return True
                if isinstance(t, ast.Tuple) and isinstance(first.value, ast.Tuple) and len(t.elts) == len(first.value.elts):
                    for el, val in zip(t.elts, first.value.elts):
                        if isinstance(el, ast.Name) and el.id == x and self._fresh_list_expr(val):
                            return True
            return False
        loops = [l for l in ast.walk(self.fn) if isinstance(l, (ast.For, ast.While)) and rebinding(l.body)]
        home = next((l for l in loops if assign in l.body), None)
        if home is None:
            return False
        i = home.body.index(assign)
        if any(mentions(st, x) for st in home.body[i + 1:]):
            return False
        covered = set()
        for l in loops:
            for st in l.body:
                covered |= {id(n) for n in ast.walk(st)}
        for n in ast.walk(self.fn):
            if isinstance(n, ast.Name) and n.id == x and id(n) not in covered:
                return False
        return True

    def _returned_by_every_return(self, p):
        """an IN-PLACE function: the parameter is updated and handed back by every `return` (by name, alone or as an item of
        the returned tuple), it is never rebound, and nothing is stored INTO it except scalars / fresh values through
        subscripts. The translation returns the updated value; that the caller's own reference sees the update as well is
        Python's aliasing, which the functional target does not model (the harness observes it)."""
        rets = [n for n in ast.walk(self.fn) if isinstance(n, ast.Return)]
        if not rets:
            return False
        for r in rets:
            v = r.value
            names = [v] if isinstance(v, ast.Name) else (list(v.elts) if isinstance(v, ast.Tuple) else [])
            if not any(isinstance(x, ast.Name) and x.id == p for x in names):
                return False
        for n in ast.walk(self.fn):
            if isinstance(n, ast.Name) and n.id == p and isinstance(n.ctx, ast.Store):
                return False
        return True

    def _first_use_is_rebinding(self, p):
        """True if no mutation of parameter p can happen before p has been re-assigned: we require the
        first top-level statement mentioning p as a store to be an assignment that precedes (in
        source order) every mutation."""
        first_store = None
        first_mut = None
        for node in ast.walk(self.fn):
            ln = getattr(node, "lineno", None)
            if isinstance(node, ast.Assign):
                for t in node.targets:
                    names = [t] if isinstance(t, ast.Name) else (t.elts if isinstance(t, ast.Tuple) else [])
                    for nm in names:
                        if isinstance(nm, ast.Name) and nm.id == p:
                            first_store = ln if first_store is None else min(first_store, ln)
                    if isinstance(t, ast.Subscript) and isinstance(t.value, ast.Name) and t.value.id == p:
                        first_mut = ln if first_mut is None else min(first_mut, ln)
            if isinstance(node, ast.AugAssign) and isinstance(node.target, ast.Subscript) and \
                    isinstance(node.target.value, ast.Name) and node.target.value.id == p:
                first_mut = ln if first_mut is None else min(first_mut, ln)
            if isinstance(node, ast.Expr) and isinstance(node.value, ast.Call) and \
                    isinstance(node.value.func, ast.Attribute) and node.value.func.attr in ("insert", "append") and \
                    isinstance(node.value.func.value, ast.Name) and node.value.func.value.id == p:
                first_mut = ln if first_mut is None else min(first_mut, ln)
        if first_mut is None:
            return True
        if first_store is None or first_store >= first_mut:
            return False
        # the rebinding must be a top-level statement of the function (dominates everything after it)
        for st in self.fn.body:
            if getattr(st, "lineno", -1) == first_store and isinstance(st, ast.Assign):
                return True
        return False

    # ------------------------------------------------------------------ expressions
    # expr() returns (pure, term): pure -> term : PV ; not pure -> term : RV
    def expr(self, node, scope, assigned):
        if isinstance(node, ast.Constant):
            v = node.value
            if v is True:
                return True, "(.bool true)"
            if v is False:
                return True, "(.bool false)"
            if v is None:
                return True, ".none"
            if isinstance(v, int):
                return True, "(.int %s)" % (str(v) if v >= 0 else "(%d)" % v)
            if isinstance(v, str):
                return True, "(.str %s)" % lean_chars(v)
            raise Unsupported("%s: constant %r" % (self.name, v))
        if isinstance(node, ast.Name):
            if node.id in scope:
                return True, scope[node.id]
            if node.id in self.locals:
                if node.id in assigned:
                    return True, "e.%s" % fld(node.id)
                return False, "(getVar e.%s)" % fld(node.id)
            raise Unsupported("%s: global name %s used as a value" % (self.name, node.id))
        if isinstance(node, ast.Attribute) and isinstance(node.value, ast.Name) and node.value.id == self.self_name \
                and self.self_name is not None and isinstance(node.ctx, ast.Load):
            return False, "(pyGetAttr e.%s %s)" % (fld(self.self_name), lean_str(node.attr))
        if isinstance(node, ast.Attribute) and node.attr == "T" and isinstance(node.ctx, ast.Load) and self.m.numpy:
            return self.apply("npT", [node.value], scope, assigned)
        if isinstance(node, ast.UnaryOp) and isinstance(node.op, ast.USub):
            if isinstance(node.operand, ast.Constant) and isinstance(node.operand.value, int):
                return True, "(.int (-%d))" % node.operand.value
            return self.apply("npNeg" if self.m.numpy else "pyNeg", [node.operand], scope, assigned)
        if isinstance(node, ast.UnaryOp) and isinstance(node.op, ast.Not):
            c = self.cond(node.operand, scope, assigned)
            return False, "(bnd %s fun c => .ok (.bool (!c)))" % c
        if isinstance(node, ast.BinOp):
            if type(node.op) not in BINOPS:
                raise Unsupported("%s: operator %s" % (self.name, type(node.op).__name__))
            return self.apply(self.binop(node.op), [node.left, node.right], scope, assigned)
        if isinstance(node, ast.Compare):
            if self.m.numpy and len(node.ops) == 1 and type(node.ops[0]) in CMPOPS and not self._is_type_test(node):
                # value context in a NumPy module: elementwise when an operand is an array
                return self.apply("npCmp %s" % CMPOPS[type(node.ops[0])], [node.left, node.comparators[0]], scope, assigned)
            return False, "(bnd %s fun c => .ok (.bool c))" % self.cond(node, scope, assigned)
        if isinstance(node, ast.IfExp):
            c = self.cond(node.test, scope, assigned)
            return False, "(bnd %s fun c => if c then %s else %s)" % (
                c, self.rv(node.body, scope, assigned), self.rv(node.orelse, scope, assigned))
        if isinstance(node, ast.Tuple):
            return self.apply_list(".tup", node.elts, scope, assigned)
        if isinstance(node, ast.List):
            return self.apply_list(".list", node.elts, scope, assigned)
        if isinstance(node, ast.Dict):
            if node.keys:
                raise Unsupported("%s: non-empty dict literal" % self.name)
            return True, "(.dict [] [])"
        if isinstance(node, ast.ListComp):
            if len(node.generators) != 1 or len(node.generators[0].ifs) > 1 or node.generators[0].is_async:
                raise Unsupported("%s: comprehension shape" % self.name)
            gen = node.generators[0]
            if not isinstance(gen.target, ast.Name):
                raise Unsupported("%s: comprehension target" % self.name)
            var = "it_%s" % gen.target.id if gen.target.id != "_" else "it_"
            inner = dict(scope)
            inner[gen.target.id] = var
            body = self.rv(node.elt, inner, assigned)
            if gen.ifs:
                # [elt for x in it if c]: filter, then map
                c = self.cond(gen.ifs[0], inner, assigned)
                _, filtered = self.apply("pyFilter (fun %s => %s)" % (var, c), [gen.iter], scope, assigned)
                tmpv = self.tmp()
                return False, "(bnd %s fun %s => (pyMap (fun %s => %s) %s))" % (filtered, tmpv, var, body, tmpv)
            return self.apply("pyMap (fun %s => %s)" % (var, body), [gen.iter], scope, assigned)
        if isinstance(node, ast.Subscript):
            sl = node.slice
            if isinstance(sl, ast.Slice):
                if sl.step is not None:
                    if (isinstance(sl.step, ast.UnaryOp) and isinstance(sl.step.op, ast.USub)
                            and isinstance(sl.step.operand, ast.Constant) and sl.step.operand.value == 1
                            and sl.lower is None and sl.upper is None):
                        return self.apply("pyReverse", [node.value], scope, assigned)
                    raise Unsupported("%s: slice step" % self.name)
                lo = sl.lower if sl.lower is not None else ast.Constant(value=None)
                hi = sl.upper if sl.upper is not None else ast.Constant(value=None)
                return self.apply("pySliceV", [node.value, lo, hi], scope, assigned)
            if isinstance(sl, ast.Tuple) and len(sl.elts) == 2 and isinstance(sl.elts[0], ast.Slice) and \
                    sl.elts[0].lower is None and sl.elts[0].upper is None and sl.elts[0].step is None and \
                    not isinstance(sl.elts[1], ast.Slice):
                return self.apply("npIndexCols", [node.value, sl.elts[1]], scope, assigned)      # a[:, idx]
            if isinstance(sl, ast.Tuple):
                if len(sl.elts) != 2 or any(isinstance(x, ast.Slice) for x in sl.elts):
                    raise Unsupported("%s: multi-dimensional subscript shape" % self.name)
                return self.apply("npIndex2", [node.value, sl.elts[0], sl.elts[1]], scope, assigned)
            if isinstance(sl, ast.Compare) and self.m.numpy:
                return self.apply("npMaskIndex", [node.value, sl], scope, assigned)      # a[a >= 0]
            return self.apply("pyIndex", [node.value, sl], scope, assigned)
        if isinstance(node, ast.Call):
            return self.call(node, scope, assigned)
        raise Unsupported("%s: expression %s" % (self.name, type(node).__name__))

    def binop(self, op):
        if self.m.numpy and type(op) in NP_BINOPS:
            return NP_BINOPS[type(op)]
        return BINOPS[type(op)]

    @staticmethod
    def _is_type_test(node):
        return (isinstance(node.left, ast.Call) and isinstance(node.left.func, ast.Name) and node.left.func.id == "type")

    def rv(self, node, scope, assigned):
        pure, t = self.expr(node, scope, assigned)
        return "(.ok %s)" % t if pure else t

    def apply(self, fn, args, scope, assigned):
        """fn applied to the values of args (evaluated left to right); result : RV."""
        names, binds = [], []
        for a in args:
            pure, t = self.expr(a, scope, assigned)
            if pure:
                names.append(t)
            else:
                v = self.tmp()
                binds.append((t, v))
                names.append(v)
        term = "(%s %s)" % (fn, " ".join(names))
        for t, v in reversed(binds):
            term = "(bnd %s fun %s => %s)" % (t, v, term)
        return False, term

    def apply_list(self, ctor, elts, scope, assigned):
        names, binds = [], []
        for a in elts:
            pure, t = self.expr(a, scope, assigned)
            if pure:
                names.append(t)
            else:
                v = self.tmp()
                binds.append((t, v))
                names.append(v)
        term = "(%s [%s])" % (ctor, ", ".join(names))
        if not binds:
            return True, term
        term = "(.ok %s)" % term
        for t, v in reversed(binds):
            term = "(bnd %s fun %s => %s)" % (t, v, term)
        return False, term

    def _is_object_param(self, name):
        """the parameter is only ever used as the receiver of method calls (never read as a value, never assigned)."""
        recv = set()
        for n in ast.walk(self.fn):
            if isinstance(n, ast.Call) and isinstance(n.func, ast.Attribute) and isinstance(n.func.value, ast.Name) \
                    and n.func.value.id == name and not n.keywords:
                recv.add(id(n.func.value))
        for n in ast.walk(self.fn):
            if isinstance(n, ast.Name) and n.id == name and id(n) not in recv:
                return False
        return bool(recv)

    def apply_method(self, recv, attr, args, scope, assigned):
        names, binds = [], []
        for a in args:
            pure, t = self.expr(a, scope, assigned)
            if pure:
                names.append(t)
            else:
                v = self.tmp()
                binds.append((t, v))
                names.append(v)
        term = "(pyCallMethod e.%s %s [%s])" % (fld(recv.id), lean_str(attr), ", ".join(names))
        for t, v in reversed(binds):
            term = "(bnd %s fun %s => %s)" % (t, v, term)
        return False, term

    def callable_as_lambda(self, node, scope, assigned):
        """a first-class callable passed to map(): str, int, or <value>.index"""
        if isinstance(node, ast.Name) and node.id == "str":
            return "pyStr"
        if isinstance(node, ast.Name) and node.id == "int":
            return "pyInt"
        if isinstance(node, ast.Attribute) and node.attr == "index":
            pure, t = self.expr(node.value, scope, assigned)
            if not pure:
                raise Unsupported("%s: bound method of an impure expression" % self.name)
            return "(fun x => pyIndexOf %s x)" % t
        raise Unsupported("%s: callable passed to map" % self.name)

    def call(self, node, scope, assigned):
        f = node.func
        if isinstance(f, ast.Name):
            nm = f.id
            if nm in self.locals or nm in scope:
                raise Unsupported("%s: call of a local (%s) as an expression" % (self.name, nm))
            if nm in self.m.functions:
                callee = self.m.functions[nm]
                args = self.m.bind_args(callee, node, self.name)
                return self.apply("%s fuel" % nm, args, scope, assigned)
            if nm in self.m.numpy:
                return self.numpy_call(self.m.numpy[nm], node, scope, assigned)
            if node.keywords:
                raise Unsupported("%s: keyword arguments to builtin %s" % (self.name, nm))
            a = node.args
            if nm == "int" and len(a) == 1 and isinstance(a[0], ast.BinOp) and isinstance(a[0].op, ast.Div) \
                    and all(isinstance(x, ast.Call) and isinstance(x.func, ast.Name) and self.m.numpy.get(x.func.id) == "log"
                            and len(x.args) == 1 and not x.keywords for x in (a[0].left, a[0].right)):
                # int(log(a) / log(b)): the integer logarithm (Py/Value.lean, pyIntLogRatio)
                return self.apply("pyIntLogRatio", [a[0].left.args[0], a[0].right.args[0]], scope, assigned)
            if nm in self.m.collections and self.m.collections[nm] == "Counter" and len(a) == 1:
                return self.apply("pyCounter", a, scope, assigned)
            simple = {"int": ("pyInt", 1), "str": ("pyStr", 1), "len": ("pyLen", 1), "list": ("pyList", 1),
                      "enumerate": ("pyEnumerate", 1), "divmod": ("pyDivmod", 2)}
            if nm in simple and len(a) == simple[nm][1]:
                return self.apply(simple[nm][0], a, scope, assigned)
            if nm == "range" and 1 <= len(a) <= 3:
                return self.apply("pyRange%d" % len(a), a, scope, assigned)
            if nm == "set" and not a:
                return True, "(.set [])"
            if nm == "zip" and len(a) == 2:
                return self.apply("pyZip", a, scope, assigned)
            if nm == "sorted" and len(a) == 1:
                return self.apply("pySorted", a, scope, assigned)
            if nm == "filter" and len(a) == 2 and isinstance(a[0], ast.Lambda):
                lam = a[0]
                if len(lam.args.args) != 1 or lam.args.defaults or lam.args.vararg or lam.args.kwarg:
                    raise Unsupported("%s: lambda shape" % self.name)
                var = "it_%s" % lam.args.args[0].arg
                inner = dict(scope)
                inner[lam.args.args[0].arg] = var
                body = self.cond(lam.body, inner, assigned)
                return self.apply("pyFilter (fun %s => %s)" % (var, body), [a[1]], scope, assigned)
            if nm in self.m.itertools and self.m.itertools[nm] == "product" and len(a) == 1 and isinstance(a[0], ast.Starred):
                return self.apply("pyProduct", [a[0].value], scope, assigned)
            if nm in self.m.itertools and self.m.itertools[nm] == "combinations" and len(a) == 2 and \
                    isinstance(a[1], ast.Constant) and a[1].value == 2:
                return self.apply("pyCombinations2", [a[0]], scope, assigned)
            if nm == "map" and len(a) == 2:
                return self.apply("pyMap %s" % self.callable_as_lambda(a[0], scope, assigned), [a[1]], scope, assigned)
            if nm in self.m.monitor_classes and not a:
                return True, ".none"
            raise Unsupported("%s: call of %s/%d" % (self.name, nm, len(a)))
        if isinstance(f, ast.Attribute):
            if node.keywords:
                raise Unsupported("%s: keyword arguments to a method" % self.name)
            meth = {"zfill": ("pyZfill", 1), "join": ("pyJoin", 1), "index": ("pyIndexOf", 1),
                    "items": ("pyDictItems", 0), "keys": ("pyDictKeys", 0), "values": ("pyDictValues", 0),
                    "tolist": ("npToList", 0), "replace": ("pyReplace", 2), "upper": ("pyUpper", 0), "count": ("pyCount", 1)}
            if f.attr in meth and len(node.args) == meth[f.attr][1]:
                return self.apply(meth[f.attr][0], [f.value] + node.args, scope, assigned)
            if isinstance(f.value, ast.Name) and f.value.id in self.params and self._is_object_param(f.value.id):
                # a method of an object handed in by the caller (e.g. `bio_filter.valid(kmer)`): the object is
                # represented by the table of its answers (Py/Value.lean, `pyCallMethod`)
                return self.apply_method(f.value, f.attr, node.args, scope, assigned)
            if f.attr == "reshape" and len(node.args) == 1 and self.m.numpy and (
                    (isinstance(node.args[0], ast.UnaryOp) and isinstance(node.args[0].op, ast.USub)
                     and isinstance(node.args[0].operand, ast.Constant) and node.args[0].operand.value == 1)
                    or (isinstance(node.args[0], ast.Constant) and node.args[0].value == -1)):
                return self.apply("npFlatten", [f.value], scope, assigned)
            if f.attr == "copy" and not node.args:
                return self.expr(f.value, scope, assigned)          # values are immutable in the target: a copy is the value
            if f.attr == "astype" and len(node.args) == 1 and isinstance(node.args[0], ast.Name) and node.args[0].id in ("bool", "int"):
                return self.apply("npAstypeBool" if node.args[0].id == "bool" else "npAstypeInt", [f.value], scope, assigned)
            raise Unsupported("%s: method %s" % (self.name, f.attr))
        raise Unsupported("%s: call shape" % self.name)

    def numpy_call(self, real, node, scope, assigned):
        """a call of a name imported from NumPy (`real` is the NumPy name it is bound to)."""
        kws = {k.arg: k.value for k in node.keywords}
        a = list(node.args)

        def dtype_int_only():
            d = kws.pop("dtype", None)
            if d is not None and not (isinstance(d, ast.Name) and d.id == "int"):
                raise Unsupported("%s: dtype other than int" % self.name)

        def dtype_int_or_bool():
            d = kws.pop("dtype", None)
            if d is None or (isinstance(d, ast.Name) and d.id == "int"):
                return "int"
            if isinstance(d, ast.Name) and d.id == "bool":
                return "bool"
            raise Unsupported("%s: dtype other than int / bool" % self.name)
        if real == "where":
            if len(a) == 1 and not kws:
                return self.apply("npWhere", a, scope, assigned)
        elif real == "union1d":
            if len(a) == 2 and not kws:
                return self.apply("npUnion1d", a, scope, assigned)
        elif real in ("max", "unique", "argmax"):
            if len(a) == 1 and not kws:
                return self.apply({"max": "npMax", "unique": "npUnique", "argmax": "npArgmax"}[real], a, scope, assigned)
        elif real == "intersect1d":
            if len(a) == 2 and not kws:
                return self.apply("npIntersect1d", a, scope, assigned)
        elif real == "argsort":
            if len(a) == 1 and not kws:
                return self.apply("npArgsort", a, scope, assigned)
        elif real == "sum":
            if len(a) == 1 and not kws:
                return self.apply("npSum", a, scope, assigned)
            ax = kws.get("axis")
            if len(a) == 1 and len(kws) == 1 and isinstance(ax, ast.Constant) and ax.value == 1:
                return self.apply("npSumAxis1", a, scope, assigned)
        elif real == "array":
            dtype_int_only()
            if len(a) == 1 and not kws:
                return self.apply("npArray", a, scope, assigned)
        elif real in ("zeros", "ones"):
            dt = dtype_int_or_bool()
            shape = kws.pop("shape", None)
            if shape is not None and not a:
                a = [shape]
            if len(a) == 1 and not kws:
                if dt == "bool":
                    return self.apply("npZerosBool" if real == "zeros" else "npOnesBool", a, scope, assigned)
                if real == "zeros" and isinstance(a[0], ast.Tuple) and len(a[0].elts) == 2:
                    return self.apply("npZeros2", a[0].elts, scope, assigned)
                return self.apply("npZeros" if real == "zeros" else "npOnes", a, scope, assigned)
        raise Unsupported("%s: NumPy call %s" % (self.name, real))

    # conditions: term : R Bool
    def cond(self, node, scope, assigned):
        if isinstance(node, ast.Constant) and node.value is True:
            return "(.ok true)"
        if isinstance(node, ast.Constant) and node.value is False:
            return "(.ok false)"
        if isinstance(node, ast.UnaryOp) and isinstance(node.op, ast.Not):
            return "(bnd %s fun c => .ok (!c))" % self.cond(node.operand, scope, assigned)
        if isinstance(node, ast.BoolOp):
            terms = [self.cond(v, scope, assigned) for v in node.values]
            out = terms[-1]
            for t in reversed(terms[:-1]):
                if isinstance(node.op, ast.And):
                    out = "(bnd %s fun c => if c then %s else .ok false)" % (t, out)
                else:
                    out = "(bnd %s fun c => if c then .ok true else %s)" % (t, out)
            return out
        if isinstance(node, ast.Compare):
            # type(x) == str
            if (len(node.ops) == 1 and isinstance(node.ops[0], ast.Eq) and isinstance(node.left, ast.Call)
                    and isinstance(node.left.func, ast.Name) and node.left.func.id == "type"
                    and len(node.left.args) == 1 and isinstance(node.comparators[0], ast.Name)
                    and node.comparators[0].id in ("str", "int", "bool", "list", "tuple")):
                pure, t = self.expr(node.left.args[0], scope, assigned)
                if pure:
                    return "(.ok (pyTypeIs %s %s))" % (t, lean_str(node.comparators[0].id))
                v = self.tmp()
                return "(bnd %s fun %s => .ok (pyTypeIs %s %s))" % (t, v, v, lean_str(node.comparators[0].id))
            # x is None / x is not None / x in c / x not in c
            if len(node.ops) == 1 and isinstance(node.ops[0], (ast.Is, ast.IsNot)):
                other = node.comparators[0]
                if not (isinstance(other, ast.Constant) and other.value is None):
                    raise Unsupported("%s: identity test against something else than None" % self.name)
                pure, t = self.expr(node.left, scope, assigned)
                neg = "!" if isinstance(node.ops[0], ast.IsNot) else ""
                if pure:
                    return "(.ok (%spyIsNone %s))" % (neg, t)
                v = self.tmp()
                return "(bnd %s fun %s => .ok (%spyIsNone %s))" % (t, v, neg, v)
            if len(node.ops) == 1 and isinstance(node.ops[0], (ast.In, ast.NotIn)):
                _, t = self.apply("pyIn", [node.left, node.comparators[0]], scope, assigned)
                if isinstance(node.ops[0], ast.NotIn):
                    return "(bnd %s fun c => .ok (!c))" % t
                return t
            # general (possibly chained) comparison: every operand evaluated once, left to right,
            # short-circuiting like Python
            operands = [node.left] + list(node.comparators)
            for op in node.ops:
                if type(op) not in CMPOPS:
                    raise Unsupported("%s: comparison %s" % (self.name, type(op).__name__))

            def chain(i, left_term):
                pure, t = self.expr(operands[i + 1], scope, assigned)
                if pure:
                    right, wrap = t, None
                else:
                    right = self.tmp()
                    wrap = (t, right)
                this = "(%s %s %s)" % (CMPOPS[type(node.ops[i])], left_term, right)
                if i + 1 < len(node.ops):
                    this = "(bnd %s fun c => if c then %s else .ok false)" % (this, chain(i + 1, right))
                if wrap:
                    this = "(bnd %s fun %s => %s)" % (wrap[0], wrap[1], this)
                return this
            pure, t = self.expr(operands[0], scope, assigned)
            if pure:
                return chain(0, t)
            v = self.tmp()
            return "(bnd %s fun %s => %s)" % (t, v, chain(0, v))
        pure, t = self.expr(node, scope, assigned)
        if pure:
            return "(.ok (PV.truthy %s))" % t
        v = self.tmp()
        return "(bnd %s fun %s => .ok (PV.truthy %s))" % (t, v, v)

    # ------------------------------------------------------------------ statements
    # block() returns (term : R (Flow Env) with free variables e/fuel, set of definitely assigned names
    # after the block when it completes normally)
    def assign_names(self, pairs):
        return "{ e with %s }" % ", ".join("%s := %s" % (fld(n), v) for n, v in pairs)


    def store(self, target, value_term, assigned, rest_fn):
        """value_term : PV (a Lean variable or pure term). Returns the term that stores it and continues."""
        if isinstance(target, ast.Name):
            new = assigned | {target.id}
            return "let e : Env := %s\n%s" % (self.assign_names([(target.id, value_term)]), rest_fn(new))
        if isinstance(target, ast.Tuple) and all(isinstance(x, ast.Name) for x in target.elts):
            n = len(target.elts)
            items = self.tmp()
            new = assigned | {x.id for x in target.elts}
            pairs = [(x.id, "(%s.getD %d .none)" % (items, i)) for i, x in enumerate(target.elts)]
            return "bnd (pyUnpack %d %s) fun %s =>\nlet e : Env := %s\n%s" % (n, value_term, items, self.assign_names(pairs), rest_fn(new))
        if isinstance(target, ast.Tuple):
            # nested targets, e.g. `for i, (a, b) in enumerate(...)`: unpack level by level
            n = len(target.elts)
            items = self.tmp()

            def chain(i, asg):
                if i == n:
                    return rest_fn(asg)
                return self.store(target.elts[i], "(%s.getD %d .none)" % (items, i), asg, lambda a2: chain(i + 1, a2))
            return "bnd (pyUnpack %d %s) fun %s =>\n%s" % (n, value_term, items, chain(0, assigned))
        if isinstance(target, ast.Attribute) and isinstance(target.value, ast.Name) and self.is_init \
                and target.value.id == self.self_name:
            v = self.tmp()
            return "bnd (pySetAttr e.%s %s %s) fun %s =>\nlet e : Env := %s\n%s" % (
                fld(self.self_name), lean_str(target.attr), value_term, v, self.assign_names([(self.self_name, v)]), rest_fn(assigned))
        two = None
        if isinstance(target, ast.Subscript) and isinstance(target.value, ast.Subscript) and \
                isinstance(target.value.value, ast.Name) and not isinstance(target.slice, (ast.Slice, ast.Tuple)) and \
                not isinstance(target.value.slice, (ast.Slice, ast.Tuple)):
            two = (target.value.value, target.value.slice, target.slice)          # a[i][j] = v  (row view of an array)
        elif isinstance(target, ast.Subscript) and isinstance(target.value, ast.Name) and isinstance(target.slice, ast.Tuple) \
                and len(target.slice.elts) == 2 and not any(isinstance(x, ast.Slice) for x in target.slice.elts):
            two = (target.value, target.slice.elts[0], target.slice.elts[1])         # a[i, j] = v
        if two is not None:
            nm = two[0].id
            _, t = self.apply("npSetItem2", [two[0], two[1], two[2], ast.Name(id="\0val", ctx=ast.Load())],
                              {"\0val": value_term}, assigned)
            v = self.tmp()
            return "bnd %s fun %s =>\nlet e : Env := %s\n%s" % (t, v, self.assign_names([(nm, v)]), rest_fn(assigned))
        if isinstance(target, ast.Subscript) and isinstance(target.value, ast.Name):
            if isinstance(target.slice, ast.Slice):
                raise Unsupported("%s: slice assignment" % self.name)
            nm = target.value.id
            _, t = self.apply("pySetItem", [target.value, target.slice, ast.Name(id="\0val", ctx=ast.Load())],
                              {"\0val": value_term}, assigned)
            v = self.tmp()
            return "bnd %s fun %s =>\nlet e : Env := %s\n%s" % (t, v, self.assign_names([(nm, v)]), rest_fn(assigned))
        raise Unsupported("%s: assignment target %s" % (self.name, type(target).__name__))

    def block(self, stmts, assigned, in_loop):
        if not stmts:
            return ".ok (.norm e)", assigned
        st, rest = stmts[0], stmts[1:]

        result_assigned = {}

        def rest_fn(new_assigned):
            t, a = self.block(rest, new_assigned, in_loop)
            result_assigned["a"] = a
            return t

        def then_rest(term, new_assigned, can_interrupt=True):
            """term : R (Flow Env) for the statement alone; continue with rest under seq."""
            if not rest:
                return term, new_assigned
            t, a = self.block(rest, new_assigned, in_loop)
            # the statements after a compound statement become a named definition, so that a proof
            # about them is a lemma of its own
            self.cont_counter += 1
            kname = "%s.k%d" % (self.name, self.cont_counter)
            self.aux.append("def %s (fuel : Nat) (e : Env) : R (Flow Env) :=\n%s\n" % (kname, _indent(t)))
            return "seq (%s) (%s fuel)" % (term, kname), a

        if isinstance(st, ast.Expr) and isinstance(st.value, ast.Constant) and isinstance(st.value.value, str):
            return self.block(rest, assigned, in_loop)      # docstring
        if isinstance(st, ast.Pass):
            return self.block(rest, assigned, in_loop)
        if isinstance(st, ast.Return):
            if st.value is None:
                return ".ok (.ret .none)", assigned
            pure, t = self.expr(st.value, {}, assigned)
            if pure:
                return ".ok (.ret %s)" % t, assigned
            v = self.tmp()
            return "bnd %s fun %s => .ok (.ret %s)" % (t, v, v), assigned
        if isinstance(st, ast.Break):
            if not in_loop:
                raise Unsupported("break outside loop")
            return ".ok (.brk e)", assigned
        if isinstance(st, ast.Continue):
            if not in_loop:
                raise Unsupported("continue outside loop")
            return ".ok (.cnt e)", assigned
        if isinstance(st, ast.Raise):
            exc = st.exc
            cls = None
            if isinstance(exc, ast.Call) and isinstance(exc.func, ast.Name):
                cls = exc.func.id
            elif isinstance(exc, ast.Name):
                cls = exc.id
            if cls is None:
                raise Unsupported("%s: raise shape" % self.name)
            return ".error %s" % EXC.get(cls, ".other"), assigned
        if isinstance(st, ast.Assign):
            if len(st.targets) != 1:
                raise Unsupported("%s: chained assignment" % self.name)
            target = st.targets[0]
            # a, b = x, y  : evaluate every right-hand side first, then store
            if isinstance(target, ast.Tuple) and isinstance(st.value, ast.Tuple) and len(target.elts) == len(st.value.elts) \
                    and all(isinstance(x, ast.Name) for x in target.elts):
                binds, vals = [], []
                for v in st.value.elts:
                    pure, t = self.expr(v, {}, assigned)
                    if pure:
                        vals.append(t)
                    else:
                        nm = self.tmp()
                        binds.append((t, nm))
                        vals.append(nm)
                new = assigned | {x.id for x in target.elts}
                body = "let e : Env := %s\n%s" % (self.assign_names([(x.id, v) for x, v in zip(target.elts, vals)]), rest_fn(new))
                for t, nm in reversed(binds):
                    body = "bnd %s fun %s =>\n%s" % (t, nm, body)
                return body, result_assigned["a"]
            pure, t = self.expr(st.value, {}, assigned)
            if pure:
                body = self.store(target, t, assigned, rest_fn)
            else:
                v = self.tmp()
                body = "bnd %s fun %s =>\n%s" % (t, v, self.store(target, v, assigned, rest_fn))
            return body, result_assigned["a"]
        if isinstance(st, ast.AugAssign):
            if type(st.op) not in BINOPS:
                raise Unsupported("%s: augmented operator" % self.name)
            load = ast.copy_location(ast.fix_missing_locations(_as_load(st.target)), st.target)
            _, t = self.apply(self.binop(st.op), [load, st.value], {}, assigned)
            v = self.tmp()
            body = "bnd %s fun %s =>\n%s" % (t, v, self.store(st.target, v, assigned, rest_fn))
            return body, result_assigned["a"]
        if isinstance(st, ast.Expr) and isinstance(st.value, ast.Call):
            c = st.value
            if isinstance(c.func, ast.Name) and c.func.id in self.locals:
                # a call of a local object used as a statement: only the opaque progress monitor
                if self.m.is_monitor_local(self.fn, c.func.id):
                    return self.block(rest, assigned, in_loop)
                raise Unsupported("%s: call of local %s" % (self.name, c.func.id))
            if isinstance(c.func, ast.Attribute) and isinstance(c.func.value, ast.Name) and c.func.attr in ("insert", "append") \
                    and not c.keywords:
                nm = c.func.value.id
                prim = {"insert": ("pyInsert", 2), "append": ("pyAppend", 1)}[c.func.attr]
                if len(c.args) != prim[1]:
                    raise Unsupported("%s: %s arity" % (self.name, c.func.attr))
                _, t = self.apply(prim[0], [c.func.value] + c.args, {}, assigned)
                v = self.tmp()
                body = "bnd %s fun %s =>\nlet e : Env := %s\n%s" % (t, v, self.assign_names([(nm, v)]), rest_fn(assigned))
                return body, result_assigned["a"]
            if isinstance(c.func, ast.Attribute) and c.func.attr == "add" and len(c.args) == 1 and not c.keywords:
                tgt = c.func.value
                if isinstance(tgt, ast.Name):
                    _, t = self.apply("pySetAdd", [tgt, c.args[0]], {}, assigned)
                    v = self.tmp()
                    body = "bnd %s fun %s =>\nlet e : Env := %s\n%s" % (t, v, self.assign_names([(tgt.id, v)]), rest_fn(assigned))
                    return body, result_assigned["a"]
                if isinstance(tgt, ast.Subscript) and isinstance(tgt.value, ast.Name) and not isinstance(tgt.slice, (ast.Slice, ast.Tuple)):
                    # x[i].add(v): the i-th item of the list x is a set owned by x alone (see _check_aliasing)
                    _, t = self.apply("pySetAdd", [tgt, c.args[0]], {}, assigned)
                    v = self.tmp()
                    body = "bnd %s fun %s =>\n%s" % (t, v, self.store(tgt, v, assigned, rest_fn))
                    return body, result_assigned["a"]
            if isinstance(c.func, ast.Name) and c.func.id == "print":
                return self.block(rest, assigned, in_loop)      # console output: not modelled (like the monitor)
            if (self.is_init and isinstance(c.func, ast.Attribute) and c.func.attr == "__init__"
                    and isinstance(c.func.value, ast.Call) and isinstance(c.func.value.func, ast.Name)
                    and c.func.value.func.id == "super" and not c.func.value.args and not c.func.value.keywords):
                # super().__init__(...): the base class constructor continues building the same object
                bases = self.cls.bases
                if len(bases) != 1 or not isinstance(bases[0], ast.Name) or (bases[0].id, "__init__") not in self.m.methods:
                    raise Unsupported("%s: base class constructor is not translated" % self.name)
                callee = self.m.methods[(bases[0].id, "__init__")]
                args = self.m.bind_args(callee, c, self.name, skip_self=True)
                _, t = self.apply("%s.__init__ fuel e.%s" % (bases[0].id, fld(self.self_name)), args, {}, assigned)
                v = self.tmp()
                body = "bnd %s fun %s =>\nlet e : Env := %s\n%s" % (t, v, self.assign_names([(self.self_name, v)]), rest_fn(assigned))
                return body, result_assigned["a"]
            raise Unsupported("%s: expression statement" % self.name)
        if isinstance(st, ast.Delete) and len(st.targets) == 1 and isinstance(st.targets[0], ast.Name) and \
                st.targets[0].id in self.locals:
            nm = st.targets[0].id
            return "let e : Env := %s\n%s" % (self.assign_names([(nm, ".unbound")]), rest_fn(assigned - {nm})), result_assigned["a"]
        if isinstance(st, ast.Delete) and len(st.targets) == 1 and isinstance(st.targets[0], ast.Subscript) and \
                isinstance(st.targets[0].value, ast.Subscript) and isinstance(st.targets[0].value.value, ast.Name) and \
                not isinstance(st.targets[0].slice, (ast.Slice, ast.Tuple)) and \
                not isinstance(st.targets[0].value.slice, (ast.Slice, ast.Tuple)):
            # del x[i][j]: the item x[i] without its j-th element is stored back into x (x owns its items: see _check_aliasing)
            outer = st.targets[0].value
            _, t = self.apply("pyDelItem", [outer, st.targets[0].slice], {}, assigned)
            v = self.tmp()
            body = "bnd %s fun %s =>\n%s" % (t, v, self.store(outer, v, assigned, rest_fn))
            return body, result_assigned["a"]
        if isinstance(st, ast.Delete):
            if len(st.targets) != 1 or not isinstance(st.targets[0], ast.Subscript) or \
                    not isinstance(st.targets[0].value, ast.Name) or isinstance(st.targets[0].slice, (ast.Slice, ast.Tuple)):
                raise Unsupported("%s: del shape" % self.name)
            tgt = st.targets[0]
            _, t = self.apply("pyDelItem", [tgt.value, tgt.slice], {}, assigned)
            v = self.tmp()
            body = "bnd %s fun %s =>\nlet e : Env := %s\n%s" % (t, v, self.assign_names([(tgt.value.id, v)]), rest_fn(assigned))
            return body, result_assigned["a"]
        if isinstance(st, ast.If):
            c = self.cond(st.test, {}, assigned)
            ta, aa = self.block(st.body, assigned, in_loop)
            tb, ab = self.block(st.orelse, assigned, in_loop)
            after = set(assigned)
            ends_a, ends_b = _always_leaves(st.body), _always_leaves(st.orelse)
            if ends_a and ends_b:
                after = aa & ab
            elif ends_a:
                after = ab
            elif ends_b:
                after = aa
            else:
                after = aa & ab
            term = "bnd %s fun c =>\nif c then\n%s\nelse\n%s" % (c, _indent(ta), _indent(tb))
            return then_rest(term, after)
        if isinstance(st, ast.For):
            if st.orelse:
                raise Unsupported("%s: for-else" % self.name)
            self.loop_counter += 1
            lname = "%s.for%d_body" % (self.name, self.loop_counter)
            # body definition: bind the loop target, then the statements
            inner_assigned = set(assigned)
            holder = {}

            def body_rest(new):
                t, a = self.block(st.body, new, True)
                holder["a"] = a
                return t
            body_term = self.store(st.target, "x", inner_assigned, body_rest)
            self.aux.append("def %s (fuel : Nat) (x : PV) (e : Env) : R (Flow Env) :=\n%s\n" % (lname, _indent(body_term)))
            pure, it = self.expr(st.iter, {}, assigned)
            if pure:
                term = "bnd (pyIter %s) fun items => forLoop (%s fuel) items e" % (it, lname)
            else:
                v = self.tmp()
                term = "bnd %s fun %s => bnd (pyIter %s) fun items => forLoop (%s fuel) items e" % (it, v, v, lname)
            return then_rest(term, assigned)
        if isinstance(st, ast.While):
            if st.orelse:
                raise Unsupported("%s: while-else" % self.name)
            self.loop_counter += 1
            base = "%s.while%d" % (self.name, self.loop_counter)
            c = self.cond(st.test, {}, assigned)
            tb, _ = self.block(st.body, assigned, True)
            self.aux.append("def %s_cond (fuel : Nat) (e : Env) : R Bool :=\n%s\n" % (base, _indent(c)))
            self.aux.append("def %s_body (fuel : Nat) (e : Env) : R (Flow Env) :=\n%s\n" % (base, _indent(tb)))
            term = "whileLoop (%s_cond fuel) (%s_body fuel) fuel e" % (base, base)
            after = assigned
            if isinstance(st.test, ast.Constant) and st.test.value is True:
                # `while True` is left only through break (or return): what the body assigns before its
                # unconditional top-level statements finish is assigned afterwards if every break comes after them
                after = assigned | _assigned_before_first_break(st.body)
            return then_rest(term, after)
        raise Unsupported("%s: statement %s" % (self.name, type(st).__name__))

    def translate(self):
        body, _ = self.block(self.fn.body, set(self.params), False)
        out = []
        out.append("structure %s.Env where" % self.name)
        for v in self.locals:
            out.append("  %s : PV := .unbound" % fld(v))
        out.append("")
        aux = [a.replace("(e : Env)", "(e : %s.Env)" % self.name).replace("(Flow Env)", "(Flow %s.Env)" % self.name)
               .replace("let e : Env :=", "let e : %s.Env :=" % self.name) for a in self.aux]
        out += aux
        body = body.replace("let e : Env :=", "let e : %s.Env :=" % self.name)
        out.append("def %s.body (fuel : Nat) (e : %s.Env) : R (Flow %s.Env) :=\n%s\n" % (self.name, self.name, self.name, _indent(body)))
        params = " ".join(fld(p) for p in self.params)
        init = ", ".join("%s := %s" % (fld(p), fld(p)) for p in self.params)
        if self.is_init:
            out.append("def %s (fuel : Nat) (%s : PV) : RV :=\n  initResult (%s.body fuel { %s }) (·.%s)\n" % (
                self.name, params, self.name, init, fld(self.self_name)))
        else:
            out.append("def %s (fuel : Nat) (%s : PV) : RV :=\n  callResult (%s.body fuel { %s })\n" % (self.name, params, self.name, init))
        return "\n".join(out)


def _integral_default(fn, param, const):
    """an integral float default (e.g. `heap_size=1e3`) is passed as the equal int, but only when the parameter is
    used in the function exclusively as an operand of comparisons (where 1000.0 and 1000 behave alike)."""
    if not isinstance(const.value, float):
        return const
    if const.value != int(const.value):
        raise Unsupported("%s: non-integral float default" % fn.name)
    uses = [n for n in ast.walk(fn) if isinstance(n, ast.Name) and n.id == param and isinstance(n.ctx, ast.Load)]
    in_cmp = set()
    for c in ast.walk(fn):
        if isinstance(c, ast.Compare) and all(type(o) in CMPOPS for o in c.ops):
            for operand in [c.left] + list(c.comparators):
                if isinstance(operand, ast.Name) and operand.id == param:
                    in_cmp.add(id(operand))
    if any(id(u) not in in_cmp for u in uses) or any(
            isinstance(n, ast.Name) and n.id == param and isinstance(n.ctx, ast.Store) for n in ast.walk(fn)):
        raise Unsupported("%s: float default of %s is used outside comparisons" % (fn.name, param))
    return ast.copy_location(ast.Constant(value=int(const.value)), const)


def _as_load(target):
    t = ast.parse(ast.unparse(target), mode="eval").body
    return t


def _indent(s, n=2):
    return "\n".join((" " * n + l) if l else l for l in s.split("\n"))


def _always_leaves(stmts):
    """the block never completes normally (ends in return / raise / break / continue on every path)."""
    for st in stmts:
        if isinstance(st, (ast.Return, ast.Raise, ast.Break, ast.Continue)):
            return True
        if isinstance(st, ast.If) and st.orelse and _always_leaves(st.body) and _always_leaves(st.orelse):
            return True
    return False


def _assigned_before_first_break(stmts):
    out = set()
    for st in stmts:
        if any(isinstance(n, (ast.Break, ast.Continue)) for n in ast.walk(st)):
            break
        if isinstance(st, ast.Assign):
            for t in st.targets:
                if isinstance(t, ast.Name):
                    out.add(t.id)
                elif isinstance(t, ast.Tuple):
                    out |= {x.id for x in t.elts if isinstance(x, ast.Name)}
    return out


class ModuleTranslator:
    def __init__(self, source, wanted=None, imported=None):
        """`imported`: {module name: ModuleTranslator already translated} for `from dsw.<module> import f` calls."""
        self.tree = ast.parse(source)
        self.functions = {}          # callable names -> FunctionDef (own functions and imported translated ones)
        self.order = []              # own translated functions, in source order
        self.skipped_functions = {}  # own functions outside the fragment -> reason
        self.wanted = wanted
        self.classes = [n for n in self.tree.body if isinstance(n, ast.ClassDef)]
        # a class none of whose methods is translated is opaque (the progress monitor): see `is_monitor_local`
        self.monitor_classes = {n.name for n in self.classes}
        self.methods = {}            # (class, method) -> FunctionDef, translated methods only
        self.method_order = []
        self.skipped_class_reasons = {}
        self.numpy = {}              # local name -> NumPy name
        self.itertools = {}          # local name -> itertools name
        self.collections = {}        # local name -> collections name
        self.lean_imports = []
        imported = imported or {}
        for node in self.tree.body:
            if isinstance(node, ast.ImportFrom) and node.module == "itertools":
                for al in node.names:
                    self.itertools[al.asname or al.name] = al.name
            elif isinstance(node, ast.ImportFrom) and node.module == "collections":
                for al in node.names:
                    self.collections[al.asname or al.name] = al.name
            elif isinstance(node, ast.ImportFrom) and node.module == "numpy":
                for al in node.names:
                    self.numpy[al.asname or al.name] = al.name
            elif isinstance(node, ast.ImportFrom) and node.module and node.module.startswith("dsw."):
                mod = node.module.split(".", 1)[1]
                other = imported.get(mod)
                for al in node.names:
                    nm = al.asname or al.name
                    if other is not None and al.name in other.order and al.asname is None:
                        self.functions[nm] = other.functions[al.name]
                        if other.lean_module not in self.lean_imports:
                            self.lean_imports.append(other.lean_module)
                    elif other is not None and al.name in other.monitor_classes:
                        self.monitor_classes.add(nm)
                    # anything else stays unknown: a call of it makes the calling function untranslatable

    def is_monitor_local(self, fn, name):
        """the local is only ever assigned from a call of a class of this module (the progress monitor)."""
        ok = False

        def is_monitor_ctor(v):
            return isinstance(v, ast.Call) and isinstance(v.func, ast.Name) and v.func.id in self.monitor_classes and not v.args
        for node in ast.walk(fn):
            if isinstance(node, ast.Assign):
                for t in node.targets:
                    if isinstance(t, ast.Name) and t.id == name:
                        if is_monitor_ctor(node.value):
                            ok = True
                        else:
                            return False
                    elif isinstance(t, ast.Tuple):
                        for i, el in enumerate(t.elts):
                            if isinstance(el, ast.Name) and el.id == name:
                                if isinstance(node.value, ast.Tuple) and len(node.value.elts) == len(t.elts) and \
                                        is_monitor_ctor(node.value.elts[i]):
                                    ok = True
                                else:
                                    return False
        return ok

    def bind_args(self, callee, call, caller, skip_self=False):
        params = [a.arg for a in callee.args.args]
        if skip_self:
            params = params[1:]
        defaults = callee.args.defaults
        first_default = len(params) - len(defaults)
        slots = [None] * len(params)
        if len(call.args) > len(params):
            raise Unsupported("%s: too many arguments to %s" % (caller, callee.name))
        for i, a in enumerate(call.args):
            slots[i] = a
        for kw in call.keywords:
            if kw.arg is None or kw.arg not in params:
                raise Unsupported("%s: keyword %s of %s" % (caller, kw.arg, callee.name))
            i = params.index(kw.arg)
            if slots[i] is not None:
                raise Unsupported("%s: duplicate argument" % caller)
            slots[i] = kw.value
        for i in range(len(params)):
            if slots[i] is None:
                if i < first_default:
                    raise Unsupported("%s: missing argument %s of %s" % (caller, params[i], callee.name))
                d = defaults[i - first_default]
                if not isinstance(d, ast.Constant):
                    raise Unsupported("%s: non-constant default" % callee.name)
                slots[i] = _integral_default(callee, params[i], d)
        return slots

    def _dependency_order(self):
        """module functions, callees before callers (Python resolves names at call time, Lean needs the
        definition first); members of a call cycle keep source order and fail later as `call of …`."""
        defs = [n for n in self.tree.body if isinstance(n, ast.FunctionDef)]
        names = {d.name for d in defs}
        calls = {d.name: sorted({c.func.id for c in ast.walk(d) if isinstance(c, ast.Call) and isinstance(c.func, ast.Name)
                                 and c.func.id in names and c.func.id != d.name}) for d in defs}
        by_name = {d.name: d for d in defs}
        order, state = [], {}

        def visit(n):
            if state.get(n) == 2:
                return
            if state.get(n) == 1:
                return                      # cycle
            state[n] = 1
            for c in calls[n]:
                visit(c)
            state[n] = 2
            order.append(by_name[n])
        for d in defs:
            visit(d.name)
        return order

    def translate(self):
        chunks = []
        skipped = [n.name for n in self.tree.body if isinstance(n, ast.ClassDef)]
        for node in self._dependency_order():
            if isinstance(node, ast.FunctionDef):
                if self.wanted and node.name not in self.wanted:
                    continue
                try:
                    if node.decorator_list:
                        raise Unsupported("%s: decorators" % node.name)
                    ft = FunctionTranslator(self, node)
                    text = ft.translate()
                except Unsupported as ex:
                    # outside the fragment: this function (and every function calling it) is left to the
                    # correspondence alone
                    self.skipped_functions[node.name] = str(ex)
                    self.functions.pop(node.name, None)
                    continue
                # the name becomes callable by later functions only after it has been translated
                self.functions[node.name] = node
                self.order.append(node.name)
                chunks.append("/-! ### `%s` (source line %d) -/\n\n%s" % (node.name, node.lineno, text))
        # classes: a class is translated when every method other than the display methods lies in the fragment
        # (otherwise it stays opaque, like the progress monitor); base classes first (source order)
        for cls in self.classes:
            if self.wanted and cls.name not in self.wanted:
                continue
            texts, failed = [], None
            for node in cls.body:
                if not isinstance(node, ast.FunctionDef):
                    continue
                full = "%s.%s" % (cls.name, node.name)
                if node.name in ("__str__", "__repr__"):
                    self.skipped_functions[full] = "%s: display method" % full
                    continue
                try:
                    if node.decorator_list:
                        raise Unsupported("%s: decorators" % full)
                    if any(not (isinstance(b, ast.Name) and (b.id == "object" or any(c.name == b.id for c in self.classes)))
                           for b in cls.bases):
                        raise Unsupported("%s: base class outside the module" % full)
                    texts.append((node, FunctionTranslator(self, node, cls).translate()))
                    self.methods[(cls.name, node.name)] = node       # visible to later methods / subclasses
                except Unsupported as ex:
                    failed = str(ex)
                    break
            if failed is not None or not texts:
                for node, _ in texts:
                    self.methods.pop((cls.name, node.name), None)
                if failed is not None:
                    self.skipped_class_reasons[cls.name] = failed
                continue
            for node, text in texts:
                self.method_order.append((cls.name, node.name))
                chunks.append("/-! ### `%s.%s` (source line %d) -/\n\n%s" % (cls.name, node.name, node.lineno, text))
            skipped.remove(cls.name)
            self.monitor_classes.discard(cls.name)
        return chunks, skipped


HEADER = """import DswModel.Py.Value
%s/-!
# GENERATED by harness/py2lean.py from `dsw/%s` — do not edit.

One definition per Python function (`<name> fuel args…`), one per loop body / loop condition / continuation.
Regenerated on every run of the checks; the committed copy is what `lake build` compiled.
Classes skipped (not translated, see DESIGN.md §11): %s.
Functions outside the translator's fragment (left to the correspondence alone): %s.
-/
set_option linter.unusedVariables false
namespace Dsw.Gen
open Dsw Dsw.Py

"""


def dispatcher(mt, modname):
    """`dispatch_<module> fuel name args`: lets the line-protocol driver call any translated function."""
    lines = ["/-- generated dispatcher for the line protocol (`gen <function> <args…>`). -/",
             "def dispatch_%s (fuel : Nat) (name : String) (args : List PV) : Option RV :=" % modname,
             "  match name, args with"]
    for nm in mt.order:
        n = len(mt.functions[nm].args.args)
        vs = ["a%d" % i for i in range(n)]
        lines.append("  | %s, [%s] => some (%s fuel %s)" % (lean_str(nm), ", ".join(vs), nm, " ".join(vs)))
    for cn, mn in mt.method_order:
        n = len(mt.methods[(cn, mn)].args.args)
        if mn == "__init__":
            vs = ["a%d" % i for i in range(n - 1)]
            lines.append("  | %s, [%s] => some (%s.__init__ fuel (.dict [] []) %s)" % (lean_str(cn), ", ".join(vs), cn, " ".join(vs)))
        else:
            vs = ["a%d" % i for i in range(n)]
            lines.append("  | %s, [%s] => some (%s.%s fuel %s)" % (lean_str("%s.%s" % (cn, mn)), ", ".join(vs), cn, mn, " ".join(vs)))
    lines.append("  | _, _ => Option.none")
    return "\n".join(lines)


def lean_module_name(basename):
    modname = basename[:-3] if basename.endswith(".py") else basename
    return "DswModel.Gen." + modname[0].upper() + modname[1:]


def translate_module(source, basename, wanted=None, imported=None):
    """returns (Lean text, ModuleTranslator)."""
    mt = ModuleTranslator(source, wanted, imported)
    mt.lean_module = lean_module_name(basename)
    chunks, skipped = mt.translate()
    modname = basename[:-3] if basename.endswith(".py") else basename
    imports = "".join("import %s\n" % m for m in mt.lean_imports)
    notes = ", ".join(sorted(mt.skipped_functions)) or "none"      # (the reasons are reported in the evidence)
    text = (HEADER % (imports, basename, ", ".join(skipped) or "none", notes) + "\n\n".join(chunks) + "\n\n" +
            dispatcher(mt, modname) + "\n\nend Dsw.Gen\n")
    return text, mt


def translate_source(source, basename, wanted=None):
    text, mt = translate_module(source, basename, wanted)
    return text, mt.order


def translate_package(repo, modules=("operation", "graphized", "spiderweb", "biofilter")):
    """translate dsw/<m>.py for each m in order; later modules may call translated functions of earlier ones.
    returns {module: (text, ModuleTranslator)}."""
    import os
    done, out = {}, {}
    for m in modules:
        src = open(os.path.join(repo, "dsw", m + ".py")).read()
        text, mt = translate_module(src, m + ".py", imported=done)
        done[m] = mt
        out[m] = (text, mt)
    return out


if __name__ == "__main__":
    import os
    path = sys.argv[1]
    base = os.path.basename(path)
    try:
        repo = os.path.dirname(os.path.dirname(os.path.abspath(path)))
        text = translate_package(repo)[base[:-3]][0]
    except Unsupported as ex:
        sys.stderr.write("unsupported: %s\n" % ex)
        sys.exit(3)
    sys.stdout.write(text)
