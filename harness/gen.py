"""Structured input generators. Every random choice comes from the `random.Random` passed in,
so a run is reproducible from VERIF_SEED. Nothing here calls `dsw`."""
import itertools

NUC = "ACGT"


def kmer(v, k):
    s = []
    for _ in range(k):
        s.append(NUC[v % 4])
        v //= 4
    return "".join(reversed(s))


def kmer_idx(s):
    n = 0
    for c in s:
        n = n * 4 + NUC.index(c)
    return n


def succ(v, j, k):
    return (v * 4 + j) % (4 ** k)


# ------------------------------------------------------------------ graphs (as nibble lists)
class Graph:
    """arc subset of the order-k de Bruijn graph: nib[v] has bit j set iff arc v -> succ(v, j)."""

    def __init__(self, k, nib):
        self.k, self.n, self.nib = k, 4 ** k, list(nib)

    def token(self):
        return "d%d:%s" % (self.k, "".join("0123456789abcdef"[b] for b in self.nib))

    def live(self, v):
        return [j for j in range(4) if (self.nib[v] >> j) & 1]

    def deg(self, v):
        return bin(self.nib[v]).count("1")

    def nxt(self, v, j):
        return succ(v, j, self.k) if (self.nib[v] >> j) & 1 else -1

    def rows(self):
        return [[self.nxt(v, j) for j in range(4)] for v in range(self.n)]

    def vertices(self):
        return [v for v in range(self.n) if self.nib[v]]

    def arcs(self):
        return sum(self.deg(v) for v in range(self.n))

    def is_walk(self, v, s):
        for c in s:
            if c not in NUC:
                return False
            j = NUC.index(c)
            if not (self.nib[v] >> j) & 1:
                return False
            v = succ(v, j, self.k)
        return True

    def end(self, v, s):
        for c in s:
            v = succ(v, NUC.index(c), self.k)
        return v

    def degrees_seen(self, v, s):
        out = []
        for c in s:
            out.append(self.deg(v))
            v = succ(v, NUC.index(c), self.k)
        return out

    def reachable(self, v):
        seen, todo = {v}, [v]
        while todo:
            u = todo.pop()
            for j in self.live(u):
                w = succ(u, j, self.k)
                if w not in seen:
                    seen.add(w)
                    todo.append(w)
        return seen

    def well_formed_from(self, v):
        """every vertex reachable from v has an arc and can reach a branching vertex."""
        reach = self.reachable(v)
        if any(self.nib[u] == 0 for u in reach):
            return False
        good = {u for u in reach if self.deg(u) >= 2}
        changed = True
        while changed:
            changed = False
            for u in reach:
                if u not in good and any(succ(u, j, self.k) in good for j in self.live(u)):
                    good.add(u)
                    changed = True
        return good == reach

    def has_deg3_from(self, v):
        return any(self.deg(u) == 3 for u in self.reachable(v))


def induced(k, mask):
    n = 4 ** k
    nib = []
    for v in range(n):
        b = 0
        if mask[v]:
            for j in range(4):
                if mask[succ(v, j, k)]:
                    b |= 1 << j
        nib.append(b)
    return Graph(k, nib)


def gfp_mask(k, mask, t):
    """greatest subset S of mask with every v in S having >= t successors in S (and, for t = 1,
    reaching a vertex with >= 2 successors in S). Independent oracle for C03."""
    n = 4 ** k
    S = [bool(x) for x in mask]
    while True:
        changed = False
        # out-degree rule
        while True:
            drop = [v for v in range(n) if S[v] and sum(S[succ(v, j, k)] for j in range(4)) < t]
            if not drop:
                break
            changed = True
            for v in drop:
                S[v] = False
        if t == 1:
            good = {v for v in range(n) if S[v] and sum(S[succ(v, j, k)] for j in range(4)) >= 2}
            grew = True
            while grew:
                grew = False
                for v in range(n):
                    if S[v] and v not in good and any(S[succ(v, j, k)] and succ(v, j, k) in good for j in range(4)):
                        good.add(v)
                        grew = True
            for v in range(n):
                if S[v] and v not in good:
                    S[v] = False
                    changed = True
        if not changed:
            return S


def rand_mask(rng, k, p=None):
    n = 4 ** k
    if p is None:
        p = rng.choice([0.15, 0.3, 0.5, 0.7, 0.85, 0.95, 1.0])
    return [1 if rng.random() < p else 0 for _ in range(n)]


def rand_arc_subset(rng, k, p=None):
    n = 4 ** k
    if p is None:
        p = rng.choice([0.2, 0.4, 0.6, 0.8, 0.95])
    return Graph(k, [sum((1 << j) for j in range(4) if rng.random() < p) for _ in range(n)])


def rand_profile_graph(rng, k):
    """degree-profile directed: each vertex draws its out-degree from a profile, so chains of
    out-degree 1, out-degree 3, dead ends and 4-way vertices all occur."""
    n = 4 ** k
    prof = rng.choice([[1, 2], [1, 1, 2], [1, 2, 3, 4], [2, 4], [1, 2, 4], [0, 1, 2, 3, 4], [1, 1, 1, 2], [3, 4], [2, 3]])
    nib = []
    for _ in range(n):
        d = rng.choice(prof)
        cols = rng.sample(range(4), d)
        nib.append(sum(1 << j for j in cols))
    return Graph(k, nib)


def rand_coding_graph(rng, k, t=None, tries=50):
    """a generated graph (what connect_coding_graph returns), built by the independent oracle."""
    for _ in range(tries):
        tt = t if t is not None else rng.choice([1, 1, 2, 2, 3])
        p = {1: rng.choice([0.3, 0.5, 0.7, 0.9]), 2: rng.choice([0.6, 0.8, 0.95]), 3: rng.choice([0.9, 0.97, 1.0]),
             4: 1.0}[tt]
        S = gfp_mask(k, rand_mask(rng, k, p), tt)
        if any(S):
            return induced(k, S), tt
    return induced(k, [1] * 4 ** k), 4


def rand_wellformed(rng, k, no_deg3=False, tries=200):
    """(graph, start) with the C01 precondition, mixing out-degrees 1..4."""
    for _ in range(tries):
        g = rng.choice([rand_profile_graph, rand_arc_subset])(rng, k)
        if rng.random() < 0.3:
            g = rand_coding_graph(rng, k)[0]
        vs = g.vertices()
        rng.shuffle(vs)
        for v in vs[:8]:
            if g.well_formed_from(v) and not (no_deg3 and g.has_deg3_from(v)):
                return g, v
    g = induced(k, [1] * 4 ** k)
    return g, rng.randrange(g.n)


def complete(k):
    return induced(k, [1] * 4 ** k)


def gc_balanced2():
    return induced(2, [0, 1, 1, 0, 1, 0, 0, 1, 1, 0, 0, 1, 0, 1, 1, 0])


# ------------------------------------------------------------------ tables, messages, strands
def rand_table(rng, k, kind=None):
    n = 4 ** k
    kind = kind or rng.choice(["none", "none", "identity", "reverse", "random", "random"])
    if kind == "none":
        return None
    if kind == "identity":
        return [[0, 1, 2, 3] for _ in range(n)]
    if kind == "reverse":
        return [[3, 2, 1, 0] for _ in range(n)]
    rows = []
    for _ in range(n):
        r = [0, 1, 2, 3]
        rng.shuffle(r)
        rows.append(r)
    return rows


def tbl_token(t):
    return "-" if t is None else "".join(str(e) for r in t for e in r)


def rand_bits(rng, maxlen=64):
    L = rng.choice([0, 1, 2, 3, 4, 5, 7, 8, 9, 16, 17, 31, 32, 33, maxlen])
    L = min(L, maxlen)
    kind = rng.random()
    if kind < 0.1:
        return [0] * L
    if kind < 0.2:
        return [1] * L
    if kind < 0.35:
        z = rng.randrange(L + 1)
        return [0] * z + [rng.randrange(2) for _ in range(L - z)]
    return [rng.randrange(2) for _ in range(L)]


def bits_token(bits):
    return "".join(str(b) for b in bits) or "-"


def rand_walk(rng, g, v, n):
    s = []
    for _ in range(n):
        live = g.live(v)
        if not live:
            break
        j = rng.choice(live)
        s.append(NUC[j])
        v = succ(v, j, g.k)
    return "".join(s)


def rand_dna(rng, n, alphabet=NUC):
    return "".join(rng.choice(alphabet) for _ in range(n))


def apply_edit(s, e):
    kind, p, c = e
    if kind == "S":
        return s[:p] + c + s[p + 1:]
    if kind == "I":
        return s[:p] + c + s[p:]
    return s[:p] + s[p + 1:]


def all_single_edits(s, lo=0, hi=None):
    hi = len(s) if hi is None else hi
    for p in range(lo, hi):
        for c in NUC:
            if c != s[p]:
                yield ("S", p, c)
        for c in NUC:
            yield ("I", p, c)
        yield ("D", p, s[p])


def rand_edit(rng, s, p=None, kinds="SID"):
    p = rng.randrange(len(s)) if p is None else p
    kind = rng.choice(kinds)
    if kind == "S":
        return ("S", p, rng.choice([c for c in NUC if c != s[p]]))
    if kind == "I":
        return ("I", p, rng.choice(NUC))
    return ("D", p, s[p])


def tok(s):
    return s if s != "" else "-"


def all_strings(alphabet, maxlen):
    for n in range(maxlen + 1):
        for t in itertools.product(alphabet, repeat=n):
            yield "".join(t)
