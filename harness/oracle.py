"""Independent oracles, written from the property statements (not from the Lean model and not
calling `dsw`). Used for the direct sweep and the failing-input search."""
from gen import NUC, succ


# ---------------------------------------------------------------- C05 reference coder
def rank_order(live, row):
    """live columns in digit order: d-th live arc in ACGT order, or by table entry."""
    if row is None:
        return list(live)
    return sorted(live, key=lambda j: row[j])


def ref_encode_normal(g, tbl, v, bits):
    val = 0
    for b in bits:
        val = val * 2 + b
    out = []
    steps = 0
    limit = (len(bits) + 1) * g.n + 5
    while val != 0:
        live = g.live(v)
        if not live:
            return None
        if len(live) > 1:
            d = val % len(live)
            val //= len(live)
            j = rank_order(live, None if tbl is None else tbl[v])[d]
        else:
            j = live[0]
        out.append(NUC[j])
        v = succ(v, j, g.k)
        steps += 1
        if steps > limit:
            return None
    return "".join(out)


def ref_encode_fast(g, tbl, v, bits):
    out, loc, steps = [], 0, 0
    limit = (len(bits) + 1) * g.n + 5
    while loc < len(bits):
        live = g.live(v)
        r = len(live)
        if r == 4:
            d = bits[loc] * 2 + (bits[loc + 1] if loc + 1 < len(bits) else 0)
            loc += 2
        elif r == 2:
            d = bits[loc]
            loc += 1
        elif r == 1:
            d = 0
        else:
            return None
        j = rank_order(live, None if tbl is None else tbl[v])[d]
        out.append(NUC[j])
        v = succ(v, j, g.k)
        steps += 1
        if steps > limit:
            return None
    return "".join(out)


def walk_digits(g, tbl, v, s):
    """[(radix, digit)] along the walk (all vertices, radix 1 included)."""
    out = []
    for c in s:
        live = g.live(v)
        j = NUC.index(c)
        order = rank_order(live, None if tbl is None else tbl[v])
        out.append((len(live), order.index(j)))
        v = succ(v, j, g.k)
    return out


def walk_value(g, tbl, v, s):
    val, mul = 0, 1
    for r, d in walk_digits(g, tbl, v, s):
        if r > 1:
            val += d * mul
            mul *= r
    return val


def bits_be(val, L):
    return [(val >> (L - 1 - i)) & 1 for i in range(L)]


def fast_bits(g, tbl, v, s):
    out = []
    for r, d in walk_digits(g, tbl, v, s):
        if r == 4:
            out += [d // 2, d % 2]
        elif r == 2:
            out.append(d)
    return out


# ---------------------------------------------------------------- C07
def vt_ref(s, n):
    vals = [NUC.index(c) for c in s]
    flag = sum(vals) % 4
    asc = sum(i for i in range(len(vals) - 1) if vals[i] < vals[i + 1]) % (4 ** (n - 1))
    digs = []
    for _ in range(n - 1):
        digs.append(NUC[asc % 4])
        asc //= 4
    return NUC[flag] + "".join(reversed(digs))


# ---------------------------------------------------------------- C12
COMP = {"A": "T", "C": "G", "G": "C", "T": "A"}


def revcomp(s):
    return "".join(COMP.get(c, c) for c in reversed(s))


def filter_ref(k, run, motifs, gc, s):
    """the documented whole-sequence predicate; `gc` = [lo, hi] floats or None."""
    if any(c not in NUC for c in s):
        return False
    if run is not None:
        cur, prev = 0, None
        for c in s:
            cur = cur + 1 if c == prev else 1
            prev = c
            if cur > run:
                return False
    if motifs is not None:
        for m in motifs:
            if m in s or revcomp(m) in s:
                return False
    if gc is not None:
        lo, hi = gc
        if len(s) >= k:
            for i in range(len(s) - k + 1):
                w = s[i:i + k]
                g = sum(1 for c in w if c in "GC")
                if g > hi * k or g < lo * k:
                    return False
        else:
            g = sum(1 for c in s if c in "GC")
            at = len(s) - g
            if g > hi * k or at > k - lo * k:
                return False
    return True


# ---------------------------------------------------------------- C17 certified enclosure
def sccs(g):
    """Tarjan, iterative."""
    n = g.n
    index, low, on, stack, comps = {}, {}, set(), [], []
    counter = [0]
    for root in range(n):
        if root in index or not g.nib[root]:
            continue
        work = [(root, 0)]
        while work:
            v, i = work.pop()
            if i == 0:
                index[v] = low[v] = counter[0]
                counter[0] += 1
                stack.append(v)
                on.add(v)
            live = [succ(v, j, g.k) for j in g.live(v)]
            recurse = False
            for idx in range(i, len(live)):
                w = live[idx]
                if w not in index:
                    work.append((v, idx + 1))
                    work.append((w, 0))
                    recurse = True
                    break
                elif w in on:
                    low[v] = min(low[v], index[w])
            if recurse:
                continue
            if low[v] == index[v]:
                comp = []
                while True:
                    w = stack.pop()
                    on.discard(w)
                    comp.append(w)
                    if w == v:
                        break
                comps.append(comp)
            if work:
                u = work[-1][0]
                low[u] = min(low[u], low[v])
    return comps


# ---------------------------------------------------------------- C19 reference intersection score
def leaf_set(lm, v, depth):
    """vertices reached by `depth`-step walks from v through the latter map (as a set)."""
    level = [v]
    for _ in range(depth):
        level = [w for u in level for w in lm.get(u, [])]
    return set(level)


def intersection_scores(lm, k, has_insertion, has_deletion):
    """the documented score of every arc, written from the description (union sizes of leaf sets of depth k-1):
    pairs of successors (substitution), successor vs successors-of-successors (insertion), successor vs the vertex
    itself (deletion). Independent of the library's implementation."""
    depth = max(k - 1, 0)
    sc = {}
    for u, ls in lm.items():
        branches = [leaf_set(lm, w, depth) for w in ls]
        for i in range(len(ls)):
            for j in range(i + 1, len(ls)):
                s = len(branches[i] | branches[j])
                sc[(u, ls[i] % 4)] = sc.get((u, ls[i] % 4), 0) + s
                sc[(u, ls[j] % 4)] = sc.get((u, ls[j] % 4), 0) + s
        if has_insertion:
            for i, w in enumerate(ls):
                if w in lm:
                    for x in lm[w]:
                        sc[(u, w % 4)] = sc.get((u, w % 4), 0) + len(branches[i] | leaf_set(lm, x, depth))
        if has_deletion:
            own = leaf_set(lm, u, depth)
            for i, w in enumerate(ls):
                sc[(u, w % 4)] = sc.get((u, w % 4), 0) + len(branches[i] | own)
    return sc
