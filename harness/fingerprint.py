"""AST fingerprints of the modelled functions. They only STEER EFFORT: when a function in a
property's cone differs from the version the model was last validated against, the quick tier runs
with the thorough generator budget. They never produce a verdict."""
import ast
import hashlib
import json
import os

REPO = os.environ.get("DSW_REPO", "/repo")
HERE = os.path.dirname(os.path.abspath(__file__))
STORE = os.path.join(HERE, "fingerprints.json")
FILES = ["dsw/spiderweb.py", "dsw/graphized.py", "dsw/operation.py", "dsw/biofilter.py"]


def _strip_doc(node):
    for n in ast.walk(node):
        if isinstance(n, (ast.FunctionDef, ast.ClassDef, ast.Module)) and n.body and \
                isinstance(n.body[0], ast.Expr) and isinstance(getattr(n.body[0], "value", None), ast.Constant) and \
                isinstance(n.body[0].value.value, str):
            n.body = n.body[1:] or [ast.Pass()]
    return node


def current(repo=None):
    repo = repo or REPO
    out = {}
    for f in FILES:
        path = os.path.join(repo, f)
        try:
            tree = ast.parse(open(path).read())
        except Exception:
            out[f + ":<unparsable>"] = "x"
            continue
        mod = os.path.basename(f)[:-3]
        for node in tree.body:
            if isinstance(node, ast.FunctionDef):
                out["%s.%s" % (mod, node.name)] = hashlib.md5(ast.dump(_strip_doc(node)).encode()).hexdigest()
            elif isinstance(node, ast.ClassDef):
                for sub in node.body:
                    if isinstance(sub, ast.FunctionDef):
                        out["%s.%s.%s" % (mod, node.name, sub.name)] = \
                            hashlib.md5(ast.dump(_strip_doc(sub)).encode()).hexdigest()
        # module-level statements other than defs (imports, globals) as one unit
        rest = [n for n in tree.body if not isinstance(n, (ast.FunctionDef, ast.ClassDef))]
        out["%s.<module>" % mod] = hashlib.md5("".join(ast.dump(n) for n in rest if not (
            isinstance(n, ast.Expr) and isinstance(getattr(n, "value", None), ast.Constant))).encode()).hexdigest()
    return out


def changed():
    """names of functions whose AST differs from the recorded fingerprint (or that are new/missing)."""
    if not os.path.exists(STORE):
        return []
    rec = json.load(open(STORE))
    cur = current()
    return sorted(k for k in set(rec) | set(cur) if rec.get(k) != cur.get(k))


if __name__ == "__main__":
    json.dump(current(), open(STORE, "w"), indent=1, sort_keys=True)
    print("recorded", len(current()), "fingerprints")
