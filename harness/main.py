"""Entry point: ./check <id> --tier quick|thorough   (cwd /verif; VERIF_SEED honoured)."""
import argparse
import json
import multiprocessing
import os
import sys
import time
import traceback

HERE = os.path.dirname(os.path.abspath(__file__))
sys.path.insert(0, HERE)

import core  # noqa: E402
from core import Ctx, Infra  # noqa: E402
import registry  # noqa: E402


def _start_line_coverage():
    """line coverage of the dsw sources through sys.monitoring (each location reports once, so the
    overhead is negligible). Reported in the evidence only - it never influences a verdict."""
    hits = set()
    try:
        mon = sys.monitoring
        tid = mon.COVERAGE_ID
        mon.use_tool_id(tid, "dsw-lines")
        root = os.path.realpath(os.path.join(os.environ.get("DSW_REPO", "/repo"), "dsw")) + os.sep

        def on_line(code, line):
            fn = code.co_filename
            if fn.startswith(root):
                hits.add((os.path.basename(fn), line))
            return mon.DISABLE
        mon.register_callback(tid, mon.events.LINE, on_line)
        mon.set_events(tid, mon.events.LINE)
    except Exception:
        pass
    return hits


def run_part(args):
    pid, tier, seed, part, nparts = args
    hits = _start_line_coverage()
    import props  # noqa: F401  (imports dsw from DSW_REPO)
    ctx = Ctx(pid, tier, seed, part, nparts)
    try:
        for fn in registry.generators(pid, tier):
            fn(ctx)
    except Exception:
        return {"crash": traceback.format_exc()}
    out = ctx.export()
    out["lines_hit"] = sorted(hits)
    return out


def function_line_coverage(hit):
    """{function: [lines executed, executable lines, first never-executed lines]} for every function of
    dsw that was entered at least once."""
    import ast
    repo = os.environ.get("DSW_REPO", "/repo")
    out = {}
    for base in ("spiderweb.py", "graphized.py", "operation.py", "biofilter.py"):
        try:
            tree = ast.parse(open(os.path.join(repo, "dsw", base)).read())
        except Exception:
            continue
        funcs = []
        for node in tree.body:
            if isinstance(node, ast.FunctionDef):
                funcs.append((node.name, node))
            elif isinstance(node, ast.ClassDef):
                funcs += [(node.name + "." + n.name, n) for n in node.body if isinstance(n, ast.FunctionDef)]
        for name, node in funcs:
            lines = set()
            body = node.body
            if body and isinstance(body[0], ast.Expr) and isinstance(getattr(body[0], "value", None), ast.Constant):
                body = body[1:]
            for st in body:
                for sub in ast.walk(st):
                    if isinstance(sub, ast.stmt):
                        lines.add(sub.lineno)
            got = {l for (b, l) in hit if b == base and l in lines}
            if got:
                missing = sorted(lines - got)
                out["%s.%s" % (base[:-3], name)] = [len(got), len(lines), missing]
    return out


def merge(parts):
    out = {"lines": [], "impl": [], "failures": [], "findings": [], "evaluations": 0, "nontrivial": set(),
           "classes": {}, "samples": [], "lines_hit": set()}
    for p in parts:
        if "crash" in p:
            raise Infra("harness crashed:\n" + p["crash"])
        out["lines"] += p["lines"]
        out["impl"] += p["impl"]
        out["failures"] += p["failures"]
        out["findings"] += [tuple(f) for f in p["findings"]]
        out["evaluations"] += p["evaluations"]
        out["nontrivial"] |= set(p["nontrivial"])
        for k, v in p["classes"].items():
            out["classes"][k] = out["classes"].get(k, 0) + v
        out["samples"] += p["samples"]
        out["lines_hit"] |= {tuple(x) for x in p.get("lines_hit", [])}
    return out


def run_check(pid, tier, seed):
    t0 = time.time()
    spec = registry.PROPS[pid]
    # 1. Lean side: build (no-op when up to date) and audit
    build_s = core.lean_build(sorted({t.split(":")[0] for t in spec["theorems"]}))
    axioms = core.lean_audit(spec["theorems"])
    checked_by_leanchecker = False
    if tier == "thorough" and os.environ.get("VERIF_LEANCHECKER", "1") == "1":
        core.leanchecker(sorted({t.split(":")[0] for t in spec["theorems"]}))
        checked_by_leanchecker = True
    # translation tie (properties whose code is also translated into Lean on every run)
    tie_state = None
    if spec.get("tie"):
        import tie
        ties = spec["tie"] if isinstance(spec["tie"], list) else [spec["tie"]]
        tie_state = []
        for tname in ties:
            tname, fns = (tname, None) if isinstance(tname, str) else tname
            try:
                st = tie.check(tname, fns)
            except Exception as ex:      # the translation tie never decides a verdict, so it must never break a check
                st = {"tie": tname, "status": "unavailable", "reason": "internal error in the tie check: %s: %s" % (type(ex).__name__, ex),
                      "functions_tied": [], "functions_not_tied": sorted(fns or [])}
            tie_state.append(st)
            if st["status"] not in ("holds", "holds-rechecked"):
                print("note: translation tie `%s` is %s (%s) - the correspondence tie decides; larger budget" % (
                    tname, st["status"], st.get("reason") or ", ".join(sorted(st.get("modules_no_longer_checking", {})))))
    # change-directed effort: a modelled function that differs from the validated version gets the
    # thorough generator budget even in the quick tier (steers effort only, never a verdict)
    import fingerprint
    changed = fingerprint.changed()
    if changed and tier == "quick":
        os.environ["VERIF_QUICK_SCALE"] = os.environ.get("VERIF_CHANGED_SCALE", "16")
        print("note: source differs from the validated version in %s - quick tier runs with a larger budget" % changed)
    # 2.+3. implementation runs: correspondence lines and direct sweep
    nparts = int(os.environ.get("VERIF_JOBS", "14" if tier == "thorough" else ("8" if changed else "4")))
    jobs = [(pid, tier, seed, i, nparts) for i in range(nparts)]
    if nparts == 1:
        parts = [run_part(jobs[0])]
    else:
        with multiprocessing.Pool(nparts) as pool:
            parts = pool.map(run_part, jobs)
    m = merge(parts)
    # corpus first (minimised past disagreements / failing inputs)
    import proto
    corpus_file = os.path.join(core.CORPUS, pid + ".txt")
    corpus = [l.strip() for l in open(corpus_file)] if os.path.exists(corpus_file) else []
    corpus = [l for l in corpus if l and not l.startswith("#")]
    clines = corpus + m["lines"]
    cimpl = [proto.run_impl(l) for l in corpus] + m["impl"]
    # model side
    # the model side: the driver is run on chunks of lines, several chunks at a time (a chunk of capacity lines - hundreds
    # of power-iteration steps in exact rational / exact double arithmetic each - is kept small)
    heavy = any(l.startswith(("cap ", "capf ", "capr ")) for l in clines[:2000])
    CH = 250 if heavy else 20000
    chunks = [clines[i:i + CH] for i in range(0, len(clines), CH)]
    if len(chunks) > 1:
        from concurrent.futures import ThreadPoolExecutor
        with ThreadPoolExecutor(max_workers=int(os.environ.get("VERIF_MODEL_JOBS", "8"))) as ex:
            results = list(ex.map(lambda c: proto.run_model(c, timeout=1800), chunks))
    else:
        results = [proto.run_model(c, timeout=1800) for c in chunks]
    model = [x for r in results for x in r]
    disagreements = []
    float_tie = None
    random_tie = {"what": "cap lines with two or more start vectors (assumed random stream)", "lines": 0, "status": "holds"}
    for l, a, b in zip(clines, cimpl, model):
        if l.startswith("capf ") or l.startswith("capr "):
            # the double-precision model (Model/CapacityF.lean) is a SECOND, stricter tie (bit for bit) next to the `cap`
            # correspondence with the exact-rational model; like the translation tie it never decides a verdict: a rewrite
            # that reorders floating-point operations keeps C17 and breaks only this. Recorded in the evidence.
            if float_tie is None:
                float_tie = {"model": "DswModel.Model.CapacityF (theorems Props/C17c.lean)", "lines": 0, "status": "holds"}
            float_tie["lines"] += 1
            if not core.same(l, a, b) and float_tie["status"] == "holds":
                float_tie.update(status="broken", first_disagreement={"line": l[:400], "implementation": a[:300],
                                                                        "model_after_log2": (core.canon_capf(b) if b.startswith("ok") else b)[:300]})
            continue
        if l.startswith("cap ") and ";" in l.split(" ")[4]:
            # randomised mode: the comparison assumes HOW the code consumes NumPy's random stream (one draw of n doubles per
            # repeat); C17 fixes no random stream, so a disagreement here is recorded, never a verdict - the randomised
            # results are judged against the certified enclosure by the direct sweep
            random_tie["lines"] += 1
            if not core.same(l, a, b) and random_tie["status"] == "holds":
                random_tie.update(status="broken", first_disagreement={"line": l[:300], "implementation": a[:200], "model": b[:200]})
            continue
        if not core.same(l, a, b):
            disagreements.append({"line": l, "implementation": a, "model": b})
    if random_tie["status"] == "broken":
        print("note: the randomised capacity runs no longer agree step by step with the model for the assumed start vectors "
              "(the code may consume the random stream differently) - judged by the certified enclosure only")
    if float_tie and float_tie["status"] == "broken":
        print("note: the double-precision model of approximate_capacity no longer agrees bit for bit with the code "
              "(theorems of Props/C17c.lean are not tied on this run) - the exact-rational correspondence decides")
    # C20: a call inside a history that disagrees with the stateless model is re-run ALONE in a fresh interpreter; if it
    # agrees with the model there, the result depends on what was called before - a failing input of C20 itself
    if pid == "C20" and disagreements:
        import subprocess
        for d in sorted(disagreements, key=lambda d: len(d["line"]))[:6]:
            code = "import sys; sys.path.insert(0, %r); import proto; print(proto.run_impl(%r))" % (HERE, d["line"])
            try:
                p = subprocess.run([sys.executable, "-c", code], capture_output=True, text=True, timeout=120, env=dict(os.environ))
                fresh = p.stdout.strip().split("\n")[-1] if p.returncode == 0 else None
            except Exception:
                fresh = None
            if fresh is not None and core.same(d["line"], fresh, d["model"]) and not core.same(d["line"], d["implementation"], d["model"]):
                m["failures"].append({"what": "a call returns something else inside a history than alone in a fresh process on equal arguments",
                                      "line": d["line"], "in_history": d["implementation"][:300], "fresh_process": fresh[:300]})
    # 4. verdict
    known = {k["key"]: k for k in core.load_known() if k["property"] == pid}
    out_lines, violations = [], 0
    seen_known = set()
    for key, text in m["findings"]:
        if key in known:
            if key not in seen_known:
                out_lines.append("KNOWN-FINDING: property=%s %s" % (pid, text))
                seen_known.add(key)
        else:
            m["failures"].append({"what": text, "finding_key": key})
    idx = 0
    reported = set()
    for f in m["failures"]:
        sig = f["what"]
        if sig in reported:
            continue
        reported.add(sig)
        path = core.write_replay(pid, seed, idx, {
            "property": pid, "kind": "failing-input", "what": f["what"], "input": f,
            "how_to_rerun": "./check %s --replay <this file>" % pid})
        out_lines.append("VIOLATION property=%s replay=%s" % (pid, path))
        idx += 1
        violations += 1
    if disagreements and not m["failures"]:
        # correspondence broken, no failing input of the property found on the explored inputs
        # (the direct sweep ran on the same inputs, the corpus and the disagreeing inputs themselves)
        by_op = {}
        for d in disagreements:
            by_op.setdefault(d["line"].split(" ")[0], []).append(d)
        for op, ds in sorted(by_op.items()):
            ds.sort(key=lambda d: len(d["line"]))
            path = core.write_replay(pid, seed, idx, {
                "property": pid, "kind": "no-failing-input-found",
                "no_longer_checks": "correspondence of operation `%s` (%s) with the Lean model definitions the theorems %s are about"
                                    % (op, registry.OPS.get(op, "?"), [t.split(":")[1] for t in spec["theorems"]]),
                "disagreements": ds[:5], "count": len(ds),
                "searched": "%d generated cases with the property's own oracle, corpus of %d lines" % (m["evaluations"], len(corpus))})
            out_lines.append("VIOLATION property=%s replay=%s no-failing-input-found" % (pid, path))
            idx += 1
            violations += 1
    elif disagreements:
        # failing inputs were found; attach the correspondence disagreements to an extra replay for context
        core.write_replay(pid, seed, 900, {"property": pid, "kind": "correspondence-context",
                                           "disagreements": disagreements[:10], "count": len(disagreements)})
    wall = time.time() - t0
    # 5. evidence
    ops = {}
    for l in clines:
        ops[l.split(" ")[0]] = ops.get(l.split(" ")[0], 0) + 1
    ev = {
        "property_id": pid, "tier": tier, "seed": seed, "level": spec["level"],
        "coverage": {
            **({"obligations": len(spec["theorems"]), "discharged": len(axioms)} if spec["theorems"] else {}),
            "checker_cmd": "cd lean && lake build dswdriver <property modules> && lake env lean <#print axioms of the obligations>"
                           + (" && lake env leanchecker <modules>" if checked_by_leanchecker else ""),
            "trusted_base": registry.TRUSTED + spec.get("trusted", []),
            "theorems": {n: axioms[n] for n in sorted(axioms)},
            "not_proved": spec.get("not_proved", []),
            "programs": len(clines), "disagreements_checked": len(disagreements),
            "correspondence_ops": ops,
            "evaluations": m["evaluations"], "distinct_nontrivial": len(m["nontrivial"]),
            "rule": spec["rule"], "classes": m["classes"],
            "samples": (m["samples"][:6] or clines[:3]),
            "exhaustive": False, "lean_build_s": round(build_s, 2),
            "direct_sweep_failures": len(m["failures"]), "known_findings_hit": sorted(seen_known),
            "changed_functions_since_validation": changed,
            **({"translation_tie": tie_state} if tie_state else {}),
            **({"double_precision_tie": float_tie} if float_tie else {}),
            **({"random_stream_tie": random_tie} if random_tie["lines"] else {}),
            "implementation_line_coverage": function_line_coverage(m["lines_hit"]),
        },
        "assumptions": registry.ASSUMPTIONS + spec.get("assumptions", []),
        "wall_s": round(wall, 2), "violations": violations,
    }
    os.makedirs(core.EVIDENCE, exist_ok=True)
    json.dump(ev, open(os.path.join(core.EVIDENCE, pid + ".json"), "w"), indent=1, sort_keys=True)
    for l in out_lines:
        print(l)
    print("%s tier=%s seed=%d: %d correspondence ops (%d disagreements), %d cases (%d distinct non-trivial), "
          "%d theorems audited, %.1fs" % (pid, tier, seed, len(clines), len(disagreements), m["evaluations"],
                                          len(m["nontrivial"]), len(axioms), wall))
    return 1 if violations else 0


def replay(pid, path):
    import proto
    data = json.load(open(path))
    lines = []
    inp = data.get("input", {})
    if "line" in inp:
        lines.append(inp["line"])
    for d in data.get("disagreements", []):
        lines.append(d["line"])
    if not lines:
        print(json.dumps(data, indent=1))
        return 0
    core.lean_build()
    model = proto.run_model(lines)
    for l, mo in zip(lines, model):
        print("op:             ", l)
        print("implementation: ", proto.run_impl(l))
        print("model:          ", mo)
    return 0


def main():
    ap = argparse.ArgumentParser()
    ap.add_argument("pid")
    ap.add_argument("--tier", default=os.environ.get("VERIF_TIER", "quick"), choices=["quick", "thorough"])
    ap.add_argument("--replay")
    a = ap.parse_args()
    seed = int(os.environ.get("VERIF_SEED", "0"))
    try:
        if a.replay:
            sys.exit(replay(a.pid, a.replay))
        sys.exit(run_check(a.pid, a.tier, seed))
    except Infra as e:
        print("INFRASTRUCTURE FAILURE: " + str(e), file=sys.stderr)
        sys.exit(2)
    except Exception:
        traceback.print_exc()
        sys.exit(2)


if __name__ == "__main__":
    main()
