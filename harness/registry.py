"""Per-property registration: Lean obligations (module:theorem), generators per tier, texts."""

TRUSTED = [
    "Lean 4.33.0 kernel (thorough tier: also leanchecker on the compiled modules)",
    "axioms allowed in property theorems: propext, Classical.choice, Quot.sound (audited by #print axioms on every run)",
    "Lean compiler for the native driver `dswdriver` (it executes the very definitions the theorems mention)",
    "the correspondence harness (generators, canonicalisation, diff) — a checked, sampled tie between model and /repo",
]
ASSUMPTIONS = [
    "the theorems are about the hand-written Lean model in lean/DswModel/Model; the tie to /repo is the differential "
    "correspondence executed on this run (same operation lines through the real Python functions and the native driver)",
    "NumPy primitives (where, argsort on <=4 keys, sum, unique, intersect1d, union1d, argmax), CPython set/dict order "
    "and int64 arithmetic for k >= 31 are modelled, not verified",
]

OPS = {
    "add": "calculus_addition", "sub": "calculus_subtraction", "mul": "calculus_multiplication",
    "div": "calculus_division", "b2n": "bit_to_number", "n2b": "number_to_bit", "d2n": "dna_to_number",
    "n2d": "number_to_dna", "latters": "obtain_latters", "formers": "obtain_formers",
    "complete": "get_complete_accessor", "a2m": "accessor_to_adjacency_matrix", "m2a": "adjacency_matrix_to_accessor",
    "a2l": "accessor_to_latter_map", "l2a": "latter_map_to_accessor", "rmu": "remove_useless",
    "verts": "obtain_vertices", "leafa": "obtain_leaf_vertices(accessor)", "leafl": "obtain_leaf_vertices(latter_map)",
    "pm": "path_matching", "cis": "calculate_intersection_score", "enc": "encode", "dec": "decode", "vt": "set_vt",
    "rep": "repair_dna", "fv": "find_vertices", "cvg": "connect_valid_graph", "ccg": "connect_coding_graph",
    "shuf": "create_random_shuffles (NumPy MT19937 + legacy shuffle, modelled in Model/Shuffle.lean)",
    "gen": "the definitions generated from dsw/operation.py by harness/py2lean.py (DswModel.Gen.Operation)",
    "rna": "remove_nasty_arc", "flt": "LocalBioFilter.__init__/valid", "cap": "approximate_capacity (power iteration)",
    "capf": "approximate_capacity in double precision, operation by operation (Model/CapacityF.lean), compared bit for bit",
    "capr": "approximate_capacity, randomised mode, seeded: MT19937 + start vectors + double-precision iteration all in the model",
    "fop": "the float primitives of the Python fragment (Model/Float.lean)",
}


def T(mod, *names):
    return ["DswModel.Props.%s:Dsw.%s" % (mod, n) for n in names]


def TIE(mod, *names):
    return ["DswModel.Tie.%s:Dsw.Tie.%s" % (mod, n) for n in names]


SWCOR = {c: TIE("SwCorollaries", *[n for n in ("gen_C01_roundtrip", "gen_C01_normal", "gen_C01_fast", "gen_C01_nocheck", "gen_C01_check", "gen_C01_total_normal", "gen_C01_total_fast", "gen_C01_total_roundtrip", "gen_C01_zero", "gen_C05_encode_meets_spec", "gen_C05_spec_unique", "gen_C05_decode_value", "gen_C05_fast_meets_spec", "gen_C05_fast_decode_value", "gen_C06_normal", "gen_C06_normal_iff", "gen_C06_fast", "gen_C06_fast_iff", "gen_C06_table_independent", "gen_C07_shape", "gen_C07_foreign", "gen_C07_subst", "gen_C07_insert", "gen_C07_delete", "gen_C07_decode_rejects", "gen_C07_encode_subst_rejected",) if n.startswith("gen_" + c)]) for c in ("C01", "C05", "C06", "C07")}
TIE_SW = TIE("SwVt", "tie_set_vt") + TIE("SwEncode", "tie_encode") + TIE("SwDecode", "tie_decode")
REPCOR = {c: TIE("RepCorollaries", *[n for n in ("gen_C10_total", "gen_C10_lookups", "gen_C09_clean", "gen_C09_clean_nocheck", "gen_C09_sorted_nodup", "gen_C09_check", "gen_C09_C10_summary", "gen_C08_single_subst_only", "gen_C08_single", "gen_C08_single_subst", "gen_C08_single_ins", "gen_C08_single_del", "gen_C08_single_generated", "gen_C08_multi", "gen_C08_multi'", "gen_C08_path_matching_sound", "gen_C08_path_matching_complete", "gen_C08_path_matching_iff", "gen_C08_path_matching_error", "gen_E2E_single_edit", "gen_E2E_repair_then_decode",) if n.startswith("gen_" + c) or (c == "C08" and n.startswith("gen_E2E"))])
          for c in ("C08", "C09", "C10")}
TIE_VIEWS = TIE("GzViews", "tie_obtain_vertices", "tie_accessor_to_latter_map", "tie_remove_useless",
                "tie_latter_map_to_accessor_plain", "tie_latter_map_to_accessor_trim", "tie_obtain_leaf_vertices_acc",
                "tie_obtain_leaf_vertices_map", "tie_obtain_leaf_vertices_bad")
TIE_BUILD = TIE("SwFind", "tie_find_vertices") + TIE("SwValid", "tie_connect_valid_graph", "tie_connect_valid_graph_none")
GRAPHCOR = {c: TIE("GraphCorollaries", *[n for n in ("gen_C11_mask", "gen_C11_mask_iff", "gen_C11_valid_graph", "gen_C03_holds", "gen_C03_error_iff", "gen_C03_mono", "gen_C03_remove_useless", "gen_C03_latter_map", "gen_C04_terminates_normal", "gen_C04_terminates_fast", "gen_C04_tight_normal", "gen_C04_length_branching", "gen_C04_length_complete", "gen_C04_tight_fast", "gen_C02_generated_subgraph", "gen_E2E_generated_subgraph", "gen_C02_windows", "gen_C02_whole", "gen_E2E_write", "gen_C13_latters", "gen_C13_formers", "gen_C13_lt", "gen_C13_former_iff_latter", "gen_C13_complete", "gen_C13_wfdb_valid_graph", "gen_C13_wfdb_coding_graph", "gen_C13_wfdb_latter_map", "gen_C14_latter_map_roundtrip", "gen_C14_latter_map_content", "gen_C14_vertices", "gen_C14_leaves", "gen_C14_leaves'", "gen_C19_scores",) if n.startswith("gen_" + c) or (c == "C02" and n.startswith("gen_E2E"))])
            for c in ("C02", "C03", "C04", "C11", "C13", "C14", "C19")}
TIE_BF = TIE("BfValid", "tie_LocalBioFilter_init", "tie_LocalBioFilter_valid", "tie_LocalBioFilter", "tie_DefaultBioFilter_valid")
BFCOR = {"C12": TIE("BfCorollaries", "gen_C12_total", "gen_C12_valid_all", "gen_C12_last", "gen_C12_window_conj", "gen_C12_foreign",
                    "gen_C12_revcomp", "gen_C12_accepted"),
         "C02": TIE("BfCorollaries", "gen_C02_ctor_partial", "gen_C12_accepted") +
                TIE("BfPipeline", "genTable_eq", "gen_E2E_biofilter_windows", "gen_E2E_biofilter_whole")}
C02B = (T("C02b", "C02_float_consistent", "C02_float_gcLo_range", "C02_float_gcHi_range", "C02_float_defined") +
        T("FloatSpec", "ratLog2_spec", "roundPos_spec", "roundDouble_isB64", "roundDouble_sign", "roundDouble_nearest",
          "roundDouble_none_iff", "roundDouble_of_isB64"))
TIE_CCG = TIE("SwCoding", "tie_connect_coding_graph")
TIE_SCORE = TIE("GzScore", "tie_calculate_intersection_score")
TIE_REP = TIE("SwRepair", "tie_repair_dna") + TIE("GzPath", "tie_path_matching")
TIE_GZ = TIE("GzArith", "tie_obtain_latters", "tie_obtain_formers", "tie_get_complete_accessor")
TIE_OPERATION = (TIE("OpAdd", "tie_calculus_addition") + TIE("OpSub", "tie_calculus_subtraction") +
                 TIE("OpMul", "tie_calculus_multiplication") + TIE("OpDiv", "tie_calculus_division") +
                 TIE("OpBits", "tie_bit_to_number_str", "tie_bit_to_number_int", "tie_number_to_bit_str",
                     "tie_number_to_bit_int", "tie_number_to_bit_other") +
                 TIE("OpDna", "tie_dna_to_number_str", "tie_dna_to_number_int", "tie_number_to_dna_str",
                     "tie_number_to_dna_int", "tie_number_to_dna_other"))


PROPS = {
    "C01": dict(level="proof", theorems=T("C01", "C01_normal", "C01_fast", "C01_total_normal", "C01_total_fast", "C01_zero") + T("EndToEnd", "E2E_write_read") + TIE_SW + SWCOR["C01"], tie=["spiderweb", "operation"], gens=["C01", "C01_malformed", "GENSW"], gens_thorough=["C01", "C01_malformed", "C01_exhaustive", "GENSW"],
                rule="seeded well-formed graphs (arc subsets of de Bruijn graphs k<=3 quick / k<=5 thorough, mixed "
                     "out-degrees) x start x permutation table x message x mode x check length; a case is one encode "
                     "line; non-trivial = message value > 0 and the walk visits a branching vertex; distinct = hash "
                     "of the operation line"),
    "C02": dict(level="proof", theorems=T("C02", "C02_windows", "C02_generated_subgraph", "C02_whole", "C02_ctor_partial", "C02_ctor_counterexample") + T("EndToEnd", "E2E_generated_subgraph") + TIE_BUILD + TIE_CCG + TIE_SW[1:2] + GRAPHCOR["C02"] + TIE_BF[:3] + BFCOR["C02"] + C02B, tie=[("spiderweb", ["find_vertices", "connect_valid_graph", "connect_coding_graph", "encode"]), "biofilter"], gens=["C02", "GENSW", "GENBF"],
                rule="filter grid (run x GC range x motifs, and user-defined table predicates) x k x threshold x start x "
                     "message x table x mode, plus the constructor grid and the threshold grid; non-trivial = a "
                     "non-empty strand was emitted / configuration accepted"),
    "C03": dict(level="proof", theorems=T("C03", "C03_trimLoop", "C03_gfp", "C03_t1", "C03_holds", "C03_mono", "C03_latter_map", "C03_goodFrom", "C03_pure") + T("C03b", "C03_remove_useless") + TIE_VIEWS[2:5] + TIE_CCG + GRAPHCOR["C03"], tie=[("spiderweb", ["connect_coding_graph"]), ("graphized", ["remove_useless", "latter_map_to_accessor", "obtain_latters", "obtain_formers", "obtain_vertices"])], gens=["C03", "GENGZ", "GENSW"],
                rule="vertex masks (density classes, structured cycles; thorough: a seeded quarter of all 65 536 order-2 "
                     "masks) x threshold 1..4 x dtype; non-trivial = mask neither empty nor full and at least one "
                     "vertex removed"),
    "C04": dict(level="proof", theorems=T("C04", "C04_terminates_normal", "C04_terminates_fast", "C04_tight_normal", "C04_length_branching", "C04_length_complete", "C04_tight_fast") + T("C03", "C03_goodFrom") + TIE_CCG + TIE_SW[1:2] + GRAPHCOR["C04"], tie=[("spiderweb", ["connect_coding_graph", "encode"]), "operation"], gens=["C04", "GENSW"],
                rule="graphs returned by the real connect_coding_graph x retained starts x messages x modes, accessor "
                     "passed as a read-counting proxy; non-trivial = value > 0 and a branching vertex visited"),
    "C05": dict(level="proof", theorems=T("C05", "C05_encode_meets_spec", "C05_spec_unique", "C05_decode_value", "C05_fast_meets_spec", "C05_fast_decode_value") + T("C18", "C18_digit_is_rank", "C18_bijection") + TIE_SW[1:] + SWCOR["C05"], tie=[("spiderweb", ["encode", "decode"]), "operation"], gens=["C05", "GENSW"],
                rule="as C01 plus arbitrary walks decoded; compared with an independent integer-arithmetic reference "
                     "coder; non-trivial = message/walk value > 0 with a branching vertex"),
    "C06": dict(level="proof", theorems=T("C06", "C06_normal", "C06_fast", "C06_table_independent") + TIE_SW[2:] + TIE_SW[:1] + SWCOR["C06"], tie=[("spiderweb", ["decode", "set_vt"]), "operation"], gens=["C06", "GENSW"],
                rule="strings (walks, edited walks, random, foreign characters, empty) x graphs x starts x optional "
                     "check (right / wrong / long) x modes; non-trivial = non-empty string"),
    "C07": dict(level="proof", theorems=T("C07", "C07_shape", "C07_foreign", "C07_subst", "C07_insert", "C07_delete",
                                          "C07_decode_rejects") + TIE_SW[:1] + TIE_SW[2:] + SWCOR["C07"], tie=[("spiderweb", ["set_vt", "decode"]), ("operation", ["number_to_dna"])], gens=["C07", "GENSW"],
                rule="all strands up to a length bound x check lengths x all single edits, plus long random strands "
                     "and check lengths up to 200; non-trivial = length >= 2 with at least one ascent"),
    "C08": dict(level="proof", theorems=T("C08", "C08_single", "C08_single_subst", "C08_multi", "C08_single_subst_only", "C08_single_ins", "C08_single_del") + T("C09", "C09_clean") + T("EndToEnd", "E2E_single_edit", "E2E_repair_then_decode") + T("C08b", "C08_path_matching_sound", "C08_path_matching_complete", "C08_path_matching_error") + TIE_REP + REPCOR["C08"], tie=[("spiderweb", ["repair_dna", "set_vt"]), ("graphized", ["path_matching"])], gens=["C08", "GENSW"],
                rule="generated graphs x walks x (all single interior edits | spaced multi-edit sets) x check x indel; "
                     "non-trivial = at least one detection"),
    "C09": dict(level="proof", theorems=T("C09", "C09_clean", "C09_sorted_nodup", "C09_check") + TIE_REP + REPCOR["C09"], tie=[("spiderweb", ["repair_dna", "set_vt"]), ("graphized", ["path_matching"])], gens=["C09", "GENSW"],
                rule="walks / corrupted / random strings x graphs x check absent/right/wrong x indel x heap limits; "
                     "non-trivial = a detection happened or the strand is a clean walk"),
    "C10": dict(level="proof", theorems=T("C10", "C10_total", "C10_scan_terminates", "C10_lookups") + TIE_REP + REPCOR["C10"], tie=[("spiderweb", ["repair_dna"]), ("graphized", ["path_matching"])], gens=["C10", "GENSW"],
                rule="ACGT strings >= one window (bad first symbol, error in last window, random, heavily edited) x "
                     "graphs x options under a look-up budget; non-trivial = at least one detection"),
    "C11": dict(level="proof", theorems=T("C11", "C11_mask", "C11_valid_graph") + TIE_BUILD + GRAPHCOR["C11"] + TIE_BF[:3] +
                TIE("BfPipeline", "genTable_eq", "gen_C11_biofilter_mask"), tie=[("spiderweb", ["find_vertices", "connect_valid_graph"]), ("graphized", ["obtain_latters"]), ("operation", ["number_to_dna"]), "biofilter"], gens=["C11", "GENSW", "GENBF"],
                rule="filters (documented-interface table filter, keyword-extended filter, LocalBioFilter, empty) x "
                     "k, and masks x dtype for the valid graph; non-trivial = mask neither empty nor full"),
    "C12": dict(level="proof", theorems=T("C12", "C12_valid_all", "C12_last", "C12_window_conj", "C12_revcomp",
                                          "C12_foreign", "C12_isInfix", "C12_accepted") + T("C12b", "C12_thresholds", "C12_exact_consistent") + T("C12c", "C12_float_exact", "C12_float_near") + C02B + TIE_BF + BFCOR["C12"],
                tie="biofilter", gens=["C12", "GENBF"],
                rule="(configuration, string) pairs incl. biased strands, foreign characters, k up to 25; "
                     "non-trivial = toggling one rule flips the verdict",
                trusted=["the double-precision products lo*k, hi*k, k-lo*k are modelled exactly (Model/Float.lean: exact rational "
                         "result, round to nearest even, gradual underflow) and the model derives the integer thresholds itself "
                         "(floatGcRule); the rounding model is PROVED to be IEEE-754 binary64 round-to-nearest-even "
                         "(Props/FloatSpec.lean: result is a binary64 value, no binary64 value is nearer, ties to even, overflow "
                         "threshold); that CPython's float `*` and `-` are correctly rounded binary64 operations is assumed and "
                         "validated on every run (driver operation `fop`)"]),
    "C13": dict(level="proof", theorems=T("C13", "C13_idx_of_kmer", "C13_kmer_of_idx", "C13_latters", "C13_formers",
                                          "C13_latters_lt", "C13_formers_lt", "C13_former_iff_latter", "C13_complete",
                                          "C13_wfdb_induced", "C13_wfdb_valid_graph", "C13_wfdb_setEnt",
                                          "C13_wfdb_coding_graph", "C13_wfdb_remove_nasty_arc", "C13_wfdb_latter_map",
                                          "C13_wfdb_matrix") + TIE_GZ + GRAPHCOR["C13"], tie=["graphized", ("operation", ["number_to_dna", "dna_to_number"])], gens=["C13", "GENGZ"],
                rule="all vertices for k up to a bound, sampled up to k = 12; non-trivial = k >= 2"),
    "C14": dict(level="proof", theorems=T("C14", "C14_latter_map_roundtrip", "C14_matrix_roundtrip",
                                          "C14_latter_map_content", "C14_matrix_content", "C14_vertices", "C14_leaves",
                                          "C14_illegal_matrix") + TIE_VIEWS + GRAPHCOR["C14"], tie=[("graphized", ["obtain_vertices", "accessor_to_latter_map", "latter_map_to_accessor", "obtain_leaf_vertices", "obtain_latters"])], gens=["C14", "GENGZ"],
                rule="arbitrary arc subsets (not only induced ones) x all converters, leaf queries, illegal single-arc "
                     "matrices; non-trivial = k >= 2 with live and dead columns",
                assumptions=["adjacency_matrix_to_accessor decides legality with list(set|set) != ref, which relies on "
                             "CPython iterating small-int sets in ascending order; the model uses next ⊆ ref"]),
    "C15": dict(level="proof", theorems=T("C15", "C15_canonical_unique", "C15_add", "C15_mul", "C15_div", "C15_sub",
                                          "C15_special", "C15_holds", "C15_ofNat") + TIE_OPERATION[:4] +
                TIE("Corollaries", "gen_C15_add", "gen_C15_mul", "gen_C15_div", "gen_C15_div_zero", "gen_C15_sub", "gen_C15_special", "gen_C15_holds"), gens=["C15", "GENOP"], tie="operation",
                rule="(number, digit) pairs incl. 9..9 / 10..0 chains up to 300 digits (thorough: a third of all numbers "
                     "< 10^4 and 1233/5000-digit chains); non-trivial = a carry/borrow occurs or length >= 9"),
    "C16": dict(level="proof", theorems=T("C16", "C16_bits_roundtrip", "C16_bits_paths_agree", "C16_dna_roundtrip",
                                          "C16_dna_paths_agree", "C16_dna_foreign", "C16_number_bits", "C16_number_dna",
                                          "C16_fuel") + TIE_OPERATION +
                TIE("Corollaries", "gen_C16_bits_roundtrip", "gen_C16_bits_paths_agree", "gen_C16_dna_roundtrip", "gen_C16_dna_paths_agree",
                    "gen_C16_dna_foreign", "gen_C16_number_bits", "gen_C16_number_dna", "gen_C16_fuel", "gen_C16_number_paths_agree"), gens=["C16", "GENOP"], tie="operation",
                rule="all bit strings / DNA strings up to a bound, long random ones (64-bit boundary included), numbers "
                     "below the capacity of the width; non-trivial = non-zero value"),
    "C17": dict(level="proof", theorems=T("C17", "C17_step_bounds", "C17_le_four", "C17_arcless", "C17_regular", "C17_certificate_upper", "C17_certificate_lower") + T("C17b", "C17_capStep_entry", "C17_settled_residual", "C17_stop_certificate", "C17_certificate_rat", "C17_stop_accuracy") +
                T("C17c", "C17F_rowSum", "C17F_stop_certificate", "C17F_stop_accuracy", "C17F_step_ok") +
                T("C17d", "C17F_step_bounds", "C17F_total", "C17F_le_four", "C17F_arcless", "C17F_regular") +
                T("C17e", "C17F_randomStarts_in01", "C17F_seeded") +
                T("C17f", "C17F_result_settled", "C17F_result_accuracy") +
                T("FloatSpec", "roundPos_spec", "roundDouble_isB64", "roundDouble_nearest", "roundDouble_none_iff", "roundDouble_of_isB64"),
                not_proved=["that the stopping rule fires within the iteration budget with a smallest entry delta large enough for 1e-4 "
                            "under the spectral-gap precondition (needs Perron-Frobenius convergence RATES): TESTED against the "
                            "Collatz-Wielandt enclosure whose soundness is C17_certificate_*. What the stopping rule certifies is proved "
                            "both for exact arithmetic (C17_stop_accuracy) and for the double-precision computation the code performs "
                            "(C17F_stop_accuracy, on Model/CapacityF.lean, which agrees with the NumPy run bit for bit on every "
                            "iteration of every generated case); numpy.log2 and numpy.median are external"], gens=["C17"],
                rule="graphs meeting the structural precondition x modes; non-trivial = non-integer spectral radius"),
    "C18": dict(level="proof", theorems=T("C18", "C18_shape", "C18_argsort_perm", "C18_bijection", "C18_digit_is_rank",
                                          "C18_distinct_none", "C18_distinct_perm", "C18_finite_table") +
                ["DswModel.Props.C18c:Dsw.%s" % n for n in ("C18_any_source", "C18_seeded_shape", "C18_seeded_perm", "C18_seeded_rows",
                                                          "C18_seeded_deterministic", "C18_seed_range")], gens=["C18"],
                rule="all 24 permutations x 15 live patterns x digits through the real encode/decode, and tables for "
                     "k x seeds; non-trivial = non-identity row with 2..3 live arcs",
                not_proved=["that the call has no effect other than on NumPy's global random state is observed by the harness "
                            "(module-level snapshots, interleaved calls) - a test, not a theorem. 'Same seed => same table' "
                            "is a theorem about the model since the continuation session: Model/Shuffle.lean models MT19937 "
                            "seeding and NumPy's legacy shuffle, the table is a pure function of (k, seed) there "
                            "(C18_seeded_deterministic) and is compared entry by entry with NumPy's output on every run"]),
    "C19": dict(level="proof", theorems=T("C19", "C19_scores", "C19_step", "C19_history") + TIE_SCORE + TIE_VIEWS[1:2] + GRAPHCOR["C19"] +
                TIE("SwRemove", "tie_remove_nasty_arc") + TIE("RemoveCorollaries", "gen_C19_returns", "gen_C19_step", "gen_C19_history"),
                tie=[("graphized", ["calculate_intersection_score", "accessor_to_latter_map", "obtain_leaf_vertices", "obtain_vertices"]),
                     ("spiderweb", ["remove_nasty_arc"])], gens=["C19", "GENGZ", "GENSW"],
                rule="generated graphs x flags x removal sequences until the first raise; non-trivial = history of "
                     ">= 2 returning calls"),
    "C20": dict(level="translation_validation", theorems=T("C20", "C20_stateless", "C20_compositional", "C20_idempotent_observation"), gens=["C20"],
                rule="random interleavings of all public calls on shared argument objects with bit-for-bit argument "
                     "snapshots, verbose on/off; non-trivial = history of >= 3 calls sharing an argument"),
}


def generators(pid, tier):
    import props
    spec = PROPS[pid]
    names = spec.get("gens_thorough", spec["gens"]) if tier == "thorough" else spec["gens"]
    return [getattr(props, n) for n in names]
