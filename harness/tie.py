"""Translation tie: the Lean definitions GENERATED from the Python source (harness/py2lean.py) and the
kernel-checked theorems (lean/DswModel/Tie/*) that they compute the hand-written model.

On every run the sources in $DSW_REPO are translated again (dsw/operation.py, dsw/spiderweb.py).
 * identical to the committed lean/DswModel/Gen/<Module>.lean  -> the tie theorems that `lake build`
   compiled (and the audit re-examined) are about exactly what the code says now: `holds`;
 * different -> the tie theorems downstream of the changed module are re-checked by Lean against the
   NEW definitions in a scratch copy of the build (the main build is never touched): every module that
   still compiles keeps its theorems (`holds-rechecked`), the others are `broken` (named, with Lean's
   first error);
 * a function outside the translator's fragment is simply absent from the generated module, so the tie
   module that mentions it no longer compiles (`broken`); a source that does not parse is `unavailable`.
A broken or unavailable translation tie is not a verdict: the property's theorems stay tied to the code
by the differential correspondence, which runs on every invocation in any case (DESIGN.md §11); the
check then runs with the enlarged budget used for changed sources and records the state in the evidence.
"""
import hashlib
import json
import os
import re
import shutil
import subprocess
import time

import core
import py2lean

# generated modules, in dependency order
GEN = [("operation", "dsw/operation.py", "DswModel.Gen.Operation"),
       ("graphized", "dsw/graphized.py", "DswModel.Gen.Graphized"),
       ("spiderweb", "dsw/spiderweb.py", "DswModel.Gen.Spiderweb"),
       ("biofilter", "dsw/biofilter.py", "DswModel.Gen.Biofilter")]

TIES = {
    "operation": {
        # function -> (module, theorems)
        "theorems": {
            "calculus_addition": ("DswModel.Tie.OpAdd", ["tie_calculus_addition"]),
            "calculus_subtraction": ("DswModel.Tie.OpSub", ["tie_calculus_subtraction"]),
            "calculus_multiplication": ("DswModel.Tie.OpMul", ["tie_calculus_multiplication"]),
            "calculus_division": ("DswModel.Tie.OpDiv", ["tie_calculus_division"]),
            "bit_to_number": ("DswModel.Tie.OpBits", ["tie_bit_to_number_str", "tie_bit_to_number_int"]),
            "number_to_bit": ("DswModel.Tie.OpBits", ["tie_number_to_bit_str", "tie_number_to_bit_int", "tie_number_to_bit_other"]),
            "dna_to_number": ("DswModel.Tie.OpDna", ["tie_dna_to_number_str", "tie_dna_to_number_int"]),
            "number_to_dna": ("DswModel.Tie.OpDna", ["tie_number_to_dna_str", "tie_number_to_dna_int", "tie_number_to_dna_other"]),
        },
        "extra_modules": ["DswModel.Tie.Corollaries"],
    },
    "graphized": {
        "theorems": {
            "obtain_latters": ("DswModel.Tie.GzArith", ["tie_obtain_latters"]),
            "obtain_formers": ("DswModel.Tie.GzArith", ["tie_obtain_formers"]),
            "get_complete_accessor": ("DswModel.Tie.GzArith", ["tie_get_complete_accessor"]),
            "path_matching": ("DswModel.Tie.GzPath", ["tie_path_matching"]),
            "obtain_vertices": ("DswModel.Tie.GzViews", ["tie_obtain_vertices"]),
            "accessor_to_latter_map": ("DswModel.Tie.GzViews", ["tie_accessor_to_latter_map"]),
            "remove_useless": ("DswModel.Tie.GzViews", ["tie_remove_useless"]),
            "latter_map_to_accessor": ("DswModel.Tie.GzViews", ["tie_latter_map_to_accessor_plain", "tie_latter_map_to_accessor_trim"]),
            "obtain_leaf_vertices": ("DswModel.Tie.GzViews", ["tie_obtain_leaf_vertices_acc", "tie_obtain_leaf_vertices_map",
                                                               "tie_obtain_leaf_vertices_bad"]),
            "calculate_intersection_score": ("DswModel.Tie.GzScore", ["tie_calculate_intersection_score"]),
        },
        "extra_modules": [],
    },
    "spiderweb": {
        "theorems": {
            "set_vt": ("DswModel.Tie.SwVt", ["tie_set_vt"]),
            "encode": ("DswModel.Tie.SwEncode", ["tie_encode"]),
            "decode": ("DswModel.Tie.SwDecode", ["tie_decode"]),
            "repair_dna": ("DswModel.Tie.SwRepair", ["tie_repair_dna"]),
            "find_vertices": ("DswModel.Tie.SwFind", ["tie_find_vertices"]),
            "connect_valid_graph": ("DswModel.Tie.SwValid", ["tie_connect_valid_graph", "tie_connect_valid_graph_none"]),
            "connect_coding_graph": ("DswModel.Tie.SwCoding", ["tie_connect_coding_graph"]),
            "remove_nasty_arc": ("DswModel.Tie.SwRemove", ["tie_remove_nasty_arc"]),
        },
        "extra_modules": ["DswModel.Tie.SwCorollaries", "DswModel.Tie.RepCorollaries", "DswModel.Tie.GraphCorollaries",
                          "DswModel.Tie.RemoveCorollaries"],
    },
    "biofilter": {
        "theorems": {
            "LocalBioFilter.__init__": ("DswModel.Tie.BfValid", ["tie_LocalBioFilter_init"]),
            "LocalBioFilter.valid": ("DswModel.Tie.BfValid", ["tie_LocalBioFilter_valid", "tie_LocalBioFilter"]),
            "DefaultBioFilter.valid": ("DswModel.Tie.BfValid", ["tie_DefaultBioFilter_valid"]),
        },
        "extra_modules": ["DswModel.Tie.BfCorollaries", "DswModel.Tie.BfPipeline"],
    },
}


def obligations(name, functions=None):
    """module:theorem strings of a tie (restricted to `functions` when given), for the axiom audit."""
    t = TIES[name]
    out = []
    for fn, (mod, ths) in sorted(t["theorems"].items()):
        if functions is None or fn in functions:
            out += ["%s:Dsw.Tie.%s" % (mod, th) for th in ths]
    return out


def _mod_path(mod):
    return os.path.join(core.LEAN, mod.replace(".", "/") + ".lean")


def _imports(mod):
    out = []
    for line in open(_mod_path(mod)):
        m = re.match(r"\s*import\s+(\S+)", line)
        if m and m.group(1).startswith("DswModel"):
            out.append(m.group(1))
    return out


def _closure(targets):
    closure, todo = {}, list(targets)
    while todo:
        m = todo.pop()
        if m in closure or not os.path.exists(_mod_path(m)):
            continue
        closure[m] = _imports(m)
        todo += closure[m]
    return closure


def _topo(closure, targets):
    order, seen = [], set()

    def visit(m):
        if m in seen or m not in closure:
            return
        seen.add(m)
        for i in closure[m]:
            visit(i)
        order.append(m)
    for t in targets:
        visit(t)
    return order


_STATE = {}


def _all_targets():
    out = []
    for t in TIES.values():
        out += sorted({m for m, _ in t["theorems"].values()}) + t.get("extra_modules", [])
    return [m for m in out if os.path.exists(_mod_path(m))]


def state():
    """translate every generated module, compare with the committed files, re-check what changed.
    Returns {"changed": [...], "unavailable": reason or None, "compiled": set, "failed": {module: why},
             "digest": {...}} (memoised per process and, for changed sources, on disk)."""
    if "s" in _STATE:
        return _STATE["s"]
    t0 = time.time()
    repo = os.environ.get("DSW_REPO", "/repo")
    try:
        texts = py2lean.translate_package(repo, tuple(m for m, _, _ in GEN))
    except (SyntaxError, py2lean.Unsupported, OSError) as ex:
        s = {"unavailable": "%s: %s" % (type(ex).__name__, ex), "changed": [], "compiled": set(), "failed": {}, "digest": {}}
        _STATE["s"] = s
        return s
    digest, changed = {}, []
    for m, _, lean_mod in GEN:
        text = texts[m][0]
        digest[lean_mod] = hashlib.sha256(text.encode()).hexdigest()[:16]
        if text != open(_mod_path(lean_mod)).read():
            changed.append(lean_mod)
    s = {"unavailable": None, "changed": changed, "compiled": set(), "failed": {}, "digest": digest,
         "untranslated": {m: dict(texts[m][1].skipped_functions) for m, _, _ in GEN}}
    if changed:
        key = hashlib.sha256((core.lean_hash() + "".join(texts[m][0] for m, _, _ in GEN)).encode()).hexdigest()[:16]
        scratch = os.path.join(core.VERIF, ".scratch", "tie-" + key)
        result_file = os.path.join(scratch, "result.json")
        if os.path.exists(result_file):
            r = json.load(open(result_file))
            s["compiled"], s["failed"] = set(r["compiled"]), r["failed"]
        else:
            # (several checks may arrive here at once: each works in a directory of its own and the first to
            # finish publishes result.json)
            final_scratch = scratch
            scratch = "%s.%d" % (scratch, os.getpid())
            shutil.rmtree(scratch, ignore_errors=True)
            lib = os.path.join(scratch, "lib")
            os.makedirs(lib)
            built = os.path.join(core.LEAN, ".lake", "build", "lib", "lean", "DswModel")
            subprocess.run(["cp", "-rs", built, os.path.join(lib, "DswModel")], check=True)
            src_dir = os.path.join(scratch, "src")
            os.makedirs(src_dir)
            env = dict(os.environ, LEAN_PATH=lib)

            def compile_module(mod, source):
                base = os.path.join(lib, mod.replace(".", "/"))
                os.makedirs(os.path.dirname(base), exist_ok=True)
                for ext in (".olean", ".ilean", ".olean.server", ".olean.private"):
                    if os.path.lexists(base + ext):
                        os.remove(base + ext)
                p = subprocess.run(["lean", "--root=/", "-o", base + ".olean", "-i", base + ".ilean", source], cwd="/", env=env,
                                   capture_output=True, text=True)
                out = (p.stdout + p.stderr)
                if p.returncode != 0 or re.search(r"\bdeclaration uses 'sorry'", out):
                    errs = [l for l in out.split("\n") if "error" in l][:3] or out.strip().split("\n")[:3]
                    return False, " | ".join(e[:300] for e in errs)
                return True, ""
            targets = _all_targets()
            closure = _closure(targets)
            gen_mods = [lm for _, _, lm in GEN]
            dirty = set(changed)
            # generated modules first (a changed earlier module makes the later ones dirty too)
            for m, _, lean_mod in GEN:
                if lean_mod in dirty or any(i in dirty for i in closure.get(lean_mod, [])):
                    dirty.add(lean_mod)
                    srcp = os.path.join(src_dir, m + ".lean")
                    open(srcp, "w").write(texts[m][0])
                    blocked = [i for i in closure.get(lean_mod, []) if i in s["failed"]]
                    if blocked:
                        s["failed"][lean_mod] = "not re-checked: imports %s" % ", ".join(blocked)
                        continue
                    ok, err = compile_module(lean_mod, srcp)
                    if ok:
                        s["compiled"].add(lean_mod)
                    else:
                        s["failed"][lean_mod] = "the generated definitions do not compile: " + err
            for mod in _topo(closure, targets):
                if mod in gen_mods:
                    continue
                if not any(i in dirty for i in closure[mod]):
                    continue                      # not downstream of a changed module: still holds by the build
                dirty.add(mod)
                blocked = [i for i in closure[mod] if i in s["failed"]]
                if blocked:
                    s["failed"][mod] = "not re-checked: imports %s, which no longer checks" % ", ".join(blocked)
                    continue
                ok, err = compile_module(mod, _mod_path(mod))
                if ok:
                    s["compiled"].add(mod)
                else:
                    s["failed"][mod] = err
            shutil.rmtree(scratch, ignore_errors=True)
            os.makedirs(final_scratch, exist_ok=True)
            tmpf = result_file + ".%d" % os.getpid()
            json.dump({"compiled": sorted(s["compiled"]), "failed": s["failed"]}, open(tmpf, "w"), indent=1)
            os.replace(tmpf, result_file)
    s["seconds"] = round(time.time() - t0, 2)
    _STATE["s"] = s
    return s


def check(name, functions=None):
    """state of the translation tie `name` (restricted to `functions`) for the source in $DSW_REPO."""
    t = TIES[name]
    fns = sorted(f for f in t["theorems"] if functions is None or f in functions)
    fns = [f for f in fns if os.path.exists(_mod_path(t["theorems"][f][0]))]
    s = state()
    if s["unavailable"]:
        return {"tie": name, "status": "unavailable", "reason": s["unavailable"], "functions_tied": [], "functions_not_tied": fns}
    if not s["changed"]:
        return {"tie": name, "status": "holds", "generated_sha256_16": s["digest"],
                "how": "the definitions generated from the source on this run are identical to the committed "
                       "lean/DswModel/Gen/*.lean, which `lake build` compiled and the tie theorems were checked against",
                "functions_tied": fns, "functions_not_tied": [], "seconds": s.get("seconds")}
    not_tied = sorted(f for f in fns if t["theorems"][f][0] in s["failed"])
    tied = [f for f in fns if f not in not_tied]
    return {"tie": name, "status": "holds-rechecked" if not not_tied else "broken", "generated_sha256_16": s["digest"],
            "how": "the source differs from the version the committed definitions were generated from (%s); the tie theorems "
                   "downstream were re-checked by Lean against the newly generated definitions in a scratch copy of the build"
                   % ", ".join(s["changed"]),
            "modules_rechecked": sorted(s["compiled"]),
            "modules_no_longer_checking": {m: w for m, w in s["failed"].items()},
            "theorems_no_longer_checking": sorted("%s:Dsw.Tie.%s" % (t["theorems"][f][0], th) for f in not_tied
                                                  for th in t["theorems"][f][1]),
            "functions_tied": tied, "functions_not_tied": not_tied, "seconds": s.get("seconds")}
