"""Translation tie: the Lean definitions GENERATED from the Python source (harness/py2lean.py) and the
kernel-checked theorems (lean/DswModel/Tie/*) that they compute the hand-written model.

On every run the source in $DSW_REPO is translated again.
 * identical to the committed lean/DswModel/Gen/<Module>.lean  -> the tie theorems that `lake build`
   compiled (and the audit re-examined) are about exactly what the code says now: `holds`;
 * different -> the tie theorems are re-checked by Lean against the NEW definitions in a scratch
   copy of the build (the main build is never touched): every module that still compiles keeps its
   theorems (`holds-rechecked`), the others are `broken` (named, with Lean's first error);
 * outside the translator's fragment -> `unavailable` (reason given).
A broken or unavailable translation tie is not a verdict: the property's theorems stay tied to the code
by the differential correspondence, which runs on every invocation in any case (DESIGN.md §11); the
check then runs with the enlarged budget used for changed sources and records the state in the evidence.
"""
import hashlib
import json
import os
import re
import shutil
import subprocess
import time

import core
import py2lean

TIES = {
    "operation": {
        "source": "dsw/operation.py",
        "gen_module": "DswModel.Gen.Operation",
        # function -> (module, theorems)
        "theorems": {
            "calculus_addition": ("DswModel.Tie.OpAdd", ["tie_calculus_addition"]),
            "calculus_subtraction": ("DswModel.Tie.OpSub", ["tie_calculus_subtraction"]),
            "calculus_multiplication": ("DswModel.Tie.OpMul", ["tie_calculus_multiplication"]),
            "calculus_division": ("DswModel.Tie.OpDiv", ["tie_calculus_division"]),
            "bit_to_number": ("DswModel.Tie.OpBits", ["tie_bit_to_number_str", "tie_bit_to_number_int"]),
            "number_to_bit": ("DswModel.Tie.OpBits", ["tie_number_to_bit_str", "tie_number_to_bit_int", "tie_number_to_bit_other"]),
            "dna_to_number": ("DswModel.Tie.OpDna", ["tie_dna_to_number_str", "tie_dna_to_number_int"]),
            "number_to_dna": ("DswModel.Tie.OpDna", ["tie_number_to_dna_str", "tie_number_to_dna_int", "tie_number_to_dna_other"]),
        },
        "extra_modules": ["DswModel.Tie.Corollaries"],
    },
}


def obligations(name):
    """module:theorem strings of a tie, for the axiom audit."""
    t = TIES[name]
    out = []
    for fn, (mod, ths) in sorted(t["theorems"].items()):
        out += ["%s:Dsw.Tie.%s" % (mod, th) for th in ths]
    return out


def _mod_path(mod):
    return os.path.join(core.LEAN, mod.replace(".", "/") + ".lean")


def _imports(mod):
    out = []
    for line in open(_mod_path(mod)):
        m = re.match(r"\s*import\s+(\S+)", line)
        if m and m.group(1).startswith("DswModel"):
            out.append(m.group(1))
    return out


def _downstream_order(gen_module, targets):
    """project modules in the import closure of `targets` that depend on gen_module, topologically sorted."""
    closure, todo = {}, list(targets)
    while todo:
        m = todo.pop()
        if m in closure or not os.path.exists(_mod_path(m)):
            continue
        closure[m] = _imports(m)
        todo += closure[m]
    dep = {}

    def depends(m):
        if m not in dep:
            dep[m] = False
            dep[m] = m == gen_module or any(depends(i) for i in closure.get(m, []))
        return dep[m]
    order, seen = [], set()

    def visit(m):
        if m in seen or m not in closure:
            return
        seen.add(m)
        for i in closure[m]:
            visit(i)
        if depends(m) and m != gen_module:
            order.append(m)
    for t in targets:
        visit(t)
    return order, closure


def translate(name):
    t = TIES[name]
    src = os.path.join(os.environ.get("DSW_REPO", "/repo"), t["source"])
    text, order = py2lean.translate_source(open(src).read(), os.path.basename(src))
    return text, order


def check(name):
    """state of the translation tie `name` for the source in $DSW_REPO (see module docstring)."""
    t = TIES[name]
    t0 = time.time()
    committed_path = _mod_path(t["gen_module"])
    all_fns = sorted(t["theorems"])
    try:
        text, _ = translate(name)
    except py2lean.Unsupported as ex:
        return {"tie": name, "status": "unavailable", "reason": "source outside the translator's fragment: %s" % ex,
                "functions_tied": [], "functions_not_tied": all_fns, "seconds": round(time.time() - t0, 2)}
    except SyntaxError as ex:
        return {"tie": name, "status": "unavailable", "reason": "source does not parse: %s" % ex,
                "functions_tied": [], "functions_not_tied": all_fns, "seconds": round(time.time() - t0, 2)}
    committed = open(committed_path).read()
    digest = hashlib.sha256(text.encode()).hexdigest()[:16]
    if text == committed:
        return {"tie": name, "status": "holds", "generated_sha256_16": digest,
                "how": "the definitions generated from %s on this run are identical to %s, which `lake build` compiled and "
                       "the tie theorems were checked against" % (t["source"], os.path.relpath(committed_path, core.VERIF)),
                "functions_tied": all_fns, "functions_not_tied": [], "seconds": round(time.time() - t0, 2)}
    # re-check the tie theorems against the new definitions, in a scratch copy of the build
    key = hashlib.sha256((core.lean_hash() + text).encode()).hexdigest()[:16]
    scratch = os.path.join(core.VERIF, ".scratch", "tie-%s-%s" % (name, key))
    result_file = os.path.join(scratch, "result.json")
    if os.path.exists(result_file):
        r = json.load(open(result_file))
        r["seconds"] = round(time.time() - t0, 2)
        r["cached"] = True
        return r
    shutil.rmtree(scratch, ignore_errors=True)
    lib = os.path.join(scratch, "lib")
    os.makedirs(lib)
    built = os.path.join(core.LEAN, ".lake", "build", "lib", "lean", "DswModel")
    subprocess.run(["cp", "-rs", built, os.path.join(lib, "DswModel")], check=True)
    src_dir = os.path.join(scratch, "src")
    os.makedirs(src_dir)
    gen_src = os.path.join(src_dir, "Gen.lean")
    open(gen_src, "w").write(text)
    targets = sorted({m for m, _ in t["theorems"].values()}) + t.get("extra_modules", [])
    order, closure = _downstream_order(t["gen_module"], targets)
    env = dict(os.environ, LEAN_PATH=lib)
    compiled, failed = set(), {}

    def compile_module(mod, source):
        base = os.path.join(lib, mod.replace(".", "/"))
        for ext in (".olean", ".ilean", ".olean.server", ".olean.private"):
            if os.path.lexists(base + ext):
                os.remove(base + ext)
        p = subprocess.run(["lean", "--root=/", "-o", base + ".olean", "-i", base + ".ilean", source], cwd="/", env=env,
                           capture_output=True, text=True)
        out = (p.stdout + p.stderr)
        if p.returncode != 0 or re.search(r"\bdeclaration uses 'sorry'", out):
            errs = [l for l in out.split("\n") if "error" in l][:3] or out.strip().split("\n")[:3]
            return False, " | ".join(e[:300] for e in errs)
        return True, ""
    ok, err = compile_module(t["gen_module"], gen_src)
    if not ok:
        r = {"tie": name, "status": "unavailable", "generated_sha256_16": digest,
             "reason": "the generated definitions do not compile: " + err,
             "functions_tied": [], "functions_not_tied": all_fns}
    else:
        compiled.add(t["gen_module"])
        for mod in order:
            blocked = [i for i in closure[mod] if i in failed]
            if blocked:
                failed[mod] = "not re-checked: imports %s, which no longer checks" % ", ".join(blocked)
                continue
            ok, err = compile_module(mod, _mod_path(mod))
            if ok:
                compiled.add(mod)
            else:
                failed[mod] = err
        tied = sorted(fn for fn, (mod, _) in t["theorems"].items() if mod in compiled)
        not_tied = sorted(fn for fn in t["theorems"] if fn not in tied)
        r = {"tie": name, "status": "holds-rechecked" if not not_tied else "broken", "generated_sha256_16": digest,
             "how": "the source differs from the version the committed definitions were generated from; the tie theorems "
                    "were re-checked by Lean against the newly generated definitions in a scratch copy of the build",
             "modules_rechecked": sorted(compiled), "modules_no_longer_checking": failed,
             "theorems_no_longer_checking": sorted("%s:Dsw.Tie.%s" % (t["theorems"][fn][0], th) for fn in not_tied
                                                   for th in t["theorems"][fn][1]),
             "functions_tied": tied, "functions_not_tied": not_tied}
    # keep the verdict, drop the bulky build products
    shutil.rmtree(lib, ignore_errors=True)
    json.dump(r, open(result_file, "w"), indent=1)
    r["seconds"] = round(time.time() - t0, 2)
    return r
