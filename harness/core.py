"""Check framework: context handed to each property's generator, correspondence diff,
verdict logic, evidence and replay files."""
import hashlib
import json
import os
import random
import re
import subprocess
import sys
import time

VERIF = os.path.dirname(os.path.dirname(os.path.abspath(__file__)))
LEAN = os.path.join(VERIF, "lean")
REPLAYS = os.path.join(VERIF, "replays")
EVIDENCE = os.path.join(VERIF, "evidence")
CORPUS = os.path.join(VERIF, "corpus")

FORBIDDEN = re.compile(r"\b(sorry|admit|native_decide|bv_decide|implemented_by)\b|^\s*axiom\s|\bunsafe\s|maxHeartbeats\s+0")
ALLOWED_AXIOMS = {"propext", "Classical.choice", "Quot.sound"}

NONTERM = {"err TIMEOUT", "err BUDGET", "err OUT_OF_FUEL"}


class Infra(Exception):
    """infrastructure failure: exit 2, never a VIOLATION."""


# --------------------------------------------------------------------------- Lean side
def _strip_comments(src):
    src = re.sub(r"/-.*?-/", "", src, flags=re.S)
    return re.sub(r"--.*", "", src)


def lean_sources():
    out = []
    for root, _, files in os.walk(LEAN):
        if ".lake" in root:
            continue
        for f in sorted(files):
            if f.endswith(".lean"):
                out.append(os.path.join(root, f))
    return sorted(out)


def lean_hash():
    h = hashlib.sha256()
    for p in lean_sources() + [os.path.join(LEAN, "lakefile.toml")]:
        h.update(p.encode())
        h.update(open(p, "rb").read())
    return h.hexdigest()


def module_closure(mods):
    """all project modules imported (transitively) by `mods`, as file paths."""
    seen, todo = set(), list(mods)
    while todo:
        m = todo.pop()
        if m in seen or not m.startswith("DswModel"):
            continue
        seen.add(m)
        path = os.path.join(LEAN, m.replace(".", "/") + ".lean")
        if not os.path.exists(path):
            raise Infra("missing module " + m)
        for line in open(path):
            mm = re.match(r"\s*import\s+(\S+)", line)
            if mm:
                todo.append(mm.group(1))
    return sorted(os.path.join(LEAN, m.replace(".", "/") + ".lean") for m in seen)


def lean_build(mods=()):
    """(re)build the driver and the property's modules from the sources; no-op when up to date."""
    t0 = time.time()
    p = subprocess.run(["lake", "build", "dswdriver"] + list(mods), cwd=LEAN, capture_output=True, text=True)
    if p.returncode != 0:
        raise Infra("lake build failed:\n" + (p.stdout + p.stderr)[-4000:])
    return time.time() - t0


def lean_audit(theorems):
    """grep for forbidden constructs and `#print axioms` of every listed theorem.
    Returns {theorem: sorted axiom list}; raises Infra on any audit failure (the Lean side cannot
    change with the repository, so a failure here is never a property violation)."""
    cache_dir = os.path.join(VERIF, ".cache")
    os.makedirs(cache_dir, exist_ok=True)
    key = hashlib.sha256((lean_hash() + "|" + ",".join(sorted(theorems))).encode()).hexdigest()[:24]
    cpath = os.path.join(cache_dir, "audit-" + key + ".json")
    if os.path.exists(cpath):
        return json.load(open(cpath))
    mods = sorted({t.split(":")[0] for t in theorems})
    for p in module_closure(mods) + [os.path.join(LEAN, "Driver.lean")]:
        body = _strip_comments(open(p).read())
        for i, line in enumerate(body.split("\n")):
            if FORBIDDEN.search(line):
                raise Infra("forbidden construct in %s: %s" % (p, line.strip()))
    mods = sorted({t.split(":")[0] for t in theorems})
    names = [t.split(":")[1] for t in theorems]
    src = "".join("import %s\n" % m for m in mods) + "".join("#print axioms %s\n" % n for n in names)
    apath = os.path.join(cache_dir, "Audit-" + key + ".lean")
    open(apath, "w").write(src)
    p = subprocess.run(["lake", "env", "lean", apath], cwd=LEAN, capture_output=True, text=True)
    if p.returncode != 0:
        raise Infra("axiom audit failed:\n" + (p.stdout + p.stderr)[-4000:])
    out = {}
    text = re.sub(r"\s+", " ", p.stdout)
    for n in names:
        m = re.search(r"'%s' depends on axioms: \[([^\]]*)\]" % re.escape(n), text)
        if m:
            axs = sorted(a.strip() for a in m.group(1).split(",") if a.strip())
        elif re.search(r"'%s' does not depend on any axioms" % re.escape(n), text):
            axs = []
        else:
            raise Infra("no axiom report for " + n)
        bad = [a for a in axs if a not in ALLOWED_AXIOMS]
        if bad:
            raise Infra("theorem %s depends on disallowed axioms %s" % (n, bad))
        out[n] = axs
    json.dump(out, open(cpath, "w"))
    return out


def leanchecker(mods):
    p = subprocess.run(["lake", "env", "leanchecker"] + mods, cwd=LEAN, capture_output=True, text=True)
    if p.returncode != 0:
        raise Infra("leanchecker failed:\n" + (p.stdout + p.stderr)[-3000:])
    return True


# --------------------------------------------------------------------------- context
class Ctx:
    def __init__(self, pid, tier, seed, part=0, nparts=1):
        self.pid, self.tier, self.seed, self.part, self.nparts = pid, tier, seed, part, nparts
        self.rng = random.Random("%s|%d|%d" % (pid, seed, part))
        self.lines = []        # protocol lines (correspondence)
        self.impl = []         # implementation outputs for those lines
        self.failures = []     # direct-sweep failures: dicts
        self.findings = []     # known findings hit: (key, text)
        self.evaluations = 0
        self.nontrivial = set()
        self.classes = {}
        self.samples = []
        self.t0 = time.time()

    @property
    def thorough(self):
        return self.tier == "thorough"

    def n(self, quick, thorough):
        """per-part iteration budget."""
        tot = thorough if self.thorough else quick * int(os.environ.get("VERIF_QUICK_SCALE", "4"))
        return max(1, tot // self.nparts)

    def corr(self, line, extra=None):
        """run `line` on the implementation now, remember it for the model; returns impl output."""
        import proto
        out = proto.run_impl(line, extra)
        self.lines.append(line)
        self.impl.append(out)
        if " ARGUMENT-MODIFIED:" in out:
            out, which = out.split(" ARGUMENT-MODIFIED:")
            self.fail("the call modifies its argument (%s)" % which, line=line)
        return out

    def case(self, key, nontrivial, *classes):
        """count one explored case; `key` identifies it for distinctness."""
        self.evaluations += 1
        if nontrivial:
            self.nontrivial.add(hashlib.md5(key.encode()).hexdigest()[:12])
        for c in classes:
            self.classes[c] = self.classes.get(c, 0) + 1
        if len(self.samples) < 6 and nontrivial and self.rng.random() < 0.2:
            self.samples.append(key[:400])

    def fail(self, what, **data):
        if len(self.failures) < 50:
            d = {"what": what}
            for k, v in data.items():
                if isinstance(v, int) and not isinstance(v, bool) and v.bit_length() > 4000:
                    v = "<integer of %d bits, see the operation line>" % v.bit_length()
                elif isinstance(v, str) and len(v) > 20000:
                    v = v[:20000] + "...<truncated>"
                d[k] = v
            self.failures.append(d)

    def finding(self, key, text):
        self.findings.append((key, text))

    def export(self):
        return {"lines": self.lines, "impl": self.impl, "failures": self.failures, "findings": self.findings,
                "evaluations": self.evaluations, "nontrivial": sorted(self.nontrivial), "classes": self.classes,
                "samples": self.samples}


def _median(xs):
    xs = sorted(xs)
    n = len(xs)
    return xs[n // 2] if n % 2 else (xs[n // 2 - 1] + xs[n // 2]) / 2


def same_cap(impl_out, model_out):
    """`cap` lines compare floats of the implementation with exact rationals of the model:
    capacity within 1e-8, per-iteration eigenvalue estimates within 1e-9 relative on the common
    prefix; the stop index may differ by at most 2 iterations (stopping inequality at threshold)."""
    import math
    try:
        a, b = impl_out.split(" "), model_out.split(" ")
        if a[0] != "ok" or b[0] != "ok":
            return impl_out == model_out
        cap = float(a[1])
        res = [int(x) / 1e18 for x in b[1].split(",")]
        mcap = _median([math.log2(x) for x in res])
        if abs(cap - mcap) > 1e-8:
            return False
        ra = [[2.0 ** float(x) for x in r.split(",")] for r in a[2].split(";")]
        rb = [[int(x) / 1e18 for x in r.split(",")] for r in b[2].split(";")]
        if len(ra) != len(rb):
            return False
        for x, y in zip(ra, rb):
            if abs(len(x) - len(y)) > 2:
                return False
            for p, q in zip(x, y):
                if abs(p - q) > 1e-9 * max(1.0, abs(q)):
                    return False
        return True
    except Exception:
        return False


ERRS = ("err ValueError", "err IndexError", "err TypeError", "err OverflowError", "err Other")


def canon_capf(model_out):
    """`capf` lines: the model returns the eigenvalue estimates as exact fractions of doubles; the code reports their
    logarithms. `numpy.log2` and `numpy.median` are applied to the model's doubles HERE (the same library calls the code
    makes, on bit-identical arguments), after which the two lines must be equal character for character."""
    import numpy as np
    from fractions import Fraction
    t = model_out.split(" ")
    if t[0] != "ok" or len(t) != 3:
        return model_out

    def dbl(tok):
        n, d = tok.split("/")
        f = Fraction(int(n), int(d))
        x = float(f)
        if Fraction(x) != f:
            raise ValueError("model value is not a double: " + tok)
        return x
    res = [float(np.log2(dbl(x))) for x in t[1].split(",")]
    recs = [[float(np.log2(dbl(x))) for x in r.split(",")] for r in t[2].split(";")]
    # (log2(1.0) == 0.0 is what the code reports for an estimate that does not exceed the tolerance)
    return "ok " + float(np.median(res)).hex() + " " + ";".join(",".join((x + 0.0).hex() for x in r) for r in recs)


def observable(line, out):
    """what the properties say about the result of one operation (a harmless rewrite may change the rest:
    bookkeeping statistics, the recorded path, the class of an error no property names - DESIGN.md §10.6):
      rep  repair_dna        candidates and the detected count (C08-C10); not flag / count / visited
      pm   path_matching     the records; not the visited count
      enc  encode            strand and check; not the recorded path; no property names an error class of encode
                             (inside every property's domain it does not raise), so all error classes are one
    Non-termination (TIMEOUT / BUDGET / OUT_OF_FUEL) always stays distinct from a raised error."""
    op = line.split(" ", 1)[0]
    if out in NONTERM:
        return "nonterm"
    if op == "rep" and out.startswith("ok "):
        return " ".join(out.split(" ")[:3])
    if op == "pm" and out.startswith("ok "):
        return " ".join(out.split(" ")[:2])
    if op == "enc":
        if out.startswith("ok "):
            return " ".join(out.split(" ")[:3])
        if out in ERRS:
            return "err"
    if op == "rna":
        # C19 speaks about calls that RETURN, and leaves open which of several arcs tied at the maximum score goes: whether
        # the call returns is compared with the model; what a returning call did (an existing arc of maximum score, nothing
        # else changed, both views in step) is judged by the direct sweep with its own reference scorer
        return "ok" if out.startswith("ok") else "err"
    return out


def same(line, impl_out, model_out):
    if impl_out == model_out:
        return True
    if line.startswith("cap "):
        return same_cap(impl_out, model_out)
    if line.startswith("capf ") or line.startswith("capr "):
        try:
            return impl_out == canon_capf(model_out)
        except Exception:
            return False
    if line.startswith("dec ") and model_out == "err IndexError" and (impl_out in ERRS or impl_out.startswith("ok ")):
        # fast-mode decoding of a string that carries more bits than requested: outside C06's fast-mode clause
        # (the model raises IndexError there because the pinned code does; no property says what must happen)
        return True
    return observable(line, impl_out) == observable(line, model_out)


def write_replay(pid, seed, idx, data):
    os.makedirs(REPLAYS, exist_ok=True)
    path = os.path.join(REPLAYS, "%s-seed%d-%d.json" % (pid, seed, idx))
    json.dump(data, open(path, "w"), indent=1, sort_keys=True)
    return path


def load_known():
    p = os.path.join(VERIF, "known_findings.json")
    if not os.path.exists(p):
        return []
    return json.load(open(p)).get("known", [])
