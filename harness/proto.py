"""Line protocol shared by the implementation side and the Lean model driver.

Every operation is one text line `op arg arg ...`; `run_impl(line)` executes the real
`dsw` function in-process and renders the result in the canonical form the driver prints;
`run_model(lines)` pipes the same lines to the native driver built from the Lean model.
"""
import os
import signal
import subprocess
import sys

REPO = os.environ.get("DSW_REPO", "/repo")
if REPO not in sys.path:
    sys.path.insert(0, REPO)

import numpy as np  # noqa: E402
import dsw  # noqa: E402
from dsw import spiderweb as SW, graphized as GZ, operation as OP, biofilter as BF  # noqa: E402

assert os.path.realpath(os.path.dirname(dsw.__file__)) == os.path.realpath(os.path.join(REPO, "dsw")), \
    "dsw imported from %s, expected %s" % (dsw.__file__, REPO)

VERIF = os.path.dirname(os.path.dirname(os.path.abspath(__file__)))
DRIVER = os.path.join(VERIF, "lean", ".lake", "build", "bin", "dswdriver")

NUC = "ACGT"


# ---------------------------------------------------------------- encoders (python -> token)
def big_int(s):
    """int(s) for the harness' own use, beyond CPython's default 4300-digit limit (the library is
    always called under the default limit)."""
    old = sys.get_int_max_str_digits()
    sys.set_int_max_str_digits(0)
    try:
        return int(s)
    finally:
        sys.set_int_max_str_digits(old)


def big_str(n):
    old = sys.get_int_max_str_digits()
    sys.set_int_max_str_digits(0)
    try:
        return str(int(n))
    finally:
        sys.set_int_max_str_digits(old)


def dash(s):
    return s if s != "" else "-"


def undash(s):
    return "" if s == "-" else s


def enc_acc(acc):
    """accessor -> token. de Bruijn sub-tables travel as hex nibbles, others as integers."""
    acc = np.asarray(acc)
    n = len(acc)
    k = 0
    while 4 ** k < n:
        k += 1
    if 4 ** k == n and acc.ndim == 2 and acc.shape[1] == 4:
        nib = []
        ok = True
        for v in range(n):
            b = 0
            for j in range(4):
                e = int(acc[v][j])
                if e == (v * 4 + j) % n:
                    b |= 1 << j
                elif e != -1:
                    ok = False
            nib.append("0123456789abcdef"[b])
        if ok:
            return "d%d:%s" % (k, "".join(nib))
    return "g:" + ",".join(str(int(e)) for e in acc.reshape(-1))


def dec_acc(tok):
    if tok.startswith("d"):
        ks, nib = tok[1:].split(":")
        k = int(ks)
        n = 4 ** k
        acc = -np.ones((n, 4), dtype=int)
        for v, c in enumerate(nib):
            b = int(c, 16)
            for j in range(4):
                if (b >> j) & 1:
                    acc[v][j] = (v * 4 + j) % n
        return acc
    xs = [int(x) for x in tok[2:].split(",")]
    return np.array(xs, dtype=int).reshape(-1, 4)


def show_acc(acc):
    return dash(";".join(",".join(str(int(e)) for e in r) for r in acc))


def enc_tbl(tbl):
    if tbl is None:
        return "-"
    return "".join(str(int(e)) for e in np.asarray(tbl).reshape(-1))


def dec_tbl(tok):
    if tok == "-":
        return None
    return np.array([int(c) for c in tok], dtype=int).reshape(-1, 4)


def enc_bits(bits):
    return dash("".join(str(int(b)) for b in bits))


def dec_bits(tok):
    return np.array([int(c) for c in undash(tok)], dtype=int)


def enc_lmap(m):
    return dash(";".join("%d:%s" % (int(k), ",".join(str(int(x)) for x in v)) for k, v in m.items()))


def dec_lmap(tok):
    m = {}
    if tok == "-":
        return m
    for e in tok.split(";"):
        k, ls = e.split(":")
        m[int(k)] = [int(x) for x in ls.split(",")] if ls else []
    return m


def enc_matrix(m):
    return dash(";".join("".join(str(int(e)) for e in r) for r in m))


def dec_matrix(tok):
    if tok == "-":
        return np.zeros((0, 0), dtype=int)
    return np.array([[int(c) for c in r] for r in tok.split(";")], dtype=int)


def show_nats(xs):
    return dash(",".join(str(int(x)) for x in xs))


def opt(tok):
    return None if tok == "None" else undash(tok)


def b(tok):
    return tok == "1"


# ---------------------------------------------------------------- PV wire form (gen operations)
def pv_enc(v):
    """Python value -> wire token of lean/DswModel/Py/Wire.lean (NumPy scalars as plain ints)."""
    if v is None:
        return "n"
    if v is True or isinstance(v, np.bool_) and bool(v):
        return "bT"
    if v is False or isinstance(v, np.bool_):
        return "bF"
    if isinstance(v, (int, np.integer)):
        return "i" + big_str(v)
    if isinstance(v, (float, np.floating)):
        n, d = float(v).as_integer_ratio()        # the exact value of the double (inf / nan: no wire form)
        return "f%s/%s" % (big_str(n), big_str(d))
    if isinstance(v, str):
        return "s" + v
    if isinstance(v, np.ndarray):
        return "A[" + ";".join(pv_enc(x) for x in v) + "]"
    if isinstance(v, list):
        return "L[" + ",".join(pv_enc(x) for x in v) + "]"
    if isinstance(v, dict):
        return "D{" + ";".join(pv_enc(k) + ":" + pv_enc(x) for k, x in v.items()) + "}"
    if isinstance(v, tuple):
        return "T(" + ",".join(pv_enc(x) for x in v) + ")"
    raise TypeError("no wire form for %r" % type(v))


def _exact_float(n, d):
    """the double whose exact value is n / d (the wire only carries such fractions)."""
    import fractions
    x = float(fractions.Fraction(n, d))
    if fractions.Fraction(x) != fractions.Fraction(n, d):
        raise ValueError("not a double: %d/%d" % (n, d))
    return x


def pv_dec(tok):
    if tok == "n":
        return None
    if tok == "bT":
        return True
    if tok == "bF":
        return False
    if tok.startswith("i"):
        return big_int(tok[1:])
    if tok.startswith("f"):
        n, d = tok[1:].split("/")
        return _exact_float(big_int(n), big_int(d))
    if tok.startswith("s"):
        return tok[1:]
    if tok.startswith("A[") and tok.endswith("]"):
        body = tok[2:-1]
        items = [pv_dec(x) for x in body.split(";")] if body else []
        return np.array(items, dtype=bool if items and all(isinstance(x, bool) for x in items) else int)
    if tok.startswith("M[") and tok.endswith("]"):
        body = tok[2:-1]
        return np.array([[pv_dec(x) for x in r.split(";")] for r in body.split("|")] if body else [], dtype=int)
    if tok.startswith("D{") and tok.endswith("}"):
        body = tok[2:-1]
        return {pv_dec(kv.split(":")[0]): pv_dec(kv.split(":")[1]) for kv in body.split(";")} if body else {}
    if tok.startswith("L[") and tok.endswith("]"):
        body = tok[2:-1]
        return [pv_dec(x) for x in body.split(",")] if body else []
    if tok.startswith("T(") and tok.endswith(")"):
        body = tok[2:-1]
        return tuple(pv_dec(x) for x in body.split(",")) if body else ()
    raise ValueError("bad wire token " + tok)


# ---------------------------------------------------------------- shared argument objects
# The real functions are handed the SAME Python object again whenever the same token recurs in a
# process, and after every call each object is compared with the token it was built from: a call
# that writes into one of its arguments is reported (suffix `ARGUMENT-MODIFIED:<kind>` on the result
# line, which then disagrees with the model) and is seen by later calls, exactly as a user's shared
# graph, table, message or mask would be. `remove_nasty_arc`, documented to work in place, is exempt.
_CACHE = {}
_USED = []


def _shared(kind, tok, make, enc):
    key = (kind, tok)
    if key not in _CACHE:
        if len(_CACHE) > 400:
            _CACHE.clear()
        _CACHE[key] = make(tok)
    obj = _CACHE[key]
    _USED.append((key, obj, enc))
    return obj


def s_acc(tok):
    return _shared("accessor", tok, dec_acc, enc_acc)


def s_tbl(tok):
    return None if tok == "-" else _shared("shuffles", tok, dec_tbl, enc_tbl)


def s_bits(tok):
    return _shared("binary_message", tok, dec_bits, enc_bits)


def s_lmap(tok):
    return _shared("latter_map", tok, dec_lmap, enc_lmap)


def s_matrix(tok):
    return _shared("matrix", tok, dec_matrix, enc_matrix)


def s_mask(tok, dtype):
    return _shared("vertices[%s]" % dtype.__name__, tok,
                   lambda t: np.array([int(c) for c in undash(t)], dtype=dtype),
                   lambda m: dash("".join(str(int(x)) for x in m)))


# ---------------------------------------------------------------- errors
class BudgetExceeded(Exception):
    pass


def err_name(e):
    if isinstance(e, BudgetExceeded):
        return "BUDGET"
    for cls, name in ((ValueError, "ValueError"), (IndexError, "IndexError"), (TypeError, "TypeError"),
                      (OverflowError, "OverflowError")):
        if type(e) is cls:
            return name
    return "Other"


class _Alarm(Exception):
    pass


def _on_alarm(signum, frame):
    raise _Alarm()


_RETRIES_LEFT = [3]


def guarded(fn, seconds=8):
    """run fn() under a wall-clock alarm; returns ('ok', value) | ('err', name) | ('timeout', None).
    A call that normally takes milliseconds can exceed a short alarm when the machine is saturated (other checks, builds):
    the first few timeouts of a process are therefore tried ONCE more with a longer alarm before they are reported - a call
    that really does not return times out again (and after three such retries every further timeout is reported at once,
    so a change that makes a loop endless costs a bounded extra time)."""
    r = _guarded_once(fn, seconds)
    if r[0] == "timeout" and seconds < 30 and _RETRIES_LEFT[0] > 0:
        _RETRIES_LEFT[0] -= 1
        r = _guarded_once(fn, 30)
    return r


def _guarded_once(fn, seconds):
    try:
        return _guarded(fn, seconds)
    except _Alarm:
        # the alarm went off between the end of fn() and its cancellation (or inside an exception handler): a timeout
        signal.alarm(0)
        return "timeout", None


def _guarded(fn, seconds):
    old = signal.signal(signal.SIGALRM, _on_alarm)
    signal.alarm(seconds)
    try:
        return "ok", fn()
    except _Alarm:
        return "timeout", None
    except BaseException as e:  # noqa
        if isinstance(e, (KeyboardInterrupt, SystemExit)):
            raise
        return "err", err_name(e)
    finally:
        signal.alarm(0)
        signal.signal(signal.SIGALRM, old)


def render(status, value, fmt):
    if status == "ok":
        return "ok " + fmt(value)
    if status == "timeout":
        return "err TIMEOUT"
    return "err " + value


class TableFilter(BF.DefaultBioFilter):
    """a filter written against the documented interface: valid(self, dna_string)."""

    def __init__(self, table):
        super().__init__(screen_name="table")
        self.table = table
        self.asked = []

    def valid(self, dna_string):
        self.asked.append(dna_string)
        return self.table[OP.dna_to_number(dna_string, is_string=False)] == "1"


class _TableObject(BF.DefaultBioFilter):
    """a filter given by the table of its answers; written against the documented interface valid(self, dna_string)."""

    def __init__(self, table):
        super().__init__(screen_name="table")
        self.table = table

    def valid(self, dna_string):
        return self.table[dna_string]


def mk_filter(k, run, motifs, gcfloats):
    return BF.LocalBioFilter(observed_length=k,
                             max_homopolymer_runs=None if run == "-" else int(run),
                             gc_range=gcfloats,
                             undesired_motifs=None if motifs == "-" else [undash(m) for m in motifs.split(",")])


# ---------------------------------------------------------------- implementation side
def run_impl(line, extra=None):
    """Execute one protocol line against the real code and return the canonical result line;
    reports arguments the call modified (see the shared-object cache above)."""
    del _USED[:]
    try:
        out = _run_impl(line, extra)
    except (_Alarm, KeyboardInterrupt, SystemExit):
        raise
    except BaseException as e:  # noqa
        # an operation whose handler calls the real function unguarded (inside every property's domain the pinned code
        # does not raise there): a change that makes it raise is a result like any other, not a crash of the harness
        out = "err " + err_name(e)
    modified = []
    for key, obj, enc in list(_USED):
        try:
            same = enc(obj) == key[1]
        except Exception:  # noqa
            same = False
        if not same:
            modified.append(key[0])
            _CACHE.pop(key, None)
    del _USED[:]
    if modified:
        out += " ARGUMENT-MODIFIED:" + ",".join(sorted(set(modified)))
    return out


def _run_impl(line, extra=None):
    t = line.split(" ")
    op = t[0]
    def plain(fn):
        st, v = guarded(fn, 60)
        return v if st == "ok" else ("err TIMEOUT" if st == "timeout" else "err " + v)
    if op == "gen":
        # translated definitions (DswModel.Gen.*): the real function on the same wire values
        args = [pv_dec(x) for x in t[2:]]
        if t[1] in ("LocalBioFilter", "DefaultBioFilter"):
            # a constructor call: the object comes back as the dict of its attributes (lean: pySetAttr)
            st, v = guarded(lambda: dict(vars(getattr(BF, t[1])(*args))), 60)
            return "ok " + pv_enc(v) if st == "ok" else ("err TIMEOUT" if st == "timeout" else "err " + v)
        if "." in t[1]:
            # a method call: the receiver travels as the dict of its attributes
            cname, mname = t[1].split(".")
            obj = object.__new__(getattr(BF, cname))
            if not isinstance(args[0], dict):
                return "err Other"
            obj.__dict__.update(args[0])
            st, v = guarded(lambda: getattr(obj, mname)(*args[1:]), 60)
            if st == "ok" and dict(vars(obj)) != args[0]:
                return "ok " + pv_enc(v) + " ARGUMENT-MODIFIED:self"
            return "ok " + pv_enc(v) if st == "ok" else ("err TIMEOUT" if st == "timeout" else "err " + v)
        fn = getattr(OP, t[1], None) or getattr(SW, t[1], None) or getattr(GZ, t[1])
        if t[1] == "find_vertices":
            # the filter object travels as the table of its answers (lean: pyCallMethod)
            args[1] = _TableObject(args[1])
        import contextlib
        import io
        with contextlib.redirect_stdout(io.StringIO()):      # progress monitor output (verbose=True)
            st, v = guarded(lambda: fn(*args), 120)
        if st == "ok":
            return "ok " + pv_enc(v)
        return "err TIMEOUT" if st == "timeout" else "err " + v
    if op == "fop":
        import operator
        fa, fb = pv_dec(t[2]), pv_dec(t[3])
        f = {"mul": operator.mul, "sub": operator.sub, "add": operator.add, "lt": operator.lt, "le": operator.le,
             "eq": operator.eq, "int": lambda x, _y: int(x)}[t[1]]
        st, v = guarded(lambda: f(fa, fb), 20)
        if st == "ok" and isinstance(v, float) and (v != v or v in (float("inf"), float("-inf"))):
            return "err Other"                      # an infinite result is outside the fragment
        return "ok " + pv_enc(v) if st == "ok" else ("err TIMEOUT" if st == "timeout" else "err " + v)
    if op == "shuf":
        return render(*guarded(lambda: SW.create_random_shuffles(int(t[1]), random_seed=int(t[2]))),
                      lambda tb: "".join(str(int(x)) for x in np.asarray(tb).reshape(-1)))
    if op == "add":
        return plain(lambda: OP.calculus_addition(t[1], t[2]))
    if op == "sub":
        return plain(lambda: OP.calculus_subtraction(t[1], t[2]))
    if op == "mul":
        return plain(lambda: OP.calculus_multiplication(t[1], t[2]))
    if op == "div":
        return plain(lambda: " ".join(OP.calculus_division(t[1], t[2])))
    if op == "b2n":
        bits = s_bits(t[1])
        return OP.bit_to_number(bits, is_string=True) + " " + big_str(OP.bit_to_number(bits, is_string=False))
    if op == "n2b":
        s = guarded(lambda: OP.number_to_bit(t[1], int(t[2])), 240)
        n_int = big_int(t[1])
        return render(*s, enc_bits) + " | " + enc_bits(OP.number_to_bit(n_int, int(t[2])))
    if op == "d2n":
        s = guarded(lambda: OP.dna_to_number(undash(t[1]), is_string=True))
        i = guarded(lambda: OP.dna_to_number(undash(t[1]), is_string=False))
        return render(*s, str) + " | " + render(*i, big_str)
    if op == "n2d":
        s = guarded(lambda: OP.number_to_dna(t[1], int(t[2])), 240)
        n_int = big_int(t[1])
        return render(*s, dash) + " | " + dash(OP.number_to_dna(n_int, int(t[2])))
    if op == "latters":
        return show_nats(GZ.obtain_latters(int(t[2]), int(t[1])))
    if op == "formers":
        return show_nats(GZ.obtain_formers(int(t[2]), int(t[1])))
    if op == "complete":
        return show_acc(GZ.get_complete_accessor(int(t[1])))
    if op == "a2m":
        return render(*guarded(lambda: GZ.accessor_to_adjacency_matrix(s_acc(t[1]))), enc_matrix)
    if op == "m2a":
        return render(*guarded(lambda: GZ.adjacency_matrix_to_accessor(s_matrix(t[1]))), show_acc)
    if op == "a2l":
        return enc_lmap(GZ.accessor_to_latter_map(s_acc(t[1])))
    if op == "l2a":
        if t[3] == "-":        # no threshold: the argument is LEFT OUT, so that the function's own default is what runs
            return render(*guarded(lambda: GZ.latter_map_to_accessor(s_lmap(t[1]), int(t[2]))), show_acc)
        return render(*guarded(lambda: GZ.latter_map_to_accessor(s_lmap(t[1]), int(t[2]), threshold=int(t[3]))), show_acc)
    if op == "rmu":
        return render(*guarded(lambda: GZ.remove_useless(s_lmap(t[1]), int(t[2]))), enc_lmap)
    if op == "verts":
        return show_nats(GZ.obtain_vertices(s_acc(t[1])))
    if op == "leafa":
        return show_nats(GZ.obtain_leaf_vertices(int(t[2]), int(t[3]), accessor=s_acc(t[1])))
    if op == "leafl":
        return show_nats(GZ.obtain_leaf_vertices(int(t[2]), int(t[3]), latter_map=s_lmap(t[1])))
    if op == "pm":
        def fmt(r):
            rec, cnt = r
            return dash(";".join("%s,%d,%s,%s" % (i[0], i[1], i[2], dash(f)) for i, f in rec)) + " " + str(int(cnt))
        return render(*guarded(lambda: GZ.path_matching(undash(t[2]), s_acc(t[1]), int(t[3]), int(t[4]),
                                                        has_indel=b(t[5]))), fmt)
    if op == "cis":
        sc = GZ.calculate_intersection_score(s_lmap(t[1]), observed_length=int(t[2]),
                                             has_insertion=b(t[3]), has_deletion=b(t[4]))
        return dash(";".join(",".join(str(int(e)) for e in r) for r in sc))
    if op == "enc":
        acc = s_acc(t[1]) if extra is None or "acc" not in extra else extra["acc"]

        def call():
            tbl = s_tbl(t[2]) if extra is None or "tbl" not in extra else extra["tbl"]
            r = SW.encode(s_bits(t[4]), acc, int(t[3]), is_faster=b(t[5]), vt_length=int(t[6]),
                          shuffles=tbl, need_path=True)
            if int(t[6]) > 0:
                s, c, p = r
            else:
                (s, p), c = r, None
            return s, c, p

        def fmt(r):
            s, c, p = r
            return dash(s) + " " + ("None" if c is None else dash(c)) + " " + \
                dash(";".join("%d,%d" % (int(x[0]), int(x[1])) for x in p))
        return render(*guarded(call), fmt)
    if op == "dec":
        acc = s_acc(t[1]) if extra is None or "acc" not in extra else extra["acc"]
        dtbl = s_tbl(t[2]) if extra is None or "tbl" not in extra else extra["tbl"]
        return render(*guarded(lambda: SW.decode(undash(t[4]), int(t[5]), acc, int(t[3]), is_faster=b(t[6]),
                                                 vt_check=opt(t[7]), shuffles=dtbl)), enc_bits)
    if op == "vt":
        return render(*guarded(lambda: SW.set_vt(undash(t[1]), int(t[2]))), dash)
    if op == "rep":
        acc = s_acc(t[1]) if extra is None or "acc" not in extra else extra["acc"]

        def fmt(r):
            c, (d, f, cnt, vis) = r
            return dash(",".join(dash(x) for x in c)) + " %d %d %d %d" % (int(d), int(bool(f)), int(cnt), int(vis))
        return render(*guarded(lambda: SW.repair_dna(undash(t[2]), acc, int(t[3]), int(t[4]), vt_check=opt(t[5]),
                                                     has_indel=b(t[6]), heap_size=int(t[7]))), fmt)
    if op == "fv":
        return render(*guarded(lambda: SW.find_vertices(int(t[1]), TableFilter(t[2]))),
                      lambda m: "".join(str(int(x)) for x in m))
    if op == "cvg":
        m = None if t[2] == "None" else s_mask(t[2], (extra or {}).get("dtype", int))
        return render(*guarded(lambda: SW.connect_valid_graph(int(t[1]), m)), show_acc)
    if op == "ccg":
        m = s_mask(t[2], (extra or {}).get("dtype", int))

        def fmt(r):
            vs, acc = r
            vs = np.asarray(vs)
            idx = np.where(vs != 0)[0] if len(vs) == len(acc) and set(np.unique(vs).tolist()) <= {0, 1} else vs
            return show_nats(sorted(int(x) for x in idx)) + " " + show_acc(acc)
        return render(*guarded(lambda: SW.connect_coding_graph(int(t[1]), m, int(t[3]))), fmt)
    if op == "rna":
        def fmt(r):
            acc, lm, (f, l), sc = r
            return show_acc(acc) + " " + enc_lmap(lm) + " %d,%d " % (int(f), int(l)) + show_nats(sc)
        return render(*guarded(lambda: SW.remove_nasty_arc(dec_acc(t[1]), dec_lmap(t[2]), has_insertion=b(t[3]),
                                                           has_deletion=b(t[4]))), fmt)
    if op == "cap":
        from fractions import Fraction
        acc = s_acc(t[1])
        vecs = [[Fraction(x) for x in v.split(",")] for v in t[4].split(";")]
        repeats = len(vecs)
        seed = int(t[5])
        if repeats > 1:
            np.random.seed(seed)
            drawn = [abs(np.random.random(size=(len(acc),))) for _ in range(repeats)]
            if [[Fraction(float(x)) for x in d] for d in drawn] != vecs:
                raise ValueError("cap line: start vectors do not match the seed")
            np.random.seed(seed)

        def call():
            return GZ.approximate_capacity(acc, tolerance_level=-int(t[2]), repeats=repeats,
                                           maximum_iteration=int(t[3]), process=True)

        def fmt(r):
            cap, rec = r
            recs = [rec] if repeats == 1 else rec
            return repr(float(cap)) + " " + ";".join(",".join(repr(float(x)) for x in rr) for rr in recs)
        return render(*guarded(call, 120), fmt)
    if op == "capr":
        # the randomised call, seeded: everything (generator, start vectors, iteration) is inside the model
        from fractions import Fraction
        acc = s_acc(t[1])
        level = (extra or {}).get("level")
        if level is None or Fraction(float(10 ** level)) != Fraction(t[2]):
            raise ValueError("capr line: tolerance does not match the level")
        repeats, seed = int(t[4]), int(t[5])

        def call():
            np.random.seed(seed)
            return GZ.approximate_capacity(acc, tolerance_level=level, repeats=repeats, maximum_iteration=int(t[3]), process=True)

        def fmt(r):
            cap, rec = r
            recs = [rec] if repeats == 1 else rec
            return float(cap).hex() + " " + ";".join(",".join(float(x).hex() for x in rr) for rr in recs)
        return render(*guarded(call, 120), fmt)
    if op == "capf":
        # the same call as `cap`, reported bit for bit (float.hex): capacity, then the record of every repeat
        from fractions import Fraction
        acc = s_acc(t[1])
        vecs = [[Fraction(x) for x in v.split(",")] for v in t[4].split(";")]
        repeats = len(vecs)
        seed = int(t[5])
        level = (extra or {}).get("level")
        if level is None or Fraction(float(10 ** level)) != Fraction(t[2]):
            raise ValueError("capf line: tolerance does not match the level")
        if repeats > 1:
            np.random.seed(seed)
            drawn = [abs(np.random.random(size=(len(acc),))) for _ in range(repeats)]
            if [[Fraction(float(x)) for x in d] for d in drawn] != vecs:
                raise ValueError("capf line: start vectors do not match the seed")
            np.random.seed(seed)
        elif any(x != 1 for x in vecs[0]):
            raise ValueError("capf line: the single start vector is all ones")

        def call():
            return GZ.approximate_capacity(acc, tolerance_level=level, repeats=repeats, maximum_iteration=int(t[3]), process=True)

        def fmt(r):
            cap, rec = r
            recs = [rec] if repeats == 1 else rec
            return float(cap).hex() + " " + ";".join(",".join(float(x).hex() for x in rr) for rr in recs)
        return render(*guarded(call, 120), fmt)
    if op == "flt":
        gcf = (extra or {}).get("gc")
        st, flt = guarded(lambda: mk_filter(int(t[1]), t[2], t[3], gcf))
        if st != "ok":
            return "0 -"
        return "1 " + ("1" if flt.valid(undash(t[5]), only_last=b(t[6])) else "0")
    raise ValueError("unknown op " + op)


# ---------------------------------------------------------------- model side
def run_model(lines, timeout=600):
    if not os.path.exists(DRIVER):
        raise RuntimeError("driver not built: " + DRIVER)
    p = subprocess.run([DRIVER], input="\n".join(lines) + "\n", capture_output=True, text=True, timeout=timeout,
                       encoding="utf-8")
    if p.returncode != 0:
        raise RuntimeError("driver failed: " + p.stderr[-2000:])
    out = p.stdout.split("\n")
    if out and out[-1] == "":
        out.pop()
    if len(out) != len(lines):
        raise RuntimeError("driver answered %d lines for %d operations" % (len(out), len(lines)))
    return out
