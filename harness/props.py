"""One generator/oracle function per property. Each explores seeded inputs, runs the real code
through the protocol (`ctx.corr`, which also queues the line for the Lean model), applies the
property's own independent oracle (`ctx.fail`) and counts coverage (`ctx.case`)."""
import io
import contextlib
import itertools
import math

import numpy as np

import proto
from proto import SW, GZ, OP, BF
import gen
from gen import NUC, succ, tok, bits_token, tbl_token
import oracle


class Counting(np.ndarray):
    """accessor proxy counting row reads; raises BudgetExceeded beyond the budget."""

    def __new__(cls, arr, budget):
        obj = np.asarray(arr).view(cls)
        obj._box = [0, budget]
        return obj

    def __array_finalize__(self, obj):
        self._box = getattr(obj, "_box", None)

    def __getitem__(self, idx):
        if self.ndim == 2 and self._box is not None:
            self._box[0] += 1
            if self._box[0] > self._box[1]:
                raise proto.BudgetExceeded()
        return super().__getitem__(idx)


def parse_ok(out):
    """'ok a b c' -> ['a','b','c'] ; 'err X' -> None"""
    if out.startswith("ok"):
        return out.split(" ")[1:]
    return None


def pick_k(ctx, ks=(1, 2, 2, 3, 3), kt=(1, 2, 2, 3, 3, 4, 5)):
    return ctx.rng.choice(kt if ctx.thorough else ks)


# =============================================================================== C01
def C01(ctx):
    rng = ctx.rng
    maxlen = 512 if ctx.thorough else 64
    for it in range(ctx.n(700, 40000)):
        k = pick_k(ctx)
        fast = rng.random() < 0.4
        g, v = gen.rand_wellformed(rng, k, no_deg3=fast)
        if it % 50 == 0:
            g, v = gen.gc_balanced2(), rng.choice([1, 2, 4, 7, 8, 11, 13, 14])
        tbl = gen.rand_table(rng, g.k)
        bits = gen.rand_bits(rng, maxlen if rng.random() < 0.1 else 40)
        vtlen = rng.choice([0, 0, 1, 2, 5, 8, 33 if rng.random() < 0.3 else 3, 40 if ctx.thorough else 4])
        a, tt, bt = g.token(), tbl_token(tbl), bits_token(bits)
        e = ctx.corr("enc %s %s %d %s %d %d" % (a, tt, v, bt, int(fast), vtlen))
        r = parse_ok(e)
        key = "enc %s %s %d %s %d %d" % (a, tt, v, bt, int(fast), vtlen)
        if r is None:
            ctx.fail("encode raised on a well-formed graph", line=key, observed=e)
            ctx.case(key, False)
            continue
        strand, chk = r[0], r[1]
        d = ctx.corr("dec %s %s %d %s %d %d %s" % (a, tt, v, strand, len(bits), int(fast), chk))
        if d != "ok " + bt:
            ctx.fail("decode(encode(m)) != m", line=key, strand=strand, check=chk, observed=d, expected="ok " + bt)
        s = proto.undash(strand)
        degs = g.degrees_seen(v, s) if g.is_walk(v, s) else []
        nontriv = any(bits) and any(x > 1 for x in degs)
        cls = []
        if 1 in degs:
            cls.append("deg1-visited")
        if 3 in degs:
            cls.append("deg3-visited")
        if tbl is not None and tbl[0] != [0, 1, 2, 3]:
            cls.append("non-identity-table")
        if fast and len(bits) % 2 == 1:
            cls.append("fast-odd-length")
        if not any(bits):
            cls.append("zero-message")
        if vtlen:
            cls.append("check-present")
        cls.append("fast" if fast else "normal")
        ctx.case(key, nontriv, *cls)


def C01_exhaustive(ctx):
    """thorough only: all order-1 arc tables x starts x messages up to 3 bits x both modes."""
    rng = ctx.rng
    tables = list(range(1 << 16))
    for idx in tables[ctx.part::ctx.nparts]:
        if idx % 7 != ctx.seed % 7:      # a seeded seventh of the 65 536 tables per run
            continue
        g = gen.Graph(1, [(idx >> (4 * v)) & 15 for v in range(4)])
        for v in range(4):
            if not g.nib[v] or not g.well_formed_from(v):
                continue
            for L in range(0, 4):
                for val in range(1 << L):
                    bits = oracle.bits_be(val, L)
                    for fast in (0, 1):
                        if fast and g.has_deg3_from(v):
                            continue
                        key = "enc %s - %d %s %d 0" % (g.token(), v, bits_token(bits), fast)
                        e = ctx.corr(key)
                        r = parse_ok(e)
                        if r is None:
                            ctx.fail("encode raised on a well-formed graph", line=key, observed=e)
                            continue
                        d = ctx.corr("dec %s - %d %s %d %d None" % (g.token(), v, r[0], L, fast))
                        if d != "ok " + bits_token(bits):
                            ctx.fail("decode(encode(m)) != m", line=key, strand=r[0], observed=d)
                        ctx.case(key, val > 0, "exhaustive-order1")


# =============================================================================== C05
def C05(ctx):
    rng = ctx.rng
    for it in range(ctx.n(700, 30000)):
        k = pick_k(ctx)
        fast = rng.random() < 0.4
        g, v = gen.rand_wellformed(rng, k, no_deg3=fast)
        tbl = gen.rand_table(rng, g.k)
        bits = gen.rand_bits(rng, 48)
        a, tt, bt = g.token(), tbl_token(tbl), bits_token(bits)
        key = "enc %s %s %d %s %d 0" % (a, tt, v, bt, int(fast))
        e = ctx.corr(key)
        ref = (oracle.ref_encode_fast if fast else oracle.ref_encode_normal)(g, tbl, v, bits)
        r = parse_ok(e)
        if ref is None or r is None or proto.undash(r[0]) != ref:
            ctx.fail("strand differs from the published mixed-radix walk", line=key, observed=e,
                     expected=None if ref is None else tok(ref))
        s = ref or ""
        degs = g.degrees_seen(v, s)
        ctx.case(key, any(bits) and any(x > 1 for x in degs), "fast" if fast else "normal",
                 *(["table"] if tbl is not None else []), *(["deg3"] if 3 in degs else []),
                 *(["deg1"] if 1 in degs else []))
        # decode an arbitrary walk whose value fits
        w = gen.rand_walk(rng, g, v, rng.choice([0, 1, 2, 5, 9, 14]))
        if not fast:
            val = oracle.walk_value(g, tbl, v, w)
            L = max(val.bit_length(), 0) + rng.choice([0, 0, 1, 3])
            key2 = "dec %s %s %d %s %d 0 None" % (a, tt, v, tok(w), L)
            d = ctx.corr(key2)
            exp = "ok " + bits_token(oracle.bits_be(val, L))
            if d != exp:
                ctx.fail("decoding a walk does not give its value big-endian", line=key2, observed=d, expected=exp)
            ctx.case(key2, val > 0, "decode-walk")
        elif not any(x == 3 for x in g.degrees_seen(v, w)):
            fb = oracle.fast_bits(g, tbl, v, w)
            L = len(fb) + rng.choice([0, 0, 2])
            key2 = "dec %s %s %d %s %d 1 None" % (a, tt, v, tok(w), L)
            d = ctx.corr(key2)
            exp = "ok " + bits_token(fb + [0] * (L - len(fb)))
            if d != exp:
                ctx.fail("fast decoding of a walk does not give its bit sequence", line=key2, observed=d, expected=exp)
            ctx.case(key2, any(fb), "decode-walk-fast")


# =============================================================================== C06
def C06(ctx):
    rng = ctx.rng
    for it in range(ctx.n(900, 40000)):
        k = pick_k(ctx)
        g = rng.choice([gen.rand_arc_subset, gen.rand_profile_graph, lambda r, kk: gen.rand_coding_graph(r, kk)[0]])(rng, k)
        vs = g.vertices() or [0]
        v = rng.choice(vs)
        tbl = gen.rand_table(rng, k)
        a, tt = g.token(), tbl_token(tbl)
        n = rng.choice([0, 1, 2, 3, 6, 12, 20])
        w = gen.rand_walk(rng, g, v, n)
        variants = [("walk", w)]
        if w:
            c = w
            for _ in range(rng.choice([1, 1, 2, 3])):
                if c:
                    c = gen.apply_edit(c, gen.rand_edit(rng, c))
            variants.append(("edited", c))
            variants.append(("foreign", w[:rng.randrange(len(w) + 1)] + rng.choice("NXacgt-U") + w[rng.randrange(len(w) + 1):]))
        variants.append(("random", gen.rand_dna(rng, rng.choice([1, 2, 4, 8]))))
        for kind, s in variants:
            walk = g.is_walk(v, s)
            for chk_kind in ("none", "right", "wrong", "long"):
                if chk_kind != "none" and rng.random() < 0.6:
                    continue
                acgt = all(ch in NUC for ch in s)
                if chk_kind == "none":
                    chk, chk_ok = "None", True
                elif chk_kind == "right" and acgt:
                    chk, chk_ok = oracle.vt_ref(s, rng.choice([1, 2, 4])), True
                elif chk_kind == "long" and acgt:
                    chk, chk_ok = oracle.vt_ref(s, 35), True
                else:
                    right = oracle.vt_ref(s, 3) if acgt else "AAA"
                    chk = right[0] + NUC[(NUC.index(right[1]) + 1) % 4] + right[2]
                    chk_ok = False
                # normal mode
                L = rng.choice([0, 1, len(s), 2 * len(s) + 2, 40])
                key = "dec %s %s %d %s %d 0 %s" % (a, tt, v, tok(s), L, chk)
                d = ctx.corr(key)
                accept = walk and chk_ok
                if accept:
                    if not (d.startswith("ok") and len(proto.undash(d[3:])) == L):
                        ctx.fail("walk with matching check not decoded to the requested length", line=key, observed=d)
                elif d != "err ValueError":
                    ctx.fail("non-walk (or wrong check) not rejected with ValueError", line=key, observed=d)
                ctx.case(key, len(s) > 0, kind, "chk-" + chk_kind, "accept" if accept else "reject")
                # fast mode on graphs without out-degree 3
                if not any(g.deg(u) == 3 for u in g.reachable(v)):
                    pref = s
                    while not g.is_walk(v, pref):
                        pref = pref[:-1]
                    carried = len(oracle.fast_bits(g, tbl, v, pref))
                    L2 = carried + rng.choice([0, 0, 1, 5])
                    key = "dec %s %s %d %s %d 1 %s" % (a, tt, v, tok(s), L2, chk)
                    d = ctx.corr(key)
                    if accept:
                        if not (d.startswith("ok") and len(proto.undash(d[3:])) == L2):
                            ctx.fail("fast: walk with matching check not decoded to the requested length", line=key, observed=d)
                    elif d != "err ValueError":
                        ctx.fail("fast: non-walk (or wrong check) not rejected with ValueError", line=key, observed=d)
                    ctx.case(key, len(s) > 0, "fast-" + kind)


# =============================================================================== C07
def C07(ctx):
    rng = ctx.rng

    def one(s, n):
        key = "vt %s %d" % (tok(s), n)
        out = ctx.corr(key)
        exp = "ok " + oracle.vt_ref(s, n)
        if out != exp:
            ctx.fail("check differs from the documented VT function", line=key, observed=out, expected=exp)
        asc = sum(1 for i in range(len(s) - 1) if s[i] < s[i + 1])
        ctx.case(key, len(s) >= 2 and asc >= 1, "n=%d" % min(n, 6))
        return out[3:]

    def neighbours(s, n, chk):
        g, v = gen.complete(1), 0
        for e in gen.all_single_edits(s) if s else []:
            if e[0] != "S" and e[2] == "A":
                continue
            c = gen.apply_edit(s, e)
            o2 = one(c, n)
            if o2[0] == chk[0]:
                ctx.fail("single edit does not change the check's first symbol", strand=s, edit=list(e), check=chk, check2=o2)
            key = "dec %s - %d %s %d 0 %s" % (g.token(), v, tok(c), 2 * len(c), chk)
            d = ctx.corr(key)
            if d != "err ValueError":
                ctx.fail("decode with the original check accepts a single-edit neighbour", line=key, observed=d)
            ctx.case(key, True, "edit-" + e[0])
        for x in "CGT":                       # insertion at the very end
            c = s + x
            o2 = one(c, n)
            if o2[0] == chk[0]:
                ctx.fail("single insertion does not change the check's first symbol", strand=s, edit=["I", len(s), x])

    maxlen = 6 if ctx.thorough else 4
    strands = list(gen.all_strings(NUC, maxlen))
    for s in strands[ctx.part::ctx.nparts]:
        for n in ((1, 2, 3, 4) if ctx.thorough else (1, 3)):
            chk = one(s, n)
            if len(s) <= (4 if ctx.thorough else 3) or rng.random() < 0.02:
                neighbours(s, n, chk)
    for it in range(ctx.n(600, 20000)):
        L = rng.choice([5, 9, 17, 40, 100, 1000 if ctx.thorough else 150])
        s = gen.rand_dna(rng, L)
        n = rng.choice([1, 2, 3, 5, 8, 16, 33, 34, 40, 200 if ctx.thorough else 41])
        chk = one(s, n)
        if L <= 17 and rng.random() < 0.3:
            neighbours(s, n, chk)
    out = ctx.corr("vt ACGTN 3")
    if out != "err ValueError":
        ctx.fail("foreign character not reported as ValueError", line="vt ACGTN 3", observed=out)
