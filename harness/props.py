"""One generator/oracle function per property. Each explores seeded inputs, runs the real code
through the protocol (`ctx.corr`, which also queues the line for the Lean model), applies the
property's own independent oracle (`ctx.fail`) and counts coverage (`ctx.case`)."""
import io
import os
import sys
import contextlib
import itertools
import math

import numpy as np

import proto
from proto import SW, GZ, OP, BF
import gen
from gen import NUC, succ, tok, bits_token, tbl_token
import oracle


class Counting(np.ndarray):
    """accessor proxy counting row reads; raises BudgetExceeded beyond the budget."""

    def __new__(cls, arr, budget):
        obj = np.asarray(arr).view(cls)
        obj._box = [0, budget]
        return obj

    def __array_finalize__(self, obj):
        self._box = getattr(obj, "_box", None)

    def __getitem__(self, idx):
        if self.ndim == 2 and self._box is not None:
            self._box[0] += 1
            if self._box[0] > self._box[1]:
                raise proto.BudgetExceeded()
        return super().__getitem__(idx)


class BigInts:
    """lift CPython's int<->str digit limit for the ORACLE's own conversions only; the implementation
    is always called under the interpreter's default limit."""

    def __enter__(self):
        import sys
        self.old = sys.get_int_max_str_digits()
        sys.set_int_max_str_digits(0)

    def __exit__(self, *a):
        import sys
        sys.set_int_max_str_digits(self.old)


def parse_ok(out):
    """'ok a b c' -> ['a','b','c'] ; 'err X' -> None"""
    if out.startswith("ok"):
        return out.split(" ")[1:]
    return None


def pick_k(ctx, ks=(1, 2, 2, 3, 3), kt=(1, 2, 2, 3, 3, 4, 5)):
    return ctx.rng.choice(kt if ctx.thorough else ks)


# =============================================================================== C01
_BUFFERS = {}


def reused_buffers(g, tbl):
    """the graph and the table written INTO long-lived arrays that earlier cases used for other graphs / tables (one buffer
    per order): what a caller does who updates a graph or redraws a table in place. Anything the library remembered about
    the object (by identity) is stale now."""
    extra = {}
    a = _BUFFERS.setdefault(("acc", g.k), np.full((g.n, 4), -1, dtype=int))
    a[:] = np.array(g.rows(), dtype=int)
    extra["acc"] = a
    if tbl is not None:
        t = _BUFFERS.setdefault(("tbl", g.k), np.zeros((g.n, 4), dtype=int))
        t[:] = np.array(tbl, dtype=int)
        extra["tbl"] = t
    return extra


def storage_variants(rng, g, tbl):
    """the same graph and the same table held in other NumPy storage types (narrow signed types for the accessor,
    signed and UNSIGNED types for a table - its rows are permutations of 0..3 whatever the type): an `extra` for ctx.corr,
    or None for the default int64 objects."""
    c = rng.random()
    if c < 0.5:
        return None
    if c < 0.7:
        return reused_buffers(g, tbl)
    extra = {}
    if tbl is not None:
        extra["tbl"] = np.array(tbl, dtype=rng.choice([np.uint8, np.uint8, np.int8, np.uint16, np.int32, np.uint64, np.int64]))
    acc_types = [np.int64, np.int32] + ([np.int16] if g.n < 2 ** 15 else []) + ([np.int8] if g.n < 2 ** 7 else [])
    if rng.random() < 0.5:
        extra["acc"] = np.array(g.rows(), dtype=rng.choice(acc_types))
    return extra or None


def C01(ctx):
    rng = ctx.rng
    maxlen = 512 if ctx.thorough else 64
    for it in range(ctx.n(700, 40000)):
        k = pick_k(ctx)
        fast = rng.random() < 0.4
        g, v = gen.rand_wellformed(rng, k, no_deg3=fast)
        if it % 50 == 0:
            g, v = gen.gc_balanced2(), rng.choice([1, 2, 4, 7, 8, 11, 13, 14])
        tbl = gen.rand_table(rng, g.k)
        bits = gen.rand_bits(rng, maxlen if rng.random() < 0.1 else 40)
        vtlen = rng.choice([0, 0, 1, 2, 5, 8, 33 if rng.random() < 0.3 else 3, 40 if ctx.thorough else 4])
        a, tt, bt = g.token(), tbl_token(tbl), bits_token(bits)
        extra = storage_variants(rng, g, tbl)
        e = ctx.corr("enc %s %s %d %s %d %d" % (a, tt, v, bt, int(fast), vtlen), extra)
        r = parse_ok(e)
        key = "enc %s %s %d %s %d %d" % (a, tt, v, bt, int(fast), vtlen)
        if extra:
            key += " [" + ",".join("%s:%s" % (n_, o_.dtype) for n_, o_ in sorted(extra.items())) + "]"
        if r is None:
            ctx.fail("encode raised on a well-formed graph", line=key, observed=e)
            ctx.case(key, False)
            continue
        strand, chk = r[0], r[1]
        d = ctx.corr("dec %s %s %d %s %d %d %s" % (a, tt, v, strand, len(bits), int(fast), chk), extra)
        if d != "ok " + bt:
            ctx.fail("decode(encode(m)) != m", line=key, strand=strand, check=chk, observed=d, expected="ok " + bt)
        s = proto.undash(strand)
        degs = g.degrees_seen(v, s) if g.is_walk(v, s) else []
        nontriv = any(bits) and any(x > 1 for x in degs)
        cls = []
        if 1 in degs:
            cls.append("deg1-visited")
        if 3 in degs:
            cls.append("deg3-visited")
        if tbl is not None and tbl[0] != [0, 1, 2, 3]:
            cls.append("non-identity-table")
        if fast and len(bits) % 2 == 1:
            cls.append("fast-odd-length")
        if not any(bits):
            cls.append("zero-message")
        if vtlen:
            cls.append("check-present")
        if extra:
            cls.append("storage-variant")
        cls.append("fast" if fast else "normal")
        ctx.case(key, nontriv, *cls)


def C01_malformed(ctx):
    """graphs OUTSIDE the property's domain (dead ends, information-free cycles, out-degree 3 in fast
    mode): no oracle, only the correspondence of the error behaviour; a read budget turns the
    non-terminating cases into `BUDGET` (the model says OUT_OF_FUEL)."""
    rng = ctx.rng
    for it in range(ctx.n(150, 6000)):
        k = rng.choice([1, 2, 2, 3])
        g = rng.choice([gen.rand_arc_subset, gen.rand_profile_graph])(rng, k)
        v = rng.randrange(g.n)
        bits = gen.rand_bits(rng, 24)
        tbl = gen.rand_table(rng, k)
        for fast in (0, 1):
            # (reads per step are an implementation detail: a rewrite may look at a row more than twice per step)
            proxy = Counting(np.array(g.rows(), dtype=int), 8 * (len(bits) * g.n + 1) + 8)
            key = "enc %s %s %d %s %d %d" % (g.token(), tbl_token(tbl), v, bits_token(bits), fast, rng.choice([0, 3]))
            out = ctx.corr(key, {"acc": proxy})
            ctx.case(key, out.startswith("err"), "malformed-" + out.split(" ")[1] if out.startswith("err") else "malformed-ok")


def C01_exhaustive(ctx):
    """thorough only: all order-1 arc tables x starts x messages up to 3 bits x both modes."""
    rng = ctx.rng
    tables = list(range(1 << 16))
    for idx in tables[ctx.part::ctx.nparts]:
        if idx % 7 != ctx.seed % 7:      # a seeded seventh of the 65 536 tables per run
            continue
        g = gen.Graph(1, [(idx >> (4 * v)) & 15 for v in range(4)])
        for v in range(4):
            if not g.nib[v] or not g.well_formed_from(v):
                continue
            for L in range(0, 4):
                for val in range(1 << L):
                    bits = oracle.bits_be(val, L)
                    for fast in (0, 1):
                        if fast and g.has_deg3_from(v):
                            continue
                        key = "enc %s - %d %s %d 0" % (g.token(), v, bits_token(bits), fast)
                        e = ctx.corr(key)
                        r = parse_ok(e)
                        if r is None:
                            ctx.fail("encode raised on a well-formed graph", line=key, observed=e)
                            continue
                        d = ctx.corr("dec %s - %d %s %d %d None" % (g.token(), v, r[0], L, fast))
                        if d != "ok " + bits_token(bits):
                            ctx.fail("decode(encode(m)) != m", line=key, strand=r[0], observed=d)
                        ctx.case(key, val > 0, "exhaustive-order1")


# =============================================================================== C05
def C05(ctx):
    rng = ctx.rng
    shared_tables = {}     # one table OBJECT per k, handed to the real code again and again (aliasing)
    for it in range(ctx.n(700, 30000)):
        k = pick_k(ctx)
        fast = rng.random() < 0.4
        g, v = gen.rand_wellformed(rng, k, no_deg3=fast)
        tbl = gen.rand_table(rng, g.k)
        extra = None
        if rng.random() < 0.35:
            if g.k not in shared_tables:
                t0 = gen.rand_table(rng, g.k, "random")
                shared_tables[g.k] = (t0, np.array(t0, dtype=int))
            tbl, obj = shared_tables[g.k]
            extra = {"tbl": obj}
        bits = gen.rand_bits(rng, 48)
        a, tt, bt = g.token(), tbl_token(tbl), bits_token(bits)
        key = "enc %s %s %d %s %d 0" % (a, tt, v, bt, int(fast))
        e = ctx.corr(key, extra)
        ref = (oracle.ref_encode_fast if fast else oracle.ref_encode_normal)(g, tbl, v, bits)
        r = parse_ok(e)
        if ref is None or r is None or proto.undash(r[0]) != ref:
            ctx.fail("strand differs from the published mixed-radix walk", line=key, observed=e,
                     expected=None if ref is None else tok(ref))
        s = ref or ""
        degs = g.degrees_seen(v, s)
        ctx.case(key, any(bits) and any(x > 1 for x in degs), "fast" if fast else "normal",
                 *(["table"] if tbl is not None else []), *(["deg3"] if 3 in degs else []),
                 *(["deg1"] if 1 in degs else []))
        # decode an arbitrary walk whose value fits
        w = gen.rand_walk(rng, g, v, rng.choice([0, 1, 2, 5, 9, 14]))
        if not fast:
            val = oracle.walk_value(g, tbl, v, w)
            L = max(val.bit_length(), 0) + rng.choice([0, 0, 1, 3])
            key2 = "dec %s %s %d %s %d 0 None" % (a, tt, v, tok(w), L)
            d = ctx.corr(key2)
            exp = "ok " + bits_token(oracle.bits_be(val, L))
            if d != exp:
                ctx.fail("decoding a walk does not give its value big-endian", line=key2, observed=d, expected=exp)
            ctx.case(key2, val > 0, "decode-walk")
        elif not any(x == 3 for x in g.degrees_seen(v, w)):
            fb = oracle.fast_bits(g, tbl, v, w)
            L = len(fb) + rng.choice([0, 0, 2])
            key2 = "dec %s %s %d %s %d 1 None" % (a, tt, v, tok(w), L)
            d = ctx.corr(key2)
            exp = "ok " + bits_token(fb + [0] * (L - len(fb)))
            if d != exp:
                ctx.fail("fast decoding of a walk does not give its bit sequence", line=key2, observed=d, expected=exp)
            ctx.case(key2, any(fb), "decode-walk-fast")


# =============================================================================== C06
def C06(ctx):
    rng = ctx.rng
    for it in range(ctx.n(900, 40000)):
        k = pick_k(ctx)
        g = rng.choice([gen.rand_arc_subset, gen.rand_profile_graph, lambda r, kk: gen.rand_coding_graph(r, kk)[0]])(rng, k)
        vs = g.vertices() or [0]
        v = rng.choice(vs)
        tbl = gen.rand_table(rng, k)
        a, tt = g.token(), tbl_token(tbl)
        n = rng.choice([0, 1, 2, 3, 6, 12, 20])
        w = gen.rand_walk(rng, g, v, n)
        variants = [("walk", w)]
        if w:
            c = w
            for _ in range(rng.choice([1, 1, 2, 3])):
                if c:
                    c = gen.apply_edit(c, gen.rand_edit(rng, c))
            variants.append(("edited", c))
            variants.append(("foreign", w[:rng.randrange(len(w) + 1)] + rng.choice("NXacgtU*\u03a9\u00e90123401234567_.") + w[rng.randrange(len(w) + 1):]))
        variants.append(("random", gen.rand_dna(rng, rng.choice([1, 2, 4, 8]))))
        for kind, s in variants:
            walk = g.is_walk(v, s)
            for chk_kind in ("none", "right", "wrong", "long"):
                if chk_kind != "none" and rng.random() < 0.6:
                    continue
                acgt = all(ch in NUC for ch in s)
                if chk_kind == "none":
                    chk, chk_ok = "None", True
                elif chk_kind == "right" and acgt:
                    chk, chk_ok = oracle.vt_ref(s, rng.choice([1, 2, 4])), True
                elif chk_kind == "long" and acgt:
                    chk, chk_ok = oracle.vt_ref(s, 35), True
                else:
                    right = oracle.vt_ref(s, 3) if acgt else "AAA"
                    chk = right[0] + NUC[(NUC.index(right[1]) + 1) % 4] + right[2]
                    chk_ok = False
                # normal mode
                L = rng.choice([0, 1, len(s), 2 * len(s) + 2, 40])
                key = "dec %s %s %d %s %d 0 %s" % (a, tt, v, tok(s), L, chk)
                d = ctx.corr(key)
                accept = walk and chk_ok
                if accept:
                    if not (d.startswith("ok") and len(proto.undash(d[3:])) == L):
                        ctx.fail("walk with matching check not decoded to the requested length", line=key, observed=d)
                elif d != "err ValueError":
                    ctx.fail("non-walk (or wrong check) not rejected with ValueError", line=key, observed=d)
                ctx.case(key, len(s) > 0, kind, "chk-" + chk_kind, "accept" if accept else "reject")
                # fast mode on graphs without out-degree 3
                if any(g.deg(u) == 3 for u in g.reachable(v)):
                    pass    # fast mode with an out-degree-3 vertex in reach is outside the property: not exercised
                            # (its error class used to be compared with the model: false alarm on a harmless rewrite)
                else:
                    pref = s
                    while not g.is_walk(v, pref):
                        pref = pref[:-1]
                    carried = len(oracle.fast_bits(g, tbl, v, pref))
                    L2 = carried + rng.choice([0, 0, 1, 5])
                    key = "dec %s %s %d %s %d 1 %s" % (a, tt, v, tok(s), L2, chk)
                    d = ctx.corr(key)
                    if accept:
                        if not (d.startswith("ok") and len(proto.undash(d[3:])) == L2):
                            ctx.fail("fast: walk with matching check not decoded to the requested length", line=key, observed=d)
                    elif d != "err ValueError":
                        ctx.fail("fast: non-walk (or wrong check) not rejected with ValueError", line=key, observed=d)
                    ctx.case(key, len(s) > 0, "fast-" + kind)


# =============================================================================== C07
def C07(ctx):
    rng = ctx.rng

    def one(s, n):
        key = "vt %s %d" % (tok(s), n)
        out = ctx.corr(key)
        exp = "ok " + oracle.vt_ref(s, n)
        if out != exp:
            ctx.fail("check differs from the documented VT function", line=key, observed=out, expected=exp)
        asc = sum(1 for i in range(len(s) - 1) if s[i] < s[i + 1])
        ctx.case(key, len(s) >= 2 and asc >= 1, "n=%d" % min(n, 6))
        return out[3:]

    def neighbours(s, n, chk):
        g, v = gen.complete(1), 0
        for e in gen.all_single_edits(s) if s else []:
            if e[0] != "S" and e[2] == "A":
                continue
            c = gen.apply_edit(s, e)
            o2 = one(c, n)
            if o2[0] == chk[0]:
                ctx.fail("single edit does not change the check's first symbol", strand=s, edit=list(e), check=chk, check2=o2)
            for fast in (0, 1):
                key = "dec %s - %d %s %d %d %s" % (g.token(), v, tok(c), 2 * len(c), fast, chk)
                d = ctx.corr(key)
                if d != "err ValueError":
                    ctx.fail("decode with the original check accepts a single-edit neighbour"
                             + (" (fast mode)" if fast else ""), line=key, observed=d)
                ctx.case(key, True, "edit-" + e[0], "fast" if fast else "normal")
        for x in "CGT":                       # insertion at the very end
            c = s + x
            o2 = one(c, n)
            if o2[0] == chk[0]:
                ctx.fail("single insertion does not change the check's first symbol", strand=s, edit=["I", len(s), x])

    maxlen = 6 if ctx.thorough else 4
    strands = list(gen.all_strings(NUC, maxlen))
    for s in strands[ctx.part::ctx.nparts]:
        for n in ((1, 2, 3, 4) if ctx.thorough else (1, 3)):
            chk = one(s, n)
            if len(s) <= (4 if ctx.thorough else 3) or rng.random() < 0.02:
                neighbours(s, n, chk)
    for it in range(ctx.n(600, 20000)):
        L = rng.choice([5, 9, 17, 40, 100, 1000 if ctx.thorough else 150])
        s = gen.rand_dna(rng, L)
        n = rng.choice([1, 2, 3, 5, 8, 16, 33, 34, 40, 200 if ctx.thorough else 41])
        chk = one(s, n)
        if L <= 17 and rng.random() < 0.3:
            neighbours(s, n, chk)
    if ctx.part == 0:
        # long strands: the ascent-position sum passes 2^16, 2^31 and 2^32 (narrow accumulators), with check lengths
        # whose modulus 4^(n-1) exceeds those powers
        for L in (700, 3000, 120000, 160000):
            forced = list(gen.rand_dna(rng, L))
            for i_ in range(0, L, 256):          # a non-A at every multiple of 256: block-wise scans show at their borders
                forced[i_] = rng.choice("CGT")
            for s in (gen.rand_dna(rng, L), ("AC" * L)[:L], "".join(forced)):
                for n in (10, 17, 33):
                    one(s, n)
    out = ctx.corr("vt ACGTN 3")
    if out != "err ValueError":
        ctx.fail("foreign character not reported as ValueError", line="vt ACGTN 3", observed=out)


# =============================================================================== helpers
def thresholds(k, gc):
    """the GC bounds as the exact fractions of the doubles the real filter is given; the Lean model derives the integer
    thresholds itself with its own model of double-precision rounding (Model/Float.lean, floatGcRule)."""
    if gc is None:
        return "-"
    lo, hi = gc
    return "%d/%d,%d/%d" % (float(lo).as_integer_ratio() + float(hi).as_integer_ratio())


def rand_cfg(rng, k, allow_bad=False):
    run = rng.choice([None, None, 1, 2, 3, k - 1, k, k + 1 if allow_bad else k])
    if run is not None and run < 1:
        run = 1
    gc = None
    if rng.random() < 0.65:
        lo = rng.choice([0.0, 0.1, 0.2, 0.25, 0.28, 0.3, 0.4, 0.5, 0.6, 0.8])
        hi = rng.choice([0.5, 0.6, 0.7, 0.72, 0.75, 0.8, 0.9, 1.0])
        if rng.random() < 0.35 and k >= 1:
            # bounds right at, just below and just above an attainable fraction j/k (where a count comparison done in another
            # unit - percent, rounded, floor-divided - decides differently)
            near = lambda: min(1.0, max(0.0, rng.randrange(0, k + 1) / k + rng.choice([0.0, 0.0, 1e-9, -1e-9, 0.004, -0.004, 0.0067, -0.0067, 0.01, -0.01])))
            lo, hi = near(), near()
        if lo > hi:
            lo, hi = hi, lo
        gc = [lo, hi]
    motifs = rng.choice([None, None, ["GC"], ["AAT", "CG"], ["ACGT"], ["T"], ["A", "C"], ["GATC"], ["AC", "TTT"]])
    if rng.random() < 0.3:
        # random lists, reverse-complement palindromes included and often first
        pal = ["AT", "CG", "GATC", "ACGT", "TA", "GC", "AATT"]
        motifs = [rng.choice(pal)] if rng.random() < 0.5 else []
        for _ in range(rng.choice([1, 1, 2, 3])):
            motifs.append(gen.rand_dna(rng, rng.choice([1, 2, 2, 3, 4])))
        if rng.random() < 0.3:
            rng.shuffle(motifs)
        motifs = [m for m in motifs if len(m) <= k] or [gen.rand_dna(rng, min(k, 2))]
    return run, gc, motifs


def cfg_tokens(k, run, gc, motifs):
    return "%d %s %s %s" % (k, "-" if run is None else run, "-" if motifs is None else ",".join(motifs),
                            thresholds(k, gc))


def mk(k, run, gc, motifs):
    return BF.LocalBioFilter(observed_length=k, max_homopolymer_runs=run, gc_range=gc, undesired_motifs=motifs)


def rows_to_graph(k, rows):
    nib = []
    for v, r in enumerate(rows):
        b = 0
        for j in range(4):
            if r[j] >= 0:
                b |= 1 << j
        nib.append(b)
    return gen.Graph(k, nib)


def parse_acc_rows(txt):
    return [[int(x) for x in r.split(",")] for r in txt.split(";")]


def impl_coding_graph(ctx, k, mask, t, dtype=int):
    """ccg through the protocol; returns (vertex list, Graph) or None on ValueError."""
    out = ctx.corr("ccg %d %s %d" % (k, "".join(map(str, mask)), t), {"dtype": dtype})
    r = parse_ok(out)
    if r is None:
        return out, None, None
    vs = [] if r[0] == "-" else [int(x) for x in r[0].split(",")]
    return out, vs, rows_to_graph(k, parse_acc_rows(r[1]))


# =============================================================================== C02
def C02(ctx):
    rng = ctx.rng
    known = {"ctor-accepts-run-eq-window"}
    # sentence 3: constructor acceptance
    for k in range(1, 7 if ctx.thorough else 5):
        for run in [None] + list(range(1, k + 3)):
            for motifs in (None, ["A" * k], ["A" * (k + 1)], ["AC"], ["ACGTA"], ["TT", "A" * (k + 1)],
                           ["A" * (k + 1), "T"], ["C" * k, "G" * (k + 2), "TA"]):
                st, f = proto.guarded(lambda: mk(k, run, None, motifs))
                key = "ctor k=%d run=%s motifs=%s" % (k, run, motifs)
                decidable = (run is None or run < k) and (motifs is None or all(len(m) <= k for m in motifs))
                ctx.corr("flt %s A 0" % cfg_tokens(k, run, None, motifs), {"gc": None})
                if st == "ok" and not decidable:
                    if run is not None and run == k and (motifs is None or all(len(m) <= k for m in motifs)):
                        ctx.finding("ctor-accepts-run-eq-window",
                                    "LocalBioFilter(observed_length=k, max_homopolymer_runs=k) is accepted "
                                    "(a run rule no window can decide)")
                    else:
                        ctx.fail("constructor accepts a configuration that is not window-decidable", config=key)
                ctx.case(key, st == "ok", "ctor")
    # sentences 1-2
    for it in range(ctx.n(60, 1500)):
        k = rng.choice([2, 3, 3, 4] if not ctx.thorough else [2, 3, 3, 4, 4, 5])
        user = rng.random() < 0.25
        if user:
            table = "".join(rng.choice("0111") for _ in range(4 ** k))
            flt = proto.TableFilter(table)
            valid_w = lambda w: table[gen.kmer_idx(w)] == "1"      # noqa: E731
            cfgkey = "user:" + table
            decidable, toks = False, None
        else:
            run, gc, motifs = rand_cfg(rng, k)
            st, flt = proto.guarded(lambda: mk(k, run, gc, motifs))
            if st != "ok":
                continue
            valid_w = lambda w: bool(flt.valid(w, only_last=False))   # noqa: E731
            decidable = (run is None or run < k) and (motifs is None or all(len(m) <= k for m in motifs))
            toks = cfg_tokens(k, run, gc, motifs)
            cfgkey = "local:" + toks
        st, mask = proto.guarded(lambda: SW.find_vertices(k, flt))
        if st != "ok":
            continue
        mask = [int(x) for x in mask]
        if user:
            ctx.corr("fv %d %s" % (k, table))
        for t in (1, 2, 3):
            out, vs, g = impl_coding_graph(ctx, k, mask, t)
            if g is None:
                continue
            for v in rng.sample(vs, min(3, len(vs))):
                for _ in range(4):
                    fast = rng.random() < 0.4 and not g.has_deg3_from(v)
                    tbl = gen.rand_table(rng, k)
                    bits = gen.rand_bits(rng, 40)
                    key = "enc %s %s %d %s %d 0" % (g.token(), tbl_token(tbl), v, bits_token(bits), int(fast))
                    r = parse_ok(ctx.corr(key))
                    if r is None:
                        continue
                    s = proto.undash(r[0])
                    full = gen.kmer(v, k) + s
                    bad = [full[i:i + k] for i in range(len(full) - k + 1) if not valid_w(full[i:i + k])]
                    if bad:
                        ctx.fail("emitted strand has a window violating the filter", config=cfgkey, line=key,
                                 strand=s, window=bad[0])
                    if not user:
                        # ... and the constraints are the ones the caller configured (documented predicate of the
                        # configuration handed to the constructor), not whatever the filter object made of them
                        bad = [full[i:i + k] for i in range(len(full) - k + 1)
                               if not oracle.filter_ref(k, run, motifs, gc, full[i:i + k])]
                        if bad:
                            ctx.fail("emitted strand has a window violating the configured constraints", config=cfgkey,
                                     line=key, strand=s, window=bad[0])
                    if decidable:
                        for whole in (s, full):
                            if not flt.valid(whole, only_last=False):
                                ctx.fail("whole-sequence check rejects an emitted strand", config=cfgkey, line=key,
                                         strand=whole)
                            ctx.corr("flt %s %s 0" % (toks, tok(whole)), {"gc": gc})
                    if toks and rng.random() < 0.3 and len(full) >= k:
                        i = rng.randrange(len(full) - k + 1)
                        ctx.corr("flt %s %s 1" % (toks, full[:i + k]), {"gc": gc})
                    ctx.case(cfgkey + "|" + key, len(s) >= 1, "user" if user else "local", "t=%d" % t,
                             "decidable" if decidable else "not-decidable", "short" if len(s) < k else "long")
    # threshold relation k - L <= A on a grid (the requirement behind D8)
    top = 13 if ctx.thorough else 9
    for k in range(1, top):
        for lo100 in range(0, 101, 1 if ctx.thorough else 5):
            lo = lo100 / 100
            L, A = math.ceil(lo * k), math.floor(k - lo * k)
            if k - L > A:
                ctx.fail("short-strand A+T bound inconsistent with the window GC lower bound", k=k, lo=lo)
            ctx.case("thr %d %s" % (k, lo), True, "threshold-grid")


# =============================================================================== C03
def C03(ctx):
    rng = ctx.rng

    def one(k, mask, t, dtype):
        arr = np.array(mask, dtype=dtype)
        before = arr.copy()
        out, vs, g = impl_coding_graph(ctx, k, mask, t, dtype)
        st, res = proto.guarded(lambda: SW.connect_coding_graph(k, arr, t))
        if not (arr.dtype == before.dtype and np.array_equal(arr, before)):
            ctx.fail("input mask modified", k=k, mask="".join(map(str, mask)), t=t)
        S = gen.gfp_mask(k, mask, t)
        key = "ccg %d %s %d" % (k, "".join(map(str, mask)), t)
        if not any(S):
            if out != "err ValueError":
                ctx.fail("empty result not reported as ValueError", line=key, observed=out)
        else:
            exp = gen.induced(k, S)
            if g is None or g.nib != exp.nib or vs != [v for v in range(4 ** k) if S[v]]:
                ctx.fail("result is not the largest closed sub-graph", line=key, observed=out,
                         expected_vertices=[v for v in range(4 ** k) if S[v]])
        removed = sum(mask) - sum(S)
        ctx.case(key + str(dtype), 0 < sum(mask) < 4 ** k and removed > 0, "t=%d" % t, dtype.__name__,
                 "empty" if not any(S) else "nonempty")
        return S

    def extra(k, mask, t, S):
        # monotonicity
        sub = [b if rng.random() < 0.8 else 0 for b in mask]
        S2 = one(k, sub, t, int)
        if any(x and not y for x, y in zip(S2, S)):
            ctx.fail("a smaller mask yields a larger graph", k=k, mask="".join(map(str, mask)), t=t)
        # latter-map route for t >= 2
        if t >= 2 and any(S):
            valid = gen.induced(k, mask)
            lm = proto.enc_lmap({u: [succ(u, j, k) for j in valid.live(u)] for u in valid.vertices()})
            o = ctx.corr("l2a %s %d %d" % (lm, k, t))
            if o != "ok " + proto.show_acc(gen.induced(k, S).rows()):
                ctx.fail("latter-map trimming gives a different graph", k=k, t=t, mask="".join(map(str, mask)), observed=o)

    if ctx.thorough:
        # exhaustive order-2 masks, split over parts and (by seed) over runs
        for idx in range(ctx.part, 1 << 16, ctx.nparts):
            if idx % 4 != ctx.seed % 4:
                continue
            mask = [(idx >> i) & 1 for i in range(16)]
            for t in (1, 2, 3, 4):
                one(2, mask, t, bool if idx % 2 else int)
    for it in range(ctx.n(500, 12000)):
        k = rng.choice([1, 2, 2, 3, 3] if not ctx.thorough else [2, 3, 3, 4, 5])
        t = rng.choice([1, 1, 2, 2, 3, 4])
        p = {1: rng.choice([0.2, 0.4, 0.6, 0.8]), 2: rng.choice([0.5, 0.7, 0.9]), 3: rng.choice([0.85, 0.95, 1.0]),
             4: rng.choice([0.97, 1.0])}[t]
        mask = gen.rand_mask(rng, k, p)
        if rng.random() < 0.1:      # structured: a pure cycle plus a branching region (t = 1 cascade)
            mask = [0] * 4 ** k
            mask[0] = 1
            for v in rng.sample(range(4 ** k), min(4 ** k, 6)):
                mask[v] = 1
        S = one(k, mask, t, rng.choice([bool, int]))
        if rng.random() < 0.3:
            extra(k, mask, t, S)
    # threshold 1 on half-empty masks of order 3 and 4: where the clean-up cascade runs for several waves with several
    # starved vertices per wave (a cascade that handles only one of them shows on about 1-3 % of these masks)
    for it in range(ctx.n(90, 2500)):
        k = rng.choice([3, 4, 4])
        mask = gen.rand_mask(rng, k, rng.choice([0.4, 0.45, 0.5]) if k == 3 else rng.choice([0.3, 0.35, 0.4]))
        one(k, mask, 1, rng.choice([bool, int]))


# =============================================================================== C04
def C04(ctx):
    rng = ctx.rng
    for it in range(ctx.n(250, 8000)):
        k = rng.choice([1, 2, 2, 3] if not ctx.thorough else [2, 3, 3, 4, 5])
        t = rng.choice([1, 1, 1, 2, 2, 3, 4])
        p = {1: rng.choice([0.3, 0.5, 0.7]), 2: rng.choice([0.6, 0.8, 0.95]), 3: 0.95, 4: 1.0}[t]
        if t == 1 and rng.random() < 0.35:
            k = rng.choice([3, 4, 4])          # half-empty masks of order 3 / 4: multi-wave clean-up cascades
            p = rng.choice([0.4, 0.45, 0.5]) if k == 3 else rng.choice([0.3, 0.35, 0.4])
        mask = gen.rand_mask(rng, k, p)
        out, vs, g = impl_coding_graph(ctx, k, mask, t)
        if g is None:
            continue
        rows = np.array(g.rows(), dtype=int)
        for v in rng.sample(vs, min(3, len(vs))):
            for _ in range(3):
                fast = rng.random() < 0.4 and not g.has_deg3_from(v)
                bits = gen.rand_bits(rng, 512 if ctx.thorough and rng.random() < 0.05 else 48)
                L = len(bits)
                budget = 8 * (L * g.n + 1) + 8      # L*|V|+1 steps (C04_terminates), at most eight row reads per step
                proxy = Counting(rows, budget)
                tbl = gen.rand_table(rng, k)
                key = "enc %s %s %d %s %d 0" % (g.token(), tbl_token(tbl), v, bits_token(bits), int(fast))
                e = ctx.corr(key, {"acc": proxy})
                r = parse_ok(e)
                if r is None:
                    ctx.fail("encode does not return within L*|V| steps / reports a missing out-degree on a "
                             "generated graph", line=key, observed=e, reads=proxy._box[0], budget=budget, t=t)
                    continue
                s = proto.undash(r[0])
                if not g.is_walk(v, s):
                    ctx.fail("emitted strand is not a walk of the generated graph", line=key, strand=s)
                    continue
                if len(s) > L * g.n:
                    ctx.fail("more steps than message length times vertex count", line=key, steps=len(s))
                degs = g.degrees_seen(v, s)
                val = int("".join(map(str, bits)) or "0", 2)
                if s:
                    if degs[-1] < 2:
                        ctx.fail("last nucleotide carries no information", line=key, strand=s)
                    if not fast:
                        prod = 1
                        for d in degs[:-1]:
                            prod *= d
                        if prod > val:
                            ctx.fail("product of out-degrees before the last step exceeds the message value",
                                     line=key, strand=s, product=prod, value=val)
                        if t >= 2 and len(s) > L:
                            ctx.fail("more than L nucleotides on a threshold-2 graph", line=key, strand=s)
                        if all(m for m in mask) and len(s) > (L + 1) // 2:
                            ctx.fail("more than ceil(L/2) nucleotides on the complete graph", line=key, strand=s)
                    else:
                        carried = sum(2 if d == 4 else 1 if d == 2 else 0 for d in degs)
                        if carried not in (L, L + 1):
                            ctx.fail("fast mode: bits carried is not L or L+1", line=key, carried=carried, L=L)
                elif (val != 0 and not fast) or (fast and L != 0):
                    ctx.fail("empty strand for a non-zero message", line=key)
                ctx.case(key, val > 0 and any(d > 1 for d in degs), "t=%d" % t, "fast" if fast else "normal",
                         *(["deg1-run"] if 1 in degs else []))


# =============================================================================== C08 C09 C10
def rep_line(g, s, v, chk, indel, heap):
    return "rep %s %s %d %d %s %d %d" % (g.token(), tok(s), v, g.k, chk, int(indel), heap)


def parse_rep(out):
    r = parse_ok(out)
    if r is None:
        return None
    cands = [] if r[0] == "-" else [proto.undash(x) for x in r[0].split(",")]
    return cands, int(r[1]), r[2] == "1", int(r[3]), int(r[4])


def C08(ctx):
    rng = ctx.rng
    for it in range(ctx.n(120, 5000)):
        k = rng.choice([1, 2, 2, 3] if not ctx.thorough else [1, 2, 2, 3, 3, 4])
        g, t = gen.rand_coding_graph(rng, k)
        vs = g.vertices()
        v = rng.choice(vs)
        multi = rng.random() < 0.4
        n = (3 * k + (3 * k + 2) * rng.choice([1, 2, 3]) + rng.randrange(4)) if multi else (3 * k + rng.randrange(1, 8))
        w = gen.rand_walk(rng, g, v, n)
        if len(w) < n:
            continue
        lo, hi = k, n - 2 * k
        if hi <= lo:
            continue
        m = rng.choice([2, 4, 6])
        wchk = oracle.vt_ref(w, m)
        if not multi:
            edits = [[e] for e in gen.all_single_edits(w, lo, hi)]
            if not ctx.thorough and len(edits) > 40:
                edits = rng.sample(edits, 40)
        else:
            edits = []
            for _ in range(6):
                ps, p = [], lo + rng.randrange(3)
                while p < hi and len(ps) < 3:
                    ps.append(p)
                    p += 3 * k + 2 + rng.randrange(3)
                if len(ps) >= 2:
                    edits.append([gen.rand_edit(rng, w, p) for p in ps])
        for es in edits:
            c = w
            for e in sorted(es, key=lambda e: -e[1]):
                c = gen.apply_edit(c, e)
            only_subst = all(e[0] == "S" for e in es)
            for chk in ("None", wchk):
                for indel in ([1, 0] if only_subst else [1]):
                    if chk != "None" and rng.random() < 0.5:
                        continue
                    key = rep_line(g, c, v, chk, indel, 100000)
                    out = ctx.corr(key)
                    r = parse_rep(out)
                    if r is None:
                        ctx.fail("repair raised", line=key, observed=out)
                        continue
                    cands, det = r[0], r[1]
                    walk = g.is_walk(v, c)
                    if len(es) == 1:
                        if walk and det != 0:
                            ctx.fail("edit leaving a walk reported as detected", line=key, observed=out)
                        if not walk and det != 1:
                            ctx.fail("single interior edit not detected exactly once", line=key, original=w,
                                     edit=list(es[0]), observed=out)
                    if det == len(es) and w not in cands:
                        ctx.fail("original strand not among the candidates", line=key, original=w,
                                 edits=[list(e) for e in es], observed=out)
                    ctx.case(key, det >= 1, "multi" if multi else "single", *("edit-" + e[0] for e in es),
                             "check" if chk != "None" else "nocheck", "indel" if indel else "noindel",
                             "k=%d" % k)


def C09(ctx):
    rng = ctx.rng
    for it in range(ctx.n(500, 25000)):
        k = pick_k(ctx, (1, 2, 2, 3), (1, 2, 2, 3, 3, 4))
        g = rng.choice([gen.rand_arc_subset, gen.rand_profile_graph, lambda r, kk: gen.rand_coding_graph(r, kk)[0]])(rng, k)
        vs = g.vertices() or [0]
        v = rng.choice(vs)
        n = rng.choice([k, k + 1, 2 * k + 1, 10, 18, 30])
        w = gen.rand_walk(rng, g, v, n)
        variants = []
        if len(w) >= k:
            variants.append(("clean", w))
            c = w
            for _ in range(rng.choice([1, 2, 3])):
                if len(c) > k:
                    c = gen.apply_edit(c, gen.rand_edit(rng, c))
            if len(c) >= k:
                variants.append(("corrupted", c))
        variants.append(("random", gen.rand_dna(rng, max(n, k))))
        for kind, s in variants:
            for chkkind in ("none", "right", "wrong"):
                if chkkind != "none" and rng.random() < 0.5:
                    continue
                cl = rng.choice([1, 1, 2, 4, 4, 7])       # (a check of ONE symbol is the flag alone: still a check)
                chk = {"none": "None", "right": oracle.vt_ref(w if len(w) >= k else s, cl),
                       "wrong": "G" + oracle.vt_ref(s, cl)[1:] if oracle.vt_ref(s, cl)[0] != "G" else "T" + oracle.vt_ref(s, cl)[1:]}[chkkind]
                indel = rng.randrange(2)
                heap = rng.choice([0, 1, 10, 1000, 5000])
                key = rep_line(g, s, v, chk, indel, heap)
                out = ctx.corr(key)
                r = parse_rep(out)
                if r is None:
                    ctx.fail("repair raised", line=key, observed=out)
                    continue
                cands, det = r[0], r[1]
                if g.is_walk(v, s):
                    ok = chk == "None" or oracle.vt_ref(s, len(chk)) == chk
                    if cands != ([s] if ok else []) or det != 0:
                        ctx.fail("clean strand not returned alone with zero detections", line=key, observed=out)
                if cands != sorted(set(cands)):
                    ctx.fail("candidate list not sorted / duplicate-free", line=key, observed=out)
                if chk != "None":
                    badc = [x for x in cands if oracle.vt_ref(x, len(chk)) != chk]
                    if badc:
                        ctx.fail("candidate does not reproduce the supplied check", line=key, candidate=badc[0])
                ctx.case(key, det >= 1 or kind == "clean", kind, "chk-" + chkkind, "heap=%d" % heap,
                         "detected" if det else "undetected")


def C10(ctx):
    rng = ctx.rng
    for it in range(ctx.n(500, 25000)):
        k = pick_k(ctx, (1, 2, 2, 3), (1, 2, 2, 3, 3, 4))
        g = rng.choice([gen.rand_arc_subset, gen.rand_profile_graph, lambda r, kk: gen.rand_coding_graph(r, kk)[0]])(rng, k)
        vs = g.vertices() or [0]
        v = rng.choice(vs + [rng.randrange(g.n)])
        n = rng.choice([k, k + 1, 2 * k, 3 * k + 1, 12, 25, 60, 200 if ctx.thorough else 40])
        kind = rng.choice(["bad-first", "last-window", "random", "edited", "edited", "dense"])
        if kind == "dense":
            n = rng.choice([120, 200, 320, 450])
        w = gen.rand_walk(rng, g, v, n)
        if kind == "random" or len(w) < max(n, 1):
            s = gen.rand_dna(rng, max(n, k))
            kind = "random"
        elif kind == "bad-first":
            dead = [c for c in NUC if NUC.index(c) not in g.live(v)]
            s = (rng.choice(dead) if dead else "A") + w[1:]
        elif kind == "last-window":
            p = len(w) - 1 - rng.randrange(min(k, len(w)))
            s = gen.apply_edit(w, gen.rand_edit(rng, w, p))
        elif kind == "dense":
            # many separated detections: the candidate product becomes astronomically large
            s, p, gap = w, len(w) - 2, k + 2 + rng.randrange(3)
            while p > k:
                s = gen.apply_edit(s, gen.rand_edit(rng, s, p, "S"))
                p -= gap
        else:
            s = w
            for _ in range(rng.choice([1, 2, 4, 8])):
                if len(s) > k:
                    s = gen.apply_edit(s, gen.rand_edit(rng, s))
        if len(s) < k:
            continue
        indel, heap = rng.randrange(2), rng.choice([0, 10, 1000, 5000])
        if kind == "dense":
            indel = 1 if rng.random() < 0.8 else 0
        chk = rng.choice(["None", "None", "ACG"])
        budget = 4 * len(s) + 80 * k * (len(s) + k) + 50
        proxy = Counting(np.array(g.rows(), dtype=int), budget)
        key = rep_line(g, s, v, chk, indel, heap)
        out = ctx.corr(key, {"acc": proxy})
        r = parse_rep(out)
        if r is None:
            ctx.fail("repair does not return a (candidates, statistics) pair within the look-up budget", line=key,
                     observed=out, reads=proxy._box[0], budget=budget)
        else:
            st, res = proto.guarded(lambda: SW.repair_dna(s, np.array(g.rows(), dtype=int), v, k, vt_check=None if chk == "None" else chk,
                                                          has_indel=bool(indel), heap_size=heap))
            shape_ok = (st == "ok" and isinstance(res, tuple) and len(res) == 2 and isinstance(res[0], list)
                        and all(isinstance(x, str) for x in res[0]) and isinstance(res[1], tuple) and len(res[1]) == 4)
            if not shape_ok:
                ctx.fail("result is not a well-formed (candidates, statistics) pair", line=key)
        ctx.case(key, r is not None and r[1] >= 1, kind, "k=%d" % k)


# =============================================================================== C11
class KwFilter(BF.DefaultBioFilter):
    """documented interface plus an extra optional keyword."""

    def __init__(self, table):
        super().__init__(screen_name="kw")
        self.table, self.asked = table, []

    def valid(self, dna_string, strict=False):
        self.asked.append(dna_string)
        return bool(self.table[gen.kmer_idx(dna_string)] == "1")


class LooseVerdictFilter(proto.TableFilter):
    """a user-defined filter whose verdicts are truthy / falsy objects instead of booleans."""

    def __init__(self, table, pair):
        super().__init__(table)
        self.pair = pair

    def valid(self, dna_string):
        self.asked.append(dna_string)
        return self.pair[0] if self.table[gen.kmer_idx(dna_string)] == "1" else self.pair[1]


def C11(ctx):
    rng = ctx.rng
    for it in range(ctx.n(200, 3000)):
        k = rng.choice([1, 2, 2, 3, 3, 4] if not ctx.thorough else [1, 2, 3, 4, 5, 6])
        n = 4 ** k
        kind = rng.choice(["table", "kw", "local", "empty", "sparse", "sparse"])
        if kind == "sparse":
            k = rng.choice([3, 4, 5, 5, 6, 6, 7])
            n = 4 ** k
        if kind == "local":
            # the filter's own window need not be the graph's observed length (a 5-nt homopolymer / GC screen on 3-mers):
            # the i-th cell is still the filter's verdict on the i-th K-MER
            kw_ = k if rng.random() < 0.5 else max(1, k + rng.choice([-1, 1, 2, 3]))
            run, gc, motifs = rand_cfg(rng, kw_)
            st, flt = proto.guarded(lambda: mk(kw_, run, gc, motifs))
            if st != "ok":
                continue
            table = "".join("1" if oracle.filter_ref(kw_, run, motifs, gc, gen.kmer(i, k)[-kw_:]) else "0" for i in range(n))
        else:
            p = 0.0 if kind == "empty" else rng.choice([0.02, 0.3, 0.6, 0.9, 1.0])
            table = "".join("1" if rng.random() < p else "0" for _ in range(n))
            if kind == "sparse":          # one to three accepted k-mers among 4^k
                ones = set(rng.sample(range(n), rng.choice([1, 1, 2, 3])))
                table = "".join("1" if i in ones else "0" for i in range(n))
            flt = (KwFilter if kind == "kw" else proto.TableFilter)(table)
            if kind == "table" and rng.random() < 0.35:
                # verdicts that are truthy / falsy without being booleans (a filter that falls off its end returns None)
                flt = LooseVerdictFilter(table, rng.choice([(1, 0), (True, None), ("yes", ""), (1, None)]))
            if rng.random() < 0.4:
                # attributes a user-defined filter may happen to carry say nothing about which strings it is asked
                flt.observed_length = k + rng.choice([-1, 1, 2])
                flt.k = 1
        st, res = proto.guarded(lambda: SW.find_vertices(k, flt))
        key = "fv %d %s" % (k, table)
        out = ctx.corr(key)
        if "1" in table:
            got = "".join(str(int(x)) for x in res) if st == "ok" else res
            if st != "ok" or got != table:
                ctx.fail("vertex mask differs from the filter's verdict on the k-mers", filter=kind, line=key,
                         observed=str(got)[:200])
            if kind in ("table", "kw") and flt.asked != [gen.kmer(i, k) for i in range(n)]:
                ctx.fail("filter not asked exactly the k-mers in index order", filter=kind, k=k)
        elif not (st == "err" and res == "ValueError"):
            ctx.fail("no accepted k-mer not reported as ValueError", line=key, observed=str(res))
        ctx.case(key + kind, 0 < table.count("1") < n, kind, "k=%d" % k)
        # valid graph
        mask = [int(c) for c in table] if rng.random() < 0.5 else gen.rand_mask(rng, k)
        for dtype in (int, bool):
            key = "cvg %d %s" % (k, "".join(map(str, mask)))
            out = ctx.corr(key, {"dtype": dtype})
            if any(mask):
                exp = "ok " + proto.show_acc(gen.induced(k, mask).rows())
                if out != exp:
                    ctx.fail("valid graph is not the induced shift sub-graph", line=key, observed=out[:300])
            elif out != "err ValueError":
                ctx.fail("empty mask not reported as ValueError", line=key, observed=out)
            ctx.case(key + str(dtype), 0 < sum(mask) < n, "valid-graph")
    # (`vertices=None` is not a mask: the property says nothing about it, so it is neither demanded to be a
    # ValueError nor compared with the model - a false alarm on a harmless rewrite showed the check asked for more
    # than the property states, DESIGN.md §10.6)


# =============================================================================== C12
def C12(ctx):
    rng = ctx.rng

    def check(k, run, gc, motifs, s):
        st, flt = proto.guarded(lambda: mk(k, run, gc, motifs))
        toks = cfg_tokens(k, run, gc, motifs)
        if st != "ok":
            ctx.corr("flt %s %s 0" % (toks, tok(s)), {"gc": gc})
            return
        whole = bool(flt.valid(s, only_last=False))
        out = ctx.corr("flt %s %s 0" % (toks, tok(s)), {"gc": gc})
        exp = oracle.filter_ref(k, run, motifs, gc, s)
        if whole != exp:
            ctx.fail("whole-sequence verdict differs from the documented predicate", config=toks, string=s,
                     observed=whole, expected=exp)
        last = bool(flt.valid(s, only_last=True))
        ctx.corr("flt %s %s 1" % (toks, tok(s)), {"gc": gc})
        if last != bool(flt.valid(s[-k:], only_last=False)):
            ctx.fail("last-window verdict differs from the verdict of the final window", config=toks, string=s)
        decidable = (run is None or run < k) and (motifs is None or all(len(m) <= k for m in motifs))
        if decidable and len(s) >= k:
            conj = all(flt.valid(s[i:i + k], only_last=False) for i in range(len(s) - k + 1))
            if conj != whole:
                ctx.fail("whole-sequence verdict is not the conjunction of its windows", config=toks, string=s)
        if all(c in NUC for c in s):
            if bool(flt.valid(oracle.revcomp(s), only_last=False)) != whole:
                ctx.fail("reverse complement gets a different verdict", config=toks, string=s)
        # non-trivial: toggling one rule flips the verdict
        flips = 0
        for alt in ((None, gc, motifs), (run, None, motifs), (run, gc, None)):
            if oracle.filter_ref(k, alt[0], alt[2], alt[1], s) != exp:
                flips += 1
        ctx.case("flt %s %s" % (toks, s), flips >= 1, "accept" if whole else "reject",
                 "short" if len(s) < k else "long", *(["foreign"] if any(c not in NUC for c in s) else []))

    # characters the line protocol cannot carry (white space, line ends, non-ASCII), at every position incl. the last:
    # judged directly against the documented predicate (any character outside ACGT makes the verdict false)
    for it in range(ctx.n(120, 3000)):
        k = rng.choice([1, 2, 3, 5, 8])
        run, gc, motifs = rand_cfg(rng, k)
        st, flt = proto.guarded(lambda: mk(k, run, gc, motifs))
        if st != "ok":
            continue
        n = rng.choice([1, 2, k, k + 1, 2 * k + 1])
        base = gen.rand_dna(rng, n)
        ch = rng.choice(["\n", "\n", " ", "\t", "\r", "\x0b", "\u00e9", "\u0391", "a", "t", "N", "-", "\x00"])
        pos = rng.choice([n, n, 0, rng.randrange(n + 1)])
        s_ = base[:pos] + ch + base[pos:]
        for ol in (False, True):
            if ol and pos < len(s_) - k:
                continue                      # the foreign character is outside the last window
            st, v = proto.guarded(lambda: flt.valid(s_, only_last=ol))
            if st != "ok" or bool(v):
                ctx.fail("a string with a character outside ACGT is not judged invalid", config=cfg_tokens(k, run, gc, motifs),
                         string=repr(s_), only_last=ol, observed=str(v))
        ctx.case("foreign %s %r" % (cfg_tokens(k, run, gc, motifs), s_), True, "foreign-unprintable")
    if ctx.thorough:
        cfgs = [(k,) + rand_cfg(rng, k) for k in (1, 2, 3, 4, 5) for _ in range(12)]
        strings = list(gen.all_strings(NUC, 6))
        for s in strings[ctx.part::ctx.nparts]:
            for (k, run, gc, motifs) in cfgs:
                if run is not None and run > k:
                    continue
                check(k, run, gc, motifs, s)
    for it in range(ctx.n(3500, 120000)):
        k = rng.choice([1, 2, 3, 4, 5, 8, 10, 25 if rng.random() < 0.2 else 6])
        run, gc, motifs = rand_cfg(rng, k, allow_bad=True)
        n = rng.choice([0, 1, 2, k - 1, k, k + 1, 2 * k, 3 * k])
        alpha = NUC if rng.random() < 0.93 else "ACGTN"
        if rng.random() < 0.4:
            # biased strands: homopolymer stretches and GC-rich parts, so rules actually bite
            s = "".join(rng.choice(NUC) * rng.choice([1, 1, 2, 3]) for _ in range(max(0, n)))[:max(0, n)]
        else:
            s = gen.rand_dna(rng, max(0, n), alpha)
        check(k, run, gc, motifs, s)


# =============================================================================== C13
def C13(ctx):
    rng = ctx.rng
    top = 6 if ctx.thorough else 4
    for k in range(1, top + 1):
        n = 4 ** k
        vs = range(n) if k <= top else []
        if k <= 4:
            # build constrained graphs first: the arithmetic must not depend on what was built before
            m = gen.rand_mask(rng, k, 0.5)
            if any(m):
                o = ctx.corr("cvg %d %s" % (k, "".join(map(str, m))))
                if o != "ok " + proto.show_acc(gen.induced(k, m).rows()):
                    ctx.fail("valid graph is not the induced shift sub-graph", k=k, observed=o[:200])
                ctx.corr("ccg %d %s %d" % (k, "".join(map(str, m)), rng.choice([1, 2])))
        for v in list(vs)[ctx.part::ctx.nparts]:
            s = gen.kmer(v, k)
            exp_l = [gen.kmer_idx(s[1:] + c) for c in NUC]
            exp_f = [gen.kmer_idx(c + s[:-1]) for c in NUC]
            ol = ctx.corr("latters %d %d" % (k, v))
            of = ctx.corr("formers %d %d" % (k, v))
            if ol != proto.show_nats(exp_l):
                ctx.fail("successor list is not drop-first/append", k=k, v=v, observed=ol)
            if of != proto.show_nats(exp_f):
                ctx.fail("predecessor list is not drop-last/prepend", k=k, v=v, observed=of)
            o = ctx.corr("n2d %d %d" % (v, k))
            if o != "ok %s | %s" % (s, s):
                ctx.fail("index is not the base-4 value of its k-mer", k=k, v=v, observed=o)
            ctx.case("k%d v%d" % (k, v), k >= 2, "k=%d" % k)
        if ctx.part == 0 and k <= (5 if ctx.thorough else 4):
            oc = ctx.corr("complete %d" % k)
            exp = proto.show_acc([[succ(v, j, k) for j in range(4)] for v in range(n)])
            if oc != exp:
                ctx.fail("complete accessor does not hold the j-th successor in column j", k=k)
    # large orders (vertex indices beyond 2^15 / 2^16: narrow index types): the constructors' tables obey the column law
    if ctx.part == 0:
        for k in ((7, 8, 9) if ctx.thorough else (8, rng.choice([7, 9]))):
            n = 4 ** k
            want = (np.arange(n)[:, None] * 4 + np.arange(4)[None, :]) % n
            for dens in (1.0, 0.6):
                m = np.ones(n, dtype=bool) if dens == 1.0 else np.array([rng.random() < dens for _ in range(n)], dtype=bool)
                m[-1] = True                                   # the all-T k-mer: the largest index stays a target
                exp = np.where(m[want] & m[:, None], want, -1)
                st, a = proto.guarded(lambda: SW.connect_valid_graph(k, m.copy()), 120)
                if st != "ok" or not np.array_equal(np.asarray(a), exp):
                    bad = None if st != "ok" else [int(x) for x in np.argwhere(np.asarray(a) != exp)[0]]
                    ctx.fail("valid graph of a large order: column j does not hold -1 or the j-th successor", k=k, density=dens,
                             first_bad_cell=bad, observed=str(a)[:200] if st != "ok" else int(np.asarray(a)[bad[0], bad[1]]))
                if dens == 1.0:
                    st, r_ = proto.guarded(lambda: SW.connect_coding_graph(k, m.copy(), 4), 240)
                    if st != "ok" or not np.array_equal(np.asarray(r_[1]), want):
                        ctx.fail("coding graph of a large order (complete mask, threshold 4) is not the complete accessor", k=k,
                                 observed=str(r_)[:200])
                ctx.case("large-order k=%d dens=%s" % (k, dens), True, "large-order")
    # converted graphs: column j holds -1 or the j-th successor, also for latter maps listing the
    # successors in another order
    for it in range(ctx.n(40, 600)):
        k = rng.choice([1, 2, 3])
        g = rng.choice([gen.rand_arc_subset, gen.rand_profile_graph])(rng, k)
        lm = {u: rng.sample([succ(u, j, k) for j in g.live(u)], g.deg(u)) for u in g.vertices()}
        if not lm:
            continue
        o = ctx.corr("l2a %s %d -" % (proto.enc_lmap(lm), k))
        r = parse_ok(o)
        rows = parse_acc_rows(r[0]) if r else None
        if rows is None or any(rows[v][j] not in (-1, succ(v, j, k)) for v in range(4 ** k) for j in range(4)) or \
                any((rows[v][j] >= 0) != (succ(v, j, k) in lm.get(v, [])) for v in range(4 ** k) for j in range(4)):
            ctx.fail("converted graph does not hold the j-th successor (or -1) in column j", lmap=proto.enc_lmap(lm)[:300],
                     observed=o[:300])
        ctx.case("l2a " + proto.enc_lmap(lm), k >= 2, "converted")
    # graphs converted by the library's own functions one after the other in one process (different orders, vertices
    # that have arcs in one graph and none in the next): every result obeys the column law and keeps exactly the arcs
    for it in range(ctx.n(40, 800)):
        k = rng.choice([1, 2, 2, 3, 3])
        g = rng.choice([gen.rand_arc_subset, gen.rand_profile_graph, lambda r, kk: gen.complete(kk)])(rng, k)
        acc0 = np.array(g.rows(), dtype=int)
        st, lm_real = proto.guarded(lambda: GZ.accessor_to_latter_map(acc0))
        if st != "ok":
            ctx.fail("accessor_to_latter_map raised", acc=g.token(), observed=str(lm_real))
            continue
        st, back = proto.guarded(lambda: GZ.latter_map_to_accessor(lm_real, k))
        if st != "ok" or not np.array_equal(np.asarray(back), acc0):
            ctx.fail("graph converted to a latter map and back does not hold the j-th successor (or -1) in column j",
                     acc=g.token(), k=k, observed=str(back)[:300] if st == "ok" else str(back))
        ctx.case("a2l-l2a " + g.token(), k >= 2, "converted-chain")
    # matrices: whenever the conversion accepts, column j holds -1 or the j-th successor and every 1 of
    # the matrix is an arc of the result (stray entries right next to the legal block of a row are the
    # ones a range test can let through)
    for it in range(ctx.n(60, 1500)):
        k = rng.choice([2, 2, 3])
        g = rng.choice([gen.rand_arc_subset, gen.rand_profile_graph])(rng, k)
        n = g.n
        rows = g.rows()
        M = [[0] * n for _ in range(n)]
        for u in range(n):
            for x in rows[u]:
                if x >= 0:
                    M[u][x] = 1
        u = rng.randrange(n)
        start = (4 * u) % n
        w = rng.choice([start + 4, start - 1, start + 5, start - 2, rng.randrange(n), rng.randrange(n)]) % n
        M[u][w] = 1
        o = ctx.corr("m2a " + proto.enc_matrix(M))
        r = parse_ok(o)
        if r is not None:
            got = parse_acc_rows(r[0])
            if any(got[v][j] not in (-1, succ(v, j, k)) for v in range(n) for j in range(4)):
                ctx.fail("accessor converted from a matrix holds a vertex that is not the j-th successor in column j",
                         k=k, row=u, column=w, observed=o[:300])
            elif any(M[v][x] and x not in got[v] for v in range(n) for x in range(n)):
                ctx.fail("accessor converted from a matrix lost an arc of the matrix", k=k, row=u, column=w, observed=o[:300])
        elif w in [succ(u, j, k) for j in range(4)]:
            ctx.fail("legal matrix rejected", k=k, row=u, column=w, observed=o[:100])
        ctx.case("m2a %d %d %s" % (u, w, g.token()), True, "matrix")
    if ctx.part == 0:
        for k in ((6, 8, 9, 10, 11) if ctx.thorough else (6, 8, 10)):
            n = 4 ** k
            st, a = proto.guarded(lambda: GZ.get_complete_accessor(k), 240)
            exp = (np.arange(n)[:, None] * 4 + np.arange(4)[None, :]) % n
            if st != "ok" or a.shape != (n, 4) or not np.array_equal(a, exp):
                bad = "raised " + str(a) if st != "ok" else int(np.argwhere(a != exp)[0][0]) if a.shape == (n, 4) else "shape"
                ctx.fail("complete accessor does not hold the j-th successor in column j", k=k, first_bad_row=bad)
            ctx.case("complete %d" % k, True, "complete-large")
    for it in range(ctx.n(300, 6000)):
        k = rng.randrange(5, 13 if ctx.thorough else 10)
        v = rng.randrange(4 ** k)
        s = gen.kmer(v, k)
        ol = ctx.corr("latters %d %d" % (k, v))
        of = ctx.corr("formers %d %d" % (k, v))
        if ol != proto.show_nats([gen.kmer_idx(s[1:] + c) for c in NUC]) or \
                of != proto.show_nats([gen.kmer_idx(c + s[:-1]) for c in NUC]):
            ctx.fail("successor/predecessor arithmetic wrong", k=k, v=v, observed=ol + " / " + of)
        u = rng.choice([int(x) for x in of.split(",")])
        if str(v) not in ctx.corr("latters %d %d" % (k, u)).split(","):
            ctx.fail("u is a predecessor of v but v is not a successor of u", k=k, u=u, v=v)
        ctx.case("k%d v%d" % (k, v), True, "sampled")


# =============================================================================== C14
def C14(ctx):
    rng = ctx.rng
    # (a leaf query given both or neither representation is outside C14: which error it raises is not checked)
    # sparse graphs of order 4 and 5 whose ONLY arcs enter vertices at byte / word boundaries (255, 256, 511, 1023, the
    # last vertex): a narrow integer type inside a conversion loses exactly these
    if ctx.part == 0:
        for k in (4, 5):
            n = 4 ** k
            for it in range(ctx.n(3, 20)):
                targets = rng.sample([255, 256, 511, 512, 767, n - 1, n - 256, 0, 1][: 9 if k == 5 else 6], 3)
                targets = [t_ % n for t_ in targets]
                nib = [0] * n
                for t_ in targets:
                    preds = [(t_ // 4) + j * (n // 4) for j in range(4)]
                    for u in rng.sample(preds, rng.choice([1, 2, 4])):
                        nib[u] |= 1 << (t_ % 4)
                for u in rng.sample(range(n), 5):
                    nib[u] |= rng.randrange(1, 16)
                g = gen.Graph(k, nib)
                a, rows = g.token(), g.rows()
                lm_exp = {u: [succ(u, j, k) for j in g.live(u)] for u in g.vertices()}
                o = ctx.corr("a2l " + a)
                if o != proto.enc_lmap(lm_exp):
                    ctx.fail("latter map content wrong (sparse graph with arcs into byte-boundary vertices)", acc=a, observed=o[:300])
                o2 = ctx.corr("l2a %s %d -" % (proto.enc_lmap(lm_exp), k))
                if o2 != "ok " + proto.show_acc(rows):
                    ctx.fail("accessor -> latter map -> accessor is not the identity (sparse, byte-boundary vertices)", acc=a)
                ov = ctx.corr("verts " + a)
                if ov != proto.show_nats(g.vertices()):
                    ctx.fail("vertex listing wrong (sparse graph with arcs into byte-boundary vertices)", acc=a, observed=ov)
                t0 = targets[0]
                u0 = next(u for u in range(n) if (nib[u] >> (t0 % 4)) & 1 and succ(u, t0 % 4, k) == t0)
                la = ctx.corr("leafa %s %d %d" % (a, u0, 1))
                ll = ctx.corr("leafl %s %d %d" % (proto.enc_lmap(lm_exp), u0, 1))
                exp_ends = sorted(str(succ(u0, j, k)) for j in g.live(u0))
                if sorted(proto.undash(la).split(",")) != exp_ends or sorted(proto.undash(ll).split(",")) != exp_ends:
                    ctx.fail("leaf query wrong on a sparse graph with arcs into byte-boundary vertices", acc=a, v=u0,
                             observed=la + " / " + ll)
                ctx.case("sparse-boundary " + a, True, "byte-boundary-targets")
    for it in range(ctx.n(200, 5000)):
        k = rng.choice([1, 2, 2, 3] if not ctx.thorough else [2, 3, 3, 4, 5])
        g = rng.choice([gen.rand_arc_subset, gen.rand_profile_graph])(rng, k)
        a, rows = g.token(), g.rows()
        lm_exp = {u: [succ(u, j, k) for j in g.live(u)] for u in g.vertices()}
        o = ctx.corr("a2l " + a)
        if o != proto.enc_lmap(lm_exp):
            ctx.fail("latter map content wrong", acc=a, observed=o[:300])
        o2 = ctx.corr("l2a %s %d -" % (proto.enc_lmap(lm_exp), k))
        if o2 != "ok " + proto.show_acc(rows):
            ctx.fail("accessor -> latter map -> accessor is not the identity", acc=a)
        if lm_exp:
            items = list(lm_exp.items())
            rng.shuffle(items)
            shuffled = {u: rng.sample(ls, len(ls)) for u, ls in items}
            o3 = ctx.corr("l2a %s %d -" % (proto.enc_lmap(shuffled), k))
            if o3 != "ok " + proto.show_acc(rows):
                ctx.fail("latter map with reordered successors does not convert to the accessor (column = successor mod 4)",
                         acc=a, lmap=proto.enc_lmap(shuffled)[:300])
        ov = ctx.corr("verts " + a)
        if ov != proto.show_nats(g.vertices()):
            ctx.fail("vertex listing wrong", acc=a, observed=ov)
        if k <= 4:
            om = ctx.corr("a2m " + a)
            M = [[0] * g.n for _ in range(g.n)]
            for u in range(g.n):
                for x in rows[u]:
                    if x >= 0:
                        M[u][x] = 1
            if om != "ok " + proto.enc_matrix(M):
                ctx.fail("matrix content wrong", acc=a)
            ob = ctx.corr("m2a " + proto.enc_matrix(M))
            if ob != "ok " + proto.show_acc(rows):
                ctx.fail("accessor -> matrix -> accessor is not the identity", acc=a)
            # one illegal arc (half of them right next to the legal block of the row)
            for _ in range(3):
                u, w = rng.randrange(g.n), rng.randrange(g.n)
                if rng.random() < 0.5:
                    w = ((4 * u) % g.n + rng.choice([4, -1, 5, -2])) % g.n
                if w not in [succ(u, j, k) for j in range(4)]:
                    M2 = [r[:] for r in M]
                    M2[u][w] = 1
                    oi = ctx.corr("m2a " + proto.enc_matrix(M2))
                    if oi != "err ValueError":
                        ctx.fail("matrix with a non-shift arc not rejected with ValueError", u=u, w=w, k=k, observed=oi[:100])
        if k <= 3 and rng.random() < 0.15:
            bad = [r[:] for r in rows]
            bad[rng.randrange(g.n)][rng.randrange(4)] = rng.choice([-2, g.n, g.n + 5])
            ob = ctx.corr("a2m g:" + ",".join(str(x) for r in bad for x in r))
            if ob != "err ValueError":
                ctx.fail("accessor with an entry outside [-1, n) not rejected with ValueError", observed=ob[:80])
        v, d = rng.randrange(g.n), rng.randrange(0, 4)
        ends = [v]
        for _ in range(d):
            ends = [succ(u, j, k) for u in ends for j in g.live(u)]
        la = ctx.corr("leafa %s %d %d" % (a, v, d))
        ll = ctx.corr("leafl %s %d %d" % (proto.enc_lmap(lm_exp), v, d))
        if sorted(proto.undash(la).split(",")) != sorted(proto.undash(proto.show_nats(ends)).split(",")) or \
                sorted(proto.undash(ll).split(",")) != sorted(proto.undash(la).split(",")):
            ctx.fail("leaf query differs from the end points of the d-step walks", acc=a, v=v, d=d, observed=la + " / " + ll)
        ctx.case(a, k >= 2 and 0 < g.arcs() < 4 * g.n, "k=%d" % k)


# =============================================================================== C15 C16
def rand_number(rng):
    c = rng.random()
    if c < 0.18:
        # a carry / borrow chain INSIDE the number, of a length around machine-word chunk sizes, with any head and tail
        m = rng.choice([1, 2, 7, 8, 9, 10, 17, 18, 19, 20, 27, 36, 40])
        head = "".join(rng.choice("0123456789") for _ in range(rng.choice([0, 1, 2, 5, 12, 30]))).lstrip("0")
        tail = rng.choice(["", "", rng.choice("0123456789"), rng.choice("0123456789") + rng.choice("0123456789")])
        return (head + rng.choice("90") * m + tail).lstrip("0") or "0"
    if c < 0.30:
        # chunks whose product with a small digit lands exactly on a power of ten (5*10^8, 25*10^7, 2*10^17, ...)
        w = rng.choice([9, 18, 4, 8])
        part = rng.choice(["5" + "0" * (w - 1), "25" + "0" * (w - 2), "2" + "0" * (w - 1), "125" + "0" * (w - 3),
                           "75" + "0" * (w - 2), "4" + "9" * (w - 1), "3" + "3" * (w - 1) + "4"])[:w].ljust(w, "0")
        parts = [part if rng.random() < 0.6 else "".join(rng.choice("0123456789") for _ in range(w)) for _ in range(rng.choice([1, 2, 3]))]
        head = "".join(rng.choice("123456789") for _ in range(rng.choice([0, 1, 3])))
        return (head + "".join(parts)).lstrip("0") or "0"
    c = rng.random()
    n = rng.choice([1, 1, 2, 3, 5, 10, 30, 80, 300])
    if c < 0.2:
        return "9" * n
    if c < 0.3:
        return "1" + "0" * (n - 1)
    if c < 0.35:
        return "0"
    if c < 0.45:
        return "1" + "0" * (n - 1) + rng.choice("0123456789") if n > 1 else "7"
    s = "".join(rng.choice("0123456789") for _ in range(n)).lstrip("0")
    return s or "0"


def C15(ctx):
    rng = ctx.rng

    def one(s, d):
        with BigInts():
            n = int(s)
            expected = (("add", str(n + d)), ("mul", str(n * d)), ("div", "%d %d" % (n // d, n % d) if d else "0 0"),
                        ("sub", str(n - d) if n >= d else None))
            longer = len(str(n + d)) > len(s)
        for op, exp in expected:
            if exp is None:
                continue
            key = "%s %s %d" % (op, s, d)
            o = ctx.corr(key)
            if o != exp:
                ctx.fail("string arithmetic differs from integer arithmetic", line=key, observed=o[:120], expected=exp[:120])
        carry = longer or (n % 10) + d >= 10 or (n % 10) < d
        ctx.case("%s %d" % (s, d), carry or len(s) >= 9, "len>=9" if len(s) >= 9 else "short",
                 "carry/borrow" if carry else "plain", "d=%d" % d)

    if ctx.thorough:
        for n in range(ctx.part, 10000, ctx.nparts):
            if n % 3 == ctx.seed % 3:
                for d in range(10):
                    one(str(n), d)
        for L in (1233, 5000):
            one("9" * L, 9)
            one("1" + "0" * L, 1)
    if ctx.part == 0:
        # lengths around CPython's 4300-digit int<->str conversion limit
        for L in (4299, 4300, 4301, 4400):
            one("".join(rng.choice("123456789") for _ in range(L)), rng.randrange(2, 10))
            one("9" * L, rng.randrange(2, 10))
    for it in range(ctx.n(4000, 60000)):
        one(rand_number(rng), rng.randrange(10))


def _gen_current(ctx, module):
    """the driver executes the definitions that were generated from the COMMITTED version of the source; when the
    source in $DSW_REPO translates to something else, comparing them with the code would compare the old program
    with the new one (every behaviour change, in or out of any property's domain, would show up as a disagreement of
    the translator). The validation of the translator is therefore run only when the translation is current; the
    re-check of the tie theorems against the new translation is tie.py's job."""
    import tie
    try:
        st = tie.state()
        ok = not st["unavailable"] and not st["changed"]
    except Exception:
        ok = False
    ctx.classes["gen-validation:" + ("run" if ok else "skipped-source-changed")] = 1
    return ok


def GENOP(ctx):
    """validation of the translator: the definitions GENERATED from dsw/operation.py (DswModel.Gen.Operation,
    executed by the driver operation `gen`) against the real functions, on the contract of each function and
    on a malformed stream (wrong characters, empty strings, multi-digit operands, unexpected types)."""
    rng = ctx.rng
    if not _gen_current(ctx, "operation"):
        return

    def num(p_bad=0.12):
        r = rng.random()
        if r < p_bad:
            return rng.choice(["", "0", "00", "0009", "a", "-", "+5", "-5", "5-", "1a2", "12.", "999999999999999999999"])
        n = rng.choice([1, 1, 2, 3, 5, 9, 20, 60, 300 if ctx.thorough else 40])
        if r < 0.45:
            return "".join(rng.choice("09") for _ in range(n))
        return "".join(rng.choice("0123456789") for _ in range(n))

    def base():
        return str(rng.randrange(10)) if rng.random() < 0.85 else rng.choice(["", "10", "12", "a", "007", "99", "-1", "+3"])

    for it in range(ctx.n(1500, 40000)):
        f = rng.choice(["calculus_addition", "calculus_subtraction", "calculus_multiplication", "calculus_division",
                        "bit_to_number", "number_to_bit", "dna_to_number", "number_to_dna"])
        if f.startswith("calculus"):
            args = [num(), base()]
        elif f == "bit_to_number":
            L = rng.choice([0, 1, 2, 3, 8, 33, 64, 70])
            bits = [rng.randrange(2) for _ in range(L)]
            if rng.random() < 0.08:
                bits = [rng.choice([0, 1, 2, 7, 10, -1]) for _ in range(rng.choice([1, 3]))]
            args = [bits if rng.random() < 0.8 else tuple(bits), rng.random() < 0.5, rng.random() < 0.3]
        elif f == "number_to_bit":
            n = rng.choice([0, 1, 2, 5, 999, 2 ** 63, 2 ** 64 - 1, 2 ** 70 + 3, rng.randrange(10 ** 30)])
            L = rng.choice([0, 1, 3, 10, 64, 80, 120])
            args = [rng.choice([n, str(n), str(n), None, [1], "", "00", "0012", True, -n, "x"]), L]
        elif f == "dna_to_number":
            L = rng.choice([0, 1, 2, 4, 16, 33, 40])
            args = ["".join(rng.choice("ACGT" if rng.random() < 0.93 else "ACGTNacgt-") for _ in range(L)), rng.random() < 0.5]
        else:
            n = rng.choice([0, 1, 3, 5, 6939, 4 ** 32, 4 ** 40 + 7, rng.randrange(10 ** 30)])
            L = rng.choice([0, 1, 3, 8, 32, 50, 70])
            args = [rng.choice([n, str(n), str(n), None, -5, "", "007", False, (1,)]), L]
        try:
            line = "gen %s %s" % (f, " ".join(proto.pv_enc(a) for a in args))
        except TypeError:
            continue
        if " " in "".join(a for a in args if isinstance(a, str)):
            continue
        ctx.corr(line)
        ctx.case(line, True, "gen:" + f)


def GENBF(ctx):
    """validation of the translator and of the float model on dsw/biofilter.py: the definitions GENERATED from
    LocalBioFilter.__init__ / valid (DswModel.Gen.Biofilter, driver operation `gen`) against the real class - constructor
    calls (accepted and rejected), `valid` on objects of every configuration (float, int and degenerate GC bounds, motif
    lists with palindromes / empty motifs / lower-case letters, run limits 0..k+1), strings with foreign characters, both
    modes - and the float primitives themselves (`fop`: double products / differences / comparisons / int())."""
    rng = ctx.rng
    if not _gen_current(ctx, "biofilter"):
        return

    def dbl():
        c = rng.random()
        if c < 0.5:
            return rng.choice([0.0, 0.1, 0.2, 0.25, 0.28, 0.3, 1 / 3, 0.4, 0.45, 0.5, 0.55, 0.6, 2 / 3, 0.7, 0.72, 0.75, 0.8, 0.9, 1.0])
        if c < 0.8:
            return rng.random()
        if c < 0.9:
            return rng.randrange(0, 40) / rng.choice([7, 10, 16, 100])
        return rng.choice([1e-320, 5e-324, 1e300, 2.0 ** 52 + 1, 0.1 + 0.2, 1e16 + 2, -0.5, 3.0])

    for it in range(ctx.n(900, 20000)):
        # ---- float primitives
        op = rng.choice(["mul", "mul", "sub", "add", "lt", "le", "eq", "int"])
        x = dbl()
        y = rng.choice([rng.randrange(0, 60), rng.randrange(0, 60), rng.randrange(-5, 10 ** 6), 2 ** 53 + rng.randrange(100),
                        rng.randrange(2 ** 60, 2 ** 70), dbl()])
        if rng.random() < 0.3:
            x, y = y, x
        line = "fop %s %s %s" % (op, proto.pv_enc(x), proto.pv_enc(y))
        ctx.corr(line)
        ctx.case(line, isinstance(x, float) or isinstance(y, float), "fop:" + op)
    for it in range(ctx.n(700, 15000)):
        k = rng.choice([0, 1, 2, 3, 4, 5, 6, 8, 10, 12, 25])
        run = rng.choice([None, None, 0, 1, 2, 3, max(k - 1, 0), k, k + 1])
        gc = None
        c = rng.random()
        if c < 0.6:
            lo, hi = dbl(), dbl()
            gc = [lo, hi] if rng.random() < 0.8 else [hi, lo]
        elif c < 0.7:
            gc = rng.choice([[0, 1], [1, 1], [0.0, 1], [0, 0.5]])          # ints among the bounds
        motifs = None
        if rng.random() < 0.6:
            pool = ["GC", "AT", "CG", "GATC", "ACGT", "AATT", "T", "A", "", "AAT", "ACA", "GG", "GAATTC", "ac", "aC", "N", "A-T"]
            motifs = [rng.choice(pool) if rng.random() < 0.6 else gen.rand_dna(rng, rng.choice([1, 2, 3, 4]))
                      for _ in range(rng.choice([0, 1, 1, 2, 3]))]
        ctor = "gen LocalBioFilter %s %s %s %s" % tuple(proto.pv_enc(a) for a in (k, run, gc, motifs))
        out = ctx.corr(ctor)
        ctx.case(ctor, out.startswith("ok"), "gen:LocalBioFilter")
        obj = {"screen_name": "Local", "observed_length": k, "max_homopolymer_runs": run, "gc_range": gc,
               "undesired_motifs": motifs}
        for _ in range(3):
            L = rng.choice([0, 1, max(k - 1, 0), k, k + 1, k + 3, 2 * k + 1, 30])
            s_ = "".join(rng.choice("ACGT" if rng.random() < 0.95 else "ACGTNacgt-") for _ in range(L))
            if rng.random() < 0.3 and L:
                ch = rng.choice("ACGT")
                i = rng.randrange(L)
                s_ = s_[:i] + ch * rng.choice([2, 3, k + 1]) + s_[i:]
            line = "gen LocalBioFilter.valid %s %s %s" % (proto.pv_enc(obj), proto.pv_enc(s_), proto.pv_enc(rng.random() < 0.5))
            out = ctx.corr(line)
            ctx.case(line, out == "ok bT", "gen:LocalBioFilter.valid")



def _wire_acc(rows):
    return "M[" + "|".join(";".join("i%d" % x for x in r) for r in rows) + "]"


def _wire_arr(xs):
    return "A[" + ";".join("i%d" % int(x) for x in xs) + "]"


def GENSW(ctx):
    """validation of the translator on dsw/spiderweb.py: the definitions GENERATED from set_vt / encode /
    decode (DswModel.Gen.Spiderweb, driver operation `gen`) against the real functions: well-formed and
    malformed graphs, both modes, tables, checks, need_path, foreign characters, wrong checks."""
    rng = ctx.rng
    if not _gen_current(ctx, "spiderweb"):
        return
    for it in range(ctx.n(500, 20000)):
        k = rng.choice([1, 2, 2, 3])
        r = rng.random()
        if r < 0.55:
            fast = rng.random() < 0.4
            g, v = gen.rand_wellformed(rng, k, no_deg3=fast)
        else:
            fast = rng.random() < 0.5
            g = rng.choice([gen.rand_arc_subset, gen.rand_profile_graph])(rng, k)
            v = rng.randrange(g.n)
        rows = g.rows()
        tbl = gen.rand_table(rng, k)
        t_tok = "n" if tbl is None else _wire_acc(tbl)
        bits = gen.rand_bits(rng, 24)
        # messages that a dead-end or information-free region would walk forever are cut short by the
        # model's fuel but not by the implementation: only walk them when the graph is well formed from v
        safe = g.well_formed_from(v)
        vt = rng.choice([0, 0, 1, 2, 5, 9])
        path = rng.random() < 0.3
        verbose = rng.random() < 0.2
        if safe or len(bits) == 0 or (not fast and not any(bits)):
            line = "gen encode %s %s i%d %s i%d %s %s %s" % (_wire_arr(bits), _wire_acc(rows), v, "bT" if fast else "bF", vt,
                                                             t_tok, "bT" if path else "bF", "bT" if verbose else "bF")
            out = ctx.corr(line)
            ctx.case(line, out.startswith("ok"), "gen:encode")
        # decode: walks, edited walks, random and foreign strings, right / wrong / absent check
        n = rng.choice([0, 1, 2, 5, 9, 14])
        s = gen.rand_walk(rng, g, v, n) if rng.random() < 0.6 else gen.rand_dna(rng, n, NUC if rng.random() < 0.8 else "ACGTN")
        if len(s) > 1 and rng.random() < 0.3:
            s = gen.apply_edit(s, gen.rand_edit(rng, s))
        chk = "n"
        if rng.random() < 0.4:
            st, c = proto.guarded(lambda: SW.set_vt(s, rng.choice([1, 2, 4])))
            if st == "ok":
                chk = "s" + (c if rng.random() < 0.7 else gen.rand_dna(rng, len(c)))
        L = rng.choice([0, 1, 2, 7, 8, 16, 30])
        line = "gen decode s%s i%d %s i%d %s %s %s bF" % (s, L, _wire_acc(rows), v, "bT" if fast else "bF", chk, t_tok)
        out = ctx.corr(line)
        ctx.case(line, out.startswith("ok"), "gen:decode")
        s2 = gen.rand_dna(rng, rng.choice([0, 1, 2, 3, 8, 40]), NUC if rng.random() < 0.9 else "ACGTN")
        line = "gen set_vt s%s i%d" % (s2, rng.choice([1, 1, 2, 3, 5, 12, 33, 40]))
        ctx.corr(line)
        ctx.case(line, True, "gen:set_vt")
        # repair_dna / path_matching: walks with 0-3 edits, random strings, check present / absent / wrong
        n = rng.choice([k, k + 1, 3 * k + 2, 6 * k + 3, 20])
        w = gen.rand_walk(rng, g, v, n) if rng.random() < 0.75 else gen.rand_dna(rng, n)
        for _ in range(rng.choice([0, 1, 1, 2, 3])):
            if len(w) > 1:
                w = gen.apply_edit(w, gen.rand_edit(rng, w))
        if len(w) >= k:
            chk = "n"
            if rng.random() < 0.5:
                st, c = proto.guarded(lambda: SW.set_vt(w, rng.choice([1, 2, 4])))
                if st == "ok":
                    chk = "s" + (c if rng.random() < 0.6 else gen.rand_dna(rng, len(c)))
            line = "gen repair_dna s%s %s i%d i%d %s %s i%d" % (w, _wire_acc(rows), v, k, chk, rng.choice(["bT", "bF"]),
                                                                 rng.choice([0, 1, 10, 1000, 1000]))
            out = ctx.corr(line)
            ctx.case(line, out.startswith("ok"), "gen:repair_dna")
        # graph builders: masks of every density, int and bool dtype, thresholds 1..4
        if rng.random() < 0.6:
            kk = rng.choice([1, 2, 2, 3])
            mask = gen.rand_mask(rng, kk, rng.choice([0.0, 0.3, 0.6, 0.8, 0.95, 1.0]))
            mt = "A[" + ";".join(("i%d" % x) if it % 2 else ("bT" if x else "bF") for x in mask) + "]"
            line = "gen connect_valid_graph i%d %s bF" % (kk, mt)
            out = ctx.corr(line)
            ctx.case(line, out.startswith("ok"), "gen:connect_valid_graph")
            line = "gen connect_coding_graph i%d %s i%d bF" % (kk, mt, rng.choice([1, 1, 2, 2, 3, 4]))
            out = ctx.corr(line)
            ctx.case(line, out.startswith("ok"), "gen:connect_coding_graph")
            table = "D{" + ";".join("s%s:%s" % (gen.kmer(i, kk), "bT" if x else "bF") for i, x in enumerate(mask)) + "}"
            line = "gen find_vertices i%d %s bF" % (kk, table)
            out = ctx.corr(line)
            ctx.case(line, out.startswith("ok"), "gen:find_vertices")
        # remove_nasty_arc: consistent and inconsistent views, graphs whose scores are all zero, every flag combination
        if rng.random() < 0.5:
            kk = rng.choice([1, 2, 2, 3])
            g2 = rng.choice([gen.rand_arc_subset, gen.rand_profile_graph])(rng, kk)
            if rng.random() < 0.2:
                g2 = gen.Graph(kk, [rng.choice([0, 1, 2, 4, 8]) for _ in range(4 ** kk)])
            lm2 = {u: [succ(u, j, kk) for j in g2.live(u)] for u in g2.vertices()}
            c2 = rng.random()
            if c2 < 0.1 and lm2:
                u = rng.choice(list(lm2))
                lm2[u] = lm2[u][:-1] or [0]
            elif c2 < 0.2 and lm2:
                del lm2[rng.choice(list(lm2))]
            elif c2 < 0.25:
                lm2[rng.randrange(4 ** kk)] = [rng.randrange(4 ** kk)]
            line = "gen remove_nasty_arc %s %s i%d %s %s %s" % (_wire_acc(g2.rows()), proto.pv_enc(lm2), rng.choice([0, 2]),
                                                               rng.choice(["bT", "bF"]), rng.choice(["bT", "bF"]),
                                                               rng.choice(["bF", "bF", "bT"]))
            out = ctx.corr(line)
            ctx.case(line, out.startswith("ok"), "gen:remove_nasty_arc")
        if len(w) >= 1:
            occ = rng.randrange(len(w))
            line = "gen path_matching s%s %s i%d i%d %s n" % (w[:2 * k + 1], _wire_acc(rows), rng.choice([v, rng.randrange(g.n), -1]),
                                                            min(occ, max(0, len(w[:2 * k + 1]) - 1)), rng.choice(["bT", "bF"]))
            out = ctx.corr(line)
            ctx.case(line, out.startswith("ok"), "gen:path_matching")


def GENGZ(ctx):
    """validation of the translator on dsw/graphized.py: obtain_latters / obtain_formers / get_complete_accessor as
    GENERATED (DswModel.Gen.Graphized) against the real functions."""
    rng = ctx.rng
    if not _gen_current(ctx, "graphized"):
        return
    for it in range(ctx.n(300, 6000)):
        k = rng.choice([1, 1, 2, 3, 4, 5, 8, 12])
        v = rng.choice([0, 4 ** k - 1, rng.randrange(4 ** k), rng.randrange(4 ** k)])
        ctx.corr("gen obtain_latters i%d i%d" % (v, k))
        ctx.corr("gen obtain_formers i%d i%d" % (v, k))
        ctx.case("gz %d %d" % (k, v), True, "gen:graphized")
    if ctx.part == 0:
        for k in (0, 1, 2, 3, 4):
            ctx.corr("gen get_complete_accessor i%d %s" % (k, "bT" if k % 2 else "bF"))
        ctx.corr("gen obtain_latters i5 i0")
    # graph views: accessor <-> latter map, trimming, vertex listing, leaf queries
    for it in range(ctx.n(150, 3000)):
        k = rng.choice([1, 2, 2, 3])
        g = rng.choice([gen.rand_arc_subset, gen.rand_profile_graph])(rng, k)
        acc = _wire_acc(g.rows())
        lm = {u: [succ(u, j, k) for j in g.live(u)] for u in g.vertices()}
        lmt = "D{" + ";".join("i%d:L[%s]" % (u, ",".join("i%d" % x for x in ls)) for u, ls in lm.items()) + "}"
        ctx.corr("gen accessor_to_latter_map %s bF" % acc)
        ctx.corr("gen obtain_vertices %s" % acc)
        ctx.corr("gen remove_useless %s i%d bF" % (lmt, rng.choice([1, 2, 2, 3, 4])))
        ctx.corr("gen latter_map_to_accessor %s i%d %s bF" % (lmt, k, rng.choice(["n", "n", "i1", "i2", "i3"])))
        v, d = rng.randrange(g.n), rng.randrange(0, 4)
        ctx.corr("gen obtain_leaf_vertices i%d i%d %s n" % (v, d, acc))
        ctx.corr("gen obtain_leaf_vertices i%d i%d n %s" % (v, d, lmt))
        if k <= 2 or rng.random() < 0.3:
            ctx.corr("gen calculate_intersection_score %s i%d %s %s bF" % (lmt, k, rng.choice(["bT", "bF"]), rng.choice(["bT", "bF"])))
        ctx.case("gzviews " + g.token(), True, "gen:graph-views")
    if ctx.part == 0:
        a2 = _wire_acc(gen.gc_balanced2().rows())
        ctx.corr("gen obtain_leaf_vertices i1 i1 n n")
        ctx.corr("gen obtain_leaf_vertices i1 i1 %s D{i1:L[i4,i7]}" % a2)


def C16(ctx):
    rng = ctx.rng

    def bits_case(bits):
        bt = bits_token(bits)
        if len(bits) <= 200:
            for container in (list, tuple):
                arg = container(int(b) for b in bits)
                keep = container(arg)
                with BigInts():
                    r1 = str(int(OP.bit_to_number(arg, is_string=False)))
                    r2 = OP.bit_to_number(arg, is_string=True)
                    r3 = str(int(OP.bit_to_number(arg, is_string=False)))
                if arg != keep:
                    ctx.fail("bit_to_number modifies its argument", bits=bt, container=container.__name__)
                if not (r1 == r2 == r3):
                    ctx.fail("integer-typed and string-typed paths disagree on a reused %s" % container.__name__,
                             bits=bt, observed=[r1, r2, r3])
                back = OP.number_to_bit(r2, len(bits))
                if list(back) != [int(b) for b in bits]:
                    ctx.fail("bits -> number -> bits is not the identity", bits=bt, observed=str(back)[:200])
        val = int(bt.replace("-", "") or "0", 2) if bits else 0
        o = ctx.corr("b2n " + bt)
        if o != "%d %d" % (val, val):
            ctx.fail("bit_to_number wrong or paths disagree", bits=bt, observed=o[:200])
        o = ctx.corr("n2b %d %d" % (val, len(bits)))
        if o != "ok %s | %s" % (bt, bt):
            ctx.fail("bits -> number -> bits is not the identity", bits=bt, observed=o[:200])
        ctx.case("b " + bt, len(bits) >= 1 and any(bits), "bits", "len>=64" if len(bits) >= 64 else "len<64")

    def dna_case(d):
        val = gen.kmer_idx(d)
        o = ctx.corr("d2n " + tok(d))
        if o != "ok %d | ok %d" % (val, val):
            ctx.fail("dna_to_number wrong or paths disagree", dna=d, observed=o[:200])
        o = ctx.corr("n2d %d %d" % (val, len(d)))
        if o != "ok %s | %s" % (tok(d), tok(d)):
            ctx.fail("dna -> number -> dna is not the identity", dna=d, observed=o[:200])
        ctx.case("d " + d, len(d) >= 1 and set(d) != {"A"}, "dna")

    def number_case(n, L, base):
        if base == 2:
            exp = bits_token(oracle.bits_be(n, L))
            with BigInts():
                line = "n2b %d %d" % (n, L)
            o = ctx.corr(line)
            if o != "ok %s | %s" % (exp, exp):
                ctx.fail("L-bit rendering wrong", n=n, L=L, observed=o[:200])
        else:
            exp = tok(gen.kmer(n, L))
            with BigInts():
                line = "n2d %d %d" % (n, L)
            o = ctx.corr(line)
            if o != "ok %s | %s" % (exp, exp):
                ctx.fail("L-symbol DNA rendering wrong", n=n, L=L, observed=o[:200])
        ctx.case("n %d %d %d" % (n % 10 ** 30, L, base), n > 0, "number")

    top = 10 if ctx.thorough else 7
    for L in range(top + 1):
        for val in range(ctx.part, 1 << L, ctx.nparts):
            bits_case(oracle.bits_be(val, L))
    for d in list(gen.all_strings(NUC, 5 if ctx.thorough else 3))[ctx.part::ctx.nparts]:
        dna_case(d)
    for it in range(ctx.n(700, 12000)):
        L = rng.choice([11, 16, 33, 63, 64, 65, 100, 257, 4096 if ctx.thorough and rng.random() < 0.05 else 128])
        bits_case(gen.rand_bits(rng, L) if rng.random() < 0.5 else [rng.randrange(2) for _ in range(L)])
        dl = rng.choice([4, 7, 16, 31, 32, 33, 90])
        dna_case(gen.rand_dna(rng, dl))
        W = rng.choice([1, 5, 20, 64, 70])
        number_case(rng.randrange(2 ** W), W + rng.choice([0, 0, 1, 7]), 2)
        W = rng.choice([1, 3, 10, 32, 40])
        number_case(rng.randrange(4 ** W), W + rng.choice([0, 0, 1, 7]), 4)
        # values whose binary / base-4 Horner prefixes pass through d * 10^9 / 2, d * 10^18 / 4, ... (word-chunk boundaries
        # of a chunked big-number routine), reached through the conversion functions themselves
        base = rng.choice([2, 4])
        w = rng.choice([9, 18])
        pre = (rng.randrange(1, 50) * 10 ** w + 10 ** w // base * rng.randrange(1, base)) * base ** rng.choice([1, 1, 2, 5]) + rng.randrange(base)
        L0 = pre.bit_length() if base == 2 else (pre.bit_length() + 1) // 2
        number_case(pre, L0 + rng.choice([0, 0, 3]), base)
        if base == 2:
            bits_case(oracle.bits_be(pre, L0))
        else:
            dna_case(gen.kmer(pre, L0))
    # every length around 100 .. 215 with the TOP bits set (the decimal rendering gains a digit exactly there: a digit
    # buffer sized from the bit count is one short for some lengths), and all-ones
    for n_ in list(range(95, 216))[ctx.part::ctx.nparts]:
        bits_case([1] * n_)
        top = rng.choice([3, 5, 8])
        bits_case([1] * top + [rng.randrange(2) for _ in range(n_ - top)])
        dna_case("T" * rng.choice([33, 35, 63, 65, 67, 129]) if n_ % 10 == 0 else gen.rand_dna(rng, n_ // 2 + 1))
    if ctx.part == 0:
        # string-typed path beyond CPython's 4300-digit int<->str limit (value 4^7150 - 1 has 4305 digits)
        W = 7150
        n = 4 ** W - 1 - rng.randrange(4 ** 20)
        number_case(n, W, 4)
        if ctx.thorough:
            W = 14400
            number_case(2 ** W - 1 - rng.randrange(2 ** 40), W, 2)
    # (numbers of another type and foreign nucleotides are outside C16's statement: what the code does with them is
    # neither demanded nor compared here - a harmless rewrite that raised TypeError instead was reported at first,
    # DESIGN.md §10.6; decode's ValueError on foreign characters is C06's business)


# =============================================================================== C17
def spectral_info(g):
    """(nontrivial SCC count, rho, gap ratio) using floating point — only to *select* graphs that
    meet the structural precondition; the verdict uses the certified enclosure below."""
    comps = [c for c in oracle.sccs(g) if len(c) > 1 or (g.nib[c[0]] and c[0] in [succ(c[0], j, g.k) for j in g.live(c[0])])]
    M = np.zeros((g.n, g.n))
    for u in range(g.n):
        for j in g.live(u):
            M[u][succ(u, j, g.k)] = 1
    ev = sorted(np.abs(np.linalg.eigvals(M)), reverse=True)
    rho = ev[0]
    ratio = ev[1] / rho if rho > 1e-9 and len(ev) > 1 else 0.0
    return comps, rho, ratio


def certified_enclosure(g, comp, iters=400):
    """Collatz-Wielandt bounds on the spectral radius of the irreducible block `comp`, in exact
    integer arithmetic (soundness of the bounds is the Lean theorem C17_certificate)."""
    from fractions import Fraction
    idx = {v: i for i, v in enumerate(comp)}
    nb = [[idx[succ(v, j, g.k)] for j in g.live(v) if succ(v, j, g.k) in idx] for v in comp]
    x = [1] * len(comp)
    lo, hi = Fraction(0), Fraction(4)
    for _ in range(iters):
        y = [sum(x[w] for w in nb[i]) for i in range(len(comp))]
        rs = [Fraction(y[i], x[i]) for i in range(len(comp))]
        lo, hi = max(lo, min(rs)), min(hi, max(rs))
        x = y
        if hi - lo < Fraction(1, 10 ** 9):
            break
    return lo, hi


def C17(ctx):
    rng = ctx.rng
    tol = 1e-4
    # arc-less graph and regular graphs
    for k in (1, 2, 3):
        z = -np.ones((4 ** k, 4), dtype=int)
        if GZ.approximate_capacity(z) != 0.0 or GZ.approximate_capacity(z, repeats=3) != 0.0:
            ctx.fail("arc-less graph does not have capacity 0", k=k)
        ctx.case("arcless %d" % k, False, "arcless")
    for it in range(ctx.n(40, 600)):
        k = rng.choice([1, 2, 3])
        d = rng.choice([1, 2, 3, 4])
        # every live vertex has exactly d live successors: take a closed set then restrict columns
        S = gen.gfp_mask(k, gen.rand_mask(rng, k, rng.choice([0.7, 0.9, 1.0])), d)
        if not any(S):
            continue
        g = gen.induced(k, S)
        # prune arcs down to exactly d per vertex, keeping targets inside S (targets are live by construction)
        nib = []
        for v in range(g.n):
            cols = g.live(v)
            keep = rng.sample(cols, d) if len(cols) >= d else cols
            nib.append(sum(1 << j for j in keep))
        h = gen.Graph(k, nib)
        live = set(h.vertices())
        if any(len([j for j in h.live(v) if succ(v, j, k) in live]) != d for v in live):
            continue
        extra = 0
        if rng.random() < 0.6:
            # additional arcs from live vertices into arc-less vertices, unevenly distributed: every live
            # vertex still has exactly d LIVE successors
            nib2 = list(nib)
            for v in sorted(live):
                for j in range(4):
                    if not (nib2[v] >> j) & 1 and succ(v, j, k) not in live and rng.random() < 0.4:
                        nib2[v] |= 1 << j
                        extra += 1
            h = gen.Graph(k, nib2)
        rows = np.array(h.rows(), dtype=int)
        cap = float(GZ.approximate_capacity(rows))
        if cap != math.log2(d):
            ctx.fail("deterministic mode does not return exactly log2 d on a graph whose live vertices all have d live successors",
                     acc=h.token(), d=d, arcs_into_arcless_vertices=extra, observed=cap)
        ctx.case("regular %s" % h.token(), d >= 2, "regular-d%d" % d, "dead-targets" if extra else "closed")
    # spectral radius
    for it in range(ctx.n(60, 1500)):
        k = rng.choice([2, 2, 3] if not ctx.thorough else [2, 3, 3, 4])
        g = rng.choice([gen.rand_arc_subset, lambda r, kk: gen.rand_coding_graph(r, kk)[0], gen.rand_profile_graph])(rng, k)
        if rng.random() < 0.3:
            # uniform out-degree d on the arc-bearing vertices, some arcs leading to dead vertices
            d = rng.choice([2, 3])
            dead = set(rng.sample(range(4 ** k), rng.choice([1, 2, 3])))
            g = gen.Graph(k, [0 if v in dead else sum(1 << j for j in rng.sample(range(4), d)) for v in range(4 ** k)])
        rows = np.array(g.rows(), dtype=int)
        comps, rho, ratio = spectral_info(g)
        caps = []
        from fractions import Fraction
        for repeats in (1, 2, rng.choice([3, 5, 10])):
            seed = rng.randrange(2 ** 31)
            if repeats == 1:
                vecs = [[Fraction(1)] * g.n]
            else:
                np.random.seed(seed)
                vecs = [[Fraction(float(x)) for x in abs(np.random.random(size=(g.n,)))] for _ in range(repeats)]
            line = "cap %s 10 500 %s %d" % (g.token(), ";".join(",".join("%d/%d" % (f.numerator, f.denominator) for f in v)
                                                               for v in vecs), seed)
            out = ctx.corr(line)
            if not out.startswith("ok"):
                ctx.fail("approximate_capacity raised", acc=g.token(), repeats=repeats, observed=out[:100])
                continue
            cap = float(out.split(" ")[1])
            caps.append((repeats, cap))
            # the same call against the DOUBLE-PRECISION model (Model/CapacityF.lean): bit for bit, every iteration
            level = rng.choice([-10, -10, -6, -3, -12])
            miter = rng.choice([500, 500, 40, 7])
            np.random.seed(seed)
            tolf = Fraction(float(10 ** level))
            linef = "capf %s %d/%d %d %s %d" % (g.token(), tolf.numerator, tolf.denominator, miter,
                                               ";".join(",".join("%d/%d" % (f.numerator, f.denominator) for f in v) for v in vecs), seed)
            ctx.corr(linef, {"level": level})
            if repeats > 1 and (ctx.thorough or rng.random() < 0.5):
                # ... and with the start vectors drawn by the MODEL's generator (MT19937, Model/Shuffle.lean) from the seed
                ctx.corr("capr %s %d/%d %d %d %d" % (g.token(), tolf.numerator, tolf.denominator, miter, repeats, seed), {"level": level})
            np.random.seed(seed)
            st, plain = proto.guarded(lambda: float(GZ.approximate_capacity(rows, repeats=repeats)), 60)
            if st != "ok" or plain != cap:
                ctx.fail("capacity differs between process=False and process=True", acc=g.token(), repeats=repeats,
                         observed=str(plain), expected=cap)
            if cap > 2.0 + 1e-12:
                ctx.fail("capacity exceeds 2 bits per nucleotide", acc=g.token(), repeats=repeats, observed=cap)
        pre = len(comps) == 1 and ratio <= 0.9 and rho > 1e-9
        if pre:
            lo, hi = certified_enclosure(g, comps[0])
            if hi - lo < 1e-7:
                l2lo, l2hi = math.log2(float(lo)), math.log2(float(hi))
                for repeats, cap in caps:
                    if not (l2lo - tol <= cap <= l2hi + tol):
                        ctx.fail("capacity is not within 1e-4 of log2 of the spectral radius", acc=g.token(),
                                 repeats=repeats, observed=cap, enclosure=[l2lo, l2hi])
        ctx.case("cap " + g.token(), pre and abs(rho - round(rho)) > 1e-6, "precondition" if pre else "no-precondition")


def _same_value(a, b):
    """equality of two snapshots of a module-level object that may hold NumPy arrays (where `==` is element-wise)."""
    try:
        r = a == b
        if isinstance(r, bool):
            return r
    except Exception:  # noqa
        pass
    import pickle
    try:
        return pickle.dumps(a) == pickle.dumps(b)
    except Exception:  # noqa
        return repr(a) == repr(b)


# =============================================================================== C18
def C18(ctx):
    rng = ctx.rng
    perms = list(itertools.permutations(range(4)))
    # induced digit map through the real encode / decode
    for row in perms[ctx.part::ctx.nparts]:
        for pattern in range(1, 16):
            g = gen.Graph(2, [15, pattern] + [15] * 14)     # probe vertex 1 (AC): its successors 4..7 are 4-way
            live = g.live(1)
            tbl = [[0, 1, 2, 3], list(row)] + [[0, 1, 2, 3]] * 14
            seen = {}
            for d in range(len(live)):
                r_ = len(live)
                if r_ in (2, 4) and rng.random() < 0.5:
                    bits, fast = oracle.bits_be(d, 1 if r_ == 2 else 2), 1
                else:
                    val = d + r_ if r_ > 1 else 1          # first digit d, then quotient 1
                    bits, fast = oracle.bits_be(val, val.bit_length() + rng.randrange(2)), 0
                key = "enc %s %s 1 %s %d 0" % (g.token(), tbl_token(tbl), bits_token(bits), fast)
                # (graph and table live in two long-lived arrays that are rewritten in place for every row x pattern)
                bufs = reused_buffers(g, tbl)
                r = parse_ok(ctx.corr(key, bufs))
                if r is None or r[0] == "-":
                    ctx.fail("encode failed on a one-vertex digit probe", line=key)
                    continue
                first = r[0][0]
                if NUC.index(first) not in live:
                    ctx.fail("digit mapped to a dead arc", line=key, strand=r[0])
                if len(live) > 1:
                    if first in seen.values():
                        ctx.fail("two digits map to the same arc (not a bijection)", row=list(row), pattern=pattern)
                    seen[d] = first
                    exp = sorted(live, key=lambda j: row[j])[d]
                    if NUC.index(first) != exp:
                        ctx.fail("digit does not select the live arc with the d-th smallest table entry", line=key,
                                 strand=r[0], expected=NUC[exp])
                dd = ctx.corr("dec %s %s 1 %s %d %d None" % (g.token(), tbl_token(tbl), r[0], len(bits), fast), bufs)
                if dd != "ok " + bits_token(bits):
                    ctx.fail("decode does not invert the digit map", line=key, observed=dd)
                ctx.case(key, list(row) != [0, 1, 2, 3] and 2 <= len(live) <= 3, "live=%d" % len(live))
        # fast mode, a single bit left at a 4-way vertex (the odd-length padding): the padded digit 2*b goes through
        # the table like every other digit
        g4 = gen.Graph(2, [15] * 16)
        tbl4 = [[0, 1, 2, 3], list(row)] + [[0, 1, 2, 3]] * 14
        for b_ in (0, 1):
            key = "enc %s %s 1 %d 1 0" % (g4.token(), tbl_token(tbl4), b_)
            r = parse_ok(ctx.corr(key))
            if r is None or len(proto.undash(r[0])) != 1:
                ctx.fail("fast mode: a lone last bit at a 4-way vertex is not one padded step", line=key, observed=str(r))
                continue
            exp = sorted(range(4), key=lambda j: row[j])[2 * b_]
            if NUC.index(r[0][0]) != exp:
                ctx.fail("fast mode: the padded last digit does not go through the table", line=key, strand=r[0], expected=NUC[exp])
            dd = ctx.corr("dec %s %s 1 %s 1 1 None" % (g4.token(), tbl_token(tbl4), r[0]))
            if dd != "ok %d" % b_:
                ctx.fail("fast mode: decode does not invert the padded last digit", line=key, observed=dd)
            ctx.case(key, list(row) != [0, 1, 2, 3], "fast-lone-bit")
    # table shape / permutation rows / reproducibility / no side effects
    import copy
    for it in range(ctx.n(40, 600)):
        k = rng.choice([1, 2, 3, 4] if not ctx.thorough else [1, 2, 3, 4, 5, 6])
        seed = rng.choice([0, 0, 1, rng.randrange(2 ** 31), rng.randrange(2 ** 31)])
        snap = {n: copy.deepcopy(v) for n, v in vars(SW).items()
                if not n.startswith("__") and isinstance(v, (int, float, str, list, dict, tuple, set))}
        t1 = SW.create_random_shuffles(k, random_seed=seed)
        np.random.random(rng.randrange(5))       # disturb the global generator between calls
        other = SW.create_random_shuffles(k, random_seed=seed + 1)
        t2 = SW.create_random_shuffles(k, random_seed=seed)
        with contextlib.redirect_stdout(io.StringIO()):
            t3 = SW.create_random_shuffles(k, random_seed=seed, verbose=True)
        if t1.shape != (4 ** k, 4) or any(sorted(r.tolist()) != [0, 1, 2, 3] for r in t1):
            ctx.fail("table is not 4^k rows of permutations of 0..3", k=k, seed=seed)
        if not (np.array_equal(t1, t2) and np.array_equal(t1, t3)):
            ctx.fail("same seed gives different tables", k=k, seed=seed)
        # the same seed handed over as a NumPy integer (what a seed taken from an array is): still a seed
        np_seed = rng.choice([np.int64, np.int32, np.uint32, np.uint64])(seed)
        st4, t4 = proto.guarded(lambda: SW.create_random_shuffles(k, random_seed=np_seed))
        st5, t5 = proto.guarded(lambda: SW.create_random_shuffles(k, random_seed=np_seed))
        if st4 != "ok" or st5 != "ok" or not np.array_equal(t4, t5) or not np.array_equal(t4, t1):
            ctx.fail("the same seed given as a NumPy integer does not reproduce the table", k=k, seed=seed,
                     seed_type=type(np_seed).__name__)
        for n, v in snap.items():
            if not _same_value(vars(SW).get(n), v):
                ctx.fail("module-level state changed by create_random_shuffles", name=n)
        ctx.case("shuf %d %d" % (k, seed), not np.array_equal(t1, other), "table")
        # the table is a function of (k, seed) in the model too: MT19937 seeded once + NumPy's legacy shuffle
        # (Model/Shuffle.lean); compared entry by entry with what NumPy produced
        o = ctx.corr("shuf %d %d" % (k, seed))
        if o != "ok " + "".join(str(int(x)) for x in t1.reshape(-1)):
            ctx.fail("table differs between two calls with the same seed", k=k, seed=seed, observed=o[:80])
    for seed in (0, 1, 2021, 2 ** 31, 2 ** 32 - 2, 2 ** 32 - 1, 2 ** 32, 2 ** 40 + rng.randrange(1000)):
        ctx.corr("shuf %d %d" % (rng.choice([1, 2, 3]), seed))


# =============================================================================== C19
def C19(ctx):
    rng = ctx.rng
    for it in range(ctx.n(40, 800)):
        k = rng.choice([2, 2, 3] if not ctx.thorough else [2, 3, 3, 4])
        g, t = gen.rand_coding_graph(rng, k, t=rng.choice([1, 2, 2]))
        if rng.random() < 0.45:
            # arbitrary arc subsets: arcs into dead-end vertices, vertices without arcs (what a removal history produces late)
            g = gen.rand_arc_subset(rng, k, rng.choice([0.35, 0.5, 0.7]))
        ins, dele = rng.randrange(2), rng.randrange(2)
        if rng.random() < 0.12:
            # only out-degrees 0/1 and both flags off: every score is 0 (the call raises after updating)
            g = gen.Graph(k, [rng.choice([0, 1, 2, 4, 8]) for _ in range(4 ** k)])
            ins = dele = 0
        acc = np.array(g.rows(), dtype=int)
        lm = {u: [succ(u, j, k) for j in g.live(u)] for u in g.vertices()}
        steps = 0
        maxsteps = rng.choice([1, 3, 10, 60 if ctx.thorough else (25 if k == 2 else 12)])
        if k >= 4:
            maxsteps = min(maxsteps, 4)      # scoring an order-4 graph is slow in the real code
        while steps < maxsteps:
            a_tok, l_tok = proto.enc_acc(acc), proto.enc_lmap(lm)
            sc_txt = ctx.corr("cis %s %d %d %d" % (l_tok, k, ins, dele))
            scores = [[int(x) for x in r.split(",")] for r in sc_txt.split(";")]
            if len(scores) != 4 ** k or any(len(r) != 4 for r in scores):
                ctx.fail("scores do not have the accessor's shape", k=k)
            for u in range(4 ** k):
                for j in range(4):
                    if scores[u][j] > 0 and acc[u][j] < 0:
                        ctx.fail("positive score on a missing arc", acc=a_tok, u=u, j=j)
            key = "rna %s %s %d %d" % (a_tok, l_tok, ins, dele)
            out = ctx.corr(key)
            r = parse_ok(out)
            if r is None:
                break
            before = acc.copy()
            res = SW.remove_nasty_arc(acc, lm, has_insertion=bool(ins), has_deletion=bool(dele))
            acc2, lm2, (f, l), _ = res
            changed = [(u, j) for u in range(4 ** k) for j in range(4) if before[u][j] != acc2[u][j]]
            if len(changed) != 1 or before[changed[0]] < 0 or acc2[changed[0]] != -1:
                ctx.fail("call did not remove exactly one existing arc", line=key, changed=[list(c) for c in changed])
            else:
                u, j = changed[0]
                if (int(f), int(l)) != (u, int(before[u][j])):
                    ctx.fail("reported arc is not the removed one", line=key)
                mx = max(max(r_) for r_ in scores)
                if scores[u][j] != mx:
                    ctx.fail("removed arc does not have the maximum intersection score", line=key, score=scores[u][j], maximum=mx)
                # the same against a reference scorer written from the description, not from the library's code
                lm_before = proto.dec_lmap(l_tok)
                ref = oracle.intersection_scores(lm_before, k, bool(ins), bool(dele))
                rmx = max(ref.values()) if ref else 0
                if ref.get((u, j), 0) != rmx:
                    ctx.fail("removed arc does not have the maximum intersection score (reference scorer)", line=key,
                             score=ref.get((u, j), 0), maximum=rmx)
            lm_chk = GZ.accessor_to_latter_map(acc2)
            if {int(a): [int(x) for x in b] for a, b in lm_chk.items()} != {int(a): [int(x) for x in b] for a, b in lm2.items()}:
                ctx.fail("accessor and latter map describe different graphs after the call", line=key)
            acc, lm = acc2, lm2
            steps += 1
        ctx.case("hist %s %d %d %d" % (g.token(), ins, dele, steps), steps >= 2, "len=%d" % min(steps, 12), "k=%d" % k)


# =============================================================================== C20
def snapshot(x):
    if isinstance(x, np.ndarray):
        return ("nd", str(x.dtype), x.shape, x.tobytes(), x.flags.writeable)
    if isinstance(x, dict):
        return ("dict", tuple((snapshot(k), snapshot(v)) for k, v in x.items()))
    if isinstance(x, (list, tuple)):
        return (type(x).__name__, tuple(snapshot(v) for v in x))
    if isinstance(x, BF.DefaultBioFilter):
        # instance state and the data attributes of its classes (state shared between instances lives there)
        cls_state = []
        for c in type(x).__mro__:
            if c is object:
                continue
            cls_state += [(c.__name__ + "." + k, repr(v)) for k, v in vars(c).items()
                          if not k.startswith("__") and not callable(v) and not isinstance(v, (staticmethod, classmethod, property))]
        return ("flt", snapshot(sorted((k, repr(v)) for k, v in vars(x).items())), snapshot(sorted(cls_state)))
    return ("v", repr(x))


def canon(x):
    if isinstance(x, np.ndarray):
        return ("nd", x.tolist())
    if isinstance(x, (np.integer,)):
        return int(x)
    if isinstance(x, (np.floating, float)):
        return round(float(x), 9)
    if isinstance(x, (np.bool_,)):
        return bool(x)
    if isinstance(x, dict):
        return ("dict", [(canon(k), canon(v)) for k, v in x.items()])
    if isinstance(x, (list, tuple)):
        return (type(x).__name__, [canon(v) for v in x])
    return x


def C20(ctx):
    rng = ctx.rng
    import copy
    # progress output on DEGENERATE sizes (nothing to iterate over): turning it on must not raise nor change the result
    if ctx.part == 0:
        g0 = gen.complete(2)
        A0 = np.array(g0.rows(), dtype=int)
        empty = np.array([], dtype=int)
        degenerate = {
            "capacity, maximum_iteration=0": lambda vb: GZ.approximate_capacity(A0, maximum_iteration=0, verbose=vb),
            "capacity, maximum_iteration=1": lambda vb: GZ.approximate_capacity(A0, maximum_iteration=1, verbose=vb),
            "encode, empty message": lambda vb: SW.encode(empty, A0, 1, verbose=vb),
            "encode fast, empty message": lambda vb: SW.encode(empty, A0, 1, is_faster=True, verbose=vb),
            "decode, empty strand, 0 bits": lambda vb: SW.decode("", 0, A0, 1, verbose=vb),
            "decode fast, empty strand, 0 bits": lambda vb: SW.decode("", 0, A0, 1, is_faster=True, verbose=vb),
            "bit_to_number, empty": lambda vb: OP.bit_to_number([], verbose=vb),
            "accessor_to_latter_map, no arcs": lambda vb: GZ.accessor_to_latter_map(-np.ones((16, 4), dtype=int), verbose=vb),
            "latter_map_to_accessor, empty map": lambda vb: GZ.latter_map_to_accessor({}, 2, verbose=vb),
            "complete accessor, k=1": lambda vb: GZ.get_complete_accessor(1, verbose=vb),
        }
        for name, fn in degenerate.items():
            quiet = proto.guarded(lambda: canon(fn(False)), 60)
            with contextlib.redirect_stdout(io.StringIO()):
                loud = proto.guarded(lambda: canon(fn(True)), 60)
            if quiet != loud:
                ctx.fail("turning progress output on changes the result or raises (degenerate size)", call=name,
                         quiet=str(quiet)[:200], verbose=str(loud)[:200])
            ctx.case("verbose-degenerate " + name, True, "verbose-degenerate")
        # COLD START: a call made first thing in a fresh interpreter must give what the model says (a call that only works
        # after some other call has warmed up process-wide state fails here)
        import subprocess
        cold = ["n2b %s 140" % ("7" * 41), "n2d %s 70" % ("3" * 40), "div %s 4" % ("9" * 60), "d2n %s" % ("ACGT" * 20),
                "n2b 1%s 200" % ("0" * 45), "mul %s 4" % ("8" * 50), "sub 1%s 3" % ("0" * 40), "add %s 9" % ("9" * 35)]
        for line in cold:
            code = "import sys; sys.path.insert(0, %r); import proto; print(proto.run_impl(%r))" % (os.path.dirname(os.path.abspath(__file__)), line)
            try:
                pr = subprocess.run([sys.executable, "-c", code], capture_output=True, text=True, timeout=120, env=dict(os.environ))
                fresh = pr.stdout.strip().split("\n")[-1] if pr.returncode == 0 else "err CRASH " + pr.stderr[-200:]
            except Exception as ex:  # noqa
                fresh = "err " + type(ex).__name__
            here = ctx.corr(line)
            if fresh != here:
                ctx.fail("a call made first thing in a fresh process returns something else than inside this process",
                         line=line, fresh_process=fresh[:200], in_history=here[:200])
            ctx.case("cold " + line, True, "cold-start")
    # messages whose raw buffers coincide although they are different messages (an int64 [1, 0] and the uint8 / int32 / bool
    # message with the same bytes): one after the other in one process
    for it in range(ctx.n(20, 300)):
        n_ = rng.choice([1, 2, 3])
        a_bits = [rng.randrange(2) for _ in range(n_)]
        a_bits[0] = 1
        first = np.array(a_bits, dtype=np.int64)
        raw = first.tobytes()
        for dt in (np.uint8, np.int32, np.int16):      # (a BOOLEAN array is not a bit array of the library: str(True) is not a digit)
            second = np.frombuffer(raw, dtype=dt).copy()
            if not all(int(x) in (0, 1) for x in second):
                continue
            for msg in (first, second, first.tolist(), [int(x) for x in second], first, second):
                key = "b2n " + proto.enc_bits([int(x) for x in msg])
                st, got_s = proto.guarded(lambda: OP.bit_to_number(msg, is_string=True))
                st2, got_i = proto.guarded(lambda: OP.bit_to_number(msg, is_string=False))
                val = int("".join(str(int(x)) for x in msg), 2)
                if st != "ok" or st2 != "ok" or str(got_s) != str(val) or int(got_i) != val:
                    ctx.fail("bit_to_number depends on what was converted before (messages with coinciding raw buffers)",
                             message=[int(x) for x in msg][:40], dtype=str(getattr(msg, "dtype", type(msg).__name__)),
                             observed=str((got_s, got_i))[:120], expected=val)
            ctx.case("byte-coincidence %s %s" % (a_bits, np.dtype(dt).name), True, "coinciding-buffers")
    # results that could be assembled from recycled memory: a fast-mode decode asked for MORE bits than the strand carries
    # (a truncated read), repeated after calls that left all-one / all-zero buffers of the same size behind
    for it in range(ctx.n(25, 400)):
        k = rng.choice([1, 2, 2, 3])
        g = gen.complete(k) if rng.random() < 0.5 else gen.rand_coding_graph(rng, k, t=2)[0]
        vs = [x for x in g.vertices() if not g.has_deg3_from(x)]
        if not vs:
            continue
        v = rng.choice(vs)
        A = np.array(g.rows(), dtype=int)
        L = rng.choice([8, 16, 24, 64, 200, 1000])
        ones = np.ones(L, dtype=int)
        full = SW.encode(ones, A, v, is_faster=True)
        cut = full[:rng.randrange(0, max(1, len(full)))]
        line = "dec %s - %d %s %d 1 None" % (g.token(), v, tok(cut), L)
        results = []
        for rep in range(3):
            st, r_ = proto.guarded(lambda: SW.decode(cut, L, A, v, is_faster=True))
            results.append((st, None if st != "ok" else [int(x) for x in r_]))
            # leave garbage of the same size behind
            filler = rng.choice([ones, np.zeros(L, dtype=int)])
            proto.guarded(lambda: SW.decode(SW.encode(filler, A, v, is_faster=True), L, A, v, is_faster=True))
            junk = [np.full(L, 7, dtype=int) for _ in range(4)]
            del junk
        if any(r_ != results[0] for r_ in results):
            ctx.fail("the same fast-mode decode call returns different bits depending on what ran before it", line=line,
                     observed=str(results)[:400])
        ctx.corr(line)
        ctx.case("truncated-fast " + line, True, "truncated-fast-decode")
    for it in range(ctx.n(40, 1500)):
        k = rng.choice([2, 2, 3])
        g, t = gen.rand_coding_graph(rng, k)
        vs = g.vertices()
        v = rng.choice(vs)
        shared = {
            "acc": np.array(g.rows(), dtype=int),
            "bits": np.array(gen.rand_bits(rng, 24) or [1, 0, 1], dtype=int),
            "tbl": np.array(gen.rand_table(rng, k, "random"), dtype=int),
            "mask": np.array(gen.rand_mask(rng, k, 0.8), dtype=rng.choice([int, bool])),
            "lm": {u: [succ(u, j, k) for j in g.live(u)] for u in vs},
            "flt": mk(k, rng.choice([None, 2]), rng.choice([None, [0.25, 0.75]]), None),
        }
        # the shared filter's own configuration (kept to judge its answers with the documented predicate)
        f_cfg = (rng.choice([None, 2]), rng.choice([None, [0.25, 0.75]]),
                 rng.choice([None, None, ["GC"], ["AT", "CG"], ["TTA"], ["A" * k], [gen.rand_dna(rng, min(k, 2))]]))
        fit = lambda ms: None if ms is None else ([m for m in ms if 0 < len(m) <= k] or None)
        f_cfg = (f_cfg[0], f_cfg[1], fit(f_cfg[2]))
        shared["flt"] = mk(k, *f_cfg)
        probe = "".join(rng.choice(["GC", "AT", "CG", "TTA", "TAA", "ACGT", gen.rand_dna(rng, 3)]) for _ in range(6))
        other_cfgs = [(rng.choice([None, 1, 2]), rng.choice([None, [0.25, 0.75], [0.5, 0.5]]),
                       rng.choice([None, ["GC"], ["AT"], ["CG", "TTA"], [gen.rand_dna(rng, min(k, 2))], [probe[2:2 + min(k, 3)]]]))
                      for _ in range(3)]
        other_cfgs = [(a, b_, fit(c)) for a, b_, c in other_cfgs]
        fast = not g.has_deg3_from(v) and rng.random() < 0.4
        strand = SW.encode(shared["bits"].copy(), shared["acc"].copy(), v, is_faster=fast, shuffles=shared["tbl"].copy())
        A, B, T_, M, LM, F = (shared[x] for x in ("acc", "bits", "tbl", "mask", "lm", "flt"))
        noisy = strand
        if len(noisy) > 2:
            noisy = gen.apply_edit(noisy, gen.rand_edit(rng, noisy))
        calls = {
            "encode": (lambda vb=False: SW.encode(B, A, v, is_faster=fast, shuffles=T_, vt_length=3, verbose=vb),
                       "enc %s %s %d %s %d 3" % (g.token(), proto.enc_tbl(T_), v, proto.enc_bits(B), int(fast))),
            "decode": (lambda vb=False: SW.decode(strand, len(B), A, v, is_faster=fast, shuffles=T_, verbose=vb),
                       "dec %s %s %d %s %d %d None" % (g.token(), proto.enc_tbl(T_), v, tok(strand), len(B), int(fast))),
            "repair": (lambda vb=False: SW.repair_dna(noisy + "ACGT" * k, A, v, k, has_indel=True, heap_size=1000),
                       rep_line(g, noisy + "ACGT" * k, v, "None", 1, 1000)),
            "set_vt": (lambda vb=False: SW.set_vt(strand, 4), "vt %s 4" % tok(strand)),
            "to_lmap": (lambda vb=False: GZ.accessor_to_latter_map(A, verbose=vb), "a2l " + g.token()),
            "to_acc": (lambda vb=False: GZ.latter_map_to_accessor(LM, k, verbose=vb), "l2a %s %d -" % (proto.enc_lmap(LM), k)),
            "to_acc_t": (lambda vb=False: GZ.latter_map_to_accessor(LM, k, threshold=2, verbose=vb),
                         "l2a %s %d 2" % (proto.enc_lmap(LM), k)),
            "to_matrix": (lambda vb=False: GZ.accessor_to_adjacency_matrix(A, verbose=vb), "a2m " + g.token()),
            "vertices": (lambda vb=False: GZ.obtain_vertices(A), "verts " + g.token()),
            "leaf": (lambda vb=False: GZ.obtain_leaf_vertices(v, 2, accessor=A), "leafa %s %d 2" % (g.token(), v)),
            "scores": (lambda vb=False: GZ.calculate_intersection_score(LM, observed_length=k, verbose=vb),
                       "cis %s %d 1 1" % (proto.enc_lmap(LM), k)),
            "capacity": (lambda vb=False: GZ.approximate_capacity(A, verbose=vb), None),
            "valid_graph": (lambda vb=False: SW.connect_valid_graph(k, M, verbose=vb), None),
            "coding_graph": (lambda vb=False: SW.connect_coding_graph(k, M, rng_t, verbose=vb), None),
            "find": (lambda vb=False: SW.find_vertices(k, F, verbose=vb), None),
            "bits2num": (lambda vb=False: OP.bit_to_number(B, verbose=vb), "b2n " + proto.enc_bits(B)),
            "shuffles": (lambda vb=False: SW.create_random_shuffles(k, random_seed=77, verbose=vb), None),
            "remove_useless": (lambda vb=False: GZ.remove_useless(LM, 2, verbose=vb), "rmu %s 2" % proto.enc_lmap(LM)),
        }
        rng_t = rng.choice([1, 2])
        calls["encode_path"] = (lambda vb=False: SW.encode(B, A, v, is_faster=fast, shuffles=T_, need_path=True, verbose=vb), None)
        calls["encode_path_vt"] = (lambda vb=False: SW.encode(B, A, v, is_faster=fast, vt_length=4, need_path=True, verbose=vb), None)

        def pipeline_rmu(vb=False):
            # results of one call are handed to the documented in-place call; the ORIGINAL arguments
            # must not change (a result that shares storage with an argument breaks this)
            lm2 = GZ.remove_useless(LM, 1, verbose=vb)
            acc2 = GZ.latter_map_to_accessor(lm2, k, verbose=vb)
            try:
                SW.remove_nasty_arc(acc2, lm2)
            except (ValueError, IndexError):
                pass
            return "done"

        def pipeline_a2l(vb=False):
            lm3 = GZ.accessor_to_latter_map(A, verbose=vb)
            acc3 = GZ.latter_map_to_accessor(lm3, k, verbose=vb)
            try:
                SW.remove_nasty_arc(acc3, lm3)
                SW.remove_nasty_arc(acc3, lm3)
            except (ValueError, IndexError):
                pass
            return "done"

        def pipeline_ccg(vb=False):
            vs_, acc4 = SW.connect_coding_graph(k, M, rng_t, verbose=vb)
            lm4 = GZ.accessor_to_latter_map(acc4)
            try:
                SW.remove_nasty_arc(acc4, lm4)
            except (ValueError, IndexError):
                pass
            return "done"
        def removal(vb=False):
            a5, l5 = A.copy(), {x: list(y) for x, y in LM.items()}
            r = SW.remove_nasty_arc(a5, l5, iteration=rng_t - 1, verbose=vb)
            return r[0], r[1], r[2], r[3]
        calls["removal"] = (removal, None)
        calls["complete"] = (lambda vb=False: GZ.get_complete_accessor(k, verbose=vb), "complete %d" % k)
        # several filters alive in one process: building another filter is a library call like any other and
        # must not change what an existing filter answers
        calls["valid"] = (lambda vb=False: bool(F.valid(probe, only_last=False)), None)
        calls["valid_last"] = (lambda vb=False: bool(F.valid(probe[:k + 1])), None)
        for oi, oc in enumerate(other_cfgs):
            calls["new_filter%d" % oi] = (lambda vb=False, oc=oc: bool(mk(k, *oc).valid(probe, only_last=False)), None)
        calls["from_matrix"] = (lambda vb=False: GZ.adjacency_matrix_to_accessor(
            GZ.accessor_to_adjacency_matrix(A), verbose=vb), None)
        calls["bits2int"] = (lambda vb=False: OP.bit_to_number(B, is_string=False, verbose=vb), None)
        calls["capacity_multi"] = (lambda vb=False: (np.random.seed(5), GZ.approximate_capacity(A, repeats=3, process=True, verbose=vb))[1], None)
        calls["capacity_arcless"] = (lambda vb=False: GZ.approximate_capacity(-np.ones((4 ** k, 4), dtype=int), repeats=rng_t, process=True, verbose=vb), None)
        calls["pipeline_rmu"] = (pipeline_rmu, None)
        calls["pipeline_a2l"] = (pipeline_a2l, None)
        calls["pipeline_ccg"] = (pipeline_ccg, None)
        # a second shared latter map, from an arbitrary arc subset (dead-end successors included)
        g2 = gen.rand_arc_subset(rng, k, 0.45)
        shared["lm2"] = {u: [succ(u, j, k) for j in g2.live(u)] for u in g2.vertices()}
        LM2 = shared["lm2"]
        v2 = rng.choice(g2.vertices() or [0])
        calls["leaf_lm"] = (lambda vb=False: GZ.obtain_leaf_vertices(v2, 3, latter_map=LM2),
                            "leafl %s %d 3" % (proto.enc_lmap(LM2), v2))
        calls["scores_lm2"] = (lambda vb=False: GZ.calculate_intersection_score(LM2, observed_length=k, verbose=vb),
                               "cis %s %d 1 1" % (proto.enc_lmap(LM2), k))
        # isolated results on private deep copies, computed first
        iso = {}
        for name in calls:
            priv = copy.deepcopy(shared)
            A, B, T_, M, LM, F, LM2 = (priv[x] for x in ("acc", "bits", "tbl", "mask", "lm", "flt", "lm2"))
            iso[name] = proto.guarded(lambda: canon(calls[name][0]()), 60)
        A, B, T_, M, LM, F, LM2 = (shared[x] for x in ("acc", "bits", "tbl", "mask", "lm", "flt", "lm2"))
        # the filter answers are also judged by the documented predicate (independent of process state)
        refs = {"valid": oracle.filter_ref(k, f_cfg[0], f_cfg[2], f_cfg[1], probe),
                "valid_last": oracle.filter_ref(k, f_cfg[0], f_cfg[2], f_cfg[1], probe[:k + 1][-k:]),
                "find": [int(oracle.filter_ref(k, f_cfg[0], f_cfg[2], f_cfg[1], gen.kmer(x, k))) for x in range(4 ** k)]}
        for oi, oc in enumerate(other_cfgs):
            refs["new_filter%d" % oi] = oracle.filter_ref(k, oc[0], oc[2], oc[1], probe)
        hist = [rng.choice(list(calls)) for _ in range(rng.choice([3, 5, 8, 12 if ctx.thorough else 8]))]
        if rng.random() < 0.5:
            hist += [rng.choice(["new_filter0", "new_filter1", "new_filter2"]), rng.choice(["valid", "find", "valid_last"])]
        for name in hist:
            before = {n: snapshot(x) for n, x in shared.items()}
            verbose = rng.random() < 0.4
            buf = io.StringIO()
            np.random.seed(12345 + len(name))
            rng_before = snapshot(list(np.random.get_state()))
            with contextlib.redirect_stdout(buf):
                got = proto.guarded(lambda: canon(calls[name][0](verbose)), 60)
            if name not in ("shuffles", "capacity_multi") and snapshot(list(np.random.get_state())) != rng_before:
                # only the two randomised calls may draw from (or reseed) NumPy's global generator: a deterministic call that
                # advances it changes what a LATER randomised call returns for the same seed
                ctx.fail("a deterministic call changed the state of NumPy's global random generator", call=name, history=hist)
            if got != iso[name]:
                ctx.fail("call in a history returns something else than the same call on fresh equal arguments"
                         + (" (verbose on)" if verbose else ""), call=name, history=hist, observed=str(got)[:300],
                         expected=str(iso[name])[:300])
            if name in refs and got[0] == "ok":
                exp = refs[name]
                val = got[1]
                if name == "find":
                    val = [int(x) for x in val[1]] if isinstance(val, tuple) and val and val[0] == "nd" else val
                if val != exp and not (name == "find" and not any(exp)):
                    ctx.fail("filter answer in a history differs from the documented predicate of its own configuration",
                             call=name, history=hist, k=k, config=str(f_cfg if not name.startswith("new_filter") else other_cfgs[int(name[-1])]),
                             probe=probe, observed=str(val)[:200], expected=str(exp)[:200])
            after = {n: snapshot(x) for n, x in shared.items()}
            for n in shared:
                if before[n] != after[n]:
                    ctx.fail("argument modified by a call", call=name, argument=n, history=hist)
            if calls[name][1] is not None:
                ctx.corr(calls[name][1])
        ctx.case("hist %s %s" % (g.token(), ",".join(hist)), len(hist) >= 3, "len=%d" % len(hist))
