import DswModel.Model.Basic
/-!
# DswModel.Model.Shuffle — `create_random_shuffles` with NumPy's seeded generator inside the model

`dsw.spiderweb.create_random_shuffles(observed_length, random_seed)` does

```
shuffles = 4^k rows [0,1,2,3]
numpy.random.seed(random_seed)
for index in range(4 ** k): numpy.random.shuffle(shuffles[index])
numpy.random.seed(None)
```

`numpy.random.seed` / `numpy.random.shuffle` are methods of the global legacy `RandomState`, whose
bit generator is MT19937. What NumPy (2.x, `numpy/random/mtrand.pyx`, `_mt19937.pyx`,
`src/mt19937/mt19937.c`, `src/distributions/distributions.c`) does, and what is modelled here:

* `seed(int)`: `_legacy_seeding`: an integer outside `0 … 2^32-1` raises `ValueError`; otherwise
  `mt19937_seed`: `key[0] = seed`, `key[i] = 1812433253 * (key[i-1] ^ (key[i-1] >> 30)) + i`
  (mod 2^32), `pos = 624` (the first draw regenerates the block).
* `next_uint32`: when `pos = 624` run `mt19937_gen` (the in-place twist of all 624 words) and set
  `pos = 0`; then temper `key[pos++]`.
* `shuffle(x)` for a 1-D `ndarray`: `_shuffle_raw`: `for i in reversed(range(1, n)):
  j = random_interval(i); swap x[i], x[j]`.
* `random_interval(max)` for `0 < max ≤ 0xffffffff`: `mask` = smallest `2^b - 1 ≥ max`; draw 32-bit
  outputs `& mask` until the value is `≤ max`. (For a row of four entries: one draw for `i = 3`
  (mask 3), one or more for `i = 2` (mask 3, value 3 rejected), one for `i = 1` (mask 1).)

All rows are shuffled consecutively from the ONE generator state seeded at the beginning, so the
table is a pure function of `(k, seed)`. `random_seed=None` (seed from OS entropy) is outside this
model. The final `numpy.random.seed(None)` only re-randomises the global generator and has no
effect on the returned table.

Words are `Nat`s kept below `2^32` by explicit `% 2^32` (kernel-evaluable: every loop is
structural). Core Lean only.
-/
namespace Dsw

namespace MT

/-- `2^32`. -/
def W : Nat := 4294967296

/-- state length `N` and middle offset `M` of MT19937. -/
def N : Nat := 624
def M : Nat := 397

/-- `mt19937_state`: `key` (624 words) and `pos` (next word to temper; `624` = block exhausted). -/
structure State where
  key : Array Nat
  pos : Nat
deriving Repr, BEq, DecidableEq

/-- the words `key[i], key[i+1], …` (`n` of them) of `init_genrand`, `w = key[i]`. -/
def seedWords : Nat → Nat → Nat → List Nat
  | 0, _, _ => []
  | n + 1, i, w => w :: seedWords n (i + 1) ((1812433253 * (w ^^^ (w >>> 30)) + (i + 1)) % W)

/-- `mt19937_seed(state, seed)` (`seed &= 0xffffffff` is the `% W`; callers pass `seed < 2^32`). -/
def init (seed : Nat) : State := { key := ⟨seedWords N 0 (seed % W)⟩, pos := N }

/-- one word of the twist: `y = (a & UPPER) | (b & LOWER)`; `m ^ (y >> 1) ^ (-(y & 1) & MATRIX_A)`. -/
def twistWord (a b m : Nat) : Nat :=
  let y := (a &&& 0x80000000) ||| (b &&& 0x7fffffff)
  m ^^^ (y >>> 1) ^^^ (if y % 2 = 1 then 0x9908b0df else 0)

/-- a run of consecutive twist steps: `as` = the words `key[i] …`, `bs` = `key[i+1] …`,
`ms` = the words `key[(i+M) % N] …`; stops with the shortest list. -/
def twistSeg : List Nat → List Nat → List Nat → List Nat
  | a :: as, b :: bs, m :: ms => twistWord a b m :: twistSeg as bs ms
  | _, _, _ => []

/-- `mt19937_gen`: the in-place regeneration of the block,
`key[i] = twist(key[i], key[(i+1) % N], key[(i+M) % N])` for `i = 0 … N-1` in this order, written
as a function of the old block `o` (every step reads `key[i]`, `key[i+1]` before they are
overwritten, i.e. OLD words, except the wrap-around `key[0]` of the last step):
* first C loop, `0 ≤ i < N-M = 227`: `key[i+M]` is still an old word:
  `n₁ = new[0 … 226]` from `o[i]`, `o[i+1]`, `o[i+397]`;
* second C loop, `227 ≤ i < N-1 = 623`: `key[i+M-N] = key[i-227]` is already a NEW word:
  `n₂ = new[227 … 453]` from `o[i]`, `o[i+1]`, `n₁[i-227]`, then
  `n₃ = new[454 … 622]` from `o[i]`, `o[i+1]`, `n₂[i-454]` (169 words: `o[i+1]` runs out first);
* last word: `new[623] = twist(o[623], new[0], new[M-1] = new[396] = n₂[169])`.
(Linear time, so that the kernel can evaluate it; compared word by word with NumPy's stream.) -/
def gen (key : Array Nat) : Array Nat :=
  let o := key.toList
  let n₁ := twistSeg o (o.drop 1) (o.drop M)
  let n₂ := twistSeg (o.drop (N - M)) (o.drop (N - M + 1)) n₁
  let n₃ := twistSeg (o.drop (2 * (N - M))) (o.drop (2 * (N - M) + 1)) n₂
  let last := twistWord (o.getD (N - 1) 0) (n₁.getD 0 0) (n₂.getD (M - 1 - (N - M)) 0)
  ⟨n₁ ++ (n₂ ++ (n₃ ++ [last]))⟩

/-- the tempering of an output word. -/
def temper (y : Nat) : Nat :=
  let y := y ^^^ (y >>> 11)
  let y := y ^^^ ((y <<< 7) &&& 0x9d2c5680)
  let y := y ^^^ ((y <<< 15) &&& 0xefc60000)
  y ^^^ (y >>> 18)

/-- `mt19937_next`: the next tempered 32-bit output and the new state. -/
def next (s : State) : Nat × State :=
  let s := if s.pos ≥ N then { key := gen s.key, pos := 0 } else s
  (temper s.key[s.pos]!, { s with pos := s.pos + 1 })

end MT

/-- `numpy.random.seed(seed)` for an integer `seed`: `ValueError` outside `0 … 2^32-1`
(negative integers are not representable here; they raise the same `ValueError`). -/
def mtSeed (seed : Nat) : R MT.State :=
  if seed < MT.W then .ok (MT.init seed) else .error .valueError

/-- the next tempered 32-bit output of the generator. -/
def mtNext (s : MT.State) : Nat × MT.State := MT.next s

/-- smallest `2^b - 1 ≥ max` (`mask |= mask >> 1; … ; mask |= mask >> 32` in C). -/
def intervalMask (max : Nat) : Nat := 2 ^ max.log2.succ - 1

/-- fuel of the rejection loop of `random_interval`. Every draw is accepted with probability
`> 1/2`, so running out would need `rejectFuel` consecutive rejected outputs of MT19937
(probability `< 2^-rejectFuel`); this is unreachable in practice (the harness compares against
NumPy). On exhaustion the model returns `0`, which is still an index `≤ max`: every theorem about
the table holds regardless. -/
def rejectFuel : Nat := 256

/-- the rejection loop `while ((value = next_uint32() & mask) > max);` over an arbitrary word
source `nxt`. -/
def rejectLoop {σ : Type} (nxt : σ → Nat × σ) (mask max : Nat) : Nat → σ → Nat × σ
  | 0, s => (0, s)
  | fuel + 1, s =>
    let (w, s') := nxt s
    let v := w &&& mask
    if v ≤ max then (v, s') else rejectLoop nxt mask max fuel s'

/-- NumPy's legacy `random_interval(max)` for `max ≤ 0xffffffff`: uniform on `0 … max`.
`max = 0` returns `0` without drawing. -/
def randomIntervalWith {σ : Type} (nxt : σ → Nat × σ) (s : σ) (max : Nat) : Nat × σ :=
  if max = 0 then (0, s) else rejectLoop nxt (intervalMask max) max rejectFuel s

def randomInterval (s : MT.State) (max : Nat) : Nat × MT.State := randomIntervalWith mtNext s max

/-- `for i in reversed(range(1, i0 + 1)): j = draw(i); swap x[i], x[j]` for an arbitrary source of
indices `draw`. (`swapIfInBounds`: with `j ≤ i < len(x)` the swap is always in bounds.) -/
def shuffleLoop {σ : Type} (draw : σ → Nat → Nat × σ) : Nat → σ → Array Nat → Array Nat × σ
  | 0, s, x => (x, s)
  | i + 1, s, x =>
    let (j, s') := draw s (i + 1)
    shuffleLoop draw i s' (x.swapIfInBounds (i + 1) j)

/-- the legacy in-place `shuffle` of a 1-D array for an arbitrary source of indices. -/
def shuffleWith {σ : Type} (draw : σ → Nat → Nat × σ) (s : σ) (x : List Nat) : List Nat × σ :=
  let r := shuffleLoop draw (x.length - 1) s x.toArray
  (r.1.toList, r.2)

/-- `n` more rows `[0,1,2,3]`, shuffled one after the other from the same source, appended to `acc`
(the loop `for index in range(4 ** k)`). -/
def shuffleRowsWith {σ : Type} (draw : σ → Nat → Nat × σ) :
    Nat → σ → Array (List Nat) → Array (List Nat) × σ
  | 0, s, acc => (acc, s)
  | n + 1, s, acc =>
    let (row, s') := shuffleWith draw s [0, 1, 2, 3]
    shuffleRowsWith draw n s' (acc.push row)

/-- `numpy.random.shuffle(x)` on the MT19937 state. -/
def npShuffle (s : MT.State) (x : List Nat) : List Nat × MT.State := shuffleWith randomInterval s x

/-- `create_random_shuffles(observed_length = k, random_seed = seed)` for an integer seed: the
table as a pure function of `(k, seed)`. (Named `…Seeded`: `createRandomShuffles` in
`Model/Spiderweb` is the same table builder with the row shuffle as a parameter.) -/
def createRandomShufflesSeeded (k : Nat) (seed : Nat) : R (List (List Nat)) := do
  let s ← mtSeed seed
  pure (shuffleRowsWith randomInterval (4 ^ k) s #[]).1.toList

end Dsw
