import DswModel.Model.Graphized
import DswModel.Model.Float
import DswModel.Model.Shuffle
/-!
# dsw/graphized.py — `approximate_capacity` in DOUBLE PRECISION, operation by operation

`Model/Capacity.lean` runs the power iteration over exact rationals (that is what the convergence theorems of C17 are
about). This file models what the code actually computes: every `+`, `-`, `/` of the NumPy expressions is the exact
rational operation followed by `roundDouble` (`Model/Float.lean`, proved to be IEEE-754 round-to-nearest-even in
`Props/FloatSpec.lean`), in the order the code performs them:

    eigenvector = zeros_like(last)                       # 0.0
    for positions in accessor.T:                         # columns A, C, G, T in this order
        eigenvector[available] += last[positions[available]]
    eigenvalue = max(eigenvector)
    eigenvector = eigenvector / eigenvalue               # (or * 0.0)
    relative_error = abs(eigenvalue - last_eigenvalue) / last_eigenvalue
    max(abs(eigenvector - last_eigenvector)) < 10 ** tolerance_level
    median(queue)                                        # mean of the two middle values: (a + b) / 2

Comparisons of doubles are exact. `log2` (libm) and the final `median` of the logarithms are NOT modelled: the model
returns the eigenvalue estimates, the harness applies the same `numpy.log2` / `numpy.median` to them and then demands
bit-for-bit equality with what the code returned (`capf` operation). The start vectors and the tolerance
`10 ** tolerance_level` are parameters (doubles, as exact fractions).
`none` = out of fuel or a non-finite intermediate result — for start vectors in `[0, 1]` neither happens
(`C17F_total`); the one quotient that can leave the binary64 range, the relative error, is handled like NumPy's `inf`.
-/
namespace Dsw

abbrev VecF := Array Dbl

def Dbl.zero : Dbl := ⟨0, 1⟩
def Dbl.lt (x y : Dbl) : Bool := decide (x.num * y.den < y.num * x.den)
def Dbl.le (x y : Dbl) : Bool := decide (x.num * y.den ≤ y.num * x.den)
def Dbl.maxD (x y : Dbl) : Dbl := if Dbl.lt x y then y else x
def Dbl.abs (x : Dbl) : Dbl := ⟨x.num.natAbs, x.den⟩

/-- `x / y` in double precision for `y ≠ 0`. -/
def Dbl.div (x y : Dbl) : Option Dbl :=
  if y.num = 0 then none
  else if y.num > 0 then roundDouble (x.num * y.den) (x.den * y.num.toNat)
  else roundDouble (-(x.num * y.den)) (x.den * (-y.num).toNat)

/-- sum of the entries of `x` at the live successors of `v`, added one by one in column order starting from `0.0`. -/
def rowSumF (a : Acc) (x : VecF) (v : Nat) : Option Dbl :=
  (a.liveEntries (v : Int)).foldl (fun s w => s.bind fun s => Dbl.add s (x.getD w Dbl.zero)) (some Dbl.zero)

def allSome {α} : List (Option α) → Option (List α)
  | [] => some []
  | none :: _ => none
  | some x :: r => (allSome r).map (x :: ·)

/-- one iteration: `(new eigenvector, eigenvalue)`. -/
def capStepF (a : Acc) (x : VecF) : Option (VecF × Dbl) :=
  match allSome ((List.range a.size).map fun v => rowSumF a x v) with
  | none => none
  | some y =>
    let ev := y.foldl Dbl.maxD Dbl.zero
    if Dbl.lt Dbl.zero ev then
      (allSome (y.map fun t => Dbl.div t ev)).map fun z => (z.toArray, ev)
    else some ((y.map fun _ => Dbl.zero).toArray, ev)

/-- `log2(ev) if ev > tol else 0.0`, before the logarithm (`1` stands for `0.0`). -/
def clampEvF (tol ev : Dbl) : Dbl := if Dbl.lt tol ev then ev else ⟨1, 1⟩

/-- `numpy.median` of a non-empty list of doubles. -/
def medianF (l : List Dbl) : Option Dbl :=
  let s := isort (fun x y => Dbl.le x y) l
  let n := s.length
  if n % 2 = 1 then some (s.getD (n / 2) Dbl.zero)
  else (Dbl.add (s.getD (n / 2 - 1) Dbl.zero) (s.getD (n / 2) Dbl.zero)).bind fun t => Dbl.div t ⟨2, 1⟩

structure CapRunF where
  results : List Dbl
  record : List Dbl
deriving Repr

/-- `max(abs(eigenvector - last_eigenvector))`. -/
def maxDiffF (n : Nat) (x y : VecF) : Option Dbl :=
  (allSome ((List.range n).map fun v => (Dbl.sub (x.getD v Dbl.zero) (y.getD v Dbl.zero)).map Dbl.abs)).map
    fun ds => ds.foldl Dbl.maxD Dbl.zero

/-- the `while True` loop of one repeat. -/
def capLoopF (a : Acc) (tol : Dbl) (maxIter : Nat) :
    Nat → VecF → Option Dbl → List Dbl → List Dbl → Option CapRunF
  | 0, _, _, _, _ => none
  | f + 1, last, lastEv, queue, record =>
    match capStepF a last with
    | none => none
    | some r =>
      let record := record ++ [clampEvF tol r.2]
      match lastEv with
      | none => capLoopF a tol maxIter f r.1 (some r.2) queue record
      | some le =>
        -- `relative_error < tol`; the quotient `abs(ev - le) / le` is the one operation of the loop that can exceed the
        -- binary64 range (a tiny positive `le`): NumPy then yields `inf` (and goes on), and `inf < tol` is false
        let relLt : Bool :=
          if Dbl.lt Dbl.zero le then
            match ((Dbl.sub r.2 le).map Dbl.abs).bind fun d => Dbl.div d le with
            | some rel => Dbl.lt rel tol
            | none => false
          else Dbl.lt Dbl.zero tol
        match maxDiffF a.size r.1 last with
        | some md =>
          let queue := queue ++ [r.2]
          let res1 := if relLt ∧ Dbl.lt md tol then [clampEvF tol r.2] else []
          match (if queue.length > maxIter then (medianF queue).map fun m => [clampEvF tol m] else some []) with
          | none => none
          | some res2 =>
            if res1 ++ res2 ≠ [] then some ⟨res1 ++ res2, record⟩
            else capLoopF a tol maxIter f r.1 (some r.2) queue record
        | none => none

/-- `last_eigenvector[ignore_positions] = 0.0`. -/
def zeroDeadF (a : Acc) (x : VecF) : VecF :=
  (Array.range a.size).map fun (v : Nat) =>
    if (a.getD v #[]).foldl (· + ·) 0 == -4 then Dbl.zero else x.getD v Dbl.zero

/-- `approximate_capacity` in double precision for the given start vectors: the eigenvalue estimates whose `log2` the
code collects in `results`, and the per-repeat records. -/
def approximateCapacityF (a : Acc) (tol : Dbl) (maxIter : Nat) (starts : List VecF) :
    Option (List Dbl × List (List Dbl)) :=
  if a.all (fun r => r.all (· == -1)) then some ([⟨1, 1⟩], starts.map fun _ => [⟨1, 1⟩])
  else
    starts.foldl (fun acc x0 =>
      match acc with
      | none => none
      | some (res, recs) =>
        match capLoopF a tol maxIter (maxIter + 2) (zeroDeadF a x0) none [] [] with
        | none => none
        | some run => some (res ++ run.results, recs ++ [run.record])) (some ([], []))

/-- `numpy.random.random(size=n)` after `numpy.random.seed(seed)` (legacy MT19937 generator, `Model/Shuffle.lean`): each
double is `(a >> 5) * 2^26 + (b >> 6)` over `2^53` for two consecutive 32-bit outputs `a`, `b` — exactly representable. -/
def randomDoubles : Nat → MT.State → List Dbl × MT.State
  | 0, s => ([], s)
  | n + 1, s =>
    let (a, s1) := mtNext s
    let (b, s2) := mtNext s1
    -- (the generator's outputs are 32-bit words; the reduction makes that explicit in the formula)
    let x : Dbl := ⟨(((a % 4294967296) / 32) * 67108864 + (b % 4294967296) / 64 : Nat), 9007199254740992⟩
    let (rest, s3) := randomDoubles n s2
    (x :: rest, s3)

/-- the start vectors of the random mode: `repeats` successive draws of `abs(random.random(size=(n,)))`. -/
def randomStarts (n repeats : Nat) (s : MT.State) : List VecF :=
  match repeats with
  | 0 => []
  | r + 1 =>
    let (v, s') := randomDoubles n s
    v.toArray :: randomStarts n r s'

/-- `numpy.random.seed(seed); approximate_capacity(accessor, tolerance_level, repeats ≥ 2, maximum_iteration)`: the whole
randomised call inside the model (start vectors drawn by the modelled generator). -/
def approximateCapacitySeeded (a : Acc) (tol : Dbl) (maxIter repeats seed : Nat) :
    R (Option (List Dbl × List (List Dbl))) := do
  let s ← mtSeed seed
  pure (approximateCapacityF a tol maxIter (randomStarts a.size repeats s))

end Dsw
