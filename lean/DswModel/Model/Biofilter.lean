import DswModel.Model.Basic
import DswModel.Model.Float
/-!
# dsw/biofilter.py — `LocalBioFilter`

The three float comparisons of the GC rule are, for integer counts, comparisons with integer
thresholds; the configuration carries those thresholds as the float expressions of the code
produce them (`floatGcRule` below computes them from the two bounds with the exact model of
double-precision rounding in `Model/Float.lean`):
`gcLo = ⌈lo·k⌉` (`gc < lo*k ↔ gc < gcLo`), `gcHi = ⌊hi·k⌋` (`gc > hi*k ↔ gc > gcHi`),
`atHi = ⌊k − lo·k⌋` (`at > k − lo*k ↔ at > atHi`).
-/
namespace Dsw

structure GcRule where
  gcLo : Int
  gcHi : Int
  atHi : Int
deriving DecidableEq, Repr

/-- the thresholds that the code's own double-precision expressions produce for the bounds `lo`, `hi` (doubles, as
exact fractions) and the window `k`: `gc < lo*k ↔ gc < ⌈fl(lo·k)⌉`, `gc > hi*k ↔ gc > ⌊fl(hi·k)⌋`,
`at > k - lo*k ↔ at > ⌊fl(k − fl(lo·k))⌋`, where `fl` rounds to the nearest double (`Model/Float.lean`) and `k` is first
converted with `float()`. `none` when a product would be infinite (CPython then compares with `inf`; outside the model). -/
def floatGcRule (lo hi : Dbl) (k : Nat) : Option GcRule :=
  match Dbl.ofInt k with
  | none => none
  | some fk =>
    match lo.mul fk, hi.mul fk with
    | some a, some b =>
      match fk.sub a with
      | some c => some { gcLo := a.ceil, gcHi := b.floor, atHi := c.floor }
      | none => none
    | _, _ => none

structure FilterCfg where
  k : Nat
  run : Option Nat := none
  motifs : Option (List (List Char)) := none
  gc : Option GcRule := none
deriving Repr

/-- the constructor's validation: `ValueError` unless this holds. -/
def FilterCfg.accepted (c : FilterCfg) : Bool :=
  (match c.run with | none => true | some r => !(c.k < r)) &&
  (match c.motifs with | none => true | some ms => ms.all fun m => !(m.length > c.k))

/-- Python `p in s` for strings. -/
def isInfix (p : List Char) : List Char → Bool
  | [] => p.isEmpty
  | c :: s => p.isPrefixOf (c :: s) || isInfix p s

def complement (c : Char) : Char :=
  if c = 'A' then 'T' else if c = 'C' then 'G' else if c = 'G' then 'C' else if c = 'T' then 'A' else c

/-- reverse complement (characters outside ACGT are kept; motifs are ACGT strings). -/
def revComp (s : List Char) : List Char := (s.map complement).reverse

def gcCount (s : List Char) : Nat := s.count 'C' + s.count 'G'
def atCount (s : List Char) : Nat := s.count 'A' + s.count 'T'

/-- all length-`k` windows of `s` (`s[i : i+k]` for `i` in `range(len(s) - k + 1)`). -/
def windows (k : Nat) (s : List Char) : List (List Char) :=
  (List.range (s.length + 1 - k)).map fun i => (s.drop i).take k

/-- the body of `valid` on the observed string. -/
def validObserved (c : FilterCfg) (obs : List Char) : Bool :=
  obs.all (fun ch => (nucIdx ch).isSome) &&
  (match c.run with
   | none => true
   | some r => "ACGT".toList.all fun ch => !isInfix (List.replicate (1 + r) ch) obs) &&
  (match c.motifs with
   | none => true
   | some ms => ms.all fun m => !isInfix m obs && !isInfix (revComp m) obs) &&
  (match c.gc with
   | none => true
   | some g =>
     if obs.length ≥ c.k then
       (windows c.k obs).all fun w => !((gcCount w : Int) > g.gcHi) && !((gcCount w : Int) < g.gcLo)
     else !((gcCount obs : Int) > g.gcHi) && !((atCount obs : Int) > g.atHi))

/-- `LocalBioFilter.valid(dna, only_last)`. -/
def FilterCfg.valid (c : FilterCfg) (s : List Char) (onlyLast : Bool) : Bool :=
  validObserved c (if onlyLast then pySlice s (-(c.k : Int)) s.length else s)

end Dsw
