/-!
# DswModel.Model.Float — IEEE-754 binary64 rounding on exact rationals

`dsw/biofilter.py` compares integer counts with the products `gc_range[i] * observed_length` and with
`observed_length - gc_range[0] * observed_length`, all computed in double precision. A double is a
dyadic rational, so these operations are modelled EXACTLY: the exact rational result followed by
`roundDouble` (round to nearest, ties to even, gradual underflow; magnitudes that would overflow to
`inf` are outside the model and reported as `none`).

Core Lean only (integers); validated against CPython on every run by the driver operation `fop`.
-/
namespace Dsw

/-- a finite double as an exact fraction `num / den` with `den > 0` (not necessarily in lowest terms). -/
structure Dbl where
  num : Int
  den : Nat
deriving Repr, DecidableEq, Inhabited

/-- `⌊log2 (n / d)⌋` for positive `n`, `d`. -/
def ratLog2 (n d : Nat) : Int :=
  let e0 : Int := (Nat.log2 n : Int) - (Nat.log2 d : Int)
  -- 2^(e0-1) < n/d < 2^(e0+1): decide which half
  if e0 ≥ 0 then (if n ≥ d * 2 ^ e0.toNat then e0 else e0 - 1)
  else (if n * 2 ^ (-e0).toNat ≥ d then e0 else e0 - 1)

/-- round the positive rational `n / d` to the nearest double (ties to even): the result is `m * 2^e`. -/
def roundPos (n d : Nat) : Nat × Int :=
  let e : Int := max (ratLog2 n d - 52) (-1074)
  let num := if e < 0 then n * 2 ^ (-e).toNat else n
  let den := if e < 0 then d else d * 2 ^ e.toNat
  let m := num / den
  let r := num % den
  let m := if 2 * r > den ∨ (2 * r = den ∧ m % 2 = 1) then m + 1 else m
  (m, e)

/-- the double nearest to `num / den` (`den > 0`); `none` when it would be infinite. -/
def roundDouble (num : Int) (den : Nat) : Option Dbl :=
  if num = 0 ∨ den = 0 then some ⟨0, 1⟩ else
  let (m, e) := roundPos num.natAbs den
  -- largest finite double: (2^53 - 1) * 2^971
  if e > 971 ∨ (e = 971 ∧ m ≥ 2 ^ 53) then none else
  let s : Int := if num < 0 then -1 else 1
  if e ≥ 0 then some ⟨s * (m * 2 ^ e.toNat : Nat), 1⟩ else some ⟨s * (m : Nat), 2 ^ (-e).toNat⟩

/-- `float(i)` for an int (CPython rounds to nearest even; `OverflowError` = `none`). -/
def Dbl.ofInt (i : Int) : Option Dbl := roundDouble i 1

/-- `x * y` in double precision. -/
def Dbl.mul (x y : Dbl) : Option Dbl := roundDouble (x.num * y.num) (x.den * y.den)

/-- `x - y` in double precision. -/
def Dbl.sub (x y : Dbl) : Option Dbl := roundDouble (x.num * y.den - y.num * x.den) (x.den * y.den)

/-- `x + y` in double precision. -/
def Dbl.add (x y : Dbl) : Option Dbl := roundDouble (x.num * y.den + y.num * x.den) (x.den * y.den)

/-- exact comparison of an int with a double (CPython compares them exactly): `i < x`. -/
def Dbl.intLt (i : Int) (x : Dbl) : Bool := decide (i * x.den < x.num)
/-- `x < i`. -/
def Dbl.ltInt (x : Dbl) (i : Int) : Bool := decide (x.num < i * x.den)

/-- `⌊x⌋` and `⌈x⌉`. -/
def Dbl.floor (x : Dbl) : Int := Int.fdiv x.num x.den
def Dbl.ceil (x : Dbl) : Int := -(Int.fdiv (-x.num) x.den)

end Dsw
