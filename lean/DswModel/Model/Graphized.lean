import DswModel.Model.Operation
/-!
# dsw/graphized.py — de Bruijn arithmetic, representation converters, leaf search,
path matching and intersection scores
-/
namespace Dsw

/-- `obtain_latters(current, k)`. -/
def obtainLatters (k : Nat) (v : Nat) : List Nat :=
  (List.range 4).map fun j => (v * 4 + j) % 4 ^ k

/-- `obtain_formers(current, k)` (`k ≥ 1`). -/
def obtainFormers (k : Nat) (v : Nat) : List Nat :=
  (List.range 4).map fun j => v / 4 + j * 4 ^ (k - 1)

/-- `get_complete_accessor(k)`. -/
def getCompleteAccessor (k : Nat) : Acc :=
  (Array.range (4 ^ k)).map fun v => ((obtainLatters k v).map Int.ofNat).toArray

/-- live entries of row `v` in column order: `vertex[vertex >= 0].tolist()`. -/
def Acc.liveEntries (a : Acc) (v : Int) : List Nat :=
  (a.live v).map fun j => (a.ent v j).toNat

/-- `obtain_vertices(accessor)`: rows with at least one entry different from `-1`. -/
def obtainVertices (a : Acc) : List Nat :=
  (List.range a.size).filter fun v => (a.getD v #[]).any (fun e => e + 1 != 0)

abbrev Matrix := Array (Array Nat)

/-- `accessor_to_adjacency_matrix(accessor)` (the `MemoryError` branch for `k ≥ 8` is not
modelled). -/
def accessorToAdjacencyMatrix (a : Acc) : R Matrix :=
  if a.any (fun r => r.size != 4 || r.any (fun e => e < -1 || e > (a.size : Int) - 1)) then
    .error .valueError
  else
    .ok <| (Array.range a.size).map fun (v : Nat) =>
      (a.liveEntries (v : Int)).foldl (fun row w => row.setIfInBounds w 1) (Array.replicate a.size 0)

/-- exact `⌊log₄ n⌋` — stands for `int(log(n) / log(4))`, which the harness checks to agree
with it on every size it generates. -/
def log4 (n : Nat) : Nat := Nat.log2 n / 2

/-- `adjacency_matrix_to_accessor(matrix)`. The legality test
`list(set(next) | set(ref)) != ref` is modelled by its set-theoretic meaning `next ⊆ ref`
(it relies on CPython iterating small-int sets in ascending order). -/
def adjacencyMatrixToAccessor (m : Matrix) : R Acc :=
  let k := log4 m.size
  (List.range m.size).foldlM (fun (acc : Acc) v =>
      let next := (List.range (m.getD v #[]).size).filter fun w => (m.getD v #[]).getD w 0 == 1
      let ref := obtainLatters k v
      if next.all (fun w => ref.contains w) then
        .ok (acc.push ((ref.map fun w => if next.contains w then Int.ofNat w else -1).toArray))
      else .error .valueError) #[]

/-- a latter map: insertion-ordered `dict` from vertex to successor list. -/
abbrev LMap := List (Nat × List Nat)

def LMap.get? (m : LMap) (v : Nat) : Option (List Nat) := (m.find? (fun p => p.1 == v)).map (·.2)

/-- `accessor_to_latter_map(accessor)`. -/
def accessorToLatterMap (a : Acc) : LMap :=
  (obtainVertices a).map fun v => (v, a.liveEntries v)

/-- one round of `remove_useless`: `(new map, remove_flag)`. -/
def removeUselessRound (m : LMap) (t : Nat) : LMap × Bool :=
  let remove := (m.filter fun p => p.2.length < t).map (·.1)
  let saved := (m.filter fun p => ¬ p.2.length < t).map (·.1)
  let keep (w : Nat) : Bool := !remove.contains w && saved.contains w
  let kept := m.filter fun p => !remove.contains p.1
  (kept.map fun p => (p.1, p.2.filter keep), kept.any fun p => p.2.any fun w => !keep w)

/-- `remove_useless(latter_map, threshold)`. -/
def removeUselessLoop (t : Nat) : Nat → LMap → R LMap
  | 0, _ => .error .outOfFuel
  | f + 1, m =>
    let r := removeUselessRound m t
    if r.2 then removeUselessLoop t f r.1 else .ok r.1

def LMap.arcs (m : LMap) : Nat := (m.map fun p => p.2.length).foldl (· + ·) 0

def removeUseless (m : LMap) (t : Nat) : R LMap := removeUselessLoop t (m.arcs + 1) m

/-- `accessor[former, latter % 4] = latter` on an accessor of `n` rows. -/
def Acc.setEnt (a : Acc) (v : Nat) (j : Nat) (x : Int) : Acc :=
  a.setIfInBounds v ((a.getD v #[]).setIfInBounds j x)

/-- `latter_map_to_accessor(latter_map, k, threshold)`. -/
def latterMapToAccessor (m : LMap) (k : Nat) (t : Option Nat) : R Acc := do
  let m' ← match t with
    | none => pure m
    | some t => removeUseless m t
  if m'.any (fun p => p.1 ≥ 4 ^ k) then .error .indexError else
  pure <| m'.foldl (fun acc p => p.2.foldl (fun acc w => acc.setEnt p.1 (w % 4) w) acc)
    (Array.replicate (4 ^ k) (Array.replicate 4 (-1)))

/-- breadth-first levels through an accessor. -/
def leafAcc (a : Acc) : Nat → List Nat → List Nat
  | 0, branch => branch
  | d + 1, branch => leafAcc a d (branch.flatMap fun (v : Nat) => a.liveEntries (v : Int))

/-- breadth-first levels through a latter map. -/
def leafMap (m : LMap) : Nat → List Nat → List Nat
  | 0, branch => branch
  | d + 1, branch => leafMap m d (branch.flatMap fun v => (m.get? v).getD [])

/-- `obtain_leaf_vertices(v, depth, accessor=…, latter_map=…)`. -/
def obtainLeafVertices (v : Nat) (depth : Nat) (a : Option Acc) (m : Option LMap) : R (List Nat) :=
  match a, m with
  | some _, some _ => .error .valueError
  | some a, none => .ok (leafAcc a depth [v])
  | none, some m => .ok (leafMap m depth [v])
  | none, none => .error .valueError

/-- walk `s` from `v`, counting look-ups: `(reliable, visited)`. -/
def walkCount (a : Acc) : Int → List Char → Nat → Bool × Nat
  | _, [], n => (true, n)
  | v, c :: s, n =>
    match a.next v c with
    | some t => walkCount a t s (n + 1)
    | none => (false, n)

inductive EditKind where | S | I | D
deriving DecidableEq, Repr

structure RepairInfo where
  kind : EditKind
  loc : Nat
  nuc : Char
  fragment : List Char
deriving DecidableEq, Repr

/-- `path_matching(dna, accessor, previous_index, occur_location, has_indel)`. -/
def pathMatching (a : Acc) (chunk : List Char) (prev : Int) (occ : Nat) (hasIndel : Bool) :
    R (List RepairInfo × Nat) :=
  match chunk[occ]? with
  | none => .error .indexError
  | some original =>
    let used := (a.live prev).map nucChar
    let subs := used.filter (· ≠ original)
    let r1 := subs.foldl (fun (acc : List RepairInfo × Nat) x =>
        let w := walkCount a (a.ent prev ((nucIdx x).getD 0)) (chunk.drop (occ + 1)) 0
        (if w.1 then acc.1 ++ [⟨.S, occ, x, chunk.set occ x⟩] else acc.1, acc.2 + w.2)) ([], 0)
    if !hasIndel then .ok r1 else
    let r2 := used.foldl (fun (acc : List RepairInfo × Nat) x =>
        let w := walkCount a (a.ent prev ((nucIdx x).getD 0)) (chunk.drop occ) 0
        (if w.1 then acc.1 ++ [⟨.I, occ, x, chunk.take occ ++ [x] ++ chunk.drop occ⟩] else acc.1,
         acc.2 + w.2)) r1
    let w := walkCount a prev (chunk.drop (occ + 1)) 0
    .ok (if w.1 then r2.1 ++ [⟨.D, occ, original, chunk.take occ ++ chunk.drop (occ + 1)⟩] else r2.1,
         r2.2 + w.2)

/-- `len(union1d(x, y))`: number of distinct values. -/
def unionCount (x y : List Nat) : Nat := (x ++ y).eraseDups.length

/-- `scores[v, j] += s`. -/
def addScore (sc : Array (Array Nat)) (v j s : Nat) : Array (Array Nat) :=
  sc.setIfInBounds v ((sc.getD v #[]).setIfInBounds j ((sc.getD v #[]).getD j 0 + s))

/-- all index pairs `one < two` below `n`, in `itertools.combinations` order. -/
def pairsBelow (n : Nat) : List (Nat × Nat) :=
  (List.range n).flatMap fun i => ((List.range n).filter (i < ·)).map fun j => (i, j)

/-- `calculate_intersection_score(latter_map, k, has_insertion, has_deletion)`. -/
def calculateIntersectionScore (m : LMap) (k : Nat) (ins del : Bool) : Array (Array Nat) :=
  let depth := k - 1
  m.foldl (fun sc p =>
    let cur := p.1
    let lat := p.2
    let mb := lat.map fun w => leafMap m depth [w]
    let sc := (pairsBelow mb.length).foldl (fun sc ij =>
        let s := unionCount (mb.getD ij.1 []) (mb.getD ij.2 [])
        addScore (addScore sc cur (lat.getD ij.1 0 % 4) s) cur (lat.getD ij.2 0 % 4) s) sc
    let sc := if ins then
        lat.zipIdx.foldl (fun sc fi =>
          match m.get? fi.1 with
          | none => sc
          | some ls => ls.foldl (fun sc w =>
              addScore sc cur (fi.1 % 4) (unionCount (mb.getD fi.2 []) (leafMap m depth [w]))) sc) sc
      else sc
    if del then
      let db := leafMap m depth [cur]
      lat.zipIdx.foldl (fun sc fi => addScore sc cur (fi.1 % 4) (unionCount (mb.getD fi.2 []) db)) sc
    else sc)
    (Array.replicate (4 ^ k) (Array.replicate 4 0))

end Dsw
