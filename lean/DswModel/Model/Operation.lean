import DswModel.Model.Basic
/-!
# dsw/operation.py — decimal-string arithmetic and bit / number / DNA conversions

A decimal string is modelled as its list of digits, most significant first (`Dec`); the driver
converts from and to `String`. Each definition mirrors the loop of the Python function.
-/
namespace Dsw

abbrev Dec := List Nat

/-- value of a decimal string. -/
def Dec.toNat (s : Dec) : Nat := s.foldl (fun n d => n * 10 + d) 0

/-- drop leading zeros; the all-zero (or empty) string becomes `"0"`. -/
def stripZeros : Dec → Dec
  | [] => [0]
  | 0 :: r => stripZeros r
  | d :: r => d :: r

/-- canonical decimal rendering (`str(n)`). -/
def Dec.ofNat (n : Nat) : Dec := (Nat.toDigits 10 n).map (fun c => c.toNat - '0'.toNat)

/-- one digit column of `calculus_addition`, processed from the right:
`(carry, digits so far)`. -/
def addStep (xy : Nat × Nat) (st : Nat × List Nat) : Nat × List Nat :=
  let s := xy.1 + xy.2 + st.1
  (s / 10, s % 10 :: st.2)

/-- `calculus_addition(number, base)` with a one-digit `base`. -/
def calculusAddition (number : Dec) (b : Nat) : Dec :=
  let base := List.replicate (number.length - 1) 0 ++ [b]        -- base.zfill(len(number))
  let r := (number.zip base).foldr addStep (0, [])
  let result := r.1 :: r.2
  if result.head? = some 0 then result.tail else result

/-- one digit of `calculus_multiplication`, from the right: `(remainder, digits so far)`. -/
def mulStep (b : Nat) (x : Nat) (st : Nat × List Nat) : Nat × List Nat :=
  let cur := x * b + st.1
  (cur / 10, cur % 10 :: st.2)

/-- `while remainder > 0: number.insert(0, remainder % 10); remainder //= 10`. -/
def pushCarry (fuel : Nat) (r : Nat) (acc : List Nat) : List Nat :=
  match fuel with
  | 0 => acc
  | f + 1 => if r > 0 then pushCarry f (r / 10) (r % 10 :: acc) else acc

/-- `calculus_multiplication(number, base)` with a one-digit `base`. -/
def calculusMultiplication (number : Dec) (b : Nat) : Dec :=
  if b = 0 then [0]
  else if b = 1 then number
  else
    let r := number.foldr (mulStep b) (0, [])
    pushCarry 2 r.1 r.2

/-- the long-division loop: `(digits of the quotient so far, reversed; remainder)`. -/
def divStep (b : Nat) (st : List Nat × Nat) (x : Nat) : List Nat × Nat :=
  let cur := x + st.2 * 10
  if cur ≥ b then (cur / b :: st.1, cur - (cur / b) * b) else (0 :: st.1, cur)

/-- `calculus_division(number, base)` with a one-digit `base`: `(quotient, remainder)`. -/
def calculusDivision (number : Dec) (b : Nat) : Dec × Dec :=
  if b = 0 then ([0], [0])
  else if b = 1 then (number, [0])
  else if number.length = 1 ∧ number.headD 0 < b then ([0], [number.headD 0])
  else
    let r := number.foldl (divStep b) ([], 0)
    (stripZeros r.1.reverse, [r.2])

/-- borrow chain of `calculus_subtraction` on the reversed prefix:
`while number[i] == 0: number[i] = 9; i -= 1` then `number[i] -= 1`.
(On an exhausted prefix Python would wrap around to the last digit; that only happens when the
result is negative, which is outside the function's contract.) -/
def borrow : List Nat → List Nat
  | [] => []
  | 0 :: r => 9 :: borrow r
  | d :: r => (d - 1) :: r

/-- `calculus_subtraction(number, base)` with a one-digit `base`. -/
def calculusSubtraction (number : Dec) (b : Nat) : Dec :=
  match number.reverse with
  | [] => [0]
  | last :: pre =>
    if last ≥ b then stripZeros ((pre.reverse) ++ [last - b])
    else stripZeros ((borrow pre).reverse ++ [10 + last - b])

/-- `bit_to_number(bits, is_string=True)`. -/
def bitToNumberStr (bits : List Nat) : Dec :=
  bits.foldl (fun n b => calculusAddition (calculusMultiplication n 2) b) [0]

/-- `bit_to_number(bits, is_string=False)`. -/
def bitToNumberInt (bits : List Nat) : Nat :=
  bits.foldl (fun n b => n * 2 + b) 0

/-- `while n != "0": n, r = calculus_division(n, base); out.insert(0, r)`. -/
def digitsStrLoop (base : Nat) : Nat → Dec → List Nat → R (List Nat)
  | 0, _, _ => .error .outOfFuel
  | f + 1, n, acc =>
    if n = [0] then .ok acc
    else
      let qr := calculusDivision n base
      digitsStrLoop base f qr.1 (qr.2.toNat :: acc)

/-- fuel that always suffices for `digitsStrLoop` with base ≥ 2 (at most 4 binary digits per
decimal digit). -/
def digitsFuel (n : Dec) : Nat := 4 * n.length + 1

/-- `while n > 0: n, r = divmod(n, base); out.insert(0, r)`. -/
def digitsNat (base : Nat) (n : Nat) (acc : List Nat) : List Nat :=
  if _h : n = 0 ∨ base < 2 then acc
  else digitsNat base (n / base) (n % base :: acc)
termination_by n
decreasing_by
  have : 2 ≤ base := by omega
  exact Nat.div_lt_self (by omega) this

/-- the fixed-width step of `number_to_bit`: pad on the left with zeros, or keep the first
`L` symbols when there are too many. -/
def fitBits (one : List Nat) (L : Nat) : List Nat :=
  if one.length = L then one
  else if one.length < L then List.replicate (L - one.length) 0 ++ one
  else one.take L

/-- `number_to_bit(str, L)`. -/
def numberToBitStr (n : Dec) (L : Nat) : R (List Nat) :=
  (digitsStrLoop 2 (digitsFuel n) n []).map (fitBits · L)

/-- `number_to_bit(int, L)`. -/
def numberToBitInt (n : Nat) (L : Nat) : List Nat := fitBits (digitsNat 2 n []) L

/-- `list(map("ACGT".index, dna))` (`ValueError` on a foreign character). -/
def nucValues : List Char → R (List Nat)
  | [] => .ok []
  | c :: s =>
    match nucIdx c with
    | none => .error .valueError
    | some j => (nucValues s).map (j :: ·)

/-- `dna_to_number(dna, is_string=True)`. -/
def dnaToNumberStr (s : List Char) : R Dec :=
  (nucValues s).map fun vs => vs.foldl (fun n v => calculusAddition (calculusMultiplication n 4) v) [0]

/-- `dna_to_number(dna, is_string=False)`. -/
def dnaToNumberInt (s : List Char) : R Nat :=
  (nucValues s).map fun vs => vs.foldl (fun n v => n * 4 + v) 0

/-- `"A" * (L - len(one)) + one` (a negative repeat count gives the empty string; nothing is
ever truncated). -/
def padDna (one : List Nat) (L : Nat) : List Char :=
  List.replicate (L - one.length) 'A' ++ one.map nucChar

/-- `number_to_dna(int, L)`. -/
def numberToDnaInt (n : Nat) (L : Nat) : List Char := padDna (digitsNat 4 n []) L

/-- `number_to_dna(str, L)`. -/
def numberToDnaStr (n : Dec) (L : Nat) : R (List Char) :=
  (digitsStrLoop 4 (digitsFuel n) n []).map (padDna · L)

end Dsw
