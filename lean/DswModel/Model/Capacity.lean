import DswModel.Model.Graphized
/-!
# dsw/graphized.py — `approximate_capacity` (power iteration), over exact rationals

The start vector of each repeat (all ones in the single-start mode, `numpy.random.random` in the
random mode) is a parameter. The model returns eigenvalue estimates, not their logarithms:
`log2` is applied by the caller (a value `1` stands for the code's `0.0` when the eigenvalue does
not exceed the tolerance).
-/
namespace Dsw

abbrev Vec := Array Rat

def ratAbs (x : Rat) : Rat := if x < 0 then -x else x

/-- one multiplication by the adjacency structure, then normalisation by the maximum:
`(new eigenvector, eigenvalue)`. -/
def capStep (a : Acc) (x : Vec) : Vec × Rat :=
  let y : Vec := (Array.range a.size).map fun (v : Nat) =>
    (a.liveEntries (v : Int)).foldl (fun s w => s + x.getD w 0) 0
  let ev := y.foldl max 0
  (if ev > 0 then y.map (· / ev) else y.map (fun _ => 0), ev)

/-- `log2(ev) if ev > tol else 0.0`, before the logarithm. -/
def clampEv (tol ev : Rat) : Rat := if ev > tol then ev else 1

/-- `numpy.median` of a non-empty list. -/
def ratMedian (l : List Rat) : Rat :=
  let s := isort (fun x y => decide (x ≤ y)) l
  let n := s.length
  if n % 2 = 1 then s.getD (n / 2) 0 else (s.getD (n / 2 - 1) 0 + s.getD (n / 2) 0) / 2

structure CapRun where
  results : List Rat      -- values appended to `results` by this repeat (eigenvalues, clamped)
  record : List Rat       -- eigenvalue estimate of every iteration (clamped)
deriving Repr

/-- the `while True` loop of one repeat. -/
def capLoop (a : Acc) (tol : Rat) (maxIter : Nat) :
    Nat → Vec → Option Rat → List Rat → List Rat → Option CapRun
  | 0, _, _, _, _ => none
  | f + 1, last, lastEv, queue, record =>
    let r := capStep a last
    let record := record ++ [clampEv tol r.2]
    match lastEv with
    | none => capLoop a tol maxIter f r.1 (some r.2) queue record
    | some le =>
      let rel := if le > 0 then ratAbs (r.2 - le) / le else 0
      let queue := queue ++ [r.2]
      let settled :=
        decide ((((List.range a.size).map fun v => ratAbs (r.1.getD v 0 - last.getD v 0)).foldl max 0) < tol)
      let res1 := if rel < tol ∧ settled then [clampEv tol r.2] else []
      let res2 := if queue.length > maxIter then [clampEv tol (ratMedian queue)] else []
      if res1 ++ res2 ≠ [] then some ⟨res1 ++ res2, record⟩
      else capLoop a tol maxIter f r.1 (some r.2) queue record

/-- `where(sum(accessor, axis=1) == -4)[0]` zeroed in the start vector. -/
def zeroDead (a : Acc) (x : Vec) : Vec :=
  (Array.range a.size).map fun (v : Nat) =>
    if (a.getD v #[]).foldl (· + ·) 0 == -4 then 0 else x.getD v 0

/-- `approximate_capacity(accessor, tolerance, repeats, maximum_iteration)` for the given start
vectors (one per repeat; since the second capacity fix every mode uses the same stopping rule):
the results list whose `log2`-median the code
returns, and the per-repeat records. `none` = out of fuel. -/
def approximateCapacity (a : Acc) (tol : Rat) (maxIter : Nat) (starts : List Vec) : Option (List Rat × List (List Rat)) :=
  if a.all (fun r => r.all (· == -1)) then some ([1], starts.map fun _ => [1])
  else
    starts.foldl (fun acc x0 =>
      match acc with
      | none => none
      | some (res, recs) =>
        match capLoop a tol maxIter (maxIter + 2) (zeroDead a x0) none [] [] with
        | none => none
        | some run => some (res ++ run.results, recs ++ [run.record])) (some ([], []))

end Dsw
