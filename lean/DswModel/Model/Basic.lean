/-!
# DswModel.Model.Basic — Python/NumPy primitives used by `dsw`

Core Lean only (no Mathlib): everything under `DswModel/Model` is linked into the
native correspondence driver.
-/
namespace Dsw

/-- Python exception classes the library can raise, plus `outOfFuel`, which is *not* a Python
outcome: it marks a `while` loop of the code that did not finish within the model's fuel. -/
inductive PyErr where
  | valueError | indexError | typeError | overflowError | other | outOfFuel
deriving DecidableEq, Repr, Inhabited

abbrev R (α : Type) := Except PyErr α

instance {α} [BEq α] : BEq (R α) where
  beq
    | .ok a, .ok b => a == b
    | .error e, .error f => e == f
    | _, _ => false

instance {α} [DecidableEq α] : DecidableEq (R α) := fun x y =>
  match x, y with
  | .ok a, .ok b => if h : a = b then isTrue (by rw [h]) else isFalse (by intro h'; cases h'; exact h rfl)
  | .error e, .error f => if h : e = f then isTrue (by rw [h]) else isFalse (by intro h'; cases h'; exact h rfl)
  | .ok _, .error _ => isFalse (by intro h; cases h)
  | .error _, .ok _ => isFalse (by intro h; cases h)

/-- `"ACGT".index(c)` (`none` = `ValueError`). -/
def nucIdx (c : Char) : Option Nat :=
  if c = 'A' then some 0 else if c = 'C' then some 1 else if c = 'G' then some 2
  else if c = 'T' then some 3 else none

/-- `"ACGT"[j]` for `j < 4`. -/
def nucChar (j : Nat) : Char :=
  if j = 0 then 'A' else if j = 1 then 'C' else if j = 2 then 'G' else 'T'

/-- Python slice bound normalisation for a sequence of length `n`. -/
def pyNorm (n : Nat) (i : Int) : Nat :=
  if i < 0 then (n + i).toNat else min i.toNat n

/-- Python `l[a:b]` (negative bounds wrap once, everything clamps). -/
def pySlice {α} (l : List α) (a b : Int) : List α :=
  let n := l.length
  (l.drop (pyNorm n a)).take (pyNorm n b - pyNorm n a)

/-- An accessor: `4^k` rows of four entries, `-1` = no arc (exactly as NumPy holds it). -/
abbrev Acc := Array (Array Int)

/-- Python `accessor[v]`: negative indices wrap (reachable in `repair_dna` through unset
`index_queue` entries). Out-of-range rows (Python: `IndexError`) are modelled as the empty row;
no input inside any property's domain reaches them (see `Acc.WF`). -/
def Acc.row (a : Acc) (v : Int) : Array Int :=
  let n : Int := a.size
  let i := if v < 0 then v + n else v
  if 0 ≤ i ∧ i < n then a.getD i.toNat #[] else #[]

/-- `accessor[v][j]`. -/
def Acc.ent (a : Acc) (v : Int) (j : Nat) : Int := (a.row v).getD j (-1)

/-- `where(accessor[v] >= 0)[0]` — live columns in ascending order. -/
def Acc.live (a : Acc) (v : Int) : List Nat :=
  (List.range 4).filter (fun j => decide (a.ent v j ≥ 0))

/-- Successor reached from `v` by nucleotide `c` if `c` is one of the live nucleotides of `v`. -/
def Acc.next (a : Acc) (v : Int) (c : Char) : Option Int :=
  match nucIdx c with
  | none => none
  | some j => if a.ent v j ≥ 0 then some (a.ent v j) else none

/-- Every entry is `-1` or a row index, every row has four entries. -/
def Acc.WF (a : Acc) : Prop :=
  ∀ v : Nat, v < a.size → (a.getD v #[]).size = 4 ∧
    ∀ j : Nat, j < 4 → (a.getD v #[]).getD j (-1) = -1 ∨
      (0 ≤ (a.getD v #[]).getD j (-1) ∧ (a.getD v #[]).getD j (-1) < a.size)

def Acc.wfb (a : Acc) : Bool :=
  a.all fun r => r.size == 4 && r.all fun e => e == -1 || (0 ≤ e && e < (a.size : Int))

/-- insertion of index `i` into a list of indices sorted by `(key, index)`. -/
def insertByKey (key : Nat → Int) (i : Nat) : List Nat → List Nat
  | [] => [i]
  | j :: r => if key i < key j then i :: j :: r else j :: insertByKey key i r

/-- `numpy.argsort(keys)` for short rows: stable ascending sort of the indices. -/
def argsort (keys : List Int) : List Nat :=
  (List.range keys.length).foldl (fun acc i => insertByKey (fun j => keys.getD j 0) i acc) []

/-- insertion into a list sorted by `le`. -/
def insertSorted {α} (le : α → α → Bool) (x : α) : List α → List α
  | [] => [x]
  | y :: ys => if le x y then x :: y :: ys else y :: insertSorted le x ys

/-- `sorted(l)` by insertion (structural, so the kernel can evaluate it). -/
def isort {α} (le : α → α → Bool) (l : List α) : List α := l.foldr (insertSorted le) []

/-- a shuffle table as NumPy holds it. -/
abbrev Tbl := Array (Array Int)

/-- `shuffles[v, used_indices]`. -/
def Tbl.keys (t : Tbl) (v : Int) (used : List Nat) : List Int :=
  used.map fun j => (Acc.row t v).getD j 0

/-- digit → position in `used_indices` (`argsort(shuffles[v, used])[d]`, or `d` without a table). -/
def digitToPos (tbl : Option Tbl) (v : Int) (used : List Nat) (d : Nat) : Nat :=
  match tbl with
  | none => d
  | some t => (argsort (t.keys v used)).getD d 0

/-- position in `used_indices` → digit (`where(argsort(...) == p)[0][0]`, or `p` without a table). -/
def posToDigit (tbl : Option Tbl) (v : Int) (used : List Nat) (p : Nat) : Nat :=
  match tbl with
  | none => p
  | some t => (argsort (t.keys v used)).idxOf p

end Dsw
