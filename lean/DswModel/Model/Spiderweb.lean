import DswModel.Model.Graphized
/-!
# dsw/spiderweb.py — encode / decode / set_vt / repair_dna / graph generation / arc removal
(the tree with the `fix:` commits D1–D9 applied)
-/
namespace Dsw

/-! ## encode -/

/-- the nucleotide column chosen at vertex `v` for digit `d`:
`used_indices[argsort(shuffles[v, used_indices])[d]]` (or `used_indices[d]`). -/
def selectArc (a : Acc) (tbl : Option Tbl) (v : Int) (d : Nat) : Nat :=
  let used := a.live v
  used.getD (digitToPos tbl v used d) 0

/-- normal mode, `while quotient != "0"` on decimal strings. -/
def encodeNormalLoop (a : Acc) (tbl : Option Tbl) : Nat → Int → Dec → R (List Char)
  | 0, _, _ => .error .outOfFuel
  | f + 1, v, q =>
    if q = [0] then .ok []
    else
      let used := a.live v
      if used.length > 1 then
        let qr := calculusDivision q used.length
        let j := selectArc a tbl v qr.2.toNat
        (encodeNormalLoop a tbl f (a.ent v j) qr.1).map (nucChar j :: ·)
      else if used.length = 1 then
        let j := used.getD 0 0
        (encodeNormalLoop a tbl f (a.ent v j) q).map (nucChar j :: ·)
      else .error .valueError

/-- fast mode, `while location < len(binary_message)` (with the odd-length padding of D3). -/
def encodeFastLoop (a : Acc) (tbl : Option Tbl) : Nat → Int → List Nat → R (List Char)
  | 0, _, _ => .error .outOfFuel
  | f + 1, v, bits =>
    match bits with
    | [] => .ok []
    | b0 :: rest =>
      let used := a.live v
      let radix := used.length
      if radix = 4 then
        let j := selectArc a tbl v (b0 * 2 + rest.headD 0)
        (encodeFastLoop a tbl f (a.ent v j) (rest.drop 1)).map (nucChar j :: ·)
      else if radix = 2 then
        let j := selectArc a tbl v b0
        (encodeFastLoop a tbl f (a.ent v j) rest).map (nucChar j :: ·)
      else if radix = 1 then
        let j := used.getD 0 0
        (encodeFastLoop a tbl f (a.ent v j) bits).map (nucChar j :: ·)
      else .error .valueError

/-! ## set_vt -/

/-- `sum(where(values[1:] - values[:-1] > 0)[0])`: sum of the 0-based positions `i` with
`values[i] < values[i+1]`. -/
def ascentSum : List Nat → Nat → Nat
  | x :: y :: r, i => (if x < y then i else 0) + ascentSum (y :: r) (i + 1)
  | _, _ => 0

/-- `set_vt(dna, n)` for `n ≥ 1`. -/
def setVt (s : List Char) (n : Nat) : R (List Char) :=
  (nucValues s).map fun vals =>
    let vtValue := ascentSum vals 0 % 4 ^ (n - 1)
    let vtFlag := vals.foldl (· + ·) 0 % 4
    nucChar vtFlag :: numberToDnaInt vtValue (n - 1)

/-- the `vt_check` comparison shared by `decode` and `repair_dna`. -/
def vtMatches (s : List Char) (chk : Option (List Char)) : R Bool :=
  match chk with
  | none => .ok true
  | some c => (setVt s c.length).map (· == c)

/-- fuel for `encode`: the theorem `C04`/`C01_total` shows `L * |V| + 1` steps suffice on
well-formed graphs; the driver passes this bound. -/
def encodeFuel (a : Acc) (bits : List Nat) : Nat := bits.length * a.size + 1

/-- `encode(bits, accessor, start, is_faster, vt_length, shuffles)`:
`(strand, check or none)`. -/
def encode (a : Acc) (tbl : Option Tbl) (v : Int) (bits : List Nat) (fast : Bool) (vtLen : Nat)
    (fuel : Nat) : R (List Char × Option (List Char)) := do
  let s ← if fast then encodeFastLoop a tbl fuel v bits
          else encodeNormalLoop a tbl fuel v (bitToNumberStr bits)
  if vtLen > 0 then
    let c ← setVt s vtLen
    pure (s, some c)
  else pure (s, none)

/-- `need_path=True`: normal mode records the vertex *before* each step, fast mode the vertex
*after* it; the flag says whether the step carried information. -/
def recordPath (a : Acc) (fast : Bool) : Int → List Char → List (Int × Nat)
  | _, [] => []
  | v, c :: s =>
    let flag := if (a.live v).length > 1 then 1 else 0
    let v' := a.ent v ((nucIdx c).getD 0)
    (if fast then (v', flag) else (v, flag)) :: recordPath a fast v' s

/-! ## decode -/

/-- position of nucleotide `c` among the live nucleotides of `v`
(`used_nucleotides.index(c)`), `none` when it is not one of them. -/
def livePos (a : Acc) (v : Int) (c : Char) : Option Nat :=
  match nucIdx c with
  | none => none
  | some j => if (a.live v).contains j then some ((a.live v).idxOf j) else none

/-- the first loop of normal-mode `decode`: `(out-degree, digit)` for every branching step. -/
def decodeWalk (a : Acc) (tbl : Option Tbl) : Int → List Char → R (List (Nat × Nat))
  | _, [] => .ok []
  | v, c :: s =>
    let used := a.live v
    if used.length > 1 then
      match livePos a v c with
      | none => .error .valueError
      | some p =>
        (decodeWalk a tbl (a.ent v ((nucIdx c).getD 0)) s).map
          ((used.length, posToDigit tbl v used p) :: ·)
    else if used.length = 1 then
      if c = nucChar (used.getD 0 0) then decodeWalk a tbl (a.ent v ((nucIdx c).getD 0)) s
      else .error .valueError
    else .error .valueError

/-- the second loop: Horner on decimal strings over the reversed digit list. -/
def hornerStr (saved : List (Nat × Nat)) : Dec :=
  saved.reverse.foldl (fun q dn => calculusAddition (calculusMultiplication q dn.1) dn.2) [0]

/-- fast-mode `decode` loop: the bits written from message position `ml` on. -/
def decodeFastLoop (a : Acc) (tbl : Option Tbl) (L : Nat) : Int → List Char → Nat → R (List Nat)
  | _, [], _ => .ok []
  | v, c :: s, ml =>
    let used := a.live v
    let radix := used.length
    match livePos a v c with
    | none => .error .valueError
    | some p =>
      let d := posToDigit tbl v used p
      let v' := a.ent v ((nucIdx c).getD 0)
      if radix = 4 then
        if ml ≥ L then .error .indexError
        else (decodeFastLoop a tbl L v' s (ml + 2)).map
          ((if ml + 1 < L then [d / 2, d % 2] else [d / 2]) ++ ·)
      else if radix = 2 then
        if ml ≥ L then .error .indexError
        else (decodeFastLoop a tbl L v' s (ml + 1)).map (d % 2 :: ·)
      else if radix = 1 then decodeFastLoop a tbl L v' s ml
      else .error .valueError

/-- `decode(dna, L, accessor, start, is_faster, vt_check, shuffles)`. -/
def decode (a : Acc) (tbl : Option Tbl) (v : Int) (s : List Char) (L : Nat) (fast : Bool)
    (chk : Option (List Char)) : R (List Nat) := do
  let okc ← vtMatches s chk
  if !okc then .error .valueError
  else if fast then
    let bits ← decodeFastLoop a tbl L v s 0
    pure (bits ++ List.replicate (L - bits.length) 0)
  else
    let saved ← decodeWalk a tbl v s
    numberToBitStr (hornerStr saved) L

/-! ## repair_dna -/

structure Scan where
  loc : Nat := 0
  v : Int
  queue : List Int                      -- index_queue
  splits : List (List Char) := [[]]     -- split_sequences, most recent first
  chunks : List (List Char) := []       -- chuck_sequences, most recent first
  markers : List (List Int) := []       -- index_markers, most recent first
  detected : Nat := 0
  visited : Nat := 0

/-- the branch of the scan that follows an arc. -/
def Scan.advance (st : Scan) (c : Char) (t : Int) : Scan :=
  { st with splits := (st.splits.headD [] ++ [c]) :: st.splits.tail, v := t,
            queue := st.queue.set st.loc t, visited := st.visited + 1, loc := st.loc + 1 }

/-- the branch of the scan that records a detected error and resumes `k + 1` positions on. -/
def Scan.detect (st : Scan) (k : Nat) (dna : List Char) : Scan :=
  let cur := st.splits.headD []
  let cur' := pySlice cur 0 ((cur.length : Int) - k + 1)
  let l : Int := st.loc
  let v' : Nat := (pySlice dna (l + 1) (l + k + 1)).foldl (fun n c => n * 4 + (nucIdx c).getD 0) 0
  { st with detected := st.detected + 1,
            splits := [nucChar (v' % 4)] :: cur' :: st.splits.tail,
            v := v',
            markers := pySlice st.queue (l - k) l :: st.markers,
            chunks := pySlice dna (l - k + 1) (l + k) :: st.chunks,
            loc := st.loc + k + 1 }

def scanStep (a : Acc) (k : Nat) (dna : List Char) (st : Scan) : Scan :=
  let c := dna.getD st.loc 'A'
  match a.next st.v c with
  | some t => st.advance c t
  | none => st.detect k dna

/-- `while location < len(dna)`. `none` = out of fuel. -/
def scan (a : Acc) (k : Nat) (dna : List Char) : Nat → Scan → Option Scan
  | 0, st => if st.loc < dna.length then none else some st
  | fuel + 1, st => if st.loc < dna.length then scan a k dna fuel (scanStep a k dna st) else some st

/-- fragments collected for one detection: every look-back position `recall`, every record of
`path_matching`, added to the set unless the *whole strand* is already in it (sic). -/
def collectFragments (a : Acc) (k : Nat) (dna chunk : List Char) (marker : List Int)
    (hasIndel : Bool) : R (List (List Char) × Nat) :=
  marker.reverse.zipIdx.foldlM (fun (acc : List (List Char) × Nat) (p : Int × Nat) => do
      let r ← pathMatching a chunk p.1 (k - p.2 - 1) hasIndel
      let set := r.1.foldl (fun (set : List (List Char)) info =>
          if set.contains dna then set
          else if set.contains info.fragment then set else set ++ [info.fragment]) acc.1
      pure (set, acc.2 + r.2)) ([], 0)

/-- `itertools.product`. -/
def product {α} : List (List α) → List (List α)
  | [] => [[]]
  | fs :: rest => fs.flatMap fun f => (product rest).map (f :: ·)

/-- Python string order on ACGT-and-other strings: lexicographic by code point. -/
def strLe : List Char → List Char → Bool
  | [], _ => true
  | _ :: _, [] => false
  | x :: xs, y :: ys => if x.toNat < y.toNat then true else if y.toNat < x.toNat then false else strLe xs ys

structure RepairStats where
  detected : Nat
  flag : Bool
  count : Nat
  visited : Nat
deriving DecidableEq, Repr

/-- `repair_dna(dna, accessor, start, k, vt_check, has_indel, heap_size)`. -/
def repairDna (a : Acc) (dna : List Char) (start : Int) (k : Nat) (chk : Option (List Char))
    (hasIndel : Bool) (heap : Nat) : R (List (List Char) × RepairStats) := do
  let st ← match scan a k dna (dna.length + 1)
                 { v := start, queue := List.replicate dna.length (-1) } with
    | none => .error .outOfFuel
    | some st => pure st
  let splits := st.splits.reverse
  let fv ← (st.chunks.reverse.zip st.markers.reverse).foldlM
    (fun (acc : List (List (List Char)) × Nat) (cm : List Char × List Int) => do
      let r ← collectFragments a k dna cm.1 cm.2 hasIndel
      pure (acc.1 ++ [r.1], acc.2 + r.2)) ([], st.visited)
  let fragSets := fv.1
  let visited := fv.2
  let count := fragSets.foldl (fun c f => c * f.length) 1
  if count = 0 ∨ count > heap then
    let okc ← vtMatches dna chk
    if okc then pure ([dna], ⟨0, false, 0, visited⟩) else pure ([], ⟨0, true, 0, visited⟩)
  else
    let cands := (product fragSets).map fun frs =>
      (splits.zip frs).foldl (fun s (p : List Char × List Char) => s ++ p.1 ++ p.2) []
        ++ splits.getLastD []
    let checked ← cands.mapM fun c => (vtMatches c chk).map fun b => (c, b)
    let kept := (checked.filter (·.2)).map (·.1)
    let flag := checked.any (fun cb => !cb.2)
    pure (isort strLe kept.eraseDups, ⟨st.detected, flag, count, visited⟩)

/-! ## graph generation -/

abbrev Mask := Array Bool

def Mask.count (m : Mask) : Nat := (m.toList.filter id).length

/-- `find_vertices(k, filter)`: `filter.valid(kmer)` is the parameter `P`. -/
def findVertices (k : Nat) (P : List Char → Bool) : R Mask :=
  let m : Mask := (Array.range (4 ^ k)).map fun i => P (numberToDnaInt i k)
  if m.count = 0 then .error .valueError else .ok m

/-- the arc materialisation loop shared by `connect_valid_graph` and `connect_coding_graph`. -/
def inducedAccessor (k : Nat) (m : Mask) : Acc :=
  (Array.range (4 ^ k)).map fun v =>
    if m.getD v false then
      ((obtainLatters k v).map fun w => if m.getD w false then Int.ofNat w else -1).toArray
    else Array.replicate 4 (-1)

/-- `connect_valid_graph(k, vertices)` (`none` = Python `None`). -/
def connectValidGraph (k : Nat) (m : Option Mask) : R Acc :=
  match m with
  | none => .error .valueError
  | some m => if m.count > 0 then .ok (inducedAccessor k m) else .error .valueError

/-- one trimming round: keep a marked vertex iff at least `t` of its successors are marked. -/
def trimStep (k t : Nat) (m : Mask) : Mask :=
  (Array.range (4 ^ k)).map fun v =>
    m.getD v false && decide (t ≤ ((obtainLatters k v).filter fun w => m.getD w false).length)

/-- the `while True` trimming loop with the code's own stopping rule. -/
def trimLoop (k t : Nat) : Nat → Mask → R Mask
  | 0, _ => .error .outOfFuel
  | f + 1, m =>
    let m' := trimStep k t m
    if m'.count < 1 then .error .valueError
    else if m.count = m'.count then .ok m
    else trimLoop k t f m'

def Acc.deg (a : Acc) (v : Nat) : Nat := (a.live v).length

/-- backward closure from the branching vertices: one expansion round. -/
def usefulStep (a : Acc) (vs : List Nat) (useful : Array Bool) : Array Bool :=
  vs.foldl (fun ex v =>
    if useful.getD v false then ex
    else ex.setIfInBounds v ((a.liveEntries v).any fun w => useful.getD w false)) useful

def usefulLoop (a : Acc) (vs : List Nat) : Nat → Array Bool → Array Bool
  | 0, u => u
  | f + 1, u =>
    let e := usefulStep a vs u
    if Mask.count e = Mask.count u then u else usefulLoop a vs f e

/-- the predecessor cascade: waves of `(former, latter)` pairs. -/
def cascade (k : Nat) : Nat → List (Nat × Nat) → Acc → Acc
  | 0, _, a => a
  | f + 1, pairs, a =>
    if pairs.isEmpty then a else
    let r := pairs.foldl (fun (st : Acc × List (Nat × Nat)) fl =>
        let previous := st.1.deg fl.1
        let a' := st.1.setEnt fl.1 (fl.2 % 4) (-1)
        let current := a'.deg fl.1
        (a', if previous > current ∧ current = 0 then
               st.2 ++ (obtainFormers k fl.1).map fun i => (i, fl.1) else st.2)) (a, [])
    cascade k f r.2 r.1

/-- remove one useless vertex: clear its row, cascade to predecessors. -/
def removeVertex (k : Nat) (a : Acc) (u : Nat) : Acc :=
  let a1 := a.setIfInBounds u (Array.replicate 4 (-1))
  cascade k (a.size + 1) ((obtainFormers k u).map fun i => (i, u)) a1

/-- the threshold-1 phase (D6): repeat until no retained vertex is useless. -/
def thresholdOneLoop (k : Nat) : Nat → Acc → R (List Nat × Acc)
  | 0, _ => .error .outOfFuel
  | f + 1, a =>
    let vs := obtainVertices a
    if vs.isEmpty then .error .valueError else
    let u0 : Array Bool := (Array.range a.size).map fun v => decide (a.deg v > 1)
    let useful := usefulLoop a vs (a.size + 1) u0
    let useless := vs.filter fun v => !useful.getD v false
    if useless.isEmpty then .ok (vs, a)
    else thresholdOneLoop k f (useless.foldl (removeVertex k) a)

def Mask.indices (m : Mask) : List Nat := (List.range m.size).filter fun v => m.getD v false

/-- `connect_coding_graph(k, vertices, threshold)`: `(vertices with arcs, accessor)`; the vertex
description is canonicalised to the sorted index list (Python returns a mask for `t ≥ 2` and an
index array for `t = 1`). -/
def connectCodingGraph (k : Nat) (m : Mask) (t : Nat) : R (List Nat × Acc) := do
  let m' ← trimLoop k t (4 ^ k + 1) m
  let a := inducedAccessor k m'
  if t = 1 then thresholdOneLoop k (4 ^ k + 1) a
  else pure (m'.indices, a)

/-! ## remove_nasty_arc -/

def LMap.erase1 (m : LMap) (former latter : Nat) : LMap :=
  m.filterMap fun p =>
    if p.1 = former then
      let l := p.2.eraseIdx (p.2.idxOf latter)
      if l.isEmpty then none else some (p.1, l)
    else some p

/-- first index of the maximum (`numpy.argmax`). -/
def argmax (l : List Nat) : Nat := l.idxOf (l.foldl max 0)

structure RemoveResult where
  acc : Acc
  lmap : LMap
  former : Nat
  latter : Nat
  scores : List Nat
deriving Repr

/-- `remove_nasty_arc(accessor, latter_map, has_insertion, has_deletion)`. -/
def removeNastyArc (a : Acc) (m : LMap) (ins del : Bool) : R RemoveResult :=
  let k := log4 a.size
  let scores := calculateIntersectionScore m k ins del
  let mx := scores.foldl (fun x r => r.foldl max x) 0
  let rows := (List.range scores.size).filter fun v => (scores.getD v #[]).any (· == mx)
  match (obtainVertices a).filter (fun v => rows.contains v) with
  | [] => .error .indexError
  | former :: _ =>
    let lv := argmax (scores.getD former #[]).toList
    let latter := (former * 4 + lv) % 4 ^ k
    match m.get? former with
    | none => .error .other
    | some ls =>
      if ls.contains latter then
        let positive := (scores.toList.flatMap (·.toList)).filter (· > 0)
        -- the score histogram (`score_record[0]`) is built even without `verbose`; with no positive
        -- score it indexes an empty array: IndexError (after both views were already updated)
        if positive.isEmpty then .error .indexError
        else .ok ⟨a.setEnt former lv (-1), m.erase1 former latter, former, latter, positive⟩
      else .error .valueError

/-! ## create_random_shuffles -/

/-- `create_random_shuffles(k, seed)`; the in-place `numpy.random.shuffle` of row `i` under the
seeded generator is the parameter `shuffle i`. -/
def createRandomShuffles (k : Nat) (shuffle : Nat → List Int → List Int) : Tbl :=
  (Array.range (4 ^ k)).map fun i => (shuffle i [0, 1, 2, 3]).toArray

end Dsw
