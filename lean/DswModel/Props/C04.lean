import DswModel.Model.Spiderweb
import DswModel.Lemmas.CoderDefs
import DswModel.Lemmas.CoderNormal
import DswModel.Lemmas.CoderFast
import DswModel.Props.C01
import DswModel.Props.C03
import DswModel.Props.C05
import DswModel.Lemmas.Tight
/-!
# C04 — encoding is total, dead-end free and tight on generated graphs

Property theorems only; helper lemmas go to `DswModel/Lemmas/Tight.lean`.
`(vs, a)` is what graph generation returned for some mask and threshold `1 ≤ t`; `v ∈ vs`.
-/
namespace Dsw

/-- out-degrees met along a walk, in order. -/
def radices (a : Acc) : Int → List Char → List Nat
  | _, [] => []
  | v, c :: s => a.outDeg v :: radices a (a.ent v ((nucIdx c).getD 0)) s

/-- normal mode: encoding any message from any retained vertex returns within `L·|V| + 1` loop
iterations (the fuel handed to the model), never reports a missing out-degree, and the strand is a
walk with at most `L·|V|` nucleotides. -/
theorem C04_terminates_normal (k t : Nat) (m : Mask) (vs : List Nat) (a : Acc) (v : Nat)
    (tbl : Option Tbl) (bits : List Nat) (hk : 1 ≤ k) (hm : m.size = 4 ^ k) (ht : 1 ≤ t)
    (h : connectCodingGraph k m t = .ok (vs, a)) (hv : v ∈ vs) (hb : IsBits bits) :
    ∃ s, encode a tbl (v : Int) bits false 0 (encodeFuel a bits) = .ok (s, none) ∧
      isWalk a (v : Int) s = true ∧ s.length ≤ bits.length * a.size := by
  have hg := C03_goodFrom k t m hm hk ht vs a h v hv
  obtain ⟨s, hs⟩ := cn_encodeNat_total a tbl (v : Int) hg bits.length (v : Int) _ (.refl _)
    (cn_bitToNumberInt_lt bits hb)
  obtain ⟨hw, _, _⟩ := cn_encodeNat_spec a tbl _ _ _ _ hs
  have hl := Tight.encodeNat_length a tbl _ _ _ _ hs
  refine ⟨s, ?_, hw, by omega⟩
  rw [cn_encode_normal_eq a tbl (v : Int) bits 0 _ hb]
  unfold encodeFuel
  rw [hs]
  rfl

/-- fast mode, on generated graphs without out-degree 3 in reach. -/
theorem C04_terminates_fast (k t : Nat) (m : Mask) (vs : List Nat) (a : Acc) (v : Nat)
    (tbl : Option Tbl) (bits : List Nat) (hk : 1 ≤ k) (hm : m.size = 4 ^ k) (ht : 1 ≤ t)
    (h : connectCodingGraph k m t = .ok (vs, a)) (hv : v ∈ vs) (hb : IsBits bits)
    (h3 : a.NoDeg3From (v : Int)) :
    ∃ s, encode a tbl (v : Int) bits true 0 (encodeFuel a bits) = .ok (s, none) ∧
      isWalk a (v : Int) s = true ∧ s.length ≤ bits.length * a.size := by
  have hg := C03_goodFrom k t m hm hk ht vs a h v hv
  obtain ⟨s, hs⟩ := cf_encode_total a tbl bits.length bits (v : Int) (encodeFuel a bits)
    (Nat.le_refl _) hb hg h3 (Nat.le_refl _)
  have hw := (cf_encode_walkBitsD a tbl _ (v : Int) bits s hb hs).1
  have hl := Tight.encodeFast_length a tbl _ _ _ _ hs
  unfold encodeFuel at hl
  refine ⟨s, ?_, hw, by omega⟩
  unfold encode
  simp only [if_true, hs, bind, Except.bind, pure, Except.pure]
  rfl

/-- tightness in normal mode, for ANY graph and table: the last nucleotide is emitted at a
branching vertex, and the product of the out-degrees met before the last step does not exceed
the message value. -/
theorem C04_tight_normal (a : Acc) (tbl : Option Tbl) (v : Int) (bits : List Nat) (vtLen fuel : Nat)
    (s : List Char) (c : Option (List Char)) (hb : IsBits bits) (hs : s ≠ [])
    (h : encode a tbl v bits false vtLen fuel = .ok (s, c)) :
    2 ≤ a.outDeg (walkEnd a v s.dropLast) ∧
    ((radices a v s.dropLast).filter (· > 1)).foldl (· * ·) 1 ≤ bitToNumberInt bits := by
  obtain ⟨he, _⟩ := cn_encode_normal_ok hb h
  obtain ⟨_, hv, ht⟩ := cn_encodeNat_spec a tbl _ _ _ _ he
  refine ⟨Tight.tight_last a tbl s v hs ht, ?_⟩
  have hr : ∀ (l : List Char) (u : Int), radices a u l = Tight.radicesT a u l := by
    intro l
    induction l with
    | nil => intro u; rfl
    | cons c l ih => intro u; simp only [radices, Tight.radicesT, ih]
  rw [hr, ← hv]
  exact Tight.tight_prod a tbl s v hs ht

/-- consequently an `L`-bit message needs at most `L` nucleotides when every vertex met has at
least two arcs (every threshold-2 graph) … -/
theorem C04_length_branching (a : Acc) (tbl : Option Tbl) (v : Int) (bits : List Nat) (vtLen fuel : Nat)
    (s : List Char) (c : Option (List Char)) (hb : IsBits bits)
    (h : encode a tbl v bits false vtLen fuel = .ok (s, c))
    (h2 : ∀ i, i < s.length → 2 ≤ a.outDeg (walkEnd a v (s.take i))) :
    s.length ≤ bits.length := by
  obtain ⟨he, _⟩ := cn_encode_normal_ok hb h
  obtain ⟨_, hv, ht⟩ := cn_encodeNat_spec a tbl _ _ _ _ he
  by_cases hs : s = []
  · simp [hs]
  · have hp := Tight.tight_pow a tbl 2 (Nat.le_refl _) s v hs ht h2
    rw [hv] at hp
    have hlt := Nat.lt_of_le_of_lt hp (cn_bitToNumberInt_lt bits hb)
    have := (Nat.pow_lt_pow_iff_right (by omega : 1 < 2)).1 hlt
    omega

/-- … and at most `⌈L/2⌉` when every vertex met has four arcs (the complete graph). -/
theorem C04_length_complete (a : Acc) (tbl : Option Tbl) (v : Int) (bits : List Nat) (vtLen fuel : Nat)
    (s : List Char) (c : Option (List Char)) (hb : IsBits bits)
    (h : encode a tbl v bits false vtLen fuel = .ok (s, c))
    (h4 : ∀ i, i < s.length → a.outDeg (walkEnd a v (s.take i)) = 4) :
    s.length ≤ (bits.length + 1) / 2 := by
  obtain ⟨he, _⟩ := cn_encode_normal_ok hb h
  obtain ⟨_, hv, ht⟩ := cn_encodeNat_spec a tbl _ _ _ _ he
  by_cases hs : s = []
  · simp [hs]
  · have hp := Tight.tight_pow a tbl 4 (by omega) s v hs ht
      (fun i hi => Nat.le_of_eq (h4 i hi).symm)
    rw [hv, show (4 : Nat) = 2 ^ 2 from rfl, ← Nat.pow_mul] at hp
    have hlt := Nat.lt_of_le_of_lt hp (cn_bitToNumberInt_lt bits hb)
    have := (Nat.pow_lt_pow_iff_right (by omega : 1 < 2)).1 hlt
    omega

/-- tightness in fast mode, for ANY graph and table: the bits carried by the steps total `L` or
`L + 1`, and the last nucleotide is emitted at an information-carrying (2- or 4-way) vertex. -/
theorem C04_tight_fast (a : Acc) (tbl : Option Tbl) (v : Int) (bits : List Nat) (vtLen fuel : Nat)
    (s : List Char) (c : Option (List Char)) (hb : IsBits bits) (hs : s ≠ [])
    (h : encode a tbl v bits true vtLen fuel = .ok (s, c)) :
    ((walkBits a tbl v s).length = bits.length ∨ (walkBits a tbl v s).length = bits.length + 1) ∧
    (a.outDeg (walkEnd a v s.dropLast) = 2 ∨ a.outDeg (walkEnd a v s.dropLast) = 4) := by
  obtain ⟨he, _⟩ := cf_encode_fast_ok h
  obtain ⟨_, _, hbits⟩ := cf_encode_walkBitsD a tbl fuel v bits s hb he
  refine ⟨?_, Tight.fast_last a tbl fuel v bits s hb he hs⟩
  rw [← cf_walkBitsD_length]
  rcases hbits with hbits | hbits
  · left; rw [hbits]
  · right; rw [hbits]; simp

example : (connectCodingGraph 2 #[false, true, true, false, true, false, false, true,
    true, false, false, true, false, true, true, false] 2).toBool = true := by decide +kernel

end Dsw
