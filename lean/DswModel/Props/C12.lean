import DswModel.Model.Biofilter
import DswModel.Lemmas.Filter
/-!
# C12 — the local filter implements its documented window predicate

Property theorems only; helper lemmas go to `DswModel/Lemmas/Filter.lean`.
Strings are `List Char`; `p <:+: s` is "p occurs in s" (`List.IsInfix`).
The GC rule carries the integer thresholds the float comparisons of the code reduce to
(see `DswModel/Model/Biofilter.lean`).
-/
namespace Dsw

/-- the documented whole-sequence predicate, stated declaratively. -/
def DocumentedValid (c : FilterCfg) (s : List Char) : Prop :=
  (∀ ch ∈ s, ch = 'A' ∨ ch = 'C' ∨ ch = 'G' ∨ ch = 'T') ∧
  (∀ r, c.run = some r → ∀ ch, ch = 'A' ∨ ch = 'C' ∨ ch = 'G' ∨ ch = 'T' →
      ¬ List.replicate (r + 1) ch <:+: s) ∧
  (∀ ms, c.motifs = some ms → ∀ m ∈ ms, ¬ m <:+: s ∧ ¬ revComp m <:+: s) ∧
  (∀ g, c.gc = some g →
      if c.k ≤ s.length then
        ∀ i, i + c.k ≤ s.length →
          g.gcLo ≤ (gcCount ((s.drop i).take c.k) : Int) ∧ (gcCount ((s.drop i).take c.k) : Int) ≤ g.gcHi
      else (gcCount s : Int) ≤ g.gcHi ∧ (atCount s : Int) ≤ g.atHi)

/-- the whole-sequence verdict is exactly the documented predicate. -/
theorem C12_valid_all (c : FilterCfg) (s : List Char) :
    c.valid s false = true ↔ DocumentedValid c s := by
  rw [valid_false]
  exact validObserved_iff c s

/-- the last-window verdict equals the whole-sequence verdict of the final window. -/
theorem C12_last (c : FilterCfg) (s : List Char) (hk : 1 ≤ c.k) :
    c.valid s true = c.valid (s.drop (s.length - c.k)) false :=
  valid_true c s hk

/-- rules decidable inside one window: run limit shorter than the window, motifs no longer than
the window. -/
def FilterCfg.WindowDecidable (c : FilterCfg) : Prop :=
  1 ≤ c.k ∧ (∀ r, c.run = some r → r < c.k) ∧ (∀ ms, c.motifs = some ms → ∀ m ∈ ms, m.length ≤ c.k)

/-- for strings at least one window long and window-decidable configurations the whole-sequence
verdict is the conjunction of the verdicts of all windows. -/
theorem C12_window_conj (c : FilterCfg) (s : List Char) (hc : c.WindowDecidable)
    (hs : c.k ≤ s.length) :
    c.valid s false = (windows c.k s).all fun w => c.valid w false :=
  valid_eq_all_windows c s hc.1 hc.2.1 hc.2.2 hs

-- (the two hypotheses turn out not to be needed: `complement` is an involution on all characters)
set_option linter.unusedVariables false in
/-- an A/C/G/T string and its reverse complement get the same verdict (motifs are ACGT strings). -/
theorem C12_revcomp (c : FilterCfg) (s : List Char)
    (hs : ∀ ch ∈ s, (nucIdx ch).isSome = true)
    (hm : ∀ ms, c.motifs = some ms → ∀ m ∈ ms, ∀ ch ∈ m, (nucIdx ch).isSome = true) :
    c.valid (revComp s) false = c.valid s false := by
  rw [valid_false, valid_false]
  exact validObserved_revComp c s

/-- a foreign character is always rejected. -/
theorem C12_foreign (c : FilterCfg) (s : List Char) (ch : Char) (h : ch ∈ s) (hf : nucIdx ch = none) :
    c.valid s false = false :=
  valid_foreign c s ch h hf

/-- the model's `isInfix` is Python's substring test. -/
theorem C12_isInfix (p s : List Char) : isInfix p s = true ↔ p <:+: s :=
  isInfix_iff p s

/-- the constructor accepts a configuration iff run ≤ k and all motifs ≤ k. -/
theorem C12_accepted (c : FilterCfg) :
    c.accepted = true ↔ (∀ r, c.run = some r → r ≤ c.k) ∧ (∀ ms, c.motifs = some ms → ∀ m ∈ ms, m.length ≤ c.k) :=
  accepted_iff c

def exampleCfg : FilterCfg :=
  { k := 8, run := some 2, motifs := some ["GC".toList], gc := some ⟨4, 4, 4⟩ }

example : exampleCfg.valid "ACGTACGT".toList false = true ∧ exampleCfg.valid "GCATGCAT".toList false = false ∧
    exampleCfg.valid "AAACCGGA".toList false = false := by decide +kernel

end Dsw
