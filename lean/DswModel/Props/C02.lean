import DswModel.Model.Spiderweb
import DswModel.Model.Biofilter
import DswModel.Lemmas.Defs
import DswModel.Lemmas.DeBruijn
import DswModel.Lemmas.Filter
import DswModel.Lemmas.Trim
import DswModel.Props.C12
import DswModel.Lemmas.Windows
/-!
# C02 — every emitted strand obeys the biochemical constraints it was generated for

Property theorems only; helper lemmas go to `DswModel/Lemmas/Windows.lean`.

The filter is an arbitrary predicate `P` on strings (user-defined filters included); vertex
discovery marks `v` iff `P (kmerOf k v)`. A graph "generated for the filter" is any accessor all of
whose arcs are arcs of the valid graph of that mask — in particular every result of
`connectCodingGraph k mask t` — and the theorems hold for EVERY walk of it, hence for every strand
`encode` emits (C04_walk / C05), whatever the message, table and mode.
-/
namespace Dsw

/-- every arc of `a` is an arc of the graph induced on the mask `m`. -/
def SubGraphOf (k : Nat) (a : Acc) (m : Mask) : Prop :=
  ∀ v j : Nat, v < 4 ^ k → j < 4 → 0 ≤ a.ent (v : Int) j →
    a.ent (v : Int) j = (((v * 4 + j) % 4 ^ k : Nat) : Int) ∧
    m.getD v false = true ∧ m.getD ((v * 4 + j) % 4 ^ k) false = true

/-- sentence 1: every window of the observed length of `start k-mer ++ strand` satisfies the
filter — including the windows that overlap the virtual start vertex. -/
theorem C02_windows (k : Nat) (P : List Char → Bool) (m : Mask) (a : Acc) (v : Nat) (s : List Char)
    (hk : 1 ≤ k) (hm : findVertices k P = .ok m) (ha : SubGraphOf k a m) (hv : v < 4 ^ k)
    (hvm : m.getD v false = true) (hw : isWalk a (v : Int) s = true) :
    ∀ i, i + k ≤ (kmerOf k v ++ s).length → P (((kmerOf k v ++ s).drop i).take k) = true := by
  intro i hi
  obtain ⟨u, hu, hum, hwin⟩ := Windows.walk_windows hk ha s v hv hvm hw i hi
  rw [hwin, ← Windows.findVertices_getD hm u hu]
  exact hum

-- (`hk` is not needed: for `k = 0` the statement holds as well)
set_option linter.unusedVariables false in
/-- generated graphs are sub-graphs of the valid graph of the mask (thresholds ≥ 2; the
threshold-1 case follows in the same way from `C03_t1`). -/
theorem C02_generated_subgraph (k t : Nat) (m : Mask) (vs : List Nat) (a : Acc) (hk : 1 ≤ k)
    (hm : m.size = 4 ^ k) (ht : 2 ≤ t) (h : connectCodingGraph k m t = .ok (vs, a)) :
    SubGraphOf k a m ∧ ∀ v ∈ vs, v < 4 ^ k ∧ m.getD v false = true := by
  rw [Trim.connectCodingGraph_eq k m t (by omega)] at h
  cases hl : trimLoop k t (4 ^ k + 1) m with
  | error e => simp [hl, Except.map] at h
  | ok s' =>
    simp only [hl, Except.map, Except.ok.injEq, Prod.mk.injEq] at h
    obtain ⟨rfl, rfl⟩ := h
    obtain ⟨hs, hle, _⟩ := Trim.trimLoop_ok k t _ m s' hm hl
    refine ⟨Windows.arcsIn_induced k s' m hle, fun v hv => ?_⟩
    have hvs := Trim.Mask.mem_indices.1 hv
    have := Trim.Mask.lt_size_of_getD hvs
    exact ⟨by omega, hle v hvs⟩

/-- the GC thresholds are mutually consistent: a window with `gcLo ≤ gc` has at most `atHi` A/T
(this is what defect D8 violated for `lo = 0.8, k = 5` in floating point; the harness checks it
for the thresholds the code's float expressions produce). -/
def FilterCfg.GcConsistent (c : FilterCfg) : Prop := ∀ g, c.gc = some g → (c.k : Int) - g.gcLo ≤ g.atHi

/-- sentence 2: for a window-decidable built-in filter, the whole strand — alone and prefixed with
the start k-mer — passes the whole-sequence check. -/
theorem C02_whole (c : FilterCfg) (m : Mask) (a : Acc) (v : Nat) (s : List Char)
    (hc : c.WindowDecidable) (hg : c.GcConsistent)
    (hm : findVertices c.k (fun x => c.valid x true) = .ok m) (ha : SubGraphOf c.k a m)
    (hv : v < 4 ^ c.k) (hvm : m.getD v false = true) (hw : isWalk a (v : Int) s = true) :
    c.valid s false = true ∧ c.valid (kmerOf c.k v ++ s) false = true := by
  have hk := hc.1
  have hl := kmerOf_length c.k v hv
  -- every window of `kmer ++ s` passes the whole-sequence check
  have hwin : ∀ i, i + c.k ≤ (kmerOf c.k v ++ s).length →
      c.valid (((kmerOf c.k v ++ s).drop i).take c.k) false = true := by
    intro i hi
    have h : c.valid (((kmerOf c.k v ++ s).drop i).take c.k) true = true :=
      C02_windows c.k (fun x => c.valid x true) m a v s hk hm ha hv hvm hw i hi
    rw [C12_last c _ hk, window_length _ i c.k hi, Nat.sub_self, List.drop_zero] at h
    exact h
  have hlong : c.valid (kmerOf c.k v ++ s) false = true := by
    rw [C12_window_conj c _ hc (by simp [hl]), all_windows]
    intro i hi
    exact hwin i (by omega)
  refine ⟨?_, hlong⟩
  by_cases hs : c.k ≤ s.length
  · rw [C12_window_conj c s hc hs, all_windows]
    intro i hi
    have h := hwin (c.k + i) (by simp [hl]; omega)
    have h2 := Windows.drop_append_window (kmerOf c.k v) s i c.k
    rw [hl] at h2
    rw [h2] at h
    exact h
  · have h := hwin s.length (by simp [hl]; omega)
    have h2 := Windows.suffix_last_window (kmerOf c.k v) s (by omega)
    rw [hl] at h2
    exact valid_of_infix_window c s _ h2 (window_length _ _ _ (by simp [hl]; omega)) (by omega) h hg

/-- sentence 3 (partial): every accepted configuration whose run limit is not equal to the window
length is window-decidable. -/
theorem C02_ctor_partial (c : FilterCfg) (hk : 1 ≤ c.k) (ha : c.accepted = true)
    (hr : c.run ≠ some c.k) : c.WindowDecidable := by
  obtain ⟨h1, h2⟩ := (C12_accepted c).1 ha
  refine ⟨hk, fun r hrun => ?_, h2⟩
  have hle := h1 r hrun
  have hne : r ≠ c.k := fun h => hr (by rw [hrun, h])
  omega

/-- sentence 3 fails as stated (known finding K1): the constructor accepts run limit = window
length, which is not window-decidable; e.g. k = 2, run = 2: every window of "AAA" is valid, the
whole strand is not. -/
theorem C02_ctor_counterexample :
    let c : FilterCfg := { k := 2, run := some 2 }
    c.accepted = true ∧ ¬ c.WindowDecidable ∧
    (windows 2 "AAA".toList).all (fun w => c.valid w false) = true ∧ c.valid "AAA".toList false = false := by
  intro c
  refine ⟨by decide, ?_, by decide +kernel, by decide +kernel⟩
  intro h
  have := h.2.1 2 rfl
  exact absurd this (by decide)

example : findVertices 2 (fun x => ({ k := 2, run := some 1, gc := some ⟨1, 1, 1⟩ } : FilterCfg).valid x true)
    = .ok #[false, true, true, false, true, false, false, true, true, false, false, true, false, true, true, false] := by
  decide +kernel

end Dsw
