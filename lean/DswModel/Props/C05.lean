import DswModel.Model.Spiderweb
import DswModel.Lemmas.CoderDefs
import DswModel.Lemmas.Digit
import DswModel.Props.C15
import DswModel.Props.C16
import DswModel.Props.C18
import DswModel.Lemmas.CoderNormal
import DswModel.Lemmas.CoderFast
/-!
# C05 — the strand is the documented mixed-radix walk, independent of implementation

Property theorems only. Helper lemmas: `DswModel/Lemmas/CoderNormal.lean` (normal mode) and
`DswModel/Lemmas/CoderFast.lean` (fast mode).

`IsEncoding a tbl v val s` (in `CoderDefs`) is the published scheme stated declaratively with the
*documented* digit of an arc, `arcRank` (number of live arcs with a smaller key). The theorems
need the table rows to have distinct entries on the live columns at the vertices visited
(`DistinctKeys`, true for every permutation table and without a table).
-/
namespace Dsw

/-- distinct keys at every vertex (what "rows are permutations" gives). -/
def AllDistinct (a : Acc) (tbl : Option Tbl) : Prop := ∀ v, DistinctKeys a tbl v

/-- normal mode: whatever `encode` returns is the walk of the published scheme for the message
value. -/
theorem C05_encode_meets_spec (a : Acc) (tbl : Option Tbl) (v : Int) (bits : List Nat) (vtLen fuel : Nat)
    (s : List Char) (c : Option (List Char)) (hb : IsBits bits) (hd : AllDistinct a tbl)
    (h : encode a tbl v bits false vtLen fuel = .ok (s, c)) :
    IsEncoding a tbl v (bitToNumberInt bits) s := by
  exact (cn_isEncoding_iff a tbl hd v _ s).2
    (cn_encodeNat_spec a tbl _ _ _ _ (cn_encode_normal_ok hb h).1)

/-- the scheme determines the strand: two strands meeting the specification for the same value
from the same vertex are equal — so the strand is *the* walk of the scheme, whatever the
implementation. -/
theorem C05_spec_unique (a : Acc) (tbl : Option Tbl) (v : Int) (val : Nat) (s s' : List Char)
    (hd : AllDistinct a tbl) (h : IsEncoding a tbl v val s) (h' : IsEncoding a tbl v val s') : s = s' := by
  obtain ⟨w, e, t⟩ := (cn_isEncoding_iff a tbl hd v val s).1 h
  obtain ⟨w', e', t'⟩ := (cn_isEncoding_iff a tbl hd v val s').1 h'
  exact cn_tight_unique a tbl s v s' w t w' t' (e.trans e'.symm)

/-- decoding any walk whose digit sequence has a value that fits in `L` bits returns that value
big-endian at width `L` (and, in general, the `L`-symbol rendering of the value). -/
theorem C05_decode_value (a : Acc) (tbl : Option Tbl) (v : Int) (s : List Char) (L : Nat)
    (hd : AllDistinct a tbl) (hw : isWalk a v s = true) :
    decode a tbl v s L false none = .ok (numberToBitInt (walkValue a tbl v s) L) := by
  rw [cn_decode_normal_ok a tbl v s L none hw rfl, walkValueD_eq_walkValue a tbl hd s v hw]

/-- fast mode: the bits carried by the emitted strand are the message followed by at most one
padding zero, and the strand is a walk. -/
theorem C05_fast_meets_spec (a : Acc) (tbl : Option Tbl) (v : Int) (bits : List Nat) (vtLen fuel : Nat)
    (s : List Char) (c : Option (List Char)) (hb : IsBits bits) (hd : AllDistinct a tbl)
    (h : encode a tbl v bits true vtLen fuel = .ok (s, c)) :
    isWalk a v s = true ∧ (walkBits a tbl v s = bits ∨ walkBits a tbl v s = bits ++ [0]) := by
  exact cf_C05_fast_meets_spec a tbl v bits vtLen fuel s c hb hd h

/-- fast mode decoding of a walk without out-degree-3 vertices whose bits fit: the carried bits,
zero-padded to `L`. -/
theorem C05_fast_decode_value (a : Acc) (tbl : Option Tbl) (v : Int) (s : List Char) (L : Nat)
    (hd : AllDistinct a tbl) (hw : isWalk a v s = true)
    (h3 : ∀ i, i < s.length → a.outDeg (walkEnd a v (s.take i)) ≠ 3)
    (hL : (walkBits a tbl v s).length ≤ L) :
    decode a tbl v s L true none =
      .ok (walkBits a tbl v s ++ List.replicate (L - (walkBits a tbl v s).length) 0) := by
  exact cf_C05_fast_decode_value a tbl v s L hd hw h3 hL

example : IsEncoding gcBalanced2 none 1 85 "TCTCTCT".toList := by
  exact C05_encode_meets_spec gcBalanced2 none 1 [0, 1, 0, 1, 0, 1, 0, 1] 0 200 _ none
    (by unfold IsBits; decide) (fun v => distinctKeys_none _ v) (by decide +kernel)
example : encode gcBalanced2 none 1 [0, 1, 0, 1, 0, 1, 0, 1] false 0 200 = .ok ("TCTCTCT".toList, none) := by
  decide +kernel

end Dsw
