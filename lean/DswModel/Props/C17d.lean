import DswModel.Props.C17c
import DswModel.Props.C17
import DswModel.Lemmas.PowerF
import DswModel.Lemmas.PowerFLoop
import DswModel.Lemmas.PowerFInt
import DswModel.Lemmas.PowerFReg
/-!
# C17 (continued) — the universal clauses of C17 for the DOUBLE-PRECISION computation

`Props/C17.lean` proves "never more than 2 bits", "0 for an arc-less graph" and "exactly log2 d on regular graphs" for
the exact-rational model. Here the same clauses are proved for `Model/CapacityF.lean`, the operation-by-operation model of
what NumPy computes (compared with the real run bit for bit on every check): they hold for the floating-point computation
itself. In addition `C17F_total`: the double-precision iteration always returns (no non-finite intermediate value, the
iteration budget ends every repeat).

`VecF.In01 n x`: `n` non-negative binary64 values, none above 1 (the all-ones start vector, `numpy.random.random`, every
normalised eigenvector).
-/
namespace Dsw

def VecF.In01 (n : Nat) (x : VecF) : Prop :=
  x.Ok n ∧ ∀ v, v < n → (x.getD v Dbl.zero).num ≤ (x.getD v Dbl.zero).den

/-- one double-precision iteration on a vector in `[0, 1]` never fails, its eigenvalue estimate lies in `[0, 4]` (at most
four doubles of `[0, 1]` are added, and rounding is monotone with respect to the integers 0 … 4), and the normalised
vector is again in `[0, 1]`. -/
theorem C17F_step_bounds (a : Acc) (x : VecF) (hx : x.In01 a.size) (ha : a.Closed) :
    ∃ z ev, capStepF a x = some (z, ev) ∧ 0 ≤ ev.num ∧ ev.num ≤ 4 * ev.den ∧ 0 < ev.den ∧ z.In01 a.size := by
  exact PowerF.step_bounds a x hx ha

/-- TOTALITY in double precision: for start vectors in `[0, 1]` and a tolerance that is a non-negative double the model
(hence, by the bit-for-bit tie, the code) returns — every repeat ends within `maxIter + 2` iterations and no operation
produces a non-finite value. -/
theorem C17F_total (a : Acc) (tol : Dbl) (maxIter : Nat) (starts : List VecF) (ha : a.Closed)
    (htol : IsB64 tol.num tol.den ∧ 0 ≤ tol.num) (hs : ∀ x ∈ starts, x.In01 a.size) :
    ∃ res recs, approximateCapacityF a tol maxIter starts = some (res, recs) := by
  -- the tolerance plays no role for totality (an infinite relative error is simply "not below `tol`")
  have _ := htol
  exact PowerF.approxF_total a tol maxIter starts ha hs

/-- "never more than 2 bits per nucleotide", for the floating-point computation: every value whose `log2`-median the code
returns, and every recorded estimate, is a double in `(0, 4]`. -/
theorem C17F_le_four (a : Acc) (tol : Dbl) (maxIter : Nat) (starts : List VecF) (res : List Dbl) (recs : List (List Dbl))
    (ha : a.Closed) (htol : IsB64 tol.num tol.den ∧ 0 ≤ tol.num) (hs : ∀ x ∈ starts, x.In01 a.size)
    (h : approximateCapacityF a tol maxIter starts = some (res, recs)) :
    (∀ r ∈ res, 0 < r.num ∧ r.num ≤ 4 * r.den ∧ 0 < r.den) ∧
    ∀ rec ∈ recs, ∀ r ∈ rec, 0 < r.num ∧ r.num ≤ 4 * r.den ∧ 0 < r.den := by
  exact PowerF.approxF_bounds a tol maxIter starts res recs ha htol.2 hs h

/-- an arc-less graph: the model returns the value `1` (capacity `log2 1 = 0`) without iterating. -/
theorem C17F_arcless (a : Acc) (tol : Dbl) (maxIter : Nat) (starts : List VecF)
    (h : a.all (fun r => r.all (· == -1)) = true) :
    approximateCapacityF a tol maxIter starts = some ([⟨1, 1⟩], starts.map fun _ => [⟨1, 1⟩]) := by
  unfold approximateCapacityF
  rw [if_pos h]

/-- "exactly log2 d on regular graphs", for the floating-point computation: when every live vertex has exactly `d` live
successors the deterministic single-start mode (all-ones start) stops after two iterations with the estimate `d`, exactly
(every operation involved is exact in binary64: sums of at most four ones, `d / d`, `d − d`). The tolerance is any
positive double below 1 (the code's `10 ** tolerance_level`). -/
theorem C17F_regular (k d : Nat) (a : Acc) (tol : Dbl) (maxIter : Nat) (hw : WFdB k a) (hd : 1 ≤ d)
    (htol : IsB64 tol.num tol.den ∧ 0 < tol.num ∧ tol.num < tol.den) (hmax : 1 ≤ maxIter)
    (hlive : ∃ v : Nat, v < 4 ^ k ∧ a.live (v : Int) ≠ [])
    (hreg : ∀ v : Nat, v < 4 ^ k → a.live (v : Int) ≠ [] → liveSucc a v = d) :
    ∃ r, approximateCapacityF a tol maxIter [Array.replicate a.size ⟨1, 1⟩] = some ([r], [[r, r]]) ∧
      r.num = (d : Int) * r.den ∧ 0 < r.den := by
  refine ⟨PowerF.canon d, ?_, (PowerF.canon_isInt d).2, (PowerF.canon_isInt d).1⟩
  unfold approximateCapacityF
  rw [if_neg (Power.not_arcless hw hlive)]
  simp only [List.foldl_cons, List.foldl_nil]
  rw [PowerF.capLoopF_regular tol maxIter hw hd ⟨htol.1.1, htol.2.1, htol.2.2⟩ hmax hlive hreg _
    (PowerF.zeroDeadF_ones_ind hw)]
  rfl

end Dsw
