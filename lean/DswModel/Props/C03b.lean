import DswModel.Model.Graphized
import DswModel.Lemmas.Defs
import DswModel.Lemmas.UselessSpec
/-!
# C03 (continued) — `remove_useless` on ARBITRARY latter maps

`C03_latter_map` covers latter maps that come from a vertex mask. Here: any insertion-ordered map
with distinct keys (successor lists arbitrary — not necessarily de Bruijn), any threshold.
Helper lemmas go to `DswModel/Lemmas/UselessSpec.lean`.
-/
namespace Dsw

def LMap.keys (m : LMap) : List Nat := m.map (·.1)

/-- `m'` is obtained from `m` by deleting keys and deleting successors, keeping the order. -/
def LMap.SubOf (m' m : LMap) : Prop :=
  m'.keys.Sublist m.keys ∧ ∀ v ls', (v, ls') ∈ m' → ∃ ls, (v, ls) ∈ m ∧ ls'.Sublist ls

/-- every kept key has at least `t` successors and every kept successor is a kept key. -/
def LMap.ClosedT (m : LMap) (t : Nat) : Prop :=
  ∀ v ls, (v, ls) ∈ m → t ≤ ls.length ∧ ∀ w ∈ ls, w ∈ m.keys

/-- `remove_useless` never runs out of the fuel `arcs + 1`, returns a sub-map that is closed for
the threshold, and that sub-map is the largest one: every closed sub-map of the input is a sub-map
of the result. -/
theorem C03_remove_useless (m : LMap) (t : Nat) (hn : m.keys.Nodup) :
    ∃ m', removeUseless m t = .ok m' ∧ m'.SubOf m ∧ m'.ClosedT t ∧
      ∀ c : LMap, c.SubOf m → c.ClosedT t → c.keys.Nodup → c.SubOf m' := by
  obtain ⟨m', e, hs, hc, hmax⟩ := UselessSpec.removeUseless_spec m t hn
  exact ⟨m', e, hs, hc, fun c hcs hcc _ => hmax c hcs hcc⟩

example : removeUseless [(0, [1, 2]), (1, []), (2, [3, 4]), (3, [0])] 1 = .ok [(0, [2]), (2, [3]), (3, [0])] := by
  decide +kernel

end Dsw
