import DswModel.Model.Shuffle
/-!
# C18c — the seeded shuffle table, with NumPy's generator inside the model

`createRandomShufflesSeeded k seed` (`Model/Shuffle`) is `create_random_shuffles(k, seed)` with
MT19937, `random_interval` and the legacy in-place `shuffle` modelled. Here: for every `k` and
every legal seed the table has `4^k` rows, every row is a permutation of `[0,1,2,3]`, the table is
a function of `(k, seed)`, illegal seeds raise `ValueError`; and the docstring table of the Python
function is reproduced inside the kernel.

The permutation property is proved for the shuffle over an ARBITRARY source of indices
(`shuffleWith draw`, any state type, any `draw`), then instantiated with `randomInterval` on the
MT19937 state; so it does not depend on the generator's output stream, nor on the fuel of the
rejection loop. Core Lean only.
-/
namespace Dsw

/-! ## the index source stays in range (so every swap of the model is a real swap) -/

theorem rejectLoop_le {σ : Type} (nxt : σ → Nat × σ) (mask max : Nat) (fuel : Nat) (s : σ) :
    (rejectLoop nxt mask max fuel s).1 ≤ max := by
  induction fuel generalizing s with
  | zero => simp [rejectLoop]
  | succ n ih =>
    simp only [rejectLoop]
    split
    · assumption
    · exact ih _

/-- `random_interval(max) ≤ max` for every word source (fuel exhaustion included). -/
theorem randomIntervalWith_le {σ : Type} (nxt : σ → Nat × σ) (s : σ) (max : Nat) :
    (randomIntervalWith nxt s max).1 ≤ max := by
  unfold randomIntervalWith
  split
  · simp
  · exact rejectLoop_le ..

theorem randomInterval_le (s : MT.State) (max : Nat) : (randomInterval s max).1 ≤ max :=
  randomIntervalWith_le ..

/-! ## the shuffle over an arbitrary index source is a permutation -/

theorem swapIfInBounds_perm (x : Array Nat) (i j : Nat) : (x.swapIfInBounds i j).Perm x := by
  unfold Array.swapIfInBounds
  split
  · split
    · exact Array.swap_perm ..
    · exact Array.Perm.refl _
  · exact Array.Perm.refl _

theorem shuffleLoop_perm {σ : Type} (draw : σ → Nat → Nat × σ) (i : Nat) (s : σ) (x : Array Nat) :
    (shuffleLoop draw i s x).1.Perm x := by
  induction i generalizing s x with
  | zero => exact Array.Perm.refl _
  | succ n ih =>
    simp only [shuffleLoop]
    exact (ih _ _).trans (swapIfInBounds_perm ..)

/-- the legacy in-place shuffle returns a permutation of its argument, whatever the index source
returns. -/
theorem shuffleWith_perm {σ : Type} (draw : σ → Nat → Nat × σ) (s : σ) (x : List Nat) :
    (shuffleWith draw s x).1.Perm x := by
  have h := shuffleLoop_perm draw (x.length - 1) s x.toArray
  rw [Array.perm_iff_toList_perm] at h
  simpa [shuffleWith] using h

theorem shuffleRowsWith_size {σ : Type} (draw : σ → Nat → Nat × σ) (n : Nat) (s : σ)
    (acc : Array (List Nat)) : (shuffleRowsWith draw n s acc).1.size = acc.size + n := by
  induction n generalizing s acc with
  | zero => simp [shuffleRowsWith]
  | succ n ih =>
    simp only [shuffleRowsWith]
    rw [ih]
    simp [Nat.add_assoc, Nat.add_comm 1 n]

theorem shuffleRowsWith_rows {σ : Type} (draw : σ → Nat → Nat × σ) (n : Nat) (s : σ)
    (acc : Array (List Nat)) (hacc : ∀ r ∈ acc, r.Perm [0, 1, 2, 3]) :
    ∀ r ∈ (shuffleRowsWith draw n s acc).1, r.Perm [0, 1, 2, 3] := by
  induction n generalizing s acc with
  | zero => simpa [shuffleRowsWith] using hacc
  | succ n ih =>
    simp only [shuffleRowsWith]
    apply ih
    intro r hr
    rcases Array.mem_push.mp hr with h | h
    · exact hacc r h
    · exact h ▸ shuffleWith_perm ..

/-- the table built from ANY index source (any generator, any output stream): `n` rows, each a
permutation of `[0,1,2,3]`. -/
theorem C18_any_source {σ : Type} (draw : σ → Nat → Nat × σ) (n : Nat) (s : σ) :
    (shuffleRowsWith draw n s #[]).1.toList.length = n ∧
    ∀ r ∈ (shuffleRowsWith draw n s #[]).1.toList, r.Perm [0, 1, 2, 3] := by
  refine ⟨by simp [shuffleRowsWith_size], fun r hr => ?_⟩
  exact shuffleRowsWith_rows draw n s #[] (by simp) r (by simpa using hr)

/-! ## C18 for the seeded table -/

theorem createRandomShufflesSeeded_ok (k seed : Nat) (h : seed < 2 ^ 32) :
    createRandomShufflesSeeded k seed =
      .ok (shuffleRowsWith randomInterval (4 ^ k) (MT.init seed) #[]).1.toList := by
  have h' : seed < MT.W := h
  simp only [createRandomShufflesSeeded, mtSeed, if_pos h']
  rfl

/-- for every observed length and every seed NumPy accepts, the model returns a table with one row
per vertex. -/
theorem C18_seeded_shape (k seed : Nat) (h : seed < 2 ^ 32) :
    ∃ t, createRandomShufflesSeeded k seed = .ok t ∧ t.length = 4 ^ k :=
  ⟨_, createRandomShufflesSeeded_ok k seed h, (C18_any_source ..).1⟩

/-- every row of the seeded table is a permutation of `[0,1,2,3]`. -/
theorem C18_seeded_perm (k seed : Nat) (t : List (List Nat))
    (h : createRandomShufflesSeeded k seed = .ok t) : ∀ r ∈ t, r.Perm [0, 1, 2, 3] := by
  by_cases hs : seed < 2 ^ 32
  · rw [createRandomShufflesSeeded_ok k seed hs] at h
    cases h
    exact (C18_any_source ..).2
  · have h' : ¬ seed < MT.W := hs
    simp [createRandomShufflesSeeded, mtSeed, if_neg h', bind, Except.bind] at h

/-- in the form "length 4, no duplicates, entries below 4". -/
theorem C18_seeded_rows (k seed : Nat) (t : List (List Nat))
    (h : createRandomShufflesSeeded k seed = .ok t) :
    ∀ r ∈ t, r.length = 4 ∧ r.Nodup ∧ ∀ e ∈ r, e < 4 := by
  intro r hr
  have hp := C18_seeded_perm k seed t h r hr
  refine ⟨hp.length_eq, hp.nodup_iff.mpr (by decide), fun e he => ?_⟩
  have := hp.mem_iff.mp he
  simp at this
  omega

/-- the same `(k, seed)` always gives the same table: the model is a pure function, there is no
hidden generator state that earlier calls could have changed. -/
theorem C18_seeded_deterministic (k₁ seed₁ k₂ seed₂ : Nat) (hk : k₁ = k₂) (hs : seed₁ = seed₂) :
    createRandomShufflesSeeded k₁ seed₁ = createRandomShufflesSeeded k₂ seed₂ := by
  rw [hk, hs]

/-- integer seeds `≥ 2^32` raise `ValueError` (NumPy: "Seed must be between 0 and 2**32 - 1"). -/
theorem C18_seed_range (k seed : Nat) (h : 2 ^ 32 ≤ seed) :
    createRandomShufflesSeeded k seed = .error .valueError := by
  have h' : ¬ seed < MT.W := Nat.not_lt.mpr h
  simp only [createRandomShufflesSeeded, mtSeed, if_neg h']
  rfl

/-- the table of the docstring of `create_random_shuffles` (`observed_length=2`,
`random_seed=2021`), computed by the kernel: MT19937 seeding, one regeneration of the block, 50
tempered outputs (2 of them rejected by `random_interval(2)`), 48 swaps. -/
example : createRandomShufflesSeeded 2 2021 = .ok
    [[3, 2, 1, 0], [2, 3, 1, 0], [3, 1, 0, 2], [0, 3, 1, 2], [3, 2, 0, 1], [1, 0, 3, 2],
     [0, 3, 1, 2], [2, 0, 1, 3], [2, 3, 0, 1], [1, 0, 3, 2], [2, 0, 1, 3], [0, 1, 3, 2],
     [2, 3, 1, 0], [2, 0, 3, 1], [0, 1, 3, 2], [0, 3, 2, 1]] := by decide +kernel

/-- the first tempered outputs for seed 2021 (`RandomState(2021).randint(0, 2**32, 4, uint64)`). -/
example : (mtNext (MT.init 2021)).1 = 2602656884 ∧
    (mtNext (mtNext (MT.init 2021)).2).1 = 3431165269 := by decide +kernel

end Dsw
