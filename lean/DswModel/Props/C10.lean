import DswModel.Model.Spiderweb
import DswModel.Lemmas.Defs
import DswModel.Lemmas.Repair
/-!
# C10 — repair always returns

Property theorems only; helper lemmas go to `DswModel/Lemmas/Repair.lean`.
`repairDna` gives its scan loop `|s| + 1` units of fuel; an `.error .outOfFuel` result would mean
the `while` loop of the code does not advance (defect D4 on the pinned tree), an
`.error .indexError` that a look-back indexes outside its chunk.
-/
namespace Dsw

/-- for every table, start vertex, ACGT strand at least one window long and every option the
repair returns a value — it neither runs out of fuel nor raises. -/
theorem C10_total (a : Acc) (s : List Char) (v : Int) (k : Nat) (chk : Option (List Char))
    (indel : Bool) (heap : Nat) (hs : IsAcgt s) (hk : 1 ≤ k) (hlen : k ≤ s.length) :
    ∃ cands st, repairDna a s v k chk indel heap = .ok (cands, st) := by
  obtain ⟨sc, hsc, ⟨hc, hd, ha⟩, -⟩ := scan_init_inv a k s v
    (fun st => ScanCount k s st ∧ ScanDet k s st ∧ ScanAcgt st)
    ⟨ScanCount.init k s v, ScanDet.init k s v, ScanAcgt.init s v⟩
    (fun st h hlt => ⟨h.1.step a k s st hlt, h.2.1.step a k s hk st hlt, h.2.2.step a k s hs st hlt⟩)
  obtain ⟨fv, hfv, hacgt⟩ := fragFold_total a k s indel sc hk hlen hd hc ha
  obtain ⟨⟨cands, st⟩, hres⟩ := repairTail_total s chk heap sc fv hs ha.splits hacgt
  exact ⟨cands, st, by rw [repairDna_of_scan hsc hfv, hres]⟩

/-- the scan loop itself: `|s| + 1` steps always suffice, wherever the errors are. -/
theorem C10_scan_terminates (a : Acc) (s : List Char) (v : Int) (k : Nat) :
    ∃ st, scan a k s (s.length + 1) { v := v, queue := List.replicate s.length (-1) } = some st ∧
      s.length ≤ st.loc ∧ st.detected * (k + 1) ≤ s.length + k := by
  obtain ⟨st, hs, hP, hl⟩ := scan_init_inv a k s v (ScanCount k s) (ScanCount.init k s v)
    (ScanCount.step a k s)
  exact ⟨st, hs, hl, Nat.le_trans hP.det_le hP.loc_le⟩

/-- the number of successful graph look-ups is polynomial in the strand length:
at most `|s|` in the scan plus `18·k²` per detection, and there are at most `(|s| + k)/(k + 1)`
detections. -/
theorem C10_lookups (a : Acc) (s : List Char) (v : Int) (k : Nat) (chk : Option (List Char))
    (indel : Bool) (heap : Nat) (cands : List (List Char)) (st : RepairStats)
    (hk : 1 ≤ k) (h : repairDna a s v k chk indel heap = .ok (cands, st)) :
    st.visited ≤ s.length + 18 * k * (s.length + k) := by
  obtain ⟨sc, fv, hsc, hfv, ht⟩ := repairDna_ok_inv h
  obtain ⟨sc', hsc', ⟨hc, hd⟩, -⟩ := scan_init_inv a k s v
    (fun st => ScanCount k s st ∧ ScanDet k s st)
    ⟨ScanCount.init k s v, ScanDet.init k s v⟩
    (fun st h hlt => ⟨h.1.step a k s st hlt, h.2.step a k s hk st hlt⟩)
  rw [hsc] at hsc'; cases hsc'
  have hcost := fragFold_cost_le hd hc hfv
  have hvis : st.visited = fv.2 := by
    rcases repairTail_ok_inv ht with ⟨_, -, -, e⟩ | ⟨_, -, -, e, -⟩ <;> exact e
  have h1 : sc.detected * k ≤ s.length + k :=
    Nat.le_trans (Nat.mul_le_mul_left _ (Nat.le_succ k)) (Nat.le_trans hc.det_le hc.loc_le)
  have h2 : sc.detected * (k * (18 * k)) = 18 * k * (sc.detected * k) := by ac_rfl
  have h3 := Nat.mul_le_mul_left (18 * k) h1
  have h4 := hc.vis_le.2
  omega

/-- non-vacuity: a first nucleotide that is not an arc of the start vertex. -/
example : (repairDna gcBalanced2 "GTCTCTCTC".toList 1 2 none true 1000).toBool = true := by
  decide +kernel

end Dsw
