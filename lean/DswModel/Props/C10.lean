import DswModel.Model.Spiderweb
import DswModel.Lemmas.Defs
import DswModel.Lemmas.Repair
/-!
# C10 — repair always returns

Property theorems only; helper lemmas go to `DswModel/Lemmas/Repair.lean`.
`repairDna` gives its scan loop `|s| + 1` units of fuel; an `.error .outOfFuel` result would mean
the `while` loop of the code does not advance (defect D4 on the pinned tree), an
`.error .indexError` that a look-back indexes outside its chunk.
-/
namespace Dsw

/-- for every table, start vertex, ACGT strand at least one window long and every option the
repair returns a value — it neither runs out of fuel nor raises. -/
theorem C10_total (a : Acc) (s : List Char) (v : Int) (k : Nat) (chk : Option (List Char))
    (indel : Bool) (heap : Nat) (hs : IsAcgt s) (hk : 1 ≤ k) (hlen : k ≤ s.length) :
    ∃ cands st, repairDna a s v k chk indel heap = .ok (cands, st) := by
  sorry

/-- the scan loop itself: `|s| + 1` steps always suffice, wherever the errors are. -/
theorem C10_scan_terminates (a : Acc) (s : List Char) (v : Int) (k : Nat) :
    ∃ st, scan a k s (s.length + 1) { v := v, queue := List.replicate s.length (-1) } = some st ∧
      s.length ≤ st.loc ∧ st.detected * (k + 1) ≤ s.length + k := by
  obtain ⟨st, hs, hP, hl⟩ := scan_init_inv a k s v (ScanCount k s) (ScanCount.init k s v)
    (ScanCount.step a k s)
  exact ⟨st, hs, hl, Nat.le_trans hP.det_le hP.loc_le⟩

/-- the number of successful graph look-ups is polynomial in the strand length:
at most `|s|` in the scan plus `18·k²` per detection, and there are at most `(|s| + k)/(k + 1)`
detections. -/
theorem C10_lookups (a : Acc) (s : List Char) (v : Int) (k : Nat) (chk : Option (List Char))
    (indel : Bool) (heap : Nat) (cands : List (List Char)) (st : RepairStats)
    (hk : 1 ≤ k) (h : repairDna a s v k chk indel heap = .ok (cands, st)) :
    st.visited ≤ s.length + 18 * k * (s.length + k) := by
  sorry

/-- non-vacuity: a first nucleotide that is not an arc of the start vertex. -/
example : (repairDna gcBalanced2 "GTCTCTCTC".toList 1 2 none true 1000).toBool = true := by
  decide +kernel

end Dsw
