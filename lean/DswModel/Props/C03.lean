import DswModel.Model.Spiderweb
import DswModel.Lemmas.Defs
import DswModel.Lemmas.Trim
/-!
# C03 — the coding graph is the largest closed sub-graph, or a ValueError

Property theorems only; helper lemmas go to `DswModel/Lemmas/Trim.lean` (threshold ≥ 2 and the
first phase) and `DswModel/Lemmas/TrimOne.lean` (threshold-1 phase).

Vertex sets are masks (`Array Bool` of size `4^k`); `m.has v` is membership.
-/
namespace Dsw

def Mask.has (m : Mask) (v : Nat) : Prop := m.getD v false = true

/-- `S ⊆ T`. -/
def Mask.Sub (s t : Mask) : Prop := ∀ v, s.has v → t.has v

/-- number of shift-successors of `v` that lie in `S`. -/
def succIn (k : Nat) (s : Mask) (v : Nat) : Nat :=
  ((obtainLatters k v).filter fun w => s.getD w false).length

/-- every retained vertex has at least `t` retained successors. -/
def Closed (k t : Nat) (s : Mask) : Prop := ∀ v, s.has v → t ≤ succIn k s v

/-- `v` can reach, inside `S`, a vertex with two or more successors in `S`. -/
inductive ReachesBranching (k : Nat) (s : Mask) : Nat → Prop
  | here (v : Nat) : s.has v → 2 ≤ succIn k s v → ReachesBranching k s v
  | step (v w : Nat) : s.has v → w ∈ obtainLatters k v → s.has w → ReachesBranching k s w →
      ReachesBranching k s v

/-- the threshold-1 notion: at least one retained successor and a branching vertex in reach. -/
def Closed1 (k : Nat) (s : Mask) : Prop :=
  ∀ v, s.has v → 1 ≤ succIn k s v ∧ ReachesBranching k s v

/-- the property's notion of "closed" for threshold `t`. -/
def ClosedFor (k t : Nat) (s : Mask) : Prop := if t = 1 then Closed1 k s else Closed k t s

/-- what graph generation must return for a mask `m` and threshold `t`:
`S` is the largest closed subset of `m`, the accessor is the sub-graph induced on `S`, and the
vertex description lists exactly `S` (which is exactly the set of vertices that have arcs). -/
def IsLargestClosed (k t : Nat) (m s : Mask) : Prop :=
  s.size = 4 ^ k ∧ s.Sub m ∧ ClosedFor k t s ∧
  ∀ s' : Mask, s'.size = 4 ^ k → s'.Sub m → ClosedFor k t s' → s'.Sub s

/-- full statement on the model: for every mask and every threshold `1 ≤ t ≤ 4`. -/
def C03_statement : Prop :=
  ∀ (k t : Nat) (m : Mask), m.size = 4 ^ k → 1 ≤ k → 1 ≤ t → t ≤ 4 →
    (∀ vs a, connectCodingGraph k m t = .ok (vs, a) →
        ∃ s : Mask, IsLargestClosed k t m s ∧ a = inducedAccessor k s ∧ vs = s.indices ∧
          vs = obtainVertices a ∧ vs ≠ []) ∧
    (∀ e, connectCodingGraph k m t = .error e →
        e = .valueError ∧ ∀ s : Mask, s.size = 4 ^ k → s.Sub m → ClosedFor k t s → s.indices = [])

/-- thresholds 2, 3, 4 (the trimming loop with the code's own stopping rule computes the greatest
fixed point; `4^k + 1` rounds of fuel always suffice). -/
theorem C03_gfp (k t : Nat) (m : Mask) (hm : m.size = 4 ^ k) (hk : 1 ≤ k) (ht : 2 ≤ t) :
    (∀ vs a, connectCodingGraph k m t = .ok (vs, a) →
        ∃ s : Mask, IsLargestClosed k t m s ∧ a = inducedAccessor k s ∧ vs = s.indices ∧
          vs = obtainVertices a ∧ vs ≠ []) ∧
    (∀ e, connectCodingGraph k m t = .error e →
        e = .valueError ∧ ∀ s : Mask, s.size = 4 ^ k → s.Sub m → ClosedFor k t s → s.indices = []) := by
  sorry

/-- the first phase alone, for every threshold including 1: `trimLoop` returns the greatest
`Closed k t` subset, or `ValueError` iff that subset is empty; it never runs out of fuel. -/
theorem C03_trimLoop (k t : Nat) (m : Mask) (hm : m.size = 4 ^ k) (hk : 1 ≤ k) :
    (∀ s, trimLoop k t (4 ^ k + 1) m = .ok s →
        s.size = 4 ^ k ∧ s.Sub m ∧ Closed k t s ∧
        (∀ s' : Mask, s'.Sub m → Closed k t s' → s'.Sub s) ∧ s.indices ≠ []) ∧
    (∀ e, trimLoop k t (4 ^ k + 1) m = .error e →
        e = .valueError ∧ ∀ s' : Mask, s'.Sub m → Closed k t s' → ∀ v, v < 4 ^ k → ¬ s'.has v) := by
  sorry

/-- a smaller mask never yields a larger graph (t ≥ 2). -/
theorem C03_mono (k t : Nat) (m m' : Mask) (hm : m.size = 4 ^ k) (hm' : m'.size = 4 ^ k) (hk : 1 ≤ k)
    (ht : 2 ≤ t) (hsub : m.Sub m') (vs : List Nat) (a : Acc)
    (h : connectCodingGraph k m t = .ok (vs, a)) :
    ∃ vs' a', connectCodingGraph k m' t = .ok (vs', a') ∧ (∀ v ∈ vs, v ∈ vs') ∧
      ∀ v j, v < 4 ^ k → j < 4 → 0 ≤ a.ent v j → a'.ent v j = a.ent v j := by
  sorry

/-- the input mask is an immutable value in the model; the function is a pure function of it
(the implementation side of "the input mask is not modified" is observed by the harness). -/
theorem C03_pure (k t : Nat) (m : Mask) : connectCodingGraph k m t = connectCodingGraph k (Array.mk m.toList) t := by
  rfl

example : connectCodingGraph 2 #[false, true, true, false, true, false, false, true,
    true, false, false, true, false, true, true, false] 2 = .ok ([1, 2, 4, 7, 8, 11, 13, 14], gcBalanced2) := by
  decide +kernel
example : connectCodingGraph 1 #[true, false, false, false] 2 = .error .valueError := by decide +kernel

end Dsw
