import DswModel.Model.Spiderweb
import DswModel.Lemmas.Defs
import DswModel.Lemmas.Trim
import DswModel.Lemmas.TrimOne
import DswModel.Lemmas.CoderDefs
/-!
# C03 — the coding graph is the largest closed sub-graph, or a ValueError

Property theorems only; helper lemmas go to `DswModel/Lemmas/Trim.lean` (threshold ≥ 2 and the
first phase) and `DswModel/Lemmas/TrimOne.lean` (threshold-1 phase).

Vertex sets are masks (`Array Bool` of size `4^k`); `m.has v` is membership.
-/
namespace Dsw

def Mask.has (m : Mask) (v : Nat) : Prop := m.getD v false = true

/-- `S ⊆ T`. -/
def Mask.Sub (s t : Mask) : Prop := ∀ v, s.has v → t.has v

/-- number of shift-successors of `v` that lie in `S`. -/
def succIn (k : Nat) (s : Mask) (v : Nat) : Nat :=
  ((obtainLatters k v).filter fun w => s.getD w false).length

/-- every retained vertex has at least `t` retained successors. -/
def Closed (k t : Nat) (s : Mask) : Prop := ∀ v, s.has v → t ≤ succIn k s v

/-- `v` can reach, inside `S`, a vertex with two or more successors in `S`. -/
inductive ReachesBranching (k : Nat) (s : Mask) : Nat → Prop
  | here (v : Nat) : s.has v → 2 ≤ succIn k s v → ReachesBranching k s v
  | step (v w : Nat) : s.has v → w ∈ obtainLatters k v → s.has w → ReachesBranching k s w →
      ReachesBranching k s v

/-- the threshold-1 notion: at least one retained successor and a branching vertex in reach. -/
def Closed1 (k : Nat) (s : Mask) : Prop :=
  ∀ v, s.has v → 1 ≤ succIn k s v ∧ ReachesBranching k s v

/-- the property's notion of "closed" for threshold `t`. -/
def ClosedFor (k t : Nat) (s : Mask) : Prop := if t = 1 then Closed1 k s else Closed k t s

/-- what graph generation must return for a mask `m` and threshold `t`:
`S` is the largest closed subset of `m`, the accessor is the sub-graph induced on `S`, and the
vertex description lists exactly `S` (which is exactly the set of vertices that have arcs). -/
def IsLargestClosed (k t : Nat) (m s : Mask) : Prop :=
  s.size = 4 ^ k ∧ s.Sub m ∧ ClosedFor k t s ∧
  ∀ s' : Mask, s'.size = 4 ^ k → s'.Sub m → ClosedFor k t s' → s'.Sub s

/-- full statement on the model: for every mask and every threshold `1 ≤ t ≤ 4`. -/
def C03_statement : Prop :=
  ∀ (k t : Nat) (m : Mask), m.size = 4 ^ k → 1 ≤ k → 1 ≤ t → t ≤ 4 →
    (∀ vs a, connectCodingGraph k m t = .ok (vs, a) →
        ∃ s : Mask, IsLargestClosed k t m s ∧ a = inducedAccessor k s ∧ vs = s.indices ∧
          vs = obtainVertices a ∧ vs ≠ []) ∧
    (∀ e, connectCodingGraph k m t = .error e →
        e = .valueError ∧ ∀ s : Mask, s.size = 4 ^ k → s.Sub m → ClosedFor k t s → s.indices = [])

/-- thresholds 2, 3, 4 (the trimming loop with the code's own stopping rule computes the greatest
fixed point; `4^k + 1` rounds of fuel always suffice). -/
theorem C03_gfp (k t : Nat) (m : Mask) (hm : m.size = 4 ^ k) (hk : 1 ≤ k) (ht : 2 ≤ t) :
    (∀ vs a, connectCodingGraph k m t = .ok (vs, a) →
        ∃ s : Mask, IsLargestClosed k t m s ∧ a = inducedAccessor k s ∧ vs = s.indices ∧
          vs = obtainVertices a ∧ vs ≠ []) ∧
    (∀ e, connectCodingGraph k m t = .error e →
        e = .valueError ∧ ∀ s : Mask, s.size = 4 ^ k → s.Sub m → ClosedFor k t s → s.indices = []) := by
  have ht1 : t ≠ 1 := by omega
  have hCF : ∀ s : Mask, ClosedFor k t s ↔ Closed k t s := by
    intro s; simp [ClosedFor, ht1]
  have hfuel : m.count < 4 ^ k + 1 := by
    have := Trim.Mask.count_le_size m; omega
  rw [Trim.connectCodingGraph_eq k m t ht1]
  refine ⟨fun vs a h => ?_, fun e h => ?_⟩
  · cases hl : trimLoop k t (4 ^ k + 1) m with
    | error e' => rw [hl] at h; cases h
    | ok s =>
      rw [hl] at h
      cases h
      obtain ⟨h1, h2, h3, h4, h5⟩ := Trim.trimLoop_ok k t _ m s hm hl
      refine ⟨s, ⟨h1, h2, (hCF s).2 h3, fun s' _ hs' hc' => h4 s' hs' ((hCF s').1 hc')⟩,
        rfl, rfl, ?_, Trim.Mask.indices_ne_nil_of_count_pos h5⟩
      exact (Trim.obtainVertices_inducedAccessor h1 (by omega) h3).symm
  · cases hl : trimLoop k t (4 ^ k + 1) m with
    | ok s => rw [hl] at h; cases h
    | error e' =>
      rw [hl] at h
      cases h
      obtain ⟨h1, h2⟩ := Trim.trimLoop_error k t _ m e hm hfuel hl
      refine ⟨h1, fun s _ hsub hc => ?_⟩
      apply List.eq_nil_iff_forall_not_mem.2
      intro v hv
      exact h2 s hsub ((hCF s).1 hc) v (Trim.Mask.mem_indices.1 hv)

/-- the first phase alone, for every threshold including 1: `trimLoop` returns the greatest
`Closed k t` subset, or `ValueError` iff that subset is empty; it never runs out of fuel. -/
theorem C03_trimLoop (k t : Nat) (m : Mask) (hm : m.size = 4 ^ k) (hk : 1 ≤ k) :
    (∀ s, trimLoop k t (4 ^ k + 1) m = .ok s →
        s.size = 4 ^ k ∧ s.Sub m ∧ Closed k t s ∧
        (∀ s' : Mask, s'.Sub m → Closed k t s' → s'.Sub s) ∧ s.indices ≠ []) ∧
    (∀ e, trimLoop k t (4 ^ k + 1) m = .error e →
        e = .valueError ∧ ∀ s' : Mask, s'.Sub m → Closed k t s' → ∀ v, v < 4 ^ k → ¬ s'.has v) := by
  have hfuel : m.count < 4 ^ k + 1 := by
    have := Trim.Mask.count_le_size m; omega
  refine ⟨fun s h => ?_, fun e h => ?_⟩
  · obtain ⟨h1, h2, h3, h4, h5⟩ := Trim.trimLoop_ok k t _ m s hm h
    exact ⟨h1, h2, h3, h4, Trim.Mask.indices_ne_nil_of_count_pos h5⟩
  · obtain ⟨h1, h2⟩ := Trim.trimLoop_error k t _ m e hm hfuel h
    exact ⟨h1, fun s' hs hc v _ => h2 s' hs hc v⟩

/-- a smaller mask never yields a larger graph (t ≥ 2). -/
theorem C03_mono (k t : Nat) (m m' : Mask) (hm : m.size = 4 ^ k) (hm' : m'.size = 4 ^ k) (hk : 1 ≤ k)
    (ht : 2 ≤ t) (hsub : m.Sub m') (vs : List Nat) (a : Acc)
    (h : connectCodingGraph k m t = .ok (vs, a)) :
    ∃ vs' a', connectCodingGraph k m' t = .ok (vs', a') ∧ (∀ v ∈ vs, v ∈ vs') ∧
      ∀ v j, v < 4 ^ k → j < 4 → 0 ≤ a.ent v j → a'.ent v j = a.ent v j := by
  have ht1 : t ≠ 1 := by omega
  have hfuel : m'.count < 4 ^ k + 1 := by
    have := Trim.Mask.count_le_size m'; omega
  rw [Trim.connectCodingGraph_eq k m t ht1] at h
  rw [Trim.connectCodingGraph_eq k m' t ht1]
  cases hl : trimLoop k t (4 ^ k + 1) m with
  | error e => rw [hl] at h; cases h
  | ok s =>
    rw [hl] at h
    cases h
    obtain ⟨_, h2, h3, _, h5⟩ := Trim.trimLoop_ok k t _ m s hm hl
    have hsm' : Trim.Mask.Le s m' := Trim.Mask.Le.trans h2 hsub
    cases hl' : trimLoop k t (4 ^ k + 1) m' with
    | error e =>
      exfalso
      obtain ⟨v, _, hv⟩ := Trim.Mask.exists_of_count_pos h5
      exact (Trim.trimLoop_error k t _ m' e hm' hfuel hl').2 s hsm' h3 v hv
    | ok s' =>
      have hss' : Trim.Mask.Le s s' := Trim.trimLoop_ok_max hm' hl' hsm' h3
      refine ⟨s'.indices, inducedAccessor k s', rfl, fun v hv => ?_, fun v j hv hj hent => ?_⟩
      · exact Trim.Mask.mem_indices.2 (hss' v (Trim.Mask.mem_indices.1 hv))
      · exact Trim.inducedAccessor_ent_mono hss' v j hv hj hent

/-- `ReachesBranching` and `Closed1` are the `RB` and `ClosedOne` of `Lemmas/TrimOne.lean`. -/
theorem C03_reaches_iff (k : Nat) (s : Mask) (v : Nat) :
    ReachesBranching k s v ↔ TrimOne.RB k s v := by
  constructor
  · intro h
    induction h with
    | here v h1 h2 => exact TrimOne.RB.here v h1 h2
    | step v w h1 h2 h3 _ ih => exact TrimOne.RB.step v w h1 h2 h3 ih
  · intro h
    induction h with
    | here v h1 h2 => exact ReachesBranching.here v h1 h2
    | step v w h1 h2 h3 _ ih => exact ReachesBranching.step v w h1 h2 h3 ih

theorem C03_closed1_iff (k : Nat) (s : Mask) : Closed1 k s ↔ TrimOne.ClosedOne k s := by
  constructor
  · intro h v hv
    exact ⟨(h v hv).1, (C03_reaches_iff k s v).1 (h v hv).2⟩
  · intro h v hv
    exact ⟨(h v hv).1, (C03_reaches_iff k s v).2 (h v hv).2⟩

/-- threshold 1: after the trimming loop the code repeatedly removes every vertex that cannot
reach a vertex with two or more arcs (backward closure from the branching vertices) and cascades
the removal to predecessors left without arcs; the result is the largest `Closed1` sub-graph, or
`ValueError`; none of the fuel-bounded loops of the model runs out of fuel. -/
theorem C03_t1 (k : Nat) (m : Mask) (hm : m.size = 4 ^ k) (hk : 1 ≤ k) :
    (∀ vs a, connectCodingGraph k m 1 = .ok (vs, a) →
        ∃ s : Mask, IsLargestClosed k 1 m s ∧ a = inducedAccessor k s ∧ vs = s.indices ∧
          vs = obtainVertices a ∧ vs ≠ []) ∧
    (∀ e, connectCodingGraph k m 1 = .error e →
        e = .valueError ∧ ∀ s : Mask, s.size = 4 ^ k → s.Sub m → ClosedFor k 1 s → s.indices = []) := by
  have hCF : ∀ s : Mask, ClosedFor k 1 s ↔ TrimOne.ClosedOne k s := by
    intro s; simp only [ClosedFor, if_true]; exact C03_closed1_iff k s
  have hfuel : m.count < 4 ^ k + 1 := by
    have := Trim.Mask.count_le_size m; omega
  rw [TrimOne.connectCodingGraph_one]
  cases hl : trimLoop k 1 (4 ^ k + 1) m with
  | error e' =>
    refine ⟨fun vs a h => (by cases h), fun e h => ?_⟩
    cases h
    obtain ⟨h1, h2⟩ := Trim.trimLoop_error k 1 _ m e' hm hfuel hl
    refine ⟨h1, fun s _ hsub hc => ?_⟩
    apply List.eq_nil_iff_forall_not_mem.2
    intro v hv
    exact h2 s hsub ((hCF s).1 hc).trimClosed v (Trim.Mask.mem_indices.1 hv)
  | ok s0 =>
    obtain ⟨h1, h2, h3, h4, _⟩ := Trim.trimLoop_ok k 1 _ m s0 hm hl
    obtain ⟨m1, m2⟩ := TrimOne.thresholdOne_main hk h3
    refine ⟨fun vs a h => ?_, fun e h => ?_⟩
    · obtain ⟨s, g1, g2, g3, g4, g5, g6, g7, g8⟩ := m1 vs a h
      refine ⟨s, ⟨g1, Trim.Mask.Le.trans g2 h2, (hCF s).2 g3, fun s' hs' hsub hc' => ?_⟩,
        g5, g6, g7, g8⟩
      have hc := (hCF s').1 hc'
      exact g4 s' hs' (h4 s' hsub hc.trimClosed) hc
    · obtain ⟨g1, g2⟩ := m2 e h
      refine ⟨g1, fun s hs hsub hc' => ?_⟩
      have hc := (hCF s).1 hc'
      apply List.eq_nil_iff_forall_not_mem.2
      intro v hv
      exact g2 s hs (h4 s hsub hc.trimClosed) hc v (Trim.Mask.mem_indices.1 hv)

/-- the full statement, every threshold 1…4. -/
theorem C03_holds : C03_statement := by
  intro k t m hm hk ht _
  by_cases h1 : t = 1
  · subst h1; exact C03_t1 k m hm hk
  · exact C03_gfp k t m hm hk (by omega)

/-- what the encoder needs from a generated graph (used by C04), for every threshold `t ≥ 1`:
from every listed vertex, every vertex reachable along arcs is a row index, has an arc, and
reaches a vertex with two or more arcs. -/
theorem C03_goodFrom (k t : Nat) (m : Mask) (hm : m.size = 4 ^ k) (hk : 1 ≤ k) (ht : 1 ≤ t)
    (vs : List Nat) (a : Acc) (h : connectCodingGraph k m t = .ok (vs, a)) :
    ∀ v ∈ vs, a.GoodFrom (v : Int) := by
  have key : ∃ s : Mask, IsLargestClosed k t m s ∧ a = inducedAccessor k s ∧ vs = s.indices ∧
      vs = obtainVertices a ∧ vs ≠ [] := by
    by_cases h1 : t = 1
    · subst h1; exact (C03_t1 k m hm hk).1 vs a h
    · exact (C03_gfp k t m hm hk (by omega)).1 vs a h
  obtain ⟨s, ⟨hs1, _, hs3, _⟩, rfl, rfl, _, _⟩ := key
  have hc : TrimOne.ClosedOne k s := by
    by_cases h1 : t = 1
    · subst h1
      simp only [ClosedFor, if_true] at hs3
      exact (C03_closed1_iff k s).1 hs3
    · simp only [ClosedFor, h1, if_false] at hs3
      exact TrimOne.trimClosed_closedOne (by omega) hs3
  intro v hv
  exact TrimOne.induced_goodFrom hs1 hc (Trim.Mask.mem_indices.1 hv)

/-- trimming a latter map to the same threshold gives the same graph for t ≥ 2. -/
theorem C03_latter_map (k t : Nat) (m : Mask) (hm : m.size = 4 ^ k) (hk : 1 ≤ k) (ht : 2 ≤ t)
    (vs : List Nat) (a : Acc) (h : connectCodingGraph k m t = .ok (vs, a)) :
    latterMapToAccessor (accessorToLatterMap (inducedAccessor k m)) k (some t) = .ok a := by
  have ht1 : t ≠ 1 := by omega
  rw [Trim.connectCodingGraph_eq k m t ht1] at h
  cases hl : trimLoop k t (4 ^ k + 1) m with
  | error e => rw [hl] at h; cases h
  | ok s =>
    rw [hl] at h
    cases h
    exact TrimOne.latterMap_trim hk (by omega) hm hl

/-- the input mask is an immutable value in the model; the function is a pure function of it
(the implementation side of "the input mask is not modified" is observed by the harness). -/
theorem C03_pure (k t : Nat) (m : Mask) : connectCodingGraph k m t = connectCodingGraph k (Array.mk m.toList) t := by
  rfl

example : connectCodingGraph 2 #[false, true, true, false, true, false, false, true,
    true, false, false, true, false, true, true, false] 2 = .ok ([1, 2, 4, 7, 8, 11, 13, 14], gcBalanced2) := by
  decide +kernel
example : connectCodingGraph 1 #[true, false, false, false] 2 = .error .valueError := by decide +kernel
/-- threshold 1 on a mask with an information-free cycle (vertex AA alone) next to a branching part. -/
example : (connectCodingGraph 2 #[true, true, true, false, true, false, false, false,
    true, false, false, false, false, false, false, false] 1).toBool = true := by decide +kernel

end Dsw
