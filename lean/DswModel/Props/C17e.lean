import DswModel.Props.C17d
import DswModel.Lemmas.PowerFSeed
/-!
# C17 (continued) — the randomised call, seeded, entirely inside the model

`approximateCapacitySeeded a tol maxIter repeats seed` is `numpy.random.seed(seed)` followed by the randomised
`approximate_capacity` call: the model's MT19937 (`Model/Shuffle.lean`) draws the start vectors exactly as
`numpy.random.random` does, then `Model/CapacityF.lean` iterates in double precision (the harness compares the result with
NumPy's character for character, operation `capr`). For EVERY 32-bit seed, every number of repeats, every graph, tolerance
and iteration budget the call returns, and everything it reports is a double in `(0, 4]` — the randomised mode never
exceeds 2 bits per nucleotide and always terminates, for the floating-point computation itself.
-/
namespace Dsw

/-- the drawn start vectors are vectors of binary64 values in `[0, 1)`. -/
theorem C17F_randomStarts_in01 (n repeats : Nat) (s : MT.State) :
    ∀ x ∈ randomStarts n repeats s, x.In01 n := by
  induction repeats generalizing s with
  | zero => intro x hx; simp [randomStarts] at hx
  | succ r ih =>
    intro x hx
    simp only [randomStarts, List.mem_cons] at hx
    rcases hx with hx | hx
    · subst hx
      exact PowerFSeed.toArray_in01 _ (PowerFSeed.randomDoubles_good n s)
    · exact ih _ x hx

/-- the seeded randomised call always returns, and every value it reports lies in `(0, 4]`. -/
theorem C17F_seeded (a : Acc) (tol : Dbl) (maxIter repeats seed : Nat) (ha : a.Closed)
    (htol : IsB64 tol.num tol.den ∧ 0 ≤ tol.num) (hseed : seed < 2 ^ 32) :
    ∃ res recs, approximateCapacitySeeded a tol maxIter repeats seed = .ok (some (res, recs)) ∧
      (∀ r ∈ res, 0 < r.num ∧ r.num ≤ 4 * r.den ∧ 0 < r.den) ∧
      ∀ rec ∈ recs, ∀ r ∈ rec, 0 < r.num ∧ r.num ≤ 4 * r.den ∧ 0 < r.den := by
  have hW : seed < MT.W := by simpa [MT.W] using hseed
  have hs := C17F_randomStarts_in01 a.size repeats (MT.init seed)
  obtain ⟨res, recs, h⟩ := C17F_total a tol maxIter _ ha htol hs
  refine ⟨res, recs, ?_, C17F_le_four a tol maxIter _ res recs ha htol hs h⟩
  unfold approximateCapacitySeeded mtSeed
  rw [if_pos hW]
  show Except.ok _ = _
  rw [h]

end Dsw
