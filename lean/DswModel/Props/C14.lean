import DswModel.Model.Spiderweb
import DswModel.Lemmas.Defs
import DswModel.Lemmas.DeBruijn
import DswModel.Lemmas.Convert3
/-!
# C14 — the three graph representations are interchangeable

Property theorems only; helper lemmas go to `DswModel/Lemmas/Convert3.lean`.
`WFdB k a` = `a` is an arc subset of the order-`k` de Bruijn graph (any arc subset, not only
complete or vertex-induced ones).
-/
namespace Dsw

/-- accessor → latter map → accessor is the identity. -/
theorem C14_latter_map_roundtrip (k : Nat) (a : Acc) (hk : 1 ≤ k) (h : WFdB k a) :
    latterMapToAccessor (accessorToLatterMap a) k none = .ok a := by
  exact latterMap_roundtrip k a hk h

/-- accessor → adjacency matrix → accessor is the identity. -/
theorem C14_matrix_roundtrip (k : Nat) (a : Acc) (hk : 1 ≤ k) (h : WFdB k a) :
    ∃ mx, accessorToAdjacencyMatrix a = .ok mx ∧ adjacencyMatrixToAccessor mx = .ok a := by
  exact ⟨adjRows a, h.adjMatrix_ok, matrix_roundtrip k a hk h⟩

/-- the latter map lists exactly the live successors (in column order) of exactly the vertices
that have any, in increasing vertex order. -/
theorem C14_latter_map_content (k : Nat) (a : Acc) (h : WFdB k a) :
    (accessorToLatterMap a).map (·.1) = (List.range (4 ^ k)).filter (fun (v : Nat) => decide (a.live (v : Int) ≠ [])) ∧
    ∀ (v : Nat) ls, (v, ls) ∈ accessorToLatterMap a → ls = (a.live (v : Int)).map fun j => (v * 4 + j) % 4 ^ k := by
  constructor
  · rw [← h.obtainVertices_eq]
    simp [accessorToLatterMap, Function.comp_def]
  · intro v ls hmem
    simp only [accessorToLatterMap, List.mem_map, Prod.mk.injEq] at hmem
    obtain ⟨u, hu, rfl, rfl⟩ := hmem
    exact h.liveEntries_eq ((h.mem_obtainVertices u).1 hu).1

/-- the matrix has a 1 exactly at the arcs. -/
theorem C14_matrix_content (k : Nat) (a : Acc) (mx : Matrix) (h : WFdB k a)
    (hm : accessorToAdjacencyMatrix a = .ok mx) :
    mx.size = 4 ^ k ∧ ∀ u w, u < 4 ^ k → w < 4 ^ k →
      ((mx.getD u #[]).getD w 0 = 1 ↔ ∃ j, j < 4 ∧ a.ent u j = (w : Int)) ∧
      ((mx.getD u #[]).getD w 0 = 0 ∨ (mx.getD u #[]).getD w 0 = 1) := by
  have := adjMatrix_of_ok a mx hm
  subst this
  refine ⟨by rw [adjRows_size, h.1], fun u w hu hw => ⟨?_, ?_⟩⟩
  · exact adjRows_one_iff a u w (by rw [h.1]; exact hu) (by rw [h.1]; exact hw)
  · exact adjRows_bit a u w (by rw [h.1]; exact hu)

/-- vertex listing returns exactly the vertices with arcs. -/
theorem C14_vertices (k : Nat) (a : Acc) (h : WFdB k a) :
    obtainVertices a = (List.range (4 ^ k)).filter (fun (v : Nat) => decide (a.live (v : Int) ≠ [])) := by
  exact h.obtainVertices_eq

/-- end points of all `d`-step walks from `v`, as a list (multiset semantics via `List.Perm`). -/
def walkEnds (a : Acc) : Nat → Nat → List Nat
  | 0, v => [v]
  | d + 1, v => (a.liveEntries v).flatMap fun w => walkEnds a d w

/-- depth-d leaf queries give the same list from either representation, equal (as a multiset) to
the end points of all d-step walks. -/
theorem C14_leaves (k : Nat) (a : Acc) (v d : Nat) (h : WFdB k a) (hv : v < 4 ^ k) :
    obtainLeafVertices v d (some a) none = .ok (leafAcc a d [v]) ∧
    obtainLeafVertices v d none (some (accessorToLatterMap a)) = .ok (leafAcc a d [v]) ∧
    (leafAcc a d [v]).Perm (walkEnds a d v) := by
  have _ := hv
  refine ⟨rfl, ?_, ?_⟩
  · show Except.ok (leafMap (accessorToLatterMap a) d [v]) = _
    rw [leafMap_eq_leafAcc h]
  · rw [leafAcc_eq_flatMap a (walkEnds a) (fun _ => rfl) (fun _ _ => rfl) d [v]]
    simp

/-- a matrix containing any arc that is not a de Bruijn shift is rejected with `ValueError`. -/
theorem C14_illegal_matrix (k : Nat) (mx : Matrix) (u w : Nat) (hs : mx.size = 4 ^ k)
    (hu : u < 4 ^ k) (hw : w < (mx.getD u #[]).size) (h1 : (mx.getD u #[]).getD w 0 = 1)
    (hnot : w ∉ obtainLatters k u) :
    adjacencyMatrixToAccessor mx = .error .valueError := by
  exact illegal_matrix k mx u w hs hu hw h1 hnot

example : latterMapToAccessor (accessorToLatterMap gcBalanced2) 2 none = .ok gcBalanced2 := by decide +kernel
example : wfdbB 2 gcBalanced2 = true := by decide +kernel

end Dsw
