import DswModel.Model.Operation
import DswModel.Lemmas.Decimal
/-!
# C15 — string big-number arithmetic equals integer arithmetic

Property theorems only; helper lemmas live in `DswModel/Lemmas/Decimal.lean`.
A decimal string is *canonical* when all its symbols are digits, it is non-empty and it has no
leading zero unless it is `"0"`. Canonical strings are determined by their value
(`C15_canonical_unique`), so "returns the canonical decimal string of the exact result" is:
the result is canonical and has the exact value.
-/
namespace Dsw

/-- full statement of the property on the model. -/
def C15_statement : Prop :=
  ∀ (s : Dec) (b : Nat), s.Canonical → b < 10 →
    ((calculusAddition s b).Canonical ∧ (calculusAddition s b).toNat = s.toNat + b) ∧
    ((calculusMultiplication s b).Canonical ∧ (calculusMultiplication s b).toNat = s.toNat * b) ∧
    (1 ≤ b → (calculusDivision s b).1.Canonical ∧ (calculusDivision s b).1.toNat = s.toNat / b ∧
             (calculusDivision s b).2.Canonical ∧ (calculusDivision s b).2.toNat = s.toNat % b) ∧
    (b ≤ s.toNat → (calculusSubtraction s b).Canonical ∧ (calculusSubtraction s b).toNat = s.toNat - b)

theorem C15_canonical_unique (s t : Dec) (hs : s.Canonical) (ht : t.Canonical)
    (h : s.toNat = t.toNat) : s = t :=
  Dec.canonical_unique s t hs ht h

theorem C15_add (s : Dec) (b : Nat) (hs : s.Canonical) (hb : b < 10) :
    (calculusAddition s b).Canonical ∧ (calculusAddition s b).toNat = s.toNat + b :=
  calculusAddition_spec s b hs hb

theorem C15_mul (s : Dec) (b : Nat) (hs : s.Canonical) (hb : b < 10) :
    (calculusMultiplication s b).Canonical ∧ (calculusMultiplication s b).toNat = s.toNat * b :=
  calculusMultiplication_spec s b hs hb

theorem C15_div (s : Dec) (b : Nat) (hs : s.Canonical) (hb : b < 10) (hb1 : 1 ≤ b) :
    (calculusDivision s b).1.Canonical ∧ (calculusDivision s b).1.toNat = s.toNat / b ∧
    (calculusDivision s b).2.Canonical ∧ (calculusDivision s b).2.toNat = s.toNat % b :=
  calculusDivision_spec s b hs hb hb1

theorem C15_sub (s : Dec) (b : Nat) (hs : s.Canonical) (hb : b < 10) (h : b ≤ s.toNat) :
    (calculusSubtraction s b).Canonical ∧ (calculusSubtraction s b).toNat = s.toNat - b :=
  calculusSubtraction_spec s b hs hb h

/-- the documented special cases: division by one, multiplication by zero and one are exact
(they return the operand / `"0"` themselves). -/
theorem C15_special (s : Dec) :
    calculusDivision s 1 = (s, [0]) ∧ calculusMultiplication s 0 = [0] ∧ calculusMultiplication s 1 = s ∧
    calculusDivision s 0 = ([0], [0]) := by
  simp [calculusDivision, calculusMultiplication]

theorem C15_holds : C15_statement := by
  intro s b hs hb
  exact ⟨C15_add s b hs hb, C15_mul s b hs hb, fun h1 => C15_div s b hs hb h1, fun h => C15_sub s b hs hb h⟩

/-- rendering of a natural number is canonical and has that value; with `C15_canonical_unique`
this identifies every result above with `str(exact result)`. -/
theorem C15_ofNat (n : Nat) : (Dec.ofNat n).Canonical ∧ (Dec.ofNat n).toNat = n :=
  Dec.ofNat_canonical n

/-! non-vacuity: a long carry chain and a long borrow chain meet the hypotheses. -/
example : Dec.Canonical (List.replicate 50 9) ∧ (2 : Nat) < 10 := by
  decide
example : calculusAddition (List.replicate 50 9) 2 = 1 :: (List.replicate 49 0 ++ [1]) := by decide
example : calculusSubtraction (1 :: (List.replicate 48 0 ++ [1])) 2 = List.replicate 49 9 := by decide

end Dsw
