import DswModel.Model.Capacity
import DswModel.Lemmas.Defs
import DswModel.Lemmas.Power
import DswModel.Props.C17
import DswModel.Lemmas.PowerStop
/-!
# C17 (continued) — what the stopping rule certifies, in exact arithmetic

Property theorems only; helper lemmas go to `DswModel/Lemmas/PowerStop.lean`.

`C17_certificate_upper/lower` say that a positive vector `x` on a successor-closed set `S` with
`ν·x ≤ A x ≤ μ·x` on `S` bounds the growth rate of the number of walks from `S` between `ν` and `μ`
(that growth rate is `ρ`, and `log2 ρ` is the capacity). Here: when the exact-arithmetic power
iteration stops by its own rule — two consecutive normalised vectors differ by less than `tol` in
every entry — the vector it stopped with is such a certificate, with `μ, ν = ev·(1 ± tol/δ)`, where
`δ` is the smallest entry of the vector on `S`. So the reported eigenvalue is within a relative
`tol/δ` of the true growth rate. (The floating-point iteration is tied to the exact one by the
step-by-step correspondence of the harness; that part is a test.)
-/
namespace Dsw

/-- `A x` restricted to row `v`: sum of `x` over the live successors of `v`. -/
def applyRow (a : Acc) (x : Vec) (v : Nat) : Rat :=
  (a.liveEntries (v : Int)).foldl (fun s w => s + x.getD w 0) 0

/-- the step function in terms of `applyRow`. -/
theorem C17_capStep_entry (a : Acc) (x : Vec) (v : Nat) (hv : v < a.size) (hpos : 0 < (capStep a x).2) :
    (capStep a x).1.getD v 0 = applyRow a x v / (capStep a x).2 := by
  unfold applyRow
  exact PowerStop.capStep_getD a x v hv hpos

/-- if one more step changes no entry by `tol` or more (the code's "settled" test) then on every
vertex `v` of the table: `| (A x)_v − ev·x_v | < ev·tol`, i.e. `x` is an approximate eigenvector for
the estimate `ev`. -/
theorem C17_settled_residual (a : Acc) (x : Vec) (tol : Rat) (hpos : 0 < (capStep a x).2)
    (hset : ∀ v, v < a.size → ratAbs ((capStep a x).1.getD v 0 - x.getD v 0) < tol) :
    ∀ v, v < a.size → ratAbs (applyRow a x v - (capStep a x).2 * x.getD v 0) < (capStep a x).2 * tol := by
  intro v hv
  have h := hset v hv
  rw [C17_capStep_entry a x v hv hpos] at h
  exact PowerStop.residual _ _ _ _ hpos h

/-- consequently, on any set `S` of vertices where `x ≥ δ > 0`, the vector certifies
`ev·(1 − tol/δ)·x_v ≤ (A x)_v ≤ ev·(1 + tol/δ)·x_v` — the hypotheses of the Collatz–Wielandt
certificate with `ν = ev(1 − tol/δ)` and `μ = ev(1 + tol/δ)`. -/
theorem C17_stop_certificate (a : Acc) (x : Vec) (tol δ : Rat) (S : Nat → Prop)
    (hpos : 0 < (capStep a x).2) (hδ : 0 < δ)
    (hS : ∀ v, S v → v < a.size ∧ δ ≤ x.getD v 0)
    (hset : ∀ v, v < a.size → ratAbs ((capStep a x).1.getD v 0 - x.getD v 0) < tol) :
    ∀ v, S v →
      (capStep a x).2 * (1 - tol / δ) * x.getD v 0 ≤ applyRow a x v ∧
      applyRow a x v ≤ (capStep a x).2 * (1 + tol / δ) * x.getD v 0 := by
  intro v hv
  obtain ⟨hvs, hx⟩ := hS v hv
  exact PowerStop.relative _ _ _ _ _ hδ hx (C17_settled_residual a x tol hpos hset v hvs)

/-- rational version of the certificate: weighted walk sums with rational weights. -/
def weightedWalksQ (a : Acc) (x : Vec) : Nat → Nat → Rat
  | 0, v => x.getD v 0
  | n + 1, v => ((a.liveEntries (v : Int)).map fun w => weightedWalksQ a x n w).sum

/-- Collatz–Wielandt with rational data: `ν x ≤ A x ≤ μ x` on a successor-closed `S` (with
`0 ≤ ν`) gives `ν^n x_v ≤ W_n(v) ≤ μ^n x_v` for the `x`-weighted number of `n`-step walks. -/
theorem C17_certificate_rat (a : Acc) (x : Vec) (S : Nat → Prop) (ν μ : Rat) (hν : 0 ≤ ν) (hμ : 0 ≤ μ)
    (hx : ∀ v, S v → 0 ≤ x.getD v 0)
    (hclosed : ∀ v, S v → ∀ w ∈ a.liveEntries (v : Int), S w)
    (hineq : ∀ v, S v → ν * x.getD v 0 ≤ applyRow a x v ∧ applyRow a x v ≤ μ * x.getD v 0) :
    ∀ n v, S v → ν ^ n * x.getD v 0 ≤ weightedWalksQ a x n v ∧ weightedWalksQ a x n v ≤ μ ^ n * x.getD v 0 := by
  intro n
  induction n with
  | zero => intro v _; simp [weightedWalksQ]
  | succ n ih =>
    intro v hv
    rw [weightedWalksQ]
    have hrow := hineq v hv
    unfold applyRow at hrow
    rw [PowerStop.foldl_add_eq_sum0] at hrow
    constructor
    · rw [pow_succ]
      exact PowerStop.cert_step_lower _ _ _ _ _ _ (pow_nonneg hν n)
        (fun w hw => (ih w (hclosed v hv w hw)).1) hrow.1
    · rw [pow_succ]
      exact PowerStop.cert_step_upper _ _ _ _ _ _ (pow_nonneg hμ n)
        (fun w hw => (ih w (hclosed v hv w hw)).2) hrow.2

/-- the two together: when the exact iteration has settled at `x` with estimate `ev`, the
`x`-weighted number of `n`-step walks from any vertex of a successor-closed set on which
`x ≥ δ` (and `tol ≤ δ`) grows like `ev^n` up to the factor `(1 ± tol/δ)^n`. -/
theorem C17_stop_accuracy (a : Acc) (x : Vec) (tol δ : Rat) (S : Nat → Prop)
    (hpos : 0 < (capStep a x).2) (hδ : 0 < δ) (htol : 0 ≤ tol ∧ tol ≤ δ)
    (hS : ∀ v, S v → v < a.size ∧ δ ≤ x.getD v 0)
    (hclosed : ∀ v, S v → ∀ w ∈ a.liveEntries (v : Int), S w)
    (hset : ∀ v, v < a.size → ratAbs ((capStep a x).1.getD v 0 - x.getD v 0) < tol) :
    ∀ n v, S v →
      ((capStep a x).2 * (1 - tol / δ)) ^ n * x.getD v 0 ≤ weightedWalksQ a x n v ∧
      weightedWalksQ a x n v ≤ ((capStep a x).2 * (1 + tol / δ)) ^ n * x.getD v 0 := by
  have hq0 : 0 ≤ tol / δ := div_nonneg htol.1 (le_of_lt hδ)
  have hq1 : tol / δ ≤ 1 := (div_le_one hδ).2 htol.2
  have hν : 0 ≤ (capStep a x).2 * (1 - tol / δ) := mul_nonneg (le_of_lt hpos) (by linarith)
  have hμ : 0 ≤ (capStep a x).2 * (1 + tol / δ) := mul_nonneg (le_of_lt hpos) (by linarith)
  exact C17_certificate_rat a x S _ _ hν hμ
    (fun v hv => le_trans (le_of_lt hδ) (hS v hv).2) hclosed
    (C17_stop_certificate a x tol δ S hpos hδ hS hset)

end Dsw
