import DswModel.Model.Spiderweb
import DswModel.Lemmas.CoderDefs
import DswModel.Lemmas.Digit
/-!
# C18 — shuffle tables are per-vertex permutations; the induced digit map is a bijection

Property theorems only; helper lemmas go to `DswModel/Lemmas/Digit.lean`.
The seeded NumPy generator is an external call: `createRandomShuffles k shuffle` takes the in-place
row shuffle as a parameter. What is proved is what holds for *every* table.
-/
namespace Dsw

/-- one row per vertex, each row a permutation of 0..3 — provided the external shuffle returns a
permutation of its argument. -/
theorem C18_shape (k : Nat) (shuffle : Nat → List Int → List Int)
    (hs : ∀ i l, (shuffle i l).Perm l) :
    (createRandomShuffles k shuffle).size = 4 ^ k ∧ Tbl.PermRows (createRandomShuffles k shuffle) :=
  ⟨createRandomShuffles_size k shuffle, createRandomShuffles_permRows k shuffle hs⟩

/-- `argsort` always returns a permutation of the positions (stable sort of indices), so
digit → position and position → digit are mutually inverse for ANY table row. -/
theorem C18_argsort_perm (keys : List Int) : (argsort keys).Perm (List.range keys.length) :=
  argsort_perm keys

/-- for any table (or none), at every vertex the map digit ↦ live arc is a bijection from
`{0 … deg-1}` onto the live arcs, with the decoder's `arcDigit` as inverse. -/
theorem C18_bijection (a : Acc) (tbl : Option Tbl) (v : Int) :
    (∀ d, d < a.outDeg v → selectArc a tbl v d ∈ a.live v ∧ arcDigit a tbl v (selectArc a tbl v d) = d) ∧
    (∀ j, j ∈ a.live v → arcDigit a tbl v j < a.outDeg v ∧ selectArc a tbl v (arcDigit a tbl v j) = j) :=
  ⟨fun _ hd => ⟨selectArc_mem a tbl v hd, arcDigit_selectArc a tbl v hd⟩,
   fun _ hj => ⟨arcDigit_lt a tbl v hj, selectArc_arcDigit a tbl v hj⟩⟩

/-- with distinct table entries on the live columns (every permutation row) the decoder's digit is
the documented rank: the number of live arcs with a smaller table entry (smaller column without a
table). -/
theorem C18_digit_is_rank (a : Acc) (tbl : Option Tbl) (v : Int) (j : Nat) (hj : j ∈ a.live v)
    (hd : DistinctKeys a tbl v) : arcDigit a tbl v j = arcRank a tbl v j :=
  arcDigit_eq_arcRank a tbl v hj hd

/-- without a table the keys are always distinct; with a permutation table as well. -/
theorem C18_distinct_none (a : Acc) (v : Int) : DistinctKeys a none v :=
  distinctKeys_none a v

theorem C18_distinct_perm (a : Acc) (t : Tbl) (v : Nat) (hv : v < t.size) (ht : t.PermRows) :
    DistinctKeys a (some t) v :=
  distinctKeys_of_permRows a t v hv ht

/-- the finite table behind the observation "all 24 permutations × 15 non-empty live patterns":
for each of them digit ↦ arc is injective. (`decide +kernel` over the whole table, as a
cross-check of the general theorem above.) -/
def allPerms4 : List (List Int) :=
  [[0,1,2,3],[0,1,3,2],[0,2,1,3],[0,2,3,1],[0,3,1,2],[0,3,2,1],[1,0,2,3],[1,0,3,2],[1,2,0,3],[1,2,3,0],
   [1,3,0,2],[1,3,2,0],[2,0,1,3],[2,0,3,1],[2,1,0,3],[2,1,3,0],[2,3,0,1],[2,3,1,0],[3,0,1,2],[3,0,2,1],
   [3,1,0,2],[3,1,2,0],[3,2,0,1],[3,2,1,0]]

def rowAcc (pattern : Nat) : Acc :=
  #[((List.range 4).map fun j => if (pattern / 2 ^ j) % 2 = 1 then (0 : Int) else -1).toArray]

theorem C18_finite_table :
    allPerms4.all (fun row => (List.range 15).all fun p =>
      let a := rowAcc (p + 1)
      let t : Option Tbl := some #[row.toArray]
      (List.range (a.outDeg 0)).all fun d =>
        (a.live 0).contains (selectArc a t 0 d) && arcDigit a t 0 (selectArc a t 0 d) == d) = true := by
  decide +kernel

end Dsw
