import DswModel.Model.Spiderweb
import DswModel.Lemmas.CoderDefs
import DswModel.Lemmas.Digit
import DswModel.Props.C15
import DswModel.Props.C16
import DswModel.Props.C18
import DswModel.Lemmas.CoderNormal
import DswModel.Lemmas.CoderFast
/-!
# C06 — decoding accepts exactly the strands that are walks of the graph

Property theorems only. Helper lemmas: `DswModel/Lemmas/CoderNormal.lean`, `…/CoderFast.lean`.
Strings are over any alphabet (`List Char`).
-/
namespace Dsw

/-- the supplied check (if any) matches. A strand with a foreign character never matches. -/
def CheckOk (s : List Char) (chk : Option (List Char)) : Prop := vtMatches s chk = .ok true

/-- normal mode, any graph/table/start, any string: a bit list of exactly the requested length
iff the string is a walk and the check matches; otherwise `ValueError` and nothing else. -/
theorem C06_normal (a : Acc) (tbl : Option Tbl) (v : Int) (s : List Char) (L : Nat)
    (chk : Option (List Char)) :
    (isWalk a v s = true ∧ CheckOk s chk →
        ∃ bits, decode a tbl v s L false chk = .ok bits ∧ bits.length = L) ∧
    (¬ (isWalk a v s = true ∧ CheckOk s chk) → decode a tbl v s L false chk = .error .valueError) := by
  exact ⟨fun h => ⟨_, cn_decode_normal_ok a tbl v s L chk h.1 h.2, cn_numberToBitInt_length _ _⟩,
    cn_decode_normal_err a tbl v s L chk⟩

/-- longest prefix of `s` that is a walk from `v`. -/
def walkablePrefix (a : Acc) : Int → List Char → List Char
  | _, [] => []
  | v, c :: s => match a.next v c with
    | some t => c :: walkablePrefix a t s
    | none => []

/-- fast mode (no out-degree-3 vertex reachable): the same equivalence for every string whose
walkable prefix carries no more bits than requested. -/
theorem C06_fast (a : Acc) (tbl : Option Tbl) (v : Int) (s : List Char) (L : Nat)
    (chk : Option (List Char)) (h3 : a.NoDeg3From v)
    (hL : (walkBits a tbl v (walkablePrefix a v s)).length ≤ L) :
    (isWalk a v s = true ∧ CheckOk s chk →
        ∃ bits, decode a tbl v s L true chk = .ok bits ∧ bits.length = L) ∧
    (¬ (isWalk a v s = true ∧ CheckOk s chk) → decode a tbl v s L true chk = .error .valueError) := by
  have hwp : ∀ (v : Int) (s : List Char), walkablePrefix a v s = cfWalkablePrefix a v s := by
    intro v s
    induction s generalizing v with
    | nil => rfl
    | cons c s ih =>
      simp only [walkablePrefix, cfWalkablePrefix]
      cases a.next v c with
      | none => rfl
      | some t => simp only [ih t]
  rw [hwp] at hL
  exact cf_C06_fast a tbl v s L chk h3 hL

/-- corollary (C18): which strands are accepted does not depend on the shuffle table. -/
theorem C06_table_independent (a : Acc) (tbl tbl' : Option Tbl) (v : Int) (s : List Char) (L : Nat)
    (chk : Option (List Char)) :
    (decode a tbl v s L false chk).toBool = (decode a tbl' v s L false chk).toBool := by
  by_cases h : isWalk a v s = true ∧ vtMatches s chk = .ok true
  · rw [cn_decode_normal_ok a tbl v s L chk h.1 h.2, cn_decode_normal_ok a tbl' v s L chk h.1 h.2]
    rfl
  · rw [cn_decode_normal_err a tbl v s L chk h, cn_decode_normal_err a tbl' v s L chk h]

example : isWalk gcBalanced2 1 "TCTCTCT".toList = true ∧ CheckOk "TCTCTCT".toList (some "TAAGC".toList) := by
  refine ⟨by decide +kernel, ?_⟩
  unfold CheckOk
  decide +kernel
example : decode gcBalanced2 none 1 "TCTCTAT".toList 8 false none = .error .valueError := by decide +kernel

end Dsw
