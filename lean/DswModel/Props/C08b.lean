import DswModel.Model.Spiderweb
import DswModel.Lemmas.Defs
import DswModel.Lemmas.Repair
import DswModel.Lemmas.PathSpec
/-!
# C08 (continued) — `path_matching` as a public function: exactly the single-edit repairs that
walk the rest of the chunk

Helper lemmas go to `DswModel/Lemmas/PathSpec.lean`; `DswModel/Lemmas/Repair.lean` already has the
closed form `pathMatching_eq`.
-/
namespace Dsw

/-- what a record claims: the fragment is the chunk with that edit applied at `occ`, the edit uses
a live arc of the previous vertex (substitution: different from the original symbol), and the rest
of the chunk is a walk from the vertex the repaired symbol leads to. -/
def RecordValid (a : Acc) (chunk : List Char) (prev : Int) (occ : Nat) (r : RepairInfo) : Prop :=
  r.loc = occ ∧
  match r.kind with
  | .S => (∃ j, j ∈ a.live prev ∧ r.nuc = nucChar j) ∧ chunk[occ]? ≠ some r.nuc ∧
          r.fragment = chunk.set occ r.nuc ∧
          isWalk a (a.ent prev ((nucIdx r.nuc).getD 0)) (chunk.drop (occ + 1)) = true
  | .I => (∃ j, j ∈ a.live prev ∧ r.nuc = nucChar j) ∧
          r.fragment = chunk.take occ ++ [r.nuc] ++ chunk.drop occ ∧
          isWalk a (a.ent prev ((nucIdx r.nuc).getD 0)) (chunk.drop occ) = true
  | .D => chunk[occ]? = some r.nuc ∧
          r.fragment = chunk.take occ ++ chunk.drop (occ + 1) ∧
          isWalk a prev (chunk.drop (occ + 1)) = true

/-- soundness: every returned record is a valid single-edit repair; indel records only with
`has_indel`. -/
theorem C08_path_matching_sound (a : Acc) (chunk : List Char) (prev : Int) (occ : Nat) (indel : Bool)
    (recs : List RepairInfo) (n : Nat) (h : pathMatching a chunk prev occ indel = .ok (recs, n)) :
    ∀ r ∈ recs, RecordValid a chunk prev occ r ∧ (r.kind ≠ .S → indel = true) :=
  fun r hr => (PathSpec.mem_pathMatching_iff h r).mp hr

/-- completeness: every valid single-edit repair at `occ` is returned (substitutions always,
insertions and the deletion when `has_indel`). -/
theorem C08_path_matching_complete (a : Acc) (chunk : List Char) (prev : Int) (occ : Nat) (indel : Bool)
    (recs : List RepairInfo) (n : Nat) (h : pathMatching a chunk prev occ indel = .ok (recs, n))
    (r : RepairInfo) (hr : RecordValid a chunk prev occ r) (hk : r.kind = .S ∨ indel = true) :
    r ∈ recs := by
  refine (PathSpec.mem_pathMatching_iff h r).mpr ⟨hr, fun hne => ?_⟩
  rcases hk with hk | hk
  · exact absurd hk hne
  · exact hk

/-- the call raises (`IndexError`) exactly when the position is outside the chunk, and nothing
else. -/
theorem C08_path_matching_error (a : Acc) (chunk : List Char) (prev : Int) (occ : Nat) (indel : Bool) :
    (chunk.length ≤ occ → pathMatching a chunk prev occ indel = .error .indexError) ∧
    (occ < chunk.length → ∃ r, pathMatching a chunk prev occ indel = .ok r) := by
  refine ⟨fun hge => ?_, pathMatching_total a chunk prev occ indel⟩
  simp [pathMatching, List.getElem?_eq_none hge]

example : (pathMatching gcBalanced2 "TCTCTATCTCT".toList 7 5 true).toOption.map (fun r => r.1.map (·.fragment)) =
    some ["TCTCTCTCTCT".toList, "TCTCTGTCTCT".toList] := by decide +kernel

end Dsw
