import DswModel.Model.CapacityF
import DswModel.Props.C17b
import DswModel.Props.FloatSpec
import DswModel.Lemmas.FloatErr
import DswModel.Lemmas.PowerStopF
import DswModel.Lemmas.PowerStopFStep
import DswModel.Lemmas.PowerStopFCert
/-!
# C17 (continued) — what the stopping rule certifies IN DOUBLE PRECISION

`Model/CapacityF.lean` is the power iteration exactly as the code computes it (every `+`, `-`, `/` rounded to the
nearest double; the harness compares it with the real NumPy run bit for bit, every iteration). `C17_stop_accuracy`
(Props/C17b.lean) is about the exact-rational iteration. These theorems close the gap: when the DOUBLE-PRECISION
iteration stops by its own rule — the rounded difference of two consecutive rounded, normalised vectors is below `tol`
in every entry — the vector it stopped with is a Collatz–Wielandt certificate for the rounded eigenvalue estimate `ev`:

    ev·(1 − (tol + 2^-500)/δ)·(1 − 2^-50) · x_v  ≤  (A x)_v  ≤  ev·(1 + (tol + 2^-500)/δ)·(1 + 2^-50) · x_v     on S,

where `A x` is the EXACT product with the exact values of the doubles in `x`, `δ` is the smallest entry of `x` on the
successor-closed set `S`, `2^-50 ≥ (1 + 2^-53)^4 − 1` pays for the three additions and the division per entry, and
`2^-500` for gradual underflow (absolute errors `≤ 2^-1075`, with `ev, δ ≥ 2^-500`). Hence (by `C17_certificate_rat`)
the number of `n`-step walks grows like `ev^n` up to those factors: the value whose `log2` the code reports is within a
relative `(tol + 2^-500)/δ + 2^-50` (to first order) of the true growth rate — for the floating-point computation
itself, not for an idealisation of it. Not modelled: `log2` (libm) and the final `median`.
-/
namespace Dsw

/-- the exact value of a double. -/
def Dbl.toRat (x : Dbl) : Rat := (x.num : Rat) / (x.den : Rat)

/-- the exact values of a vector of doubles. -/
def VecF.toRat (x : VecF) : Vec := x.map Dbl.toRat

/-- the vector holds non-negative binary64 values on the table. -/
def VecF.Ok (n : Nat) (x : VecF) : Prop :=
  x.size = n ∧ ∀ v, v < n → IsB64 (x.getD v Dbl.zero).num (x.getD v Dbl.zero).den ∧ 0 ≤ (x.getD v Dbl.zero).num

/-- every successor index lies in the table. -/
def Acc.Closed (a : Acc) : Prop := ∀ v, v < a.size → ∀ w ∈ a.liveEntries (v : Int), w < a.size

/-- the floating-point row sum is the exact row sum up to three roundings (additions of non-negative doubles). -/
theorem C17F_rowSum (a : Acc) (x : VecF) (v : Nat) (y : Dbl) (hx : x.Ok a.size) (ha : a.Closed) (hv : v < a.size)
    (hy : rowSumF a x v = some y) :
    applyRow a x.toRat v * (1 - (2 : Rat)⁻¹ ^ 51) - (2 : Rat)⁻¹ ^ 1070 ≤ y.toRat ∧
    y.toRat ≤ applyRow a x.toRat v * (1 + (2 : Rat)⁻¹ ^ 51) + (2 : Rat)⁻¹ ^ 1070 ∧
    IsB64 y.num y.den ∧ 0 ≤ y.num := by
  have h := PowerStopF.rowSum_bound a x v y hx.2 (ha v hv) hy
  exact ⟨h.1, h.2.1, h.2.2.1, h.2.2.2.1⟩

/-- THE CERTIFICATE: if one more double-precision step `capStepF a x = (z, ev)` changes no entry by `tol` or more (the
code's "settled" test, itself evaluated in double precision: `max(abs(z - x)) < tol`), then `x` is an approximate
eigenvector for `ev` on every set `S` where it is at least `δ`. -/
theorem C17F_stop_certificate (a : Acc) (x z : VecF) (ev tol md : Dbl) (δ : Rat) (S : Nat → Prop)
    (hx : x.Ok a.size) (ha : a.Closed)
    (hstep : capStepF a x = some (z, ev)) (hev : (2 : Rat)⁻¹ ^ 500 ≤ ev.toRat)
    (htol : IsB64 tol.num tol.den ∧ 0 ≤ tol.num)
    (hmd : maxDiffF a.size z x = some md) (hset : Dbl.lt md tol = true)
    (hδ : (2 : Rat)⁻¹ ^ 500 ≤ δ) (hS : ∀ v, S v → v < a.size ∧ δ ≤ (x.getD v Dbl.zero).toRat) :
    ∀ v, S v →
      ev.toRat * (1 - (tol.toRat + (2 : Rat)⁻¹ ^ 500) / δ) * (1 - (2 : Rat)⁻¹ ^ 50) * (x.toRat).getD v 0 ≤ applyRow a x.toRat v ∧
      applyRow a x.toRat v ≤ ev.toRat * (1 + (tol.toRat + (2 : Rat)⁻¹ ^ 500) / δ) * (1 + (2 : Rat)⁻¹ ^ 50) * (x.toRat).getD v 0 := by
  exact PowerStopF.stop_certificate a x z ev tol md δ S hx.2 ha hstep hev htol hmd hset hδ hS

/-- THE ACCURACY of the double-precision stopping rule: with the certificate above on a successor-closed `S`, the
`x`-weighted number of `n`-step walks from every vertex of `S` lies between `(ev·(1 − ε₁)(1 − 2^-50))^n` and
`(ev·(1 + ε₁)(1 + 2^-50))^n` times `x_v`, `ε₁ = (tol + 2^-500)/δ ≤ 1`: the walk growth rate (whose `log2` is the
capacity) is `ev` up to those factors. -/
theorem C17F_stop_accuracy (a : Acc) (x z : VecF) (ev tol md : Dbl) (δ : Rat) (S : Nat → Prop)
    (hx : x.Ok a.size) (ha : a.Closed)
    (hstep : capStepF a x = some (z, ev)) (hev : (2 : Rat)⁻¹ ^ 500 ≤ ev.toRat)
    (htol : IsB64 tol.num tol.den ∧ 0 ≤ tol.num) (hsmall : tol.toRat + (2 : Rat)⁻¹ ^ 500 ≤ δ)
    (hmd : maxDiffF a.size z x = some md) (hset : Dbl.lt md tol = true)
    (hδ : (2 : Rat)⁻¹ ^ 500 ≤ δ) (hS : ∀ v, S v → v < a.size ∧ δ ≤ (x.getD v Dbl.zero).toRat)
    (hclosed : ∀ v, S v → ∀ w ∈ a.liveEntries (v : Int), S w) :
    ∀ n v, S v →
      (ev.toRat * (1 - (tol.toRat + (2 : Rat)⁻¹ ^ 500) / δ) * (1 - (2 : Rat)⁻¹ ^ 50)) ^ n * (x.toRat).getD v 0
        ≤ weightedWalksQ a x.toRat n v ∧
      weightedWalksQ a x.toRat n v
        ≤ (ev.toRat * (1 + (tol.toRat + (2 : Rat)⁻¹ ^ 500) / δ) * (1 + (2 : Rat)⁻¹ ^ 50)) ^ n * (x.toRat).getD v 0 := by
  have hθ : (0 : Rat) < (2 : Rat)⁻¹ ^ 500 := by positivity
  have hδ0 : 0 < δ := lt_of_lt_of_le hθ hδ
  have hev0 : 0 ≤ ev.toRat := le_trans (le_of_lt hθ) hev
  have ht0 : 0 ≤ tol.toRat := FloatErr.val_nonneg htol.2
  have hq0 : 0 ≤ (tol.toRat + (2 : Rat)⁻¹ ^ 500) / δ := div_nonneg (add_nonneg ht0 (le_of_lt hθ)) (le_of_lt hδ0)
  have hq1 : (tol.toRat + (2 : Rat)⁻¹ ^ 500) / δ ≤ 1 := (div_le_one hδ0).2 hsmall
  have hν : 0 ≤ ev.toRat * (1 - (tol.toRat + (2 : Rat)⁻¹ ^ 500) / δ) * (1 - (2 : Rat)⁻¹ ^ 50) :=
    mul_nonneg (mul_nonneg hev0 (sub_nonneg.2 hq1)) (by norm_num)
  have hμ : 0 ≤ ev.toRat * (1 + (tol.toRat + (2 : Rat)⁻¹ ^ 500) / δ) * (1 + (2 : Rat)⁻¹ ^ 50) :=
    mul_nonneg (mul_nonneg hev0 (add_nonneg zero_le_one hq0)) (by norm_num)
  refine C17_certificate_rat a x.toRat S _ _ hν hμ (fun v hv => ?_) hclosed
    (C17F_stop_certificate a x z ev tol md δ S hx ha hstep hev htol hmd hset hδ hS)
  have h1 : (x.toRat).getD v 0 = (x.getD v Dbl.zero).toRat := PowerStopF.map_val_getD x v
  rw [h1]
  exact le_trans (le_of_lt hδ0) (hS v hv).2

/-- the step keeps the invariant: the new vector again holds non-negative binary64 values (so the hypotheses of the
certificate are met at every iteration of a run that starts from such a vector). -/
theorem C17F_step_ok (a : Acc) (x z : VecF) (ev : Dbl) (hx : x.Ok a.size) (ha : a.Closed)
    (hstep : capStepF a x = some (z, ev)) : z.Ok a.size ∧ IsB64 ev.num ev.den ∧ 0 ≤ ev.num := by
  obtain ⟨h1, h2, h3, h4⟩ := PowerStopF.step_data a x z ev hx.2 ha hstep
  refine ⟨⟨h1, fun v hv => ?_⟩, h2, h3⟩
  obtain ⟨_, _, g1, g2, _⟩ := h4 v hv
  exact ⟨g1, g2⟩

end Dsw
