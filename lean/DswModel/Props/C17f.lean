import DswModel.Props.C17d
/-!
# C17 (continued) — from the value the FUNCTION returns to the certificate

`C17F_stop_certificate` / `C17F_stop_accuracy` (Props/C17c.lean) speak about one settled step. This file connects them to
what the double-precision loop returns: whenever a repeat ends before its iteration budget is used up, the value it
appends to `results` is the (clamped) eigenvalue estimate of a step that passed the settled test — so the accuracy theorem
applies to the very number whose `log2` the code reports.
-/
namespace Dsw

/-- the loop from an arbitrary state: a run that ends with at most `maxIter + 1` recorded estimates ended by the settled
rule. -/
theorem C17F_loop_settled (a : Acc) (tol : Dbl) (maxIter : Nat) (ha : a.Closed) :
    ∀ (f : Nat) (x0 : VecF) (lastEv : Option Dbl) (queue record : List Dbl) (run : CapRunF),
      x0.In01 a.size → record.length = queue.length + (if lastEv = none then 0 else 1) →
      capLoopF a tol maxIter f x0 lastEv queue record = some run → run.record.length ≤ maxIter + 1 →
      ∃ x z ev md, x.In01 a.size ∧ capStepF a x = some (z, ev) ∧ maxDiffF a.size z x = some md ∧
        Dbl.lt md tol = true ∧ run.results = [clampEvF tol ev] := by
  intro f
  induction f with
  | zero => intro x0 lastEv queue record run _ _ h; simp [capLoopF] at h
  | succ f ih =>
    intro x0 lastEv queue record run hx hlen h hearly
    obtain ⟨z, ev, hstep, _, _, _, hz⟩ := C17F_step_bounds a x0 hx ha
    cases lastEv with
    | none =>
      rw [PowerF.capLoopF_none a tol maxIter f x0 z ev queue record hstep] at h
      refine ih z (some ev) queue _ run hz ?_ h hearly
      simp only [if_true] at hlen
      rw [if_neg (by simp)]
      simp only [List.length_append, List.length_singleton]
      omega
    | some le =>
      rw [if_neg (by simp)] at hlen
      rw [PowerF.capLoopF_some a tol maxIter f x0 z ev le queue record hstep] at h
      cases hmd : maxDiffF a.size z x0 with
      | none => rw [hmd] at h; simp at h
      | some md =>
        rw [hmd] at h
        simp only at h
        cases hres2 : PowerF.res2F tol maxIter (queue ++ [ev]) with
        | none => rw [hres2] at h; simp at h
        | some res2 =>
          rw [hres2] at h
          simp only at h
          split at h
          · rename_i hne
            cases h
            simp only [List.length_append, List.length_singleton] at hearly
            unfold PowerF.res2F at hres2
            rw [if_neg (by simp only [List.length_append, List.length_singleton]; omega)] at hres2
            cases hres2
            unfold PowerF.res1F at hne ⊢
            by_cases hc : (PowerF.relLtF tol ev le = true ∧ Dbl.lt md tol = true)
            · rw [if_pos hc]
              exact ⟨x0, z, ev, md, hx, hstep, hmd, hc.2, by simp⟩
            · rw [if_neg hc] at hne
              exact absurd rfl hne
          · refine ih z (some ev) _ _ run hz ?_ h hearly
            rw [if_neg (by simp)]
            simp only [List.length_append, List.length_singleton]
            omega

/-- a repeat that stops early (at most `maxIter + 1` recorded estimates, i.e. not by the median fall-back) stopped by the
settled rule: its single result is `clampEvF tol ev` for a step `capStepF a x = (z, ev)` from a vector `x ∈ [0,1]^n` whose
rounded change `max |z − x|` is below `tol`. -/
theorem C17F_result_settled (a : Acc) (tol : Dbl) (maxIter fuel : Nat) (x0 : VecF) (run : CapRunF)
    (ha : a.Closed) (hx0 : x0.In01 a.size)
    (h : capLoopF a tol maxIter fuel x0 none [] [] = some run) (hearly : run.record.length ≤ maxIter + 1) :
    ∃ x z ev md, x.In01 a.size ∧ capStepF a x = some (z, ev) ∧ maxDiffF a.size z x = some md ∧
      Dbl.lt md tol = true ∧ run.results = [clampEvF tol ev] := by
  exact C17F_loop_settled a tol maxIter ha fuel x0 none [] [] run hx0 (by simp) h hearly

/-- … hence, for a call with one start vector: if the function returns `[r]` with a record of at most `maxIter + 1`
estimates, then `r = clampEvF tol ev` (`ev` itself when `ev > tol`, else the stand-in `1` for "capacity 0") for a settled
step `capStepF a x = (z, ev)`, and — provided `ev ≥ 2^-500` — on every successor-closed set `S` on which `x ≥ δ` the walk
growth is `ev` up to the factors of `C17F_stop_accuracy`: the accuracy theorem applies to the very number whose `log2`
the code reports. -/
theorem C17F_result_accuracy (a : Acc) (tol : Dbl) (maxIter : Nat) (x0 : VecF) (res : List Dbl) (recs : List (List Dbl))
    (r : Dbl) (ha : a.Closed) (hx0 : x0.In01 a.size) (htol : IsB64 tol.num tol.den ∧ 0 ≤ tol.num)
    (hnot : a.all (fun r => r.all (· == -1)) = false)
    (h : approximateCapacityF a tol maxIter [x0] = some (res, recs))
    (hres : res = [r]) (hrec : ∀ rec ∈ recs, rec.length ≤ maxIter + 1) :
    ∃ (x : VecF) (ev : Dbl), x.In01 a.size ∧ r = clampEvF tol ev ∧
      ((2 : Rat)⁻¹ ^ 500 ≤ ev.toRat →
       ∀ (δ : Rat) (S : Nat → Prop), (2 : Rat)⁻¹ ^ 500 ≤ δ → tol.toRat + (2 : Rat)⁻¹ ^ 500 ≤ δ →
        (∀ v, S v → v < a.size ∧ δ ≤ (x.getD v Dbl.zero).toRat) →
        (∀ v, S v → ∀ w ∈ a.liveEntries (v : Int), S w) →
        ∀ n v, S v →
          (ev.toRat * (1 - (tol.toRat + (2 : Rat)⁻¹ ^ 500) / δ) * (1 - (2 : Rat)⁻¹ ^ 50)) ^ n * (x.toRat).getD v 0
            ≤ weightedWalksQ a x.toRat n v ∧
          weightedWalksQ a x.toRat n v
            ≤ (ev.toRat * (1 + (tol.toRat + (2 : Rat)⁻¹ ^ 500) / δ) * (1 + (2 : Rat)⁻¹ ^ 50)) ^ n * (x.toRat).getD v 0) := by
  unfold approximateCapacityF at h
  rw [if_neg (by rw [hnot]; simp)] at h
  simp only [List.foldl_cons, List.foldl_nil] at h
  cases hrun : capLoopF a tol maxIter (maxIter + 2) (zeroDeadF a x0) none [] [] with
  | none => rw [hrun] at h; simp at h
  | some run =>
    rw [hrun] at h
    simp only [List.nil_append, Option.some.injEq, Prod.mk.injEq] at h
    obtain ⟨h1, h2⟩ := h
    have hearly : run.record.length ≤ maxIter + 1 := hrec run.record (by rw [← h2]; simp)
    obtain ⟨x, z, ev, md, hx, hstep, hmd, hset, hresults⟩ :=
      C17F_result_settled a tol maxIter (maxIter + 2) (zeroDeadF a x0) run ha
        (PowerF.zeroDeadF_in01 a x0 hx0) hrun hearly
    refine ⟨x, ev, hx, ?_, ?_⟩
    · rw [hresults, hres] at h1
      simpa using h1.symm
    · intro hev δ S hδ hsmall hS hclosed
      exact C17F_stop_accuracy a x z ev tol md δ S hx.1 ha hstep hev htol hsmall hmd hset hδ hS hclosed

end Dsw
