import DswModel.Model.Spiderweb
import DswModel.Lemmas.Defs
import DswModel.Lemmas.DeBruijn
import DswModel.Lemmas.Discover
/-!
# C11 — vertex discovery and the valid graph mirror the filter exactly

Property theorems only; helper lemmas go to `DswModel/Lemmas/Discover.lean`.
The filter is an arbitrary predicate on strings (`P`); how the real code *calls* the filter object
(positional argument, documented interface) is a run-time fact checked by the harness.
-/
namespace Dsw

/-- vertex discovery marks index `i` exactly when the filter accepts the `i`-th k-mer, and raises
`ValueError` (and nothing else) exactly when it accepts none. -/
theorem C11_mask (k : Nat) (P : List Char → Bool) :
    (∀ m, findVertices k P = .ok m →
        m.size = 4 ^ k ∧ (∀ i, i < 4 ^ k → m.getD i false = P (kmerOf k i)) ∧ ∃ i, i < 4 ^ k ∧ P (kmerOf k i) = true) ∧
    (∀ e, findVertices k P = .error e → e = .valueError ∧ ∀ i, i < 4 ^ k → P (kmerOf k i) = false) := by
  rw [findVertices_eq]
  by_cases h : (filterMask k P).count = 0
  · rw [if_pos h]
    refine ⟨fun m hm => (by cases hm), fun e he => ?_⟩
    cases he
    refine ⟨rfl, fun i hi => ?_⟩
    rw [← filterMask_getD k P i hi]
    exact (Mask.count_eq_zero_iff_disc _).1 h i (by rw [filterMask_size]; exact hi)
  · rw [if_neg h]
    refine ⟨fun m hm => ?_, fun e he => (by cases he)⟩
    cases hm
    refine ⟨filterMask_size k P, fun i hi => filterMask_getD k P i hi, ?_⟩
    obtain ⟨i, hi, hb⟩ := (Mask.count_pos_iff_disc _).1 (Nat.pos_of_ne_zero h)
    rw [filterMask_size] at hi
    exact ⟨i, hi, by rw [← filterMask_getD k P i hi]; exact hb⟩

/-- the valid graph has an arc from `u` to `w` exactly when both are marked and `w` is a
shift-successor of `u`, stored in the column of `w`'s last nucleotide; `ValueError` exactly for the
empty mask (and for `None`). -/
theorem C11_valid_graph (k : Nat) (m : Mask) (hk : 1 ≤ k) (hm : m.size = 4 ^ k) :
    (∀ a, connectValidGraph k (some m) = .ok a →
        a.size = 4 ^ k ∧
        (∀ u j : Nat, u < 4 ^ k → j < 4 →
          a.ent (u : Int) j = if m.getD u false = true ∧ m.getD ((u * 4 + j) % 4 ^ k) false = true
                      then (((u * 4 + j) % 4 ^ k : Nat) : Int) else -1) ∧
        (∀ u j, u < 4 ^ k → j < 4 → ((u * 4 + j) % 4 ^ k) % 4 = j) ∧
        ∃ i, i < 4 ^ k ∧ m.getD i false = true) ∧
    (∀ e, connectValidGraph k (some m) = .error e → e = .valueError ∧ ∀ i, i < 4 ^ k → m.getD i false = false) ∧
    connectValidGraph k none = .error .valueError := by
  refine ⟨?_, ?_, rfl⟩
  · intro a ha
    simp only [connectValidGraph] at ha
    split at ha
    · rename_i hc
      cases ha
      refine ⟨inducedAccessor_size_disc k m, fun u j hu hj => inducedAccessor_ent_disc k m u j hu hj,
        fun u j _ hj => shift_column_disc k u j hk hj, ?_⟩
      obtain ⟨i, hi, hb⟩ := (Mask.count_pos_iff_disc m).1 hc
      exact ⟨i, hm ▸ hi, hb⟩
    · cases ha
  · intro e he
    simp only [connectValidGraph] at he
    split at he
    · cases he
    · rename_i hc
      cases he
      refine ⟨rfl, fun i hi => ?_⟩
      exact (Mask.count_eq_zero_iff_disc m).1 (by omega) i (hm ▸ hi)

example : findVertices 1 (fun s => s == ['C']) = .ok #[false, true, false, false] := by decide +kernel
example : findVertices 2 (fun _ => false) = .error .valueError := by decide +kernel

end Dsw
