import DswModel.Model.Float
import DswModel.Lemmas.FloatRound
import DswModel.Lemmas.FloatSpecLog
import DswModel.Lemmas.FloatSpecPos
import DswModel.Lemmas.FloatSpecDouble
/-!
# The rounding model against the IEEE-754 binary64 specification (round to nearest, ties to even)

`Model/Float.lean` is executable and is validated against CPython on every run (driver operation `fop`). These
theorems say what it computes, independently of CPython: the result is a binary64 value (at most 53 significant bits,
exponent of the last place ≥ −1074, magnitude below 2^1024), no binary64 value is nearer to the exact input, a tie is
resolved to the even significand, and `none` is returned exactly beyond the overflow threshold `(2^53 − 1/2)·2^971`.
All statements are about integers (cross-multiplied), no real numbers.

`IsB64 num den`: the fraction `num/den` is a finite binary64 value: `|num|/den = m·2^e` with `m < 2^53`,
`−1074 ≤ e ≤ 971`.
-/
namespace Dsw

/-- `a / b = m * 2^e` for naturals, `e` an integer exponent (cross-multiplied). -/
def EqPow2 (a b m : Nat) (e : Int) : Prop :=
  if e ≥ 0 then a = m * 2 ^ e.toNat * b else a * 2 ^ (-e).toNat = m * b

/-- the fraction is a finite binary64 value. -/
def IsB64 (num : Int) (den : Nat) : Prop :=
  0 < den ∧ ∃ (m : Nat) (e : Int), m < 2 ^ 53 ∧ -1074 ≤ e ∧ e ≤ 971 ∧ EqPow2 num.natAbs den m e

/-- `ratLog2` is the floor of the binary logarithm of a positive fraction: `2^L ≤ n/d < 2^(L+1)`. -/
theorem ratLog2_spec (n d : Nat) (hn : 0 < n) (hd : 0 < d) :
    (if ratLog2 n d ≥ 0 then d * 2 ^ (ratLog2 n d).toNat ≤ n else d ≤ n * 2 ^ (-(ratLog2 n d)).toNat) ∧
    (if ratLog2 n d + 1 ≥ 0 then n < d * 2 ^ (ratLog2 n d + 1).toNat else n * 2 ^ (-(ratLog2 n d + 1)).toNat < d) := by
  exact ratLog2_spec' n d hn hd

/-- the positive core: `roundPos n d = (m, e)` with `e` the exponent of the last place (`≥ −1074`), a significand of at
most 53 bits (`m ≤ 2^53`, where `2^53` only arises by rounding up and is `2^52·2^(e+1)`), a normalised significand
unless subnormal, an error of at most half a unit in the last place, and an even significand on a tie.
(`2·|n/d − m·2^e| ≤ 2^e`, cross-multiplied, with `S = 2^e` split into numerator/denominator by the sign of `e`.) -/
theorem roundPos_spec (n d : Nat) (hn : 0 < n) (hd : 0 < d) :
    let m := (roundPos n d).1
    let e := (roundPos n d).2
    ((-1074 : Int) ≤ e) ∧ m ≤ 2 ^ 53 ∧ (-1074 < e → 2 ^ 52 ≤ m) ∧
    (if e ≥ 0 then
        (2 * (n - m * 2 ^ e.toNat * d : Int).natAbs ≤ 2 ^ e.toNat * d) ∧
        (2 * (n - m * 2 ^ e.toNat * d : Int).natAbs = 2 ^ e.toNat * d → m % 2 = 0)
     else
        (2 * (n * 2 ^ (-e).toNat - m * d : Int).natAbs ≤ d) ∧
        (2 * (n * 2 ^ (-e).toNat - m * d : Int).natAbs = d → m % 2 = 0)) := by
  obtain ⟨k, S⟩ := roundPos_posSpec n d hn hd
  have hk := S.hk
  exact ⟨by omega, S.m_le, fun h => S.m_ge (by omega), roundPos_half n d hd⟩

/-- every result is a finite binary64 value. -/
theorem roundDouble_isB64 (num : Int) (den : Nat) (r : Dbl) (hden : 0 < den) (h : roundDouble num den = some r) :
    IsB64 r.num r.den := by
  exact roundDouble_isB64' num den r hden h

/-- the sign is kept: the result of a non-negative input is non-negative, of a non-positive input non-positive. -/
theorem roundDouble_sign (num : Int) (den : Nat) (r : Dbl) (h : roundDouble num den = some r) :
    (0 ≤ num → 0 ≤ r.num) ∧ (num ≤ 0 → r.num ≤ 0) := by
  exact roundDouble_sign' num den r h

/-- ROUND TO NEAREST: no finite binary64 value `y = yn/yd` is strictly nearer to `num/den` than the result `r`:
`|num/den − r| ≤ |num/den − y|`, cross-multiplied. -/
theorem roundDouble_nearest (num : Int) (den : Nat) (r : Dbl) (hden : 0 < den) (h : roundDouble num den = some r)
    (yn : Int) (yd : Nat) (hy : IsB64 yn yd) :
    (num * r.den - r.num * den).natAbs * yd ≤ (num * yd - yn * den).natAbs * r.den := by
  obtain ⟨_, m', e', hm', he1, _, hy⟩ := hy
  exact roundDouble_nearest' num den r hden h yn yd m' e' hm' he1 hy

/-- OVERFLOW: `none` exactly when the magnitude reaches the threshold `(2^54 − 1)·2^970 = (2^53 − 1/2)·2^971`, where
IEEE round-to-nearest gives infinity. -/
theorem roundDouble_none_iff (num : Int) (den : Nat) (hden : 0 < den) :
    roundDouble num den = none ↔ (2 ^ 54 - 1) * 2 ^ 970 * den ≤ num.natAbs := by
  exact roundDouble_none_iff' num den hden

/-- a value that already is a binary64 value is returned unchanged (as a fraction). -/
theorem roundDouble_of_isB64 (num : Int) (den : Nat) (h : IsB64 num den) :
    ∃ r, roundDouble num den = some r ∧ r.num * den = num * r.den := by
  obtain ⟨hden, m', e', hm', he1, he2, hy⟩ := h
  exact roundDouble_fixed' num den hden m' e' hm' he1 he2 hy

end Dsw
