import DswModel.Model.Spiderweb
import DswModel.Lemmas.Defs
import DswModel.Lemmas.DeBruijn
import DswModel.Lemmas.Removal
/-!
# C19 — arc removal keeps both graph views in step over any call sequence

Property theorems only; helper lemmas go to `DswModel/Lemmas/Removal.lean`.
-/
namespace Dsw

/-- the accessor is a de Bruijn sub-table and the latter map describes the same graph. -/
def Consistent (k : Nat) (a : Acc) (lm : LMap) : Prop :=
  WFdB k a ∧ lm = accessorToLatterMap a

/-- number of arcs of the graph. -/
def Acc.arcCount (a : Acc) : Nat :=
  ((List.range a.size).map fun (v : Nat) => (a.live (v : Int)).length).sum

/-- score of cell `(v, j)`. -/
def scoreAt (sc : Array (Array Nat)) (v j : Nat) : Nat := (sc.getD v #[]).getD j 0

/-- intersection scores have the accessor's shape and are positive only on existing arcs. -/
theorem C19_scores (k : Nat) (a : Acc) (ins del : Bool) (hk : 1 ≤ k) (h : WFdB k a) :
    (calculateIntersectionScore (accessorToLatterMap a) k ins del).size = 4 ^ k ∧
    (∀ v, v < 4 ^ k → ((calculateIntersectionScore (accessorToLatterMap a) k ins del).getD v #[]).size = 4) ∧
    (∀ v j : Nat, v < 4 ^ k → j < 4 →
      0 < scoreAt (calculateIntersectionScore (accessorToLatterMap a) k ins del) v j → 0 ≤ a.ent (v : Int) j) := by
  have hinv := scoreInv_calc k (accessorToLatterMap a) ins del
    (fun v j => 0 ≤ a.ent (v : Int) j) (latterMap_good hk h)
  exact ⟨hinv.1, hinv.2.1, fun v j _ _ hp => hinv.2.2 v j hp⟩

/-- one returning call: it removes exactly one arc that existed, that arc has the maximum
intersection score of the graph before the call, no other entry changes, and the accessor and
latter map handed back describe the same graph. -/
theorem C19_step (k : Nat) (a : Acc) (lm : LMap) (ins del : Bool) (r : RemoveResult) (hk : 1 ≤ k)
    (hc : Consistent k a lm) (h : removeNastyArc a lm ins del = .ok r) :
    r.former < 4 ^ k ∧
    ∃ j, j < 4 ∧ a.ent (r.former : Int) j = (r.latter : Int) ∧
      r.acc = a.setEnt r.former j (-1) ∧
      (∀ v j' : Nat, v < 4 ^ k → j' < 4 →
        scoreAt (calculateIntersectionScore lm k ins del) v j' ≤
          scoreAt (calculateIntersectionScore lm k ins del) r.former j) ∧
      Consistent k r.acc r.lmap ∧ r.acc.arcCount + 1 = a.arcCount := by
  obtain ⟨hw, rfl⟩ := hc
  obtain ⟨hlt, j, hj, hent, hacc, hlm, hmax⟩ := removeNastyArc_ok hk hw h
  have hj4 : j < 4 := ((mem_live_rm _ _ _).1 hj).1
  refine ⟨hlt, j, hj4, hent, hacc, fun v j' _ _ => hmax v j', ⟨?_, ?_⟩, ?_⟩
  · rw [hacc]; exact wfdb_setEnt k a _ _ _ hw (Or.inl rfl)
  · rw [hlm, hacc, latterMap_setEnt_erase hk hw hlt hj, hent, Int.toNat_natCast]
  · rw [hacc]; exact arcCount_setEnt hw hlt hj

/-- a sequence of removal calls, stopping at the first call that raises. -/
def removeSeq : Acc → LMap → List (Bool × Bool) → R (Acc × LMap)
  | a, lm, [] => .ok (a, lm)
  | a, lm, f :: fs =>
    match removeNastyArc a lm f.1 f.2 with
    | .ok r => removeSeq r.acc r.lmap fs
    | .error e => .error e

/-- over any sequence of returning calls the two views stay in step and each call removes exactly
one arc. -/
theorem C19_history (k : Nat) (a a' : Acc) (lm lm' : LMap) (flags : List (Bool × Bool)) (hk : 1 ≤ k)
    (hc : Consistent k a lm) (h : removeSeq a lm flags = .ok (a', lm')) :
    Consistent k a' lm' ∧ a'.arcCount + flags.length = a.arcCount := by
  induction flags generalizing a lm with
  | nil =>
    simp only [removeSeq, Except.ok.injEq, Prod.mk.injEq] at h
    obtain ⟨rfl, rfl⟩ := h
    exact ⟨hc, rfl⟩
  | cons f fs ih =>
    rw [removeSeq] at h
    split at h
    · next r hr =>
      obtain ⟨_, j, _, _, _, _, hc', hcnt⟩ := C19_step k a lm f.1 f.2 r hk hc hr
      obtain ⟨h1, h2⟩ := ih r.acc r.lmap hc' h
      refine ⟨h1, ?_⟩
      rw [List.length_cons]; omega
    · cases h

example : Consistent 2 gcBalanced2 (accessorToLatterMap gcBalanced2) ∧ wfdbB 2 gcBalanced2 = true :=
  ⟨⟨wfdb_induced 2 _, rfl⟩, by decide +kernel⟩
example : (removeNastyArc gcBalanced2 (accessorToLatterMap gcBalanced2) true true).toOption.map
    (fun r => (r.former, r.latter)) = some (1, 4) := by decide +kernel

end Dsw
