import DswModel.Props.C12b
import DswModel.Props.C02b
import DswModel.Props.FloatSpec
import DswModel.Lemmas.FloatGc
/-!
# C12 (continued) — the thresholds the code's float expressions produce versus the exact ones

`exactGcRule lo hi k` (Props/C12b.lean) holds the thresholds `⌈lo·k⌉`, `⌊hi·k⌋`, `⌊k − lo·k⌋` of EXACT fractions;
`floatGcRule lo hi k` (Model/Biofilter.lean) the ones the code's double-precision expressions produce for the doubles `lo`,
`hi`. These theorems say how far apart they can be: never by more than one count, and not at all whenever the products are
themselves binary64 values (every bound such as 0.5, 0.25, 0.75, and every bound at all when the window is a power of two)
— which is the precise sense in which "the configured fraction" of C12 is honoured.
-/
namespace Dsw

/-- the exact value of a double, as a rational. -/
def dblQ (x : Dbl) : Rat := (x.num : Rat) / (x.den : Rat)

/-- when `lo·k` and `hi·k` are binary64 values, the full-window thresholds the code uses are exactly the documented ones
for the two doubles; the short-strand bound is the documented one or one count more (never less, `C02_float_consistent`). -/
theorem C12_float_exact (lo hi : Dbl) (k : Nat) (g : GcRule) (hlo : 0 < lo.den) (hhi : 0 < hi.den)
    (l01 : 0 ≤ lo.num ∧ lo.num ≤ lo.den) (h01 : 0 ≤ hi.num ∧ hi.num ≤ hi.den) (hk : k ≤ 2 ^ 53)
    (el : IsB64 (lo.num * k) lo.den) (eh : IsB64 (hi.num * k) hi.den)
    (hg : floatGcRule lo hi k = some g) :
    g.gcLo = (exactGcRule (dblQ lo) (dblQ hi) k).gcLo ∧ g.gcHi = (exactGcRule (dblQ lo) (dblQ hi) k).gcHi ∧
    ((exactGcRule (dblQ lo) (dblQ hi) k).atHi ≤ g.atHi ∧ g.atHi ≤ (exactGcRule (dblQ lo) (dblQ hi) k).atHi + 1) := by
  have _ := h01
  obtain ⟨fk, a, b, c, hnum, hfd, ha, hb, hc, hlo', hhi', hat⟩ := floatGcRule_some hk hg
  obtain ⟨had, ha0, _⟩ := Dbl.mul_range hlo l01.1 l01.2 hk hnum hfd ha
  obtain ⟨q0, q1⟩ := FloatGc.q_range hlo l01.1 l01.2
  have hkq : (0 : Rat) ≤ (k : Rat) := Nat.cast_nonneg k
  have hL0 : 0 ≤ FloatGc.q lo * k := mul_nonneg q0 hkq
  have hL1 : FloatGc.q lo * k ≤ k := by nlinarith
  have ea : FloatGc.q a = FloatGc.q lo * k := FloatGc.mul_exact hlo hnum hfd ha el
  have eb : FloatGc.q b = FloatGc.q hi * k := FloatGc.mul_exact hhi hnum hfd hb eh
  show g.gcLo = (FloatGc.q lo * k).ceil ∧ g.gcHi = (FloatGc.q hi * k).floor ∧
    (((k : Rat) - FloatGc.q lo * k).floor ≤ g.atHi ∧ g.atHi ≤ ((k : Rat) - FloatGc.q lo * k).floor + 1)
  rw [hlo', hhi', hat, FloatGc.ceil_eq_q, FloatGc.floor_eq_q, FloatGc.floor_eq_q, Thresholds.floor_natCast_sub,
    ← Thresholds.ceil_eq, ← Thresholds.floor_eq, ea, eb]
  refine ⟨rfl, rfl, ?_, ?_⟩
  all_goals
    have hm_ge : FloatGc.q lo * k ≤ (⌈FloatGc.q lo * k⌉ : Int) := Int.le_ceil _
    have hm_lt : ((⌈FloatGc.q lo * k⌉ : Int) : Rat) < FloatGc.q lo * k + 1 := Int.ceil_lt_add_one _
    have hm0 : 0 ≤ ⌈FloatGc.q lo * k⌉ := Int.ceil_nonneg hL0
    have hmk : ⌈FloatGc.q lo * k⌉ ≤ (k : Int) := Int.ceil_le.2 (by push_cast; exact hL1)
    generalize ⌈FloatGc.q lo * k⌉ = m at hm_ge hm_lt hm0 hmk ⊢
  · apply Int.le_floor.2
    apply FloatGc.sub_ge had hnum hfd hc ((k : Int) - m) (by omega)
    push_cast
    linarith
  · by_cases hm1 : 1 ≤ m
    · have h1 : FloatGc.q c ≤ (((k : Int) - m + 1 : Int) : Rat) := by
        apply FloatGc.sub_le had hnum hfd hc ((k : Int) - m + 1) (by omega)
        push_cast
        linarith
      exact Int.cast_le.1 (le_trans (Int.floor_le _) h1)
    · have h1 : FloatGc.q c ≤ (((k : Int) : Int) : Rat) := by
        apply FloatGc.sub_le had hnum hfd hc (k : Int) (by omega)
        push_cast
        linarith
      have := Int.cast_le.1 (le_trans (Int.floor_le _) h1)
      omega

/-- in general (bounds in `[0, 1]`, windows up to `2^52`) each float threshold is within one count of the exact one. -/
theorem C12_float_near (lo hi : Dbl) (k : Nat) (g : GcRule) (hlo : 0 < lo.den) (hhi : 0 < hi.den)
    (l01 : 0 ≤ lo.num ∧ lo.num ≤ lo.den) (h01 : 0 ≤ hi.num ∧ hi.num ≤ hi.den) (hk : k ≤ 2 ^ 52)
    (hg : floatGcRule lo hi k = some g) :
    (g.gcLo - (exactGcRule (dblQ lo) (dblQ hi) k).gcLo).natAbs ≤ 1 ∧
    (g.gcHi - (exactGcRule (dblQ lo) (dblQ hi) k).gcHi).natAbs ≤ 1 ∧
    (g.atHi - (exactGcRule (dblQ lo) (dblQ hi) k).atHi).natAbs ≤ 1 := by
  have hk53 : k ≤ 2 ^ 53 := by omega
  obtain ⟨fk, a, b, c, hnum, hfd, ha, hb, hc, hlo', hhi', hat⟩ := floatGcRule_some hk53 hg
  obtain ⟨had, ha0, _⟩ := Dbl.mul_range hlo l01.1 l01.2 hk53 hnum hfd ha
  obtain ⟨q0, q1⟩ := FloatGc.q_range hlo l01.1 l01.2
  obtain ⟨r0, r1⟩ := FloatGc.q_range hhi h01.1 h01.2
  have hkq : (0 : Rat) ≤ (k : Rat) := Nat.cast_nonneg k
  have hL0 : 0 ≤ FloatGc.q lo * k := mul_nonneg q0 hkq
  have hL1 : FloatGc.q lo * k ≤ k := by nlinarith
  have hH0 : 0 ≤ FloatGc.q hi * k := mul_nonneg r0 hkq
  have hH1 : FloatGc.q hi * k ≤ k := by nlinarith
  show (g.gcLo - (FloatGc.q lo * k).ceil).natAbs ≤ 1 ∧ (g.gcHi - (FloatGc.q hi * k).floor).natAbs ≤ 1 ∧
    (g.atHi - ((k : Rat) - FloatGc.q lo * k).floor).natAbs ≤ 1
  rw [hlo', hhi', hat, FloatGc.ceil_eq_q, FloatGc.floor_eq_q, FloatGc.floor_eq_q, Thresholds.floor_natCast_sub,
    ← Thresholds.ceil_eq, ← Thresholds.floor_eq]
  have hm_ge : FloatGc.q lo * k ≤ (⌈FloatGc.q lo * k⌉ : Int) := Int.le_ceil _
  have hm_lt : ((⌈FloatGc.q lo * k⌉ : Int) : Rat) < FloatGc.q lo * k + 1 := Int.ceil_lt_add_one _
  have hm0 : 0 ≤ ⌈FloatGc.q lo * k⌉ := Int.ceil_nonneg hL0
  have hmk : ⌈FloatGc.q lo * k⌉ ≤ (k : Int) := Int.ceil_le.2 (by push_cast; exact hL1)
  generalize ⌈FloatGc.q lo * k⌉ = m at hm_ge hm_lt hm0 hmk ⊢
  have hn_le : ((⌊FloatGc.q hi * k⌋ : Int) : Rat) ≤ FloatGc.q hi * k := Int.floor_le _
  have hn_lt : FloatGc.q hi * k < ((⌊FloatGc.q hi * k⌋ : Int) : Rat) + 1 := Int.lt_floor_add_one _
  have hn0 : 0 ≤ ⌊FloatGc.q hi * k⌋ := Int.floor_nonneg.2 hH0
  have hnk : ⌊FloatGc.q hi * k⌋ ≤ (k : Int) := by
    have : ((⌊FloatGc.q hi * k⌋ : Int) : Rat) ≤ (((k : Int) : Int) : Rat) := by push_cast; linarith
    exact Int.cast_le.1 this
  generalize ⌊FloatGc.q hi * k⌋ = n at hn_le hn_lt hn0 hnk ⊢
  -- the three rounded values between consecutive integers
  have a_le : FloatGc.q a ≤ ((m : Int) : Rat) := FloatGc.mul_le hlo hnum hfd ha m (by omega) hm_ge
  have a_ge : (((m - 1 : Int)) : Rat) ≤ FloatGc.q a :=
    FloatGc.mul_ge hlo hnum hfd ha (m - 1) (by omega) (by push_cast; linarith)
  have b_ge : ((n : Int) : Rat) ≤ FloatGc.q b := FloatGc.mul_ge hhi hnum hfd hb n (by omega) hn_le
  have b_le : FloatGc.q b ≤ (((n + 1 : Int)) : Rat) :=
    FloatGc.mul_le hhi hnum hfd hb (n + 1) (by omega) (by push_cast; linarith)
  have c_ge : ((((k : Int) - m : Int)) : Rat) ≤ FloatGc.q c :=
    FloatGc.sub_ge had hnum hfd hc ((k : Int) - m) (by omega) (by push_cast; linarith)
  have c_le : FloatGc.q c ≤ ((((k : Int) - m + 1 : Int)) : Rat) :=
    FloatGc.sub_le had hnum hfd hc ((k : Int) - m + 1) (by omega) (by push_cast at a_ge ⊢; linarith)
  have g1 : ⌈FloatGc.q a⌉ ≤ m := Int.ceil_le.2 a_le
  have g2 : m - 1 ≤ ⌈FloatGc.q a⌉ := Int.cast_le.1 (le_trans a_ge (Int.le_ceil _))
  have g3 : n ≤ ⌊FloatGc.q b⌋ := Int.le_floor.2 b_ge
  have g4 : ⌊FloatGc.q b⌋ ≤ n + 1 := Int.cast_le.1 (le_trans (Int.floor_le _) b_le)
  have g5 : (k : Int) - m ≤ ⌊FloatGc.q c⌋ := Int.le_floor.2 c_ge
  have g6 : ⌊FloatGc.q c⌋ ≤ (k : Int) - m + 1 := Int.cast_le.1 (le_trans (Int.floor_le _) c_le)
  refine ⟨?_, ?_, ?_⟩ <;> omega

/-- non-vacuity: `lo = 0.5`, `k = 5`: `2.5` is a binary64 value (`5·2^-1`); for `lo = 0.8` (the double nearest to 0.8)
the exact product `0.8·5` is NOT one — it needs 55 bits — and `C12_float_near` applies instead. -/
example : IsB64 ((⟨1, 2⟩ : Dbl).num * 5) 2 := by
  refine ⟨by decide, 5, -1, by decide, by decide, by decide, ?_⟩
  simp only [EqPow2]
  decide

end Dsw
