import DswModel.Props.C01
import DswModel.Props.C02
import DswModel.Props.C03
import DswModel.Props.C04
import DswModel.Props.C05
import DswModel.Props.C08
import DswModel.Props.C09
import DswModel.Props.C11
import DswModel.Props.C13
import DswModel.Lemmas.Compose
/-!
# End-to-end corollaries: the property theorems fit together

These are compositions of the per-property theorems along the pipeline a user runs:
filter → vertex discovery → coding graph → encode → (corrupt) → repair → decode.
Helper lemmas go to `DswModel/Lemmas/Compose.lean`.
-/
namespace Dsw

/-- C02 sentence 1 for EVERY threshold `1 ≤ t` (C02_generated_subgraph covers `2 ≤ t`; threshold 1
uses `C03_t1`). -/
theorem E2E_generated_subgraph (k t : Nat) (m : Mask) (vs : List Nat) (a : Acc) (hk : 1 ≤ k)
    (hm : m.size = 4 ^ k) (ht : 1 ≤ t) (ht4 : t ≤ 4) (h : connectCodingGraph k m t = .ok (vs, a)) :
    SubGraphOf k a m ∧ ∀ v ∈ vs, v < 4 ^ k ∧ m.getD v false = true := by
  obtain ⟨s, ⟨_, hsub, _, _⟩, rfl, rfl, _, _⟩ := (C03_holds k t m hm hk ht ht4).1 vs a h
  refine ⟨Windows.arcsIn_induced k s m hsub, fun v hv => ?_⟩
  have hvs := Trim.Mask.mem_indices.1 hv
  have hlt := Trim.Mask.lt_size_of_getD (hsub v hvs)
  exact ⟨by omega, hsub v hvs⟩

/-- the whole write path: for any filter predicate `P`, observed length, threshold, retained start
vertex, table and message, `encode` returns a strand `s` such that (1) every window of
`start k-mer ++ s` satisfies `P`, (2) `s` is a walk of the generated graph, (3) decoding `s` gives
the message back, (4) `s` has at most `L·4^k` nucleotides. -/
theorem E2E_write_read (k t : Nat) (P : List Char → Bool) (m : Mask) (vs : List Nat) (a : Acc) (v : Nat)
    (tbl : Option Tbl) (bits : List Nat) (hk : 1 ≤ k) (ht : 1 ≤ t) (ht4 : t ≤ 4)
    (hf : findVertices k P = .ok m) (hg : connectCodingGraph k m t = .ok (vs, a)) (hv : v ∈ vs)
    (hb : IsBits bits) :
    ∃ s, encode a tbl (v : Int) bits false 0 (encodeFuel a bits) = .ok (s, none) ∧
      isWalk a (v : Int) s = true ∧
      (∀ i, i + k ≤ (kmerOf k v ++ s).length → P (((kmerOf k v ++ s).drop i).take k) = true) ∧
      decode a tbl (v : Int) s bits.length false none = .ok bits ∧
      s.length ≤ bits.length * 4 ^ k := by
  obtain ⟨hm, -, -⟩ := (C11_mask k P).1 m hf
  obtain ⟨hsub, hvs⟩ := E2E_generated_subgraph k t m vs a hk hm ht ht4 hg
  obtain ⟨hv1, hv2⟩ := hvs v hv
  obtain ⟨s, he, hw, hl⟩ := C04_terminates_normal k t m vs a v tbl bits hk hm ht hg hv hb
  have hsz : a.size = 4 ^ k := (C13_wfdb_coding_graph k m t vs a hg).1
  rw [hsz] at hl
  exact ⟨s, he, hw, C02_windows k P m a v s hk hf hsub hv1 hv2 hw,
    C01_normal a tbl (v : Int) bits 0 _ s none hb he, hl⟩

/-- C08/C09 together, for one proper interior edit of a walk on a generated (vertex-induced) graph:
the repair returns, and it reports exactly one error iff the corrupted strand is no longer a walk
(and zero errors otherwise); in the first case the original is among the candidates, in the second
the corrupted strand itself is returned. -/
theorem E2E_single_edit (k : Nat) (s : Mask) (v : Nat) (w : List Char) (e : Edit) (heap : Nat)
    (hk : 1 ≤ k) (hs : s.size = 4 ^ k) (hv : s.getD v false = true)
    (hw : isWalk (inducedAccessor k s) v w = true) (he : e.Interior k w.length) (hp : e.Proper w)
    (hheap : 9 * k ≤ heap) :
    ∃ cands st, repairDna (inducedAccessor k s) (e.apply w) v k none true heap = .ok (cands, st) ∧
      (isWalk (inducedAccessor k s) v (e.apply w) = false → st.detected = 1 ∧ w ∈ cands) ∧
      (isWalk (inducedAccessor k s) v (e.apply w) = true → st.detected = 0 ∧ cands = [e.apply w]) := by
  cases hc : isWalk (inducedAccessor k s) v (e.apply w) with
  | true =>
    obtain ⟨b, st, hb, hr, hd⟩ := C09_clean (inducedAccessor k s) (e.apply w) v k none true heap hc
    have hbt : b = true := Compose.vtMatches_none_eq hb
    subst hbt
    exact ⟨[e.apply w], st, hr, fun h => (by cases h), fun _ => ⟨hd, rfl⟩⟩
  | false =>
    obtain ⟨cands, st, hr, hd, hmem⟩ :=
      C08_single k s v w e none heap hk hs hv hw he hp (Or.inl rfl) hheap hc
    exact ⟨cands, st, hr, fun _ => ⟨hd, hmem⟩, fun h => (by cases h)⟩

/-- write, corrupt once, repair with the check, decode: the original message is recovered from
some returned candidate — and every returned candidate reproduces the check (C09_check). -/
theorem E2E_repair_then_decode (k : Nat) (s : Mask) (v : Nat) (tbl : Option Tbl) (bits : List Nat)
    (w c : List Char) (e : Edit) (n heap fuel : Nat)
    (hk : 1 ≤ k) (hs : s.size = 4 ^ k) (hv : s.getD v false = true) (hn : 1 ≤ n) (hb : IsBits bits)
    (henc : encode (inducedAccessor k s) tbl v bits false n fuel = .ok (w, some c))
    (he : e.Interior k w.length) (hp : e.Proper w) (hheap : 9 * k ≤ heap)
    (hbad : isWalk (inducedAccessor k s) v (e.apply w) = false) :
    ∃ cands st, repairDna (inducedAccessor k s) (e.apply w) v k (some c) true heap = .ok (cands, st) ∧
      w ∈ cands ∧ (∀ x ∈ cands, setVt x c.length = .ok c) ∧
      decode (inducedAccessor k s) tbl v w bits.length false (some c) = .ok bits := by
  obtain ⟨hw, hset⟩ := Compose.encode_check hb hn henc
  obtain ⟨cands, st, hr, _, hmem⟩ := C08_single k s v w e (some c) heap hk hs hv hw he hp
    (Or.inr ⟨n, c, hn, hset, rfl⟩) hheap hbad
  exact ⟨cands, st, hr, hmem, C09_check _ _ _ _ c true heap cands st hr,
    C01_normal _ tbl _ bits n fuel w (some c) hb henc⟩

end Dsw
