import DswModel.Model.Biofilter
import DswModel.Lemmas.FloatRound
import DswModel.Lemmas.FloatRoundGc
/-!
# C02 (continued) — the GC thresholds the code's FLOAT expressions produce are mutually consistent

`C12_exact_consistent` (Props/C12b.lean) shows `⌊k − lo·k⌋ = k − ⌈lo·k⌉` for EXACT fractions. The code computes
`lo*k` and `k - lo*k` in double precision; defect D8 (repaired) was a filter whose short-strand A+T bound, computed as
`(1 - lo) * k`, was STRICTER than the full-window GC lower bound, so that a prefix of a valid strand was rejected.
With the exact model of double rounding (`Model/Float.lean`) the repaired expressions can be judged for ALL doubles:
for every GC lower bound `0 ≤ lo ≤ 1` and every window `k ≤ 2^53` the short-strand bound is never stricter than the
window bound (`k − gcLo ≤ atHi`) — which is what makes every prefix of a strand whose windows are valid pass the
whole-sequence check (C02). Before this theorem the harness checked that inequality on a grid.
-/
namespace Dsw

/-- C02/C12, float thresholds: the A+T bound for strands shorter than a window admits at least everything the GC lower
bound of a full window admits. For all doubles `lo ∈ [0, 1]`, all doubles `hi`, all windows up to 2^53. -/
theorem C02_float_consistent (lo hi : Dbl) (k : Nat) (g : GcRule) (hden : 0 < lo.den)
    (h0 : 0 ≤ lo.num) (h1 : lo.num ≤ lo.den) (hk : k ≤ 2 ^ 53)
    (hg : floatGcRule lo hi k = some g) : (k : Int) - g.gcLo ≤ g.atHi := by
  exact floatGcRule_consistent hden h0 h1 hk hg

/-- the thresholds stay inside the window: `0 ≤ gcLo ≤ k` for `lo ∈ [0, 1]`. -/
theorem C02_float_gcLo_range (lo hi : Dbl) (k : Nat) (g : GcRule) (hden : 0 < lo.den)
    (h0 : 0 ≤ lo.num) (h1 : lo.num ≤ lo.den) (hk : k ≤ 2 ^ 53)
    (hg : floatGcRule lo hi k = some g) : 0 ≤ g.gcLo ∧ g.gcLo ≤ k := by
  exact floatGcRule_gcLo_range hden h0 h1 hk hg

/-- and `0 ≤ gcHi ≤ k` for `hi ∈ [0, 1]`. -/
theorem C02_float_gcHi_range (lo hi : Dbl) (k : Nat) (g : GcRule) (hden : 0 < hi.den)
    (h0 : 0 ≤ hi.num) (h1 : hi.num ≤ hi.den) (hk : k ≤ 2 ^ 53)
    (hg : floatGcRule lo hi k = some g) : 0 ≤ g.gcHi ∧ g.gcHi ≤ k := by
  exact floatGcRule_gcHi_range hden h0 h1 hk hg

/-- for such bounds and windows the thresholds always exist (no product overflows). -/
theorem C02_float_defined (lo hi : Dbl) (k : Nat) (hlo : 0 < lo.den) (hhi : 0 < hi.den)
    (l0 : 0 ≤ lo.num) (l1 : lo.num ≤ lo.den) (u0 : 0 ≤ hi.num) (u1 : hi.num ≤ hi.den) (hk : k ≤ 2 ^ 53) :
    ∃ g, floatGcRule lo hi k = some g := by
  exact floatGcRule_defined hlo hhi l0 l1 u0 u1 hk

/-- non-vacuity and the D8 instance: `lo = 0.8` (the double), `k = 5`: thresholds 4 / 5 / 1, consistent. -/
example : floatGcRule ⟨3602879701896397, 4503599627370496⟩ ⟨1, 1⟩ 5 = some ⟨4, 5, 1⟩ := by rfl

end Dsw
