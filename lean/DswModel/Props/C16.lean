import DswModel.Model.Operation
import DswModel.Lemmas.Decimal
import DswModel.Lemmas.Convert
/-!
# C16 — bit / number / DNA conversions are exact inverses at any length

Property theorems only; helper lemmas in `DswModel/Lemmas/Convert.lean` (which may use the C15
lemmas of `DswModel/Lemmas/Decimal.lean`).
-/
namespace Dsw

def IsBits (m : List Nat) : Prop := ∀ b ∈ m, b < 2
def IsDna (d : List Char) : Prop := ∀ c ∈ d, (nucIdx c).isSome = true

/-- converting bits to a number and back with the original length returns the bits, on the
string path (the one `encode`/`decode` use) and on the integer path. -/
theorem C16_bits_roundtrip (m : List Nat) (hm : IsBits m) :
    numberToBitStr (bitToNumberStr m) m.length = .ok m ∧
    numberToBitInt (bitToNumberInt m) m.length = m := by
  obtain ⟨hc, hv⟩ := bitToNumberStr_spec m hm
  refine ⟨?_, numberToBitInt_bitToNumberInt m hm⟩
  rw [numberToBitStr_eq _ hc, hv, numberToBitInt_bitToNumberInt m hm]

/-- the string-typed and the integer-typed path give the same value (and the string is canonical). -/
theorem C16_bits_paths_agree (m : List Nat) (hm : IsBits m) :
    (bitToNumberStr m).Canonical ∧ (bitToNumberStr m).toNat = bitToNumberInt m :=
  bitToNumberStr_spec m hm

theorem C16_dna_roundtrip (d : List Char) (hd : IsDna d) :
    (∃ n, dnaToNumberStr d = .ok n ∧ numberToDnaStr n d.length = .ok d) ∧
    (∃ n, dnaToNumberInt d = .ok n ∧ numberToDnaInt n d.length = d) := by
  obtain ⟨hc, hv⟩ := dnaStr_spec d
  refine ⟨⟨_, dnaToNumberStr_ok d hd, ?_⟩, ⟨_, dnaToNumberInt_ok d hd, numberToDnaInt_valB d hd⟩⟩
  rw [numberToDnaStr_eq _ hc, hv, numberToDnaInt_valB d hd]

theorem C16_dna_paths_agree (d : List Char) (hd : IsDna d) :
    ∃ s n, dnaToNumberStr d = .ok s ∧ dnaToNumberInt d = .ok n ∧ s.Canonical ∧ s.toNat = n := by
  obtain ⟨hc, hv⟩ := dnaStr_spec d
  exact ⟨_, _, dnaToNumberStr_ok d hd, dnaToNumberInt_ok d hd, hc, hv⟩

/-- a foreign character is a `ValueError` on both paths. -/
theorem C16_dna_foreign (d : List Char) (hd : ¬ IsDna d) :
    dnaToNumberStr d = .error .valueError ∧ dnaToNumberInt d = .error .valueError := by
  have h := nucValues_error d hd
  unfold dnaToNumberStr dnaToNumberInt
  rw [h]
  exact ⟨rfl, rfl⟩

/-- every number below `2^L`: the `L`-symbol rendering has length `L`, converts back to the
number, is the shortest rendering left-padded with `0`, and both paths agree. -/
theorem C16_number_bits (n L : Nat) (h : n < 2 ^ L) :
    (numberToBitInt n L).length = L ∧ IsBits (numberToBitInt n L) ∧
    bitToNumberInt (numberToBitInt n L) = n ∧
    (∃ z, numberToBitInt n L = List.replicate z 0 ++ digitsNat 2 n []) ∧
    (∀ s : Dec, s.Canonical → s.toNat = n → numberToBitStr s L = .ok (numberToBitInt n L)) := by
  obtain ⟨h1, h2, h3, h4⟩ := numberToBitInt_spec n L h
  refine ⟨h1, h2, h3, h4, ?_⟩
  intro s hs hv
  rw [numberToBitStr_eq s hs, hv]

theorem C16_number_dna (n L : Nat) (h : n < 4 ^ L) :
    (numberToDnaInt n L).length = L ∧ IsDna (numberToDnaInt n L) ∧
    dnaToNumberInt (numberToDnaInt n L) = .ok n ∧
    (∃ z, numberToDnaInt n L = List.replicate z 'A' ++ (digitsNat 4 n []).map nucChar) ∧
    (∀ s : Dec, s.Canonical → s.toNat = n → numberToDnaStr s L = .ok (numberToDnaInt n L)) := by
  obtain ⟨h1, h2, h3, h4⟩ := numberToDnaInt_spec n L h
  refine ⟨h1, h2, h3, h4, ?_⟩
  intro s hs hv
  rw [numberToDnaStr_eq s hs, hv]

/-- the loops over decimal strings never run out of the fuel the model gives them. -/
theorem C16_fuel (s : Dec) (hs : s.Canonical) (base : Nat) (hb : 2 ≤ base) (hb' : base < 10) :
    ∃ ds, digitsStrLoop base (digitsFuel s) s [] = .ok ds ∧ ds = digitsNat base s.toNat [] :=
  ⟨_, digitsStrLoop_fuel base hb hb' s hs [], rfl⟩

example : IsBits [0, 0, 1, 0, 1] ∧ IsDna "AACGT".toList := by
  constructor
  · unfold IsBits; decide
  · unfold IsDna; decide
example : numberToBitStr (bitToNumberStr [0, 0, 1, 0, 1]) 5 = .ok [0, 0, 1, 0, 1] := by decide

end Dsw
