import DswModel.Model.Spiderweb
import DswModel.Lemmas.Defs
import DswModel.Lemmas.DeBruijn
/-!
# C13 — vertex indices are k-mers and arcs are shift-append

Property theorems only; helper lemmas go to `DswModel/Lemmas/DeBruijn.lean`.
-/
namespace Dsw

/-- index → k-mer → index. -/
theorem C13_idx_of_kmer (k v : Nat) (h : v < 4 ^ k) :
    (kmerOf k v).length = k ∧ (∀ c ∈ kmerOf k v, (nucIdx c).isSome = true) ∧ kmerIdx (kmerOf k v) = v ∧
    dnaToNumberInt (kmerOf k v) = .ok v := by
  exact ⟨kmerOf_length k v h, kmerOf_acgt k v h, kmerIdx_kmerOf k v h, by
    rw [dnaToNumberInt_acgt _ (kmerOf_acgt k v h), kmerIdx_kmerOf k v h]⟩

/-- k-mer → index → k-mer. -/
theorem C13_kmer_of_idx (s : List Char) (hs : ∀ c ∈ s, (nucIdx c).isSome = true) :
    kmerIdx s < 4 ^ s.length ∧ kmerOf s.length (kmerIdx s) = s := by
  exact ⟨kmerIdx_lt s, kmerOf_kmerIdx s hs⟩

/-- successor list = drop the first nucleotide, append one, in A,C,G,T order. -/
theorem C13_latters (k v : Nat) (hk : 1 ≤ k) (h : v < 4 ^ k) :
    obtainLatters k v = "ACGT".toList.map fun c => kmerIdx ((kmerOf k v).tail ++ [c]) := by
  obtain ⟨k, rfl⟩ : ∃ k', k = k' + 1 := ⟨k - 1, by omega⟩
  simp only [kmerIdx_snoc, kmerIdx_tail_kmerOf k v h]
  rw [acgt_map_comp (fun j => v % 4 ^ k * 4 + j)]
  unfold obtainLatters
  apply List.map_congr_left
  intro j hj
  rw [four_pow_succ, shift_mod _ _ _ (List.mem_range.1 hj)]

/-- predecessor list = drop the last nucleotide, prepend one, in A,C,G,T order. -/
theorem C13_formers (k v : Nat) (hk : 1 ≤ k) (h : v < 4 ^ k) :
    obtainFormers k v = "ACGT".toList.map fun c => kmerIdx (c :: (kmerOf k v).dropLast) := by
  obtain ⟨k, rfl⟩ : ∃ k', k = k' + 1 := ⟨k - 1, by omega⟩
  have hv4 : v / 4 < 4 ^ k := by rw [four_pow_succ] at h; omega
  simp only [kmerIdx_cons, dropLast_kmerOf k v h, kmerIdx_kmerOf k _ hv4, kmerOf_length k _ hv4]
  rw [acgt_map_comp (fun j => j * 4 ^ k + v / 4)]
  unfold obtainFormers
  apply List.map_congr_left
  intro j _
  simp only [Nat.add_sub_cancel]
  omega

theorem C13_latters_lt (k v : Nat) (hk : 1 ≤ k) : ∀ w ∈ obtainLatters k v, w < 4 ^ k := by
  have _ := hk
  intro w hw
  rcases (mem_obtainLatters k v w).1 hw with ⟨j, _, rfl⟩
  exact Nat.mod_lt _ (four_pow_pos k)

theorem C13_formers_lt (k v : Nat) (hk : 1 ≤ k) (h : v < 4 ^ k) : ∀ u ∈ obtainFormers k v, u < 4 ^ k := by
  obtain ⟨k, rfl⟩ : ∃ k', k = k' + 1 := ⟨k - 1, by omega⟩
  intro u hu
  rcases (mem_obtainFormers _ v u).1 hu with ⟨j, hj, rfl⟩
  simp only [Nat.add_sub_cancel]
  rw [four_pow_succ] at h ⊢
  have : j * 4 ^ k ≤ 3 * 4 ^ k := Nat.mul_le_mul_right _ (by omega)
  omega

/-- `u` is a predecessor of `v` exactly when `v` is a successor of `u`. -/
theorem C13_former_iff_latter (k u v : Nat) (hk : 1 ≤ k) (hu : u < 4 ^ k) (hv : v < 4 ^ k) :
    u ∈ obtainFormers k v ↔ v ∈ obtainLatters k u := by
  obtain ⟨k, rfl⟩ : ∃ k', k = k' + 1 := ⟨k - 1, by omega⟩
  rw [mem_obtainFormers, mem_obtainLatters]
  simp only [Nat.add_sub_cancel]
  rw [four_pow_succ] at hu hv ⊢
  constructor
  · rintro ⟨j, hj, rfl⟩
    refine ⟨v % 4, by omega, ?_⟩
    have e : (v / 4 + j * 4 ^ k) * 4 + v % 4 = v + j * (4 * 4 ^ k) := by
      rw [Nat.add_mul, Nat.mul_assoc, Nat.mul_comm (4 ^ k) 4]; omega
    rw [e, Nat.add_mul_mod_self_right, Nat.mod_eq_of_lt hv]
  · rintro ⟨j, hj, rfl⟩
    rw [shift_mod _ _ _ hj]
    refine ⟨u / 4 ^ k, ?_, ?_⟩
    · exact Nat.div_lt_of_lt_mul (by rw [Nat.mul_comm]; exact hu)
    · have h1 : (u % 4 ^ k * 4 + j) / 4 = u % 4 ^ k := by omega
      rw [h1, Nat.add_comm, Nat.div_add_mod']

/-- the complete graph holds the j-th successor of every vertex in column j. -/
theorem C13_complete (k v j : Nat) (h : v < 4 ^ k) (hj : j < 4) :
    (getCompleteAccessor k).ent v j = ((v * 4 + j) % 4 ^ k : Nat) ∧ WFdB k (getCompleteAccessor k) := by
  refine ⟨?_, wfdb_complete k⟩
  unfold getCompleteAccessor
  rw [Acc.ent_range_map _ _ _ _ h]
  have hj' : j < (obtainLatters k v).length := by rw [obtainLatters_length]; exact hj
  rw [getD_map_toArray _ _ _ _ hj', obtainLatters_getElem]
  rfl

/-- every graph the library builds holds in column j either -1 or that successor. -/
theorem C13_wfdb_induced (k : Nat) (m : Mask) : WFdB k (inducedAccessor k m) := by
  exact wfdb_induced k m

theorem C13_wfdb_valid_graph (k : Nat) (m : Option Mask) (a : Acc)
    (h : connectValidGraph k m = .ok a) : WFdB k a := by
  unfold connectValidGraph at h
  split at h
  · cases h
  · split at h
    · cases h; exact wfdb_induced k _
    · cases h

/-- `setEnt … (-1)` (used by the cascade and by arc removal) preserves the invariant. -/
theorem C13_wfdb_setEnt (k : Nat) (a : Acc) (v j : Nat) (h : WFdB k a) : WFdB k (a.setEnt v j (-1)) := by
  exact wfdb_setEnt k a v j (-1) h (Or.inl rfl)

theorem C13_wfdb_coding_graph (k : Nat) (m : Mask) (t : Nat) (vs : List Nat) (a : Acc)
    (h : connectCodingGraph k m t = .ok (vs, a)) : WFdB k a := by
  exact wfdb_connectCodingGraph k m t (vs, a) h

theorem C13_wfdb_remove_nasty_arc (k : Nat) (a : Acc) (lm : LMap) (ins del : Bool) (r : RemoveResult)
    (hw : WFdB k a) (h : removeNastyArc a lm ins del = .ok r) : WFdB k r.acc := by
  exact wfdb_removeNastyArc k a lm ins del r hw h

/-- converting a legal latter map (every listed successor is a shift-successor of its key, keys
below `4^k`) gives a de Bruijn sub-table. -/
theorem C13_wfdb_latter_map (k : Nat) (lm : LMap) (a : Acc)
    (hl : ∀ p ∈ lm, p.1 < 4 ^ k ∧ ∀ w ∈ p.2, w ∈ obtainLatters k p.1)
    (h : latterMapToAccessor lm k none = .ok a) : WFdB k a := by
  exact wfdb_latterMapToAccessor k lm a (fun p hp => (hl p hp).2) h

/-- a matrix is only accepted if every 1 sits on a shift arc, and the result is a de Bruijn
sub-table (for matrices of size `4^k`). -/
theorem C13_wfdb_matrix (k : Nat) (mx : Matrix) (a : Acc) (hs : mx.size = 4 ^ k)
    (h : adjacencyMatrixToAccessor mx = .ok a) : WFdB k a := by
  exact wfdb_adjacencyMatrixToAccessor k mx a hs h

example : wfdbB 2 gcBalanced2 = true := by decide +kernel
example : obtainFormers 3 27 = [6, 22, 38, 54] ∧ obtainLatters 3 6 = [24, 25, 26, 27] := by decide

end Dsw
