import DswModel.Model.Spiderweb
import DswModel.Lemmas.Defs
import DswModel.Lemmas.DeBruijn
/-!
# C13 — vertex indices are k-mers and arcs are shift-append

Property theorems only; helper lemmas go to `DswModel/Lemmas/DeBruijn.lean`.
-/
namespace Dsw

/-- index → k-mer → index. -/
theorem C13_idx_of_kmer (k v : Nat) (h : v < 4 ^ k) :
    (kmerOf k v).length = k ∧ (∀ c ∈ kmerOf k v, (nucIdx c).isSome = true) ∧ kmerIdx (kmerOf k v) = v ∧
    dnaToNumberInt (kmerOf k v) = .ok v := by
  sorry

/-- k-mer → index → k-mer. -/
theorem C13_kmer_of_idx (s : List Char) (hs : ∀ c ∈ s, (nucIdx c).isSome = true) :
    kmerIdx s < 4 ^ s.length ∧ kmerOf s.length (kmerIdx s) = s := by
  sorry

/-- successor list = drop the first nucleotide, append one, in A,C,G,T order. -/
theorem C13_latters (k v : Nat) (hk : 1 ≤ k) (h : v < 4 ^ k) :
    obtainLatters k v = "ACGT".toList.map fun c => kmerIdx ((kmerOf k v).tail ++ [c]) := by
  sorry

/-- predecessor list = drop the last nucleotide, prepend one, in A,C,G,T order. -/
theorem C13_formers (k v : Nat) (hk : 1 ≤ k) (h : v < 4 ^ k) :
    obtainFormers k v = "ACGT".toList.map fun c => kmerIdx (c :: (kmerOf k v).dropLast) := by
  sorry

theorem C13_latters_lt (k v : Nat) (hk : 1 ≤ k) : ∀ w ∈ obtainLatters k v, w < 4 ^ k := by
  sorry

theorem C13_formers_lt (k v : Nat) (hk : 1 ≤ k) (h : v < 4 ^ k) : ∀ u ∈ obtainFormers k v, u < 4 ^ k := by
  sorry

/-- `u` is a predecessor of `v` exactly when `v` is a successor of `u`. -/
theorem C13_former_iff_latter (k u v : Nat) (hk : 1 ≤ k) (hu : u < 4 ^ k) (hv : v < 4 ^ k) :
    u ∈ obtainFormers k v ↔ v ∈ obtainLatters k u := by
  sorry

/-- the complete graph holds the j-th successor of every vertex in column j. -/
theorem C13_complete (k v j : Nat) (h : v < 4 ^ k) (hj : j < 4) :
    (getCompleteAccessor k).ent v j = ((v * 4 + j) % 4 ^ k : Nat) ∧ WFdB k (getCompleteAccessor k) := by
  sorry

/-- every graph the library builds holds in column j either -1 or that successor. -/
theorem C13_wfdb_induced (k : Nat) (m : Mask) : WFdB k (inducedAccessor k m) := by
  sorry

theorem C13_wfdb_valid_graph (k : Nat) (m : Option Mask) (a : Acc)
    (h : connectValidGraph k m = .ok a) : WFdB k a := by
  sorry

/-- `setEnt … (-1)` (used by the cascade and by arc removal) preserves the invariant. -/
theorem C13_wfdb_setEnt (k : Nat) (a : Acc) (v j : Nat) (h : WFdB k a) : WFdB k (a.setEnt v j (-1)) := by
  sorry

theorem C13_wfdb_coding_graph (k : Nat) (m : Mask) (t : Nat) (vs : List Nat) (a : Acc)
    (h : connectCodingGraph k m t = .ok (vs, a)) : WFdB k a := by
  sorry

theorem C13_wfdb_remove_nasty_arc (k : Nat) (a : Acc) (lm : LMap) (ins del : Bool) (r : RemoveResult)
    (hw : WFdB k a) (h : removeNastyArc a lm ins del = .ok r) : WFdB k r.acc := by
  sorry

/-- converting a legal latter map (every listed successor is a shift-successor of its key, keys
below `4^k`) gives a de Bruijn sub-table. -/
theorem C13_wfdb_latter_map (k : Nat) (lm : LMap) (a : Acc)
    (hl : ∀ p ∈ lm, p.1 < 4 ^ k ∧ ∀ w ∈ p.2, w ∈ obtainLatters k p.1)
    (h : latterMapToAccessor lm k none = .ok a) : WFdB k a := by
  sorry

/-- a matrix is only accepted if every 1 sits on a shift arc, and the result is a de Bruijn
sub-table (for matrices of size `4^k`). -/
theorem C13_wfdb_matrix (k : Nat) (mx : Matrix) (a : Acc) (hs : mx.size = 4 ^ k)
    (h : adjacencyMatrixToAccessor mx = .ok a) : WFdB k a := by
  sorry

example : wfdbB 2 gcBalanced2 = true := by decide +kernel
example : obtainFormers 3 27 = [6, 22, 38, 54] ∧ obtainLatters 3 6 = [24, 25, 26, 27] := by decide

end Dsw
