import DswModel.Model.Spiderweb
import DswModel.Lemmas.Defs
import DswModel.Lemmas.Repair
/-!
# C09 — repair leaves clean strands alone and only returns check-consistent candidates

Property theorems only; helper lemmas go to `DswModel/Lemmas/Repair.lean`.
-/
namespace Dsw

/-- a strand that is already a walk is returned alone (or nothing when the supplied check
disagrees) with zero detected errors — for every graph, start vertex, observed length, check,
indel setting and heap limit (both the product path and the fallback path). -/
theorem C09_clean (a : Acc) (s : List Char) (v : Int) (k : Nat) (chk : Option (List Char))
    (indel : Bool) (heap : Nat) (hw : isWalk a v s = true) :
    ∃ b st, vtMatches s chk = .ok b ∧
      repairDna a s v k chk indel heap = .ok (if b then [s] else [], st) ∧ st.detected = 0 := by
  sorry

/-- whenever the repair returns, for any input, the candidate list is strictly increasing in
Python string order (sorted and duplicate-free). -/
theorem C09_sorted_nodup (a : Acc) (s : List Char) (v : Int) (k : Nat) (chk : Option (List Char))
    (indel : Bool) (heap : Nat) (cands : List (List Char)) (st : RepairStats)
    (h : repairDna a s v k chk indel heap = .ok (cands, st)) :
    cands.Pairwise strLt := by
  sorry

/-- whenever the repair returns and a check was supplied, every candidate reproduces it. -/
theorem C09_check (a : Acc) (s : List Char) (v : Int) (k : Nat) (c : List Char)
    (indel : Bool) (heap : Nat) (cands : List (List Char)) (st : RepairStats)
    (h : repairDna a s v k (some c) indel heap = .ok (cands, st)) :
    ∀ x ∈ cands, setVt x c.length = .ok c := by
  sorry

example : isWalk gcBalanced2 1 "TCTCTCTCTCTC".toList = true := by decide +kernel
example : repairDna gcBalanced2 "TCTCTATCTCTC".toList 1 2 none true 1000 =
    .ok (["TCTCTCTCTCTC".toList, "TCTCTGTCTCTC".toList], ⟨1, false, 2, 14⟩) := by decide +kernel

end Dsw
