import DswModel.Model.Spiderweb
import DswModel.Lemmas.Defs
import DswModel.Lemmas.Repair
/-!
# C09 — repair leaves clean strands alone and only returns check-consistent candidates

Property theorems only; helper lemmas go to `DswModel/Lemmas/Repair.lean`.
-/
namespace Dsw

/-- a strand that is already a walk is returned alone (or nothing when the supplied check
disagrees) with zero detected errors — for every graph, start vertex, observed length, check,
indel setting and heap limit (both the product path and the fallback path). -/
theorem C09_clean (a : Acc) (s : List Char) (v : Int) (k : Nat) (chk : Option (List Char))
    (indel : Bool) (heap : Nat) (hw : isWalk a v s = true) :
    ∃ b st, vtMatches s chk = .ok b ∧
      repairDna a s v k chk indel heap = .ok (if b then [s] else [], st) ∧ st.detected = 0 := by
  obtain ⟨sc, hsc, hd, hc, hm, hsp, hv, -, -⟩ := scan_clean a k s v hw
  obtain ⟨b, hb⟩ := vtMatches_ok (isWalk_isAcgt a s v hw) chk
  have hf : fragFold a k s indel sc = .ok ([], sc.visited) := by
    simp [fragFold, hc, hm, pure, Except.pure]
  rw [repairDna_of_scan hsc hf]
  by_cases hh : heap = 0
  · refine ⟨b, ⟨0, !b, 0, sc.visited⟩, hb, ?_, rfl⟩
    cases b <;> simp [repairTail, fragCount, hh, hb, Except.bind, pure, Except.pure]
  · refine ⟨b, ⟨0, !b, 1, sc.visited⟩, hb, ?_, rfl⟩
    cases b <;>
      simp [repairTail, fragCount, hh, product, candOf, hsp, hb, hd, bind, Except.bind, Except.map,
        pure, Except.pure, List.mapM_cons, isort, insertSorted, List.eraseDups_cons]

/-- whenever the repair returns, for any input, the candidate list is strictly increasing in
Python string order (sorted and duplicate-free). -/
theorem C09_sorted_nodup (a : Acc) (s : List Char) (v : Int) (k : Nat) (chk : Option (List Char))
    (indel : Bool) (heap : Nat) (cands : List (List Char)) (st : RepairStats)
    (h : repairDna a s v k chk indel heap = .ok (cands, st)) :
    cands.Pairwise strLt := by
  obtain ⟨sc, fv, -, -, ht⟩ := repairDna_ok_inv h
  rcases repairTail_ok_inv ht with ⟨okc, -, e, -⟩ | ⟨checked, -, e, -⟩
  · simp only at e; subst e; cases okc <;> simp
  · simp only at e; subst e; exact isort_eraseDups_pairwise _

/-- whenever the repair returns and a check was supplied, every candidate reproduces it. -/
theorem C09_check (a : Acc) (s : List Char) (v : Int) (k : Nat) (c : List Char)
    (indel : Bool) (heap : Nat) (cands : List (List Char)) (st : RepairStats)
    (h : repairDna a s v k (some c) indel heap = .ok (cands, st)) :
    ∀ x ∈ cands, setVt x c.length = .ok c := by
  obtain ⟨sc, fv, -, -, ht⟩ := repairDna_ok_inv h
  rcases repairTail_ok_inv ht with ⟨okc, hv, e, -⟩ | ⟨checked, hm, e, -⟩
  · simp only at e; subst e
    intro x hx
    cases okc with
    | false => simp at hx
    | true => simp at hx; subst hx; exact vtMatches_some_true hv
  · simp only at e; subst e
    intro x hx
    rw [mem_isort, List.mem_eraseDups, List.mem_map] at hx
    obtain ⟨⟨x', b⟩, hxb, rfl⟩ := hx
    rw [List.mem_filter] at hxb
    obtain ⟨hmem, hb⟩ := hxb
    simp only at hb; subst hb
    obtain ⟨y, -, hy⟩ := mapM_ok_mem _ _ _ hm _ hmem
    cases hv : vtMatches y (some c) with
    | error e => simp [hv, Except.map] at hy
    | ok b =>
      simp [hv, Except.map] at hy
      obtain ⟨rfl, rfl⟩ := hy
      exact vtMatches_some_true hv

example : isWalk gcBalanced2 1 "TCTCTCTCTCTC".toList = true := by decide +kernel
example : repairDna gcBalanced2 "TCTCTATCTCTC".toList 1 2 none true 1000 =
    .ok (["TCTCTCTCTCTC".toList, "TCTCTGTCTCTC".toList], ⟨1, false, 2, 14⟩) := by decide +kernel

end Dsw
