import DswModel.Model.Spiderweb
import DswModel.Lemmas.Defs
import DswModel.Lemmas.Vt
/-!
# C07 — the path check is the documented VT function and sees every substitution

Property theorems only; helper lemmas go to `DswModel/Lemmas/Vt.lean`.
-/
namespace Dsw

/-- nucleotide values of an ACGT strand. -/
def valuesOf (s : List Char) : List Nat := s.map fun c => (nucIdx c).getD 0

/-- the documented position sum: 0-based positions `i` where the nucleotide at `i` is followed by
a larger one (declarative form, independent of the loop in `ascentSum`). -/
def ascentPositions (vals : List Nat) : List Nat :=
  (List.range (vals.length - 1)).filter fun i => vals.getD i 0 < vals.getD (i + 1) 0


/-- length, flag symbol and digit symbols of the check (defined for the empty strand too). -/
theorem C07_shape (s : List Char) (n : Nat) (hn : 1 ≤ n) (hs : IsAcgt s) :
    ∃ c, setVt s n = .ok c ∧ c.length = n ∧ IsAcgt c ∧
      c.head? = some (nucChar ((valuesOf s).sum % 4)) ∧
      kmerIdx c.tail = (ascentPositions (valuesOf s)).sum % 4 ^ (n - 1) := by
  refine ⟨_, setVt_ok_vt n hs, ?_, ?_, ?_, ?_⟩
  · rw [List.length_cons, numberToDnaInt_length _ _ (Nat.mod_lt _ (Nat.pow_pos (by omega)))]
    omega
  · exact isAcgt_cons.2 ⟨nucIdx_nucChar_isSome_vt _, isAcgt_numberToDnaInt _ _⟩
  · rfl
  · rw [List.tail_cons, kmerIdx_numberToDnaInt]
    rfl

/-- a strand with a foreign character has no check: `ValueError`. -/
theorem C07_foreign (s : List Char) (n : Nat) (hs : ¬ IsAcgt s) : setVt s n = .error .valueError := by
  exact setVt_err n hs

/-- any single substitution changes the first symbol of the check. -/
theorem C07_subst (s : List Char) (n p : Nat) (x : Char) (hn : 1 ≤ n) (hs : IsAcgt s)
    (hp : p < s.length) (hx : (nucIdx x).isSome = true) (hne : s[p]? ≠ some x) :
    ∃ c c', setVt s n = .ok c ∧ setVt (s.set p x) n = .ok c' ∧ c.head? ≠ c'.head? := by
  have _ := hn
  exact setVt_head_ne n hs (isAcgt_set hs p hx) (sum_vals_set_mod_ne s p x hs hp hx hne)

/-- any single insertion of C, G or T changes the first symbol of the check. -/
theorem C07_insert (s : List Char) (n p : Nat) (x : Char) (hn : 1 ≤ n) (hs : IsAcgt s)
    (hp : p ≤ s.length) (hx : x = 'C' ∨ x = 'G' ∨ x = 'T') :
    ∃ c c', setVt s n = .ok c ∧ setVt (s.take p ++ [x] ++ s.drop p) n = .ok c' ∧ c.head? ≠ c'.head? := by
  have _ := hn
  have _ := hp
  have hx' : (nucIdx x).isSome = true ∧ 1 ≤ (nucIdx x).getD 0 := by
    rcases hx with h | h | h <;> subst h <;> decide
  refine setVt_head_ne n hs (isAcgt_insert hs p hx'.1) ?_
  rw [sum_vals_insert]
  have := nucIdx_getD_lt_vt x
  omega

/-- any single deletion of C, G or T changes the first symbol of the check. -/
theorem C07_delete (s : List Char) (n p : Nat) (hn : 1 ≤ n) (hs : IsAcgt s) (hp : p < s.length)
    (hx : s[p]? = some 'C' ∨ s[p]? = some 'G' ∨ s[p]? = some 'T') :
    ∃ c c', setVt s n = .ok c ∧ setVt (s.eraseIdx p) n = .ok c' ∧ c.head? ≠ c'.head? := by
  have _ := hn
  have _ := hp
  have hy : ∃ y, s[p]? = some y ∧ 1 ≤ (nucIdx y).getD 0 := by
    rcases hx with h | h | h
    · exact ⟨_, h, by decide⟩
    · exact ⟨_, h, by decide⟩
    · exact ⟨_, h, by decide⟩
  obtain ⟨y, hy, hy1⟩ := hy
  refine setVt_head_ne n hs (isAcgt_eraseIdx hs p) ?_
  rw [sum_vals_eraseIdx s p y hy]
  have := nucIdx_getD_lt_vt y
  omega

/-- consequently decoding any strand whose check differs from the supplied one raises
`ValueError`, whatever the graph, table, mode and requested length. -/
theorem C07_decode_rejects (a : Acc) (tbl : Option Tbl) (v : Int) (s s' : List Char) (L n : Nat)
    (fast : Bool) (c c' : List Char)
    (hc : setVt s n = .ok c) (hc' : setVt s' n = .ok c') (hn : 1 ≤ n) (hne : c.head? ≠ c'.head?) :
    decode a tbl v s' L fast (some c) = .error .valueError := by
  unfold decode
  rw [vtMatches_false (setVt_length hn hc) hc' hne]
  rfl

example : setVt "TCTCTCT".toList 5 = .ok "TAAGC".toList := by decide +kernel
example : setVt [] 3 = .ok "AAA".toList := by decide +kernel

end Dsw
