import DswModel.Model.Spiderweb
import DswModel.Lemmas.CoderDefs
import DswModel.Lemmas.Digit
import DswModel.Props.C15
import DswModel.Props.C16
import DswModel.Props.C18
import DswModel.Lemmas.CoderNormal
import DswModel.Lemmas.CoderFast
/-!
# C01 — encode then decode returns the original message

Property theorems only. Helper lemmas: `DswModel/Lemmas/CoderNormal.lean`, `…/CoderFast.lean`.

The round trip needs NO hypothesis on the graph, the start vertex or the table: whenever `encode`
returns a strand (whatever fuel it was given), `decode` returns the message. Well-formedness of the
graph is only needed for `encode` to return at all — that is `C01_total` (and C04).
-/
namespace Dsw

/-- arbitrary-precision mode, any mixture of out-degrees, any table, with or without check. -/
theorem C01_normal (a : Acc) (tbl : Option Tbl) (v : Int) (bits : List Nat) (vtLen fuel : Nat)
    (s : List Char) (c : Option (List Char)) (hb : IsBits bits)
    (h : encode a tbl v bits false vtLen fuel = .ok (s, c)) :
    decode a tbl v s bits.length false c = .ok bits := by
  obtain ⟨he, hc⟩ := cn_encode_normal_ok hb h
  obtain ⟨hw, hv, _⟩ := cn_encodeNat_spec a tbl _ _ _ _ he
  rw [cn_decode_normal_ok a tbl v s _ c hw hc, hv, (C16_bits_roundtrip bits hb).2]

/-- fast mode (an `.ok` result of `encode` already implies that no out-degree-3 vertex was met),
including odd message lengths. -/
theorem C01_fast (a : Acc) (tbl : Option Tbl) (v : Int) (bits : List Nat) (vtLen fuel : Nat)
    (s : List Char) (c : Option (List Char)) (hb : IsBits bits)
    (h : encode a tbl v bits true vtLen fuel = .ok (s, c)) :
    decode a tbl v s bits.length true c = .ok bits := by
  exact cf_C01_fast a tbl v bits vtLen fuel s c hb h

/-- on a graph in which every vertex reachable from the start has an arc and can reach a branching
vertex, `encode` returns (normal mode: any out-degrees; the fuel `L·|V| + 1` suffices). -/
theorem C01_total_normal (a : Acc) (tbl : Option Tbl) (v : Int) (bits : List Nat) (vtLen : Nat)
    (hb : IsBits bits) (hg : a.GoodFrom v) :
    ∃ s c, encode a tbl v bits false vtLen (encodeFuel a bits) = .ok (s, c) := by
  exact cn_encode_total_normal a tbl v bits vtLen hb hg

/-- same in fast mode on graphs without out-degree 3. -/
theorem C01_total_fast (a : Acc) (tbl : Option Tbl) (v : Int) (bits : List Nat) (vtLen : Nat)
    (hb : IsBits bits) (hg : a.GoodFrom v) (h3 : a.NoDeg3From v) :
    ∃ s c, encode a tbl v bits true vtLen (encodeFuel a bits) = .ok (s, c) := by
  exact cf_C01_total_fast a tbl v bits vtLen hb hg h3

/-- the empty and the all-zero message are encoded as the empty strand in normal mode and decoded
back. -/
theorem C01_zero (a : Acc) (tbl : Option Tbl) (v : Int) (n : Nat) :
    encode a tbl v (List.replicate n 0) false 0 1 = .ok ([], none) ∧
    decode a tbl v [] n false none = .ok (List.replicate n 0) := by
  have hb : IsBits (List.replicate n 0) := by
    intro b hb; rw [List.eq_of_mem_replicate hb]; omega
  have hz : bitToNumberInt (List.replicate n 0) = 0 := by
    unfold bitToNumberInt
    induction n with
    | zero => rfl
    | succ n ih =>
      rw [List.replicate_succ, List.foldl_cons]
      exact ih (by intro b hb; rw [List.eq_of_mem_replicate hb]; omega)
  constructor
  · rw [cn_encode_normal_eq a tbl v _ 0 1 hb, hz]
    rfl
  · rw [cn_decode_normal_ok a tbl v [] n none rfl rfl]
    show Except.ok (numberToBitInt 0 n) = _
    unfold numberToBitInt
    rw [digitsNat_zero_cv, fitBits_of_le _ _ (Nat.zero_le _)]
    simp

example : a = gcBalanced2 → decode gcBalanced2 none 1 "TCTCTCT".toList 8 false (some "TAAGC".toList)
    = .ok [0, 1, 0, 1, 0, 1, 0, 1] := by
  intro _; decide +kernel

end Dsw
