import DswModel.Model.Spiderweb
import DswModel.Model.Biofilter
import DswModel.Model.Capacity
/-!
# C20 — library calls are stateless and never modify their arguments  (translation validation)

The Lean model IS the stateless specification: every public call of `dsw` is a pure function of
its arguments, there is no hidden state to thread and `verbose` is not an argument of any model
function. The theorems below make that refinement claim explicit; they carry no difficulty.
What DECIDES the property for the implementation is the history correspondence of the harness
(random interleavings on shared argument objects, bit-for-bit argument snapshots, verbose on/off,
every in-history result compared with the isolated call and with the model) — object mutation and
module state are CPython facts no Lean model exhibits.
-/
namespace Dsw

/-- the public calls a history may contain (arguments are immutable values). -/
inductive Op where
  | encode (a : Acc) (tbl : Option Tbl) (v : Int) (bits : List Nat) (fast : Bool) (vtLen : Nat)
  | decode (a : Acc) (tbl : Option Tbl) (v : Int) (s : List Char) (L : Nat) (fast : Bool) (chk : Option (List Char))
  | setVt (s : List Char) (n : Nat)
  | repair (a : Acc) (s : List Char) (v : Int) (k : Nat) (chk : Option (List Char)) (indel : Bool) (heap : Nat)
  | toLatterMap (a : Acc)
  | toAccessor (m : LMap) (k : Nat) (t : Option Nat)
  | toMatrix (a : Acc)
  | vertices (a : Acc)
  | leaves (a : Acc) (v d : Nat)
  | scores (m : LMap) (k : Nat) (ins del : Bool)
  | validGraph (k : Nat) (m : Mask)
  | codingGraph (k : Nat) (m : Mask) (t : Nat)
  | removeUseless (m : LMap) (t : Nat)
  | bitsToNumber (bits : List Nat)
  | filterValid (c : FilterCfg) (s : List Char) (onlyLast : Bool)

/-- canonical rendering of a result (what the harness compares). -/
inductive Out where
  | strand (r : R (List Char × Option (List Char)))
  | bits (r : R (List Nat))
  | dna (r : R (List Char))
  | repaired (r : R (List (List Char) × RepairStats))
  | lmap (m : LMap)
  | acc (r : R Acc)
  | matrix (r : R Matrix)
  | nats (l : List Nat)
  | table (t : Array (Array Nat))
  | graph (r : R (List Nat × Acc))
  | rlmap (r : R LMap)
  | dec (d : Dec)
  | bool (b : Bool)

/-- the stateless specification: one call, no state in, no state out. -/
def evalOp : Op → Out
  | .encode a tbl v bits fast vtLen => .strand (encode a tbl v bits fast vtLen (encodeFuel a bits))
  | .decode a tbl v s L fast chk => .bits (decode a tbl v s L fast chk)
  | .setVt s n => .dna (setVt s n)
  | .repair a s v k chk indel heap => .repaired (repairDna a s v k chk indel heap)
  | .toLatterMap a => .lmap (accessorToLatterMap a)
  | .toAccessor m k t => .acc (latterMapToAccessor m k t)
  | .toMatrix a => .matrix (accessorToAdjacencyMatrix a)
  | .vertices a => .nats (obtainVertices a)
  | .leaves a v d => .nats (leafAcc a d [v])
  | .scores m k ins del => .table (calculateIntersectionScore m k ins del)
  | .validGraph k m => .acc (connectValidGraph k (some m))
  | .codingGraph k m t => .graph (connectCodingGraph k m t)
  | .removeUseless m t => .rlmap (removeUseless m t)
  | .bitsToNumber bits => .dec (bitToNumberStr bits)
  | .filterValid c s onlyLast => .bool (c.valid s onlyLast)

/-- a history is evaluated call by call. -/
def runHistory (ops : List Op) : List Out := ops.map evalOp

/-- every call in any history returns what the same call returns in isolation, whatever precedes
and follows it. -/
theorem C20_stateless (xs ys : List Op) (op : Op) :
    (runHistory (xs ++ [op] ++ ys))[xs.length]? = some (evalOp op) := by
  simp [runHistory]

/-- the result of a history does not depend on how it is split into sessions. -/
theorem C20_compositional (xs ys : List Op) : runHistory (xs ++ ys) = runHistory xs ++ runHistory ys := by
  simp [runHistory]

/-- repeating a call gives the same answer. -/
theorem C20_idempotent_observation (op : Op) (n : Nat) :
    runHistory (List.replicate n op) = List.replicate n (evalOp op) := by
  simp [runHistory]

example : (runHistory [.setVt "TCTCTCT".toList 5, .vertices #[#[0,-1,-1,-1]], .setVt "TCTCTCT".toList 5]).length = 3 := by
  simp [runHistory]

end Dsw
