import DswModel.Model.Biofilter
import DswModel.Lemmas.Thresholds
/-!
# C12 (continued) — the integer thresholds of the GC rule versus exact fractions

The model of `LocalBioFilter` carries integer thresholds (`gcLo`, `gcHi`, `atHi`) because, for an
integer count, a comparison with a real bound is a comparison with its floor or ceiling. These
theorems state that reduction for EXACT (rational) fractions `lo`, `hi`, and show that with exact
arithmetic the three thresholds are always mutually consistent — so the inconsistency repaired by
D8 (`(1 - 0.8) * 5 = 0.9999999999999998`) is purely a floating-point artefact, and the harness only
has to check `k − gcLo ≤ atHi` for the thresholds the code's float expressions produce.
Helper lemmas go to `DswModel/Lemmas/Thresholds.lean` (may import single Mathlib modules such as
`Mathlib.Algebra.Order.Floor.Defs` / `Mathlib.Algebra.Order.Floor.Ring`, `Mathlib.Data.Rat.Floor`).
-/
namespace Dsw

/-- thresholds for exact fractions `lo`, `hi` and window `k`. -/
def exactGcRule (lo hi : Rat) (k : Nat) : GcRule :=
  { gcLo := (lo * k).ceil, gcHi := (hi * k).floor, atHi := ((k : Rat) - lo * k).floor }

/-- `gc > hi·k ↔ gc > ⌊hi·k⌋`, `gc < lo·k ↔ gc < ⌈lo·k⌉`, `at > k − lo·k ↔ at > ⌊k − lo·k⌋` for
integer counts. -/
theorem C12_thresholds (lo hi : Rat) (k : Nat) (g : Nat) :
    (((g : Rat) > hi * k) ↔ ((g : Int) > (exactGcRule lo hi k).gcHi)) ∧
    (((g : Rat) < lo * k) ↔ ((g : Int) < (exactGcRule lo hi k).gcLo)) ∧
    (((g : Rat) > (k : Rat) - lo * k) ↔ ((g : Int) > (exactGcRule lo hi k).atHi)) := by
  exact ⟨Thresholds.natCast_gt_iff g _, Thresholds.natCast_lt_iff g _,
    Thresholds.natCast_gt_iff g _⟩

/-- with exact arithmetic the short-string A+T bound always agrees with the window GC lower
bound: `⌊k − lo·k⌋ = k − ⌈lo·k⌉`. -/
theorem C12_exact_consistent (lo hi : Rat) (k : Nat) :
    (exactGcRule lo hi k).atHi = (k : Int) - (exactGcRule lo hi k).gcLo := by
  exact Thresholds.floor_natCast_sub k _

example : exactGcRule (4 / 5) 1 5 = ⟨4, 5, 1⟩ := by
  have h1 : ((4 / 5 : Rat) * (5 : Nat)) = ((4 : Int) : Rat) := by norm_num
  have h2 : ((1 : Rat) * (5 : Nat)) = ((5 : Int) : Rat) := by norm_num
  have h3 : (((5 : Nat) : Rat) - ((4 : Int) : Rat)) = ((1 : Int) : Rat) := by norm_num
  simp only [exactGcRule, h1, h2, h3, Rat.ceil_intCast, Rat.floor_intCast]

end Dsw
