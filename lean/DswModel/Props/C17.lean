import DswModel.Model.Capacity
import DswModel.Lemmas.Defs
import DswModel.Lemmas.DeBruijn
import DswModel.Lemmas.Power
/-!
# C17 — reported capacity is the log2 spectral radius of the graph  (partial)

Property theorems only; helper lemmas go to `DswModel/Lemmas/Power.lean`.

The model runs the power iteration of `approximate_capacity` over exact rationals and returns
eigenvalue estimates (the code reports `log2` of them, `1` standing for the code's `0.0`).
Proved here: the structural claims of the property (never more than 2 bits, 0 for an arc-less
graph, exactly `log2 d` on `d`-regular graphs in the single-start mode) and the soundness of the
Collatz–Wielandt certificate the harness uses as its oracle. NOT proved (tested, and labelled as a
test in the evidence): that the floating-point iteration lands within 1e-4 of `log2 ρ` under the
spectral-gap precondition — that needs Perron–Frobenius convergence rates and an IEEE-754 error
analysis.
-/
namespace Dsw

/-- all entries in `[0, 1]` (the all-ones start vector, `numpy.random.random`, and every
normalised eigenvector). -/
def VecIn01 (x : Vec) : Prop := ∀ i, 0 ≤ x.getD i 0 ∧ x.getD i 0 ≤ 1

/-- one iteration: the eigenvalue estimate lies in `[0, 4]` (at most four entries of `[0,1]` are
summed) and the normalised vector is again in `[0,1]`. -/
theorem C17_step_bounds (a : Acc) (x : Vec) (hx : VecIn01 x) :
    0 ≤ (capStep a x).2 ∧ (capStep a x).2 ≤ 4 ∧ VecIn01 (capStep a x).1 := by
  exact ⟨(Power.capEv_bounds a x hx).1, (Power.capEv_bounds a x hx).2, Power.capStep_in01 a x hx⟩

/-- for every graph, tolerance in `(0,1)`, iteration limit and start vectors in `[0,1]`: every
value whose `log2`-median the code returns, and every recorded estimate, lies in `(0, 4]` — so the
reported capacity never exceeds 2 bits per nucleotide. -/
theorem C17_le_four (a : Acc) (tol : Rat) (maxIter : Nat) (starts : List Vec) (res : List Rat)
    (recs : List (List Rat)) (htol : 0 < tol ∧ tol < 1) (hs : ∀ x ∈ starts, VecIn01 x)
    (h : approximateCapacity a tol maxIter starts = some (res, recs)) :
    (∀ r ∈ res, 0 < r ∧ r ≤ 4) ∧ ∀ rec ∈ recs, ∀ r ∈ rec, 0 < r ∧ r ≤ 4 := by
  exact Power.approx_bounds a tol maxIter starts res recs htol.1 hs h

/-- an arc-less graph has capacity `log2 1 = 0`. -/
theorem C17_arcless (a : Acc) (tol : Rat) (maxIter : Nat) (starts : List Vec)
    (h : a.all (fun r => r.all (· == -1)) = true) :
    approximateCapacity a tol maxIter starts = some ([1], starts.map fun _ => [1]) := by
  unfold approximateCapacity
  rw [if_pos h]

/-- number of live successors of `v` that are themselves live (have an arc). -/
def liveSucc (a : Acc) (v : Nat) : Nat :=
  ((a.liveEntries (v : Int)).filter fun (w : Nat) => decide (a.live (w : Int) ≠ [])).length

/-- the deterministic single-start mode (all-ones start) returns exactly `d` (capacity `log2 d`)
after two iterations when every live vertex has exactly `d` live successors. -/
theorem C17_regular (k d : Nat) (a : Acc) (tol : Rat) (maxIter : Nat) (hw : WFdB k a) (hd : 1 ≤ d)
    (htol : 0 < tol ∧ tol < 1) (hmax : 1 ≤ maxIter)
    (hlive : ∃ v : Nat, v < 4 ^ k ∧ a.live (v : Int) ≠ [])
    (hreg : ∀ v : Nat, v < 4 ^ k → a.live (v : Int) ≠ [] → liveSucc a v = d) :
    approximateCapacity a tol maxIter [Array.replicate a.size 1] = some ([(d : Rat)], [[(d : Rat), (d : Rat)]]) := by
  unfold approximateCapacity
  rw [if_neg (Power.not_arcless hw hlive)]
  simp only [List.foldl_cons, List.foldl_nil]
  rw [Power.capLoop_regular tol maxIter hw hd htol hmax hlive hreg _ (Power.zeroDead_ones_ind hw)]
  rfl

/-- sum of `x` over the end points of all `n`-step walks from `v`. -/
def weightedWalks (a : Acc) (x : Nat → Nat) : Nat → Nat → Nat
  | 0, v => x v
  | n + 1, v => ((a.liveEntries (v : Int)).map fun w => weightedWalks a x n w).sum

/-- Collatz–Wielandt certificate, combinatorial form (upper bound): if on a successor-closed
vertex set `S` the positive integer vector `x` satisfies `q · (A x)_v ≤ p · x_v`, then the
`x`-weighted number of `n`-step walks from any `v ∈ S` is at most `(p/q)^n · x_v`. -/
theorem C17_certificate_upper (a : Acc) (S : Nat → Prop) (x : Nat → Nat) (p q : Nat)
    (hclosed : ∀ v, S v → ∀ w ∈ a.liveEntries (v : Int), S w)
    (hineq : ∀ v, S v → q * ((a.liveEntries (v : Int)).map x).sum ≤ p * x v) :
    ∀ n v, S v → q ^ n * weightedWalks a x n v ≤ p ^ n * x v := by
  intro n
  induction n with
  | zero => intro v _; simp [weightedWalks]
  | succ n ih =>
    intro v hv
    rw [weightedWalks]
    have h1 := Power.sum_map_mul_le (a.liveEntries (v : Int)) (fun w => weightedWalks a x n w) x
      (q ^ n) (p ^ n) (fun w hw => ih w (hclosed v hv w hw))
    calc q ^ (n + 1) * ((a.liveEntries (v : Int)).map fun w => weightedWalks a x n w).sum
        = q * (q ^ n * ((a.liveEntries (v : Int)).map fun w => weightedWalks a x n w).sum) := by
          rw [Nat.pow_succ, Nat.mul_comm (q ^ n) q, Nat.mul_assoc]
      _ ≤ q * (p ^ n * ((a.liveEntries (v : Int)).map x).sum) := Nat.mul_le_mul_left _ h1
      _ = p ^ n * (q * ((a.liveEntries (v : Int)).map x).sum) := Nat.mul_left_comm _ _ _
      _ ≤ p ^ n * (p * x v) := Nat.mul_le_mul_left _ (hineq v hv)
      _ = p ^ (n + 1) * x v := by rw [Nat.pow_succ, Nat.mul_assoc]

/-- lower bound, same form. -/
theorem C17_certificate_lower (a : Acc) (S : Nat → Prop) (x : Nat → Nat) (p q : Nat)
    (hclosed : ∀ v, S v → ∀ w ∈ a.liveEntries (v : Int), S w)
    (hineq : ∀ v, S v → p * x v ≤ q * ((a.liveEntries (v : Int)).map x).sum) :
    ∀ n v, S v → p ^ n * x v ≤ q ^ n * weightedWalks a x n v := by
  intro n
  induction n with
  | zero => intro v _; simp [weightedWalks]
  | succ n ih =>
    intro v hv
    rw [weightedWalks]
    have h1 := Power.sum_map_mul_le (a.liveEntries (v : Int)) x (fun w => weightedWalks a x n w)
      (p ^ n) (q ^ n) (fun w hw => ih w (hclosed v hv w hw))
    calc p ^ (n + 1) * x v = p ^ n * (p * x v) := by rw [Nat.pow_succ, Nat.mul_assoc]
      _ ≤ p ^ n * (q * ((a.liveEntries (v : Int)).map x).sum) := Nat.mul_le_mul_left _ (hineq v hv)
      _ = q * (p ^ n * ((a.liveEntries (v : Int)).map x).sum) := Nat.mul_left_comm _ _ _
      _ ≤ q * (q ^ n * ((a.liveEntries (v : Int)).map fun w => weightedWalks a x n w).sum) :=
          Nat.mul_le_mul_left _ h1
      _ = q ^ (n + 1) * ((a.liveEntries (v : Int)).map fun w => weightedWalks a x n w).sum := by
          rw [Nat.pow_succ, Nat.mul_comm (q ^ n) q, Nat.mul_assoc]

example : approximateCapacity gcBalanced2 (1 / 10 ^ 10) 500 [Array.replicate 16 1] = some ([2], [[2, 2]]) := by
  decide +kernel

end Dsw
