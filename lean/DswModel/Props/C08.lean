import DswModel.Model.Spiderweb
import DswModel.Lemmas.Defs
import DswModel.Lemmas.DeBruijn
import DswModel.Lemmas.Vt
import DswModel.Lemmas.Repair
import DswModel.Lemmas.RepairEdit
/-!
# C08 — repair recovers the original strand for separated interior edits

Property theorems only; helper lemmas go to `DswModel/Lemmas/RepairEdit.lean`
(the scan / path-matching library of C09 and C10 is `DswModel/Lemmas/Repair.lean`).

Setting: a graph produced by graph generation is vertex-induced on its vertex set
(`a = inducedAccessor k s`, see C03); `v` is a retained vertex, `w` a walk from `v`.
-/
namespace Dsw

/-- a single edit at a 0-based position of the original strand. -/
inductive Edit where
  | subst (p : Nat) (x : Char)
  | ins (p : Nat) (x : Char)      -- insert `x` before position `p`
  | del (p : Nat)
deriving DecidableEq, Repr

def Edit.pos : Edit → Nat
  | .subst p _ => p | .ins p _ => p | .del p => p

def Edit.apply : Edit → List Char → List Char
  | .subst p x, w => w.set p x
  | .ins p x, w => w.take p ++ [x] ++ w.drop p
  | .del p, w => w.eraseIdx p

/-- the edit uses a nucleotide, and a substitution really changes the symbol. -/
def Edit.Proper (e : Edit) (w : List Char) : Prop :=
  match e with
  | .subst p x => (nucIdx x).isSome = true ∧ w[p]? ≠ some x
  | .ins _ x => (nucIdx x).isSome = true
  | .del _ => True

/-- the edit position lies in `[k, n − 2k)`. -/
def Edit.Interior (e : Edit) (k n : Nat) : Prop := k ≤ e.pos ∧ e.pos + 2 * k < n

/-- the check supplied to the repair is either absent or the check of the original strand. -/
def CheckOf (w : List Char) (chk : Option (List Char)) : Prop :=
  chk = none ∨ ∃ m c, 1 ≤ m ∧ setVt w m = .ok c ∧ chk = some c

/-- one interior edit, indel handling on, a heap limit of at least `9k`:
if the corrupted strand is no longer a walk, exactly one error is detected and the original strand
is among the candidates (also when the check of the original is supplied). Together with
`C09_clean` (a corrupted strand that is still a walk gives zero detections) this is "detected
exactly when the corrupted strand is no longer a walk". -/
theorem C08_single (k : Nat) (s : Mask) (v : Nat) (w : List Char) (e : Edit) (chk : Option (List Char))
    (heap : Nat) (hk : 1 ≤ k) (hs : s.size = 4 ^ k) (hv : s.getD v false = true)
    (hw : isWalk (inducedAccessor k s) v w = true) (he : e.Interior k w.length) (hp : e.Proper w)
    (hc : CheckOf w chk) (hheap : 9 * k ≤ heap)
    (hbad : isWalk (inducedAccessor k s) v (e.apply w) = false) :
    ∃ cands st, repairDna (inducedAccessor k s) (e.apply w) v k chk true heap = .ok (cands, st) ∧
      st.detected = 1 ∧ w ∈ cands := by
  sorry

/-- with substitutions only the same holds with indel handling off. -/
theorem C08_single_subst (k : Nat) (s : Mask) (v : Nat) (w : List Char) (p : Nat) (x : Char)
    (chk : Option (List Char)) (heap : Nat) (hk : 1 ≤ k) (hs : s.size = 4 ^ k) (hv : s.getD v false = true)
    (hw : isWalk (inducedAccessor k s) v w = true) (he : (Edit.subst p x).Interior k w.length)
    (hp : (Edit.subst p x).Proper w) (hc : CheckOf w chk) (hheap : 9 * k ≤ heap)
    (hbad : isWalk (inducedAccessor k s) v ((Edit.subst p x).apply w) = false) :
    ∃ cands st, repairDna (inducedAccessor k s) ((Edit.subst p x).apply w) v k chk false heap = .ok (cands, st) ∧
      st.detected = 1 ∧ w ∈ cands := by
  sorry

/-- positions increasing with gaps of at least `3k + 2`. -/
def Spaced (k : Nat) : List Edit → Prop
  | [] => True
  | [_] => True
  | e :: e' :: r => e.pos + 3 * k + 2 ≤ e'.pos ∧ Spaced k (e' :: r)

/-- apply a list of edits given in increasing position order (positions refer to the original
strand, so the rightmost edit is applied first). -/
def applyEdits (es : List Edit) (w : List Char) : List Char := es.foldr (fun e acc => e.apply acc) w

/-- the multi-edit case (full statement). -/
def C08_multi_statement : Prop :=
  ∀ (k : Nat) (s : Mask) (v : Nat) (w : List Char) (es : List Edit) (chk : Option (List Char)) (heap : Nat),
    1 ≤ k → s.size = 4 ^ k → s.getD v false = true → isWalk (inducedAccessor k s) v w = true →
    (∀ e ∈ es, e.Interior k w.length ∧ e.Proper w) → Spaced k es → CheckOf w chk →
    (9 * k) ^ es.length ≤ heap →
    ∀ cands st, repairDna (inducedAccessor k s) (applyEdits es w) v k chk true heap = .ok (cands, st) →
      st.detected = es.length → w ∈ cands

/-! non-vacuity: the doctest's substitution on the GC-balanced order-2 graph -/
example : (Edit.subst 5 'A').apply "TCTCTCTCTCTC".toList = "TCTCTATCTCTC".toList ∧
    (Edit.subst 5 'A').Interior 2 12 := by
  refine ⟨by decide, by simp [Edit.Interior, Edit.pos]⟩

end Dsw
