import DswModel.Model.Spiderweb
import DswModel.Lemmas.Defs
import DswModel.Lemmas.DeBruijn
import DswModel.Lemmas.Vt
import DswModel.Lemmas.Repair
import DswModel.Lemmas.RepairEdit
/-!
# C08 — repair recovers the original strand for separated interior edits

Property theorems only; helper lemmas go to `DswModel/Lemmas/RepairEdit.lean`
(the scan / path-matching library of C09 and C10 is `DswModel/Lemmas/Repair.lean`).

Setting: a graph produced by graph generation is vertex-induced on its vertex set
(`a = inducedAccessor k s`, see C03); `v` is a retained vertex, `w` a walk from `v`.
-/
namespace Dsw

/-- a single edit at a 0-based position of the original strand. -/
inductive Edit where
  | subst (p : Nat) (x : Char)
  | ins (p : Nat) (x : Char)      -- insert `x` before position `p`
  | del (p : Nat)
deriving DecidableEq, Repr

def Edit.pos : Edit → Nat
  | .subst p _ => p | .ins p _ => p | .del p => p

def Edit.apply : Edit → List Char → List Char
  | .subst p x, w => w.set p x
  | .ins p x, w => w.take p ++ [x] ++ w.drop p
  | .del p, w => w.eraseIdx p

/-- the edit uses a nucleotide, and a substitution really changes the symbol. -/
def Edit.Proper (e : Edit) (w : List Char) : Prop :=
  match e with
  | .subst p x => (nucIdx x).isSome = true ∧ w[p]? ≠ some x
  | .ins _ x => (nucIdx x).isSome = true
  | .del _ => True

/-- the edit position lies in `[k, n − 2k)`. -/
def Edit.Interior (e : Edit) (k n : Nat) : Prop := k ≤ e.pos ∧ e.pos + 2 * k < n

/-- the check supplied to the repair is either absent or the check of the original strand. -/
def CheckOf (w : List Char) (chk : Option (List Char)) : Prop :=
  chk = none ∨ ∃ m c, 1 ≤ m ∧ setVt w m = .ok c ∧ chk = some c

/-- the substitution case of `C08_single`, with or without indel handling. -/
theorem C08_single_subst_only (k : Nat) (s : Mask) (v : Nat) (w : List Char) (p : Nat) (x : Char)
    (chk : Option (List Char)) (heap : Nat) (indel : Bool) (hk : 1 ≤ k) (hs : s.size = 4 ^ k)
    (hv : s.getD v false = true)
    (hw : isWalk (inducedAccessor k s) v w = true) (he : (Edit.subst p x).Interior k w.length)
    (hp : (Edit.subst p x).Proper w) (hc : CheckOf w chk) (hheap : 9 * k ≤ heap)
    (hbad : isWalk (inducedAccessor k s) v ((Edit.subst p x).apply w) = false) :
    ∃ cands st, repairDna (inducedAccessor k s) ((Edit.subst p x).apply w) v k chk indel heap = .ok (cands, st) ∧
      st.detected = 1 ∧ w ∈ cands := by
  have hchk := RepairEdit.vtMatches_of_check w chk hc
  obtain ⟨hke, hen⟩ := he
  simp only [Edit.pos] at hke hen
  obtain ⟨hx, hne⟩ := hp
  have hpn : p < w.length := by omega
  have ew : w.take p ++ [w[p]] ++ w.drop (p + 1) = w := by simp
  have ec : (Edit.subst p x).apply w = w.take p ++ x :: w.drop (p + 1) := by
    simp [Edit.apply, List.set_eq_take_append_cons_drop, hpn]
  rw [ec] at hbad ⊢
  have hxy : w[p] ≠ x := by
    intro h; apply hne; rw [List.getElem?_eq_getElem hpn, h]
  have := RepairEdit.single_core k s v (w.take p) [w[p]] (w.drop (p + 1)) x chk heap indel hk hs hv
    (by rw [ew]; exact hw) (Or.inl ⟨w[p], rfl, hxy⟩) hx (by simp; omega) (by simp; omega)
    (by rw [ew]; exact hchk) hheap hbad
  rw [ew] at this; exact this

/-- the insertion case of `C08_single`. -/
theorem C08_single_ins (k : Nat) (s : Mask) (v : Nat) (w : List Char) (p : Nat) (x : Char)
    (chk : Option (List Char)) (heap : Nat) (hk : 1 ≤ k) (hs : s.size = 4 ^ k)
    (hv : s.getD v false = true)
    (hw : isWalk (inducedAccessor k s) v w = true) (he : (Edit.ins p x).Interior k w.length)
    (hp : (Edit.ins p x).Proper w) (hc : CheckOf w chk) (hheap : 9 * k ≤ heap)
    (hbad : isWalk (inducedAccessor k s) v ((Edit.ins p x).apply w) = false) :
    ∃ cands st, repairDna (inducedAccessor k s) ((Edit.ins p x).apply w) v k chk true heap = .ok (cands, st) ∧
      st.detected = 1 ∧ w ∈ cands := by
  have hchk := RepairEdit.vtMatches_of_check w chk hc
  obtain ⟨hke, hen⟩ := he
  simp only [Edit.pos] at hke hen
  have ew : w.take p ++ [] ++ w.drop p = w := by simp
  have ec : (Edit.ins p x).apply w = w.take p ++ x :: w.drop p := by simp [Edit.apply]
  rw [ec] at hbad ⊢
  have := RepairEdit.single_core k s v (w.take p) [] (w.drop p) x chk heap true hk hs hv
    (by rw [ew]; exact hw) (Or.inr (Or.inl ⟨rfl, rfl⟩)) hp (by simp; omega) (by simp; omega)
    (by rw [ew]; exact hchk) hheap hbad
  rw [ew] at this; exact this

/-- the deletion case of `C08_single`. -/
theorem C08_single_del (k : Nat) (s : Mask) (v : Nat) (w : List Char) (p : Nat)
    (chk : Option (List Char)) (heap : Nat) (hk : 1 ≤ k) (hs : s.size = 4 ^ k)
    (hv : s.getD v false = true)
    (hw : isWalk (inducedAccessor k s) v w = true) (he : (Edit.del p).Interior k w.length)
    (hc : CheckOf w chk) (hheap : 9 * k ≤ heap)
    (hbad : isWalk (inducedAccessor k s) v ((Edit.del p).apply w) = false) :
    ∃ cands st, repairDna (inducedAccessor k s) ((Edit.del p).apply w) v k chk true heap = .ok (cands, st) ∧
      st.detected = 1 ∧ w ∈ cands := by
  have hchk := RepairEdit.vtMatches_of_check w chk hc
  obtain ⟨hke, hen⟩ := he
  simp only [Edit.pos] at hke hen
  have hpn : p + 1 < w.length := by omega
  have ed : w.drop (p + 1) = w[p + 1] :: w.drop (p + 2) := List.drop_eq_getElem_cons hpn
  have ew : w.take p ++ [w[p], w[p + 1]] ++ w.drop (p + 2) = w := by
    have e1 : w.drop p = w[p] :: w.drop (p + 1) := List.drop_eq_getElem_cons (by omega)
    rw [List.append_assoc]
    simp only [List.cons_append, List.nil_append]
    rw [← ed, ← e1, List.take_append_drop]
  have ec : (Edit.del p).apply w = w.take p ++ w[p + 1] :: w.drop (p + 2) := by
    simp only [Edit.apply]
    rw [List.eraseIdx_eq_take_drop_succ, ed]
  rw [ec] at hbad ⊢
  have hy : (nucIdx w[p + 1]).isSome = true := isWalk_isAcgt _ w _ hw _ (List.getElem_mem _)
  have := RepairEdit.single_core k s v (w.take p) [w[p], w[p + 1]] (w.drop (p + 2)) w[p + 1] chk heap
    true hk hs hv (by rw [ew]; exact hw) (Or.inr (Or.inr ⟨rfl, w[p], rfl⟩)) hy (by simp; omega)
    (by simp; omega) (by rw [ew]; exact hchk) hheap hbad
  rw [ew] at this; exact this

/-- one interior edit, indel handling on, a heap limit of at least `9k`:
if the corrupted strand is no longer a walk, exactly one error is detected and the original strand
is among the candidates (also when the check of the original is supplied). Together with
`C09_clean` (a corrupted strand that is still a walk gives zero detections) this is "detected
exactly when the corrupted strand is no longer a walk". -/
theorem C08_single (k : Nat) (s : Mask) (v : Nat) (w : List Char) (e : Edit) (chk : Option (List Char))
    (heap : Nat) (hk : 1 ≤ k) (hs : s.size = 4 ^ k) (hv : s.getD v false = true)
    (hw : isWalk (inducedAccessor k s) v w = true) (he : e.Interior k w.length) (hp : e.Proper w)
    (hc : CheckOf w chk) (hheap : 9 * k ≤ heap)
    (hbad : isWalk (inducedAccessor k s) v (e.apply w) = false) :
    ∃ cands st, repairDna (inducedAccessor k s) (e.apply w) v k chk true heap = .ok (cands, st) ∧
      st.detected = 1 ∧ w ∈ cands := by
  cases e with
  | subst p x => exact C08_single_subst_only k s v w p x chk heap true hk hs hv hw he hp hc hheap hbad
  | ins p x => exact C08_single_ins k s v w p x chk heap hk hs hv hw he hp hc hheap hbad
  | del p => exact C08_single_del k s v w p chk heap hk hs hv hw he hc hheap hbad

/-- with substitutions only the same holds with indel handling off. -/
theorem C08_single_subst (k : Nat) (s : Mask) (v : Nat) (w : List Char) (p : Nat) (x : Char)
    (chk : Option (List Char)) (heap : Nat) (hk : 1 ≤ k) (hs : s.size = 4 ^ k) (hv : s.getD v false = true)
    (hw : isWalk (inducedAccessor k s) v w = true) (he : (Edit.subst p x).Interior k w.length)
    (hp : (Edit.subst p x).Proper w) (hc : CheckOf w chk) (hheap : 9 * k ≤ heap)
    (hbad : isWalk (inducedAccessor k s) v ((Edit.subst p x).apply w) = false) :
    ∃ cands st, repairDna (inducedAccessor k s) ((Edit.subst p x).apply w) v k chk false heap = .ok (cands, st) ∧
      st.detected = 1 ∧ w ∈ cands :=
  C08_single_subst_only k s v w p x chk heap false hk hs hv hw he hp hc hheap hbad

/-- positions increasing with gaps of at least `3k + 2`. -/
def Spaced (k : Nat) : List Edit → Prop
  | [] => True
  | [_] => True
  | e :: e' :: r => e.pos + 3 * k + 2 ≤ e'.pos ∧ Spaced k (e' :: r)

/-- apply a list of edits given in increasing position order (positions refer to the original
strand, so the rightmost edit is applied first). -/
def applyEdits (es : List Edit) (w : List Char) : List Char := es.foldr (fun e acc => e.apply acc) w

/-- the multi-edit case (full statement). -/
def C08_multi_statement : Prop :=
  ∀ (k : Nat) (s : Mask) (v : Nat) (w : List Char) (es : List Edit) (chk : Option (List Char)) (heap : Nat),
    1 ≤ k → s.size = 4 ^ k → s.getD v false = true → isWalk (inducedAccessor k s) v w = true →
    (∀ e ∈ es, e.Interior k w.length ∧ e.Proper w) → Spaced k es → CheckOf w chk →
    (9 * k) ^ es.length ≤ heap →
    ∀ cands st, repairDna (inducedAccessor k s) (applyEdits es w) v k chk true heap = .ok (cands, st) →
      st.detected = es.length → w ∈ cands

section Multi
open RepairEdit

/-- the strands of the multi-edit case in block form: a leading clean stretch up to the first
edited position, then one block per edit. -/
theorem applyEdits_blocks (k : Nat) (hk : 1 ≤ k) : ∀ (es : List Edit) (w : List Char), IsAcgt w →
    Spaced k es → (∀ e ∈ es, e.Interior k w.length ∧ e.Proper w) →
    ∃ (G0 : List Char) (bs : List Blk), w = G0 ++ tailO bs ∧ applyEdits es w = G0 ++ tailC bs ∧
      bs.length = es.length ∧ Chain k G0.length bs ∧
      (es = [] → G0.length = w.length) ∧ (∀ e es', es = e :: es' → G0.length = e.pos)
  | [], w, _, _, _ => ⟨w, [], by simp [tailO], by simp [applyEdits, tailC], rfl, trivial,
      fun _ => rfl, fun _ _ h => by cases h⟩
  | e :: es, w, hw, hsp, hes => by
    have hsp' : Spaced k es := by
      cases es with
      | nil => trivial
      | cons e' r => exact hsp.2
    obtain ⟨G, bs, ew, ec, hlen, hch, hnil, hcons⟩ := applyEdits_blocks k hk es w hw hsp'
      (fun e' he' => hes e' (List.mem_cons_of_mem _ he'))
    obtain ⟨⟨hkp, hpn⟩, hprop⟩ := hes e List.mem_cons_self
    have hGw : G.length ≤ w.length := by
      have := congrArg List.length ew; simp at this; omega
    have h1 : e.pos + 2 * k + 1 ≤ G.length := by
      cases es with
      | nil => rw [hnil rfl]; omega
      | cons e' r => rw [hcons e' r rfl]; have := hsp.1; omega
    have h2 : bs ≠ [] → e.pos + 3 * k + 2 ≤ G.length := by
      intro hne
      cases es with
      | nil => simp at hlen; exact absurd hlen hne
      | cons e' r => rw [hcons e' r rfl]; exact hsp.1
    have hacgtG : IsAcgt G := by rw [ew] at hw; exact (IsAcgt.append.mp hw).1
    have hwG : ∀ i (h : i < G.length), w[i]? = some G[i] := by
      intro i h; rw [ew, List.getElem?_append_left h, List.getElem?_eq_getElem h]
    have happ : applyEdits (e :: es) w = e.apply (G ++ tailC bs) := by
      simp only [applyEdits, List.foldr_cons] at ec ⊢; rw [ec]
    rw [happ]
    cases e with
    | subst p x =>
      simp only [Edit.pos] at hkp hpn h1 h2
      have hp : p < G.length := by omega
      refine ⟨G.take p, ⟨[G[p]], x, G.drop (p + 1)⟩ :: bs, ?_, ?_, by simp [hlen], ?_, by simp,
        fun e es' h => by cases h; simp [Edit.pos]; omega⟩
      · rw [ew]; exact orig_block1 G _ p hp
      · exact set_block G _ p x hp
      · have : (G.take p).length = p := by simp; omega
        rw [this]
        refine Chain.cons hkp (Or.inl ⟨G[p], rfl, ?_⟩) hprop.1 (by omega) h1 h2 hch
        intro h; apply hprop.2; rw [hwG p hp, h]
    | ins p x =>
      simp only [Edit.pos] at hkp hpn h1 h2
      have hp : p ≤ G.length := by omega
      refine ⟨G.take p, ⟨[], x, G.drop p⟩ :: bs, ?_, ?_, by simp [hlen], ?_, by simp,
        fun e es' h => by cases h; simp [Edit.pos]; omega⟩
      · rw [ew]; simp only [tailO, List.nil_append]
        rw [← List.append_assoc, List.take_append_drop]
      · exact ins_block G _ p x hp
      · have : (G.take p).length = p := by simp; omega
        rw [this]
        exact Chain.cons hkp (Or.inr (Or.inl ⟨rfl, rfl⟩)) hprop (by omega) h1 h2 hch
    | del p =>
      simp only [Edit.pos] at hkp hpn h1 h2
      have hp : p + 1 < G.length := by omega
      refine ⟨G.take p, ⟨[G[p], G[p + 1]], G[p + 1], G.drop (p + 2)⟩ :: bs, ?_, ?_, by simp [hlen], ?_,
        by simp, fun e es' h => by cases h; simp [Edit.pos]; omega⟩
      · rw [ew]; exact orig_block2 G _ p hp
      · exact del_block G _ p hp
      · have : (G.take p).length = p := by simp; omega
        rw [this]
        exact Chain.cons hkp (Or.inr (Or.inr ⟨rfl, G[p], rfl⟩)) (hacgtG _ (List.getElem_mem _))
          (by omega) h1 h2 hch

/-- several separated interior edits: when every edit is detected, the original strand is among
the candidates. -/
theorem C08_multi : C08_multi_statement := by
  intro k s v w es chk heap hk hs hv hw hes hsp hc hheap cands st hres hdet
  obtain ⟨G0, bs, ew, ec, hlen, hch, -, -⟩ := applyEdits_blocks k hk es w (isWalk_isAcgt _ w _ hw) hsp hes
  have hchk := RepairEdit.vtMatches_of_check w chk hc
  have h1 : 1 ≤ heap := Nat.le_trans (Nat.pow_pos (by omega)) hheap
  rw [ec] at hres
  rw [ew] at hw hchk ⊢
  exact multi_core k s v G0 bs chk heap hk hs hv hw hch hchk h1 cands st hres (by rw [hdet, hlen])

end Multi

/-! non-vacuity: the doctest's substitution on the GC-balanced order-2 graph -/
example : (Edit.subst 5 'A').apply "TCTCTCTCTCTC".toList = "TCTCTATCTCTC".toList ∧
    (Edit.subst 5 'A').Interior 2 12 := by
  refine ⟨by decide, by simp [Edit.Interior, Edit.pos]⟩

end Dsw
