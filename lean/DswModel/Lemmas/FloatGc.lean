import DswModel.Lemmas.FloatRoundGc
import DswModel.Lemmas.Thresholds
import DswModel.Props.FloatSpec
import Mathlib.Data.Rat.Floor
import Mathlib.Algebra.Order.Floor.Ring
import Mathlib.Algebra.Order.Field.Rat
import Mathlib.Tactic.Linarith
import Mathlib.Tactic.Positivity
import Mathlib.Tactic.FieldSimp
import Mathlib.Tactic.Ring
import Mathlib.Tactic.NormNum
/-!
# The float GC thresholds against the exact ones (helper lemmas for `Props/C12c.lean`)

Everything is moved to `Rat`: `q x` is the exact value of a double, `Dbl.floor` / `Dbl.ceil` are `⌊q x⌋` / `⌈q x⌉`,
rounding is monotone with respect to integers of magnitude ≤ 2^53 (`round_ge`, `round_le`), and the values the products
and the difference of `floatGcRule` round are `q x * k` and `k − q a`.
-/
namespace Dsw.FloatGc

/-- the exact value of a double. -/
def q (x : Dbl) : Rat := (x.num : Rat) / (x.den : Rat)

theorem q_def (x : Dbl) : q x = (x.num : Rat) / (x.den : Rat) := rfl

theorem le_q_iff {x : Dbl} (hd : 0 < x.den) (N : Int) : (N : Rat) ≤ q x ↔ N * x.den ≤ x.num := by
  have hd' : (0 : Rat) < (x.den : Rat) := by exact_mod_cast hd
  rw [q_def, le_div_iff₀ hd']
  norm_cast

theorem q_le_iff {x : Dbl} (hd : 0 < x.den) (N : Int) : q x ≤ (N : Rat) ↔ x.num ≤ N * x.den := by
  have hd' : (0 : Rat) < (x.den : Rat) := by exact_mod_cast hd
  rw [q_def, div_le_iff₀ hd']
  norm_cast

theorem floor_eq_q (x : Dbl) : x.floor = ⌊q x⌋ := by
  rw [Dbl.floor_eq, q_def, Rat.floor_intCast_div_natCast]

theorem ceil_eq_q (x : Dbl) : x.ceil = ⌈q x⌉ := by
  have h : (((-x.num : Int)) : Rat) / (x.den : Rat) = -(q x) := by
    rw [q_def]; push_cast; ring
  rw [Dbl.ceil_eq, ← Rat.floor_intCast_div_natCast, h, Int.floor_neg, neg_neg]

theorem round_ge {num : Int} {den : Nat} {r : Dbl} (hden : 0 < den) (N : Int) (hN : N.natAbs ≤ 2 ^ 53)
    (h : (N : Rat) ≤ (num : Rat) / (den : Rat)) (hr : roundDouble num den = some r) : (N : Rat) ≤ q r := by
  have hd' : (0 : Rat) < (den : Rat) := by exact_mod_cast hden
  rw [le_div_iff₀ hd'] at h
  have h' : N * (den : Int) ≤ num := by exact_mod_cast h
  exact (le_q_iff (roundDouble_den_pos' hr) N).2 (roundDouble_ge_int N num den r hden hN h' hr)

theorem round_le {num : Int} {den : Nat} {r : Dbl} (hden : 0 < den) (N : Int) (hN : N.natAbs ≤ 2 ^ 53)
    (h : (num : Rat) / (den : Rat) ≤ (N : Rat)) (hr : roundDouble num den = some r) : q r ≤ (N : Rat) := by
  have hd' : (0 : Rat) < (den : Rat) := by exact_mod_cast hden
  rw [div_le_iff₀ hd'] at h
  have h' : num ≤ N * (den : Int) := by exact_mod_cast h
  exact (q_le_iff (roundDouble_den_pos' hr) N).2 (roundDouble_le_int N num den r hden hN h' hr)

/-- the value a product with `float(k)` rounds. -/
theorem mul_val {x fk : Dbl} {k : Nat} (hx : 0 < x.den) (hfk : fk.num = k * fk.den) (hfd : 0 < fk.den) :
    ((x.num * fk.num : Int) : Rat) / ((x.den * fk.den : Nat) : Rat) = q x * k := by
  have h1 : (x.den : Rat) ≠ 0 := by exact_mod_cast (Nat.pos_iff_ne_zero.1 hx)
  have h2 : (fk.den : Rat) ≠ 0 := by exact_mod_cast (Nat.pos_iff_ne_zero.1 hfd)
  rw [hfk, q_def]
  push_cast
  field_simp

/-- the value `float(k) − a` rounds. -/
theorem sub_val {fk a : Dbl} {k : Nat} (ha : 0 < a.den) (hfk : fk.num = k * fk.den) (hfd : 0 < fk.den) :
    ((fk.num * a.den - a.num * fk.den : Int) : Rat) / ((fk.den * a.den : Nat) : Rat) = (k : Rat) - q a := by
  have h1 : (a.den : Rat) ≠ 0 := by exact_mod_cast (Nat.pos_iff_ne_zero.1 ha)
  have h2 : (fk.den : Rat) ≠ 0 := by exact_mod_cast (Nat.pos_iff_ne_zero.1 hfd)
  rw [hfk, q_def]
  push_cast
  field_simp

theorem mul_ge {x fk a : Dbl} {k : Nat} (hx : 0 < x.den) (hfk : fk.num = k * fk.den) (hfd : 0 < fk.den)
    (ha : x.mul fk = some a) (N : Int) (hN : N.natAbs ≤ 2 ^ 53) (h : (N : Rat) ≤ q x * k) : (N : Rat) ≤ q a := by
  unfold Dbl.mul at ha
  exact round_ge (Nat.mul_pos hx hfd) N hN (by rw [mul_val hx hfk hfd]; exact h) ha

theorem mul_le {x fk a : Dbl} {k : Nat} (hx : 0 < x.den) (hfk : fk.num = k * fk.den) (hfd : 0 < fk.den)
    (ha : x.mul fk = some a) (N : Int) (hN : N.natAbs ≤ 2 ^ 53) (h : q x * k ≤ (N : Rat)) : q a ≤ (N : Rat) := by
  unfold Dbl.mul at ha
  exact round_le (Nat.mul_pos hx hfd) N hN (by rw [mul_val hx hfk hfd]; exact h) ha

theorem sub_ge {fk a c : Dbl} {k : Nat} (had : 0 < a.den) (hfk : fk.num = k * fk.den) (hfd : 0 < fk.den)
    (hc : fk.sub a = some c) (N : Int) (hN : N.natAbs ≤ 2 ^ 53) (h : (N : Rat) ≤ (k : Rat) - q a) :
    (N : Rat) ≤ q c := by
  unfold Dbl.sub at hc
  exact round_ge (Nat.mul_pos hfd had) N hN (by rw [sub_val had hfk hfd]; exact h) hc

theorem sub_le {fk a c : Dbl} {k : Nat} (had : 0 < a.den) (hfk : fk.num = k * fk.den) (hfd : 0 < fk.den)
    (hc : fk.sub a = some c) (N : Int) (hN : N.natAbs ≤ 2 ^ 53) (h : (k : Rat) - q a ≤ (N : Rat)) :
    q c ≤ (N : Rat) := by
  unfold Dbl.sub at hc
  exact round_le (Nat.mul_pos hfd had) N hN (by rw [sub_val had hfk hfd]; exact h) hc

/-- a product that is a binary64 value is not changed by the rounding. -/
theorem mul_exact {x fk a : Dbl} {k : Nat} (hx : 0 < x.den) (hfk : fk.num = k * fk.den) (hfd : 0 < fk.den)
    (ha : x.mul fk = some a) (e : IsB64 (x.num * k) x.den) : q a = q x * k := by
  have had : 0 < a.den := by unfold Dbl.mul at ha; exact roundDouble_den_pos' ha
  unfold Dbl.mul at ha
  have hn := roundDouble_nearest _ _ a (Nat.mul_pos hx hfd) ha _ _ e
  have hz : x.num * fk.num * (x.den : Int) - x.num * (k : Int) * ((x.den * fk.den : Nat) : Int) = 0 := by
    rw [hfk]; push_cast; ring
  rw [hz] at hn
  simp only [Int.natAbs_zero, Nat.zero_mul, Nat.le_zero, Nat.mul_eq_zero, Int.natAbs_eq_zero] at hn
  have hx0 : x.den ≠ 0 := Nat.pos_iff_ne_zero.1 hx
  have hn' : x.num * fk.num * (a.den : Int) - a.num * ((x.den * fk.den : Nat) : Int) = 0 := by
    rcases hn with h | h
    · exact h
    · exact absurd h hx0
  have h1 : (x.den : Rat) ≠ 0 := by exact_mod_cast hx0
  have h2 : (fk.den : Rat) ≠ 0 := by exact_mod_cast (Nat.pos_iff_ne_zero.1 hfd)
  have h3 : (a.den : Rat) ≠ 0 := by exact_mod_cast (Nat.pos_iff_ne_zero.1 had)
  have hq : ((x.num * fk.num * (a.den : Int) - a.num * ((x.den * fk.den : Nat) : Int) : Int) : Rat) = 0 := by
    rw [hn']; rfl
  rw [hfk] at hq
  push_cast at hq
  rw [q_def, q_def]
  field_simp
  apply mul_right_cancel₀ h2
  linarith

theorem q_range {x : Dbl} (hd : 0 < x.den) (h0 : 0 ≤ x.num) (h1 : x.num ≤ x.den) : 0 ≤ q x ∧ q x ≤ 1 := by
  have hd' : (0 : Rat) < (x.den : Rat) := by exact_mod_cast hd
  have a0 : (0 : Rat) ≤ (x.num : Rat) := by exact_mod_cast h0
  have a1 : (x.num : Rat) ≤ (x.den : Rat) := by exact_mod_cast h1
  rw [q_def]
  exact ⟨div_nonneg a0 hd'.le, (div_le_one hd').2 a1⟩

end Dsw.FloatGc
