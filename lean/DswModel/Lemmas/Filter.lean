import DswModel.Model.Biofilter
/-!
# Helper lemmas for `LocalBioFilter` (C12, C02)

Reusable results (all in namespace `Dsw`):
* `isInfix_iff` — the model's `isInfix` is `List.IsInfix`;
* `infix_in_window` / `infix_iff_infix_window` — an infix of length ≤ k of a list of length ≥ k
  lies inside one of its k-windows;
* `validObserved_iff` — the Boolean verdict as the conjunction `CharsOk ∧ RunOk ∧ MotifOk ∧ GcOk`;
* `valid_iff_all_windows` / `valid_eq_all_windows` — for window-decidable configurations and
  `k ≤ |s|` the whole-sequence verdict is the conjunction over all k-windows;
* `validObserved_revComp` — reverse-complement invariance;
* `valid_of_infix_window` — a shorter piece of a valid window passes the short-string rule.
-/
namespace Dsw

/-! ## `isInfix`, infixes and windows -/

theorem isInfix_iff (p s : List Char) : isInfix p s = true ↔ p <:+: s := by
  induction s with
  | nil => simp [isInfix]
  | cons c s ih =>
    simp only [isInfix, Bool.or_eq_true, ih, List.isPrefixOf_iff_prefix, List.infix_cons_iff]

theorem infix_iff_take_drop {α} (m l : List α) :
    m <:+: l ↔ ∃ a, a + m.length ≤ l.length ∧ (l.drop a).take m.length = m := by
  constructor
  · rintro ⟨s, t, h⟩
    refine ⟨s.length, ?_, ?_⟩
    · rw [← h]; simp
    · rw [← h]; simp
  · rintro ⟨a, _, h⟩
    refine ⟨l.take a, (l.drop a).drop m.length, ?_⟩
    rw [List.append_assoc]
    have : m ++ List.drop m.length (List.drop a l) = List.drop a l := by
      conv => lhs; lhs; rw [← h]
      exact List.take_append_drop _ _
    rw [this, List.take_append_drop]

/-- an infix of length ≤ k of a list of length ≥ k lies inside one of its k-windows -/
theorem infix_in_window {α} (m l : List α) (k : Nat) (hk : k ≤ l.length) (hm : m.length ≤ k)
    (h : m <:+: l) : ∃ i, i + k ≤ l.length ∧ m <:+: (l.drop i).take k := by
  obtain ⟨a, ha, hEq⟩ := (infix_iff_take_drop m l).1 h
  refine ⟨min a (l.length - k), by omega, ?_⟩
  rw [infix_iff_take_drop]
  refine ⟨a - min a (l.length - k), ?_, ?_⟩
  · simp; omega
  · rw [List.drop_take, List.drop_drop, List.take_take]
    have h1 : min a (l.length - k) + (a - min a (l.length - k)) = a := by omega
    have h2 : min m.length (k - (a - min a (l.length - k))) = m.length := by omega
    rw [h2, h1]
    exact hEq

theorem window_infix {α} (l : List α) (i k : Nat) : (l.drop i).take k <:+: l :=
  List.IsInfix.trans (List.take_prefix _ _).isInfix (List.drop_suffix _ _).isInfix

theorem infix_iff_infix_window {α} (m l : List α) (k : Nat) (hk : k ≤ l.length) (hm : m.length ≤ k) :
    m <:+: l ↔ ∃ i, i + k ≤ l.length ∧ m <:+: (l.drop i).take k :=
  ⟨infix_in_window m l k hk hm, fun ⟨i, _, h⟩ => h.trans (window_infix l i k)⟩

theorem all_windows (k : Nat) (s : List Char) (f : List Char → Bool) :
    (windows k s).all f = true ↔ ∀ i, i + k < s.length + 1 → f ((s.drop i).take k) = true := by
  simp only [windows, List.all_map, List.all_eq_true, List.mem_range, Function.comp]
  constructor
  · intro h i hi; exact h i (by omega)
  · intro h i hi; exact h i (by omega)

theorem windows_self (w : List Char) : windows w.length w = [w] := by
  simp [windows]

theorem isInfix_eq_false_iff (p s : List Char) : isInfix p s = false ↔ ¬ p <:+: s := by
  rw [← isInfix_iff, Bool.not_eq_true]

/-! ## the verdict as a conjunction of four declarative rules -/

/-- `ch` is one of A, C, G, T. -/
def IsNuc (ch : Char) : Prop := ch = 'A' ∨ ch = 'C' ∨ ch = 'G' ∨ ch = 'T'

theorem nucIdx_isSome_iff (ch : Char) : (nucIdx ch).isSome = true ↔ IsNuc ch := by
  unfold nucIdx IsNuc
  split
  · simp [*]
  · split
    · simp [*]
    · split
      · simp [*]
      · split <;> simp [*]

/-- every character is a nucleotide. -/
def CharsOk (s : List Char) : Prop := ∀ ch ∈ s, IsNuc ch

/-- no homopolymer run longer than the limit. -/
def RunOk (c : FilterCfg) (s : List Char) : Prop :=
  ∀ r, c.run = some r → ∀ ch, IsNuc ch → ¬ List.replicate (r + 1) ch <:+: s

/-- no forbidden motif, nor the reverse complement of one. -/
def MotifOk (c : FilterCfg) (s : List Char) : Prop :=
  ∀ ms, c.motifs = some ms → ∀ m ∈ ms, ¬ m <:+: s ∧ ¬ revComp m <:+: s

/-- the GC rule: every k-window within `[gcLo, gcHi]`, or the short-string rule. -/
def GcOk (c : FilterCfg) (s : List Char) : Prop :=
  ∀ g, c.gc = some g →
      if c.k ≤ s.length then
        ∀ i, i + c.k ≤ s.length →
          g.gcLo ≤ (gcCount ((s.drop i).take c.k) : Int) ∧ (gcCount ((s.drop i).take c.k) : Int) ≤ g.gcHi
      else (gcCount s : Int) ≤ g.gcHi ∧ (atCount s : Int) ≤ g.atHi

theorem validObserved_iff (c : FilterCfg) (s : List Char) :
    validObserved c s = true ↔ CharsOk s ∧ RunOk c s ∧ MotifOk c s ∧ GcOk c s := by
  unfold validObserved
  simp only [Bool.and_eq_true, and_assoc]
  refine and_congr ?_ (and_congr ?_ (and_congr ?_ ?_))
  · simp only [List.all_eq_true, nucIdx_isSome_iff, CharsOk]
  · unfold RunOk
    cases c.run with
    | none => simp
    | some r =>
      simp only [Option.some.injEq, forall_eq', IsNuc]
      have : "ACGT".toList = ['A', 'C', 'G', 'T'] := by decide
      rw [this]
      simp [isInfix_eq_false_iff, Nat.add_comm 1 r]
  · unfold MotifOk
    cases c.motifs with
    | none => simp
    | some ms => simp [isInfix_eq_false_iff]
  · unfold GcOk
    cases c.gc with
    | none => simp
    | some g =>
      simp only [Option.some.injEq, forall_eq']
      split
      · rename_i h
        rw [all_windows]
        simp only [Bool.and_eq_true, Bool.not_eq_true', decide_eq_false_iff_not]
        constructor
        · intro H i hi; have := H i (by omega); omega
        · intro H i hi; have := H i (by omega); omega
      · rename_i h
        simp only [Bool.and_eq_true, Bool.not_eq_true', decide_eq_false_iff_not]
        omega

theorem valid_false (c : FilterCfg) (s : List Char) : c.valid s false = validObserved c s := by
  simp [FilterCfg.valid]

theorem window_length {α} (l : List α) (i k : Nat) (h : i + k ≤ l.length) :
    ((l.drop i).take k).length = k := by
  simp; omega

theorem revComp_length (s : List Char) : (revComp s).length = s.length := by
  simp [revComp]

/-! ## the verdict of a long string is the conjunction over its windows -/

theorem singleton_infix_iff {α} (a : α) (l : List α) : [a] <:+: l ↔ a ∈ l := by
  constructor
  · intro h; exact h.subset (List.mem_singleton_self a)
  · intro h
    obtain ⟨s, t, rfl⟩ := List.append_of_mem h
    exact ⟨s, t, by simp⟩

theorem CharsOk.of_infix {t s : List Char} (h : t <:+: s) (hs : CharsOk s) : CharsOk t :=
  fun ch hch => hs ch (h.subset hch)

theorem charsOk_windows (k : Nat) (s : List Char) (hk : 1 ≤ k) (hs : k ≤ s.length) :
    CharsOk s ↔ ∀ i, i + k ≤ s.length → CharsOk ((s.drop i).take k) := by
  constructor
  · intro h i _; exact h.of_infix (window_infix s i k)
  · intro h ch hch
    have h1 : [ch] <:+: s := (singleton_infix_iff ch s).2 hch
    obtain ⟨i, hi, hin⟩ := infix_in_window [ch] s k hs (by simpa using hk) h1
    exact h i hi ch ((singleton_infix_iff ch _).1 hin)

theorem runOk_windows (c : FilterCfg) (s : List Char) (hrun : ∀ r, c.run = some r → r < c.k)
    (hs : c.k ≤ s.length) :
    RunOk c s ↔ ∀ i, i + c.k ≤ s.length → RunOk c ((s.drop i).take c.k) := by
  constructor
  · intro h i _ r hr ch hch hin; exact h r hr ch hch (hin.trans (window_infix s i c.k))
  · intro h r hr ch hch hin
    obtain ⟨i, hi, hin'⟩ := infix_in_window _ s c.k hs (by have := hrun r hr; simp; omega) hin
    exact h i hi r hr ch hch hin'

theorem motifOk_windows (c : FilterCfg) (s : List Char)
    (hmot : ∀ ms, c.motifs = some ms → ∀ m ∈ ms, m.length ≤ c.k) (hs : c.k ≤ s.length) :
    MotifOk c s ↔ ∀ i, i + c.k ≤ s.length → MotifOk c ((s.drop i).take c.k) := by
  constructor
  · intro h i _ ms hms m hm
    exact ⟨fun hin => (h ms hms m hm).1 (hin.trans (window_infix s i c.k)),
           fun hin => (h ms hms m hm).2 (hin.trans (window_infix s i c.k))⟩
  · intro h ms hms m hm
    constructor
    · intro hin
      obtain ⟨i, hi, hin'⟩ := infix_in_window _ s c.k hs (hmot ms hms m hm) hin
      exact (h i hi ms hms m hm).1 hin'
    · intro hin
      obtain ⟨i, hi, hin'⟩ := infix_in_window _ s c.k hs
        (by rw [revComp_length]; exact hmot ms hms m hm) hin
      exact (h i hi ms hms m hm).2 hin'

theorem gcOk_of_length_eq (c : FilterCfg) (w : List Char) (hw : w.length = c.k) :
    GcOk c w ↔ ∀ g, c.gc = some g → g.gcLo ≤ (gcCount w : Int) ∧ (gcCount w : Int) ≤ g.gcHi := by
  unfold GcOk
  refine forall_congr' fun g => imp_congr_right fun _ => ?_
  rw [if_pos (by omega)]
  constructor
  · intro h
    have := h 0 (by omega)
    rwa [List.drop_zero, ← hw, List.take_length] at this
  · intro h i hi
    have : i = 0 := by omega
    subst this
    rwa [List.drop_zero, ← hw, List.take_length]

theorem gcOk_windows (c : FilterCfg) (s : List Char) (hs : c.k ≤ s.length) :
    GcOk c s ↔ ∀ i, i + c.k ≤ s.length → GcOk c ((s.drop i).take c.k) := by
  constructor
  · intro h i hi
    rw [gcOk_of_length_eq c _ (window_length s i c.k hi)]
    intro g hg
    have := h g hg
    rw [if_pos hs] at this
    exact this i hi
  · intro h g hg
    rw [if_pos hs]
    intro i hi
    exact (gcOk_of_length_eq c _ (window_length s i c.k hi)).1 (h i hi) g hg

theorem valid_iff_all_windows (c : FilterCfg) (s : List Char) (hk : 1 ≤ c.k)
    (hrun : ∀ r, c.run = some r → r < c.k)
    (hmot : ∀ ms, c.motifs = some ms → ∀ m ∈ ms, m.length ≤ c.k) (hs : c.k ≤ s.length) :
    c.valid s false = true ↔
      ∀ i, i + c.k ≤ s.length → c.valid ((s.drop i).take c.k) false = true := by
  simp only [valid_false, validObserved_iff]
  rw [charsOk_windows c.k s hk hs, runOk_windows c s hrun hs, motifOk_windows c s hmot hs,
    gcOk_windows c s hs]
  constructor
  · intro h i hi; exact ⟨h.1 i hi, h.2.1 i hi, h.2.2.1 i hi, h.2.2.2 i hi⟩
  · intro h
    exact ⟨fun i hi => (h i hi).1, fun i hi => (h i hi).2.1, fun i hi => (h i hi).2.2.1,
      fun i hi => (h i hi).2.2.2⟩

theorem valid_eq_all_windows (c : FilterCfg) (s : List Char) (hk : 1 ≤ c.k)
    (hrun : ∀ r, c.run = some r → r < c.k)
    (hmot : ∀ ms, c.motifs = some ms → ∀ m ∈ ms, m.length ≤ c.k) (hs : c.k ≤ s.length) :
    c.valid s false = (windows c.k s).all fun w => c.valid w false := by
  rw [Bool.eq_iff_iff, all_windows, valid_iff_all_windows c s hk hrun hmot hs]
  constructor
  · intro h i hi; exact h i (by omega)
  · intro h i hi; exact h i (by omega)

/-! ## reverse complement -/

theorem complement_complement (ch : Char) : complement (complement ch) = ch := by
  unfold complement
  repeat' split
  all_goals simp_all

theorem revComp_revComp (s : List Char) : revComp (revComp s) = s := by
  simp [revComp, List.map_reverse, Function.comp_def, complement_complement]

theorem revComp_infix_of_infix {a b : List Char} (h : a <:+: b) : revComp a <:+: revComp b := by
  unfold Dsw.revComp
  exact List.reverse_infix.2 (h.map complement)

theorem revComp_infix_revComp (a b : List Char) : revComp a <:+: revComp b ↔ a <:+: b :=
  ⟨fun h => by simpa [revComp_revComp] using revComp_infix_of_infix h, revComp_infix_of_infix⟩

theorem infix_revComp_iff (p s : List Char) : p <:+: revComp s ↔ revComp p <:+: s := by
  rw [← revComp_infix_revComp, revComp_revComp]

theorem revComp_replicate (n : Nat) (ch : Char) :
    revComp (List.replicate n ch) = List.replicate n (complement ch) := by
  simp [revComp]

theorem isNuc_complement (ch : Char) : IsNuc (complement ch) ↔ IsNuc ch := by
  have key : ∀ x, IsNuc x → IsNuc (complement x) := by
    intro x hx
    rcases hx with rfl | rfl | rfl | rfl <;> simp [IsNuc, complement]
  exact ⟨fun h => by simpa [complement_complement] using key _ h, key ch⟩

theorem count_map_complement (a : Char) (s : List Char) :
    (s.map complement).count a = s.count (complement a) := by
  induction s with
  | nil => simp
  | cons x s ih =>
    simp only [List.map_cons, List.count_cons, ih]
    congr 1
    have : (complement x == a) = (x == complement a) := by
      rw [Bool.eq_iff_iff]; simp only [beq_iff_eq]
      constructor
      · rintro rfl; rw [complement_complement]
      · rintro rfl; rw [complement_complement]
    rw [this]

theorem gcCount_revComp (s : List Char) : gcCount (revComp s) = gcCount s := by
  simp only [gcCount, revComp, List.count_reverse, count_map_complement]
  have h1 : complement 'C' = 'G' := by decide
  have h2 : complement 'G' = 'C' := by decide
  rw [h1, h2]; omega

theorem atCount_revComp (s : List Char) : atCount (revComp s) = atCount s := by
  simp only [atCount, revComp, List.count_reverse, count_map_complement]
  have h1 : complement 'A' = 'T' := by decide
  have h2 : complement 'T' = 'A' := by decide
  rw [h1, h2]; omega

/-- the k-windows of `s` are exactly its infixes of length `k`. -/
theorem forall_windows_iff_infix (s : List Char) (k : Nat) (P : List Char → Prop) :
    (∀ i, i + k ≤ s.length → P ((s.drop i).take k)) ↔ ∀ w, w <:+: s → w.length = k → P w := by
  constructor
  · intro h w hw hl
    obtain ⟨a, ha, hEq⟩ := (infix_iff_take_drop w s).1 hw
    rw [hl] at ha hEq
    rw [← hEq]
    exact h a ha
  · intro h i hi
    exact h _ (window_infix s i k) (window_length s i k hi)

theorem CharsOk.revComp {s : List Char} (h : CharsOk s) : CharsOk (revComp s) := by
  intro ch hch
  simp only [Dsw.revComp, List.mem_reverse, List.mem_map] at hch
  obtain ⟨a, ha, rfl⟩ := hch
  exact (isNuc_complement a).2 (h a ha)

theorem RunOk.revComp {c : FilterCfg} {s : List Char} (h : RunOk c s) : RunOk c (revComp s) := by
  intro r hr ch hch hin
  rw [infix_revComp_iff, revComp_replicate] at hin
  exact h r hr _ ((isNuc_complement ch).2 hch) hin

theorem MotifOk.revComp {c : FilterCfg} {s : List Char} (h : MotifOk c s) :
    MotifOk c (revComp s) := by
  intro ms hms m hm
  rw [infix_revComp_iff, infix_revComp_iff, revComp_revComp]
  exact ⟨(h ms hms m hm).2, (h ms hms m hm).1⟩

theorem GcOk.revComp {c : FilterCfg} {s : List Char} (h : GcOk c s) : GcOk c (revComp s) := by
  intro g hg
  have h := h g hg
  split
  · rename_i hk
    rw [revComp_length] at hk
    rw [if_pos hk, forall_windows_iff_infix s c.k
      (fun w => g.gcLo ≤ (gcCount w : Int) ∧ (gcCount w : Int) ≤ g.gcHi)] at h
    rw [forall_windows_iff_infix (Dsw.revComp s) c.k
      (fun w => g.gcLo ≤ (gcCount w : Int) ∧ (gcCount w : Int) ≤ g.gcHi)]
    intro w hw hl
    have := h (Dsw.revComp w) ((infix_revComp_iff w s).1 hw) (by rw [revComp_length]; exact hl)
    rwa [gcCount_revComp] at this
  · rename_i hk
    rw [revComp_length] at hk
    rw [if_neg hk] at h
    rwa [gcCount_revComp, atCount_revComp]

theorem validObserved_revComp (c : FilterCfg) (s : List Char) :
    validObserved c (revComp s) = validObserved c s := by
  have key : ∀ t, validObserved c t = true → validObserved c (revComp t) = true := by
    intro t
    simp only [validObserved_iff]
    exact fun h => ⟨h.1.revComp, h.2.1.revComp, h.2.2.1.revComp, h.2.2.2.revComp⟩
  rw [Bool.eq_iff_iff]
  exact ⟨fun h => by simpa [revComp_revComp] using key _ h, key s⟩

/-! ## last window, foreign characters, constructor -/

theorem pySlice_last {α} (s : List α) (k : Nat) (hk : 1 ≤ k) :
    pySlice s (-(k : Int)) s.length = s.drop (s.length - k) := by
  have h1 : pyNorm s.length (-(k : Int)) = s.length - k := by
    unfold pyNorm; rw [if_pos (by omega)]; omega
  have h2 : pyNorm s.length (s.length : Int) = s.length := by
    unfold pyNorm; rw [if_neg (by omega)]; omega
  simp only [pySlice, h1, h2]
  apply List.take_of_length_le
  simp

theorem valid_true (c : FilterCfg) (s : List Char) (hk : 1 ≤ c.k) :
    c.valid s true = c.valid (s.drop (s.length - c.k)) false := by
  simp only [FilterCfg.valid, if_true, pySlice_last s c.k hk]
  simp

theorem valid_foreign (c : FilterCfg) (s : List Char) (ch : Char) (h : ch ∈ s)
    (hf : nucIdx ch = none) : c.valid s false = false := by
  rw [← Bool.not_eq_true, valid_false, validObserved_iff]
  intro hv
  have := (nucIdx_isSome_iff ch).2 (hv.1 ch h)
  simp [hf] at this

theorem accepted_iff (c : FilterCfg) :
    c.accepted = true ↔ (∀ r, c.run = some r → r ≤ c.k) ∧
      (∀ ms, c.motifs = some ms → ∀ m ∈ ms, m.length ≤ c.k) := by
  unfold FilterCfg.accepted
  rw [Bool.and_eq_true]
  refine and_congr ?_ ?_
  · cases c.run <;> simp
  · cases c.motifs <;> simp

/-! ## monotonicity: pieces of a valid window -/

theorem gcCount_le_of_infix {t w : List Char} (h : t <:+: w) : gcCount t ≤ gcCount w := by
  unfold gcCount
  have h1 := h.sublist.count_le 'C'
  have h2 := h.sublist.count_le 'G'
  omega

theorem atCount_le_of_infix {t w : List Char} (h : t <:+: w) : atCount t ≤ atCount w := by
  unfold atCount
  have h1 := h.sublist.count_le 'A'
  have h2 := h.sublist.count_le 'T'
  omega

theorem atCount_add_gcCount {w : List Char} (h : CharsOk w) : atCount w + gcCount w = w.length := by
  induction w with
  | nil => simp [atCount, gcCount]
  | cons x w ih =>
    have ih := ih (fun ch hch => h ch (List.mem_cons_of_mem _ hch))
    have hx := h x List.mem_cons_self
    unfold atCount gcCount at ih ⊢
    rcases hx with rfl | rfl | rfl | rfl <;> simp <;> omega

theorem RunOk.of_infix {c : FilterCfg} {t s : List Char} (h : t <:+: s) (hs : RunOk c s) :
    RunOk c t :=
  fun r hr ch hch hin => hs r hr ch hch (hin.trans h)

theorem MotifOk.of_infix {c : FilterCfg} {t s : List Char} (h : t <:+: s) (hs : MotifOk c s) :
    MotifOk c t :=
  fun ms hms m hm => ⟨fun hin => (hs ms hms m hm).1 (hin.trans h),
    fun hin => (hs ms hms m hm).2 (hin.trans h)⟩

/-- monotonicity: a shorter piece of a valid window passes the short-string rule. -/
theorem valid_of_infix_window (c : FilterCfg) (t w : List Char) (ht : t <:+: w)
    (hw : w.length = c.k) (htk : t.length < c.k) (hv : c.valid w false = true)
    (hg : ∀ g, c.gc = some g → (c.k : Int) - g.gcLo ≤ g.atHi) :
    c.valid t false = true := by
  rw [valid_false, validObserved_iff] at hv ⊢
  obtain ⟨h1, h2, h3, h4⟩ := hv
  refine ⟨h1.of_infix ht, h2.of_infix ht, h3.of_infix ht, ?_⟩
  intro g hgc
  rw [if_neg (by omega)]
  have hb := (gcOk_of_length_eq c w hw).1 h4 g hgc
  have hgk := hg g hgc
  have hsum := atCount_add_gcCount h1
  have hgc' := gcCount_le_of_infix ht
  have hat' := atCount_le_of_infix ht
  omega
end Dsw
