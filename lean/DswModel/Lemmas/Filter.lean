import DswModel.Model.Biofilter
/-! Helper lemmas for `LocalBioFilter` (C12, C02). -/
namespace Dsw

end Dsw
