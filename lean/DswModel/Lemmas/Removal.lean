import DswModel.Model.Spiderweb
import DswModel.Lemmas.Defs
import DswModel.Lemmas.DeBruijn
/-! Helper lemmas for `calculate_intersection_score` / `remove_nasty_arc` (C19). -/
namespace Dsw

end Dsw
