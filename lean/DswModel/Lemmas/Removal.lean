import DswModel.Model.Spiderweb
import DswModel.Lemmas.Defs
import DswModel.Lemmas.DeBruijn
/-! Helper lemmas for `calculate_intersection_score` / `remove_nasty_arc` (C19). -/
namespace Dsw

/-! ## the score table -/

/-- shape of the score table and "positive only on good cells". -/
def ScoreInv (n : Nat) (G : Nat → Nat → Prop) (sc : Array (Array Nat)) : Prop :=
  sc.size = n ∧ (∀ v, v < n → (sc.getD v #[]).size = 4) ∧
    ∀ v j : Nat, 0 < (sc.getD v #[]).getD j 0 → G v j

/-- row `u` after `addScore sc v j s`. -/
theorem getD_addScore_rm (sc : Array (Array Nat)) (v j s u : Nat) :
    (addScore sc v j s).getD u #[] =
      if u = v then (sc.getD v #[]).setIfInBounds j ((sc.getD v #[]).getD j 0 + s)
      else sc.getD u #[] := by
  unfold addScore
  by_cases huv : u = v
  · subst huv
    by_cases h : u < sc.size
    · simp [getD_setIfInBounds_self _ _ _ _ h]
    · rw [getD_setIfInBounds_oob _ _ _ _ _ (by omega)]
      have : sc.getD u #[] = #[] := by simp [Array.getD, h]
      simp [this]
  · rw [getD_setIfInBounds_ne _ _ _ _ _ (Ne.symm huv)]
    simp [huv]

theorem scoreInv_addScore {n : Nat} {G : Nat → Nat → Prop} {sc : Array (Array Nat)}
    (cur c s : Nat) (h : ScoreInv n G sc) (hg : G cur c) : ScoreInv n G (addScore sc cur c s) := by
  obtain ⟨h1, h2, h3⟩ := h
  refine ⟨by simpa [addScore] using h1, fun v hv => ?_, fun v j hp => ?_⟩
  · rw [getD_addScore_rm]
    split
    · next he => subst he; simpa using h2 v hv
    · exact h2 v hv
  · rw [getD_addScore_rm] at hp
    by_cases hvc : v = cur
    · subst hvc
      by_cases hjc : j = c
      · subst hjc; exact hg
      · rw [if_pos rfl, getD_setIfInBounds_ne _ _ _ _ _ (Ne.symm hjc)] at hp
        exact h3 v j hp
    · rw [if_neg hvc] at hp
      exact h3 v j hp

theorem scoreInv_init (k : Nat) (G : Nat → Nat → Prop) :
    ScoreInv (4 ^ k) G (Array.replicate (4 ^ k) (Array.replicate 4 0)) := by
  refine ⟨by simp, fun v hv => ?_, fun v j hp => ?_⟩
  · simp [Array.getD, hv]
  · exfalso
    by_cases hv : v < 4 ^ k
    · by_cases hj : j < 4
      · simp [Array.getD, hv, hj] at hp
      · simp [Array.getD, hv, hj] at hp
    · simp [Array.getD, hv] at hp

theorem mem_pairsBelow_rm {n : Nat} {ij : Nat × Nat} (h : ij ∈ pairsBelow n) : ij.1 < n ∧ ij.2 < n := by
  simp only [pairsBelow, List.mem_flatMap, List.mem_map, List.mem_filter, List.mem_range] at h
  obtain ⟨i, hi, j, ⟨hj, _⟩, rfl⟩ := h
  exact ⟨hi, hj⟩

theorem getD_mem_of_lt_rm {α} (l : List α) (i : Nat) (d : α) (h : i < l.length) : l.getD i d ∈ l := by
  simp [List.getD, h]

theorem scoreInv_calc (k : Nat) (m : LMap) (ins del : Bool) (G : Nat → Nat → Prop)
    (hm : ∀ p ∈ m, ∀ w ∈ p.2, G p.1 (w % 4)) :
    ScoreInv (4 ^ k) G (calculateIntersectionScore m k ins del) := by
  unfold calculateIntersectionScore
  refine foldl_invariant (ScoreInv (4 ^ k) G) _ _ ?_ _ (scoreInv_init k G)
  intro sc p hp hsc
  have hG : ∀ w ∈ p.2, G p.1 (w % 4) := hm p hp
  dsimp only
  have h1 : ScoreInv (4 ^ k) G ((pairsBelow (p.2.map fun w => leafMap m (k - 1) [w]).length).foldl (fun sc ij =>
        let s := unionCount ((p.2.map fun w => leafMap m (k - 1) [w]).getD ij.1 [])
          ((p.2.map fun w => leafMap m (k - 1) [w]).getD ij.2 [])
        addScore (addScore sc p.1 (p.2.getD ij.1 0 % 4) s) p.1 (p.2.getD ij.2 0 % 4) s) sc) := by
    refine foldl_invariant (ScoreInv (4 ^ k) G) _ _ ?_ _ hsc
    intro s ij hij hs
    have := mem_pairsBelow_rm hij
    rw [List.length_map] at this
    exact scoreInv_addScore _ _ _ (scoreInv_addScore _ _ _ hs (hG _ (getD_mem_of_lt_rm _ _ _ this.1)))
      (hG _ (getD_mem_of_lt_rm _ _ _ this.2))
  have h2 : ∀ sc0, ScoreInv (4 ^ k) G sc0 → ScoreInv (4 ^ k) G (if ins = true then
        p.2.zipIdx.foldl (fun sc fi =>
          match m.get? fi.1 with
          | none => sc
          | some ls => ls.foldl (fun sc w =>
              addScore sc p.1 (fi.1 % 4) (unionCount ((p.2.map fun w => leafMap m (k - 1) [w]).getD fi.2 []) (leafMap m (k - 1) [w]))) sc) sc0
      else sc0) := by
    intro sc0 h0
    split
    · refine foldl_invariant (ScoreInv (4 ^ k) G) _ _ ?_ _ h0
      intro s fi hfi hs
      split
      · exact hs
      · refine foldl_invariant (ScoreInv (4 ^ k) G) _ _ ?_ _ hs
        intro s' w _ hs'
        exact scoreInv_addScore _ _ _ hs' (hG _ (List.fst_mem_of_mem_zipIdx hfi))
    · exact h0
  split
  · refine foldl_invariant (ScoreInv (4 ^ k) G) _ _ ?_ _ (h2 _ h1)
    intro s fi hfi hs
    exact scoreInv_addScore _ _ _ hs (hG _ (List.fst_mem_of_mem_zipIdx hfi))
  · exact h2 _ h1

/-! ## de Bruijn sub-tables and their latter maps -/

theorem mod4_shift_rm (k v j : Nat) (hk : 1 ≤ k) (hj : j < 4) : (v * 4 + j) % 4 ^ k % 4 = j := by
  obtain ⟨k', rfl⟩ : ∃ k', k = k' + 1 := ⟨k - 1, by omega⟩
  rw [four_pow_succ, shift_mod _ _ _ hj]
  omega

theorem mem_live_rm (a : Acc) (v : Int) (j : Nat) : j ∈ a.live v ↔ j < 4 ∧ 0 ≤ a.ent v j := by
  simp [Acc.live]

theorem live_nodup_rm (a : Acc) (v : Int) : (a.live v).Nodup := by
  unfold Acc.live
  exact List.Pairwise.filter _ List.nodup_range

theorem mem_obtainVertices_lt_rm {a : Acc} {v : Nat} (h : v ∈ obtainVertices a) : v < a.size := by
  simp only [obtainVertices, List.mem_filter, List.mem_range] at h
  exact h.1

/-- a live entry of a de Bruijn sub-table sits in the column of its last digit. -/
theorem ent_of_mem_live_rm {k : Nat} {a : Acc} {v j : Nat} (hk : 1 ≤ k) (h : WFdB k a) (hv : v < 4 ^ k)
    (hj : j ∈ a.live (v : Int)) :
    a.ent (v : Int) j = (((v * 4 + j) % 4 ^ k : Nat) : Int) ∧ (a.ent (v : Int) j).toNat % 4 = j := by
  rw [mem_live_rm] at hj
  have := (h.2 v hv).2 j hj.1
  rcases this with h1 | h1
  · omega
  · refine ⟨h1, ?_⟩
    rw [h1, Int.toNat_natCast, mod4_shift_rm k v j hk hj.1]

theorem mem_liveEntries_rm {k : Nat} {a : Acc} {v w : Nat} (hk : 1 ≤ k) (h : WFdB k a) (hv : v < 4 ^ k)
    (hw : w ∈ a.liveEntries (v : Int)) :
    w % 4 ∈ a.live (v : Int) ∧ a.ent (v : Int) (w % 4) = (w : Int) := by
  simp only [Acc.liveEntries, List.mem_map] at hw
  obtain ⟨j, hj, rfl⟩ := hw
  have := ent_of_mem_live_rm hk h hv hj
  rw [this.2]
  refine ⟨hj, ?_⟩
  have := this.1; omega

theorem latterMap_good {k : Nat} {a : Acc} (hk : 1 ≤ k) (h : WFdB k a) :
    ∀ p ∈ accessorToLatterMap a, ∀ w ∈ p.2, 0 ≤ a.ent (p.1 : Int) (w % 4) := by
  intro p hp w hw
  simp only [accessorToLatterMap, List.mem_map] at hp
  obtain ⟨v, hv, rfl⟩ := hp
  have hv' : v < 4 ^ k := by rw [← h.1]; exact mem_obtainVertices_lt_rm hv
  rw [(mem_liveEntries_rm hk h hv' hw).2]
  omega

/-- `get?` on a map built from a key list. -/
theorem get?_map_keys_rm (l : List Nat) (f : Nat → List Nat) (x : Nat) :
    LMap.get? (l.map fun v => (v, f v)) x = if x ∈ l then some (f x) else none := by
  unfold LMap.get?
  induction l with
  | nil => simp
  | cons y ys ih =>
    simp only [List.map_cons, List.find?_cons]
    by_cases hyx : y = x
    · subst hyx; simp
    · have : (y == x) = false := by simpa using hyx
      simp only [this]
      rw [ih]
      have : x ≠ y := Ne.symm hyx
      simp [this]

theorem getD_eq_getElem_of_lt_rm {α} (r : Array α) (i : Nat) (d : α) (hi : i < r.size) :
    r.getD i d = r[i] := by
  simp [Array.getD, hi]

/-- a row has an entry different from `-1` iff it has a live column. -/
theorem hasArc_iff_rm {k : Nat} {a : Acc} {v : Nat} (h : WFdB k a) (hv : v < 4 ^ k) :
    (a.getD v #[]).any (fun e => e + 1 != 0) = true ↔ a.live (v : Int) ≠ [] := by
  have hsz := (h.2 v hv).1
  rw [Array.any_eq_true]
  constructor
  · rintro ⟨i, hi, hne⟩
    have hi4 : i < 4 := by omega
    have hent : a.ent (v : Int) i = (a.getD v #[])[i] := by
      rw [Acc.ent_natCast]; exact getD_eq_getElem_of_lt_rm _ _ _ hi
    have hc := (h.2 v hv).2 i hi4
    have : (a.getD v #[])[i] + 1 ≠ 0 := by simpa using hne
    have hmem : i ∈ a.live (v : Int) := by
      rw [mem_live_rm]; refine ⟨hi4, ?_⟩; omega
    intro hnil; rw [hnil] at hmem; cases hmem
  · intro hne
    obtain ⟨j, hj⟩ := List.exists_mem_of_ne_nil _ hne
    rw [mem_live_rm] at hj
    have hi : j < (a.getD v #[]).size := by omega
    refine ⟨j, hi, ?_⟩
    have hent : a.ent (v : Int) j = (a.getD v #[])[j] := by
      rw [Acc.ent_natCast]; exact getD_eq_getElem_of_lt_rm _ _ _ hi
    have : (a.getD v #[])[j] + 1 ≠ 0 := by omega
    simpa using this

/-! ## maxima -/

theorem foldl_max_ge_init_rm (l : List Nat) (i : Nat) : i ≤ l.foldl max i := by
  induction l generalizing i with
  | nil => exact Nat.le_refl _
  | cons x xs ih => exact Nat.le_trans (Nat.le_max_left i x) (ih _)

theorem foldl_max_ge_mem_rm (l : List Nat) (i x : Nat) (h : x ∈ l) : x ≤ l.foldl max i := by
  induction l generalizing i with
  | nil => cases h
  | cons y ys ih =>
    rcases List.mem_cons.1 h with rfl | h
    · exact Nat.le_trans (Nat.le_max_right i x) (foldl_max_ge_init_rm _ _)
    · exact ih _ h

theorem foldl_max_le_rm (l : List Nat) (i b : Nat) (hi : i ≤ b) (h : ∀ x ∈ l, x ≤ b) :
    l.foldl max i ≤ b := by
  induction l generalizing i with
  | nil => exact hi
  | cons y ys ih =>
    exact ih _ (Nat.max_le.2 ⟨hi, h y (by simp)⟩) (fun x hx => h x (by simp [hx]))

/-- the running maximum over all rows dominates the start value. -/
theorem foldl2_max_ge_init_rm (ls : List (Array Nat)) (i : Nat) :
    i ≤ ls.foldl (fun x r => r.foldl max x) i := by
  induction ls generalizing i with
  | nil => exact Nat.le_refl _
  | cons r rs ih =>
    rw [List.foldl_cons]
    refine Nat.le_trans ?_ (ih _)
    rw [← Array.foldl_toList]; exact foldl_max_ge_init_rm _ _

theorem foldl2_max_ge_mem_rm (ls : List (Array Nat)) (i : Nat) (r : Array Nat) (x : Nat)
    (hr : r ∈ ls) (hx : x ∈ r.toList) : x ≤ ls.foldl (fun x r => r.foldl max x) i := by
  induction ls generalizing i with
  | nil => cases hr
  | cons r' rs ih =>
    rcases List.mem_cons.1 hr with rfl | hr
    · rw [List.foldl_cons]
      refine Nat.le_trans ?_ (foldl2_max_ge_init_rm _ _)
      rw [← Array.foldl_toList]; exact foldl_max_ge_mem_rm _ _ _ hx
    · rw [List.foldl_cons]; exact ih _ hr

/-- global maximum of a score table dominates every cell. -/
theorem globalMax_ge_rm (sc : Array (Array Nat)) (v j : Nat) :
    (sc.getD v #[]).getD j 0 ≤ sc.foldl (fun x r => r.foldl max x) 0 := by
  by_cases hv : v < sc.size
  · by_cases hj : j < (sc.getD v #[]).size
    · rw [← Array.foldl_toList]
      apply foldl2_max_ge_mem_rm _ _ (sc.getD v #[])
      · have : sc.getD v #[] = sc[v] := by simp [Array.getD, hv]
        rw [this]; simp
      · have : ∀ (r : Array Nat) (hj : j < r.size), r.getD j 0 ∈ r.toList := by
          intro r hj; simp [Array.getD, hj]
        exact this _ hj
    · have : (sc.getD v #[]).getD j 0 = 0 := by
        generalize sc.getD v #[] = r at hj
        simp [Array.getD, hj]
      omega
  · have : (sc.getD v #[]).getD j 0 = 0 := by simp [Array.getD, hv]
    omega

/-- if a list contains an upper bound of itself, `argmax` points at it. -/
theorem argmax_spec_rm (l : List Nat) (mx : Nat) (hmem : mx ∈ l) (hle : ∀ x ∈ l, x ≤ mx) :
    argmax l < l.length ∧ l.getD (argmax l) 0 = mx := by
  have hmax : l.foldl max 0 = mx :=
    Nat.le_antisymm (foldl_max_le_rm l 0 mx (Nat.zero_le _) hle) (foldl_max_ge_mem_rm l 0 mx hmem)
  unfold argmax
  rw [hmax]
  have hlt : l.idxOf mx < l.length := List.idxOf_lt_length_of_mem hmem
  refine ⟨hlt, ?_⟩
  simp [List.getD, hlt]

/-! ## erasing one element of a mapped list -/

theorem eraseIdx_idxOf_map_rm (f : Nat → Nat) (l : List Nat) (x : Nat) (hx : x ∈ l) (hnd : l.Nodup)
    (hinj : ∀ y ∈ l, f y = f x → y = x) :
    (l.map f).eraseIdx ((l.map f).idxOf (f x)) = (l.filter (· != x)).map f := by
  induction l with
  | nil => cases hx
  | cons y ys ih =>
    rw [List.nodup_cons] at hnd
    by_cases hyx : y = x
    · subst hyx
      have : ys.filter (· != y) = ys := by
        rw [List.filter_eq_self]
        intro z hz
        have : z ≠ y := fun e => hnd.1 (e ▸ hz)
        simpa using this
      simp [this]
    · have hx' : x ∈ ys := by
        rcases List.mem_cons.1 hx with e | e
        · exact absurd e.symm hyx
        · exact e
      have hf : f y ≠ f x := fun e => hyx (hinj y (by simp) e)
      have hb : (f y == f x) = false := by simpa using hf
      have hb' : (y != x) = true := by simpa using hyx
      simp only [List.map_cons, List.idxOf_cons, hb, cond_false, List.eraseIdx_cons_succ,
        List.filter_cons, hb', if_true]
      rw [ih hx' hnd.2 (fun z hz => hinj z (by simp [hz]))]

/-! ## `setEnt … (-1)` on the live columns -/

theorem live_setEnt_ne_rm (a : Acc) (v j u : Nat) (x : Int) (h : u ≠ v) :
    (a.setEnt v j x).live (u : Int) = a.live (u : Int) := by
  unfold Acc.live
  apply List.filter_congr
  intro i _
  rw [Acc.ent_setEnt_ne _ _ _ _ _ _ (Or.inl h)]

theorem liveEntries_setEnt_ne_rm (a : Acc) (v j u : Nat) (x : Int) (h : u ≠ v) :
    (a.setEnt v j x).liveEntries (u : Int) = a.liveEntries (u : Int) := by
  unfold Acc.liveEntries
  rw [live_setEnt_ne_rm _ _ _ _ _ h]
  apply List.map_congr_left
  intro i _
  rw [Acc.ent_setEnt_ne _ _ _ _ _ _ (Or.inl h)]

theorem live_setEnt_self_rm (a : Acc) (v j : Nat) (hj : j < (a.getD v #[]).size) :
    (a.setEnt v j (-1)).live (v : Int) = (a.live (v : Int)).filter (· != j) := by
  unfold Acc.live
  rw [List.filter_filter]
  apply List.filter_congr
  intro i _
  by_cases hij : i = j
  · subst hij
    rw [Acc.ent_setEnt_self _ _ _ _ hj]
    simp
  · rw [Acc.ent_setEnt_ne _ _ _ _ _ _ (Or.inr hij)]
    simp [hij]

theorem liveEntries_setEnt_self_rm (a : Acc) (v j : Nat) (hj : j < (a.getD v #[]).size) :
    (a.setEnt v j (-1)).liveEntries (v : Int) =
      ((a.live (v : Int)).filter (· != j)).map fun i => (a.ent (v : Int) i).toNat := by
  unfold Acc.liveEntries
  rw [live_setEnt_self_rm _ _ _ hj]
  apply List.map_congr_left
  intro i hi
  have : i ≠ j := by
    have := (List.mem_filter.1 hi).2
    simpa using this
  rw [Acc.ent_setEnt_ne _ _ _ _ _ _ (Or.inr this)]

/-! ## list plumbing -/

theorem map_filter_filterMap_rm {α β γ} (l : List α) (p : α → Bool) (g : α → β) (h : β → Option γ) :
    ((l.filter p).map g).filterMap h = l.filterMap (fun v => if p v then h (g v) else none) := by
  induction l with
  | nil => rfl
  | cons x xs ih =>
    by_cases hp : p x = true
    · simp [hp, List.filterMap_cons, ih]
    · simp [hp, ih]

theorem map_filter_eq_filterMap'_rm {α β} (l : List α) (p : α → Bool) (g : α → β) :
    (l.filter p).map g = l.filterMap (fun v => if p v then some (g v) else none) := by
  have := map_filter_filterMap_rm l p g some
  rwa [List.filterMap_some] at this

theorem sum_map_range_update_rm (f g : Nat → Nat) (n i : Nat) (hi : i < n)
    (hne : ∀ v, v ≠ i → g v = f v) (hi' : g i + 1 = f i) :
    ((List.range n).map g).sum + 1 = ((List.range n).map f).sum := by
  induction n with
  | zero => omega
  | succ n ih =>
    rw [List.range_succ, List.map_append, List.map_append, List.sum_append, List.sum_append]
    simp only [List.map_cons, List.map_nil, List.sum_cons, List.sum_nil, Nat.add_zero]
    by_cases hin : i = n
    · subst hin
      have : (List.range i).map g = (List.range i).map f := by
        apply List.map_congr_left
        intro v hv
        exact hne v (by have := List.mem_range.1 hv; omega)
      rw [this]; omega
    · have := ih (by omega)
      rw [hne n (Ne.symm hin)]; omega

/-! ## one removal -/

theorem filterMap_congr_mem_rm {α β} (l : List α) (f g : α → Option β) (h : ∀ x ∈ l, f x = g x) :
    l.filterMap f = l.filterMap g := by
  induction l with
  | nil => rfl
  | cons x xs ih =>
    rw [List.filterMap_cons, List.filterMap_cons, h x (by simp), ih (fun y hy => h y (by simp [hy]))]

theorem length_filter_ne_rm (l : List Nat) (x : Nat) (hx : x ∈ l) (hnd : l.Nodup) :
    (l.filter (· != x)).length + 1 = l.length := by
  induction l with
  | nil => cases hx
  | cons y ys ih =>
    rw [List.nodup_cons] at hnd
    by_cases hyx : y = x
    · subst hyx
      have : ys.filter (· != y) = ys := by
        rw [List.filter_eq_self]
        intro z hz
        have : z ≠ y := fun e => hnd.1 (e ▸ hz)
        simpa using this
      simp [this]
    · have hx' : x ∈ ys := by
        rcases List.mem_cons.1 hx with e | e
        · exact absurd e.symm hyx
        · exact e
      have hb' : (y != x) = true := by simpa using hyx
      simp only [List.filter_cons, hb', if_true, List.length_cons]
      rw [ih hx' hnd.2]

/-- removing a live arc from the accessor is `erase1` on the latter map. -/
theorem latterMap_setEnt_erase {k : Nat} {a : Acc} {v j : Nat} (hk : 1 ≤ k) (h : WFdB k a)
    (hv : v < 4 ^ k) (hj : j ∈ a.live (v : Int)) :
    accessorToLatterMap (a.setEnt v j (-1)) =
      (accessorToLatterMap a).erase1 v (a.ent (v : Int) j).toNat := by
  have h' : WFdB k (a.setEnt v j (-1)) := wfdb_setEnt k a v j (-1) h (Or.inl rfl)
  unfold accessorToLatterMap LMap.erase1 obtainVertices
  rw [map_filter_filterMap_rm, map_filter_eq_filterMap'_rm, Acc.size_setEnt]
  apply filterMap_congr_mem_rm
  intro u hu
  have hu : u < 4 ^ k := by rw [← h.1]; exact List.mem_range.1 hu
  dsimp only
  by_cases huv : u = v
  · subst huv
    have hrow : j < (a.getD u #[]).size := by
      rw [(h.2 u hu).1]; exact ((mem_live_rm _ _ _).1 hj).1
    have hne : a.live (u : Int) ≠ [] := fun e => by rw [e] at hj; cases hj
    have hL : (a.setEnt u j (-1)).liveEntries (u : Int) =
        (a.liveEntries (u : Int)).eraseIdx ((a.liveEntries (u : Int)).idxOf (a.ent (u : Int) j).toNat) := by
      rw [liveEntries_setEnt_self_rm _ _ _ hrow]
      unfold Acc.liveEntries
      rw [eraseIdx_idxOf_map_rm (fun i => (a.ent (u : Int) i).toNat) _ j hj (live_nodup_rm _ _)]
      intro y hy hyj
      have h1 := (ent_of_mem_live_rm hk h hu hy).2
      have h2 := (ent_of_mem_live_rm hk h hu hj).2
      omega
    rw [if_pos ((hasArc_iff_rm h hu).2 hne), if_pos rfl, ← hL]
    by_cases he : (a.setEnt u j (-1)).live (u : Int) = []
    · have hn : ¬ ((a.setEnt u j (-1)).getD u #[]).any (fun e => e + 1 != 0) = true :=
        fun hc => (hasArc_iff_rm h' hu).1 hc he
      have he' : (a.setEnt u j (-1)).liveEntries (u : Int) = [] := by
        unfold Acc.liveEntries; rw [he]; rfl
      rw [if_neg hn, he']; rfl
    · have he' : ¬ ((a.setEnt u j (-1)).liveEntries (u : Int)).isEmpty = true := by
        unfold Acc.liveEntries
        simpa using he
      rw [if_pos ((hasArc_iff_rm h' hu).2 he), if_neg he']
  · rw [Acc.getD_setEnt, if_neg huv, liveEntries_setEnt_ne_rm _ _ _ _ _ huv]
    simp [huv]

/-- removing a live arc lowers the arc count by one. -/
theorem arcCount_setEnt {k : Nat} {a : Acc} {v j : Nat} (h : WFdB k a)
    (hv : v < 4 ^ k) (hj : j ∈ a.live (v : Int)) :
    ((List.range (a.setEnt v j (-1)).size).map fun (u : Nat) =>
        ((a.setEnt v j (-1)).live (u : Int)).length).sum + 1 =
      ((List.range a.size).map fun (u : Nat) => (a.live (u : Int)).length).sum := by
  rw [Acc.size_setEnt]
  apply sum_map_range_update_rm _ _ _ v (by rw [h.1]; exact hv)
  · intro u hu
    rw [live_setEnt_ne_rm _ _ _ _ _ hu]
  · have hrow : j < (a.getD v #[]).size := by
      rw [(h.2 v hv).1]; exact ((mem_live_rm _ _ _).1 hj).1
    rw [live_setEnt_self_rm _ _ _ hrow]
    exact length_filter_ne_rm _ _ hj (live_nodup_rm _ _)

theorem toList_getD_eq_rm {α} (r : Array α) (i : Nat) (d : α) : r.toList.getD i d = r.getD i d := by
  by_cases h : i < r.size <;> simp [List.getD, Array.getD, h]

theorem removeNastyArc_ok {k : Nat} {a : Acc} {ins del : Bool} {r : RemoveResult} (hk : 1 ≤ k)
    (h : WFdB k a) (hr : removeNastyArc a (accessorToLatterMap a) ins del = .ok r) :
    r.former < 4 ^ k ∧ ∃ j, j ∈ a.live (r.former : Int) ∧ a.ent (r.former : Int) j = (r.latter : Int) ∧
      r.acc = a.setEnt r.former j (-1) ∧
      r.lmap = (accessorToLatterMap a).erase1 r.former r.latter ∧
      ∀ v j' : Nat,
        ((calculateIntersectionScore (accessorToLatterMap a) k ins del).getD v #[]).getD j' 0 ≤
        ((calculateIntersectionScore (accessorToLatterMap a) k ins del).getD r.former #[]).getD j 0 := by
  unfold removeNastyArc at hr
  simp only [h.1, log4_four_pow] at hr
  generalize hsc : calculateIntersectionScore (accessorToLatterMap a) k ins del = sc at hr ⊢
  split at hr
  · cases hr
  · next former tl heq =>
    split at hr
    · cases hr
    · next ls hls =>
      split at hr
      · next hcont =>
        split at hr
        · cases hr
        cases hr
        dsimp only
        -- the chosen vertex
        have hmemF := heq ▸ (List.mem_cons_self (a := former) (l := tl))
        rw [List.mem_filter] at hmemF
        obtain ⟨hfv, hfr⟩ := hmemF
        have hfr' := List.mem_filter.1 (List.contains_iff_mem.1 hfr)
        have hflt : former < 4 ^ k := by rw [← h.1]; exact mem_obtainVertices_lt_rm hfv
        -- shape of the scores
        have hinv := scoreInv_calc k (accessorToLatterMap a) ins del
          (fun v j => 0 ≤ a.ent (v : Int) j) (latterMap_good hk h)
        rw [hsc] at hinv
        have hrow4 : (sc.getD former #[]).size = 4 := hinv.2.1 former hflt
        -- the row contains the global maximum, which bounds it
        obtain ⟨i, hi, hieq⟩ := Array.any_eq_true.1 hfr'.2
        have hmxmem : Array.foldl (fun x r => Array.foldl max x r) 0 sc ∈ (sc.getD former #[]).toList := by
          have : (sc.getD former #[])[i] = Array.foldl (fun x r => Array.foldl max x r) 0 sc := by
            simpa using hieq
          rw [← this]; simp
        have hle : ∀ x ∈ (sc.getD former #[]).toList,
            x ≤ Array.foldl (fun x r => Array.foldl max x r) 0 sc := by
          intro x hx
          obtain ⟨i', hi', rfl⟩ := List.mem_iff_getElem.1 hx
          have := globalMax_ge_rm sc former i'
          have h2 : (sc.getD former #[]).getD i' 0 = (sc.getD former #[]).toList[i'] := by
            rw [getD_eq_getElem_of_lt_rm _ _ _ (by simpa using hi')]; simp
          rw [← h2]; exact this
        obtain ⟨hlv, hlvmx⟩ := argmax_spec_rm _ _ hmxmem hle
        generalize argmax (sc.getD former #[]).toList = lv at *
        have hlv4 : lv < 4 := by rw [Array.length_toList, hrow4] at hlv; exact hlv
        have hcell : (sc.getD former #[]).getD lv 0 = Array.foldl (fun x r => Array.foldl max x r) 0 sc := by
          rw [← hlvmx, toList_getD_eq_rm]
        -- the latter map
        unfold accessorToLatterMap at hls
        rw [get?_map_keys_rm, if_pos hfv] at hls
        cases hls
        have hmemL := mem_liveEntries_rm hk h hflt (List.contains_iff_mem.1 hcont)
        rw [mod4_shift_rm k former lv hk hlv4] at hmemL
        refine ⟨hflt, lv, hmemL.1, hmemL.2, rfl, rfl, fun v j' => ?_⟩
        rw [hcell]; exact globalMax_ge_rm sc v j'
      · cases hr

end Dsw
