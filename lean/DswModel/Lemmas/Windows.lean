import DswModel.Model.Spiderweb
import DswModel.Model.Biofilter
import DswModel.Lemmas.Defs
import DswModel.Lemmas.DeBruijn
import DswModel.Lemmas.Discover
import DswModel.Lemmas.Filter
import DswModel.Lemmas.Trim
/-!
# Helper lemmas for C02: synchronisation of walks with k-mer windows

Reusable results (all in namespace `Dsw.Windows`):
* `kmerOf_tail`, `kmerOf_shift` — the k-mer of the `j`-th shift successor of `v` is the k-mer of `v`
  without its first symbol, followed by the `j`-th nucleotide;
* `ArcsIn` — every arc of an accessor is an arc of the graph induced on a mask (the body of
  `SubGraphOf` of `Props/C02.lean`, which is definitionally the same proposition);
* `next_step` — one step of a walk in such an accessor is a shift step between marked vertices;
* `walk_sync` — the synchronisation lemma: the vertex reached after a walk `s` from `v` is a marked
  vertex whose k-mer is the last `k` symbols of `kmerOf k v ++ s`;
* `walk_windows` — every k-window of `kmerOf k v ++ s` is the k-mer of a marked vertex;
* `findVertices_getD` — the mask returned by `find_vertices` marks `u` iff `P (kmerOf k u)`;
* `arcsIn_induced` — the induced accessor of a sub-mask has all its arcs in the mask.
-/
namespace Dsw.Windows

/-! ## k-mers of shift successors -/

theorem kmerOf_ne_nil (k v : Nat) (hk : 1 ≤ k) (hv : v < 4 ^ k) : kmerOf k v ≠ [] := by
  intro h
  have := kmerOf_length k v hv
  rw [h] at this
  simp at this
  omega

/-- dropping the leading symbol of a k-mer drops the leading base-4 digit of its index. -/
theorem kmerOf_tail (k v : Nat) (hv : v < 4 ^ (k + 1)) :
    (kmerOf (k + 1) v).tail = kmerOf k (v % 4 ^ k) := by
  have hl := kmerOf_length (k + 1) v hv
  have hac := kmerOf_acgt (k + 1) v hv
  have ht : IsAcgt (kmerOf (k + 1) v).tail := fun c hc => hac c (List.mem_of_mem_tail hc)
  have h := kmerOf_kmerIdx _ ht
  rw [kmerIdx_tail_kmerOf k v hv] at h
  have hlt : (kmerOf (k + 1) v).tail.length = k := by simp [hl]
  rw [hlt] at h
  exact h.symm

/-- the k-mer of the `j`-th shift successor. -/
theorem kmerOf_shift (k v j : Nat) (hk : 1 ≤ k) (hv : v < 4 ^ k) (hj : j < 4) :
    kmerOf k ((v * 4 + j) % 4 ^ k) = (kmerOf k v).tail ++ [nucChar j] := by
  obtain ⟨k', rfl⟩ : ∃ k', k = k' + 1 := ⟨k - 1, by omega⟩
  rw [kmerOf_tail k' v hv, four_pow_succ, shift_mod _ _ _ hj]
  exact kmerOf_succ k' (v % 4 ^ k') j hj (Nat.mod_lt _ (four_pow_pos k'))

theorem shift_lt (k v j : Nat) : (v * 4 + j) % 4 ^ k < 4 ^ k := Nat.mod_lt _ (four_pow_pos k)

/-! ## walks of sub-graphs of a mask -/

/-- every arc of `a` is an arc of the graph induced on the mask `m`. -/
def ArcsIn (k : Nat) (a : Acc) (m : Mask) : Prop :=
  ∀ v j : Nat, v < 4 ^ k → j < 4 → 0 ≤ a.ent (v : Int) j →
    a.ent (v : Int) j = (((v * 4 + j) % 4 ^ k : Nat) : Int) ∧
    m.getD v false = true ∧ m.getD ((v * 4 + j) % 4 ^ k) false = true

/-- one step of a walk is a shift step between marked vertices. -/
theorem next_step {k : Nat} {a : Acc} {m : Mask} (ha : ArcsIn k a m) {v : Nat} (hv : v < 4 ^ k)
    {c : Char} {t : Int} (h : a.next (v : Int) c = some t) :
    ∃ j, nucIdx c = some j ∧ j < 4 ∧ a.ent (v : Int) j = t ∧
      t = (((v * 4 + j) % 4 ^ k : Nat) : Int) ∧
      m.getD v false = true ∧ m.getD ((v * 4 + j) % 4 ^ k) false = true := by
  unfold Acc.next at h
  cases hc : nucIdx c with
  | none => simp [hc] at h
  | some j =>
    simp only [hc] at h
    split at h
    · rename_i hge
      cases h
      have hj := nucIdx_lt hc
      obtain ⟨h1, h2, h3⟩ := ha v j hv hj hge
      exact ⟨j, rfl, hj, rfl, h1, h2, h3⟩
    · cases h

/-- the string read so far, shifted by one symbol. -/
theorem drop_succ_kmer (k v j : Nat) (hk : 1 ≤ k) (hv : v < 4 ^ k) (hj : j < 4) (s : List Char)
    (i : Nat) :
    (kmerOf k v ++ nucChar j :: s).drop (i + 1) = (kmerOf k ((v * 4 + j) % 4 ^ k) ++ s).drop i := by
  rw [kmerOf_shift k v j hk hv hj]
  have hne := kmerOf_ne_nil k v hk hv
  cases hkm : kmerOf k v with
  | nil => exact absurd hkm hne
  | cons x tl => simp

/-- **synchronisation**: the vertex reached after a walk `s` from `v` is a marked vertex below
`4^k` whose k-mer is the last `k` symbols of `kmerOf k v ++ s`. -/
theorem walk_sync {k : Nat} {a : Acc} {m : Mask} (hk : 1 ≤ k) (ha : ArcsIn k a m) :
    ∀ (s : List Char) (v : Nat), v < 4 ^ k → m.getD v false = true →
      isWalk a (v : Int) s = true →
      ∃ u, u < 4 ^ k ∧ m.getD u false = true ∧ walkEnd a (v : Int) s = (u : Int) ∧
        kmerOf k u = (kmerOf k v ++ s).drop s.length := by
  intro s
  induction s with
  | nil =>
    intro v hv hvm _
    exact ⟨v, hv, hvm, rfl, by simp⟩
  | cons c s ih =>
    intro v hv hvm hw
    rw [isWalk] at hw
    cases hn : a.next (v : Int) c with
    | none => simp [hn] at hw
    | some t =>
      simp only [hn] at hw
      obtain ⟨j, hc, hj, hent, ht, _, hm2⟩ := next_step ha hv hn
      subst ht
      obtain ⟨u, hu, hum, hend, hkm⟩ := ih _ (shift_lt k v j) hm2 hw
      refine ⟨u, hu, hum, ?_, ?_⟩
      · rw [walkEnd, hc, Option.getD_some, hent]
        exact hend
      · rw [hkm, List.length_cons, ← nucChar_nucIdx hc, drop_succ_kmer k v j hk hv hj]

/-- every k-window of `kmerOf k v ++ s` is the k-mer of a marked vertex (of `v` itself for the
window at 0, of the vertex reached after the first `i` symbols for the window at `i`). -/
theorem walk_windows {k : Nat} {a : Acc} {m : Mask} (hk : 1 ≤ k) (ha : ArcsIn k a m) :
    ∀ (s : List Char) (v : Nat), v < 4 ^ k → m.getD v false = true →
      isWalk a (v : Int) s = true →
      ∀ i, i + k ≤ (kmerOf k v ++ s).length →
        ∃ u, u < 4 ^ k ∧ m.getD u false = true ∧
          ((kmerOf k v ++ s).drop i).take k = kmerOf k u := by
  intro s
  induction s with
  | nil =>
    intro v hv hvm _ i hi
    have hl := kmerOf_length k v hv
    have : i = 0 := by simp [hl] at hi; omega
    subst this
    refine ⟨v, hv, hvm, ?_⟩
    rw [List.append_nil, List.drop_zero]
    exact List.take_of_length_le (by omega)
  | cons c s ih =>
    intro v hv hvm hw i hi
    have hl := kmerOf_length k v hv
    cases i with
    | zero =>
      refine ⟨v, hv, hvm, ?_⟩
      rw [List.drop_zero, List.take_append_of_le_length (by omega)]
      exact List.take_of_length_le (by omega)
    | succ i =>
      rw [isWalk] at hw
      cases hn : a.next (v : Int) c with
      | none => simp [hn] at hw
      | some t =>
        simp only [hn] at hw
        obtain ⟨j, hc, hj, _, ht, _, hm2⟩ := next_step ha hv hn
        subst ht
        have hl' := kmerOf_length k _ (shift_lt k v j)
        have hi' : i + k ≤ (kmerOf k ((v * 4 + j) % 4 ^ k) ++ s).length := by
          simp only [List.length_append, List.length_cons, hl, hl'] at hi ⊢
          omega
        obtain ⟨u, hu, hum, hwin⟩ := ih _ (shift_lt k v j) hm2 hw i hi'
        refine ⟨u, hu, hum, ?_⟩
        rw [← nucChar_nucIdx hc, drop_succ_kmer k v j hk hv hj]
        exact hwin

/-! ## generated graphs -/

/-- reading the mask returned by `find_vertices`. -/
theorem findVertices_getD {k : Nat} {P : List Char → Bool} {m : Mask}
    (hm : findVertices k P = .ok m) (u : Nat) (hu : u < 4 ^ k) :
    m.getD u false = P (kmerOf k u) := by
  rw [findVertices_eq] at hm
  split at hm
  · cases hm
  · cases hm
    exact filterMask_getD k P u hu

/-- the induced accessor of a sub-mask `s ⊆ m` has all its arcs in `m`. -/
theorem arcsIn_induced (k : Nat) (s m : Mask) (h : Trim.Mask.Le s m) :
    ArcsIn k (inducedAccessor k s) m := by
  intro v j hv hj hent
  rw [Trim.inducedAccessor_ent_trim k s v j hv hj] at hent ⊢
  split at hent
  · rename_i hc
    rw [if_pos hc]
    exact ⟨rfl, h _ hc.1, h _ hc.2⟩
  · omega

/-! ## windows of the strand alone -/

/-- a window of the strand is a window of `prefix ++ strand`. -/
theorem drop_append_window {α} (p s : List α) (i k : Nat) :
    ((p ++ s).drop (p.length + i)).take k = (s.drop i).take k := by
  rw [← List.drop_drop, List.drop_left]

/-- a strand shorter than the prefix length is a suffix of the last window. -/
theorem suffix_last_window {α} (p s : List α) (hs : s.length ≤ p.length) :
    s <:+: ((p ++ s).drop s.length).take p.length := by
  have h1 : ((p ++ s).drop s.length).length = p.length := by simp
  rw [← h1, List.take_length]
  have : s <:+ (p ++ s).drop s.length := by
    rw [List.suffix_iff_eq_drop]
    simp only [List.length_drop, List.length_append, List.drop_drop]
    have : s.length + (p.length + s.length - s.length - s.length) = p.length := by omega
    rw [this, List.drop_left]
  exact this.isInfix

end Dsw.Windows
