import DswModel.Model.CapacityF
import DswModel.Props.C17b
import DswModel.Props.FloatSpec
import DswModel.Lemmas.FloatErr
import DswModel.Lemmas.PowerStop
import DswModel.Lemmas.Power
/-!
# Helper lemmas for C17c (what the stopping rule certifies in double precision)

`allSome`, folds of `Dbl.maxD`, the floating-point row sum against the exact one, the shape of `capStepF` /
`maxDiffF`, and the rational arithmetic of the certificate.
-/
namespace Dsw.PowerStopF
open Dsw.FloatErr

/-! ## `allSome` -/

theorem allSome_eq_some {α} : ∀ (l : List (Option α)) (r : List α), allSome l = some r → l = r.map some
  | [], r, h => by
    simp only [allSome, Option.some.injEq] at h
    subst h; rfl
  | none :: l, r, h => by simp [allSome] at h
  | some x :: l, r, h => by
    simp only [allSome, Option.map_eq_some_iff] at h
    obtain ⟨r', h1, h2⟩ := h
    subst h2
    rw [allSome_eq_some l r' h1]
    rfl

theorem range_map_eq {α} {f : Nat → Option α} {n : Nat} {y : List α} (h : (List.range n).map f = y.map some) :
    y.length = n ∧ ∀ v, v < n → ∃ t, y[v]? = some t ∧ f v = some t := by
  have hlen : y.length = n := by
    have := congrArg List.length h
    simpa using this.symm
  refine ⟨hlen, fun v hv => ?_⟩
  have := congrArg (fun l => l[v]?) h
  simp only [List.getElem?_map, List.getElem?_range hv, Option.map_some] at this
  cases hy : y[v]? with
  | none => rw [hy] at this; simp at this
  | some t =>
    rw [hy] at this
    simp only [Option.map_some, Option.some.injEq] at this
    exact ⟨t, rfl, this⟩

theorem list_map_eq {α β} {g : α → Option β} {y : List α} {zl : List β} (h : y.map g = zl.map some) :
    zl.length = y.length ∧ ∀ (v : Nat) (t : α), y[v]? = some t → ∃ r, zl[v]? = some r ∧ g t = some r := by
  have hlen : zl.length = y.length := by
    have := congrArg List.length h
    simpa using this.symm
  refine ⟨hlen, fun v t hv => ?_⟩
  have := congrArg (fun l => l[v]?) h
  simp only [List.getElem?_map, hv, Option.map_some] at this
  cases hz : zl[v]? with
  | none => rw [hz] at this; simp at this
  | some r =>
    rw [hz] at this
    simp only [Option.map_some, Option.some.injEq] at this
    exact ⟨r, rfl, this⟩

theorem toArray_getD {α} (l : List α) (v : Nat) (r d : α) (h : l[v]? = some r) : l.toArray.getD v d = r := by
  have hv : v < l.length := by
    rcases Nat.lt_or_ge v l.length with h1 | h1
    · exact h1
    · rw [List.getElem?_eq_none h1] at h; cases h
  rw [List.getElem?_eq_getElem hv] at h
  simp only [Option.some.injEq] at h
  simp [Array.getD, hv, h]

/-! ## folds of `Dbl.maxD` -/

theorem maxD_cases (x y : Dbl) : Dbl.maxD x y = x ∨ Dbl.maxD x y = y := by
  unfold Dbl.maxD
  split
  · exact Or.inr rfl
  · exact Or.inl rfl

theorem maxD_ge (x y : Dbl) (hx : 0 < x.den) (hy : 0 < y.den) :
    val x ≤ val (Dbl.maxD x y) ∧ val y ≤ val (Dbl.maxD x y) := by
  unfold Dbl.maxD
  split
  · rename_i h
    have := (lt_iff x y hx hy).1 h
    exact ⟨le_of_lt this, le_refl _⟩
  · rename_i h
    have : ¬ val x < val y := fun hc => h ((lt_iff x y hx hy).2 hc)
    exact ⟨le_refl _, not_lt.1 this⟩

/-- a property of the start value and of all elements holds for the maximum. -/
theorem foldl_maxD_prop (P : Dbl → Prop) : ∀ (l : List Dbl) (s : Dbl), P s → (∀ t ∈ l, P t) → P (l.foldl Dbl.maxD s)
  | [], s, hs, _ => hs
  | t :: l, s, hs, hl => by
    rw [List.foldl_cons]
    apply foldl_maxD_prop P l
    · rcases maxD_cases s t with h | h
      · rw [h]; exact hs
      · rw [h]; exact hl t (by simp)
    · intro t' ht'; exact hl t' (by simp [ht'])

theorem foldl_maxD_ge : ∀ (l : List Dbl) (s : Dbl), 0 < s.den → (∀ t ∈ l, 0 < t.den) →
    val s ≤ val (l.foldl Dbl.maxD s) ∧ ∀ t ∈ l, val t ≤ val (l.foldl Dbl.maxD s)
  | [], s, _, _ => ⟨le_refl _, fun t ht => by simp at ht⟩
  | t :: l, s, hs, hl => by
    rw [List.foldl_cons]
    have ht := hl t (by simp)
    have hm : 0 < (Dbl.maxD s t).den := by
      rcases maxD_cases s t with h | h
      · rw [h]; exact hs
      · rw [h]; exact ht
    obtain ⟨h1, h2⟩ := foldl_maxD_ge l (Dbl.maxD s t) hm (fun t' ht' => hl t' (by simp [ht']))
    obtain ⟨g1, g2⟩ := maxD_ge s t hs ht
    refine ⟨le_trans g1 h1, fun t' ht' => ?_⟩
    rcases List.mem_cons.1 ht' with h | h
    · rw [h]; exact le_trans g2 h1
    · exact h2 t' h

/-! ## the floating-point row sum -/

theorem step_upper (s X S β γ u η s' : Rat) (hu0 : 0 ≤ u) (hu1 : u ≤ 1) (hβ : 1 ≤ β) (hγ : 0 ≤ γ) (hX : 0 ≤ X)
    (h1 : s ≤ β * S + γ) (h2 : s' ≤ (s + X) * (1 + u) + η) : s' ≤ β * (1 + u) * (S + X) + (2 * γ + η) := by
  have ha : (s + X) * (1 + u) ≤ (β * S + γ + X) * (1 + u) := mul_le_mul_of_nonneg_right (by linarith) (by linarith)
  have hb : γ * u ≤ γ := mul_le_of_le_one_right hγ hu1
  have hc : 0 ≤ (β - 1) * X * (1 + u) := mul_nonneg (mul_nonneg (by linarith) hX) (by linarith)
  nlinarith

theorem step_lower (s X S α γ u η s' : Rat) (hu0 : 0 ≤ u) (hu1 : u ≤ 1) (hα : α ≤ 1) (hγ : 0 ≤ γ) (hX : 0 ≤ X)
    (h1 : α * S - γ ≤ s) (h2 : (s + X) * (1 - u) - η ≤ s') : α * (1 - u) * (S + X) - (2 * γ + η) ≤ s' := by
  have ha : (α * S - γ + X) * (1 - u) ≤ (s + X) * (1 - u) := mul_le_mul_of_nonneg_right (by linarith) (by linarith)
  have hb : 0 ≤ γ * u := mul_nonneg hγ hu0
  have hc : 0 ≤ (1 - α) * X * (1 - u) := mul_nonneg (mul_nonneg (by linarith) hX) (by linarith)
  nlinarith

/-- the fold of `rowSumF`. -/
def addStep (x : VecF) (s : Option Dbl) (w : Nat) : Option Dbl := s.bind fun s => Dbl.add s (x.getD w Dbl.zero)

theorem foldl_addStep_none (x : VecF) : ∀ l : List Nat, l.foldl (addStep x) none = none
  | [] => rfl
  | _ :: l => by rw [List.foldl_cons]; exact foldl_addStep_none x l

theorem rowFold (x : VecF) (u η : Rat) (hu0 : 0 ≤ u) (hu1 : u ≤ 1) (hη : 0 ≤ η)
    (herr : ∀ s t r : Dbl, 0 < s.den → 0 < t.den → Dbl.add s t = some r →
      |val r - (val s + val t)| ≤ u * |val s + val t| + η) :
    ∀ (l : List Nat) (s y : Dbl) (S α β γ : Rat),
      (∀ w ∈ l, 0 < (x.getD w Dbl.zero).den ∧ 0 ≤ (x.getD w Dbl.zero).num) →
      0 < s.den → 0 ≤ s.num → IsB64 s.num s.den → 0 ≤ S → 0 ≤ α → α ≤ 1 → 1 ≤ β → 0 ≤ γ →
      α * S - γ ≤ val s → val s ≤ β * S + γ →
      l.foldl (addStep x) (some s) = some y →
      α * (1 - u) ^ l.length * (S + (l.map fun w => val (x.getD w Dbl.zero)).sum)
          - (2 ^ l.length * γ + (2 ^ l.length - 1) * η) ≤ val y ∧
      val y ≤ β * (1 + u) ^ l.length * (S + (l.map fun w => val (x.getD w Dbl.zero)).sum)
          + (2 ^ l.length * γ + (2 ^ l.length - 1) * η) ∧
      IsB64 y.num y.den ∧ 0 ≤ y.num
  | [], s, y, S, α, β, γ, _, _, hs0, hsB, _, _, _, _, _, h1, h2, hf => by
    simp only [List.foldl_nil, Option.some.injEq] at hf
    subst hf
    simp only [List.length_nil, pow_zero, List.map_nil, List.sum_nil, add_zero, mul_one, one_mul, sub_self, zero_mul]
    exact ⟨h1, h2, hsB, hs0⟩
  | w :: l, s, y, S, α, β, γ, hl, hsd, hs0, hsB, hS, hα0, hα1, hβ, hγ, h1, h2, hf => by
    rw [List.foldl_cons] at hf
    obtain ⟨hwd, hw0⟩ := hl w (by simp)
    cases hadd : Dbl.add s (x.getD w Dbl.zero) with
    | none =>
      have : addStep x (some s) w = none := hadd
      rw [this, foldl_addStep_none] at hf
      cases hf
    | some s' =>
      have hst : addStep x (some s) w = some s' := hadd
      rw [hst] at hf
      have hX : 0 ≤ val (x.getD w Dbl.zero) := val_nonneg hw0
      have hsv : 0 ≤ val s := val_nonneg hs0
      have he := herr s _ s' hsd hwd hadd
      rw [abs_of_nonneg (show 0 ≤ val s + val (x.getD w Dbl.zero) by linarith), abs_le] at he
      have hs'B := add_isB64 s _ s' hsd hwd hadd
      have hs'0 := add_nonneg s _ s' hs0 hw0 hadd
      have hup := step_upper (val s) (val (x.getD w Dbl.zero)) S β γ u η (val s') hu0 hu1 hβ hγ hX h2
        (by nlinarith [he.2])
      have hlo := step_lower (val s) (val (x.getD w Dbl.zero)) S α γ u η (val s') hu0 hu1 hα1 hγ hX h1
        (by nlinarith [he.1])
      have ih := rowFold x u η hu0 hu1 hη herr l s' y (S + val (x.getD w Dbl.zero)) (α * (1 - u)) (β * (1 + u))
        (2 * γ + η) (fun w' hw' => hl w' (by simp [hw'])) hs'B.1 hs'0 hs'B (by linarith)
        (mul_nonneg hα0 (by linarith)) (by nlinarith) (by nlinarith) (by linarith) hlo hup hf
      obtain ⟨i1, i2, i3, i4⟩ := ih
      refine ⟨?_, ?_, i3, i4⟩
      · simp only [List.length_cons, List.map_cons, List.sum_cons, pow_succ]
        have e : α * ((1 - u) ^ l.length * (1 - u)) *
            (S + (val (x.getD w Dbl.zero) + (l.map fun w => val (x.getD w Dbl.zero)).sum)) -
            (2 ^ l.length * 2 * γ + (2 ^ l.length * 2 - 1) * η) =
            α * (1 - u) * (1 - u) ^ l.length *
              (S + val (x.getD w Dbl.zero) + (l.map fun w => val (x.getD w Dbl.zero)).sum) -
            (2 ^ l.length * (2 * γ + η) + (2 ^ l.length - 1) * η) := by ring
        rw [e]; exact i1
      · simp only [List.length_cons, List.map_cons, List.sum_cons, pow_succ]
        have e : β * ((1 + u) ^ l.length * (1 + u)) *
            (S + (val (x.getD w Dbl.zero) + (l.map fun w => val (x.getD w Dbl.zero)).sum)) +
            (2 ^ l.length * 2 * γ + (2 ^ l.length * 2 - 1) * η) =
            β * (1 + u) * (1 + u) ^ l.length *
              (S + val (x.getD w Dbl.zero) + (l.map fun w => val (x.getD w Dbl.zero)).sum) +
            (2 ^ l.length * (2 * γ + η) + (2 ^ l.length - 1) * η) := by ring
        rw [e]; exact i2

theorem pow3_up : (1 + (2 : Rat)⁻¹ ^ 53) ^ 3 ≤ 1 + (2 : Rat)⁻¹ ^ 51 := by norm_num

theorem pow3_lo : 1 - (2 : Rat)⁻¹ ^ 51 ≤ (1 - (2 : Rat)⁻¹ ^ 53) ^ 3 := by norm_num

theorem eta7 : 7 * (2 : Rat)⁻¹ ^ 1075 ≤ (2 : Rat)⁻¹ ^ 1070 := by
  have e : (2 : Rat)⁻¹ ^ 1075 = (2 : Rat)⁻¹ ^ 1070 * (2 : Rat)⁻¹ ^ 5 := by rw [← pow_add]
  have hp : (0 : Rat) < (2 : Rat)⁻¹ ^ 1070 := by positivity
  rw [e]
  generalize (2 : Rat)⁻¹ ^ 1070 = K at *
  have : (2 : Rat)⁻¹ ^ 5 = 1 / 32 := by norm_num
  rw [this]
  linarith

/-- `0.0 + x` is exact. -/
theorem zero_add_exact (x r : Dbl) (hB : IsB64 x.num x.den) (h : Dbl.add Dbl.zero x = some r) : val r = val x := by
  obtain ⟨r', h1, h2⟩ := roundDouble_of_isB64 x.num x.den hB
  have e : Dbl.add Dbl.zero x = roundDouble x.num x.den := by
    unfold Dbl.add Dbl.zero
    simp
  rw [e, h1] at h
  have hrr : r' = r := by cases h; rfl
  subst hrr
  have hrd := roundDouble_den_pos' h1
  have hxd := hB.1
  have hrq : (0 : Rat) < (r'.den : Rat) := by exact_mod_cast hrd
  have hxq : (0 : Rat) < (x.den : Rat) := by exact_mod_cast hxd
  have h2q : (r'.num : Rat) * (x.den : Rat) = (x.num : Rat) * (r'.den : Rat) := by exact_mod_cast h2
  unfold val
  rw [div_eq_div_iff (ne_of_gt hrq) (ne_of_gt hxq)]
  exact h2q

theorem map_val_getD (x : VecF) (w : Nat) : (x.map val).getD w 0 = val (x.getD w Dbl.zero) := by
  rcases Nat.lt_or_ge w x.size with h | h
  · simp [Array.getD, h]
  · have h' : ¬ w < x.size := by omega
    simp [Array.getD, h', val_zero]

theorem applyRow_eq (a : Acc) (x : VecF) (v : Nat) :
    applyRow a (x.map val) v = ((a.liveEntries (v : Int)).map fun w => val (x.getD w Dbl.zero)).sum := by
  unfold applyRow
  rw [PowerStop.foldl_add_eq_sum0]
  congr 1
  apply List.map_congr_left
  intro w _
  exact map_val_getD x w

theorem sum_nonneg' (l : List Nat) (f : Nat → Rat) (h : ∀ w ∈ l, 0 ≤ f w) : 0 ≤ (l.map f).sum := by
  induction l with
  | nil => simp
  | cons b l ih =>
    simp only [List.map_cons, List.sum_cons]
    exact add_nonneg (h b (by simp)) (ih fun w hw => h w (by simp [hw]))

/-- the floating-point row sum against the exact one. -/
theorem rowSum_bound (a : Acc) (x : VecF) (v : Nat) (y : Dbl)
    (hx : ∀ w, w < a.size → IsB64 (x.getD w Dbl.zero).num (x.getD w Dbl.zero).den ∧ 0 ≤ (x.getD w Dbl.zero).num)
    (ha : ∀ w ∈ a.liveEntries (v : Int), w < a.size)
    (hy : rowSumF a x v = some y) :
    applyRow a (x.map val) v * (1 - (2 : Rat)⁻¹ ^ 51) - (2 : Rat)⁻¹ ^ 1070 ≤ val y ∧
    val y ≤ applyRow a (x.map val) v * (1 + (2 : Rat)⁻¹ ^ 51) + (2 : Rat)⁻¹ ^ 1070 ∧
    IsB64 y.num y.den ∧ 0 ≤ y.num ∧ 0 ≤ applyRow a (x.map val) v := by
  have hl : ∀ w ∈ a.liveEntries (v : Int), 0 < (x.getD w Dbl.zero).den ∧ 0 ≤ (x.getD w Dbl.zero).num :=
    fun w hw => ⟨(hx w (ha w hw)).1.1, (hx w (ha w hw)).2⟩
  have hu0 : (0 : Rat) ≤ (2 : Rat)⁻¹ ^ 53 := by positivity
  have hu1 : (2 : Rat)⁻¹ ^ 53 ≤ 1 := by norm_num
  have hη : (0 : Rat) ≤ (2 : Rat)⁻¹ ^ 1075 := by positivity
  have hf : (a.liveEntries (v : Int)).foldl (addStep x) (some Dbl.zero) = some y := hy
  rw [applyRow_eq]
  have hT : 0 ≤ ((a.liveEntries (v : Int)).map fun w => val (x.getD w Dbl.zero)).sum :=
    sum_nonneg' _ _ fun w hw => val_nonneg (hl w hw).2
  have hn := Power.liveEntries_length_le a (v : Int)
  have hκ : (0 : Rat) ≤ (2 : Rat)⁻¹ ^ 1070 := by positivity
  cases hlist : a.liveEntries (v : Int) with
  | nil =>
    rw [hlist] at hf
    simp only [List.foldl_nil, Option.some.injEq] at hf
    subst hf
    simp only [List.map_nil, List.sum_nil, zero_mul, val_zero]
    generalize (2 : Rat)⁻¹ ^ 1070 = κ at *
    exact ⟨by linarith, by linarith, isB64_zero, le_refl _, le_refl _⟩
  | cons w l =>
    rw [hlist] at hf hl hn hT
    rw [List.foldl_cons] at hf
    obtain ⟨hwd, hw0⟩ := hl w (by simp)
    have hwB : IsB64 (x.getD w Dbl.zero).num (x.getD w Dbl.zero).den := (hx w (ha w (by rw [hlist]; simp))).1
    cases hadd : Dbl.add Dbl.zero (x.getD w Dbl.zero) with
    | none =>
      have : addStep x (some Dbl.zero) w = none := hadd
      rw [this, foldl_addStep_none] at hf
      cases hf
    | some s =>
      have hst : addStep x (some Dbl.zero) w = some s := hadd
      rw [hst] at hf
      have hsv := zero_add_exact _ s hwB hadd
      have hsB := add_isB64 _ _ s Nat.one_pos hwd hadd
      have hs0 := add_nonneg _ _ s (le_refl _) hw0 hadd
      have hX : 0 ≤ val (x.getD w Dbl.zero) := val_nonneg hw0
      obtain ⟨h1, h2, h3, h4⟩ := rowFold x ((2 : Rat)⁻¹ ^ 53) ((2 : Rat)⁻¹ ^ 1075) hu0 hu1 hη
        (fun s t r hs ht h => add_err s t r hs ht h) l s y (val (x.getD w Dbl.zero)) 1 1 0
        (fun w' hw' => hl w' (by simp [hw'])) hsB.1 hs0 hsB hX (by norm_num) (le_refl _) (le_refl _) (le_refl _)
        (by rw [hsv]; linarith) (by rw [hsv]; linarith) hf
      simp only [List.map_cons, List.sum_cons] at hT ⊢
      simp only [List.length_cons] at hn
      have hn3 : l.length ≤ 3 := by omega
      generalize (val (x.getD w Dbl.zero) + (l.map fun w => val (x.getD w Dbl.zero)).sum) = T at *
      generalize l.length = n at *
      simp only [one_mul, mul_zero, zero_add] at h1 h2
      have hp2 : (2 : Rat) ^ n ≤ 2 ^ 3 := pow_le_pow_right₀ (by norm_num) hn3
      have h7 : (2 : Rat) ^ n - 1 ≤ 7 := by norm_num at hp2 ⊢; linarith
      have hjunk : (2 ^ n - 1) * (2 : Rat)⁻¹ ^ 1075 ≤ (2 : Rat)⁻¹ ^ 1070 :=
        le_trans (mul_le_mul_of_nonneg_right h7 hη) eta7
      have hpow1 : (1 - (2 : Rat)⁻¹ ^ 53) ^ 3 ≤ (1 - (2 : Rat)⁻¹ ^ 53) ^ n :=
        pow_le_pow_of_le_one (by norm_num) (by norm_num) hn3
      have hpow2 : (1 + (2 : Rat)⁻¹ ^ 53) ^ n ≤ (1 + (2 : Rat)⁻¹ ^ 53) ^ 3 :=
        pow_le_pow_right₀ (by norm_num) hn3
      have g1 := mul_le_mul_of_nonneg_right (le_trans pow3_lo hpow1) hT
      have g2 := mul_le_mul_of_nonneg_right (le_trans hpow2 pow3_up) hT
      generalize (1 - (2 : Rat)⁻¹ ^ 53) ^ n = A at *
      generalize (1 + (2 : Rat)⁻¹ ^ 53) ^ n = B at *
      generalize (2 : Rat)⁻¹ ^ 1075 = η at *
      generalize (2 : Rat)⁻¹ ^ 1070 = κ at *
      generalize (2 : Rat)⁻¹ ^ 51 = ε at *
      refine ⟨?_, ?_, h3, h4, hT⟩
      · linarith
      · linarith

end Dsw.PowerStopF
