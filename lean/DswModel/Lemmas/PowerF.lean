import DswModel.Props.C17c
import DswModel.Props.C17
/-!
# Helper lemmas for C17d: bounds of the double-precision power iteration

`Le j x`: the double `x` lies in `[0, j]` (cross-multiplied). Rounding is monotone w.r.t. the integers `0 … 2^53`, so
sums of doubles of `[0, i]` and `[0, j]` lie in `[0, i + j]`, and the quotient of `0 ≤ t ≤ e` lies in `[0, 1]`; all
these operations are defined (no overflow).
-/
namespace Dsw.PowerF
open Dsw.FloatErr Dsw.PowerStopF

/-- the double lies in `[0, j]`. -/
def Le (j : Int) (x : Dbl) : Prop := 0 < x.den ∧ 0 ≤ x.num ∧ x.num ≤ j * x.den

theorem Le.mono {i j : Int} {x : Dbl} (h : Le i x) (hij : i ≤ j) : Le j x := by
  refine ⟨h.1, h.2.1, le_trans h.2.2 ?_⟩
  exact Int.mul_le_mul_of_nonneg_right hij (by omega)

theorem le_zero (j : Int) (hj : 0 ≤ j) : Le j Dbl.zero := by
  refine ⟨Nat.one_pos, le_refl _, ?_⟩
  show (0 : Int) ≤ j * ((1 : Nat) : Int)
  omega

/-- rounding a value of `[0, j]`, `j ≤ 2^53`: defined, and the result is in `[0, j]`. -/
theorem round_le (j : Int) (hj0 : 0 ≤ j) (hj : j ≤ 2 ^ 53) (num : Int) (den : Nat) (hden : 0 < den) (h0 : 0 ≤ num)
    (h1 : num ≤ j * den) : ∃ r, roundDouble num den = some r ∧ Le j r := by
  have hjd : j * (den : Int) ≤ 2 ^ 53 * (den : Int) := Int.mul_le_mul_of_nonneg_right hj (by omega)
  have hna : num.natAbs ≤ 2 ^ 53 * den := by
    have : ((num.natAbs : Nat) : Int) ≤ ((2 ^ 53 * den : Nat) : Int) := by
      rw [Int.natAbs_of_nonneg h0]
      push_cast
      omega
    exact_mod_cast this
  obtain ⟨r, hr⟩ := roundDouble_defined hden hna
  have hjn : j.natAbs ≤ 2 ^ 53 := by omega
  have g0 := roundDouble_ge_int 0 num den r hden (by decide) (by omega) hr
  have g1 := roundDouble_le_int j num den r hden hjn h1 hr
  exact ⟨r, hr, roundDouble_den_pos' hr, by omega, g1⟩

theorem add_le (i j : Int) (s t : Dbl) (hs : Le i s) (ht : Le j t) (hi : 0 ≤ i) (hj : 0 ≤ j) (hij : i + j ≤ 2 ^ 53) :
    ∃ r, Dbl.add s t = some r ∧ Le (i + j) r := by
  obtain ⟨hsd, hs0, hs1⟩ := hs
  obtain ⟨htd, ht0, ht1⟩ := ht
  unfold Dbl.add
  apply round_le (i + j) (by omega) hij _ _ (Nat.mul_pos hsd htd)
  · have h1 : 0 ≤ s.num * (t.den : Int) := Int.mul_nonneg hs0 (by omega)
    have h2 : 0 ≤ t.num * (s.den : Int) := Int.mul_nonneg ht0 (by omega)
    omega
  · have h1 : s.num * (t.den : Int) ≤ i * s.den * t.den := Int.mul_le_mul_of_nonneg_right hs1 (by omega)
    have h2 : t.num * (s.den : Int) ≤ j * t.den * s.den := Int.mul_le_mul_of_nonneg_right ht1 (by omega)
    have e : (i + j) * ((s.den * t.den : Nat) : Int) = i * s.den * t.den + j * t.den * s.den := by
      push_cast
      ring
    rw [e]
    omega

/-- `t / e` for `0 ≤ t ≤ e`, `0 < e`. -/
theorem div_le_one (t e : Dbl) (htd : 0 < t.den) (ht0 : 0 ≤ t.num) (hed : 0 < e.den) (he0 : 0 < e.num)
    (hle : t.num * e.den ≤ e.num * t.den) : ∃ r, Dbl.div t e = some r ∧ Le 1 r := by
  unfold Dbl.div
  have h0 : ¬ e.num = 0 := by omega
  have h1 : e.num > 0 := he0
  simp only [h0, h1, if_true, if_false]
  apply round_le 1 (by omega) (by norm_num) _ _ (Nat.mul_pos htd (by omega))
  · exact Int.mul_nonneg ht0 (by omega)
  · have e1 : ((t.den * e.num.toNat : Nat) : Int) = e.num * t.den := by
      push_cast
      rw [Int.toNat_of_nonneg (by omega)]
      ring
    rw [e1]
    omega

/-- `t / 2.0`. -/
theorem div_two (j : Int) (hj0 : 0 ≤ j) (hj : j ≤ 2 ^ 53) (t : Dbl) (ht : Le (2 * j) t) :
    ∃ r, Dbl.div t ⟨2, 1⟩ = some r ∧ Le j r := by
  obtain ⟨htd, ht0, ht1⟩ := ht
  unfold Dbl.div
  simp only [show ¬ (2 : Int) = 0 by omega, show (2 : Int) > 0 by omega, if_true, if_false]
  apply round_le j hj0 hj _ _ (Nat.mul_pos htd (by decide))
  · simp only [Nat.cast_one, Int.mul_one]
    exact ht0
  · have e1 : (((t.den * (2 : Int).toNat : Nat)) : Int) = 2 * t.den := by
      have h2 : (2 : Int).toNat = 2 := rfl
      rw [h2]
      push_cast
      ring
    rw [e1]
    simp only [Nat.cast_one, Int.mul_one]
    have : j * (2 * (t.den : Int)) = 2 * j * t.den := by ring
    omega

/-! ## the row sum -/

theorem rowFold_le (x : VecF) (hx : ∀ w, Le 1 (x.getD w Dbl.zero)) :
    ∀ (l : List Nat) (s : Dbl) (i : Int), 0 ≤ i → Le i s → i + l.length ≤ 2 ^ 53 →
      ∃ y, l.foldl (PowerStopF.addStep x) (some s) = some y ∧ Le (i + l.length) y
  | [], s, i, _, hs, _ => ⟨s, rfl, by simpa using hs⟩
  | w :: l, s, i, hi, hs, hb => by
    rw [List.foldl_cons]
    have hb' : i + 1 + (l.length : Int) ≤ 2 ^ 53 := by
      simp only [List.length_cons, Nat.cast_add, Nat.cast_one] at hb
      omega
    obtain ⟨s', hadd, hs'⟩ := add_le i 1 s _ hs (hx w) hi (by omega) (by omega)
    have hst : PowerStopF.addStep x (some s) w = some s' := hadd
    rw [hst]
    obtain ⟨y, hy, hyl⟩ := rowFold_le x hx l s' (i + 1) (by omega) hs' hb'
    refine ⟨y, hy, ?_⟩
    have e : i + ((w :: l).length : Int) = i + 1 + (l.length : Int) := by
      simp only [List.length_cons, Nat.cast_add, Nat.cast_one]
      omega
    rw [e]
    exact hyl

theorem rowSum_le (a : Acc) (x : VecF) (hx : ∀ w, Le 1 (x.getD w Dbl.zero)) (v : Nat) :
    ∃ y, rowSumF a x v = some y ∧ Le 4 y := by
  have hn : ((a.liveEntries (v : Int)).length : Int) ≤ 4 := by
    exact_mod_cast Power.liveEntries_length_le a (v : Int)
  obtain ⟨y, hy, hyl⟩ := rowFold_le x hx (a.liveEntries (v : Int)) Dbl.zero 0 (le_refl _) (le_zero 0 (le_refl _))
    (by omega)
  exact ⟨y, hy, hyl.mono (by omega)⟩

/-! ## vectors in `[0, 1]` -/

/-- `VecF.In01` of `Props/C17d.lean`, unfolded. -/
def In01 (n : Nat) (x : VecF) : Prop :=
  x.Ok n ∧ ∀ v, v < n → (x.getD v Dbl.zero).num ≤ (x.getD v Dbl.zero).den

theorem in01_le {n : Nat} {x : VecF} (hx : In01 n x) (w : Nat) : Le 1 (x.getD w Dbl.zero) := by
  by_cases hw : w < n
  · obtain ⟨hB, h0⟩ := hx.1.2 w hw
    exact ⟨hB.1, h0, by have := hx.2 w hw; omega⟩
  · have : x.getD w Dbl.zero = Dbl.zero := by
      have hs := hx.1.1
      simp [Array.getD, show ¬ w < x.size by omega]
    rw [this]
    exact le_zero 1 (by omega)

/-! ## `allSome` -/

theorem allSome_of_forall {α} : ∀ (l : List (Option α)), (∀ o ∈ l, ∃ t, o = some t) → ∃ y, allSome l = some y
  | [], _ => ⟨[], rfl⟩
  | none :: _, h => by
    obtain ⟨t, ht⟩ := h none (by simp)
    cases ht
  | some x :: l, h => by
    obtain ⟨y, hy⟩ := allSome_of_forall l fun o ho => h o (by simp [ho])
    exact ⟨x :: y, by simp [allSome, hy]⟩

theorem mem_getElem? {α} {l : List α} {t : α} {n : Nat} (hlen : l.length = n) (ht : t ∈ l) :
    ∃ v, v < n ∧ l[v]? = some t := by
  obtain ⟨v, hv⟩ := List.mem_iff_getElem?.1 ht
  refine ⟨v, ?_, hv⟩
  rcases Nat.lt_or_ge v l.length with h1 | h1
  · omega
  · rw [List.getElem?_eq_none h1] at hv; cases hv

theorem val_le_iff (x y : Dbl) (hx : 0 < x.den) (hy : 0 < y.den) :
    val x ≤ val y ↔ x.num * y.den ≤ y.num * x.den := by
  have hxq : (0 : Rat) < (x.den : Rat) := by exact_mod_cast hx
  have hyq : (0 : Rat) < (y.den : Rat) := by exact_mod_cast hy
  unfold val
  rw [div_le_div_iff₀ hxq hyq]
  constructor
  · intro h; exact_mod_cast h
  · intro h; exact_mod_cast h

/-! ## one step -/

theorem capStepF_pos (a : Acc) (x : VecF) (y zl : List Dbl)
    (hy : allSome ((List.range a.size).map fun v => rowSumF a x v) = some y)
    (hlt : Dbl.lt Dbl.zero (y.foldl Dbl.maxD Dbl.zero) = true)
    (hzl : allSome (y.map fun t => Dbl.div t (y.foldl Dbl.maxD Dbl.zero)) = some zl) :
    capStepF a x = some (zl.toArray, y.foldl Dbl.maxD Dbl.zero) := by
  unfold capStepF
  rw [hy]
  simp only [hlt, if_true, hzl, Option.map_some]

theorem capStepF_zero (a : Acc) (x : VecF) (y : List Dbl)
    (hy : allSome ((List.range a.size).map fun v => rowSumF a x v) = some y)
    (hlt : ¬ Dbl.lt Dbl.zero (y.foldl Dbl.maxD Dbl.zero) = true) :
    capStepF a x = some ((y.map fun _ => Dbl.zero).toArray, y.foldl Dbl.maxD Dbl.zero) := by
  unfold capStepF
  rw [hy]
  simp only [hlt, Bool.false_eq_true, if_false]

theorem step_bounds (a : Acc) (x : VecF) (hx : In01 a.size x) (ha : a.Closed) :
    ∃ z ev, capStepF a x = some (z, ev) ∧ 0 ≤ ev.num ∧ ev.num ≤ 4 * ev.den ∧ 0 < ev.den ∧ In01 a.size z := by
  have hx1 := in01_le hx
  obtain ⟨y, hy⟩ := allSome_of_forall ((List.range a.size).map fun v => rowSumF a x v) (by
    intro o ho
    obtain ⟨v, _, rfl⟩ := List.mem_map.1 ho
    obtain ⟨t, ht, _⟩ := rowSum_le a x hx1 v
    exact ⟨t, ht⟩)
  obtain ⟨hlen, hrow⟩ := range_map_eq (allSome_eq_some _ _ hy)
  have hyP : ∀ t ∈ y, Le 4 t := by
    intro t ht
    obtain ⟨v, hv, hvt⟩ := mem_getElem? hlen ht
    obtain ⟨t', ht', hr⟩ := hrow v hv
    rw [hvt] at ht'
    cases ht'
    obtain ⟨t2, ht2, hl⟩ := rowSum_le a x hx1 v
    rw [hr] at ht2
    cases ht2
    exact hl
  have hev : Le 4 (y.foldl Dbl.maxD Dbl.zero) :=
    foldl_maxD_prop (Le 4) y Dbl.zero (le_zero 4 (by omega)) hyP
  have hge := (foldl_maxD_ge y Dbl.zero Nat.one_pos fun t ht => (hyP t ht).1).2
  generalize hevdef : y.foldl Dbl.maxD Dbl.zero = ev at *
  by_cases hlt : Dbl.lt Dbl.zero ev = true
  · have hevpos : 0 < ev.num := (lt_zero_iff ev).1 hlt
    have hdiv : ∀ t ∈ y, ∃ r, Dbl.div t ev = some r ∧ Le 1 r := fun t ht =>
      div_le_one t ev (hyP t ht).1 (hyP t ht).2.1 hev.1 hevpos
        ((val_le_iff t ev (hyP t ht).1 hev.1).1 (hge t ht))
    obtain ⟨zl, hzl⟩ := allSome_of_forall (y.map fun t => Dbl.div t ev) (by
      intro o ho
      obtain ⟨t, ht, rfl⟩ := List.mem_map.1 ho
      obtain ⟨r, hr, _⟩ := hdiv t ht
      exact ⟨r, hr⟩)
    have hstep : capStepF a x = some (zl.toArray, ev) := by
      subst hevdef
      exact capStepF_pos a x y zl hy hlt hzl
    refine ⟨zl.toArray, ev, hstep, hev.2.1, hev.2.2, hev.1, (C17F_step_ok a x _ ev hx.1 ha hstep).1, fun v hv => ?_⟩
    obtain ⟨_, hent⟩ := list_map_eq (allSome_eq_some _ _ hzl)
    obtain ⟨t, ht, _⟩ := hrow v hv
    obtain ⟨r, hzr, hd⟩ := hent v t ht
    rw [toArray_getD zl v r Dbl.zero hzr]
    obtain ⟨r', hr', hl⟩ := hdiv t (List.mem_of_getElem? ht)
    rw [hd] at hr'
    cases hr'
    have := hl.2.2
    omega
  · have hstep : capStepF a x = some ((y.map fun _ => Dbl.zero).toArray, ev) := by
      subst hevdef
      exact capStepF_zero a x y hy hlt
    refine ⟨_, ev, hstep, hev.2.1, hev.2.2, hev.1, (C17F_step_ok a x _ ev hx.1 ha hstep).1, fun v hv => ?_⟩
    obtain ⟨t, ht, _⟩ := hrow v hv
    have hget : ((y.map fun _ => Dbl.zero).toArray).getD v Dbl.zero = Dbl.zero := by
      apply toArray_getD _ v Dbl.zero Dbl.zero
      rw [List.getElem?_map, ht]
      rfl
    rw [hget]
    decide

end Dsw.PowerF
