import DswModel.Lemmas.FloatSpecLog
import Mathlib.Tactic.Ring
/-!
# The positive rounding `roundPos` in a scaled normal form

Everything is multiplied by `2^1074`, so that every exponent becomes a natural number: with `roundPos n d = (m, e)`,
`k = e + 1074`, `A = n * 2^1074`, `U = d * 2^k` (the unit in the last place, times `d`, scaled), the result is `m * U`
and `PosSpec` collects what is known: half-ulp error, ties to even, position of `A` between powers of two.
-/
namespace Dsw

/-! ## `rne` is round-to-nearest, ties to even (natural-number form, no absolute values) -/

theorem rne_spec {num den : Nat} (hd : 0 < den) :
    2 * (rne num den * den) ≤ 2 * num + den ∧ 2 * num ≤ 2 * (rne num den * den) + den ∧
    ((2 * (rne num den * den) = 2 * num + den ∨ 2 * num = 2 * (rne num den * den) + den) →
      rne num den % 2 = 0) := by
  have h1 := Nat.div_add_mod num den
  have h2 := Nat.mod_lt num hd
  unfold rne
  simp only
  generalize num / den = q at *
  generalize num % den = r at *
  have hq : (q + 1) * den = den * q + den := by rw [Nat.add_mul, Nat.one_mul, Nat.mul_comm]
  have hq' : q * den = den * q := Nat.mul_comm _ _
  generalize den * q = P at *
  split
  · rw [hq]
    refine ⟨by omega, by omega, ?_⟩
    intro h
    omega
  · rw [hq']
    refine ⟨by omega, by omega, ?_⟩
    intro h
    omega

/-- the same after multiplying numerator and denominator by `c > 0`. -/
theorem rne_scaled {num den c A U : Nat} (hd : 0 < den) (hc : 0 < c) (hA : A = num * c) (hU : U = den * c) :
    2 * (rne num den * U) ≤ 2 * A + U ∧ 2 * A ≤ 2 * (rne num den * U) + U ∧
    ((2 * (rne num den * U) = 2 * A + U ∨ 2 * A = 2 * (rne num den * U) + U) → rne num den % 2 = 0) ∧
    (∀ J, J * U ≤ A → J ≤ rne num den) ∧ (∀ J, A ≤ J * U → rne num den ≤ J) := by
  obtain ⟨s1, s2, s3⟩ := rne_spec (num := num) hd
  subst hA hU
  generalize hm : rne num den = m at *
  have e1 : 2 * (m * (den * c)) = 2 * (m * den) * c := by ring
  have e2 : 2 * (num * c) + den * c = (2 * num + den) * c := by ring
  have e3 : 2 * (m * (den * c)) + den * c = (2 * (m * den) + den) * c := by ring
  have e4 : 2 * (num * c) = 2 * num * c := by ring
  refine ⟨?_, ?_, ?_, ?_, ?_⟩
  · rw [e1, e2]; exact Nat.mul_le_mul_right _ s1
  · rw [e4, e3]; exact Nat.mul_le_mul_right _ s2
  · rintro (h | h)
    · rw [e1, e2] at h
      exact s3 (Or.inl (Nat.eq_of_mul_eq_mul_right hc h))
    · rw [e4, e3] at h
      exact s3 (Or.inr (Nat.eq_of_mul_eq_mul_right hc h))
  · intro J h
    have : J * den * c ≤ num * c := by rw [Nat.mul_assoc]; exact h
    exact hm ▸ rne_ge hd (Nat.le_of_mul_le_mul_right this hc)
  · intro J h
    have : num * c ≤ J * den * c := by rw [Nat.mul_assoc]; exact h
    exact hm ▸ rne_le hd (Nat.le_of_mul_le_mul_right this hc)

/-! ## the scaled specification of `roundPos` -/

/-- `roundPos n d = (m, e)` described with `k = e + O`, `A = n * 2^O`, `U = d * 2^k` (`O = 1074`, kept as a
parameter so that no tactic ever evaluates `2^1074`). -/
structure PosSpec (O n d m : Nat) (e : Int) (k : Nat) : Prop where
  hk : e = (k : Int) - (O : Int)
  m_le : m ≤ 2 ^ 53
  m_ge : 0 < k → 2 ^ 52 ≤ m
  lower : 0 < k → 2 ^ 52 * (d * 2 ^ k) ≤ n * 2 ^ O
  upper : n * 2 ^ O < 2 ^ 53 * (d * 2 ^ k)
  half_lo : 2 * (m * (d * 2 ^ k)) ≤ 2 * (n * 2 ^ O) + d * 2 ^ k
  half_hi : 2 * (n * 2 ^ O) ≤ 2 * (m * (d * 2 ^ k)) + d * 2 ^ k
  tie : (2 * (m * (d * 2 ^ k)) = 2 * (n * 2 ^ O) + d * 2 ^ k ∨
         2 * (n * 2 ^ O) = 2 * (m * (d * 2 ^ k)) + d * 2 ^ k) → m % 2 = 0

/-- numerator and denominator of the rounding step of `roundPos` are `A = n * 2^O` and `U = d * 2^k` up to a common
factor (`O` the offset, `k = e + O`). -/
theorem scaled_coeffs (O : Nat) (e : Int) (k : Nat) (hk : e = (k : Int) - (O : Int)) (n d : Nat) :
    ∃ c, 0 < c ∧ n * 2 ^ O = (if e < 0 then n * 2 ^ (-e).toNat else n) * c ∧
      d * 2 ^ k = (if e < 0 then d else d * 2 ^ e.toNat) * c := by
  by_cases hneg : e < 0
  · simp only [hneg, if_true]
    have hO : O = (-e).toNat + k := by omega
    refine ⟨2 ^ k, two_pow_pos' k, ?_, rfl⟩
    rw [Nat.mul_assoc, ← Nat.pow_add, ← hO]
  · simp only [hneg, if_false]
    have hkk : k = e.toNat + O := by omega
    refine ⟨2 ^ O, two_pow_pos' O, rfl, ?_⟩
    rw [hkk, Nat.pow_add, Nat.mul_assoc]

theorem roundPos_posSpec (n d : Nat) (hn : 0 < n) (hd : 0 < d) :
    ∃ k, PosSpec 1074 n d (roundPos n d).1 (roundPos n d).2 k := by
  obtain ⟨hlo, hhi⟩ := ratLog2_spec' n d hn hd
  rw [roundPos_eq]
  simp only
  generalize ratLog2 n d = L at *
  generalize he : max (L - 52) (-1074) = e
  have he1 : -1074 ≤ e := by omega
  have he2 : L - 52 ≤ e := by omega
  have he3 : -1074 < e → e = L - 52 := by omega
  obtain ⟨k, hk⟩ : ∃ k : Nat, e = (k : Int) - 1074 := ⟨(e + 1074).toNat, by omega⟩
  -- position of A
  have hupper : n * 2 ^ 1074 < 2 ^ 53 * (d * 2 ^ k) := by
    have h1 := scale_lt (n := n) (d := d) (L := L + 1) 1074 hhi
    have h2 : 2 ^ (L + 1 + (1074 : Nat)).toNat ≤ 2 ^ (k + 53) :=
      Nat.pow_le_pow_right (by omega) (by omega)
    have h3 : d * 2 ^ (L + 1 + (1074 : Nat)).toNat ≤ d * 2 ^ (k + 53) := Nat.mul_le_mul_left _ h2
    have h4 : d * 2 ^ (k + 53) = 2 ^ 53 * (d * 2 ^ k) := by rw [Nat.pow_add]; ring
    omega
  have hlower : 0 < k → 2 ^ 52 * (d * 2 ^ k) ≤ n * 2 ^ 1074 := by
    intro hkpos
    have hL : e = L - 52 := he3 (by omega)
    have h1 := scale_le (n := n) (d := d) (L := L) 1074 (by omega) hlo
    have ht : (L + (1074 : Nat)).toNat = k + 52 := by omega
    rw [ht] at h1
    have h4 : d * 2 ^ (k + 52) = 2 ^ 52 * (d * 2 ^ k) := by rw [Nat.pow_add]; ring
    omega
  -- the rounding step
  have hU : 0 < d * 2 ^ k := Nat.mul_pos hd (two_pow_pos' k)
  obtain ⟨c, hc, hA, hU'⟩ := scaled_coeffs 1074 e k (by omega) n d
  have hden : 0 < (if e < 0 then d else d * 2 ^ e.toNat) := by
    split
    · exact hd
    · exact Nat.mul_pos hd (two_pow_pos' _)
  obtain ⟨s1, s2, s3, s4, s5⟩ := rne_scaled hden hc hA hU'
  refine ⟨k, ⟨by omega, ?_, ?_, hlower, hupper, s1, s2, s3⟩⟩
  · exact s5 _ (Nat.le_of_lt hupper)
  · intro hkpos
    exact s4 _ (hlower hkpos)

/-- the unscaled half-ulp statement of `Props/FloatSpec.lean` (directly from `rne_spec`). -/
theorem roundPos_half (n d : Nat) (hd : 0 < d) :
    (if (roundPos n d).2 ≥ 0 then
        (2 * (n - (roundPos n d).1 * 2 ^ (roundPos n d).2.toNat * d : Int).natAbs ≤ 2 ^ (roundPos n d).2.toNat * d) ∧
        (2 * (n - (roundPos n d).1 * 2 ^ (roundPos n d).2.toNat * d : Int).natAbs = 2 ^ (roundPos n d).2.toNat * d →
          (roundPos n d).1 % 2 = 0)
     else
        (2 * (n * 2 ^ (-(roundPos n d).2).toNat - (roundPos n d).1 * d : Int).natAbs ≤ d) ∧
        (2 * (n * 2 ^ (-(roundPos n d).2).toNat - (roundPos n d).1 * d : Int).natAbs = d →
          (roundPos n d).1 % 2 = 0)) := by
  rw [roundPos_eq]
  simp only
  generalize max (ratLog2 n d - 52) (-1074) = e
  by_cases hneg : e < 0
  · have h1 : ¬ e ≥ 0 := by omega
    simp only [hneg, h1, if_true, if_false]
    obtain ⟨s1, s2, s3⟩ := rne_spec (num := n * 2 ^ (-e).toNat) (den := d) hd
    generalize rne (n * 2 ^ (-e).toNat) d = m at *
    have hc : ((n : Int) * 2 ^ (-e).toNat - (m : Int) * (d : Int)) =
        ((n * 2 ^ (-e).toNat : Nat) : Int) - ((m * d : Nat) : Int) := by push_cast; ring
    rw [hc]
    generalize n * 2 ^ (-e).toNat = X at *
    generalize m * d = Y at *
    refine ⟨by omega, ?_⟩
    intro h
    exact s3 (by omega)
  · have h1 : e ≥ 0 := by omega
    simp only [hneg, h1, if_true, if_false]
    have hden : 0 < d * 2 ^ e.toNat := Nat.mul_pos hd (two_pow_pos' _)
    obtain ⟨s1, s2, s3⟩ := rne_spec (num := n) (den := d * 2 ^ e.toNat) hden
    generalize rne n (d * 2 ^ e.toNat) = m at *
    have hc : ((n : Int) - (m : Int) * 2 ^ e.toNat * (d : Int)) =
        (n : Int) - ((m * (d * 2 ^ e.toNat) : Nat) : Int) := by push_cast; ring
    have hc2 : 2 ^ e.toNat * d = d * 2 ^ e.toNat := Nat.mul_comm _ _
    rw [hc, hc2]
    generalize d * 2 ^ e.toNat = X at *
    generalize m * X = Y at *
    refine ⟨by omega, ?_⟩
    intro h
    exact s3 (by omega)

end Dsw
