import DswModel.Props.C01
import DswModel.Props.C02
import DswModel.Props.C03
import DswModel.Props.C04
import DswModel.Props.C05
import DswModel.Props.C08
import DswModel.Props.C09
import DswModel.Props.C11
/-! Helper lemmas for the end-to-end corollaries. -/
namespace Dsw.Compose

/-- a normal-mode `encode` result with a requested check length `n ≥ 1`: the strand is a walk and
the returned check is `setVt strand n`. -/
theorem encode_check {a : Acc} {tbl : Option Tbl} {v : Int} {bits : List Nat} {n fuel : Nat}
    {w c : List Char} (hb : IsBits bits) (hn : 1 ≤ n)
    (h : encode a tbl v bits false n fuel = .ok (w, some c)) :
    isWalk a v w = true ∧ setVt w n = .ok c := by
  obtain ⟨he, _⟩ := cn_encode_normal_ok hb h
  obtain ⟨hw, _, _⟩ := cn_encodeNat_spec a tbl _ _ _ _ he
  refine ⟨hw, ?_⟩
  rw [cn_encode_normal_eq a tbl v bits n fuel hb, he] at h
  have hn' : n > 0 := hn
  simp only [Except.bind, hn', if_true] at h
  cases hs : setVt w n with
  | error e => rw [hs] at h; cases h
  | ok c' =>
    rw [hs] at h
    simp only [Except.ok.injEq, Prod.mk.injEq, Option.some.injEq] at h
    rw [h.2]

/-- without a check, `vtMatches` always answers `true`. -/
theorem vtMatches_none_eq {s : List Char} {b : Bool} (h : vtMatches s none = .ok b) : b = true := by
  simp only [vtMatches, Except.ok.injEq] at h
  exact h.symm

end Dsw.Compose
