import DswModel.Model.Capacity
import DswModel.Lemmas.Defs
import DswModel.Lemmas.Power
import Mathlib.Algebra.Order.Field.Rat
import Mathlib.Tactic.Linarith
import Mathlib.Tactic.Positivity
import Mathlib.Tactic.FieldSimp
import Mathlib.Tactic.Ring
/-! Helper lemmas for C17b (what the stopping rule of the power iteration certifies). -/
namespace Dsw.PowerStop
open Dsw.Power

/-! ## the step, entrywise -/

theorem capStep_snd (a : Acc) (x : Vec) : (capStep a x).2 = capEv a x := rfl

theorem capStep_getD (a : Acc) (x : Vec) (v : Nat) (hv : v < a.size) (hpos : 0 < (capStep a x).2) :
    (capStep a x).1.getD v 0 =
      (a.liveEntries (v : Int)).foldl (fun s w => s + x.getD w 0) 0 / (capStep a x).2 := by
  rw [capStep_snd] at hpos
  rw [capStep_eq]
  simp only [gt_iff_lt, if_pos hpos]
  rw [getD_map _ _ _ (by rw [capY_size]; exact hv), capY_getD a x v hv]

/-! ## `ratAbs` -/

theorem ratAbs_lt_iff (r t : Rat) : ratAbs r < t ↔ -t < r ∧ r < t := by
  unfold ratAbs
  split
  · constructor
    · intro h; constructor <;> linarith
    · intro h; linarith [h.1]
  · constructor
    · intro h; constructor <;> linarith
    · intro h; exact h.2

/-- `|y/ev − x| < tol` and `ev > 0` give `|y − ev·x| < ev·tol`. -/
theorem residual (y ev x tol : Rat) (hev : 0 < ev) (h : ratAbs (y / ev - x) < tol) :
    ratAbs (y - ev * x) < ev * tol := by
  rw [ratAbs_lt_iff] at h ⊢
  have hy : y = ev * (y / ev) := by field_simp
  obtain ⟨h1, h2⟩ := h
  have g1 : ev * (-tol) < ev * (y / ev - x) := mul_lt_mul_of_pos_left h1 hev
  have g2 : ev * (y / ev - x) < ev * tol := mul_lt_mul_of_pos_left h2 hev
  have e : ev * (y / ev - x) = y - ev * x := by
    rw [mul_sub, ← hy]
  rw [e] at g1 g2
  constructor
  · linarith
  · exact g2

/-- with `x ≥ δ > 0` the absolute residual bound becomes a relative one. -/
theorem relative (y ev x tol δ : Rat) (hδ : 0 < δ) (hx : δ ≤ x)
    (h : ratAbs (y - ev * x) < ev * tol) :
    ev * (1 - tol / δ) * x ≤ y ∧ y ≤ ev * (1 + tol / δ) * x := by
  rw [ratAbs_lt_iff] at h
  obtain ⟨h1, h2⟩ := h
  have hpos : 0 < ev * tol := by linarith
  have hq : 1 ≤ x / δ := by rw [le_div_iff₀ hδ]; linarith
  have hk : ev * tol ≤ ev * tol * (x / δ) := by
    have := mul_le_mul_of_nonneg_left hq (le_of_lt hpos)
    linarith
  have e1 : ev * (1 - tol / δ) * x = ev * x - ev * tol * (x / δ) := by ring
  have e2 : ev * (1 + tol / δ) * x = ev * x + ev * tol * (x / δ) := by ring
  rw [e1, e2]
  constructor <;> linarith

/-! ## sums -/

theorem foldl_add_eq_sum (l : List Nat) (f : Nat → Rat) (s : Rat) :
    l.foldl (fun s w => s + f w) s = s + (l.map f).sum := by
  induction l generalizing s with
  | nil => simp
  | cons b l ih =>
    rw [List.foldl_cons, ih, List.map_cons, List.sum_cons]; ring

theorem foldl_add_eq_sum0 (l : List Nat) (f : Nat → Rat) :
    l.foldl (fun s w => s + f w) 0 = (l.map f).sum := by
  rw [foldl_add_eq_sum]; simp

theorem sum_map_le (l : List Nat) (f g : Nat → Rat) (h : ∀ w ∈ l, f w ≤ g w) :
    (l.map f).sum ≤ (l.map g).sum := by
  induction l with
  | nil => simp
  | cons b l ih =>
    simp only [List.map_cons, List.sum_cons]
    exact add_le_add (h b (by simp)) (ih fun w hw => h w (by simp [hw]))

theorem sum_map_mul (l : List Nat) (c : Rat) (f : Nat → Rat) :
    (l.map fun w => c * f w).sum = c * (l.map f).sum := by
  induction l with
  | nil => simp
  | cons b l ih =>
    simp only [List.map_cons, List.sum_cons, ih]; ring

/-- one induction step of the upper certificate. -/
theorem cert_step_upper (l : List Nat) (W xs : Nat → Rat) (c μ xv : Rat) (hc : 0 ≤ c)
    (hW : ∀ w ∈ l, W w ≤ c * xs w) (hrow : (l.map xs).sum ≤ μ * xv) :
    (l.map W).sum ≤ c * μ * xv := by
  have h1 := sum_map_le l W (fun w => c * xs w) hW
  rw [sum_map_mul] at h1
  have h2 := mul_le_mul_of_nonneg_left hrow hc
  linarith

/-- one induction step of the lower certificate. -/
theorem cert_step_lower (l : List Nat) (W xs : Nat → Rat) (c ν xv : Rat) (hc : 0 ≤ c)
    (hW : ∀ w ∈ l, c * xs w ≤ W w) (hrow : ν * xv ≤ (l.map xs).sum) :
    c * ν * xv ≤ (l.map W).sum := by
  have h1 := sum_map_le l (fun w => c * xs w) W hW
  rw [sum_map_mul] at h1
  have h2 := mul_le_mul_of_nonneg_left hrow hc
  linarith

end Dsw.PowerStop
