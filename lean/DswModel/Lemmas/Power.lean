import DswModel.Model.Capacity
import DswModel.Lemmas.Defs
import DswModel.Lemmas.DeBruijn
import DswModel.Lemmas.Convert3
import Mathlib.Algebra.Order.Field.Rat
import Mathlib.Tactic.Linarith
import Mathlib.Tactic.Positivity
/-! Helper lemmas for the power iteration (C17). -/
namespace Dsw.Power

/-! ## walks -/

theorem sum_map_mul_le (l : List Nat) (f g : Nat → Nat) (c d : Nat)
    (h : ∀ w ∈ l, c * f w ≤ d * g w) : c * (l.map f).sum ≤ d * (l.map g).sum := by
  induction l with
  | nil => simp
  | cons a l ih =>
    simp only [List.map_cons, List.sum_cons, Nat.mul_add]
    exact Nat.add_le_add (h a (by simp)) (ih fun w hw => h w (by simp [hw]))

/-! ## `foldl max` -/

theorem foldl_max_ge_init (l : List Rat) (i : Rat) : i ≤ l.foldl max i := by
  induction l generalizing i with
  | nil => exact le_refl _
  | cons a l ih => exact le_trans (le_max_left i a) (ih _)

theorem foldl_max_ge_mem (l : List Rat) (i x : Rat) (h : x ∈ l) : x ≤ l.foldl max i := by
  induction l generalizing i with
  | nil => cases h
  | cons a l ih =>
    rcases List.mem_cons.1 h with rfl | h
    · exact le_trans (le_max_right i x) (foldl_max_ge_init _ _)
    · exact ih _ h

theorem foldl_max_le (l : List Rat) (i b : Rat) (hi : i ≤ b) (h : ∀ x ∈ l, x ≤ b) :
    l.foldl max i ≤ b := by
  induction l generalizing i with
  | nil => exact hi
  | cons a l ih =>
    exact ih _ (max_le hi (h a (by simp))) fun x hx => h x (by simp [hx])

/-! ## sums -/

theorem foldl_add_bounds (l : List Nat) (f : Nat → Rat) (s : Rat)
    (h : ∀ w ∈ l, 0 ≤ f w ∧ f w ≤ 1) :
    s ≤ l.foldl (fun s w => s + f w) s ∧ l.foldl (fun s w => s + f w) s ≤ s + l.length := by
  induction l generalizing s with
  | nil => simp
  | cons a l ih =>
    have h1 := h a (by simp)
    have h2 := ih (s + f a) fun w hw => h w (by simp [hw])
    simp only [List.foldl_cons, List.length_cons, Nat.cast_add, Nat.cast_one]
    constructor
    · linarith [h2.1, h1.1]
    · linarith [h2.2, h1.2]

theorem live_length_le (a : Acc) (v : Int) : (a.live v).length ≤ 4 := by
  unfold Acc.live
  exact le_trans (List.length_filter_le _ _) (by simp)

theorem liveEntries_length_le (a : Acc) (v : Int) : (a.liveEntries v).length ≤ 4 := by
  unfold Acc.liveEntries
  rw [List.length_map]; exact live_length_le a v

/-- the un-normalised product `A x`. -/
def capY (a : Acc) (x : Vec) : Vec :=
  (Array.range a.size).map fun (v : Nat) =>
    (a.liveEntries (v : Int)).foldl (fun s w => s + x.getD w 0) 0

def capEv (a : Acc) (x : Vec) : Rat := (capY a x).foldl max 0

theorem capStep_eq (a : Acc) (x : Vec) :
    capStep a x = (if capEv a x > 0 then (capY a x).map (· / capEv a x)
      else (capY a x).map (fun _ => 0), capEv a x) := rfl

theorem capY_size (a : Acc) (x : Vec) : (capY a x).size = a.size := by simp [capY]

theorem capY_getD (a : Acc) (x : Vec) (v : Nat) (hv : v < a.size) :
    (capY a x).getD v 0 = (a.liveEntries (v : Int)).foldl (fun s w => s + x.getD w 0) 0 := by
  unfold capY; exact getD_range_map _ _ _ _ hv

theorem getD_oob (y : Vec) (i : Nat) (h : y.size ≤ i) : y.getD i 0 = 0 := by
  simp [Array.getD, Nat.not_lt.2 h]

theorem getD_map (y : Vec) (f : Rat → Rat) (i : Nat) (h : i < y.size) :
    (y.map f).getD i 0 = f (y.getD i 0) := by
  simp [Array.getD, h]

theorem getD_map_oob (y : Vec) (f : Rat → Rat) (i : Nat) (h : y.size ≤ i) :
    (y.map f).getD i 0 = 0 := by
  simp [Array.getD, Nat.not_lt.2 h]

theorem getD_mem (y : Vec) (i : Nat) (h : i < y.size) : y.getD i 0 ∈ y.toList := by
  simp [Array.getD, h]

theorem foldl_max_eq (y : Vec) (i : Rat) : y.foldl max i = y.toList.foldl max i := by
  rw [Array.foldl_toList]

def In01 (x : Vec) : Prop := ∀ i, 0 ≤ x.getD i 0 ∧ x.getD i 0 ≤ 1

theorem capY_bounds (a : Acc) (x : Vec) (hx : In01 x) (v : Nat) :
    0 ≤ (capY a x).getD v 0 ∧ (capY a x).getD v 0 ≤ 4 := by
  by_cases hv : v < a.size
  · rw [capY_getD a x v hv]
    have h := foldl_add_bounds (a.liveEntries (v : Int)) (fun w => x.getD w 0) 0 fun w _ => hx w
    have h4 : ((a.liveEntries (v : Int)).length : Rat) ≤ 4 := by
      exact_mod_cast liveEntries_length_le a v
    constructor
    · exact h.1
    · linarith [h.2]
  · rw [getD_oob _ _ (by rw [capY_size]; omega)]
    constructor <;> norm_num

theorem mem_toList_getD (y : Vec) (r : Rat) (h : r ∈ y.toList) : ∃ i, i < y.size ∧ y.getD i 0 = r := by
  rw [Array.mem_toList_iff, Array.mem_iff_getElem] at h
  obtain ⟨i, hi, rfl⟩ := h
  exact ⟨i, hi, by simp [Array.getD, hi]⟩

theorem capEv_bounds (a : Acc) (x : Vec) (hx : In01 x) : 0 ≤ capEv a x ∧ capEv a x ≤ 4 := by
  unfold capEv
  rw [foldl_max_eq]
  constructor
  · exact foldl_max_ge_init _ _
  · apply foldl_max_le _ _ _ (by norm_num)
    intro r hr
    obtain ⟨i, _, rfl⟩ := mem_toList_getD _ _ hr
    exact (capY_bounds a x hx i).2

theorem capY_le_ev (a : Acc) (x : Vec) (v : Nat) (hv : v < a.size) :
    (capY a x).getD v 0 ≤ capEv a x := by
  unfold capEv
  rw [foldl_max_eq]
  exact foldl_max_ge_mem _ _ _ (getD_mem _ _ (by rw [capY_size]; exact hv))

theorem capStep_in01 (a : Acc) (x : Vec) (hx : In01 x) : In01 (capStep a x).1 := by
  intro i
  rw [capStep_eq]
  by_cases hi : i < a.size
  · have hi' : i < (capY a x).size := by rw [capY_size]; exact hi
    by_cases hev : capEv a x > 0
    · simp only [if_pos hev]
      rw [getD_map _ _ _ hi']
      have h0 := (capY_bounds a x hx i).1
      have h1 := capY_le_ev a x i hi
      constructor
      · exact div_nonneg h0 (le_of_lt hev)
      · exact (div_le_one hev).2 h1
    · simp only [if_neg hev]
      rw [getD_map _ _ _ hi']
      constructor <;> norm_num
  · have hi' : (capY a x).size ≤ i := by rw [capY_size]; omega
    split <;> rw [getD_map_oob _ _ _ hi'] <;> constructor <;> norm_num


/-! ## clamp, median -/

def Pos4 (r : Rat) : Prop := 0 < r ∧ r ≤ 4

theorem clampEv_pos4 (tol x : Rat) (htol : 0 < tol) (hx : x ≤ 4) : Pos4 (clampEv tol x) := by
  unfold clampEv Pos4
  split
  · constructor
    · linarith
    · exact hx
  · constructor <;> norm_num

theorem mem_insertSorted' {α} (le : α → α → Bool) (x y : α) (l : List α) :
    y ∈ insertSorted le x l ↔ y = x ∨ y ∈ l := by
  induction l with
  | nil => simp [insertSorted]
  | cons z zs ih =>
    unfold insertSorted
    split
    · simp
    · simp only [List.mem_cons, ih]
      constructor
      · rintro (h | h | h)
        · exact Or.inr (Or.inl h)
        · exact Or.inl h
        · exact Or.inr (Or.inr h)
      · rintro (h | h | h)
        · exact Or.inr (Or.inl h)
        · exact Or.inl h
        · exact Or.inr (Or.inr h)

theorem mem_isort' {α} (le : α → α → Bool) (y : α) (l : List α) : y ∈ isort le l ↔ y ∈ l := by
  induction l with
  | nil => simp [isort]
  | cons z zs ih =>
    have : isort le (z :: zs) = insertSorted le z (isort le zs) := rfl
    rw [this, mem_insertSorted', ih]; simp

theorem list_getD_le (l : List Rat) (i : Nat) (b : Rat) (hb : 0 ≤ b) (h : ∀ x ∈ l, x ≤ b) :
    l.getD i 0 ≤ b := by
  by_cases hi : i < l.length
  · simp only [List.getD_eq_getElem?_getD, List.getElem?_eq_getElem hi, Option.getD_some]; exact h _ (List.getElem_mem hi)
  · simp only [List.getD_eq_getElem?_getD, List.getElem?_eq_none (Nat.le_of_not_lt hi), Option.getD_none]; exact hb

theorem ratMedian_le (l : List Rat) (b : Rat) (hb : 0 ≤ b) (h : ∀ x ∈ l, x ≤ b) : ratMedian l ≤ b := by
  unfold ratMedian
  have hs : ∀ x ∈ isort (fun x y : Rat => decide (x ≤ y)) l, x ≤ b := fun x hx =>
    h x ((mem_isort' _ _ _).1 hx)
  simp only
  split
  · exact list_getD_le _ _ _ hb hs
  · have h1 := list_getD_le _ ((isort (fun x y : Rat => decide (x ≤ y)) l).length / 2 - 1) _ hb hs
    have h2 := list_getD_le _ ((isort (fun x y : Rat => decide (x ≤ y)) l).length / 2) _ hb hs
    linarith

/-! ## the loop -/

def loopRel (ev le : Rat) : Rat := if le > 0 then ratAbs (ev - le) / le else 0

def loopDiff (a : Acc) (new last : Vec) : Rat :=
  ((List.range a.size).map fun v => ratAbs (new.getD v 0 - last.getD v 0)).foldl max 0

def loopRes1 (a : Acc) (tol : Rat) (last : Vec) (le : Rat) : List Rat :=
  if loopRel (capStep a last).2 le < tol ∧ decide (loopDiff a (capStep a last).1 last < tol) then
    [clampEv tol (capStep a last).2] else []

theorem mem_loopRes1 (a : Acc) (tol : Rat) (last : Vec) (le r : Rat) (h : r ∈ loopRes1 a tol last le) :
    r = clampEv tol (capStep a last).2 := by
  unfold loopRes1 at h
  split at h
  · exact List.mem_singleton.1 h
  · cases h

def loopRes2 (tol : Rat) (maxIter : Nat) (queue : List Rat) : List Rat :=
  if queue.length > maxIter then [clampEv tol (ratMedian queue)] else []

theorem capLoop_none (a : Acc) (tol : Rat) (maxIter : Nat) (f : Nat) (last : Vec)
    (queue record : List Rat) :
    capLoop a tol maxIter (f + 1) last none queue record =
      capLoop a tol maxIter f (capStep a last).1 (some (capStep a last).2) queue
        (record ++ [clampEv tol (capStep a last).2]) := rfl

theorem capLoop_some (a : Acc) (tol : Rat) (maxIter : Nat) (f : Nat) (last : Vec)
    (le : Rat) (queue record : List Rat) :
    capLoop a tol maxIter (f + 1) last (some le) queue record =
      if loopRes1 a tol last le ++ loopRes2 tol maxIter (queue ++ [(capStep a last).2]) ≠ [] then
        some ⟨loopRes1 a tol last le ++ loopRes2 tol maxIter (queue ++ [(capStep a last).2]),
          record ++ [clampEv tol (capStep a last).2]⟩
      else capLoop a tol maxIter f (capStep a last).1 (some (capStep a last).2)
        (queue ++ [(capStep a last).2]) (record ++ [clampEv tol (capStep a last).2]) := rfl

theorem capLoop_bounds (a : Acc) (tol : Rat) (maxIter : Nat) (htol : 0 < tol) :
    ∀ (f : Nat) (last : Vec) (lastEv : Option Rat) (queue record : List Rat) (run : CapRun),
      In01 last → (∀ r ∈ queue, r ≤ 4) → (∀ r ∈ record, Pos4 r) →
      capLoop a tol maxIter f last lastEv queue record = some run →
      (∀ r ∈ run.results, Pos4 r) ∧ ∀ r ∈ run.record, Pos4 r := by
  intro f
  induction f with
  | zero => intro last lastEv queue record run _ _ _ h; simp [capLoop] at h
  | succ f ih =>
    intro last lastEv queue record run hl hq hr h
    have hev := capEv_bounds a last hl
    have hv := capStep_in01 a last hl
    have hev2 : (capStep a last).2 ≤ 4 := hev.2
    have hrec : ∀ r ∈ record ++ [clampEv tol (capStep a last).2], Pos4 r := by
      intro r hr'
      rcases List.mem_append.1 hr' with h' | h'
      · exact hr r h'
      · rw [List.mem_singleton.1 h']; exact clampEv_pos4 _ _ htol hev2
    cases lastEv with
    | none =>
      rw [capLoop_none] at h
      exact ih _ _ _ _ _ hv hq hrec h
    | some le =>
      rw [capLoop_some] at h
      have hq' : ∀ r ∈ queue ++ [(capStep a last).2], r ≤ 4 := by
        intro r hr'
        rcases List.mem_append.1 hr' with h' | h'
        · exact hq r h'
        · rw [List.mem_singleton.1 h']; exact hev2
      split at h
      · cases h
        refine ⟨?_, hrec⟩
        intro r hr'
        simp only at hr'
        rcases List.mem_append.1 hr' with h' | h'
        · rw [mem_loopRes1 _ _ _ _ _ h']; exact clampEv_pos4 _ _ htol hev2
        · unfold loopRes2 at h'
          split at h'
          · rw [List.mem_singleton.1 h']
            exact clampEv_pos4 _ _ htol (ratMedian_le _ _ (by norm_num) hq')
          · cases h'
      · exact ih _ _ _ _ _ hv hq' hrec h

theorem zeroDead_getD (a : Acc) (x : Vec) (v : Nat) (hv : v < a.size) :
    (zeroDead a x).getD v 0 = if (a.getD v #[]).foldl (· + ·) 0 == -4 then 0 else x.getD v 0 := by
  unfold zeroDead; exact getD_range_map _ _ _ _ hv

theorem zeroDead_size (a : Acc) (x : Vec) : (zeroDead a x).size = a.size := by simp [zeroDead]

theorem zeroDead_in01 (a : Acc) (x : Vec) (hx : In01 x) : In01 (zeroDead a x) := by
  intro i
  by_cases hi : i < a.size
  · rw [zeroDead_getD a x i hi]
    by_cases c : ((a.getD i #[]).foldl (· + ·) 0 == -4) = true
    · rw [if_pos c]; constructor <;> norm_num
    · rw [if_neg c]; exact hx i
  · rw [getD_oob _ _ (by rw [zeroDead_size]; omega)]
    constructor <;> norm_num

theorem approx_bounds (a : Acc) (tol : Rat) (maxIter : Nat) (starts : List Vec) (res : List Rat)
    (recs : List (List Rat)) (htol : 0 < tol) (hs : ∀ x ∈ starts, In01 x)
    (h : approximateCapacity a tol maxIter starts = some (res, recs)) :
    (∀ r ∈ res, Pos4 r) ∧ ∀ rec ∈ recs, ∀ r ∈ rec, Pos4 r := by
  unfold approximateCapacity at h
  split at h
  · cases h
    have h1 : Pos4 1 := by constructor <;> norm_num
    constructor
    · intro r hr; rw [List.mem_singleton.1 hr]; exact h1
    · intro rec hrec r hr
      obtain ⟨_, _, rfl⟩ := List.mem_map.1 hrec
      rw [List.mem_singleton.1 hr]; exact h1
  · have key := foldl_invariant
      (fun acc : Option (List Rat × List (List Rat)) => ∀ res recs, acc = some (res, recs) →
        (∀ r ∈ res, Pos4 r) ∧ ∀ rec ∈ recs, ∀ r ∈ rec, Pos4 r)
      (fun acc x0 =>
        match acc with
        | none => none
        | some (res, recs) =>
          match capLoop a tol maxIter (maxIter + 2) (zeroDead a x0) none [] [] with
          | none => none
          | some run => some (res ++ run.results, recs ++ [run.record])) starts
      (by
        intro s x0 hx0 hP res' recs' heq
        cases s with
        | none => simp at heq
        | some pr =>
          obtain ⟨res0, recs0⟩ := pr
          have h0 := hP res0 recs0 rfl
          simp only at heq
          split at heq
          · cases heq
          · rename_i run hrun
            cases heq
            have hb := capLoop_bounds a tol maxIter htol _ _ _ _ _ run
              (zeroDead_in01 a x0 (hs x0 hx0)) (by simp) (by simp) hrun
            constructor
            · intro r hr
              rcases List.mem_append.1 hr with h' | h'
              · exact h0.1 r h'
              · exact hb.1 r h'
            · intro rec hrec r hr
              rcases List.mem_append.1 hrec with h' | h'
              · exact h0.2 rec h' r hr
              · rw [List.mem_singleton.1 h'] at hr; exact hb.2 r hr)
      (some ([], [])) (by intro res' recs' heq; cases heq; simp)
    exact key res recs h

/-! ## regular graphs -/

/-- `x` is (pointwise) the indicator vector of the vertices that have an arc. -/
def IsInd (a : Acc) (x : Vec) : Prop :=
  ∀ v : Nat, x.getD v 0 = if v < a.size ∧ a.live (v : Int) ≠ [] then 1 else 0

theorem foldl_add_ind (l : List Nat) (p : Nat → Bool) (f : Nat → Rat) (s : Rat)
    (h : ∀ w ∈ l, f w = if p w then 1 else 0) :
    l.foldl (fun s w => s + f w) s = s + ((l.filter p).length : Rat) := by
  induction l generalizing s with
  | nil => simp
  | cons b l ih =>
    rw [List.foldl_cons, ih _ fun w hw => h w (by simp [hw]), h b (by simp)]
    by_cases hp : p b = true
    · simp [hp]; linarith
    · simp [hp]

theorem array4 (r : Array Int) (h : r.size = 4) : ∃ a b c d, r = #[a, b, c, d] := by
  obtain ⟨l⟩ := r
  match l, h with
  | [a, b, c, d], _ => exact ⟨a, b, c, d, rfl⟩

theorem rowSum_iff {k v : Nat} {r : Array Int} (hr : RowOK k v r) :
    (r.foldl (· + ·) 0 == -4) = true ↔ ∀ j, j < 4 → ¬ 0 ≤ r.getD j (-1) := by
  obtain ⟨e0, e1, e2, e3, rfl⟩ := array4 r hr.1
  have h0 := hr.2 0 (by omega)
  have h1 := hr.2 1 (by omega)
  have h2 := hr.2 2 (by omega)
  have h3 := hr.2 3 (by omega)
  simp at h0 h1 h2 h3
  simp
  constructor
  · intro h j hj
    have : j = 0 ∨ j = 1 ∨ j = 2 ∨ j = 3 := by omega
    rcases this with rfl | rfl | rfl | rfl <;> simp <;> omega
  · intro h
    have g0 := h 0 (by omega)
    have g1 := h 1 (by omega)
    have g2 := h 2 (by omega)
    have g3 := h 3 (by omega)
    simp at g0 g1 g2 g3
    omega


theorem live_nil_iff (a : Acc) (v : Nat) :
    a.live (v : Int) = [] ↔ ∀ j, j < 4 → ¬ 0 ≤ (a.getD v #[]).getD j (-1) := by
  constructor
  · intro h j hj h0
    have : j ∈ a.live (v : Int) := (Acc.mem_live _ _ _).2 ⟨hj, by rw [Acc.ent_natCast]; exact h0⟩
    rw [h] at this; cases this
  · intro h
    rw [List.eq_nil_iff_forall_not_mem]
    intro j hj
    rw [Acc.mem_live, Acc.ent_natCast] at hj
    exact h j hj.1 hj.2

theorem zeroDead_ones_ind {k : Nat} {a : Acc} (hw : WFdB k a) :
    IsInd a (zeroDead a (Array.replicate a.size 1)) := by
  intro v
  by_cases hv : v < a.size
  · rw [zeroDead_getD a _ v hv]
    have hr := hw.rowOK (by rw [← hw.1]; exact hv : v < 4 ^ k)
    have h1 : (Array.replicate a.size (1 : Rat)).getD v 0 = 1 := by simp [Array.getD, hv]
    by_cases hl : a.live (v : Int) = []
    · rw [if_pos ((rowSum_iff hr).2 ((live_nil_iff a v).1 hl)), if_neg (by simp [hl])]
    · rw [if_neg (fun c => hl ((live_nil_iff a v).2 ((rowSum_iff hr).1 c))), h1, if_pos ⟨hv, hl⟩]
  · rw [getD_oob _ _ (by rw [zeroDead_size]; omega), if_neg (by omega)]

theorem not_arcless {k : Nat} {a : Acc} (hw : WFdB k a)
    (hlive : ∃ v : Nat, v < 4 ^ k ∧ a.live (v : Int) ≠ []) :
    ¬ a.all (fun r => r.all (· == -1)) = true := by
  intro h
  obtain ⟨v, hv, hl⟩ := hlive
  obtain ⟨j, hj⟩ := List.exists_mem_of_ne_nil _ hl
  rw [Acc.mem_live, Acc.ent_natCast] at hj
  have hvs : v < a.size := by rw [hw.1]; exact hv
  have hr := hw.rowOK hv
  rw [Array.all_eq_true] at h
  have h1 := h v hvs
  rw [Array.all_eq_true] at h1
  have hjs : j < a[v].size := by
    have : a.getD v #[] = a[v] := by simp [Array.getD, hvs]
    rw [← this, hr.1]; exact hj.1
  have h2 := h1 j hjs
  have h3 : (a.getD v #[]).getD j (-1) = a[v][j] := by simp [Array.getD, hvs, hjs]
  rw [h3] at hj
  simp at h2
  omega

section regular
variable {k d : Nat} {a : Acc} (hw : WFdB k a) (hd : 1 ≤ d)
  (hlive : ∃ v : Nat, v < 4 ^ k ∧ a.live (v : Int) ≠ [])
  (hreg : ∀ v : Nat, v < 4 ^ k → a.live (v : Int) ≠ [] →
    ((a.liveEntries (v : Int)).filter fun (w : Nat) => decide (a.live (w : Int) ≠ [])).length = d)
include hw hreg

theorem capY_ind (x : Vec) (hx : IsInd a x) (v : Nat) :
    (capY a x).getD v 0 = if v < a.size ∧ a.live (v : Int) ≠ [] then (d : Rat) else 0 := by
  by_cases hv : v < a.size
  · have hv' : v < 4 ^ k := by rw [← hw.1]; exact hv
    rw [capY_getD a x v hv,
      foldl_add_ind _ (fun (w : Nat) => decide (a.live (w : Int) ≠ [])) (fun w => x.getD w 0) 0]
    · by_cases hl : a.live (v : Int) = []
      · have : a.liveEntries (v : Int) = [] := by unfold Acc.liveEntries; rw [hl]; rfl
        rw [this, if_neg (by simp [hl])]; simp
      · rw [hreg v hv' hl, if_pos ⟨hv, hl⟩]; simp
    · intro w hw'
      rw [hx w]
      have hws : w < a.size := by
        rw [hw.liveEntries_eq hv', List.mem_map] at hw'
        obtain ⟨j, _, rfl⟩ := hw'
        rw [hw.1]; exact Nat.mod_lt _ (four_pow_pos k)
      by_cases hl : a.live (w : Int) = []
      · simp [hl]
      · simp [hl, hws]
  · rw [getD_oob _ _ (by rw [capY_size]; omega), if_neg (by omega)]

include hlive in
theorem capEv_ind (x : Vec) (hx : IsInd a x) : capEv a x = (d : Rat) := by
  have hd0 : (0 : Rat) ≤ (d : Rat) := Nat.cast_nonneg d
  unfold capEv
  rw [foldl_max_eq]
  apply le_antisymm
  · apply foldl_max_le _ _ _ hd0
    intro r hr
    obtain ⟨i, _, rfl⟩ := mem_toList_getD _ _ hr
    rw [capY_ind hw hreg x hx i]
    split
    · exact le_refl _
    · exact hd0
  · obtain ⟨v, hv, hl⟩ := hlive
    have hvs : v < a.size := by rw [hw.1]; exact hv
    have h := getD_mem (capY a x) v (by rw [capY_size]; exact hvs)
    rw [capY_ind hw hreg x hx v, if_pos ⟨hvs, hl⟩] at h
    exact foldl_max_ge_mem _ _ _ h

include hlive hd in
theorem capStep_ind (x : Vec) (hx : IsInd a x) :
    (capStep a x).2 = (d : Rat) ∧ IsInd a (capStep a x).1 := by
  have hev := capEv_ind hw hlive hreg x hx
  have hdpos : (0 : Rat) < (d : Rat) := by exact_mod_cast hd
  refine ⟨hev, ?_⟩
  intro v
  rw [capStep_eq]
  simp only [hev, gt_iff_lt, if_pos hdpos]
  by_cases hv : v < a.size
  · rw [getD_map _ _ _ (by rw [capY_size]; exact hv), capY_ind hw hreg x hx v]
    by_cases hl : a.live (v : Int) = []
    · rw [if_neg (by simp [hl]), if_neg (by simp [hl])]; simp
    · rw [if_pos ⟨hv, hl⟩, if_pos ⟨hv, hl⟩]; exact div_self (ne_of_gt hdpos)
  · rw [getD_map_oob _ _ _ (by rw [capY_size]; omega), if_neg (by omega)]

end regular

theorem ratAbs_zero : ratAbs 0 = 0 := by decide +kernel

theorem loopDiff_zero (a : Acc) (new last : Vec) (h : ∀ v, new.getD v 0 = last.getD v 0) :
    loopDiff a new last = 0 := by
  unfold loopDiff
  apply le_antisymm
  · apply foldl_max_le _ _ _ (le_refl _)
    intro r hr
    obtain ⟨v, _, rfl⟩ := List.mem_map.1 hr
    rw [h v, sub_self, ratAbs_zero]
  · exact foldl_max_ge_init _ _

theorem capLoop_regular {k d : Nat} {a : Acc} (tol : Rat) (maxIter : Nat) (hw : WFdB k a) (hd : 1 ≤ d)
    (htol : 0 < tol ∧ tol < 1) (hmax : 1 ≤ maxIter)
    (hlive : ∃ v : Nat, v < 4 ^ k ∧ a.live (v : Int) ≠ [])
    (hreg : ∀ v : Nat, v < 4 ^ k → a.live (v : Int) ≠ [] →
      ((a.liveEntries (v : Int)).filter fun (w : Nat) => decide (a.live (w : Int) ≠ [])).length = d)
    (x : Vec) (hx : IsInd a x) :
    capLoop a tol maxIter (maxIter + 2) x none [] [] = some ⟨[(d : Rat)], [(d : Rat), (d : Rat)]⟩ := by
  obtain ⟨h1e, h1v⟩ := capStep_ind hw hd hlive hreg x hx
  obtain ⟨h2e, h2v⟩ := capStep_ind hw hd hlive hreg _ h1v
  have hd1 : (1 : Rat) ≤ (d : Rat) := by exact_mod_cast hd
  have hdpos : (0 : Rat) < (d : Rat) := by linarith
  have hclamp : clampEv tol (d : Rat) = (d : Rat) := by
    unfold clampEv; rw [if_pos (by linarith [htol.2])]
  have hrel : loopRel (d : Rat) (d : Rat) = 0 := by
    unfold loopRel; rw [if_pos hdpos, sub_self, ratAbs_zero, zero_div]
  have hdiff : loopDiff a (capStep a (capStep a x).1).1 (capStep a x).1 = 0 :=
    loopDiff_zero _ _ _ fun v => by rw [h2v v, h1v v]
  have hres1 : loopRes1 a tol (capStep a x).1 (d : Rat) = [(d : Rat)] := by
    unfold loopRes1
    rw [h2e, hrel, hdiff, hclamp, if_pos ⟨htol.1, by simpa using htol.1⟩]
  have hres2 : loopRes2 tol maxIter ([] ++ [(d : Rat)]) = [] := by
    unfold loopRes2; rw [if_neg (by simp; omega)]
  rw [capLoop_none, h1e, capLoop_some, h2e, hres1, hres2, hclamp]
  simp

end Dsw.Power
