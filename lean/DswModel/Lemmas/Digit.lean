import DswModel.Model.Spiderweb
import DswModel.Lemmas.CoderDefs
import DswModel.Lemmas.DeBruijn
/-! Helper lemmas about `argsort`, `digitToPos`, `posToDigit`, `selectArc` (C18, C01, C05). -/
namespace Dsw

/-! ### live columns -/

theorem mem_live_iff (a : Acc) (v : Int) (j : Nat) : j ∈ a.live v ↔ j < 4 ∧ a.ent v j ≥ 0 := by
  unfold Acc.live
  simp [List.mem_filter]

theorem live_lt_four (a : Acc) (v : Int) {j : Nat} (h : j ∈ a.live v) : j < 4 :=
  ((mem_live_iff a v j).1 h).1

theorem live_ent_nonneg (a : Acc) (v : Int) {j : Nat} (h : j ∈ a.live v) : a.ent v j ≥ 0 :=
  ((mem_live_iff a v j).1 h).2

/-- the live columns are listed in strictly increasing order. -/
theorem live_pairwise_lt (a : Acc) (v : Int) : (a.live v).Pairwise (· < ·) := by
  unfold Acc.live
  exact List.Pairwise.filter _ List.pairwise_lt_range

theorem live_nodup (a : Acc) (v : Int) : (a.live v).Nodup :=
  (live_pairwise_lt a v).imp (fun h => Nat.ne_of_lt h)

theorem live_length_le_four (a : Acc) (v : Int) : (a.live v).length ≤ 4 := by
  unfold Acc.live
  exact Nat.le_trans (List.length_filter_le _ _) (by simp)

theorem outDeg_le_four (a : Acc) (v : Int) : a.outDeg v ≤ 4 := live_length_le_four a v

/-! ### generic list facts -/

theorem list_getD_eq_getElem {α} (l : List α) (d : α) {i : Nat} (h : i < l.length) :
    l.getD i d = l[i] := (List.getElem_eq_getD d).symm

theorem list_idxOf_cons_ne {x y : Nat} (l : List Nat) (h : x ≠ y) :
    (x :: l).idxOf y = l.idxOf y + 1 := by
  have hb : (x == y) = false := by simpa using h
  simp [List.idxOf_cons, hb]

theorem idxOf_getD_of_nodup {l : List Nat} (h : l.Nodup) {d : Nat} (hd : d < l.length) :
    l.idxOf (l.getD d 0) = d := by
  induction l generalizing d with
  | nil => simp at hd
  | cons x xs ih =>
    rw [List.nodup_cons] at h
    cases d with
    | zero => simp
    | succ d =>
      have hd' : d < xs.length := by simpa using hd
      have hmem : xs.getD d 0 ∈ xs := by
        rw [list_getD_eq_getElem _ _ hd']; exact List.getElem_mem hd'
      have hne : x ≠ xs.getD d 0 := fun e => h.1 (e ▸ hmem)
      simp only [List.getD_cons_succ]
      rw [list_idxOf_cons_ne _ hne, ih h.2 hd']

theorem getD_idxOf_of_mem {l : List Nat} {p : Nat} (h : p ∈ l) : l.getD (l.idxOf p) 0 = p := by
  have hlt : l.idxOf p < l.length := List.idxOf_lt_length_of_mem h
  rw [list_getD_eq_getElem _ _ hlt]
  exact List.getElem_idxOf hlt

/-- in a list strictly sorted by `key`, the position of a member equals the number of members
with a strictly smaller key. -/
theorem idxOf_eq_length_filter_of_sorted (key : Nat → Int) {l : List Nat}
    (hs : l.Pairwise (fun x y => key x < key y)) {p : Nat} (hp : p ∈ l) :
    l.idxOf p = (l.filter fun x => decide (key x < key p)).length := by
  induction l with
  | nil => simp at hp
  | cons x xs ih =>
    rw [List.pairwise_cons] at hs
    by_cases hx : x = p
    · subst hx
      have : (xs.filter fun y => decide (key y < key x)) = [] := by
        rw [List.filter_eq_nil_iff]
        intro y hy
        have := hs.1 y hy
        simp; omega
      simp [this]
    · have hp' : p ∈ xs := by
        rcases List.mem_cons.1 hp with h | h
        · exact absurd h.symm hx
        · exact h
      have hlt : key x < key p := hs.1 p hp'
      rw [list_idxOf_cons_ne _ hx, ih hs.2 hp']
      simp [hlt]

/-- counting positions whose entry satisfies `q` is counting entries that satisfy `q`. -/
theorem length_filter_range_getD {α} (l : List α) (d : α) (q : α → Bool) :
    ((List.range l.length).filter fun i => q (l.getD i d)).length = (l.filter q).length := by
  have hl : l = (List.range l.length).map fun i => l.getD i d := by
    apply List.ext_getElem
    · simp
    · intro i h1 h2
      simp [List.getElem?_eq_getElem h1]
  conv => rhs; rw [hl]
  rw [List.filter_map, List.length_map]
  rfl

/-! ### `insertByKey` / `argsort` -/

theorem insertByKey_perm (key : Nat → Int) (i : Nat) (l : List Nat) :
    (insertByKey key i l).Perm (i :: l) := by
  induction l with
  | nil => simp [insertByKey]
  | cons j r ih =>
    simp only [insertByKey]
    split
    · exact List.Perm.refl _
    · exact (List.Perm.cons j ih).trans (List.Perm.swap i j r)

theorem foldl_insertByKey_perm (key : Nat → Int) (l init : List Nat) :
    (l.foldl (fun acc i => insertByKey key i acc) init).Perm (l ++ init) := by
  induction l generalizing init with
  | nil => simp
  | cons x xs ih =>
    simp only [List.foldl_cons, List.cons_append]
    refine (ih _).trans ?_
    exact ((insertByKey_perm key x init).append_left xs).trans List.perm_middle

theorem insertByKey_sorted (key : Nat → Int) (i : Nat) {l : List Nat}
    (h : l.Pairwise (fun x y => key x ≤ key y)) :
    (insertByKey key i l).Pairwise (fun x y => key x ≤ key y) := by
  induction l with
  | nil => simp [insertByKey]
  | cons j r ih =>
    rw [List.pairwise_cons] at h
    simp only [insertByKey]
    split
    · rename_i hlt
      rw [List.pairwise_cons]
      refine ⟨?_, List.pairwise_cons.2 h⟩
      intro y hy
      rcases List.mem_cons.1 hy with rfl | hy
      · omega
      · have := h.1 y hy; omega
    · rename_i hge
      rw [List.pairwise_cons]
      refine ⟨?_, ih h.2⟩
      intro y hy
      rcases List.mem_cons.1 ((insertByKey_perm key i r).mem_iff.1 hy) with rfl | hy
      · omega
      · exact h.1 y hy

theorem foldl_insertByKey_sorted (key : Nat → Int) (l : List Nat) {init : List Nat}
    (h : init.Pairwise (fun x y => key x ≤ key y)) :
    (l.foldl (fun acc i => insertByKey key i acc) init).Pairwise (fun x y => key x ≤ key y) := by
  induction l generalizing init with
  | nil => simpa using h
  | cons x xs ih => exact ih (insertByKey_sorted key x h)

/-- `argsort` returns a permutation of the positions. -/
theorem argsort_perm (keys : List Int) : (argsort keys).Perm (List.range keys.length) := by
  unfold argsort
  simpa using foldl_insertByKey_perm (fun j => keys.getD j 0) (List.range keys.length) []

theorem argsort_nodup (keys : List Int) : (argsort keys).Nodup :=
  (argsort_perm keys).nodup_iff.2 List.nodup_range

theorem argsort_length (keys : List Int) : (argsort keys).length = keys.length := by
  simpa using (argsort_perm keys).length_eq

theorem mem_argsort (keys : List Int) (p : Nat) : p ∈ argsort keys ↔ p < keys.length := by
  rw [(argsort_perm keys).mem_iff, List.mem_range]

/-- `argsort` is (weakly) sorted by key. -/
theorem argsort_sorted_le (keys : List Int) :
    (argsort keys).Pairwise (fun x y => keys.getD x 0 ≤ keys.getD y 0) := by
  unfold argsort
  exact foldl_insertByKey_sorted (fun j => keys.getD j 0) _ List.Pairwise.nil

/-- with pairwise distinct keys `argsort` is strictly sorted by key. -/
theorem argsort_sorted_lt (keys : List Int) (hd : keys.Nodup) :
    (argsort keys).Pairwise (fun x y => keys.getD x 0 < keys.getD y 0) := by
  have h1 := argsort_sorted_le keys
  have h2 := argsort_nodup keys
  have h3 : ∀ x ∈ argsort keys, x < keys.length := fun x hx => (mem_argsort keys x).1 hx
  have h12 := h1.and h2
  refine h12.imp_of_mem ?_
  intro x y hx hy hxy
  have hxl := h3 x hx
  have hyl := h3 y hy
  have hne : keys.getD x 0 ≠ keys.getD y 0 := by
    rw [list_getD_eq_getElem _ _ hxl, list_getD_eq_getElem _ _ hyl]
    intro e
    exact hxy.2 ((List.getElem_inj hd).1 e)
  omega

/-- with distinct keys, the rank of position `p` in `argsort keys` is the number of keys smaller
than `keys[p]`. -/
theorem idxOf_argsort_eq_rank (keys : List Int) (hd : keys.Nodup) {p : Nat} (hp : p < keys.length) :
    (argsort keys).idxOf p = (keys.filter fun x => decide (x < keys.getD p 0)).length := by
  rw [idxOf_eq_length_filter_of_sorted (fun j => keys.getD j 0) (argsort_sorted_lt keys hd)
    ((mem_argsort keys p).2 hp)]
  rw [((argsort_perm keys).filter _).length_eq]
  exact length_filter_range_getD keys 0 (fun x => decide (x < keys.getD p 0))

/-! ### `digitToPos` / `posToDigit` -/

theorem keys_length (t : Tbl) (v : Int) (used : List Nat) : (t.keys v used).length = used.length := by
  simp [Tbl.keys]

theorem keys_eq_map_arcKey (t : Tbl) (v : Int) (used : List Nat) :
    t.keys v used = used.map (arcKey (some t) v) := rfl

theorem digitToPos_lt (tbl : Option Tbl) (v : Int) (used : List Nat) {d : Nat} (hd : d < used.length) :
    digitToPos tbl v used d < used.length := by
  cases tbl with
  | none => exact hd
  | some t =>
    simp only [digitToPos]
    have hl : d < (argsort (t.keys v used)).length := by
      rw [argsort_length, keys_length]; exact hd
    rw [list_getD_eq_getElem _ _ hl]
    have := (mem_argsort (t.keys v used) _).1 (List.getElem_mem hl)
    rwa [keys_length] at this

theorem posToDigit_lt (tbl : Option Tbl) (v : Int) (used : List Nat) {p : Nat} (hp : p < used.length) :
    posToDigit tbl v used p < used.length := by
  cases tbl with
  | none => exact hp
  | some t =>
    simp only [posToDigit]
    have hm : p ∈ argsort (t.keys v used) := by
      rw [mem_argsort, keys_length]; exact hp
    have := List.idxOf_lt_length_of_mem hm
    rwa [argsort_length, keys_length] at this

theorem posToDigit_digitToPos (tbl : Option Tbl) (v : Int) (used : List Nat) {d : Nat}
    (hd : d < used.length) : posToDigit tbl v used (digitToPos tbl v used d) = d := by
  cases tbl with
  | none => rfl
  | some t =>
    simp only [posToDigit, digitToPos]
    apply idxOf_getD_of_nodup (argsort_nodup _)
    rw [argsort_length, keys_length]; exact hd

theorem digitToPos_posToDigit (tbl : Option Tbl) (v : Int) (used : List Nat) {p : Nat}
    (hp : p < used.length) : digitToPos tbl v used (posToDigit tbl v used p) = p := by
  cases tbl with
  | none => rfl
  | some t =>
    simp only [posToDigit, digitToPos]
    apply getD_idxOf_of_mem
    rw [mem_argsort, keys_length]; exact hp

/-! ### `selectArc` / `arcDigit` -/

theorem selectArc_mem (a : Acc) (tbl : Option Tbl) (v : Int) {d : Nat} (hd : d < a.outDeg v) :
    selectArc a tbl v d ∈ a.live v := by
  have h := digitToPos_lt tbl v (a.live v) hd
  simp only [selectArc]
  rw [list_getD_eq_getElem _ _ h]
  exact List.getElem_mem h

theorem selectArc_lt_four (a : Acc) (tbl : Option Tbl) (v : Int) {d : Nat} (hd : d < a.outDeg v) :
    selectArc a tbl v d < 4 := live_lt_four a v (selectArc_mem a tbl v hd)

theorem arcDigit_selectArc (a : Acc) (tbl : Option Tbl) (v : Int) {d : Nat} (hd : d < a.outDeg v) :
    arcDigit a tbl v (selectArc a tbl v d) = d := by
  have h := digitToPos_lt tbl v (a.live v) hd
  simp only [arcDigit, selectArc]
  rw [idxOf_getD_of_nodup (live_nodup a v) h]
  exact posToDigit_digitToPos tbl v (a.live v) hd

theorem arcDigit_lt (a : Acc) (tbl : Option Tbl) (v : Int) {j : Nat} (hj : j ∈ a.live v) :
    arcDigit a tbl v j < a.outDeg v :=
  posToDigit_lt tbl v (a.live v) (List.idxOf_lt_length_of_mem hj)

theorem selectArc_arcDigit (a : Acc) (tbl : Option Tbl) (v : Int) {j : Nat} (hj : j ∈ a.live v) :
    selectArc a tbl v (arcDigit a tbl v j) = j := by
  simp only [arcDigit, selectArc]
  rw [digitToPos_posToDigit tbl v (a.live v) (List.idxOf_lt_length_of_mem hj)]
  exact getD_idxOf_of_mem hj

/-- `selectArc` is injective on the digits below the out-degree. -/
theorem selectArc_inj (a : Acc) (tbl : Option Tbl) (v : Int) {d e : Nat} (hd : d < a.outDeg v)
    (he : e < a.outDeg v) (h : selectArc a tbl v d = selectArc a tbl v e) : d = e := by
  rw [← arcDigit_selectArc a tbl v hd, ← arcDigit_selectArc a tbl v he, h]

/-- `arcDigit` is injective on the live columns. -/
theorem arcDigit_inj (a : Acc) (tbl : Option Tbl) (v : Int) {i j : Nat} (hi : i ∈ a.live v)
    (hj : j ∈ a.live v) (h : arcDigit a tbl v i = arcDigit a tbl v j) : i = j := by
  rw [← selectArc_arcDigit a tbl v hi, ← selectArc_arcDigit a tbl v hj, h]

/-! ### the digit is the rank -/

theorem distinctKeys_none (a : Acc) (v : Int) : DistinctKeys a none v := by
  unfold DistinctKeys
  rw [List.Nodup, List.pairwise_map]
  refine (live_pairwise_lt a v).imp ?_
  intro x y h
  simp only [arcKey]
  omega

theorem arcRank_lt (a : Acc) (tbl : Option Tbl) (v : Int) {j : Nat} (hj : j ∈ a.live v) :
    arcRank a tbl v j < a.outDeg v := by
  unfold arcRank Acc.outDeg
  apply List.length_filter_lt_length_iff_exists.2
  exact ⟨j, hj, by simp⟩

theorem arcDigit_eq_arcRank (a : Acc) (tbl : Option Tbl) (v : Int) {j : Nat} (hj : j ∈ a.live v)
    (hd : DistinctKeys a tbl v) : arcDigit a tbl v j = arcRank a tbl v j := by
  cases tbl with
  | none =>
    simp only [arcDigit, posToDigit, arcRank]
    apply idxOf_eq_length_filter_of_sorted (arcKey none v) _ hj
    refine (live_pairwise_lt a v).imp ?_
    intro x y h
    simp only [arcKey]
    omega
  | some t =>
    have hp : (a.live v).idxOf j < (t.keys v (a.live v)).length := by
      rw [keys_length]; exact List.idxOf_lt_length_of_mem hj
    have hk : (t.keys v (a.live v)).getD ((a.live v).idxOf j) 0 = arcKey (some t) v j := by
      rw [list_getD_eq_getElem _ _ hp]
      simp [keys_eq_map_arcKey]
    have hd' : (t.keys v (a.live v)).Nodup := hd
    simp only [arcDigit, posToDigit, arcRank]
    rw [idxOf_argsort_eq_rank _ hd' hp, hk, keys_eq_map_arcKey, List.filter_map, List.length_map]
    rfl

/-! ### tables -/

theorem createRandomShuffles_size (k : Nat) (shuffle : Nat → List Int → List Int) :
    (createRandomShuffles k shuffle).size = 4 ^ k := by
  simp [createRandomShuffles]

theorem createRandomShuffles_permRows (k : Nat) (shuffle : Nat → List Int → List Int)
    (hs : ∀ i l, (shuffle i l).Perm l) : Tbl.PermRows (createRandomShuffles k shuffle) := by
  intro r hr
  simp only [createRandomShuffles, Array.mem_toList_iff, Array.mem_map] at hr
  obtain ⟨i, _, rfl⟩ := hr
  exact hs i _

/-- a row that is a permutation of `0..3` has distinct entries on the live columns. -/
theorem distinctKeys_of_permRows (a : Acc) (t : Tbl) (v : Nat) (hv : v < t.size) (ht : t.PermRows) :
    DistinctKeys a (some t) v := by
  have hrow : Acc.row t (v : Int) = t[v] := by
    rw [Acc.row_natCast]; simp [Array.getD, hv]
  have hperm : (t[v]).toList.Perm [0, 1, 2, 3] := ht _ (by simp)
  have hnd : (t[v]).toList.Nodup := hperm.nodup_iff.2 (by decide)
  have hlen : (t[v]).size = 4 := by simpa using hperm.length_eq
  unfold DistinctKeys
  rw [List.Nodup, List.pairwise_map]
  refine (live_pairwise_lt a v).imp_of_mem ?_
  intro x y hx hy hxy
  have hx4 : x < (t[v]).size := by have := live_lt_four a v hx; omega
  have hy4 : y < (t[v]).size := by have := live_lt_four a v hy; omega
  simp only [arcKey, hrow]
  intro e
  rw [Array.getD_eq_getD_getElem?, Array.getD_eq_getD_getElem?] at e
  simp only [Array.getElem?_eq_getElem hx4, Array.getElem?_eq_getElem hy4, Option.getD_some] at e
  have : x = y := by
    have h' : (t[v]).toList[x]'(by simpa using hx4) = (t[v]).toList[y]'(by simpa using hy4) := by
      simpa using e
    exact (List.getElem_inj hnd).1 h'
  omega

end Dsw
