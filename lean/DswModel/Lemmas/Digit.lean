import DswModel.Model.Spiderweb
import DswModel.Lemmas.CoderDefs
/-! Helper lemmas about `argsort`, `digitToPos`, `posToDigit`, `selectArc` (C18, C01, C05). -/
namespace Dsw

end Dsw
