import DswModel.Model.Spiderweb
import DswModel.Lemmas.Defs
/-! Helper lemmas for `repair_dna` / `path_matching` (C09, C10, C08). -/
namespace Dsw

/-! ## `Except` folds and maps -/

theorem R.bind_ok {α β} (x : R α) (f : α → R β) (b : β) (h : x.bind f = .ok b) :
    ∃ y, x = .ok y ∧ f y = .ok b := by
  cases x with
  | error e => simp [Except.bind] at h
  | ok y => exact ⟨y, rfl, h⟩

theorem R.bind_eq_ok {α β} (x : R α) (f : α → R β) (b : β) (h : x >>= f = .ok b) :
    ∃ y, x = .ok y ∧ f y = .ok b := R.bind_ok x f b h

/-- invariant rule for a successful `foldlM`. -/
theorem foldlM_ok_inv {α β} (f : β → α → R β) (P : β → Prop) :
    ∀ (l : List α) (b r : β), (∀ acc x r, x ∈ l → P acc → f acc x = .ok r → P r) →
      P b → l.foldlM f b = .ok r → P r := by
  intro l
  induction l with
  | nil => intro b r _ hb h; simp [pure, Except.pure] at h; exact h ▸ hb
  | cons x xs ih =>
    intro b r hstep hb h
    rw [List.foldlM_cons] at h
    obtain ⟨y, hy, h⟩ := R.bind_eq_ok _ _ _ h
    exact ih y r (fun acc x' r' hx' => hstep acc x' r' (List.mem_cons_of_mem _ hx'))
      (hstep b x y List.mem_cons_self hb hy) h

/-- totality rule for `foldlM`: if every step from a state satisfying `P` succeeds and
re-establishes `P`, the fold succeeds. -/
theorem foldlM_total {α β} (f : β → α → R β) (P : β → Prop) :
    ∀ (l : List α) (b : β), (∀ acc x, x ∈ l → P acc → ∃ r, f acc x = .ok r ∧ P r) →
      P b → ∃ r, l.foldlM f b = .ok r ∧ P r := by
  intro l
  induction l with
  | nil => intro b _ hb; exact ⟨b, rfl, hb⟩
  | cons x xs ih =>
    intro b hstep hb
    obtain ⟨y, hy, hP⟩ := hstep b x List.mem_cons_self hb
    rw [List.foldlM_cons, hy]
    exact ih y (fun acc x' hx' => hstep acc x' (List.mem_cons_of_mem _ hx')) hP

theorem mapM_ok_mem {α β} (f : α → R β) : ∀ (l : List α) (r : List β), l.mapM f = .ok r →
    ∀ y ∈ r, ∃ x ∈ l, f x = .ok y := by
  intro l
  induction l with
  | nil => intro r h; simp [pure, Except.pure] at h; subst h; simp
  | cons x xs ih =>
    intro r h y hy
    rw [List.mapM_cons] at h
    obtain ⟨z, hz, h⟩ := R.bind_eq_ok _ _ _ h
    obtain ⟨zs, hzs, h⟩ := R.bind_eq_ok _ _ _ h
    simp [pure, Except.pure] at h
    subst h
    rcases List.mem_cons.mp hy with rfl | hy
    · exact ⟨x, List.mem_cons_self, hz⟩
    · obtain ⟨x', hx', e⟩ := ih zs hzs y hy
      exact ⟨x', List.mem_cons_of_mem _ hx', e⟩

theorem mapM_total {α β} (f : α → R β) : ∀ (l : List α), (∀ x ∈ l, ∃ y, f x = .ok y) →
    ∃ r, l.mapM f = .ok r := by
  intro l
  induction l with
  | nil => intro _; exact ⟨[], rfl⟩
  | cons x xs ih =>
    intro h
    obtain ⟨y, hy⟩ := h x List.mem_cons_self
    obtain ⟨r, hr⟩ := ih (fun x' hx' => h x' (List.mem_cons_of_mem _ hx'))
    rw [List.mapM_cons, hy, hr]
    exact ⟨y :: r, rfl⟩

/-! ## lists: `eraseDups`, insertion sort, Python string order -/

theorem nodup_eraseDups {α} [BEq α] [LawfulBEq α] : ∀ (n : Nat) (l : List α), l.length ≤ n →
    l.eraseDups.Nodup := by
  intro n
  induction n with
  | zero => intro l h; cases l <;> simp_all
  | succ n ih =>
    intro l h
    cases l with
    | nil => simp
    | cons x xs =>
      rw [List.eraseDups_cons, List.nodup_cons]
      refine ⟨?_, ih _ ?_⟩
      · simp [List.mem_eraseDups]
      · have := List.length_filter_le (fun b => !b == x) xs
        simp at h; omega

theorem mem_insertSorted {α} (le : α → α → Bool) (x y : α) (l : List α) :
    y ∈ insertSorted le x l ↔ y = x ∨ y ∈ l := by
  induction l with
  | nil => simp [insertSorted]
  | cons z zs ih =>
    simp only [insertSorted]
    split
    · simp
    · simp [ih]; grind

theorem isort_cons {α} (le : α → α → Bool) (z : α) (zs : List α) :
    isort le (z :: zs) = insertSorted le z (isort le zs) := rfl

theorem mem_isort {α} (le : α → α → Bool) (y : α) (l : List α) : y ∈ isort le l ↔ y ∈ l := by
  induction l with
  | nil => simp [isort]
  | cons z zs ih =>
    rw [isort_cons, mem_insertSorted, ih]; simp

theorem pairwise_insertSorted {α} (le : α → α → Bool) (R : α → α → Prop)
    (hle : ∀ x y, le x y = true → R x y) (hnle : ∀ x y, le x y = false → R y x)
    (htr : ∀ x y z, R x y → R y z → R x z) (x : α) (l : List α)
    (hl : l.Pairwise R) : (insertSorted le x l).Pairwise R := by
  induction l with
  | nil => simp [insertSorted]
  | cons z zs ih =>
    rw [List.pairwise_cons] at hl
    simp only [insertSorted]
    split
    · rename_i h
      refine List.pairwise_cons.mpr ⟨?_, List.pairwise_cons.mpr hl⟩
      intro b hb
      rcases List.mem_cons.mp hb with rfl | hb
      · exact hle _ _ h
      · exact htr _ _ _ (hle _ _ h) (hl.1 b hb)
    · rename_i h
      refine List.pairwise_cons.mpr ⟨?_, ih hl.2⟩
      intro b hb
      rcases (mem_insertSorted le x b zs).mp hb with rfl | hb
      · exact hnle _ _ (by simpa using h)
      · exact hl.1 b hb

theorem nodup_insertSorted {α} (le : α → α → Bool) (x : α) (l : List α) (hx : x ∉ l)
    (hl : l.Nodup) : (insertSorted le x l).Nodup := by
  induction l with
  | nil => simp [insertSorted]
  | cons z zs ih =>
    rw [List.nodup_cons] at hl
    simp only [insertSorted]
    split
    · exact List.nodup_cons.mpr ⟨hx, List.nodup_cons.mpr hl⟩
    · refine List.nodup_cons.mpr ⟨?_, ih (by simp at hx; exact hx.2) hl.2⟩
      rw [mem_insertSorted]
      simp at hx
      rintro (rfl | h)
      · exact hx.1 rfl
      · exact hl.1 h

theorem nodup_isort {α} (le : α → α → Bool) (l : List α) (hl : l.Nodup) : (isort le l).Nodup := by
  induction l with
  | nil => simp [isort]
  | cons z zs ih =>
    rw [List.nodup_cons] at hl
    rw [isort_cons]
    exact nodup_insertSorted le z _ (by rw [mem_isort]; exact hl.1) (ih hl.2)

theorem strLe_total : ∀ x y : List Char, strLe x y = false → strLe y x = true
  | [], _ => by simp [strLe]
  | _ :: _, [] => by simp [strLe]
  | x :: xs, y :: ys => by
    simp only [strLe]
    intro h
    split at h
    · simp at h
    · split at h
      · simp [*]
      · rename_i h1 h2
        simp only [h1, h2, if_false]
        exact strLe_total xs ys h

theorem strLe_trans : ∀ x y z : List Char, strLe x y = true → strLe y z = true → strLe x z = true
  | [], _, _ => by simp [strLe]
  | _ :: _, [], _ => by simp [strLe]
  | _ :: _, _ :: _, [] => by simp [strLe]
  | x :: xs, y :: ys, z :: zs => by
    simp only [strLe]
    intro h1 h2
    by_cases a1 : x.toNat < y.toNat
    · by_cases a2 : y.toNat < z.toNat
      · have : x.toNat < z.toNat := by omega
        simp [this]
      · by_cases a3 : z.toNat < y.toNat
        · simp [a2, a3] at h2
        · have : x.toNat < z.toNat := by omega
          simp [this]
    · by_cases a1' : y.toNat < x.toNat
      · simp [a1, a1'] at h1
      · simp only [a1, a1', if_false] at h1
        by_cases a2 : y.toNat < z.toNat
        · have : x.toNat < z.toNat := by omega
          simp [this]
        · by_cases a3 : z.toNat < y.toNat
          · simp [a2, a3] at h2
          · simp only [a2, a3, if_false] at h2
            have e1 : ¬ x.toNat < z.toNat := by omega
            have e2 : ¬ z.toNat < x.toNat := by omega
            simp only [e1, e2, if_false]
            exact strLe_trans xs ys zs h1 h2

/-- the output stage of `repairDna` is strictly increasing. -/
theorem isort_eraseDups_pairwise (l : List (List Char)) :
    (isort strLe l.eraseDups).Pairwise strLt := by
  have hnd : (isort strLe l.eraseDups).Nodup := nodup_isort _ _ (nodup_eraseDups _ _ (Nat.le_refl _))
  have hs : (isort strLe l.eraseDups).Pairwise (fun x y => strLe x y = true) := by
    generalize l.eraseDups = m
    induction m with
    | nil => simp [isort]
    | cons z zs ih =>
      rw [isort_cons]
      exact pairwise_insertSorted strLe _ (fun _ _ h => h) strLe_total strLe_trans z _ ih
  exact (hs.and hnd).imp (fun h => h)

/-! ## generic facts about the scan loop -/

@[simp] theorem Scan.advance_loc (st : Scan) (c : Char) (t : Int) : (st.advance c t).loc = st.loc + 1 := rfl
@[simp] theorem Scan.detect_loc (st : Scan) (k : Nat) (dna : List Char) :
    (st.detect k dna).loc = st.loc + k + 1 := rfl

theorem scanStep_cases (a : Acc) (k : Nat) (dna : List Char) (st : Scan) :
    (∃ t, a.next st.v (dna.getD st.loc 'A') = some t ∧
        scanStep a k dna st = st.advance (dna.getD st.loc 'A') t) ∨
    (a.next st.v (dna.getD st.loc 'A') = none ∧ scanStep a k dna st = st.detect k dna) := by
  cases h : a.next st.v (dna.getD st.loc 'A') with
  | none => right; simp only [scanStep, h, and_self]
  | some t => left; exact ⟨t, rfl, by simp only [scanStep, h]⟩

theorem scanStep_loc_lt (a : Acc) (k : Nat) (dna : List Char) (st : Scan) :
    st.loc < (scanStep a k dna st).loc := by
  rcases scanStep_cases a k dna st with ⟨t, -, h⟩ | ⟨-, h⟩ <;> rw [h] <;> simp <;> omega

theorem scan_done (a : Acc) (k : Nat) (dna : List Char) (fuel : Nat) (st : Scan)
    (h : dna.length ≤ st.loc) : scan a k dna fuel st = some st := by
  cases fuel <;> simp [scan, Nat.not_lt.mpr h]

theorem scan_succ (a : Acc) (k : Nat) (dna : List Char) (fuel : Nat) (st : Scan)
    (h : st.loc < dna.length) :
    scan a k dna (fuel + 1) st = scan a k dna fuel (scanStep a k dna st) := by
  simp [scan, h]

/-- the invariant rule for the scan loop: a predicate preserved by every step taken inside the
strand holds of the final state, which exists as soon as the fuel covers the remaining length. -/
theorem scan_inv (a : Acc) (k : Nat) (dna : List Char) (P : Scan → Prop)
    (hstep : ∀ st, P st → st.loc < dna.length → P (scanStep a k dna st)) :
    ∀ (fuel : Nat) (st : Scan), P st → dna.length - st.loc ≤ fuel →
      ∃ st', scan a k dna fuel st = some st' ∧ P st' ∧ dna.length ≤ st'.loc := by
  intro fuel
  induction fuel with
  | zero =>
    intro st hP hf
    exact ⟨st, scan_done a k dna 0 st (by omega), hP, by omega⟩
  | succ fuel ih =>
    intro st hP hf
    by_cases hlt : st.loc < dna.length
    · rw [scan_succ a k dna fuel st hlt]
      have := scanStep_loc_lt a k dna st
      exact ih _ (hstep st hP hlt) (by omega)
    · exact ⟨st, scan_done a k dna _ st (by omega), hP, by omega⟩

/-- the initial scan state of `repairDna`. -/
def Scan.init (dna : List Char) (v : Int) : Scan :=
  { v := v, queue := List.replicate dna.length (-1) }

/-- invariant rule specialised to the call made by `repairDna`. -/
theorem scan_init_inv (a : Acc) (k : Nat) (dna : List Char) (v : Int) (P : Scan → Prop)
    (h0 : P (Scan.init dna v))
    (hstep : ∀ st, P st → st.loc < dna.length → P (scanStep a k dna st)) :
    ∃ st', scan a k dna (dna.length + 1) (Scan.init dna v) = some st' ∧ P st' ∧
      dna.length ≤ st'.loc :=
  scan_inv a k dna P hstep _ _ h0 (by simp [Scan.init])

/-- counting invariant: detections are `k + 1` apart and start inside the strand. -/
structure ScanCount (k : Nat) (dna : List Char) (st : Scan) : Prop where
  det_le : st.detected * (k + 1) ≤ st.loc
  loc_le : st.loc ≤ dna.length + k
  vis_le : st.visited ≤ st.loc ∧ st.visited ≤ dna.length
  chunks_len : st.chunks.length = st.detected
  markers_len : st.markers.length = st.detected

theorem ScanCount.init (k : Nat) (dna : List Char) (v : Int) : ScanCount k dna (Scan.init dna v) := by
  constructor <;> simp [Scan.init]

theorem ScanCount.step (a : Acc) (k : Nat) (dna : List Char) (st : Scan)
    (h : ScanCount k dna st) (hlt : st.loc < dna.length) : ScanCount k dna (scanStep a k dna st) := by
  obtain ⟨h1, h2, ⟨h3, h3'⟩, h4, h5⟩ := h
  rcases scanStep_cases a k dna st with ⟨t, -, e⟩ | ⟨-, e⟩ <;> rw [e]
  · constructor <;> simp [Scan.advance] <;> omega
  · constructor <;> simp [Scan.detect, Nat.add_mul] <;> omega

/-! ## the shape of `repairDna` -/


/-- the fragment-collection fold of `repairDna` over the recorded detections. -/
def fragFold (a : Acc) (k : Nat) (dna : List Char) (hasIndel : Bool) (st : Scan) :
    R (List (List (List Char)) × Nat) :=
  (st.chunks.reverse.zip st.markers.reverse).foldlM
    (fun (acc : List (List (List Char)) × Nat) (cm : List Char × List Int) => do
      let r ← collectFragments a k dna cm.1 cm.2 hasIndel
      pure (acc.1 ++ [r.1], acc.2 + r.2)) ([], st.visited)

/-- one recombined candidate of `repairDna`. -/
def candOf (splits : List (List Char)) (frs : List (List Char)) : List Char :=
  (splits.zip frs).foldl (fun s (p : List Char × List Char) => s ++ p.1 ++ p.2) []
    ++ splits.getLastD []

def fragCount (fragSets : List (List (List Char))) : Nat := fragSets.foldl (fun c f => c * f.length) 1

/-- what `repairDna` does after the scan and the fragment fold. -/
def repairTail (dna : List Char) (chk : Option (List Char)) (heap : Nat) (st : Scan)
    (fv : List (List (List Char)) × Nat) : R (List (List Char) × RepairStats) :=
  if fragCount fv.1 = 0 ∨ fragCount fv.1 > heap then
    (vtMatches dna chk).bind fun okc =>
      if okc then pure ([dna], ⟨0, false, 0, fv.2⟩) else pure ([], ⟨0, true, 0, fv.2⟩)
  else
    (((product fv.1).map (candOf st.splits.reverse)).mapM
        fun c => (vtMatches c chk).map fun b => (c, b)).bind fun checked =>
      pure (isort strLe ((checked.filter (·.2)).map (·.1)).eraseDups,
        ⟨st.detected, checked.any (fun cb => !cb.2), fragCount fv.1, fv.2⟩)

theorem repairDna_eq (a : Acc) (dna : List Char) (start : Int) (k : Nat) (chk : Option (List Char))
    (hasIndel : Bool) (heap : Nat) :
    repairDna a dna start k chk hasIndel heap =
      match scan a k dna (dna.length + 1) (Scan.init dna start) with
      | none => .error .outOfFuel
      | some st => (fragFold a k dna hasIndel st).bind (repairTail dna chk heap st) := by
  unfold repairDna Scan.init
  cases scan a k dna (dna.length + 1) { v := start, queue := List.replicate dna.length (-1) } with
  | none => rfl
  | some st => rfl

/-- inversion of a successful `repairDna`. -/
theorem repairDna_ok_inv {a : Acc} {dna : List Char} {start : Int} {k : Nat}
    {chk : Option (List Char)} {hasIndel : Bool} {heap : Nat} {res : List (List Char) × RepairStats}
    (h : repairDna a dna start k chk hasIndel heap = .ok res) :
    ∃ st fv, scan a k dna (dna.length + 1) (Scan.init dna start) = some st ∧
      fragFold a k dna hasIndel st = .ok fv ∧ repairTail dna chk heap st fv = .ok res := by
  rw [repairDna_eq] at h
  split at h
  · cases h
  · rename_i st hst
    obtain ⟨fv, hfv, h⟩ := R.bind_ok _ _ _ h
    exact ⟨st, fv, hst, hfv, h⟩

theorem repairDna_of_scan {a : Acc} {dna : List Char} {start : Int} {k : Nat}
    {chk : Option (List Char)} {hasIndel : Bool} {heap : Nat} {st : Scan}
    {fv : List (List (List Char)) × Nat}
    (hs : scan a k dna (dna.length + 1) (Scan.init dna start) = some st)
    (hf : fragFold a k dna hasIndel st = .ok fv) :
    repairDna a dna start k chk hasIndel heap = repairTail dna chk heap st fv := by
  rw [repairDna_eq, hs]; simp only [hf]; rfl

/-- inversion of a successful `repairTail`: either the fallback or the product path. -/
theorem repairTail_ok_inv {dna : List Char} {chk : Option (List Char)} {heap : Nat} {st : Scan}
    {fv : List (List (List Char)) × Nat} {res : List (List Char) × RepairStats}
    (h : repairTail dna chk heap st fv = .ok res) :
    (∃ okc, vtMatches dna chk = .ok okc ∧ res.1 = (if okc then [dna] else []) ∧
        res.2.visited = fv.2) ∨
    (∃ checked, ((product fv.1).map (candOf st.splits.reverse)).mapM
          (fun c => (vtMatches c chk).map fun b => (c, b)) = .ok checked ∧
        res.1 = isort strLe ((checked.filter (·.2)).map (·.1)).eraseDups ∧
        res.2.visited = fv.2 ∧ res.2.detected = st.detected) := by
  unfold repairTail at h
  split at h
  · left
    obtain ⟨okc, hokc, h⟩ := R.bind_ok _ _ _ h
    refine ⟨okc, hokc, ?_⟩
    cases okc <;> simp [pure, Except.pure] at h <;> subst h <;> simp
  · right
    obtain ⟨checked, hc, h⟩ := R.bind_ok _ _ _ h
    refine ⟨checked, hc, ?_⟩
    simp [pure, Except.pure] at h; subst h; simp


/-! ## arcs, walks, ACGT strings -/

theorem Acc.next_eq_some {a : Acc} {v : Int} {c : Char} {t : Int} (h : a.next v c = some t) :
    (nucIdx c).isSome = true ∧ t = a.ent v ((nucIdx c).getD 0) ∧ 0 ≤ t := by
  unfold Acc.next at h
  cases hj : nucIdx c with
  | none => simp [hj] at h
  | some j =>
    simp only [hj] at h
    split at h
    · simp at h; subst h; simp; omega
    · cases h

theorem IsAcgt.nil : IsAcgt [] := by simp [IsAcgt]

theorem IsAcgt.cons {c : Char} {s : List Char} : IsAcgt (c :: s) ↔ (nucIdx c).isSome = true ∧ IsAcgt s := by
  simp [IsAcgt]

theorem IsAcgt.append {s t : List Char} : IsAcgt (s ++ t) ↔ IsAcgt s ∧ IsAcgt t := by
  simp only [IsAcgt, List.mem_append]
  constructor
  · intro h; exact ⟨fun c hc => h c (Or.inl hc), fun c hc => h c (Or.inr hc)⟩
  · rintro ⟨h1, h2⟩ c (hc | hc); exact h1 c hc; exact h2 c hc

theorem IsAcgt.of_subset {s t : List Char} (ht : IsAcgt t) (h : ∀ c ∈ s, c ∈ t) : IsAcgt s :=
  fun c hc => ht c (h c hc)

theorem nucIdx_nucChar_rep (j : Nat) : (nucIdx (nucChar j)).isSome = true := by
  unfold nucChar
  split
  · decide
  · split
    · decide
    · split <;> decide

theorem isWalk_isAcgt (a : Acc) : ∀ (s : List Char) (v : Int), isWalk a v s = true → IsAcgt s
  | [], _, _ => IsAcgt.nil
  | c :: s, v, h => by
    simp only [isWalk] at h
    split at h
    · rename_i t ht
      exact IsAcgt.cons.mpr ⟨(Acc.next_eq_some ht).1, isWalk_isAcgt a s t h⟩
    · cases h

theorem nucValues_ok_rep : ∀ (s : List Char), IsAcgt s → ∃ vs, nucValues s = .ok vs
  | [], _ => ⟨[], rfl⟩
  | c :: s, h => by
    obtain ⟨h1, h2⟩ := IsAcgt.cons.mp h
    obtain ⟨vs, hvs⟩ := nucValues_ok_rep s h2
    obtain ⟨j, hj⟩ := Option.isSome_iff_exists.mp h1
    exact ⟨j :: vs, by simp [nucValues, hj, hvs, Except.map]⟩

/-- `set_vt` / the check comparison never raise on an ACGT string. -/
theorem setVt_ok_rep {s : List Char} (h : IsAcgt s) (n : Nat) : ∃ r, setVt s n = .ok r := by
  obtain ⟨vs, hvs⟩ := nucValues_ok_rep s h
  simp only [setVt, hvs, Except.map]
  exact ⟨_, rfl⟩

theorem vtMatches_ok {s : List Char} (h : IsAcgt s) (chk : Option (List Char)) :
    ∃ b, vtMatches s chk = .ok b := by
  cases chk with
  | none => exact ⟨true, rfl⟩
  | some c =>
    obtain ⟨r, hr⟩ := setVt_ok_rep h c.length
    exact ⟨r == c, by simp only [vtMatches, hr, Except.map]⟩

theorem vtMatches_some_true {x c : List Char} (h : vtMatches x (some c) = .ok true) :
    setVt x c.length = .ok c := by
  simp only [vtMatches] at h
  cases hs : setVt x c.length with
  | error e => simp [hs, Except.map] at h
  | ok r => simp [hs, Except.map] at h; rw [h]

/-! ## scanning along a walk -/

/-- the state after following the arcs spelled by `w`. -/
def Scan.run (a : Acc) (st : Scan) : List Char → Scan
  | [] => st
  | c :: w => Scan.run a (st.advance c (a.ent st.v ((nucIdx c).getD 0))) w

theorem Scan.run_fields (a : Acc) : ∀ (w : List Char) (st : Scan),
    (st.run a w).loc = st.loc + w.length ∧ (st.run a w).v = walkEnd a st.v w ∧
    (st.run a w).detected = st.detected ∧ (st.run a w).chunks = st.chunks ∧
    (st.run a w).markers = st.markers ∧ (st.run a w).visited = st.visited + w.length ∧
    (st.run a w).queue.length = st.queue.length
  | [], st => by simp [Scan.run, walkEnd]
  | c :: w, st => by
    obtain ⟨h1, h2, h3, h4, h5, h6, h8⟩ := Scan.run_fields a w
      (st.advance c (a.ent st.v ((nucIdx c).getD 0)))
    simp only [Scan.run, walkEnd]
    refine ⟨?_, h2, h3, h4, h5, ?_, ?_⟩
    · rw [h1]; simp; omega
    · rw [h6]; simp [Scan.advance]; omega
    · rw [h8]; simp [Scan.advance]

theorem Scan.run_splits (a : Acc) : ∀ (w : List Char) (st : Scan), st.splits ≠ [] →
    (st.run a w).splits = (st.splits.headD [] ++ w) :: st.splits.tail
  | [], st, h => by
    cases hs : st.splits with
    | nil => exact absurd hs h
    | cons x xs => simp [Scan.run, hs]
  | c :: w, st, h => by
    simp only [Scan.run]
    rw [Scan.run_splits a w _ (by simp [Scan.advance])]
    simp [Scan.advance]

/-- a walk that is a prefix of the unread strand is consumed without any detection. -/
theorem scan_walk (a : Acc) (k : Nat) (dna : List Char) (fuel : Nat) :
    ∀ (w : List Char) (st : Scan), isWalk a st.v w = true →
      (∃ rest, dna.drop st.loc = w ++ rest) →
      scan a k dna (fuel + w.length) st = scan a k dna fuel (st.run a w)
  | [], st, _, _ => rfl
  | c :: w, st, hw, ⟨rest, hr⟩ => by
    have hlt : st.loc < dna.length := by
      apply Nat.lt_of_not_le; intro hge
      rw [List.drop_of_length_le hge] at hr; cases hr
    have hc : dna.getD st.loc 'A' = c := by
      have := List.getElem_drop (xs := dna) (i := st.loc) (j := 0) (h := by simp; omega)
      simp only [hr] at this
      simp [List.getD, List.getElem?_eq_getElem hlt]
      simpa using this.symm
    simp only [isWalk] at hw
    split at hw
    · rename_i t ht
      have hstep : scanStep a k dna st = st.advance c (a.ent st.v ((nucIdx c).getD 0)) := by
        simp only [scanStep, hc, ht, (Acc.next_eq_some ht).2.1]
      have : fuel + (c :: w).length = (fuel + w.length) + 1 := by simp; omega
      rw [this, scan_succ a k dna _ st hlt, hstep, Scan.run]
      apply scan_walk a k dna fuel w
      · simpa [Scan.advance, ← (Acc.next_eq_some ht).2.1] using hw
      · refine ⟨rest, ?_⟩
        have : dna.drop (st.loc + 1) = (dna.drop st.loc).drop 1 := by simp [List.drop_drop]
        simp [Scan.advance, this, hr]
    · cases hw


/-- the scan of a strand that is a walk: no detection, one split. -/
theorem scan_clean (a : Acc) (k : Nat) (s : List Char) (v : Int) (hw : isWalk a v s = true) :
    ∃ st, scan a k s (s.length + 1) (Scan.init s v) = some st ∧ st.detected = 0 ∧
      st.chunks = [] ∧ st.markers = [] ∧ st.splits = [s] ∧ st.visited = s.length ∧
      st.v = walkEnd a v s ∧ st.loc = s.length := by
  have h := scan_walk a k s 1 s (Scan.init s v) hw ⟨[], by simp [Scan.init]⟩
  obtain ⟨h1, h2, h3, h4, h5, h6, -⟩ := Scan.run_fields a s (Scan.init s v)
  have h7 := Scan.run_splits a s (Scan.init s v) (by simp [Scan.init])
  refine ⟨(Scan.init s v).run a s, ?_, ?_⟩
  · rw [Nat.add_comm, h]
    exact scan_done a k s 1 _ (by rw [h1]; simp [Scan.init])
  · simp [Scan.init] at h1 h2 h3 h4 h5 h6 h7
    exact ⟨h3, h4, h5, h7, h6, h2, h1⟩

/-! ## Python slices -/

theorem length_pySlice {α} (l : List α) (a b : Int) :
    (pySlice l a b).length =
      min (pyNorm l.length b - pyNorm l.length a) (l.length - pyNorm l.length a) := by
  simp [pySlice, List.length_take, List.length_drop]

theorem mem_of_mem_pySlice {α} {l : List α} {a b : Int} {x : α} (h : x ∈ pySlice l a b) : x ∈ l :=
  List.mem_of_mem_drop (List.mem_of_mem_take h)

/-- the look-back window has at most `k` entries. -/
theorem marker_length_le (q : List Int) (k loc : Nat) (hl : loc < q.length) :
    (pySlice q ((loc : Int) - k) loc).length ≤ k := by
  rw [length_pySlice]; unfold pyNorm; split <;> split <;> omega

/-- on a queue at least one window long, a look-back window taken before position `k` is empty
(the negative start wraps past the stop). -/
theorem marker_eq_nil (q : List Int) (k loc : Nat) (hk : k ≤ q.length) (hl : loc < k) :
    pySlice q ((loc : Int) - k) loc = [] := by
  apply List.eq_nil_of_length_eq_zero
  rw [length_pySlice]; unfold pyNorm; split <;> split <;> omega

theorem chunk_length_le (dna : List Char) (k loc : Nat) (hl : loc < dna.length) :
    (pySlice dna ((loc : Int) - k + 1) ((loc : Int) + k)).length ≤ 2 * k - 1 := by
  rw [length_pySlice]; unfold pyNorm; split <;> split <;> omega

theorem chunk_length_ge (dna : List Char) (k loc : Nat) (hl : loc < dna.length) (hk : 1 ≤ k)
    (hkl : k ≤ loc) : k ≤ (pySlice dna ((loc : Int) - k + 1) ((loc : Int) + k)).length := by
  rw [length_pySlice]; unfold pyNorm; split <;> split <;> omega

/-! ## what the scan records at a detection -/

/-- shape of the recorded detections: the queue keeps the strand's length, every look-back window
has at most `k` entries, every chunk at most `2k - 1` symbols, and (on a strand at least one
window long) a chunk that comes with a non-empty window has at least `k` symbols. -/
structure ScanDet (k : Nat) (dna : List Char) (st : Scan) : Prop where
  queue_len : st.queue.length = dna.length
  splits_ne : st.splits ≠ []
  markers_le : ∀ m ∈ st.markers, m.length ≤ k
  chunks_le : ∀ c ∈ st.chunks, c.length ≤ 2 * k - 1
  safe : k ≤ dna.length → ∀ cm ∈ st.chunks.zip st.markers, cm.2 = [] ∨ k ≤ cm.1.length

theorem ScanDet.init (k : Nat) (dna : List Char) (v : Int) : ScanDet k dna (Scan.init dna v) := by
  constructor <;> simp [Scan.init]

theorem ScanDet.step (a : Acc) (k : Nat) (dna : List Char) (hk : 1 ≤ k) (st : Scan)
    (h : ScanDet k dna st) (hlt : st.loc < dna.length) : ScanDet k dna (scanStep a k dna st) := by
  obtain ⟨h1, h2, h3, h4, h5⟩ := h
  rcases scanStep_cases a k dna st with ⟨t, -, e⟩ | ⟨-, e⟩ <;> rw [e]
  · exact ⟨by simp [Scan.advance, h1], by simp [Scan.advance], h3, h4, h5⟩
  · refine ⟨h1, by simp [Scan.detect], ?_, ?_, ?_⟩
    · intro m hm
      simp only [Scan.detect, List.mem_cons] at hm
      rcases hm with rfl | hm
      · exact marker_length_le st.queue k st.loc (by omega)
      · exact h3 m hm
    · intro c hc
      simp only [Scan.detect, List.mem_cons] at hc
      rcases hc with rfl | hc
      · exact chunk_length_le dna k st.loc hlt
      · exact h4 c hc
    · intro hkn cm hcm
      simp only [Scan.detect, List.zip_cons_cons, List.mem_cons] at hcm
      rcases hcm with rfl | hcm
      · by_cases hkl : k ≤ st.loc
        · right; exact chunk_length_ge dna k st.loc hlt hk hkl
        · left; exact marker_eq_nil st.queue k st.loc (by omega) (by omega)
      · exact h5 hkn cm hcm

/-- every split and every chunk of the scan of an ACGT strand is an ACGT string. -/
structure ScanAcgt (st : Scan) : Prop where
  splits : ∀ sp ∈ st.splits, IsAcgt sp
  chunks : ∀ c ∈ st.chunks, IsAcgt c

theorem ScanAcgt.init (dna : List Char) (v : Int) : ScanAcgt (Scan.init dna v) := by
  constructor <;> simp [Scan.init, IsAcgt]

theorem IsAcgt.pySlice {s : List Char} (h : IsAcgt s) (a b : Int) : IsAcgt (pySlice s a b) :=
  h.of_subset fun _ hc => mem_of_mem_pySlice hc

theorem ScanAcgt.step (a : Acc) (k : Nat) (dna : List Char) (hs : IsAcgt dna) (st : Scan)
    (h : ScanAcgt st) (_hlt : st.loc < dna.length) : ScanAcgt (scanStep a k dna st) := by
  obtain ⟨h1, h2⟩ := h
  have hhead : IsAcgt (st.splits.headD []) := by
    cases hsp : st.splits with
    | nil => simp [IsAcgt]
    | cons x xs => exact h1 x (by simp [hsp])
  rcases scanStep_cases a k dna st with ⟨t, ht, e⟩ | ⟨-, e⟩ <;> rw [e]
  · refine ⟨?_, h2⟩
    intro sp hsp
    simp only [Scan.advance, List.mem_cons] at hsp
    rcases hsp with rfl | hsp
    · exact IsAcgt.append.mpr ⟨hhead, IsAcgt.cons.mpr ⟨(Acc.next_eq_some ht).1, IsAcgt.nil⟩⟩
    · exact h1 sp (List.mem_of_mem_tail hsp)
  · constructor
    · intro sp hsp
      simp only [Scan.detect, List.mem_cons] at hsp
      rcases hsp with rfl | rfl | hsp
      · exact IsAcgt.cons.mpr ⟨nucIdx_nucChar_rep _, IsAcgt.nil⟩
      · exact hhead.pySlice _ _
      · exact h1 sp (List.mem_of_mem_tail hsp)
    · intro c hc
      simp only [Scan.detect, List.mem_cons] at hc
      rcases hc with rfl | hc
      · exact hs.pySlice _ _
      · exact h2 c hc

/-! ## `walkCount` and `pathMatching` -/

/-- number of arcs followed before the walk along `s` from `v` breaks. -/
def walkLen (a : Acc) : Int → List Char → Nat
  | _, [] => 0
  | v, c :: s => match a.next v c with
    | some t => walkLen a t s + 1
    | none => 0

theorem walkCount_eq (a : Acc) : ∀ (s : List Char) (v : Int) (n : Nat),
    walkCount a v s n = (isWalk a v s, n + walkLen a v s)
  | [], _, _ => rfl
  | c :: s, v, n => by
    simp only [walkCount, isWalk, walkLen]
    cases a.next v c with
    | none => rfl
    | some t => simp only [walkCount_eq a s t (n + 1)]; congr 1; omega

theorem walkLen_le (a : Acc) : ∀ (s : List Char) (v : Int), walkLen a v s ≤ s.length
  | [], _ => Nat.le_refl _
  | c :: s, v => by
    simp only [walkLen]
    cases a.next v c with
    | none => simp
    | some t => have := walkLen_le a s t; simp; omega

theorem walkLen_of_isWalk (a : Acc) : ∀ (s : List Char) (v : Int), isWalk a v s = true →
    walkLen a v s = s.length
  | [], _, _ => rfl
  | c :: s, v, h => by
    simp only [walkLen, isWalk] at h ⊢
    cases hn : a.next v c with
    | none => simp [hn] at h
    | some t => simp only [hn] at h; simp [walkLen_of_isWalk a s t h]

/-- the accumulate-if-reliable folds of `pathMatching`, in closed form. -/
theorem foldl_collect {α β} (w : α → Bool × Nat) (g : α → β) : ∀ (xs : List α) (init : List β × Nat),
    xs.foldl (fun acc x => (if (w x).1 then acc.1 ++ [g x] else acc.1, acc.2 + (w x).2)) init =
      (init.1 ++ (xs.filter fun x => (w x).1).map g, init.2 + (xs.map fun x => (w x).2).sum)
  | [], init => by simp
  | x :: xs, init => by
    rw [List.foldl_cons, foldl_collect w g xs]
    cases h : (w x).1 <;> simp [h, Nat.add_assoc]

/-- the substitution records of `pathMatching`. -/
def pmSubs (a : Acc) (chunk : List Char) (prev : Int) (occ : Nat) (original : Char) : List Char :=
  (((a.live prev).map nucChar).filter (· ≠ original)).filter fun x =>
    isWalk a (a.ent prev ((nucIdx x).getD 0)) (chunk.drop (occ + 1))

/-- the insertion records of `pathMatching`. -/
def pmIns (a : Acc) (chunk : List Char) (prev : Int) (occ : Nat) : List Char :=
  ((a.live prev).map nucChar).filter fun x =>
    isWalk a (a.ent prev ((nucIdx x).getD 0)) (chunk.drop occ)

/-- look-ups made by the substitution trials. -/
def pmSubCost (a : Acc) (chunk : List Char) (prev : Int) (occ : Nat) (original : Char) : Nat :=
  ((((a.live prev).map nucChar).filter (· ≠ original)).map fun x =>
    walkLen a (a.ent prev ((nucIdx x).getD 0)) (chunk.drop (occ + 1))).sum

/-- look-ups made by the insertion and deletion trials. -/
def pmIndelCost (a : Acc) (chunk : List Char) (prev : Int) (occ : Nat) : Nat :=
  (((a.live prev).map nucChar).map fun x =>
    walkLen a (a.ent prev ((nucIdx x).getD 0)) (chunk.drop occ)).sum +
  walkLen a prev (chunk.drop (occ + 1))

/-- `pathMatching` in closed form: substitutions, then (with indels) insertions and the
deletion, each kept when the rest of the chunk is a walk. -/
theorem pathMatching_eq (a : Acc) (chunk : List Char) (prev : Int) (occ : Nat) (hasIndel : Bool)
    (original : Char) (h : chunk[occ]? = some original) :
    pathMatching a chunk prev occ hasIndel = .ok
      ((pmSubs a chunk prev occ original).map (fun x => ⟨.S, occ, x, chunk.set occ x⟩) ++
        (if hasIndel then
          (pmIns a chunk prev occ).map (fun x => ⟨.I, occ, x, chunk.take occ ++ [x] ++ chunk.drop occ⟩) ++
          (if isWalk a prev (chunk.drop (occ + 1)) then
            [⟨.D, occ, original, chunk.take occ ++ chunk.drop (occ + 1)⟩] else [])
        else []),
       pmSubCost a chunk prev occ original + if hasIndel then pmIndelCost a chunk prev occ else 0) := by
  unfold pathMatching
  simp only [h]
  have e1 := foldl_collect
    (fun x => walkCount a (a.ent prev ((nucIdx x).getD 0)) (chunk.drop (occ + 1)) 0)
    (fun x => (⟨.S, occ, x, chunk.set occ x⟩ : RepairInfo))
    (((a.live prev).map nucChar).filter (· ≠ original)) ([], 0)
  have e2 := fun init => foldl_collect
    (fun x => walkCount a (a.ent prev ((nucIdx x).getD 0)) (chunk.drop occ) 0)
    (fun x => (⟨.I, occ, x, chunk.take occ ++ [x] ++ chunk.drop occ⟩ : RepairInfo))
    ((a.live prev).map nucChar) init
  simp only [walkCount_eq, Nat.zero_add, List.nil_append] at e1 e2
  cases hasIndel with
  | false =>
    simp only [walkCount_eq, Nat.zero_add, Bool.not_false, if_true]
    rw [e1]
    simp [pmSubs, pmSubCost]
  | true =>
    simp only [Bool.not_true, Bool.false_eq_true, if_false, if_true]
    simp only [walkCount_eq, Nat.zero_add]
    rw [e1, e2]
    simp only [pmSubs, pmSubCost, pmIns, pmIndelCost]
    cases isWalk a prev (chunk.drop (occ + 1)) <;> simp [Nat.add_assoc]

theorem pathMatching_total (a : Acc) (chunk : List Char) (prev : Int) (occ : Nat) (hasIndel : Bool)
    (h : occ < chunk.length) : ∃ r, pathMatching a chunk prev occ hasIndel = .ok r :=
  ⟨_, pathMatching_eq a chunk prev occ hasIndel chunk[occ] (List.getElem?_eq_getElem h)⟩

theorem pathMatching_ok_lt {a : Acc} {chunk : List Char} {prev : Int} {occ : Nat} {hasIndel : Bool}
    {r : List RepairInfo × Nat} (h : pathMatching a chunk prev occ hasIndel = .ok r) :
    occ < chunk.length := by
  apply Nat.lt_of_not_le; intro hge
  simp [pathMatching, List.getElem?_eq_none hge] at h

theorem live_length_le (a : Acc) (v : Int) : (a.live v).length ≤ 4 := by
  unfold Acc.live
  exact Nat.le_trans (List.length_filter_le _ _) (by simp)

theorem sum_map_le {α} (f : α → Nat) (B : Nat) : ∀ (l : List α), (∀ x ∈ l, f x ≤ B) →
    (l.map f).sum ≤ l.length * B
  | [], _ => by simp
  | x :: xs, h => by
    have h1 := h x List.mem_cons_self
    have h2 := sum_map_le f B xs (fun y hy => h y (List.mem_cons_of_mem _ hy))
    simp only [List.map_cons, List.sum_cons, List.length_cons, Nat.add_mul]
    omega

/-- `pathMatching` makes at most `9 · |chunk|` look-ups (four substitution, four insertion and one
deletion trial, each along at most the chunk). -/
theorem pathMatching_cost_le {a : Acc} {chunk : List Char} {prev : Int} {occ : Nat} {hasIndel : Bool}
    {r : List RepairInfo × Nat} (h : pathMatching a chunk prev occ hasIndel = .ok r) :
    r.2 ≤ 9 * chunk.length := by
  have hlt := pathMatching_ok_lt h
  rw [pathMatching_eq a chunk prev occ hasIndel chunk[occ] (List.getElem?_eq_getElem hlt)] at h
  cases h
  have hu : ((a.live prev).map nucChar).length ≤ 4 := by simpa using live_length_le a prev
  have hs : pmSubCost a chunk prev occ chunk[occ] ≤ 4 * chunk.length := by
    unfold pmSubCost
    refine Nat.le_trans (sum_map_le _ chunk.length _ fun x _ => ?_) ?_
    · exact Nat.le_trans (walkLen_le a _ _) (by simp)
    · exact Nat.mul_le_mul_right _ (Nat.le_trans (List.length_filter_le _ _) hu)
  have hi : pmIndelCost a chunk prev occ ≤ 4 * chunk.length + chunk.length := by
    unfold pmIndelCost
    refine Nat.add_le_add (Nat.le_trans (sum_map_le _ chunk.length _ fun x _ => ?_) ?_) ?_
    · exact Nat.le_trans (walkLen_le a _ _) (by simp)
    · exact Nat.mul_le_mul_right _ hu
    · exact Nat.le_trans (walkLen_le a _ _) (by simp)
  simp only
  split <;> omega

theorem IsAcgt.set {s : List Char} (h : IsAcgt s) (i : Nat) {c : Char}
    (hc : (nucIdx c).isSome = true) : IsAcgt (s.set i c) := by
  intro x hx
  rcases List.mem_or_eq_of_mem_set hx with hx | rfl
  · exact h x hx
  · exact hc

theorem IsAcgt.take {s : List Char} (h : IsAcgt s) (i : Nat) : IsAcgt (s.take i) :=
  h.of_subset fun _ hc => List.mem_of_mem_take hc

theorem IsAcgt.drop {s : List Char} (h : IsAcgt s) (i : Nat) : IsAcgt (s.drop i) :=
  h.of_subset fun _ hc => List.mem_of_mem_drop hc

/-- every fragment proposed by `pathMatching` on an ACGT chunk is an ACGT string. -/
theorem pathMatching_acgt {a : Acc} {chunk : List Char} {prev : Int} {occ : Nat} {hasIndel : Bool}
    {r : List RepairInfo × Nat} (hc : IsAcgt chunk)
    (h : pathMatching a chunk prev occ hasIndel = .ok r) : ∀ info ∈ r.1, IsAcgt info.fragment := by
  have hlt := pathMatching_ok_lt h
  rw [pathMatching_eq a chunk prev occ hasIndel chunk[occ] (List.getElem?_eq_getElem hlt)] at h
  cases h
  have hused : ∀ x ∈ (a.live prev).map nucChar, (nucIdx x).isSome = true := by
    intro x hx
    obtain ⟨j, -, rfl⟩ := List.mem_map.mp hx
    exact nucIdx_nucChar_rep j
  intro info hinfo
  simp only [List.mem_append, List.mem_map] at hinfo
  rcases hinfo with ⟨x, hx, rfl⟩ | hinfo
  · exact hc.set occ (hused x (List.mem_filter.mp (List.mem_filter.mp hx).1).1)
  · split at hinfo
    · simp only [List.mem_append, List.mem_map] at hinfo
      rcases hinfo with ⟨x, hx, rfl⟩ | hinfo
      · exact IsAcgt.append.mpr ⟨IsAcgt.append.mpr ⟨hc.take _,
          IsAcgt.cons.mpr ⟨hused x (List.mem_filter.mp hx).1, IsAcgt.nil⟩⟩, hc.drop _⟩
      · split at hinfo
        · simp at hinfo; subst hinfo
          exact IsAcgt.append.mpr ⟨hc.take _, hc.drop _⟩
        · simp at hinfo
    · simp at hinfo

/-! ## `collectFragments` -/

/-- the set update of `collectFragments` for the records of one look-back position. -/
def addFragments (dna : List Char) (set : List (List Char)) (infos : List RepairInfo) :
    List (List Char) :=
  infos.foldl (fun (set : List (List Char)) info =>
    if set.contains dna then set
    else if set.contains info.fragment then set else set ++ [info.fragment]) set

/-- one look-back position of `collectFragments`. -/
def collectStep (a : Acc) (k : Nat) (dna chunk : List Char) (hasIndel : Bool)
    (acc : List (List Char) × Nat) (p : Int × Nat) : R (List (List Char) × Nat) :=
  (pathMatching a chunk p.1 (k - p.2 - 1) hasIndel).bind fun r =>
    .ok (addFragments dna acc.1 r.1, acc.2 + r.2)

theorem collectFragments_eq (a : Acc) (k : Nat) (dna chunk : List Char) (marker : List Int)
    (hasIndel : Bool) :
    collectFragments a k dna chunk marker hasIndel =
      marker.reverse.zipIdx.foldlM (collectStep a k dna chunk hasIndel) ([], 0) := rfl

theorem mem_addFragments (dna : List Char) : ∀ (infos : List RepairInfo) (set : List (List Char))
    (f : List Char), f ∈ addFragments dna set infos → f ∈ set ∨ ∃ info ∈ infos, f = info.fragment
  | [], set, f, h => Or.inl h
  | info :: infos, set, f, h => by
    simp only [addFragments, List.foldl_cons] at h
    have := mem_addFragments dna infos _ f h
    rcases this with h1 | ⟨i, hi, e⟩
    · split at h1
      · exact Or.inl h1
      · split at h1
        · exact Or.inl h1
        · rcases List.mem_append.mp h1 with h1 | h1
          · exact Or.inl h1
          · simp at h1; exact Or.inr ⟨info, List.mem_cons_self, h1⟩
    · exact Or.inr ⟨i, List.mem_cons_of_mem _ hi, e⟩

/-- a successful `foldlM` whose steps each add at most `B` to a counter. -/
theorem foldlM_count_le {α β} (f : β → α → R β) (cnt : β → Nat) (B : Nat) :
    ∀ (l : List α) (b r : β), (∀ acc x r, x ∈ l → f acc x = .ok r → cnt r ≤ cnt acc + B) →
      l.foldlM f b = .ok r → cnt r ≤ cnt b + l.length * B := by
  intro l
  induction l with
  | nil => intro b r _ h; simp [pure, Except.pure] at h; subst h; simp
  | cons x xs ih =>
    intro b r hstep h
    rw [List.foldlM_cons] at h
    obtain ⟨y, hy, h⟩ := R.bind_eq_ok _ _ _ h
    have h1 := hstep b x y List.mem_cons_self hy
    have h2 := ih y r (fun acc x' r' hx' => hstep acc x' r' (List.mem_cons_of_mem _ hx')) h
    simp only [List.length_cons, Nat.add_mul]
    omega

/-- `collectFragments` makes at most `9 · |chunk|` look-ups per look-back position. -/
theorem collectFragments_cost_le {a : Acc} {k : Nat} {dna chunk : List Char} {marker : List Int}
    {hasIndel : Bool} {r : List (List Char) × Nat}
    (h : collectFragments a k dna chunk marker hasIndel = .ok r) :
    r.2 ≤ marker.length * (9 * chunk.length) := by
  rw [collectFragments_eq] at h
  have := foldlM_count_le (collectStep a k dna chunk hasIndel) (·.2) (9 * chunk.length) _ _ _
    (fun acc x r' _ hr => by
      obtain ⟨pm, hpm, e⟩ := R.bind_ok _ _ _ hr
      cases e
      have := pathMatching_cost_le hpm
      simp only; omega) h
  simpa using this

/-- `collectFragments` cannot raise when the chunk reaches every look-back position, and on an
ACGT chunk it returns ACGT fragments. -/
theorem collectFragments_total (a : Acc) (k : Nat) (dna chunk : List Char) (marker : List Int)
    (hasIndel : Bool) (hk : 1 ≤ k) (hc : IsAcgt chunk) (hm : marker = [] ∨ k ≤ chunk.length) :
    ∃ r, collectFragments a k dna chunk marker hasIndel = .ok r ∧ ∀ f ∈ r.1, IsAcgt f := by
  rw [collectFragments_eq]
  refine foldlM_total (collectStep a k dna chunk hasIndel) (fun acc => ∀ f ∈ acc.1, IsAcgt f) _ _
    ?_ (by simp)
  intro acc p hp hacc
  obtain ⟨prev, idx⟩ := p
  have hidx := (List.mem_zipIdx hp).2.1
  simp only [List.length_reverse, Nat.zero_add] at hidx
  have hkc : k ≤ chunk.length := by
    rcases hm with rfl | hm
    · simp at hidx
    · exact hm
  obtain ⟨pm, hpm⟩ := pathMatching_total a chunk prev (k - idx - 1) hasIndel (by omega)
  refine ⟨(addFragments dna acc.1 pm.1, acc.2 + pm.2), by simp only [collectStep, hpm, Except.bind], ?_⟩
  intro f hf
  rcases mem_addFragments dna _ _ f hf with hf | ⟨info, hinfo, rfl⟩
  · exact hacc f hf
  · exact pathMatching_acgt hc hpm info hinfo

/-! ## the fragment fold, the product and the candidates -/

/-- one detection of the fragment fold. -/
def fragStep (a : Acc) (k : Nat) (dna : List Char) (hasIndel : Bool)
    (acc : List (List (List Char)) × Nat) (cm : List Char × List Int) :
    R (List (List (List Char)) × Nat) :=
  (collectFragments a k dna cm.1 cm.2 hasIndel).bind fun r => .ok (acc.1 ++ [r.1], acc.2 + r.2)

theorem fragFold_eq (a : Acc) (k : Nat) (dna : List Char) (hasIndel : Bool) (st : Scan) :
    fragFold a k dna hasIndel st =
      (st.chunks.reverse.zip st.markers.reverse).foldlM (fragStep a k dna hasIndel)
        ([], st.visited) := rfl

theorem zip_reverse_eq {α β} : ∀ (l₁ : List α) (l₂ : List β), l₁.length = l₂.length →
    l₁.reverse.zip l₂.reverse = (l₁.zip l₂).reverse
  | [], [], _ => rfl
  | [], _ :: _, h => by simp at h
  | _ :: _, [], h => by simp at h
  | x :: xs, y :: ys, h => by
    simp only [List.length_cons, Nat.add_right_cancel_iff] at h
    rw [List.reverse_cons, List.reverse_cons, List.zip_append (by simpa using h),
      zip_reverse_eq xs ys h]
    simp

/-- the fragment fold makes at most `k · 18k` look-ups per detection. -/
theorem fragFold_cost_le {a : Acc} {k : Nat} {dna : List Char} {hasIndel : Bool} {st : Scan}
    {fv : List (List (List Char)) × Nat} (hd : ScanDet k dna st) (hc : ScanCount k dna st)
    (h : fragFold a k dna hasIndel st = .ok fv) :
    fv.2 ≤ st.visited + st.detected * (k * (18 * k)) := by
  rw [fragFold_eq] at h
  have := foldlM_count_le (fragStep a k dna hasIndel) (·.2) (k * (18 * k)) _ _ _
    (fun acc cm r' hcm hr => by
      obtain ⟨cf, hcf, e⟩ := R.bind_ok _ _ _ hr
      cases e
      have h1 := collectFragments_cost_le hcf
      obtain ⟨c, m⟩ := cm
      obtain ⟨hc', hm'⟩ := List.of_mem_zip hcm
      have h2 := hd.chunks_le c (List.mem_reverse.mp hc')
      have h3 := hd.markers_le m (List.mem_reverse.mp hm')
      have h4 : m.length * (9 * c.length) ≤ k * (18 * k) :=
        Nat.mul_le_mul h3 (by omega)
      simp only at h1 ⊢; omega) h
  have hl : (st.chunks.reverse.zip st.markers.reverse).length = st.detected := by
    simp [List.length_zip, hc.chunks_len, hc.markers_len]
  rw [hl] at this
  exact this

/-- the fragment fold cannot raise on the scan of an ACGT strand at least one window long, and
all its fragments are ACGT strings. -/
theorem fragFold_total (a : Acc) (k : Nat) (dna : List Char) (hasIndel : Bool) (st : Scan)
    (hk : 1 ≤ k) (hlen : k ≤ dna.length) (hd : ScanDet k dna st) (hc : ScanCount k dna st)
    (ha : ScanAcgt st) :
    ∃ fv, fragFold a k dna hasIndel st = .ok fv ∧ ∀ fs ∈ fv.1, ∀ f ∈ fs, IsAcgt f := by
  rw [fragFold_eq, zip_reverse_eq _ _ (by rw [hc.chunks_len, hc.markers_len])]
  refine foldlM_total (fragStep a k dna hasIndel) (fun acc => ∀ fs ∈ acc.1, ∀ f ∈ fs, IsAcgt f)
    _ _ ?_ (by simp)
  intro acc cm hcm hacc
  rw [List.mem_reverse] at hcm
  obtain ⟨c, m⟩ := cm
  have hc' := (List.of_mem_zip hcm).1
  obtain ⟨r, hr, hacgt⟩ := collectFragments_total a k dna c m hasIndel hk (ha.chunks c hc')
    (hd.safe hlen (c, m) hcm)
  refine ⟨(acc.1 ++ [r.1], acc.2 + r.2), by simp only [fragStep, hr, Except.bind], ?_⟩
  intro fs hfs
  rcases List.mem_append.mp hfs with hfs | hfs
  · exact hacc fs hfs
  · simp at hfs; subst hfs; exact hacgt

theorem product_mem_zip {α} : ∀ (fss : List (List α)) (frs : List α), frs ∈ product fss →
    frs.length = fss.length ∧ ∀ p ∈ frs.zip fss, p.1 ∈ p.2
  | [], frs, h => by simp [product] at h; subst h; simp
  | fs :: fss, frs, h => by
    simp only [product, List.mem_flatMap, List.mem_map] at h
    obtain ⟨f, hf, rest, hrest, rfl⟩ := h
    obtain ⟨h1, h2⟩ := product_mem_zip fss rest hrest
    refine ⟨by simp [h1], ?_⟩
    intro p hp
    simp only [List.zip_cons_cons, List.mem_cons] at hp
    rcases hp with rfl | hp
    · exact hf
    · exact h2 p hp

theorem product_mem {α} : ∀ (fss : List (List α)) (frs : List α), frs ∈ product fss →
    ∀ f ∈ frs, ∃ fs ∈ fss, f ∈ fs
  | [], frs, h => by simp [product] at h; subst h; simp
  | fs :: fss, frs, h => by
    simp only [product, List.mem_flatMap, List.mem_map] at h
    obtain ⟨f, hf, rest, hrest, rfl⟩ := h
    intro g hg
    rcases List.mem_cons.mp hg with rfl | hg
    · exact ⟨fs, List.mem_cons_self, hf⟩
    · obtain ⟨fs', h1, h2⟩ := product_mem fss rest hrest g hg
      exact ⟨fs', List.mem_cons_of_mem _ h1, h2⟩

theorem getLastD_mem {α} : ∀ (l : List α) (d : α), l.getLastD d = d ∨ l.getLastD d ∈ l
  | [], d => Or.inl rfl
  | x :: xs, d => by
    rw [List.getLastD_cons]
    rcases getLastD_mem xs x with h | h
    · rw [h]; exact Or.inr List.mem_cons_self
    · exact Or.inr (List.mem_cons_of_mem _ h)

theorem candOf_acgt {splits frs : List (List Char)} (hs : ∀ sp ∈ splits, IsAcgt sp)
    (hf : ∀ f ∈ frs, IsAcgt f) : IsAcgt (candOf splits frs) := by
  unfold candOf
  refine IsAcgt.append.mpr ⟨?_, ?_⟩
  · have : ∀ (l : List (List Char × List Char)) (acc : List Char), IsAcgt acc →
        (∀ p ∈ l, IsAcgt p.1 ∧ IsAcgt p.2) →
        IsAcgt (l.foldl (fun s (p : List Char × List Char) => s ++ p.1 ++ p.2) acc) := by
      intro l
      induction l with
      | nil => intro acc h _; exact h
      | cons p ps ih =>
        intro acc h hp
        rw [List.foldl_cons]
        have := hp p List.mem_cons_self
        exact ih _ (IsAcgt.append.mpr ⟨IsAcgt.append.mpr ⟨h, this.1⟩, this.2⟩)
          (fun q hq => hp q (List.mem_cons_of_mem _ hq))
    refine this _ _ IsAcgt.nil ?_
    rintro ⟨sp, f⟩ hp
    obtain ⟨h1, h2⟩ := List.of_mem_zip hp
    exact ⟨hs sp h1, hf f h2⟩
  · rcases getLastD_mem splits [] with h | h
    · rw [h]; exact IsAcgt.nil
    · exact hs _ h

/-- the output stage cannot raise when the strand, the splits and the fragments are ACGT. -/
theorem repairTail_total (dna : List Char) (chk : Option (List Char)) (heap : Nat) (st : Scan)
    (fv : List (List (List Char)) × Nat) (hs : IsAcgt dna) (hsp : ∀ sp ∈ st.splits, IsAcgt sp)
    (hfv : ∀ fs ∈ fv.1, ∀ f ∈ fs, IsAcgt f) : ∃ res, repairTail dna chk heap st fv = .ok res := by
  unfold repairTail
  split
  · obtain ⟨b, hb⟩ := vtMatches_ok hs chk
    rw [hb]
    cases b <;> exact ⟨_, rfl⟩
  · obtain ⟨checked, hch⟩ := mapM_total (fun c => (vtMatches c chk).map fun b => (c, b))
      ((product fv.1).map (candOf st.splits.reverse)) (by
        intro c hc
        obtain ⟨frs, hfrs, rfl⟩ := List.mem_map.mp hc
        have : IsAcgt (candOf st.splits.reverse frs) :=
          candOf_acgt (fun sp h => hsp sp (List.mem_reverse.mp h)) (fun f hf => by
            obtain ⟨fs, h1, h2⟩ := product_mem _ _ hfrs f hf
            exact hfv fs h1 f h2)
        obtain ⟨b, hb⟩ := vtMatches_ok this chk
        exact ⟨(_, b), by rw [hb]; rfl⟩)
    rw [hch]
    exact ⟨_, rfl⟩

end Dsw
