import DswModel.Model.Spiderweb
import DswModel.Lemmas.Defs
/-! Helper lemmas for `repair_dna` / `path_matching` (C09, C10, C08). -/
namespace Dsw

end Dsw
