import DswModel.Model.Spiderweb
import DswModel.Lemmas.Defs
/-! Helper lemmas for `repair_dna` / `path_matching` (C09, C10, C08). -/
namespace Dsw

/-! ## `Except` folds and maps -/

theorem R.bind_ok {α β} (x : R α) (f : α → R β) (b : β) (h : x.bind f = .ok b) :
    ∃ y, x = .ok y ∧ f y = .ok b := by
  cases x with
  | error e => simp [Except.bind] at h
  | ok y => exact ⟨y, rfl, h⟩

theorem R.bind_eq_ok {α β} (x : R α) (f : α → R β) (b : β) (h : x >>= f = .ok b) :
    ∃ y, x = .ok y ∧ f y = .ok b := R.bind_ok x f b h

/-- invariant rule for a successful `foldlM`. -/
theorem foldlM_ok_inv {α β} (f : β → α → R β) (P : β → Prop) :
    ∀ (l : List α) (b r : β), (∀ acc x r, x ∈ l → P acc → f acc x = .ok r → P r) →
      P b → l.foldlM f b = .ok r → P r := by
  intro l
  induction l with
  | nil => intro b r _ hb h; simp [pure, Except.pure] at h; exact h ▸ hb
  | cons x xs ih =>
    intro b r hstep hb h
    rw [List.foldlM_cons] at h
    obtain ⟨y, hy, h⟩ := R.bind_eq_ok _ _ _ h
    exact ih y r (fun acc x' r' hx' => hstep acc x' r' (List.mem_cons_of_mem _ hx'))
      (hstep b x y List.mem_cons_self hb hy) h

/-- totality rule for `foldlM`: if every step from a state satisfying `P` succeeds and
re-establishes `P`, the fold succeeds. -/
theorem foldlM_total {α β} (f : β → α → R β) (P : β → Prop) :
    ∀ (l : List α) (b : β), (∀ acc x, x ∈ l → P acc → ∃ r, f acc x = .ok r ∧ P r) →
      P b → ∃ r, l.foldlM f b = .ok r ∧ P r := by
  intro l
  induction l with
  | nil => intro b _ hb; exact ⟨b, rfl, hb⟩
  | cons x xs ih =>
    intro b hstep hb
    obtain ⟨y, hy, hP⟩ := hstep b x List.mem_cons_self hb
    rw [List.foldlM_cons, hy]
    exact ih y (fun acc x' hx' => hstep acc x' (List.mem_cons_of_mem _ hx')) hP

theorem mapM_ok_mem {α β} (f : α → R β) : ∀ (l : List α) (r : List β), l.mapM f = .ok r →
    ∀ y ∈ r, ∃ x ∈ l, f x = .ok y := by
  intro l
  induction l with
  | nil => intro r h; simp [pure, Except.pure] at h; subst h; simp
  | cons x xs ih =>
    intro r h y hy
    rw [List.mapM_cons] at h
    obtain ⟨z, hz, h⟩ := R.bind_eq_ok _ _ _ h
    obtain ⟨zs, hzs, h⟩ := R.bind_eq_ok _ _ _ h
    simp [pure, Except.pure] at h
    subst h
    rcases List.mem_cons.mp hy with rfl | hy
    · exact ⟨x, List.mem_cons_self, hz⟩
    · obtain ⟨x', hx', e⟩ := ih zs hzs y hy
      exact ⟨x', List.mem_cons_of_mem _ hx', e⟩

theorem mapM_total {α β} (f : α → R β) : ∀ (l : List α), (∀ x ∈ l, ∃ y, f x = .ok y) →
    ∃ r, l.mapM f = .ok r := by
  intro l
  induction l with
  | nil => intro _; exact ⟨[], rfl⟩
  | cons x xs ih =>
    intro h
    obtain ⟨y, hy⟩ := h x List.mem_cons_self
    obtain ⟨r, hr⟩ := ih (fun x' hx' => h x' (List.mem_cons_of_mem _ hx'))
    rw [List.mapM_cons, hy, hr]
    exact ⟨y :: r, rfl⟩

/-! ## lists: `eraseDups`, insertion sort, Python string order -/

theorem nodup_eraseDups {α} [BEq α] [LawfulBEq α] : ∀ (n : Nat) (l : List α), l.length ≤ n →
    l.eraseDups.Nodup := by
  intro n
  induction n with
  | zero => intro l h; cases l <;> simp_all
  | succ n ih =>
    intro l h
    cases l with
    | nil => simp
    | cons x xs =>
      rw [List.eraseDups_cons, List.nodup_cons]
      refine ⟨?_, ih _ ?_⟩
      · simp [List.mem_eraseDups]
      · have := List.length_filter_le (fun b => !b == x) xs
        simp at h; omega

theorem mem_insertSorted {α} (le : α → α → Bool) (x y : α) (l : List α) :
    y ∈ insertSorted le x l ↔ y = x ∨ y ∈ l := by
  induction l with
  | nil => simp [insertSorted]
  | cons z zs ih =>
    simp only [insertSorted]
    split
    · simp
    · simp [ih]; grind

theorem isort_cons {α} (le : α → α → Bool) (z : α) (zs : List α) :
    isort le (z :: zs) = insertSorted le z (isort le zs) := rfl

theorem mem_isort {α} (le : α → α → Bool) (y : α) (l : List α) : y ∈ isort le l ↔ y ∈ l := by
  induction l with
  | nil => simp [isort]
  | cons z zs ih =>
    rw [isort_cons, mem_insertSorted, ih]; simp

theorem pairwise_insertSorted {α} (le : α → α → Bool) (R : α → α → Prop)
    (hle : ∀ x y, le x y = true → R x y) (hnle : ∀ x y, le x y = false → R y x)
    (htr : ∀ x y z, R x y → R y z → R x z) (x : α) (l : List α)
    (hl : l.Pairwise R) : (insertSorted le x l).Pairwise R := by
  induction l with
  | nil => simp [insertSorted]
  | cons z zs ih =>
    rw [List.pairwise_cons] at hl
    simp only [insertSorted]
    split
    · rename_i h
      refine List.pairwise_cons.mpr ⟨?_, List.pairwise_cons.mpr hl⟩
      intro b hb
      rcases List.mem_cons.mp hb with rfl | hb
      · exact hle _ _ h
      · exact htr _ _ _ (hle _ _ h) (hl.1 b hb)
    · rename_i h
      refine List.pairwise_cons.mpr ⟨?_, ih hl.2⟩
      intro b hb
      rcases (mem_insertSorted le x b zs).mp hb with rfl | hb
      · exact hnle _ _ (by simpa using h)
      · exact hl.1 b hb

theorem nodup_insertSorted {α} (le : α → α → Bool) (x : α) (l : List α) (hx : x ∉ l)
    (hl : l.Nodup) : (insertSorted le x l).Nodup := by
  induction l with
  | nil => simp [insertSorted]
  | cons z zs ih =>
    rw [List.nodup_cons] at hl
    simp only [insertSorted]
    split
    · exact List.nodup_cons.mpr ⟨hx, List.nodup_cons.mpr hl⟩
    · refine List.nodup_cons.mpr ⟨?_, ih (by simp at hx; exact hx.2) hl.2⟩
      rw [mem_insertSorted]
      simp at hx
      rintro (rfl | h)
      · exact hx.1 rfl
      · exact hl.1 h

theorem nodup_isort {α} (le : α → α → Bool) (l : List α) (hl : l.Nodup) : (isort le l).Nodup := by
  induction l with
  | nil => simp [isort]
  | cons z zs ih =>
    rw [List.nodup_cons] at hl
    rw [isort_cons]
    exact nodup_insertSorted le z _ (by rw [mem_isort]; exact hl.1) (ih hl.2)

theorem strLe_total : ∀ x y : List Char, strLe x y = false → strLe y x = true
  | [], _ => by simp [strLe]
  | _ :: _, [] => by simp [strLe]
  | x :: xs, y :: ys => by
    simp only [strLe]
    intro h
    split at h
    · simp at h
    · split at h
      · simp [*]
      · rename_i h1 h2
        simp only [h1, h2, if_false]
        exact strLe_total xs ys h

theorem strLe_trans : ∀ x y z : List Char, strLe x y = true → strLe y z = true → strLe x z = true
  | [], _, _ => by simp [strLe]
  | _ :: _, [], _ => by simp [strLe]
  | _ :: _, _ :: _, [] => by simp [strLe]
  | x :: xs, y :: ys, z :: zs => by
    simp only [strLe]
    intro h1 h2
    by_cases a1 : x.toNat < y.toNat
    · by_cases a2 : y.toNat < z.toNat
      · have : x.toNat < z.toNat := by omega
        simp [this]
      · by_cases a3 : z.toNat < y.toNat
        · simp [a2, a3] at h2
        · have : x.toNat < z.toNat := by omega
          simp [this]
    · by_cases a1' : y.toNat < x.toNat
      · simp [a1, a1'] at h1
      · simp only [a1, a1', if_false] at h1
        by_cases a2 : y.toNat < z.toNat
        · have : x.toNat < z.toNat := by omega
          simp [this]
        · by_cases a3 : z.toNat < y.toNat
          · simp [a2, a3] at h2
          · simp only [a2, a3, if_false] at h2
            have e1 : ¬ x.toNat < z.toNat := by omega
            have e2 : ¬ z.toNat < x.toNat := by omega
            simp only [e1, e2, if_false]
            exact strLe_trans xs ys zs h1 h2

/-- the output stage of `repairDna` is strictly increasing. -/
theorem isort_eraseDups_pairwise (l : List (List Char)) :
    (isort strLe l.eraseDups).Pairwise strLt := by
  have hnd : (isort strLe l.eraseDups).Nodup := nodup_isort _ _ (nodup_eraseDups _ _ (Nat.le_refl _))
  have hs : (isort strLe l.eraseDups).Pairwise (fun x y => strLe x y = true) := by
    generalize l.eraseDups = m
    induction m with
    | nil => simp [isort]
    | cons z zs ih =>
      rw [isort_cons]
      exact pairwise_insertSorted strLe _ (fun _ _ h => h) strLe_total strLe_trans z _ ih
  exact (hs.and hnd).imp (fun h => h)

/-! ## generic facts about the scan loop -/

@[simp] theorem Scan.advance_loc (st : Scan) (c : Char) (t : Int) : (st.advance c t).loc = st.loc + 1 := rfl
@[simp] theorem Scan.detect_loc (st : Scan) (k : Nat) (dna : List Char) :
    (st.detect k dna).loc = st.loc + k + 1 := rfl

theorem scanStep_cases (a : Acc) (k : Nat) (dna : List Char) (st : Scan) :
    (∃ t, a.next st.v (dna.getD st.loc 'A') = some t ∧
        scanStep a k dna st = st.advance (dna.getD st.loc 'A') t) ∨
    (a.next st.v (dna.getD st.loc 'A') = none ∧ scanStep a k dna st = st.detect k dna) := by
  cases h : a.next st.v (dna.getD st.loc 'A') with
  | none => right; simp only [scanStep, h, and_self]
  | some t => left; exact ⟨t, rfl, by simp only [scanStep, h]⟩

theorem scanStep_loc_lt (a : Acc) (k : Nat) (dna : List Char) (st : Scan) :
    st.loc < (scanStep a k dna st).loc := by
  rcases scanStep_cases a k dna st with ⟨t, -, h⟩ | ⟨-, h⟩ <;> rw [h] <;> simp <;> omega

theorem scan_done (a : Acc) (k : Nat) (dna : List Char) (fuel : Nat) (st : Scan)
    (h : dna.length ≤ st.loc) : scan a k dna fuel st = some st := by
  cases fuel <;> simp [scan, Nat.not_lt.mpr h]

theorem scan_succ (a : Acc) (k : Nat) (dna : List Char) (fuel : Nat) (st : Scan)
    (h : st.loc < dna.length) :
    scan a k dna (fuel + 1) st = scan a k dna fuel (scanStep a k dna st) := by
  simp [scan, h]

/-- the invariant rule for the scan loop: a predicate preserved by every step taken inside the
strand holds of the final state, which exists as soon as the fuel covers the remaining length. -/
theorem scan_inv (a : Acc) (k : Nat) (dna : List Char) (P : Scan → Prop)
    (hstep : ∀ st, P st → st.loc < dna.length → P (scanStep a k dna st)) :
    ∀ (fuel : Nat) (st : Scan), P st → dna.length - st.loc ≤ fuel →
      ∃ st', scan a k dna fuel st = some st' ∧ P st' ∧ dna.length ≤ st'.loc := by
  intro fuel
  induction fuel with
  | zero =>
    intro st hP hf
    exact ⟨st, scan_done a k dna 0 st (by omega), hP, by omega⟩
  | succ fuel ih =>
    intro st hP hf
    by_cases hlt : st.loc < dna.length
    · rw [scan_succ a k dna fuel st hlt]
      have := scanStep_loc_lt a k dna st
      exact ih _ (hstep st hP hlt) (by omega)
    · exact ⟨st, scan_done a k dna _ st (by omega), hP, by omega⟩

/-- the initial scan state of `repairDna`. -/
def Scan.init (dna : List Char) (v : Int) : Scan :=
  { v := v, queue := List.replicate dna.length (-1) }

/-- invariant rule specialised to the call made by `repairDna`. -/
theorem scan_init_inv (a : Acc) (k : Nat) (dna : List Char) (v : Int) (P : Scan → Prop)
    (h0 : P (Scan.init dna v))
    (hstep : ∀ st, P st → st.loc < dna.length → P (scanStep a k dna st)) :
    ∃ st', scan a k dna (dna.length + 1) (Scan.init dna v) = some st' ∧ P st' ∧
      dna.length ≤ st'.loc :=
  scan_inv a k dna P hstep _ _ h0 (by simp [Scan.init])

/-- counting invariant: detections are `k + 1` apart and start inside the strand. -/
structure ScanCount (k : Nat) (dna : List Char) (st : Scan) : Prop where
  det_le : st.detected * (k + 1) ≤ st.loc
  loc_le : st.loc ≤ dna.length + k
  vis_le : st.visited ≤ st.loc ∧ st.visited ≤ dna.length
  chunks_len : st.chunks.length = st.detected
  markers_len : st.markers.length = st.detected

theorem ScanCount.init (k : Nat) (dna : List Char) (v : Int) : ScanCount k dna (Scan.init dna v) := by
  constructor <;> simp [Scan.init]

theorem ScanCount.step (a : Acc) (k : Nat) (dna : List Char) (st : Scan)
    (h : ScanCount k dna st) (hlt : st.loc < dna.length) : ScanCount k dna (scanStep a k dna st) := by
  obtain ⟨h1, h2, ⟨h3, h3'⟩, h4, h5⟩ := h
  rcases scanStep_cases a k dna st with ⟨t, -, e⟩ | ⟨-, e⟩ <;> rw [e]
  · constructor <;> simp [Scan.advance] <;> omega
  · constructor <;> simp [Scan.detect, Nat.add_mul] <;> omega

/-! ## the shape of `repairDna` -/


/-- the fragment-collection fold of `repairDna` over the recorded detections. -/
def fragFold (a : Acc) (k : Nat) (dna : List Char) (hasIndel : Bool) (st : Scan) :
    R (List (List (List Char)) × Nat) :=
  (st.chunks.reverse.zip st.markers.reverse).foldlM
    (fun (acc : List (List (List Char)) × Nat) (cm : List Char × List Int) => do
      let r ← collectFragments a k dna cm.1 cm.2 hasIndel
      pure (acc.1 ++ [r.1], acc.2 + r.2)) ([], st.visited)

/-- one recombined candidate of `repairDna`. -/
def candOf (splits : List (List Char)) (frs : List (List Char)) : List Char :=
  (splits.zip frs).foldl (fun s (p : List Char × List Char) => s ++ p.1 ++ p.2) []
    ++ splits.getLastD []

def fragCount (fragSets : List (List (List Char))) : Nat := fragSets.foldl (fun c f => c * f.length) 1

/-- what `repairDna` does after the scan and the fragment fold. -/
def repairTail (dna : List Char) (chk : Option (List Char)) (heap : Nat) (st : Scan)
    (fv : List (List (List Char)) × Nat) : R (List (List Char) × RepairStats) :=
  if fragCount fv.1 = 0 ∨ fragCount fv.1 > heap then
    (vtMatches dna chk).bind fun okc =>
      if okc then pure ([dna], ⟨0, false, 0, fv.2⟩) else pure ([], ⟨0, true, 0, fv.2⟩)
  else
    (((product fv.1).map (candOf st.splits.reverse)).mapM
        fun c => (vtMatches c chk).map fun b => (c, b)).bind fun checked =>
      pure (isort strLe ((checked.filter (·.2)).map (·.1)).eraseDups,
        ⟨st.detected, checked.any (fun cb => !cb.2), fragCount fv.1, fv.2⟩)

theorem repairDna_eq (a : Acc) (dna : List Char) (start : Int) (k : Nat) (chk : Option (List Char))
    (hasIndel : Bool) (heap : Nat) :
    repairDna a dna start k chk hasIndel heap =
      match scan a k dna (dna.length + 1) (Scan.init dna start) with
      | none => .error .outOfFuel
      | some st => (fragFold a k dna hasIndel st).bind (repairTail dna chk heap st) := by
  unfold repairDna Scan.init
  cases scan a k dna (dna.length + 1) { v := start, queue := List.replicate dna.length (-1) } with
  | none => rfl
  | some st => rfl

/-- inversion of a successful `repairDna`. -/
theorem repairDna_ok_inv {a : Acc} {dna : List Char} {start : Int} {k : Nat}
    {chk : Option (List Char)} {hasIndel : Bool} {heap : Nat} {res : List (List Char) × RepairStats}
    (h : repairDna a dna start k chk hasIndel heap = .ok res) :
    ∃ st fv, scan a k dna (dna.length + 1) (Scan.init dna start) = some st ∧
      fragFold a k dna hasIndel st = .ok fv ∧ repairTail dna chk heap st fv = .ok res := by
  rw [repairDna_eq] at h
  split at h
  · cases h
  · rename_i st hst
    obtain ⟨fv, hfv, h⟩ := R.bind_ok _ _ _ h
    exact ⟨st, fv, hst, hfv, h⟩

theorem repairDna_of_scan {a : Acc} {dna : List Char} {start : Int} {k : Nat}
    {chk : Option (List Char)} {hasIndel : Bool} {heap : Nat} {st : Scan}
    {fv : List (List (List Char)) × Nat}
    (hs : scan a k dna (dna.length + 1) (Scan.init dna start) = some st)
    (hf : fragFold a k dna hasIndel st = .ok fv) :
    repairDna a dna start k chk hasIndel heap = repairTail dna chk heap st fv := by
  rw [repairDna_eq, hs]; simp only [hf]; rfl

/-- inversion of a successful `repairTail`: either the fallback or the product path. -/
theorem repairTail_ok_inv {dna : List Char} {chk : Option (List Char)} {heap : Nat} {st : Scan}
    {fv : List (List (List Char)) × Nat} {res : List (List Char) × RepairStats}
    (h : repairTail dna chk heap st fv = .ok res) :
    (∃ okc, vtMatches dna chk = .ok okc ∧ res.1 = (if okc then [dna] else []) ∧
        res.2.visited = fv.2) ∨
    (∃ checked, ((product fv.1).map (candOf st.splits.reverse)).mapM
          (fun c => (vtMatches c chk).map fun b => (c, b)) = .ok checked ∧
        res.1 = isort strLe ((checked.filter (·.2)).map (·.1)).eraseDups ∧
        res.2.visited = fv.2 ∧ res.2.detected = st.detected) := by
  unfold repairTail at h
  split at h
  · left
    obtain ⟨okc, hokc, h⟩ := R.bind_ok _ _ _ h
    refine ⟨okc, hokc, ?_⟩
    cases okc <;> simp [pure, Except.pure] at h <;> subst h <;> simp
  · right
    obtain ⟨checked, hc, h⟩ := R.bind_ok _ _ _ h
    refine ⟨checked, hc, ?_⟩
    simp [pure, Except.pure] at h; subst h; simp


/-! ## arcs, walks, ACGT strings -/

theorem Acc.next_eq_some {a : Acc} {v : Int} {c : Char} {t : Int} (h : a.next v c = some t) :
    (nucIdx c).isSome = true ∧ t = a.ent v ((nucIdx c).getD 0) ∧ 0 ≤ t := by
  unfold Acc.next at h
  cases hj : nucIdx c with
  | none => simp [hj] at h
  | some j =>
    simp only [hj] at h
    split at h
    · simp at h; subst h; simp; omega
    · cases h

theorem IsAcgt.nil : IsAcgt [] := by simp [IsAcgt]

theorem IsAcgt.cons {c : Char} {s : List Char} : IsAcgt (c :: s) ↔ (nucIdx c).isSome = true ∧ IsAcgt s := by
  simp [IsAcgt]

theorem IsAcgt.append {s t : List Char} : IsAcgt (s ++ t) ↔ IsAcgt s ∧ IsAcgt t := by
  simp only [IsAcgt, List.mem_append]
  constructor
  · intro h; exact ⟨fun c hc => h c (Or.inl hc), fun c hc => h c (Or.inr hc)⟩
  · rintro ⟨h1, h2⟩ c (hc | hc); exact h1 c hc; exact h2 c hc

theorem IsAcgt.of_subset {s t : List Char} (ht : IsAcgt t) (h : ∀ c ∈ s, c ∈ t) : IsAcgt s :=
  fun c hc => ht c (h c hc)

theorem nucIdx_nucChar (j : Nat) : (nucIdx (nucChar j)).isSome = true := by
  unfold nucChar
  split
  · decide
  · split
    · decide
    · split <;> decide

theorem isWalk_isAcgt (a : Acc) : ∀ (s : List Char) (v : Int), isWalk a v s = true → IsAcgt s
  | [], _, _ => IsAcgt.nil
  | c :: s, v, h => by
    simp only [isWalk] at h
    split at h
    · rename_i t ht
      exact IsAcgt.cons.mpr ⟨(Acc.next_eq_some ht).1, isWalk_isAcgt a s t h⟩
    · cases h

theorem nucValues_ok : ∀ (s : List Char), IsAcgt s → ∃ vs, nucValues s = .ok vs
  | [], _ => ⟨[], rfl⟩
  | c :: s, h => by
    obtain ⟨h1, h2⟩ := IsAcgt.cons.mp h
    obtain ⟨vs, hvs⟩ := nucValues_ok s h2
    obtain ⟨j, hj⟩ := Option.isSome_iff_exists.mp h1
    exact ⟨j :: vs, by simp [nucValues, hj, hvs, Except.map]⟩

/-- `set_vt` / the check comparison never raise on an ACGT string. -/
theorem setVt_ok {s : List Char} (h : IsAcgt s) (n : Nat) : ∃ r, setVt s n = .ok r := by
  obtain ⟨vs, hvs⟩ := nucValues_ok s h
  simp only [setVt, hvs, Except.map]
  exact ⟨_, rfl⟩

theorem vtMatches_ok {s : List Char} (h : IsAcgt s) (chk : Option (List Char)) :
    ∃ b, vtMatches s chk = .ok b := by
  cases chk with
  | none => exact ⟨true, rfl⟩
  | some c =>
    obtain ⟨r, hr⟩ := setVt_ok h c.length
    exact ⟨r == c, by simp only [vtMatches, hr, Except.map]⟩

theorem vtMatches_some_true {x c : List Char} (h : vtMatches x (some c) = .ok true) :
    setVt x c.length = .ok c := by
  simp only [vtMatches] at h
  cases hs : setVt x c.length with
  | error e => simp [hs, Except.map] at h
  | ok r => simp [hs, Except.map] at h; rw [h]

/-! ## scanning along a walk -/

/-- the state after following the arcs spelled by `w`. -/
def Scan.run (a : Acc) (st : Scan) : List Char → Scan
  | [] => st
  | c :: w => Scan.run a (st.advance c (a.ent st.v ((nucIdx c).getD 0))) w

theorem Scan.run_fields (a : Acc) : ∀ (w : List Char) (st : Scan),
    (st.run a w).loc = st.loc + w.length ∧ (st.run a w).v = walkEnd a st.v w ∧
    (st.run a w).detected = st.detected ∧ (st.run a w).chunks = st.chunks ∧
    (st.run a w).markers = st.markers ∧ (st.run a w).visited = st.visited + w.length ∧
    (st.run a w).queue.length = st.queue.length
  | [], st => by simp [Scan.run, walkEnd]
  | c :: w, st => by
    obtain ⟨h1, h2, h3, h4, h5, h6, h8⟩ := Scan.run_fields a w
      (st.advance c (a.ent st.v ((nucIdx c).getD 0)))
    simp only [Scan.run, walkEnd]
    refine ⟨?_, h2, h3, h4, h5, ?_, ?_⟩
    · rw [h1]; simp; omega
    · rw [h6]; simp [Scan.advance]; omega
    · rw [h8]; simp [Scan.advance]

theorem Scan.run_splits (a : Acc) : ∀ (w : List Char) (st : Scan), st.splits ≠ [] →
    (st.run a w).splits = (st.splits.headD [] ++ w) :: st.splits.tail
  | [], st, h => by
    cases hs : st.splits with
    | nil => exact absurd hs h
    | cons x xs => simp [Scan.run, hs]
  | c :: w, st, h => by
    simp only [Scan.run]
    rw [Scan.run_splits a w _ (by simp [Scan.advance])]
    simp [Scan.advance]

/-- a walk that is a prefix of the unread strand is consumed without any detection. -/
theorem scan_walk (a : Acc) (k : Nat) (dna : List Char) (fuel : Nat) :
    ∀ (w : List Char) (st : Scan), isWalk a st.v w = true →
      (∃ rest, dna.drop st.loc = w ++ rest) →
      scan a k dna (fuel + w.length) st = scan a k dna fuel (st.run a w)
  | [], st, _, _ => rfl
  | c :: w, st, hw, ⟨rest, hr⟩ => by
    have hlt : st.loc < dna.length := by
      apply Nat.lt_of_not_le; intro hge
      rw [List.drop_of_length_le hge] at hr; cases hr
    have hc : dna.getD st.loc 'A' = c := by
      have := List.getElem_drop (xs := dna) (i := st.loc) (j := 0) (h := by simp; omega)
      simp only [hr] at this
      simp [List.getD, List.getElem?_eq_getElem hlt]
      simpa using this.symm
    simp only [isWalk] at hw
    split at hw
    · rename_i t ht
      have hstep : scanStep a k dna st = st.advance c (a.ent st.v ((nucIdx c).getD 0)) := by
        simp only [scanStep, hc, ht, (Acc.next_eq_some ht).2.1]
      have : fuel + (c :: w).length = (fuel + w.length) + 1 := by simp; omega
      rw [this, scan_succ a k dna _ st hlt, hstep, Scan.run]
      apply scan_walk a k dna fuel w
      · simpa [Scan.advance, ← (Acc.next_eq_some ht).2.1] using hw
      · refine ⟨rest, ?_⟩
        have : dna.drop (st.loc + 1) = (dna.drop st.loc).drop 1 := by simp [List.drop_drop]
        simp [Scan.advance, this, hr]
    · cases hw


/-- the scan of a strand that is a walk: no detection, one split. -/
theorem scan_clean (a : Acc) (k : Nat) (s : List Char) (v : Int) (hw : isWalk a v s = true) :
    ∃ st, scan a k s (s.length + 1) (Scan.init s v) = some st ∧ st.detected = 0 ∧
      st.chunks = [] ∧ st.markers = [] ∧ st.splits = [s] ∧ st.visited = s.length ∧
      st.v = walkEnd a v s ∧ st.loc = s.length := by
  have h := scan_walk a k s 1 s (Scan.init s v) hw ⟨[], by simp [Scan.init]⟩
  obtain ⟨h1, h2, h3, h4, h5, h6, -⟩ := Scan.run_fields a s (Scan.init s v)
  have h7 := Scan.run_splits a s (Scan.init s v) (by simp [Scan.init])
  refine ⟨(Scan.init s v).run a s, ?_, ?_⟩
  · rw [Nat.add_comm, h]
    exact scan_done a k s 1 _ (by rw [h1]; simp [Scan.init])
  · simp [Scan.init] at h1 h2 h3 h4 h5 h6 h7
    exact ⟨h3, h4, h5, h7, h6, h2, h1⟩

end Dsw
