import DswModel.Lemmas.FloatSpecPos
import Mathlib.Tactic.LinearCombination
/-!
# `roundDouble` against the binary64 specification (lemma versions with `IsB64` / `EqPow2` unfolded)

`Props/FloatSpec.lean` defines `EqPow2 a b m e := if e ≥ 0 then a = m * 2^e.toNat * b else a * 2^(-e).toNat = m * b`
and `IsB64`; here the same statements are written out, the theorems of `Props/FloatSpec.lean` are one-line calls.
-/
namespace Dsw

/-! ## shape of `roundDouble` -/

theorem roundDouble_eq_ite {num : Int} {den : Nat} (hnum : num ≠ 0) (hden : den ≠ 0) :
    roundDouble num den =
      if (roundPos num.natAbs den).2 > 971 ∨
          ((roundPos num.natAbs den).2 = 971 ∧ (roundPos num.natAbs den).1 ≥ 2 ^ 53) then none
      else some ⟨(if num < 0 then -1 else 1) * (magNum (roundPos num.natAbs den) : Int),
                 magDen (roundPos num.natAbs den)⟩ := by
  unfold roundDouble
  have h0 : ¬ (num = 0 ∨ den = 0) := by omega
  simp only [h0, if_false]
  generalize roundPos num.natAbs den = p
  obtain ⟨m, e⟩ := p
  simp only
  unfold magNum magDen
  simp only
  split
  · rfl
  · split
    · rfl
    · rfl

/-- the overflow test of `roundDouble` on `(m, e)`. -/
def Ovf (m : Nat) (e : Int) : Prop := e > 971 ∨ (e = 971 ∧ m ≥ 2 ^ 53)

theorem roundDouble_shape {num : Int} {den : Nat} (hnum : num ≠ 0) (hden : 0 < den) :
    ∃ m e k, PosSpec 1074 num.natAbs den m e k ∧
      ((Ovf m e ∧ roundDouble num den = none) ∨
       (¬ Ovf m e ∧ roundDouble num den =
          some ⟨(if num < 0 then -1 else 1) * (magNum (m, e) : Int), magDen (m, e)⟩)) := by
  obtain ⟨k, S⟩ := roundPos_posSpec num.natAbs den (by omega) hden
  refine ⟨(roundPos num.natAbs den).1, (roundPos num.natAbs den).2, k, S, ?_⟩
  rw [roundDouble_eq_ite hnum (by omega)]
  unfold Ovf
  split
  · rename_i h
    exact Or.inl ⟨h, rfl⟩
  · rename_i h
    exact Or.inr ⟨h, rfl⟩

/-! ## powers of two, scaled -/

/-- `a / b = m * 2^e` (sign-split) gives `a * 2^O = m * 2^k * b` for `k = e + O`. -/
theorem eqPow2_scaled (O : Nat) {a b m : Nat} {e : Int} (k : Nat) (hk : e = (k : Int) - (O : Int))
    (h : if e ≥ 0 then a = m * 2 ^ e.toNat * b else a * 2 ^ (-e).toNat = m * b) :
    a * 2 ^ O = m * 2 ^ k * b := by
  by_cases he : e ≥ 0
  · simp only [he, if_true] at h
    have hkk : k = e.toNat + O := by omega
    rw [h, hkk, Nat.pow_add]
    ring
  · simp only [he, if_false] at h
    have hO : O = (-e).toNat + k := by omega
    have : a * 2 ^ O = a * 2 ^ (-e).toNat * 2 ^ k := by
      rw [Nat.mul_assoc, ← Nat.pow_add, ← hO]
    rw [this, h]
    ring

theorem mag_eqPow2 (m : Nat) (e : Int) :
    if e ≥ 0 then magNum (m, e) = m * 2 ^ e.toNat * magDen (m, e)
    else magNum (m, e) * 2 ^ (-e).toNat = m * magDen (m, e) := by
  unfold magNum magDen
  simp only
  split
  · rw [Nat.mul_one]
  · rfl

theorem sign_natAbs (num : Int) (x : Nat) : ((if num < 0 then -1 else 1) * (x : Int)).natAbs = x := by
  split
  · simp
  · simp

/-! ## every result is a binary64 value -/

theorem roundDouble_isB64' (num : Int) (den : Nat) (r : Dbl) (hden : 0 < den) (h : roundDouble num den = some r) :
    0 < r.den ∧ ∃ (m : Nat) (e : Int), m < 2 ^ 53 ∧ -1074 ≤ e ∧ e ≤ 971 ∧
      (if e ≥ 0 then r.num.natAbs = m * 2 ^ e.toNat * r.den else r.num.natAbs * 2 ^ (-e).toNat = m * r.den) := by
  by_cases hnum : num = 0
  · subst hnum
    rw [roundDouble_zero] at h
    cases h
    exact ⟨Nat.one_pos, 0, 0, by omega, by omega, by omega, by simp⟩
  · obtain ⟨m, e, k, S, hcase⟩ := roundDouble_shape hnum hden
    rcases hcase with ⟨_, h2⟩ | ⟨hov, h2⟩
    · rw [h2] at h; cases h
    · rw [h2] at h
      cases h
      simp only [sign_natAbs]
      refine ⟨magDen_pos _, ?_⟩
      unfold Ovf at hov
      have hk := S.hk
      have hmle := S.m_le
      by_cases hm : m < 2 ^ 53
      · exact ⟨m, e, hm, by omega, by omega, mag_eqPow2 m e⟩
      · have hm53 : m = 2 ^ 53 := by omega
        refine ⟨2 ^ 52, e + 1, by omega, by omega, by omega, ?_⟩
        subst hm53
        unfold magNum magDen
        simp only
        by_cases he : e ≥ 0
        · have he1 : e + 1 ≥ 0 := by omega
          have ht : (e + 1).toNat = e.toNat + 1 := by omega
          simp only [he, he1, if_true, ht, Nat.mul_one]
          rw [Nat.pow_succ]
          ring
        · by_cases he1 : e + 1 ≥ 0
          · have hem : e = -1 := by omega
            subst hem
            simp only [he, he1, if_true, if_false]
            rfl
          · have ht : (-e).toNat = (-(e + 1)).toNat + 1 := by omega
            simp only [he, he1, if_false, ht]
            rw [Nat.pow_succ]
            ring

/-! ## the sign -/

theorem roundDouble_sign' (num : Int) (den : Nat) (r : Dbl) (h : roundDouble num den = some r) :
    (0 ≤ num → 0 ≤ r.num) ∧ (num ≤ 0 → r.num ≤ 0) := by
  by_cases h0 : num = 0 ∨ den = 0
  · unfold roundDouble at h
    simp only [h0, if_true] at h
    cases h
    simp
  · obtain ⟨h1, _⟩ := roundDouble_some (by omega) (by omega) h
    rw [h1]
    have hm : (0 : Int) ≤ (magNum (roundPos num.natAbs den) : Int) := Int.natCast_nonneg _
    constructor
    · intro hn
      have : ¬ num < 0 := by omega
      simp only [this, if_false]
      omega
    · intro hn
      have : num < 0 := by omega
      simp only [this, if_true]
      omega

/-! ## round to nearest -/

/-- the core of "no binary64 value is nearer", scaled: `A` the exact value, `m * U` the result, `m' * 2^k' * d` any
other value with a significand below `2^53`. -/
theorem nearest_core {A U m d k k' m' : Nat} (hUdef : U = d * 2 ^ k)
    (half_lo : 2 * (m * U) ≤ 2 * A + U) (half_hi : 2 * A ≤ 2 * (m * U) + U)
    (lower : 0 < k → 2 ^ 52 * U ≤ A) (hm' : m' < 2 ^ 53) :
    ((A : Int) - ((m * U : Nat) : Int)).natAbs ≤ ((A : Int) - ((m' * 2 ^ k' * d : Nat) : Int)).natAbs := by
  by_cases hkk : k ≤ k'
  · obtain ⟨j, rfl⟩ : ∃ j, k' = k + j := ⟨k' - k, by omega⟩
    have hY : m' * 2 ^ (k + j) * d = (m' * 2 ^ j) * U := by
      rw [hUdef, Nat.pow_add]; ring
    rw [hY]
    generalize m' * 2 ^ j = c
    rcases Nat.lt_trichotomy c m with hlt | heq | hgt
    · have h1 : (c + 1) * U ≤ m * U := Nat.mul_le_mul_right _ hlt
      rw [Nat.add_mul, Nat.one_mul] at h1
      generalize m * U = X at *
      generalize c * U = Y at *
      omega
    · subst heq
      exact Nat.le_refl _
    · have h1 : (m + 1) * U ≤ c * U := Nat.mul_le_mul_right _ hgt
      rw [Nat.add_mul, Nat.one_mul] at h1
      generalize m * U = X at *
      generalize c * U = Y at *
      omega
  · obtain ⟨j, rfl⟩ : ∃ j, k = k' + 1 + j := ⟨k - k' - 1, by omega⟩
    have hlow := lower (by omega)
    have hj : 1 ≤ 2 ^ j := two_pow_pos' j
    have hU2 : U = 2 * (2 ^ k' * d) * 2 ^ j := by
      rw [hUdef, Nat.pow_add, Nat.pow_succ]; ring
    have h1 : 2 * (2 ^ k' * d) ≤ U := by
      rw [hU2]; exact Nat.le_mul_of_pos_right _ hj
    have h2 : 2 * (m' * 2 ^ k' * d) ≤ m' * U := by
      have : 2 * (m' * 2 ^ k' * d) = m' * (2 * (2 ^ k' * d)) := by ring
      rw [this]; exact Nat.mul_le_mul_left _ h1
    have h3 : (m' + 1) * U ≤ 2 ^ 53 * U := Nat.mul_le_mul_right _ hm'
    rw [Nat.add_mul, Nat.one_mul] at h3
    generalize m * U = X at *
    generalize m' * 2 ^ k' * d = Y at *
    generalize m' * U = Z at *
    omega

/-- cross-multiplied comparison of absolute values after a common scaling by `P`. -/
theorem natAbs_cross {X Z a b : Int} {P rd yd : Nat} (hP : 0 < P) (hX : X * P = a * rd) (hZ : Z * P = b * yd)
    (hab : a.natAbs ≤ b.natAbs) : X.natAbs * yd ≤ Z.natAbs * rd := by
  have h1 : X.natAbs * P = a.natAbs * rd := by
    have := congrArg Int.natAbs hX
    simpa [Int.natAbs_mul] using this
  have h2 : Z.natAbs * P = b.natAbs * yd := by
    have := congrArg Int.natAbs hZ
    simpa [Int.natAbs_mul] using this
  have h3 : X.natAbs * yd * P ≤ Z.natAbs * rd * P := by
    calc X.natAbs * yd * P = a.natAbs * rd * yd := by rw [Nat.mul_right_comm, h1]
      _ ≤ b.natAbs * rd * yd := Nat.mul_le_mul_right _ (Nat.mul_le_mul_right _ hab)
      _ = Z.natAbs * rd * P := by rw [Nat.mul_right_comm Z.natAbs, h2]; ring
  exact Nat.le_of_mul_le_mul_right h3 hP

/-- nearest, for a positive input. -/
theorem nearest_pos {O n d m k : Nat} {e : Int} (S : PosSpec O n d m e k)
    (yn : Int) (yd m' : Nat) (e' : Int) (hm' : m' < 2 ^ 53) (he' : -(O : Int) ≤ e')
    (hy : if e' ≥ 0 then yn.natAbs = m' * 2 ^ e'.toNat * yd else yn.natAbs * 2 ^ (-e').toNat = m' * yd) :
    ((n : Int) * (magDen (m, e) : Nat) - (magNum (m, e) : Nat) * (d : Int)).natAbs * yd ≤
      ((n : Int) * yd - yn * d).natAbs * magDen (m, e) := by
  obtain ⟨k', hk'⟩ : ∃ k' : Nat, e' = (k' : Int) - (O : Int) := ⟨(e' + O).toNat, by omega⟩
  have F1 := eqPow2_scaled O k S.hk (mag_eqPow2 m e)
  have F2 := eqPow2_scaled O k' hk' hy
  have c1 := nearest_core (A := n * 2 ^ O) (U := d * 2 ^ k) (m := m) (d := d) (k := k) (k' := k') (m' := m') rfl
    S.half_lo S.half_hi S.lower hm'
  have c0 := nearest_core (A := n * 2 ^ O) (U := d * 2 ^ k) (m := m) (d := d) (k := k) (k' := 0) (m' := 0) rfl
    S.half_lo S.half_hi S.lower (by omega)
  have hP : 0 < 2 ^ O := two_pow_pos' O
  generalize magNum (m, e) = rn at *
  generalize magDen (m, e) = rd at *
  generalize 2 ^ O = P at *
  have F1' : (rn : Int) * (P : Int) = (m : Int) * 2 ^ k * rd := by exact_mod_cast F1
  have F2' : (yn.natAbs : Int) * (P : Int) = (m' : Int) * 2 ^ k' * yd := by exact_mod_cast F2
  have hX : ((n : Int) * (rd : Nat) - (rn : Nat) * (d : Int)) * (P : Int) =
      (((n * P : Nat) : Int) - ((m * (d * 2 ^ k) : Nat) : Int)) * (rd : Int) := by
    push_cast
    linear_combination (-(d : Int)) * F1'
  by_cases hyn : 0 ≤ yn
  · have hya : (yn.natAbs : Int) = yn := by omega
    rw [hya] at F2'
    have hZ : ((n : Int) * yd - yn * d) * (P : Int) =
        (((n * P : Nat) : Int) - ((m' * 2 ^ k' * d : Nat) : Int)) * (yd : Int) := by
      push_cast
      linear_combination (-(d : Int)) * F2'
    exact natAbs_cross hP hX hZ c1
  · have hya : (yn.natAbs : Int) = -yn := by omega
    rw [hya] at F2'
    have hZ : ((n : Int) * yd - yn * d) * (P : Int) =
        (((n * P : Nat) : Int) + ((m' * 2 ^ k' * d : Nat) : Int)) * (yd : Int) := by
      push_cast
      linear_combination (d : Int) * F2'
    refine natAbs_cross hP hX hZ ?_
    simp only [Nat.zero_mul, Nat.cast_zero, Int.sub_zero] at c0
    generalize m * (d * 2 ^ k) = X at *
    generalize m' * 2 ^ k' * d = Y at *
    generalize n * P = A at *
    omega

theorem roundDouble_nearest_pos (num : Int) (den : Nat) (r : Dbl) (hden : 0 < den) (hnum : 0 < num)
    (h : roundDouble num den = some r)
    (yn : Int) (yd m' : Nat) (e' : Int) (hm' : m' < 2 ^ 53) (he' : -1074 ≤ e')
    (hy : if e' ≥ 0 then yn.natAbs = m' * 2 ^ e'.toNat * yd else yn.natAbs * 2 ^ (-e').toNat = m' * yd) :
    (num * r.den - r.num * den).natAbs * yd ≤ (num * yd - yn * den).natAbs * r.den := by
  obtain ⟨m, e, k, S, hcase⟩ := roundDouble_shape (num := num) (den := den) (by omega) hden
  rcases hcase with ⟨_, h2⟩ | ⟨_, h2⟩
  · rw [h2] at h; cases h
  · rw [h2] at h
    cases h
    have hneg : ¬ num < 0 := by omega
    simp only [hneg, if_false, Int.one_mul]
    have := nearest_pos S yn yd m' e' hm' (by omega) hy
    have hn : ((num.natAbs : Nat) : Int) = num := by omega
    rw [hn] at this
    exact this

theorem roundDouble_nearest' (num : Int) (den : Nat) (r : Dbl) (hden : 0 < den)
    (h : roundDouble num den = some r)
    (yn : Int) (yd m' : Nat) (e' : Int) (hm' : m' < 2 ^ 53) (he' : -1074 ≤ e')
    (hy : if e' ≥ 0 then yn.natAbs = m' * 2 ^ e'.toNat * yd else yn.natAbs * 2 ^ (-e').toNat = m' * yd) :
    (num * r.den - r.num * den).natAbs * yd ≤ (num * yd - yn * den).natAbs * r.den := by
  rcases Int.lt_trichotomy num 0 with hneg | hz | hpos
  · have h' := roundDouble_neg h
    have := roundDouble_nearest_pos (-num) den ⟨-r.num, r.den⟩ hden (by omega) h' (-yn) yd m' e' hm' he'
      (by rw [Int.natAbs_neg]; exact hy)
    simp only at this
    have e1 : -num * (r.den : Int) - -r.num * (den : Int) = -(num * r.den - r.num * den) := by ring
    have e2 : -num * (yd : Int) - -yn * (den : Int) = -(num * yd - yn * den) := by ring
    rw [e1, e2, Int.natAbs_neg, Int.natAbs_neg] at this
    exact this
  · subst hz
    rw [roundDouble_zero] at h
    cases h
    simp
  · exact roundDouble_nearest_pos num den r hden hpos h yn yd m' e' hm' he' hy

/-! ## the overflow threshold -/

theorem overflow_iff_core {A U W m k j : Nat} (hW : 0 < W)
    (hU1 : k ≤ j → U ≤ W) (hU2 : k = j + 1 → U = 2 * W) (hU3 : k ≥ j + 2 → 4 * W ≤ U)
    (m_le : m ≤ 2 ^ 53)
    (lower : 0 < k → 2 ^ 52 * U ≤ A) (upper : A < 2 ^ 53 * U)
    (half_lo : 2 * (m * U) ≤ 2 * A + U) (half_hi : 2 * A ≤ 2 * (m * U) + U)
    (tie : (2 * (m * U) = 2 * A + U ∨ 2 * A = 2 * (m * U) + U) → m % 2 = 0) :
    (k ≥ j + 2 ∨ (k = j + 1 ∧ m ≥ 2 ^ 53)) ↔ (2 ^ 54 - 1) * W ≤ A := by
  constructor
  · rintro (h | ⟨h1, h2⟩)
    · have := hU3 h
      have := lower (by omega)
      omega
    · have := hU2 h1
      have : 2 ^ 53 * U ≤ m * U := Nat.mul_le_mul_right _ h2
      generalize m * U = X at *
      omega
  · intro h
    by_contra hc
    by_cases hk : k ≤ j
    · have := hU1 hk
      omega
    · have hk1 : k = j + 1 := by omega
      have hm : m < 2 ^ 53 := by omega
      have hU := hU2 hk1
      by_cases hm2 : m + 2 ≤ 2 ^ 53
      · have : (m + 2) * U ≤ 2 ^ 53 * U := Nat.mul_le_mul_right _ hm2
        rw [Nat.add_mul] at this
        generalize m * U = X at *
        omega
      · have hm3 : m = 2 ^ 53 - 1 := by omega
        have hodd : ¬ m % 2 = 0 := by omega
        have hnt : ¬ (2 * A = 2 * (m * U) + U) := fun hh => hodd (tie (Or.inr hh))
        have : m * U + U = 2 ^ 53 * U := by
          have hm4 : m + 1 = 2 ^ 53 := by omega
          have : (m + 1) * U = 2 ^ 53 * U := by rw [hm4]
          rw [Nat.add_mul, Nat.one_mul] at this
          exact this
        generalize m * U = X at *
        omega

theorem pow_facts (den j k : Nat) :
    (k ≤ j → den * 2 ^ k ≤ den * 2 ^ j) ∧ (k = j + 1 → den * 2 ^ k = 2 * (den * 2 ^ j)) ∧
    (k ≥ j + 2 → 4 * (den * 2 ^ j) ≤ den * 2 ^ k) := by
  refine ⟨fun hh => Nat.mul_le_mul_left _ (Nat.pow_le_pow_right (by omega) hh), ?_, ?_⟩
  · intro hh
    rw [hh, Nat.pow_succ]; ring
  · intro hh
    obtain ⟨i, rfl⟩ : ∃ i, k = j + 2 + i := ⟨k - (j + 2), by omega⟩
    have e1 : den * 2 ^ (j + 2 + i) = 4 * (den * 2 ^ j) * 2 ^ i := by
      rw [Nat.pow_add, Nat.pow_add _ _ 2]; ring
    rw [e1]
    exact Nat.le_mul_of_pos_right _ (two_pow_pos' i)

theorem thr_assoc (c a b den : Nat) : c * (den * 2 ^ (a + b)) = c * 2 ^ a * den * 2 ^ b := by
  rw [Nat.pow_add]; ring

/-- the overflow test against the threshold, with the offset `O` (= 1074) and `a` (= 970) as parameters. -/
theorem ovf_iff_thr {O a n den m k : Nat} {e : Int} (ha : (a : Int) + 1 = 971) (hden : 0 < den)
    (S : PosSpec O n den m e k) : Ovf m e ↔ (2 ^ 54 - 1) * 2 ^ a * den ≤ n := by
  have hk := S.hk
  have hW : 0 < den * 2 ^ (a + O) := Nat.mul_pos hden (two_pow_pos' _)
  obtain ⟨hU1, hU2, hU3⟩ := pow_facts den (a + O) k
  have core := overflow_iff_core (A := n * 2 ^ O) (U := den * 2 ^ k) (W := den * 2 ^ (a + O)) (m := m)
    (k := k) (j := a + O) hW hU1 hU2 hU3 S.m_le S.lower S.upper S.half_lo S.half_hi S.tie
  have hov : Ovf m e ↔ (k ≥ a + O + 2 ∨ (k = a + O + 1 ∧ m ≥ 2 ^ 53)) := by
    unfold Ovf
    constructor
    · rintro (h | ⟨h1, h2⟩)
      · left; omega
      · right; exact ⟨by omega, h2⟩
    · rintro (h | ⟨h1, h2⟩)
      · left; omega
      · right; exact ⟨by omega, h2⟩
  have hthr : (2 ^ 54 - 1) * (den * 2 ^ (a + O)) ≤ n * 2 ^ O ↔ (2 ^ 54 - 1) * 2 ^ a * den ≤ n := by
    rw [thr_assoc]
    constructor
    · intro hh; exact Nat.le_of_mul_le_mul_right hh (two_pow_pos' O)
    · intro hh; exact Nat.mul_le_mul_right _ hh
  rw [← hthr, ← core, ← hov]

theorem roundDouble_none_iff' (num : Int) (den : Nat) (hden : 0 < den) :
    roundDouble num den = none ↔ (2 ^ 54 - 1) * 2 ^ 970 * den ≤ num.natAbs := by
  by_cases hnum : num = 0
  · subst hnum
    rw [roundDouble_zero]
    have h1 : 0 < (2 ^ 54 - 1) * 2 ^ 970 * den :=
      Nat.mul_pos (Nat.mul_pos (by omega) (two_pow_pos' 970)) hden
    constructor
    · intro h; cases h
    · intro h
      simp only [Int.natAbs_zero] at h
      omega
  · obtain ⟨m, e, k, S, hcase⟩ := roundDouble_shape hnum hden
    rw [← ovf_iff_thr (a := 970) (by omega) hden S]
    rcases hcase with ⟨h1, h2⟩ | ⟨h1, h2⟩
    · rw [h2]; exact ⟨fun _ => h1, fun _ => rfl⟩
    · rw [h2]
      constructor
      · intro hh; cases hh
      · intro hh; exact absurd hh h1

/-! ## binary64 values are fixed points -/

/-- a value `m' * 2^e'` with `m' < 2^53`, `e' ≤ 971` is below the overflow threshold (parameters as in `ovf_iff_thr`). -/
theorem below_thr {O a n den m' k' : Nat} (hden : 0 < den) (hm' : m' < 2 ^ 53) (hk2 : k' ≤ a + O + 1)
    (F2 : n * 2 ^ O = m' * 2 ^ k' * den) : ¬ (2 ^ 54 - 1) * 2 ^ a * den ≤ n := by
  intro hthr
  have h1 : 2 ^ k' ≤ 2 ^ (a + O + 1) := Nat.pow_le_pow_right (by omega) hk2
  have h2 : (2 ^ 54 - 1) * 2 ^ a * den * 2 ^ O ≤ n * 2 ^ O := Nat.mul_le_mul_right _ hthr
  rw [← thr_assoc] at h2
  have e2 : 2 ^ (a + O + 1) = 2 * 2 ^ (a + O) := by rw [Nat.pow_succ, Nat.mul_comm]
  have h3 : m' * 2 ^ k' * den ≤ (2 ^ 53 - 1) * (2 * 2 ^ (a + O)) * den := by
    apply Nat.mul_le_mul_right
    rw [← e2]
    exact Nat.mul_le_mul (by omega) h1
  have e3 : (2 ^ 53 - 1) * (2 * 2 ^ (a + O)) * den = ((2 ^ 53 - 1) * 2) * (den * 2 ^ (a + O)) := by
    generalize (2 ^ 53 - 1 : Nat) = c
    ring
  have hW : 0 < den * 2 ^ (a + O) := Nat.mul_pos hden (two_pow_pos' _)
  generalize den * 2 ^ (a + O) = W at *
  omega

theorem roundDouble_fixed' (num : Int) (den : Nat) (hden : 0 < den) (m' : Nat) (e' : Int)
    (hm' : m' < 2 ^ 53) (he1 : -1074 ≤ e') (he2 : e' ≤ 971)
    (hy : if e' ≥ 0 then num.natAbs = m' * 2 ^ e'.toNat * den else num.natAbs * 2 ^ (-e').toNat = m' * den) :
    ∃ r, roundDouble num den = some r ∧ r.num * den = num * r.den := by
  have hsome : roundDouble num den ≠ none := by
    intro hnone
    have hthr := (roundDouble_none_iff' num den hden).1 hnone
    obtain ⟨k', hk'⟩ : ∃ k' : Nat, e' = (k' : Int) - ((1074 : Nat) : Int) := ⟨(e' + 1074).toNat, by omega⟩
    have F2 := eqPow2_scaled 1074 k' hk' hy
    exact below_thr (a := 970) hden hm' (by omega) F2 hthr
  cases hr : roundDouble num den with
  | none => exact absurd hr hsome
  | some r =>
    refine ⟨r, rfl, ?_⟩
    have hn := roundDouble_nearest' num den r hden hr num den m' e' hm' he1 hy
    have hrd := roundDouble_den_pos' hr
    have h0 : (num * (den : Int) - num * den).natAbs = 0 := by simp
    rw [h0, Nat.zero_mul] at hn
    have h1 : (num * (r.den : Int) - r.num * den).natAbs = 0 := by
      rcases Nat.eq_zero_or_pos (num * (r.den : Int) - r.num * den).natAbs with hz | hp
      · exact hz
      · have := Nat.mul_pos hp hden
        omega
    have := Int.natAbs_eq_zero.1 h1
    omega

end Dsw
