import DswModel.Lemmas.PowerStopF
/-!
# The shape of `capStepF` and `maxDiffF` (for C17c)
-/
namespace Dsw.PowerStopF
open Dsw.FloatErr

theorem capStepF_spec (a : Acc) (x z : VecF) (ev : Dbl) (h : capStepF a x = some (z, ev)) :
    ∃ y : List Dbl, (List.range a.size).map (fun v => rowSumF a x v) = y.map some ∧
      ev = y.foldl Dbl.maxD Dbl.zero ∧
      ((Dbl.lt Dbl.zero ev = true ∧ ∃ zl : List Dbl, (y.map fun t => Dbl.div t ev) = zl.map some ∧ z = zl.toArray) ∨
       (¬ Dbl.lt Dbl.zero ev = true ∧ z = (y.map fun _ => Dbl.zero).toArray)) := by
  unfold capStepF at h
  split at h
  · cases h
  · rename_i y hy
    refine ⟨y, allSome_eq_some _ _ hy, ?_⟩
    simp only at h
    split at h
    · rename_i hlt
      rw [Option.map_eq_some_iff] at h
      obtain ⟨zl, hzl, he⟩ := h
      simp only [Prod.mk.injEq] at he
      obtain ⟨e1, e2⟩ := he
      refine ⟨e2.symm, Or.inl ⟨by rw [← e2]; exact hlt, zl, ?_, e1.symm⟩⟩
      rw [← e2]
      exact allSome_eq_some _ _ hzl
    · rename_i hlt
      simp only [Option.some.injEq, Prod.mk.injEq] at h
      obtain ⟨e1, e2⟩ := h
      exact ⟨e2.symm, Or.inr ⟨by rw [← e2]; exact hlt, e1.symm⟩⟩

theorem lt_zero_iff (e : Dbl) : Dbl.lt Dbl.zero e = true ↔ 0 < e.num := by
  unfold Dbl.lt Dbl.zero
  simp

/-- everything the certificate needs to know about one step. -/
theorem step_data (a : Acc) (x z : VecF) (ev : Dbl)
    (hx : ∀ w, w < a.size → IsB64 (x.getD w Dbl.zero).num (x.getD w Dbl.zero).den ∧ 0 ≤ (x.getD w Dbl.zero).num)
    (ha : ∀ v, v < a.size → ∀ w ∈ a.liveEntries (v : Int), w < a.size)
    (h : capStepF a x = some (z, ev)) :
    z.size = a.size ∧ IsB64 ev.num ev.den ∧ 0 ≤ ev.num ∧
    ∀ v, v < a.size → ∃ y, rowSumF a x v = some y ∧
      IsB64 (z.getD v Dbl.zero).num (z.getD v Dbl.zero).den ∧ 0 ≤ (z.getD v Dbl.zero).num ∧
      (0 < ev.num → Dbl.div y ev = some (z.getD v Dbl.zero)) := by
  obtain ⟨y, hmap, hev, hcase⟩ := capStepF_spec a x z ev h
  obtain ⟨hlen, hrow⟩ := range_map_eq hmap
  have hyP : ∀ t ∈ y, IsB64 t.num t.den ∧ 0 ≤ t.num := by
    intro t ht
    obtain ⟨v, hv⟩ := List.mem_iff_getElem?.1 ht
    have hvn : v < a.size := by
      rcases Nat.lt_or_ge v y.length with h1 | h1
      · omega
      · rw [List.getElem?_eq_none h1] at hv; cases hv
    obtain ⟨t', ht', hr⟩ := hrow v hvn
    rw [hv] at ht'
    cases ht'
    have := rowSum_bound a x v t hx (ha v hvn) hr
    exact ⟨this.2.2.1, this.2.2.2.1⟩
  have hevP : IsB64 ev.num ev.den ∧ 0 ≤ ev.num := by
    rw [hev]
    exact foldl_maxD_prop (fun t => IsB64 t.num t.den ∧ 0 ≤ t.num) y Dbl.zero ⟨isB64_zero, le_refl _⟩ hyP
  rcases hcase with ⟨hlt, zl, hzl, hz⟩ | ⟨hlt, hz⟩
  · obtain ⟨hzlen, hent⟩ := list_map_eq hzl
    have hevpos : 0 < ev.num := (lt_zero_iff ev).1 hlt
    refine ⟨by rw [hz]; simp [hzlen, hlen], hevP.1, hevP.2, fun v hv => ?_⟩
    obtain ⟨t, ht, hr⟩ := hrow v hv
    obtain ⟨r, hzr, hdiv⟩ := hent v t ht
    have hget : z.getD v Dbl.zero = r := by rw [hz]; exact toArray_getD zl v r Dbl.zero hzr
    have htP := hyP t (List.mem_of_getElem? ht)
    refine ⟨t, hr, ?_, ?_, fun _ => ?_⟩
    · rw [hget]; exact div_isB64 t ev r htP.1.1 hevpos hdiv
    · rw [hget]; exact div_nonneg' t ev r htP.2 hevpos hdiv
    · rw [hget]; exact hdiv
  · have hevpos : ¬ 0 < ev.num := fun hc => hlt ((lt_zero_iff ev).2 hc)
    refine ⟨by rw [hz]; simp [hlen], hevP.1, hevP.2, fun v hv => ?_⟩
    obtain ⟨t, ht, hr⟩ := hrow v hv
    have hget : z.getD v Dbl.zero = Dbl.zero := by
      rw [hz]
      apply toArray_getD _ v Dbl.zero Dbl.zero
      rw [List.getElem?_map, ht]
      rfl
    refine ⟨t, hr, ?_, ?_, fun hc => absurd hc hevpos⟩
    · rw [hget]; exact isB64_zero
    · rw [hget]; exact le_refl _

/-- the settled test, entry by entry. -/
theorem maxDiff_data (n : Nat) (z x : VecF) (md : Dbl) (h : maxDiffF n z x = some md)
    (hden : ∀ v, v < n → 0 < (z.getD v Dbl.zero).den ∧ 0 < (x.getD v Dbl.zero).den) :
    0 < md.den ∧ ∀ v, v < n → ∃ d, Dbl.sub (z.getD v Dbl.zero) (x.getD v Dbl.zero) = some d ∧ |val d| ≤ val md := by
  unfold maxDiffF at h
  rw [Option.map_eq_some_iff] at h
  obtain ⟨ds, hds, hmd⟩ := h
  obtain ⟨hlen, hrow⟩ := range_map_eq (allSome_eq_some _ _ hds)
  have hdsP : ∀ t ∈ ds, 0 < t.den := by
    intro t ht
    obtain ⟨v, hv⟩ := List.mem_iff_getElem?.1 ht
    have hvn : v < n := by
      rcases Nat.lt_or_ge v ds.length with h1 | h1
      · omega
      · rw [List.getElem?_eq_none h1] at hv; cases hv
    obtain ⟨t', ht', hr⟩ := hrow v hvn
    rw [hv] at ht'
    cases ht'
    rw [Option.map_eq_some_iff] at hr
    obtain ⟨d, hd, habs⟩ := hr
    rw [← habs]
    exact (sub_isB64 _ _ d (hden v hvn).1 (hden v hvn).2 hd).1
  obtain ⟨g1, g2⟩ := foldl_maxD_ge ds Dbl.zero Nat.one_pos hdsP
  refine ⟨?_, fun v hv => ?_⟩
  · rw [← hmd]
    exact foldl_maxD_prop (fun t => 0 < t.den) ds Dbl.zero Nat.one_pos hdsP
  · obtain ⟨t, ht, hr⟩ := hrow v hv
    rw [Option.map_eq_some_iff] at hr
    obtain ⟨d, hd, habs⟩ := hr
    refine ⟨d, hd, ?_⟩
    rw [← val_abs, habs, ← hmd]
    exact g2 t (List.mem_of_getElem? ht)

theorem settled_entry (n : Nat) (z x : VecF) (md tol : Dbl) (h : maxDiffF n z x = some md)
    (hden : ∀ v, v < n → 0 < (z.getD v Dbl.zero).den ∧ 0 < (x.getD v Dbl.zero).den)
    (htol : IsB64 tol.num tol.den ∧ 0 ≤ tol.num) (hset : Dbl.lt md tol = true) :
    ∀ v, v < n → |val (z.getD v Dbl.zero) - val (x.getD v Dbl.zero)| < val tol := by
  obtain ⟨hmd, hrow⟩ := maxDiff_data n z x md h hden
  have hlt := (lt_iff md tol hmd htol.1.1).1 hset
  intro v hv
  obtain ⟨d, hd, hle⟩ := hrow v hv
  exact sub_abs_lt _ _ d tol (hden v hv).1 (hden v hv).2 hd htol.1 htol.2 (lt_of_le_of_lt hle hlt)

end Dsw.PowerStopF
