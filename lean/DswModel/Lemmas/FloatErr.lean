import DswModel.Model.Float
import DswModel.Model.CapacityF
import DswModel.Props.FloatSpec
import Mathlib.Algebra.Order.Field.Rat
import Mathlib.Algebra.Order.AbsoluteValue.Basic
import Mathlib.Tactic.Linarith
import Mathlib.Tactic.Positivity
import Mathlib.Tactic.FieldSimp
import Mathlib.Tactic.Ring
import Mathlib.Tactic.NormNum
/-!
# The error of one rounding, as inequalities between rationals

`val r` is the exact value of a double. For `roundDouble num den = some r`, `q = num/den`:
`|val r − q| ≤ 2^-53·|q| + 2^-1075` (`round_err`), the sign is kept, no binary64 value is nearer (`round_nearest_rat`),
rounding is monotone w.r.t. a binary64 value in absolute value (`round_abs_ge`). Then the same for `Dbl.add`,
`Dbl.sub`, `Dbl.div`.
-/
namespace Dsw.FloatErr

/-- the exact value of a double. -/
def val (x : Dbl) : Rat := (x.num : Rat) / (x.den : Rat)

/-! ## the rational core -/

theorem core_abs (n d m K P : Rat) (hd : 0 < d) (hP : 0 < P)
    (hlo : 2 * (m * (d * K)) ≤ 2 * (n * P) + d * K) (hhi : 2 * (n * P) ≤ 2 * (m * (d * K)) + d * K) :
    |m * K / P - n / d| ≤ K / (2 * P) := by
  have e1 : m * K / P - n / d - K / (2 * P) = (2 * (m * (d * K)) - (2 * (n * P) + d * K)) / (2 * d * P) := by
    field_simp
    ring
  have e2 : m * K / P - n / d + K / (2 * P) = (2 * (m * (d * K)) + d * K - 2 * (n * P)) / (2 * d * P) := by
    field_simp
    ring
  have hpos : 0 < 2 * d * P := by positivity
  have h1 : m * K / P - n / d - K / (2 * P) ≤ 0 := by
    rw [e1]; exact div_nonpos_of_nonpos_of_nonneg (by linarith) (le_of_lt hpos)
  have h2 : 0 ≤ m * K / P - n / d + K / (2 * P) := by
    rw [e2]; exact div_nonneg (by linarith) (le_of_lt hpos)
  rw [abs_le]
  constructor <;> linarith

/-- normal range: half an ulp is at most `2^-53` of the value. -/
theorem core_rel (n d K P : Rat) (hd : 0 < d) (hP : 0 < P) (hlow : 2 ^ 52 * (d * K) ≤ n * P) :
    K / (2 * P) ≤ (2 : Rat)⁻¹ ^ 53 * (n / d) := by
  have e : (2 : Rat)⁻¹ ^ 53 * (n / d) - K / (2 * P) = (n * P - 2 ^ 52 * (d * K)) / (2 ^ 53 * d * P) := by
    field_simp
  have hpos : (0 : Rat) < 2 ^ 53 * d * P := by positivity
  have : 0 ≤ (2 : Rat)⁻¹ ^ 53 * (n / d) - K / (2 * P) := by
    rw [e]; exact div_nonneg (by linarith) (le_of_lt hpos)
  linarith

theorem half_pow (O : Nat) : (1 : Rat) / (2 * 2 ^ O) = (2 : Rat)⁻¹ ^ (O + 1) := by
  rw [inv_pow, pow_succ]
  field_simp

/-! ## one rounding -/

/-- from the scaled specification: the error of the positive rounding. -/
theorem posSpec_err {O n d m k : Nat} {e : Int} (S : PosSpec O n d m e k) (hd : 0 < d) :
    |(magNum (m, e) : Rat) / (magDen (m, e) : Rat) - (n : Rat) / (d : Rat)| ≤
      (2 : Rat)⁻¹ ^ 53 * ((n : Rat) / (d : Rat)) + (2 : Rat)⁻¹ ^ (O + 1) := by
  have F1 := eqPow2_scaled O k S.hk (mag_eqPow2 m e)
  have hrd := magDen_pos (m, e)
  generalize magNum (m, e) = rn at *
  generalize magDen (m, e) = rd at *
  have hrdq : (0 : Rat) < (rd : Rat) := by exact_mod_cast hrd
  have hdq : (0 : Rat) < (d : Rat) := by exact_mod_cast hd
  have hP : (0 : Rat) < (2 : Rat) ^ O := by positivity
  have hK : (0 : Rat) < (2 : Rat) ^ k := by positivity
  have F1q : (rn : Rat) * (2 : Rat) ^ O = (m : Rat) * (2 : Rat) ^ k * (rd : Rat) := by exact_mod_cast F1
  have hlo : 2 * ((m : Rat) * ((d : Rat) * (2 : Rat) ^ k)) ≤ 2 * ((n : Rat) * (2 : Rat) ^ O) + (d : Rat) * (2 : Rat) ^ k := by
    exact_mod_cast S.half_lo
  have hhi : 2 * ((n : Rat) * (2 : Rat) ^ O) ≤ 2 * ((m : Rat) * ((d : Rat) * (2 : Rat) ^ k)) + (d : Rat) * (2 : Rat) ^ k := by
    exact_mod_cast S.half_hi
  have hval : (rn : Rat) / (rd : Rat) = (m : Rat) * (2 : Rat) ^ k / (2 : Rat) ^ O := by
    rw [div_eq_div_iff (ne_of_gt hrdq) (ne_of_gt hP)]
    linarith
  rw [hval]
  have habs := core_abs (n : Rat) (d : Rat) (m : Rat) ((2 : Rat) ^ k) ((2 : Rat) ^ O) hdq hP hlo hhi
  have hq : (0 : Rat) ≤ (n : Rat) / (d : Rat) := by positivity
  have hη : (0 : Rat) ≤ (2 : Rat)⁻¹ ^ (O + 1) := by positivity
  rcases Nat.eq_zero_or_pos k with hk0 | hkpos
  · subst hk0
    rw [pow_zero] at habs
    rw [half_pow] at habs
    have : (0 : Rat) ≤ (2 : Rat)⁻¹ ^ 53 * ((n : Rat) / (d : Rat)) := by positivity
    linarith
  · have hlow : (2 : Rat) ^ 52 * ((d : Rat) * (2 : Rat) ^ k) ≤ (n : Rat) * (2 : Rat) ^ O := by
      exact_mod_cast S.lower hkpos
    have := core_rel (n : Rat) (d : Rat) ((2 : Rat) ^ k) ((2 : Rat) ^ O) hdq hP hlow
    linarith

theorem round_err_pos (num : Int) (den : Nat) (r : Dbl) (hden : 0 < den) (hnum : 0 < num)
    (h : roundDouble num den = some r) :
    |val r - (num : Rat) / (den : Rat)| ≤ (2 : Rat)⁻¹ ^ 53 * ((num : Rat) / (den : Rat)) + (2 : Rat)⁻¹ ^ 1075 := by
  obtain ⟨m, e, k, S, hcase⟩ := roundDouble_shape (num := num) (den := den) (by omega) hden
  rcases hcase with ⟨_, h2⟩ | ⟨_, h2⟩
  · rw [h2] at h; cases h
  · rw [h2] at h
    cases h
    have hneg : ¬ num < 0 := by omega
    have := posSpec_err S hden
    have hn : ((num.natAbs : Nat) : Rat) = (num : Rat) := by
      have h1 : ((num.natAbs : Nat) : Int) = num := by omega
      rw [← Int.cast_natCast, h1]
    rw [hn] at this
    unfold val
    simp only [hneg, if_false, Int.one_mul, Int.cast_natCast]
    exact this

theorem val_neg (x : Dbl) : val ⟨-x.num, x.den⟩ = -val x := by
  unfold val
  simp only [Int.cast_neg]
  ring

/-- ONE ROUNDING: `|fl(q) − q| ≤ 2^-53·|q| + 2^-1075`. -/
theorem round_err (num : Int) (den : Nat) (r : Dbl) (hden : 0 < den) (h : roundDouble num den = some r) :
    |val r - (num : Rat) / (den : Rat)| ≤ (2 : Rat)⁻¹ ^ 53 * |(num : Rat) / (den : Rat)| + (2 : Rat)⁻¹ ^ 1075 := by
  have hdq : (0 : Rat) < (den : Rat) := by exact_mod_cast hden
  rcases Int.lt_trichotomy num 0 with hneg | hz | hpos
  · have h' := roundDouble_neg h
    have := round_err_pos (-num) den ⟨-r.num, r.den⟩ hden (by omega) h'
    rw [val_neg] at this
    have hq : ((-num : Int) : Rat) / (den : Rat) = -((num : Rat) / (den : Rat)) := by
      rw [Int.cast_neg]; ring
    rw [hq] at this
    have hlt : (num : Rat) / (den : Rat) < 0 := by
      apply div_neg_of_neg_of_pos _ hdq
      exact_mod_cast hneg
    rw [abs_of_neg hlt]
    have e : -val r - -((num : Rat) / (den : Rat)) = -(val r - (num : Rat) / (den : Rat)) := by ring
    rw [e, abs_neg] at this
    exact this
  · subst hz
    rw [roundDouble_zero] at h
    cases h
    simp [val]
  · have := round_err_pos num den r hden hpos h
    have hgt : 0 < (num : Rat) / (den : Rat) := by
      apply div_pos _ hdq
      exact_mod_cast hpos
    rw [abs_of_pos hgt]
    exact this

/-! ## sign, nearest, monotonicity -/

theorem val_nonneg {x : Dbl} (h : 0 ≤ x.num) : 0 ≤ val x := by
  unfold val
  have : (0 : Rat) ≤ (x.num : Rat) := by exact_mod_cast h
  positivity

theorem val_nonpos {x : Dbl} (h : x.num ≤ 0) : val x ≤ 0 := by
  unfold val
  have : (x.num : Rat) ≤ 0 := by exact_mod_cast h
  exact div_nonpos_of_nonpos_of_nonneg this (by positivity)

theorem num_pos_of_val_pos {x : Dbl} (h : 0 < val x) : 0 < x.num := by
  by_contra hc
  have := val_nonpos (x := x) (by omega)
  linarith

theorem natAbs_cast (z : Int) : ((z.natAbs : Nat) : Rat) = |(z : Rat)| := by
  rw [← Int.cast_abs, Int.abs_eq_natAbs]
  simp

/-- ROUND TO NEAREST in rational form. -/
theorem round_nearest_rat (num : Int) (den : Nat) (r : Dbl) (hden : 0 < den) (h : roundDouble num den = some r)
    (yn : Int) (yd : Nat) (hy : IsB64 yn yd) :
    |(num : Rat) / (den : Rat) - val r| ≤ |(num : Rat) / (den : Rat) - (yn : Rat) / (yd : Rat)| := by
  have hn := roundDouble_nearest num den r hden h yn yd hy
  have hrd := roundDouble_den_pos' h
  have hyd := hy.1
  have hdq : (0 : Rat) < (den : Rat) := by exact_mod_cast hden
  have hrq : (0 : Rat) < (r.den : Rat) := by exact_mod_cast hrd
  have hyq : (0 : Rat) < (yd : Rat) := by exact_mod_cast hyd
  have hq : (((num * r.den - r.num * den).natAbs * yd : Nat) : Rat) ≤
      (((num * yd - yn * den).natAbs * r.den : Nat) : Rat) := by exact_mod_cast hn
  rw [Nat.cast_mul, Nat.cast_mul, natAbs_cast, natAbs_cast] at hq
  push_cast at hq
  unfold val
  have e1 : (num : Rat) / (den : Rat) - (r.num : Rat) / (r.den : Rat) =
      ((num : Rat) * (r.den : Rat) - (r.num : Rat) * (den : Rat)) / ((den : Rat) * (r.den : Rat)) := by
    field_simp
  have e2 : (num : Rat) / (den : Rat) - (yn : Rat) / (yd : Rat) =
      ((num : Rat) * (yd : Rat) - (yn : Rat) * (den : Rat)) / ((den : Rat) * (yd : Rat)) := by
    field_simp
  rw [e1, e2, abs_div, abs_div, abs_of_pos (mul_pos hdq hrq), abs_of_pos (mul_pos hdq hyq),
    div_le_div_iff₀ (mul_pos hdq hrq) (mul_pos hdq hyq)]
  have := mul_le_mul_of_nonneg_left hq (le_of_lt hdq)
  linarith

theorem isB64_neg {n : Int} {d : Nat} (h : IsB64 n d) : IsB64 (-n) d := by
  unfold IsB64 at h ⊢
  rw [Int.natAbs_neg]
  exact h

/-- rounding is monotone in absolute value w.r.t. a binary64 value `t ≥ 0`: `t ≤ |q| → t ≤ |fl(q)|`. -/
theorem round_abs_ge (num : Int) (den : Nat) (r : Dbl) (hden : 0 < den) (h : roundDouble num den = some r)
    (tn : Int) (td : Nat) (ht : IsB64 tn td) (ht0 : 0 ≤ tn)
    (hle : (tn : Rat) / (td : Rat) ≤ |(num : Rat) / (den : Rat)|) : (tn : Rat) / (td : Rat) ≤ |val r| := by
  have hdq : (0 : Rat) < (den : Rat) := by exact_mod_cast hden
  have htq : (0 : Rat) ≤ (tn : Rat) / (td : Rat) := by
    have : (0 : Rat) ≤ (tn : Rat) := by exact_mod_cast ht0
    positivity
  obtain ⟨s1, s2⟩ := roundDouble_sign num den r h
  by_contra hc
  rw [not_le] at hc
  rcases le_or_gt 0 num with hpos | hneg
  · have hr := val_nonneg (s1 hpos)
    have hq : (0 : Rat) ≤ (num : Rat) / (den : Rat) := by
      have : (0 : Rat) ≤ (num : Rat) := by exact_mod_cast hpos
      positivity
    rw [abs_of_nonneg hq] at hle
    rw [abs_of_nonneg hr] at hc
    have hn := round_nearest_rat num den r hden h tn td ht
    rw [abs_of_nonneg (by linarith), abs_of_nonneg (by linarith)] at hn
    linarith
  · have hr := val_nonpos (s2 (le_of_lt hneg))
    have hq : (num : Rat) / (den : Rat) < 0 := by
      apply div_neg_of_neg_of_pos _ hdq
      exact_mod_cast hneg
    rw [abs_of_neg hq] at hle
    rw [abs_of_nonpos hr] at hc
    have hn := round_nearest_rat num den r hden h (-tn) td (isB64_neg ht)
    rw [Int.cast_neg, neg_div, abs_of_nonpos (by linarith), abs_of_nonpos (by linarith)] at hn
    linarith

/-! ## the operations -/

theorem add_exact (x y : Dbl) (hx : 0 < x.den) (hy : 0 < y.den) :
    ((x.num * y.den + y.num * x.den : Int) : Rat) / ((x.den * y.den : Nat) : Rat) = val x + val y := by
  have hxq : (0 : Rat) < (x.den : Rat) := by exact_mod_cast hx
  have hyq : (0 : Rat) < (y.den : Rat) := by exact_mod_cast hy
  unfold val
  push_cast
  field_simp

theorem sub_exact (x y : Dbl) (hx : 0 < x.den) (hy : 0 < y.den) :
    ((x.num * y.den - y.num * x.den : Int) : Rat) / ((x.den * y.den : Nat) : Rat) = val x - val y := by
  have hxq : (0 : Rat) < (x.den : Rat) := by exact_mod_cast hx
  have hyq : (0 : Rat) < (y.den : Rat) := by exact_mod_cast hy
  unfold val
  push_cast
  field_simp

theorem div_exact (x y : Dbl) (hx : 0 < x.den) (hy : 0 < y.den) (hyn : 0 < y.num) :
    ((x.num * y.den : Int) : Rat) / ((x.den * y.num.toNat : Nat) : Rat) = val x / val y := by
  have hxq : (0 : Rat) < (x.den : Rat) := by exact_mod_cast hx
  have hyq : (0 : Rat) < (y.den : Rat) := by exact_mod_cast hy
  have hynq : (0 : Rat) < (y.num : Rat) := by exact_mod_cast hyn
  have ht : ((y.num.toNat : Nat) : Rat) = (y.num : Rat) := by
    have h1 : ((y.num.toNat : Nat) : Int) = y.num := by omega
    rw [← Int.cast_natCast, h1]
  unfold val
  rw [Nat.cast_mul, ht]
  push_cast
  field_simp

theorem add_err (x y r : Dbl) (hx : 0 < x.den) (hy : 0 < y.den) (h : Dbl.add x y = some r) :
    |val r - (val x + val y)| ≤ (2 : Rat)⁻¹ ^ 53 * |val x + val y| + (2 : Rat)⁻¹ ^ 1075 := by
  have := round_err _ _ r (Nat.mul_pos hx hy) h
  rwa [add_exact x y hx hy] at this

theorem add_isB64 (x y r : Dbl) (hx : 0 < x.den) (hy : 0 < y.den) (h : Dbl.add x y = some r) :
    IsB64 r.num r.den := roundDouble_isB64 _ _ r (Nat.mul_pos hx hy) h

theorem add_nonneg (x y r : Dbl) (hx : 0 ≤ x.num) (hy : 0 ≤ y.num) (h : Dbl.add x y = some r) : 0 ≤ r.num := by
  refine (roundDouble_sign _ _ r h).1 ?_
  have h1 : 0 ≤ x.num * (y.den : Int) := Int.mul_nonneg hx (by omega)
  have h2 : 0 ≤ y.num * (x.den : Int) := Int.mul_nonneg hy (by omega)
  omega

theorem sub_isB64 (x y r : Dbl) (hx : 0 < x.den) (hy : 0 < y.den) (h : Dbl.sub x y = some r) :
    IsB64 r.num r.den := roundDouble_isB64 _ _ r (Nat.mul_pos hx hy) h

theorem div_err (x y r : Dbl) (hx : 0 < x.den) (hy : 0 < y.den) (hyn : 0 < y.num) (h : Dbl.div x y = some r) :
    |val r - val x / val y| ≤ (2 : Rat)⁻¹ ^ 53 * |val x / val y| + (2 : Rat)⁻¹ ^ 1075 := by
  unfold Dbl.div at h
  have h0 : ¬ y.num = 0 := by omega
  have h1 : y.num > 0 := hyn
  simp only [h0, h1, if_true, if_false] at h
  have := round_err _ _ r (Nat.mul_pos hx (by omega)) h
  rwa [div_exact x y hx hy hyn] at this

theorem div_isB64 (x y r : Dbl) (hx : 0 < x.den) (hyn : 0 < y.num) (h : Dbl.div x y = some r) :
    IsB64 r.num r.den := by
  unfold Dbl.div at h
  have h0 : ¬ y.num = 0 := by omega
  have h1 : y.num > 0 := hyn
  simp only [h0, h1, if_true, if_false] at h
  exact roundDouble_isB64 _ _ r (Nat.mul_pos hx (by omega)) h

theorem div_nonneg' (x y r : Dbl) (hxn : 0 ≤ x.num) (hyn : 0 < y.num) (h : Dbl.div x y = some r) : 0 ≤ r.num := by
  unfold Dbl.div at h
  have h0 : ¬ y.num = 0 := by omega
  have h1 : y.num > 0 := hyn
  simp only [h0, h1, if_true, if_false] at h
  exact (roundDouble_sign _ _ r h).1 (Int.mul_nonneg hxn (by omega))

/-! ## comparisons -/

theorem lt_iff (x y : Dbl) (hx : 0 < x.den) (hy : 0 < y.den) : Dbl.lt x y = true ↔ val x < val y := by
  have hxq : (0 : Rat) < (x.den : Rat) := by exact_mod_cast hx
  have hyq : (0 : Rat) < (y.den : Rat) := by exact_mod_cast hy
  unfold Dbl.lt val
  rw [decide_eq_true_iff, div_lt_div_iff₀ hxq hyq]
  constructor
  · intro h; exact_mod_cast h
  · intro h; exact_mod_cast h

theorem val_abs (x : Dbl) : val (Dbl.abs x) = |val x| := by
  unfold val Dbl.abs
  simp only
  rw [Int.cast_natCast, natAbs_cast, abs_div, Nat.abs_cast]

theorem val_zero : val Dbl.zero = 0 := by
  simp [val, Dbl.zero]

theorem isB64_zero : IsB64 Dbl.zero.num Dbl.zero.den := by
  refine ⟨Nat.one_pos, 0, 0, by omega, by omega, by omega, ?_⟩
  simp [EqPow2, Dbl.zero]

/-- the settled test on one entry: `|fl(x − y)| < t` in doubles gives `|x − y| < t` exactly. -/
theorem sub_abs_lt (x y d t : Dbl) (hx : 0 < x.den) (hy : 0 < y.den) (h : Dbl.sub x y = some d)
    (ht : IsB64 t.num t.den) (ht0 : 0 ≤ t.num) (hlt : |val d| < val t) : |val x - val y| < val t := by
  by_contra hc
  rw [not_lt] at hc
  have := round_abs_ge _ _ d (Nat.mul_pos hx hy) h t.num t.den ht ht0 (by rw [sub_exact x y hx hy]; exact hc)
  unfold val at hlt this
  linarith

end Dsw.FloatErr
