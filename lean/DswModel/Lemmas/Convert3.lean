import DswModel.Model.Spiderweb
import DswModel.Lemmas.Defs
import DswModel.Lemmas.DeBruijn
/-! Helper lemmas for the accessor / latter map / adjacency matrix converters (C14). -/
namespace Dsw

/-! ## rows of a de Bruijn sub-table -/

theorem WFdB.rowOK {k : Nat} {a : Acc} (h : WFdB k a) {v : Nat} (hv : v < 4 ^ k) :
    RowOK k v (a.getD v #[]) := ((wfdb_iff_rowOK k a).1 h).2 v hv

theorem Acc.mem_live (a : Acc) (v : Int) (j : Nat) : j ∈ a.live v ↔ j < 4 ∧ 0 ≤ a.ent v j := by
  simp [Acc.live]

/-- a legal entry is non-negative exactly when it is the successor. -/
theorem WFdB.ent_nonneg_iff {k : Nat} {a : Acc} (h : WFdB k a) {v j : Nat} (hv : v < 4 ^ k)
    (hj : j < 4) : 0 ≤ a.ent (v : Int) j ↔ a.ent (v : Int) j = (((v * 4 + j) % 4 ^ k : Nat) : Int) := by
  rcases (h.2 v hv).2 j hj with h1 | h1
  · rw [h1]; constructor
    · intro h; omega
    · intro h; omega
  · rw [h1]; constructor
    · intro _; rfl
    · intro _; omega

theorem WFdB.ent_neg {k : Nat} {a : Acc} (h : WFdB k a) {v j : Nat} (hv : v < 4 ^ k)
    (hj : j < 4) (hn : ¬ 0 ≤ a.ent (v : Int) j) : a.ent (v : Int) j = -1 := by
  rcases (h.2 v hv).2 j hj with h1 | h1
  · exact h1
  · rw [h1] at hn; omega

/-- rows outside the table have no live column. -/
theorem Acc.live_oob (a : Acc) (v : Nat) (hv : a.size ≤ v) : a.live (v : Int) = [] := by
  unfold Acc.live
  rw [List.filter_eq_nil_iff]
  intro j _
  rw [Acc.ent_natCast]
  have : a.getD v #[] = #[] := by simp [Array.getD, Nat.not_lt.2 hv]
  rw [this]
  simp

theorem Acc.liveEntries_oob (a : Acc) (v : Nat) (hv : a.size ≤ v) : a.liveEntries (v : Int) = [] := by
  unfold Acc.liveEntries; rw [Acc.live_oob a v hv]; rfl

/-- the live successors of a vertex. -/
theorem WFdB.liveEntries_eq {k : Nat} {a : Acc} (h : WFdB k a) {v : Nat} (hv : v < 4 ^ k) :
    a.liveEntries (v : Int) = (a.live (v : Int)).map fun j => (v * 4 + j) % 4 ^ k := by
  unfold Acc.liveEntries
  apply List.map_congr_left
  intro j hj
  rw [Acc.mem_live] at hj
  rw [(h.ent_nonneg_iff hv hj.1).1 hj.2]
  rfl

theorem Acc.mem_liveEntries (a : Acc) (v : Int) (w : Nat) :
    w ∈ a.liveEntries v ↔ ∃ j, j < 4 ∧ a.ent v j = (w : Int) := by
  unfold Acc.liveEntries
  simp only [List.mem_map, Acc.mem_live]
  constructor
  · rintro ⟨j, ⟨hj, h0⟩, rfl⟩
    exact ⟨j, hj, by omega⟩
  · rintro ⟨j, hj, he⟩
    exact ⟨j, ⟨hj, by omega⟩, by omega⟩

theorem WFdB.liveEntries_sub {k : Nat} {a : Acc} (h : WFdB k a) {v : Nat} (hv : v < 4 ^ k) (w : Nat)
    (hw : w ∈ a.liveEntries (v : Int)) : w ∈ obtainLatters k v := by
  rw [h.liveEntries_eq hv, List.mem_map] at hw
  obtain ⟨j, hj, rfl⟩ := hw
  exact (mem_obtainLatters k v _).2 ⟨j, ((Acc.mem_live _ _ _).1 hj).1, rfl⟩

/-! ## `obtain_vertices` -/

theorem rowOK_any_iff {k v : Nat} {r : Array Int} (hr : RowOK k v r) :
    r.any (fun e => e + 1 != 0) = true ↔ ∃ j, j < 4 ∧ 0 ≤ r.getD j (-1) := by
  rw [Array.any_eq_true]
  constructor
  · rintro ⟨j, hj, he⟩
    rw [hr.1] at hj
    refine ⟨j, hj, ?_⟩
    have h1 : r.getD j (-1) = r[j] := by simp [Array.getD, hr.1, hj]
    rcases hr.2 j hj with h2 | h2
    · rw [h1] at h2; rw [h2] at he; simp at he
    · rw [h2]; omega
  · rintro ⟨j, hj, he⟩
    have hj' : j < r.size := by rw [hr.1]; exact hj
    refine ⟨j, hj', ?_⟩
    have h1 : r.getD j (-1) = r[j] := by simp [Array.getD, hj']
    rw [h1] at he
    simp only [bne_iff_ne, ne_eq]
    omega

theorem WFdB.hasArcs_iff {k : Nat} {a : Acc} (h : WFdB k a) {v : Nat} (hv : v < 4 ^ k) :
    (a.getD v #[]).any (fun e => e + 1 != 0) = decide (a.live (v : Int) ≠ []) := by
  rw [Bool.eq_iff_iff, rowOK_any_iff (h.rowOK hv), decide_eq_true_iff]
  constructor
  · rintro ⟨j, hj, he⟩ hnil
    have : j ∈ a.live (v : Int) := (Acc.mem_live _ _ _).2 ⟨hj, by rw [Acc.ent_natCast]; exact he⟩
    rw [hnil] at this; cases this
  · intro hne
    obtain ⟨j, hj⟩ := List.exists_mem_of_ne_nil _ hne
    rw [Acc.mem_live, Acc.ent_natCast] at hj
    exact ⟨j, hj⟩

theorem WFdB.obtainVertices_eq {k : Nat} {a : Acc} (h : WFdB k a) :
    obtainVertices a = (List.range (4 ^ k)).filter (fun (v : Nat) => decide (a.live (v : Int) ≠ [])) := by
  unfold obtainVertices
  rw [h.1]
  apply List.filter_congr
  intro v hv
  exact h.hasArcs_iff (List.mem_range.1 hv)

theorem WFdB.mem_obtainVertices {k : Nat} {a : Acc} (h : WFdB k a) (v : Nat) :
    v ∈ obtainVertices a ↔ v < 4 ^ k ∧ a.live (v : Int) ≠ [] := by
  rw [h.obtainVertices_eq]; simp

theorem flatMap_congr_cv3 {α β} (l : List α) (f g : α → List β) (h : ∀ x ∈ l, f x = g x) :
    l.flatMap f = l.flatMap g := by
  induction l with
  | nil => rfl
  | cons x xs ih =>
    rw [List.flatMap_cons, List.flatMap_cons, h x (by simp), ih (fun y hy => h y (by simp [hy]))]

/-! ## latter map look-up -/

theorem find?_graph_cv3 {β} (l : List Nat) (f : Nat → β) (v : Nat) :
    ((l.map fun u => (u, f u)).find? (fun p => p.1 == v)).map (·.2) =
      if v ∈ l then some (f v) else none := by
  induction l with
  | nil => simp
  | cons x xs ih =>
    simp only [List.map_cons, List.find?_cons]
    by_cases hx : x = v
    · subst hx; simp
    · have : (x == v) = false := by simpa using hx
      simp only [this, ih, List.mem_cons]
      have : (v = x ∨ v ∈ xs) ↔ v ∈ xs := by
        constructor
        · rintro (h | h)
          · exact absurd h.symm hx
          · exact h
        · exact Or.inr
      simp only [this]

theorem WFdB.latterMap_get? {k : Nat} {a : Acc} (h : WFdB k a) (v : Nat) :
    ((accessorToLatterMap a).get? v).getD [] = a.liveEntries (v : Int) := by
  unfold LMap.get? accessorToLatterMap
  rw [find?_graph_cv3 (obtainVertices a) (fun u : Nat => a.liveEntries (u : Int)) v]
  by_cases hv : v ∈ obtainVertices a
  · rw [if_pos hv]; rfl
  · rw [if_neg hv]
    rw [h.mem_obtainVertices] at hv
    by_cases hlt : v < 4 ^ k
    · have : a.live (v : Int) = [] := by
        apply Classical.byContradiction; intro hne; exact hv ⟨hlt, hne⟩
      simp [Acc.liveEntries, this]
    · rw [Acc.liveEntries_oob a v (by rw [h.1]; omega)]; rfl

/-! ## leaf search -/

theorem leafMap_eq_leafAcc {k : Nat} {a : Acc} (h : WFdB k a) (d : Nat) (branch : List Nat) :
    leafMap (accessorToLatterMap a) d branch = leafAcc a d branch := by
  induction d generalizing branch with
  | zero => rfl
  | succ d ih =>
    simp only [leafMap, leafAcc]
    rw [ih]
    congr 1
    apply flatMap_congr_cv3
    intro v _
    exact h.latterMap_get? v

/-- breadth-first levels = end points of all walks, for any function satisfying the walk
recursion. -/
theorem leafAcc_eq_flatMap (a : Acc) (W : Nat → Nat → List Nat) (h0 : ∀ v, W 0 v = [v])
    (hs : ∀ d v, W (d + 1) v = (a.liveEntries (v : Int)).flatMap (W d)) (d : Nat) (branch : List Nat) :
    leafAcc a d branch = branch.flatMap (W d) := by
  induction d generalizing branch with
  | zero =>
    simp only [leafAcc]
    induction branch with
    | nil => rfl
    | cons x xs ih => simp [List.flatMap_cons, h0] at ih ⊢; exact ih
  | succ d ih =>
    simp only [leafAcc]
    rw [ih, List.flatMap_assoc]
    apply flatMap_congr_cv3
    intro v _
    exact (hs d v).symm

/-! ## extensionality for accessors -/

theorem getD_eq_getElem_cv3 {α} (r : Array α) (j : Nat) (d : α) (hj : j < r.size) :
    r.getD j d = r[j] := by simp [Array.getD, hj]

/-- two order-`k` tables with the same entries are equal. -/
theorem wfdb_ext {k : Nat} {a b : Acc} (ha : WFdB k a) (hb : WFdB k b)
    (h : ∀ v j : Nat, v < 4 ^ k → j < 4 → a.ent (v : Int) j = b.ent (v : Int) j) : a = b := by
  apply Array.ext
  · rw [ha.1, hb.1]
  · intro v hva hvb
    have hv : v < 4 ^ k := by rw [← ha.1]; exact hva
    have e1 : a.getD v #[] = a[v] := getD_eq_getElem_cv3 a v #[] hva
    have e2 : b.getD v #[] = b[v] := getD_eq_getElem_cv3 b v #[] hvb
    have sa := (ha.2 v hv).1
    have sb := (hb.2 v hv).1
    rw [e1] at sa; rw [e2] at sb
    apply Array.ext
    · rw [sa, sb]
    · intro j hja hjb
      have hj : j < 4 := by rw [← sa]; exact hja
      have := h v j hv hj
      rw [Acc.ent_natCast, Acc.ent_natCast, e1, e2, getD_eq_getElem_cv3 _ _ _ hja,
        getD_eq_getElem_cv3 _ _ _ hjb] at this
      exact this

/-! ## the write loop of `latter_map_to_accessor` -/

/-- writing the cells `(v, w % 4) := w` of a list of arcs `(v, w)`. -/
def writeArcs (cells : List (Nat × Nat)) (acc : Acc) : Acc :=
  cells.foldl (fun acc c => acc.setEnt c.1 (c.2 % 4) c.2) acc

theorem latterMap_fold_eq (lm : LMap) (acc : Acc) :
    lm.foldl (fun acc p => p.2.foldl (fun acc w => acc.setEnt p.1 (w % 4) w) acc) acc =
      writeArcs (lm.flatMap fun p => p.2.map fun w => (p.1, w)) acc := by
  unfold writeArcs
  rw [List.foldl_flatMap]
  congr 1
  funext acc p
  rw [List.foldl_map]

/-- entry `(u, i)` after the write loop, when every write agrees with the target table `T`. -/
theorem writeArcs_ent (k : Nat) (T : Nat → Nat → Int) (cells : List (Nat × Nat))
    (hc : ∀ c ∈ cells, c.1 < 4 ^ k ∧ c.2 ∈ obtainLatters k c.1 ∧ T c.1 (c.2 % 4) = (c.2 : Int))
    (acc : Acc) (hacc : WFdB k acc) (u i : Nat) :
    (writeArcs cells acc).ent (u : Int) i =
      if ∃ c ∈ cells, c.1 = u ∧ c.2 % 4 = i then T u i else acc.ent (u : Int) i := by
  induction cells generalizing acc with
  | nil => simp [writeArcs]
  | cons c cs ih =>
    have hc0 := hc c (by simp)
    have hw : WFdB k (acc.setEnt c.1 (c.2 % 4) c.2) := by
      apply wfdb_setEnt k _ _ _ _ hacc
      right
      rw [latter_column k c.1 c.2 hc0.2.1]
    have := ih (fun c' hc' => hc c' (by simp [hc'])) _ hw
    unfold writeArcs at this ⊢
    rw [List.foldl_cons, this]
    by_cases hcs : ∃ c' ∈ cs, c'.1 = u ∧ c'.2 % 4 = i
    · rw [if_pos hcs, if_pos]
      obtain ⟨c', h1, h2⟩ := hcs
      exact ⟨c', by simp [h1], h2⟩
    · rw [if_neg hcs]
      by_cases hm : c.1 = u ∧ c.2 % 4 = i
      · rw [if_pos ⟨c, by simp, hm⟩]
        obtain ⟨rfl, rfl⟩ := hm
        rw [Acc.ent_setEnt_self]
        · exact hc0.2.2.symm
        · rw [(hacc.2 c.1 hc0.1).1]; omega
      · rw [if_neg]
        · apply Acc.ent_setEnt_ne
          by_cases h1 : u = c.1
          · right; intro h2; exact hm ⟨h1.symm, h2.symm⟩
          · left; exact h1
        · rintro ⟨c', hc', h2⟩
          rcases List.mem_cons.1 hc' with rfl | hc'
          · exact hm h2
          · exact hcs ⟨c', hc', h2⟩

theorem replicate_ent_cv3 (k u i : Nat) :
    Acc.ent (Array.replicate (4 ^ k) (Array.replicate 4 (-1))) (u : Int) i = -1 := by
  rw [Acc.ent_natCast]
  by_cases hu : u < 4 ^ k
  · by_cases hi : i < 4
    · simp [Array.getD, hu, hi]
    · simp [Array.getD, hu, hi]
  · simp [Array.getD, hu]

/-- column of the `j`-th successor. -/
theorem shift_column_cv3 (k u j : Nat) (hk : 1 ≤ k) (hj : j < 4) : ((u * 4 + j) % 4 ^ k) % 4 = j := by
  obtain ⟨k', rfl⟩ : ∃ k', k = k' + 1 := ⟨k - 1, by omega⟩
  rw [four_pow_succ, shift_mod _ _ _ hj]
  omega

theorem latterMap_roundtrip (k : Nat) (a : Acc) (hk : 1 ≤ k) (h : WFdB k a) :
    latterMapToAccessor (accessorToLatterMap a) k none = .ok a := by
  unfold latterMapToAccessor
  simp only [bind, Except.bind, pure, Except.pure]
  have hany : (accessorToLatterMap a).any (fun p => decide (p.1 ≥ 4 ^ k)) = false := by
    rw [List.any_eq_false]
    intro p hp
    unfold accessorToLatterMap at hp
    rw [List.mem_map] at hp
    obtain ⟨v, hv, rfl⟩ := hp
    have := ((h.mem_obtainVertices v).1 hv).1
    simp only [decide_eq_true_eq]; omega
  rw [hany]
  simp only [Bool.false_eq_true, if_false]
  congr 1
  rw [latterMap_fold_eq]
  have hcells : ∀ c ∈ (accessorToLatterMap a).flatMap (fun p => p.2.map fun w => (p.1, w)),
      c.1 < 4 ^ k ∧ c.2 ∈ a.liveEntries (c.1 : Int) := by
    intro c hc
    simp only [accessorToLatterMap, List.mem_flatMap, List.mem_map] at hc
    obtain ⟨p, ⟨v, hv, rfl⟩, w, hw, rfl⟩ := hc
    exact ⟨((h.mem_obtainVertices v).1 hv).1, hw⟩
  have hc : ∀ c ∈ (accessorToLatterMap a).flatMap (fun p => p.2.map fun w => (p.1, w)),
      c.1 < 4 ^ k ∧ c.2 ∈ obtainLatters k c.1 ∧ a.ent (c.1 : Int) (c.2 % 4) = (c.2 : Int) := by
    intro c hcm
    obtain ⟨h1, h2⟩ := hcells c hcm
    refine ⟨h1, h.liveEntries_sub h1 _ h2, ?_⟩
    rw [h.liveEntries_eq h1, List.mem_map] at h2
    obtain ⟨j, hj, he⟩ := h2
    rw [Acc.mem_live] at hj
    rw [← he, shift_column_cv3 k _ _ hk hj.1]
    exact (h.ent_nonneg_iff h1 hj.1).1 hj.2
  have hw := wfdb_latterMap_fold k (accessorToLatterMap a)
    (fun p hp w hw => by
      unfold accessorToLatterMap at hp
      rw [List.mem_map] at hp
      obtain ⟨v, hv, rfl⟩ := hp
      exact h.liveEntries_sub ((h.mem_obtainVertices v).1 hv).1 w hw) _ (wfdb_replicate k)
  rw [latterMap_fold_eq] at hw
  apply wfdb_ext hw h
  intro u i hu hi
  rw [writeArcs_ent k (fun u i => a.ent (u : Int) i) _ hc _ (wfdb_replicate k)]
  split
  · rfl
  · rename_i hno
    rw [replicate_ent_cv3]
    by_cases h0 : 0 ≤ a.ent (u : Int) i
    · exfalso
      apply hno
      refine ⟨(u, (u * 4 + i) % 4 ^ k), ?_, rfl, shift_column_cv3 k u i hk hi⟩
      simp only [accessorToLatterMap, List.mem_flatMap, List.mem_map]
      have hi' : i ∈ a.live (u : Int) := (Acc.mem_live _ _ _).2 ⟨hi, h0⟩
      refine ⟨(u, a.liveEntries (u : Int)), ⟨u, ?_, rfl⟩, (u * 4 + i) % 4 ^ k, ?_, rfl⟩
      · rw [h.mem_obtainVertices]
        exact ⟨hu, fun hnil => by rw [hnil] at hi'; cases hi'⟩
      · rw [h.liveEntries_eq hu, List.mem_map]
        exact ⟨i, hi', rfl⟩
    · exact (h.ent_neg hu hi h0).symm

/-! ## accessor → adjacency matrix -/

/-- one row of the adjacency matrix. -/
def markRow (ws : List Nat) (r : Array Nat) : Array Nat :=
  ws.foldl (fun row w => row.setIfInBounds w 1) r

theorem markRow_size (ws : List Nat) (r : Array Nat) : (markRow ws r).size = r.size := by
  unfold markRow
  induction ws generalizing r with
  | nil => rfl
  | cons x xs ih => rw [List.foldl_cons, ih]; simp

theorem markRow_getD (ws : List Nat) (r : Array Nat) (w : Nat) :
    (markRow ws r).getD w 0 = if w ∈ ws ∧ w < r.size then 1 else r.getD w 0 := by
  unfold markRow
  induction ws generalizing r with
  | nil => simp
  | cons x xs ih =>
    rw [List.foldl_cons, ih]
    have hs : (r.setIfInBounds x 1).size = r.size := by simp
    rw [hs]
    by_cases h1 : w ∈ xs ∧ w < r.size
    · rw [if_pos h1, if_pos ⟨by simp [h1.1], h1.2⟩]
    · rw [if_neg h1]
      by_cases hx : x = w
      · subst hx
        by_cases hlt : x < r.size
        · rw [getD_setIfInBounds_self _ _ _ _ hlt, if_pos ⟨by simp, hlt⟩]
        · rw [getD_setIfInBounds_oob _ _ _ _ _ (by omega), if_neg (fun h => hlt h.2)]
      · rw [getD_setIfInBounds_ne _ _ _ _ _ hx, if_neg]
        rintro ⟨h2, h3⟩
        rcases List.mem_cons.1 h2 with h2 | h2
        · exact hx h2.symm
        · exact h1 ⟨h2, h3⟩

/-- the matrix computed by `accessor_to_adjacency_matrix`. -/
def adjRows (a : Acc) : Matrix :=
  (Array.range a.size).map fun (v : Nat) =>
    markRow (a.liveEntries (v : Int)) (Array.replicate a.size 0)

theorem adjRows_size (a : Acc) : (adjRows a).size = a.size := by simp [adjRows]

theorem adjRows_row_size (a : Acc) (v : Nat) (hv : v < a.size) :
    ((adjRows a).getD v #[]).size = a.size := by
  unfold adjRows
  rw [getD_range_map _ _ _ _ hv, markRow_size]; simp

theorem adjRows_getD (a : Acc) (v w : Nat) (hv : v < a.size) :
    ((adjRows a).getD v #[]).getD w 0 =
      if w ∈ a.liveEntries (v : Int) ∧ w < a.size then 1 else 0 := by
  unfold adjRows
  rw [getD_range_map _ _ _ _ hv, markRow_getD]
  simp only [Array.size_replicate]
  split
  · rfl
  · by_cases hw : w < a.size
    · simp [Array.getD, hw]
    · simp [Array.getD, hw]

theorem adjMatrix_cases (a : Acc) :
    accessorToAdjacencyMatrix a = .error .valueError ∨ accessorToAdjacencyMatrix a = .ok (adjRows a) := by
  unfold accessorToAdjacencyMatrix
  split
  · exact Or.inl rfl
  · exact Or.inr rfl

theorem adjMatrix_of_ok (a : Acc) (mx : Matrix) (h : accessorToAdjacencyMatrix a = .ok mx) :
    mx = adjRows a := by
  rcases adjMatrix_cases a with h1 | h1
  · rw [h1] at h; cases h
  · rw [h1] at h; cases h; rfl

theorem WFdB.adjMatrix_ok {k : Nat} {a : Acc} (h : WFdB k a) :
    accessorToAdjacencyMatrix a = .ok (adjRows a) := by
  unfold accessorToAdjacencyMatrix
  rw [if_neg]
  · rfl
  · intro hany
    rw [Array.any_eq_true] at hany
    obtain ⟨v, hv, hp⟩ := hany
    have hv' : v < 4 ^ k := by rw [← h.1]; exact hv
    have hr := h.rowOK hv'
    rw [getD_eq_getElem_cv3 a v #[] hv] at hr
    rw [Bool.or_eq_true] at hp
    rcases hp with hp | hp
    · rw [hr.1] at hp; simp at hp
    · rw [Array.any_eq_true] at hp
      obtain ⟨j, hj, he⟩ := hp
      have hj4 : j < 4 := by rw [← hr.1]; exact hj
      have := hr.2 j hj4
      rw [getD_eq_getElem_cv3 _ j _ hj] at this
      have hlt : (v * 4 + j) % 4 ^ k < 4 ^ k := Nat.mod_lt _ (four_pow_pos k)
      simp only [Bool.or_eq_true, decide_eq_true_eq] at he
      rw [h.1] at he
      omega

/-- the matrix has a 1 exactly at the arcs. -/
theorem adjRows_one_iff (a : Acc) (u w : Nat) (hu : u < a.size) (hw : w < a.size) :
    ((adjRows a).getD u #[]).getD w 0 = 1 ↔ ∃ j, j < 4 ∧ a.ent (u : Int) j = (w : Int) := by
  rw [adjRows_getD a u w hu, ← Acc.mem_liveEntries]
  constructor
  · intro h
    split at h
    · rename_i h1; exact h1.1
    · cases h
  · intro h
    rw [if_pos ⟨h, hw⟩]

theorem adjRows_bit (a : Acc) (u w : Nat) (hu : u < a.size) :
    ((adjRows a).getD u #[]).getD w 0 = 0 ∨ ((adjRows a).getD u #[]).getD w 0 = 1 := by
  rw [adjRows_getD a u w hu]
  split
  · exact Or.inr rfl
  · exact Or.inl rfl

/-! ## adjacency matrix → accessor -/

/-- the columns holding a 1 in row `v`. -/
def mxNext (mx : Matrix) (v : Nat) : List Nat :=
  (List.range (mx.getD v #[]).size).filter fun w => (mx.getD v #[]).getD w 0 == 1

def mxLegal (k : Nat) (mx : Matrix) (v : Nat) : Bool :=
  (mxNext mx v).all fun w => (obtainLatters k v).contains w

def mxRow (k : Nat) (mx : Matrix) (v : Nat) : Array Int :=
  ((obtainLatters k v).map fun w => if (mxNext mx v).contains w then Int.ofNat w else -1).toArray

theorem adjacencyMatrixToAccessor_eq (mx : Matrix) :
    adjacencyMatrixToAccessor mx =
      (List.range mx.size).foldlM (fun (acc : Acc) v =>
        if mxLegal (log4 mx.size) mx v then Except.ok (acc.push (mxRow (log4 mx.size) mx v))
        else Except.error PyErr.valueError) #[] := rfl

theorem mem_mxNext (mx : Matrix) (v w : Nat) :
    w ∈ mxNext mx v ↔ w < (mx.getD v #[]).size ∧ (mx.getD v #[]).getD w 0 = 1 := by
  simp [mxNext]

theorem foldlM_push_ok_cv3 {ε α β} (c : α → Bool) (g : α → β) (e : ε) (l : List α) (acc : Array β)
    (h : ∀ x ∈ l, c x = true) :
    l.foldlM (fun acc v => if c v then Except.ok (acc.push (g v)) else Except.error e) acc
      = .ok (acc ++ (l.map g).toArray) := by
  induction l generalizing acc with
  | nil => simp [pure, Except.pure]
  | cons x xs ih =>
    simp only [List.foldlM_cons, bind, Except.bind, h x (by simp), if_true]
    rw [ih _ (fun y hy => h y (by simp [hy]))]
    simp

theorem foldlM_push_error_cv3 {ε α β} (c : α → Bool) (g : α → β) (e : ε) (l : List α) (acc : Array β)
    (h : ∃ x ∈ l, c x = false) :
    l.foldlM (fun acc v => if c v then Except.ok (acc.push (g v)) else Except.error e) acc
      = .error e := by
  induction l generalizing acc with
  | nil => obtain ⟨x, hx, _⟩ := h; cases hx
  | cons x xs ih =>
    simp only [List.foldlM_cons, bind, Except.bind]
    by_cases hc : c x = true
    · simp only [hc, if_true]
      apply ih
      obtain ⟨y, hy, hcy⟩ := h
      rcases List.mem_cons.1 hy with rfl | hy
      · rw [hc] at hcy; cases hcy
      · exact ⟨y, hy, hcy⟩
    · simp only [hc]
      rfl

theorem illegal_matrix (k : Nat) (mx : Matrix) (u w : Nat) (hs : mx.size = 4 ^ k)
    (hu : u < 4 ^ k) (hw : w < (mx.getD u #[]).size) (h1 : (mx.getD u #[]).getD w 0 = 1)
    (hnot : w ∉ obtainLatters k u) :
    adjacencyMatrixToAccessor mx = .error .valueError := by
  rw [adjacencyMatrixToAccessor_eq, hs, log4_four_pow]
  apply foldlM_push_error_cv3
  refine ⟨u, List.mem_range.2 hu, ?_⟩
  unfold mxLegal
  rw [Bool.eq_false_iff]
  intro hall
  rw [List.all_eq_true] at hall
  have := hall w ((mem_mxNext mx u w).2 ⟨hw, h1⟩)
  rw [List.contains_iff_mem] at this
  exact hnot this

theorem WFdB.mem_mxNext {k : Nat} {a : Acc} (h : WFdB k a) {v : Nat} (hv : v < 4 ^ k) (w : Nat) :
    w ∈ mxNext (adjRows a) v ↔ w ∈ a.liveEntries (v : Int) := by
  have hv' : v < a.size := by rw [h.1]; exact hv
  rw [Dsw.mem_mxNext, adjRows_row_size a v hv', adjRows_getD a v w hv']
  constructor
  · rintro ⟨_, h2⟩
    split at h2
    · rename_i h3; exact h3.1
    · cases h2
  · intro hw
    have hlt : w < a.size := by
      have := (mem_obtainLatters k v w).1 (h.liveEntries_sub hv w hw)
      obtain ⟨j, _, rfl⟩ := this
      rw [h.1]; exact Nat.mod_lt _ (four_pow_pos k)
    exact ⟨hlt, by rw [if_pos ⟨hw, hlt⟩]⟩

theorem matrix_roundtrip (k : Nat) (a : Acc) (hk : 1 ≤ k) (h : WFdB k a) :
    adjacencyMatrixToAccessor (adjRows a) = .ok a := by
  have hs : (adjRows a).size = 4 ^ k := by rw [adjRows_size, h.1]
  have hok : adjacencyMatrixToAccessor (adjRows a) =
      .ok (#[] ++ ((List.range (4 ^ k)).map (mxRow k (adjRows a))).toArray) := by
    rw [adjacencyMatrixToAccessor_eq, hs, log4_four_pow]
    apply foldlM_push_ok_cv3
    intro v hv
    rw [List.mem_range] at hv
    unfold mxLegal
    rw [List.all_eq_true]
    intro w hw
    rw [List.contains_iff_mem]
    exact h.liveEntries_sub hv w ((h.mem_mxNext hv w).1 hw)
  rw [hok]
  congr 1
  have hb := wfdb_adjacencyMatrixToAccessor k _ _ hs hok
  apply wfdb_ext hb h
  intro v j hv hj
  rw [Acc.ent_natCast]
  have : ((#[] : Acc) ++ ((List.range (4 ^ k)).map (mxRow k (adjRows a))).toArray).getD v #[] =
      mxRow k (adjRows a) v := by simp [Array.getD, hv]
  rw [this]
  unfold mxRow
  have hj' : j < (obtainLatters k v).length := by rw [obtainLatters_length]; exact hj
  rw [getD_map_toArray _ _ _ _ hj', obtainLatters_getElem]
  by_cases h0 : 0 ≤ a.ent (v : Int) j
  · have he := (h.ent_nonneg_iff hv hj).1 h0
    rw [if_pos, he]; rfl
    rw [List.contains_iff_mem, h.mem_mxNext hv, Acc.mem_liveEntries]
    exact ⟨j, hj, he⟩
  · rw [h.ent_neg hv hj h0, if_neg]
    rw [List.contains_iff_mem, h.mem_mxNext hv, Acc.mem_liveEntries]
    rintro ⟨j', hj', he'⟩
    have h0' : 0 ≤ a.ent (v : Int) j' := by omega
    have he2 := (h.ent_nonneg_iff hv hj').1 h0'
    rw [he2] at he'
    have heq : (v * 4 + j') % 4 ^ k = (v * 4 + j) % 4 ^ k := by omega
    have : j' = j := by
      rw [← shift_column_cv3 k v j' hk hj', ← shift_column_cv3 k v j hk hj, heq]
    subst this
    exact h0 h0'

end Dsw
