import DswModel.Model.Spiderweb
import DswModel.Lemmas.Defs
import DswModel.Lemmas.DeBruijn
/-! Helper lemmas for the accessor / latter map / adjacency matrix converters (C14). -/
namespace Dsw

end Dsw
