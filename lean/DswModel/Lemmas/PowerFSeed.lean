import DswModel.Props.C17d
/-!
# The start vectors drawn by the modelled generator are binary64 values in `[0, 1)`
-/
namespace Dsw
namespace PowerFSeed

/-- a non-negative binary64 value not above 1. -/
def Good (d : Dbl) : Prop := IsB64 d.num d.den ∧ 0 ≤ d.num ∧ d.num ≤ d.den

theorem draw_good (a b : Nat) :
    Good ⟨(((a % 4294967296) / 32) * 67108864 + (b % 4294967296) / 64 : Nat), 9007199254740992⟩ := by
  have h1 : (a % 4294967296) / 32 < 134217728 := by omega
  have h2 : (b % 4294967296) / 64 < 67108864 := by omega
  have h3 : ((a % 4294967296) / 32) * 67108864 + (b % 4294967296) / 64 < 9007199254740992 := by omega
  refine ⟨⟨by norm_num, ((a % 4294967296) / 32) * 67108864 + (b % 4294967296) / 64, -53, ?_, by norm_num,
    by norm_num, ?_⟩, ?_, ?_⟩
  · norm_num; omega
  · unfold EqPow2
    simp only [Int.natAbs_natCast]
    have : (-(-53 : Int)).toNat = 53 := by decide
    rw [if_neg (by decide), this]
    norm_num
  · exact Int.natCast_nonneg _
  · simp only
    exact_mod_cast h3.le

theorem randomDoubles_good (n : Nat) (s : MT.State) :
    (randomDoubles n s).1.length = n ∧ ∀ d ∈ (randomDoubles n s).1, Good d := by
  induction n generalizing s with
  | zero => simp [randomDoubles]
  | succ n ih =>
    simp only [randomDoubles, List.length_cons, List.mem_cons]
    obtain ⟨h1, h2⟩ := ih (mtNext (mtNext s).2).2
    refine ⟨by rw [h1], ?_⟩
    rintro d (rfl | hd)
    · exact draw_good _ _
    · exact h2 d hd

theorem toArray_in01 {n : Nat} (l : List Dbl) (h : l.length = n ∧ ∀ d ∈ l, Good d) : VecF.In01 n l.toArray := by
  obtain ⟨hl, hg⟩ := h
  have key : ∀ v, v < n → Good (l.toArray.getD v Dbl.zero) := by
    intro v hv
    have hv' : v < l.length := by omega
    have : l.toArray.getD v Dbl.zero = l[v] := by
      simp [Array.getD, hv']
    rw [this]
    exact hg _ (List.getElem_mem _)
  exact ⟨⟨by simpa using hl, fun v hv => ⟨(key v hv).1, (key v hv).2.1⟩⟩, fun v hv => (key v hv).2.2⟩

end PowerFSeed
end Dsw
