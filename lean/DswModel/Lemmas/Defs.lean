import DswModel.Model.Spiderweb
/-!
Shared definitions (k-mers, vertex indices, de Bruijn sub-tables). Stable: lemma files import this;
helper lemmas live in the other files of this directory.
-/
namespace Dsw

/-- base-4 value of a nucleotide string (foreign characters count as `A`; only used on ACGT
strings). -/
def kmerIdx (s : List Char) : Nat := s.foldl (fun n c => n * 4 + (nucIdx c).getD 0) 0

/-- the i-th k-mer. -/
def kmerOf (k v : Nat) : List Char := numberToDnaInt v k

/-- `a` is an arc subset of the order-`k` de Bruijn graph: `4^k` rows of four entries, column `j`
of row `v` holds `-1` or the `j`-th shift-successor of `v`. -/
def WFdB (k : Nat) (a : Acc) : Prop :=
  a.size = 4 ^ k ∧ ∀ v : Nat, v < 4 ^ k → (a.getD v #[]).size = 4 ∧
    ∀ j : Nat, j < 4 → a.ent v j = -1 ∨ a.ent v j = ((v * 4 + j) % 4 ^ k : Nat)

/-- Boolean version of `WFdB` (for `decide`-style non-vacuity examples). -/
def wfdbB (k : Nat) (a : Acc) : Bool :=
  a.size == 4 ^ k && (List.range (4 ^ k)).all fun v => (a.getD v #[]).size == 4 &&
    (List.range 4).all fun j => a.ent v j == -1 || a.ent v j == ((v * 4 + j) % 4 ^ k : Nat)

/-- the GC-balanced order-2 accessor of the doctests. -/
def gcBalanced2 : Acc :=
  inducedAccessor 2 #[false, true, true, false, true, false, false, true,
                      true, false, false, true, false, true, true, false]

/-- strings over A, C, G, T. -/
def IsAcgt (s : List Char) : Prop := ∀ c ∈ s, (nucIdx c).isSome = true

/-- `s` is a walk of `a` from `v`: every symbol is a live nucleotide of the vertex reached. -/
def isWalk (a : Acc) : Int → List Char → Bool
  | _, [] => true
  | v, c :: s => match a.next v c with
    | some t => isWalk a t s
    | none => false

/-- the vertex reached after following `s` from `v` (meaningful when `isWalk a v s`). -/
def walkEnd (a : Acc) : Int → List Char → Int
  | v, [] => v
  | v, c :: s => walkEnd a (a.ent v ((nucIdx c).getD 0)) s

/-- strict Python string order. -/
def strLt (x y : List Char) : Prop := strLe x y = true ∧ x ≠ y

end Dsw
