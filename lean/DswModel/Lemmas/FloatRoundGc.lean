import DswModel.Model.Biofilter
import DswModel.Lemmas.FloatRound
/-!
# The float GC thresholds (`floatGcRule`) through the rounding lemmas

`Dbl.floor` / `Dbl.ceil` as integer bounds, the range of a product `x * float(k)` for `x ∈ [0, 1]`, and the
consequences for `floatGcRule` that `Props/C02b.lean` states.
-/
namespace Dsw

theorem Dbl.floor_eq (x : Dbl) : x.floor = x.num / (x.den : Int) := by
  unfold Dbl.floor
  exact Int.fdiv_eq_ediv_of_nonneg _ (by omega)

theorem Dbl.ceil_eq (x : Dbl) : x.ceil = -((-x.num) / (x.den : Int)) := by
  unfold Dbl.ceil
  rw [Int.fdiv_eq_ediv_of_nonneg _ (by omega)]

theorem Dbl.le_floor {x : Dbl} {N : Int} (hd : 0 < x.den) (h : N * x.den ≤ x.num) : N ≤ x.floor := by
  rw [Dbl.floor_eq]
  exact (Int.le_ediv_iff_mul_le (by omega)).2 h

theorem Dbl.floor_le {x : Dbl} {N : Int} (hd : 0 < x.den) (h : x.num ≤ N * x.den) : x.floor ≤ N := by
  rw [Dbl.floor_eq]
  have hd' : (0 : Int) < (x.den : Int) := by omega
  have h1 : x.num / (x.den : Int) * (x.den : Int) ≤ x.num := Int.ediv_mul_le _ (by omega)
  have h2 : x.num / (x.den : Int) * (x.den : Int) ≤ N * (x.den : Int) := Int.le_trans h1 h
  exact Int.le_of_mul_le_mul_right h2 hd'

/-- `x ≤ ⌈x⌉`. -/
theorem Dbl.le_ceil_mul {x : Dbl} (hd : 0 < x.den) : x.num ≤ x.ceil * x.den := by
  rw [Dbl.ceil_eq]
  have h1 : (-x.num) / (x.den : Int) * (x.den : Int) ≤ -x.num := Int.ediv_mul_le _ (by omega)
  rw [Int.neg_mul]
  omega

theorem Dbl.ceil_le {x : Dbl} {N : Int} (hd : 0 < x.den) (h : x.num ≤ N * x.den) : x.ceil ≤ N := by
  rw [Dbl.ceil_eq]
  have : -N ≤ (-x.num) / (x.den : Int) := by
    apply (Int.le_ediv_iff_mul_le (by omega)).2
    rw [Int.neg_mul]
    omega
  omega

theorem Dbl.le_ceil {x : Dbl} {N : Int} (hd : 0 < x.den) (h : N * x.den ≤ x.num) : N ≤ x.ceil := by
  have h1 := Dbl.le_ceil_mul hd
  have hd' : (0 : Int) < (x.den : Int) := by omega
  exact Int.le_of_mul_le_mul_right (Int.le_trans h h1) hd'

/-- `fl(x · k)` for `x ∈ [0, 1]` and `fk = k` exactly lies in `[0, k]`. -/
theorem Dbl.mul_range {x fk a : Dbl} {k : Nat} (hden : 0 < x.den) (h0 : 0 ≤ x.num) (h1 : x.num ≤ x.den)
    (hk : k ≤ 2 ^ 53) (hfk : fk.num = k * fk.den) (hfd : 0 < fk.den) (ha : x.mul fk = some a) :
    0 < a.den ∧ 0 ≤ a.num ∧ a.num ≤ k * a.den := by
  unfold Dbl.mul at ha
  have hdd : 0 < x.den * fk.den := Nat.mul_pos hden hfd
  have hkf : (0 : Int) ≤ (k : Int) * (fk.den : Int) := Int.mul_nonneg (by omega) (by omega)
  refine ⟨roundDouble_den_pos' ha, ?_, ?_⟩
  · have := roundDouble_ge_int 0 _ _ a hdd (by simp) (by
      rw [Int.zero_mul, hfk]
      exact Int.mul_nonneg h0 hkf) ha
    simpa using this
  · apply roundDouble_le_int (k : Int) _ _ a hdd (by simpa using hk) _ ha
    rw [hfk]
    have : x.num * ((k : Int) * (fk.den : Int)) ≤ (x.den : Int) * ((k : Int) * (fk.den : Int)) :=
      Int.mul_le_mul_of_nonneg_right h1 hkf
    calc x.num * ((k : Int) * (fk.den : Int)) ≤ (x.den : Int) * ((k : Int) * (fk.den : Int)) := this
      _ = (k : Int) * ((x.den * fk.den : Nat) : Int) := by
        rw [Int.natCast_mul, Int.mul_left_comm]

/-- existence of the product for `x ∈ [0, 1]`. -/
theorem Dbl.mul_defined {x fk : Dbl} {k : Nat} (hden : 0 < x.den) (h0 : 0 ≤ x.num) (h1 : x.num ≤ x.den)
    (hk : k ≤ 2 ^ 53) (hfk : fk.num = k * fk.den) (hfd : 0 < fk.den) : ∃ a, x.mul fk = some a := by
  unfold Dbl.mul
  apply roundDouble_defined (Nat.mul_pos hden hfd)
  rw [hfk]
  have e1 : x.num = (x.num.natAbs : Int) := by omega
  have : (x.num * ((k : Int) * (fk.den : Int))).natAbs = x.num.natAbs * (k * fk.den) := by
    rw [Int.natAbs_mul]
    congr 1
  rw [this]
  have hxa : x.num.natAbs ≤ x.den := by omega
  calc x.num.natAbs * (k * fk.den) ≤ x.den * (k * fk.den) := Nat.mul_le_mul_right _ hxa
    _ = k * (x.den * fk.den) := Nat.mul_left_comm _ _ _
    _ ≤ 2 ^ 53 * (x.den * fk.den) := Nat.mul_le_mul_right _ hk

/-- `k − a` for `a ∈ [0, k]`: cross-multiplied value and its range. -/
theorem Dbl.sub_defined {fk a : Dbl} {k : Nat} (hk : k ≤ 2 ^ 53) (hfk : fk.num = k * fk.den) (hfd : 0 < fk.den)
    (had : 0 < a.den) (ha0 : 0 ≤ a.num) (ha1 : a.num ≤ k * a.den) : ∃ c, fk.sub a = some c := by
  unfold Dbl.sub
  apply roundDouble_defined (Nat.mul_pos hfd had)
  rw [hfk]
  have e : (k : Int) * (fk.den : Int) * (a.den : Int) - a.num * (fk.den : Int) =
      ((k : Int) * (a.den : Int) - a.num) * (fk.den : Int) := by
    rw [Int.sub_mul, Int.mul_right_comm]
  rw [e, Int.natAbs_mul, Int.natAbs_natCast]
  have h1 : ((k : Int) * (a.den : Int) - a.num).natAbs ≤ k * a.den := by
    have : (((k * a.den : Nat)) : Int) = (k : Int) * (a.den : Int) := Int.natCast_mul _ _
    omega
  calc ((k : Int) * (a.den : Int) - a.num).natAbs * fk.den ≤ k * a.den * fk.den := Nat.mul_le_mul_right _ h1
    _ = k * (fk.den * a.den) := by rw [Nat.mul_assoc, Nat.mul_comm a.den]
    _ ≤ 2 ^ 53 * (fk.den * a.den) := Nat.mul_le_mul_right _ hk

/-- destructuring of a successful `floatGcRule`. -/
theorem floatGcRule_some {lo hi : Dbl} {k : Nat} {g : GcRule} (hk : k ≤ 2 ^ 53)
    (hg : floatGcRule lo hi k = some g) :
    ∃ fk a b c : Dbl, fk.num = (k : Int) * fk.den ∧ 0 < fk.den ∧ lo.mul fk = some a ∧ hi.mul fk = some b ∧
      fk.sub a = some c ∧ g.gcLo = a.ceil ∧ g.gcHi = b.floor ∧ g.atHi = c.floor := by
  obtain ⟨fk, hfk, hnum, hden⟩ := roundDouble_int_exact (k : Int) (by simpa using hk)
  unfold floatGcRule Dbl.ofInt at hg
  rw [hfk] at hg
  simp only at hg
  split at hg
  · rename_i a b ha hb
    split at hg
    · rename_i c hc
      cases hg
      exact ⟨fk, a, b, c, hnum, hden, ha, hb, hc, rfl, rfl, rfl⟩
    · cases hg
  · cases hg

theorem floatGcRule_gcLo_range {lo hi : Dbl} {k : Nat} {g : GcRule} (hden : 0 < lo.den)
    (h0 : 0 ≤ lo.num) (h1 : lo.num ≤ lo.den) (hk : k ≤ 2 ^ 53)
    (hg : floatGcRule lo hi k = some g) : 0 ≤ g.gcLo ∧ g.gcLo ≤ k := by
  obtain ⟨fk, a, b, c, hnum, hfd, ha, _, _, hlo, _, _⟩ := floatGcRule_some hk hg
  obtain ⟨had, ha0, ha1⟩ := Dbl.mul_range hden h0 h1 hk hnum hfd ha
  rw [hlo]
  exact ⟨Dbl.le_ceil had (by simpa using ha0), Dbl.ceil_le had ha1⟩

theorem floatGcRule_gcHi_range {lo hi : Dbl} {k : Nat} {g : GcRule} (hden : 0 < hi.den)
    (h0 : 0 ≤ hi.num) (h1 : hi.num ≤ hi.den) (hk : k ≤ 2 ^ 53)
    (hg : floatGcRule lo hi k = some g) : 0 ≤ g.gcHi ∧ g.gcHi ≤ k := by
  obtain ⟨fk, a, b, c, hnum, hfd, _, hb, _, _, hhi, _⟩ := floatGcRule_some hk hg
  obtain ⟨hbd, hb0, hb1⟩ := Dbl.mul_range hden h0 h1 hk hnum hfd hb
  rw [hhi]
  exact ⟨Dbl.le_floor hbd (by simpa using hb0), Dbl.floor_le hbd hb1⟩

theorem floatGcRule_consistent {lo hi : Dbl} {k : Nat} {g : GcRule} (hden : 0 < lo.den)
    (h0 : 0 ≤ lo.num) (h1 : lo.num ≤ lo.den) (hk : k ≤ 2 ^ 53)
    (hg : floatGcRule lo hi k = some g) : (k : Int) - g.gcLo ≤ g.atHi := by
  obtain ⟨hg0, hg1⟩ := floatGcRule_gcLo_range hden h0 h1 hk hg
  obtain ⟨fk, a, b, c, hnum, hfd, ha, _, hc, hlo, _, hat⟩ := floatGcRule_some hk hg
  obtain ⟨had, ha0, ha1⟩ := Dbl.mul_range hden h0 h1 hk hnum hfd ha
  have hceil := Dbl.le_ceil_mul had
  rw [hat]
  rw [hlo] at hg0 hg1 ⊢
  have hcd : 0 < c.den := roundDouble_den_pos' hc
  apply Dbl.le_floor hcd
  unfold Dbl.sub at hc
  apply roundDouble_ge_int _ _ _ c (Nat.mul_pos hfd had) _ _ hc
  · have hk' : ((k : Int)).natAbs ≤ 2 ^ 53 := by simpa using hk
    omega
  · rw [hnum]
    have hfd' : (0 : Int) ≤ (fk.den : Int) := by omega
    have hmain : ((k : Int) - a.ceil) * (a.den : Int) ≤ (k : Int) * (a.den : Int) - a.num := by
      rw [Int.sub_mul]; omega
    have := Int.mul_le_mul_of_nonneg_right hmain hfd'
    calc ((k : Int) - a.ceil) * ((fk.den * a.den : Nat) : Int)
        = ((k : Int) - a.ceil) * (a.den : Int) * (fk.den : Int) := by
          rw [Int.natCast_mul, Int.mul_assoc, Int.mul_comm (fk.den : Int)]
      _ ≤ ((k : Int) * (a.den : Int) - a.num) * (fk.den : Int) := this
      _ = (k : Int) * (fk.den : Int) * (a.den : Int) - a.num * (fk.den : Int) := by
          rw [Int.sub_mul, Int.mul_right_comm]

theorem floatGcRule_defined {lo hi : Dbl} {k : Nat} (hlo : 0 < lo.den) (hhi : 0 < hi.den)
    (l0 : 0 ≤ lo.num) (l1 : lo.num ≤ lo.den) (u0 : 0 ≤ hi.num) (u1 : hi.num ≤ hi.den) (hk : k ≤ 2 ^ 53) :
    ∃ g, floatGcRule lo hi k = some g := by
  obtain ⟨fk, hfk, hnum, hfd⟩ := roundDouble_int_exact (k : Int) (by simpa using hk)
  obtain ⟨a, ha⟩ := Dbl.mul_defined hlo l0 l1 hk hnum hfd
  obtain ⟨b, hb⟩ := Dbl.mul_defined hhi u0 u1 hk hnum hfd
  obtain ⟨had, ha0, ha1⟩ := Dbl.mul_range hlo l0 l1 hk hnum hfd ha
  obtain ⟨c, hc⟩ := Dbl.sub_defined hk hnum hfd had ha0 ha1
  refine ⟨⟨a.ceil, b.floor, c.floor⟩, ?_⟩
  unfold floatGcRule Dbl.ofInt
  rw [hfk]
  simp only [ha, hb, hc]

end Dsw
