import DswModel.Lemmas.PowerF
/-!
# Helper lemmas for C17d: small integers in the rounding model, literally

`roundDouble` returns one fixed representative `canon j` for every fraction whose value is the natural number
`j < 2^52`; so sums of ones, `d / d`, `0 / d`, `d − d` are computed exactly AND to literally equal structures.
-/
namespace Dsw.PowerF
open Dsw.FloatErr Dsw.PowerStopF

/-- the representative `roundDouble` returns for the value `j`. -/
def canon (j : Nat) : Dbl :=
  if j = 0 then ⟨0, 1⟩ else ⟨((j * 2 ^ (52 - Nat.log2 j) : Nat) : Int), 2 ^ (52 - Nat.log2 j)⟩

/-- the double has the integer value `j`. -/
def IsInt (x : Dbl) (j : Nat) : Prop := 0 < x.den ∧ x.num = (j : Int) * x.den

theorem canon_zero : canon 0 = Dbl.zero := rfl

theorem canon_isInt (j : Nat) : IsInt (canon j) j := by
  unfold canon IsInt
  by_cases h : j = 0
  · subst h
    simp
  · rw [if_neg h]
    refine ⟨Nat.pow_pos (by omega), ?_⟩
    push_cast
    rfl

theorem isInt_zero : IsInt Dbl.zero 0 := canon_isInt 0

theorem isInt_one : IsInt ⟨1, 1⟩ 1 := ⟨by decide, by decide⟩

theorem rne_mul (K den : Nat) (hden : 0 < den) : rne (K * den) den = K := by
  unfold rne
  have h1 : K * den / den = K := Nat.mul_div_cancel K hden
  have h2 : K * den % den = 0 := Nat.mul_mod_left K den
  simp only [h1, h2]
  split
  · rename_i h
    omega
  · rfl

theorem ratLog2_int (j L den : Nat) (hden : 0 < den) (h1 : 2 ^ L ≤ j) (h2 : j < 2 ^ (L + 1)) :
    ratLog2 (j * den) den = (L : Int) := by
  have hj : 0 < j := Nat.lt_of_lt_of_le (two_pow_pos' L) h1
  obtain ⟨hlo, hhi⟩ := ratLog2_spec' (j * den) den (Nat.mul_pos hj hden) hden
  generalize ratLog2 (j * den) den = R at *
  have hge : den ≤ j * den := Nat.le_mul_of_pos_left _ hj
  by_cases hR : R ≥ 0
  · have hR1 : R + 1 ≥ 0 := by omega
    simp only [hR, if_true] at hlo
    simp only [hR1, if_true] at hhi
    obtain ⟨r, rfl⟩ : ∃ r : Nat, R = r := ⟨R.toNat, by omega⟩
    have e1 : ((r : Int)).toNat = r := by omega
    have e2 : ((r : Int) + 1).toNat = r + 1 := by omega
    rw [e1] at hlo
    rw [e2] at hhi
    have a1 : 2 ^ r ≤ j := by
      have : 2 ^ r * den ≤ j * den := by rw [Nat.mul_comm]; exact hlo
      exact Nat.le_of_mul_le_mul_right this hden
    have a2 : j < 2 ^ (r + 1) := by
      have : j * den < 2 ^ (r + 1) * den := by rw [Nat.mul_comm (2 ^ (r + 1))]; exact hhi
      exact Nat.lt_of_mul_lt_mul_right this
    have b1 : r < L + 1 := (Nat.pow_lt_pow_iff_right (by omega : 1 < 2)).1 (Nat.lt_of_le_of_lt a1 h2)
    have b2 : L < r + 1 := (Nat.pow_lt_pow_iff_right (by omega : 1 < 2)).1 (Nat.lt_of_le_of_lt h1 a2)
    omega
  · exfalso
    by_cases hR1 : R + 1 ≥ 0
    · simp only [hR1, if_true] at hhi
      have : (R + 1).toNat = 0 := by omega
      rw [this, Nat.pow_zero, Nat.mul_one] at hhi
      omega
    · simp only [hR1, if_false] at hhi
      have : j * den ≤ j * den * 2 ^ (-(R + 1)).toNat := Nat.le_mul_of_pos_right _ (two_pow_pos' _)
      omega

theorem log2_lt_52 (j : Nat) (hj0 : j ≠ 0) (hj : j < 2 ^ 52) : Nat.log2 j < 52 := (Nat.log2_lt hj0).2 hj

theorem roundPos_int (j den : Nat) (hj0 : j ≠ 0) (hj : j < 2 ^ 52) (hden : 0 < den) :
    roundPos (j * den) den = (j * 2 ^ (52 - Nat.log2 j), (Nat.log2 j : Int) - 52) := by
  have hL := log2_lt_52 j hj0 hj
  rw [roundPos_eq, ratLog2_int j (Nat.log2 j) den hden (Nat.log2_self_le hj0) Nat.lt_log2_self]
  have hmax : max ((Nat.log2 j : Int) - 52) (-1074) = (Nat.log2 j : Int) - 52 := by omega
  rw [hmax]
  have hneg : (Nat.log2 j : Int) - 52 < 0 := by omega
  simp only [hneg, if_true]
  have ht : (-((Nat.log2 j : Int) - 52)).toNat = 52 - Nat.log2 j := by omega
  rw [ht]
  have e : j * den * 2 ^ (52 - Nat.log2 j) = j * 2 ^ (52 - Nat.log2 j) * den := Nat.mul_right_comm _ _ _
  rw [e, rne_mul _ _ hden]

/-- every fraction with the value `j < 2^52` is rounded to `canon j`. -/
theorem round_int (j : Nat) (hj : j < 2 ^ 52) (num : Int) (den : Nat) (hden : 0 < den)
    (h : num = (j : Int) * den) : roundDouble num den = some (canon j) := by
  by_cases hj0 : j = 0
  · subst hj0
    have : num = 0 := by rw [h]; simp
    rw [this, roundDouble_zero]
    rfl
  · have hjpos : (0 : Int) < (j : Int) := by omega
    have hnpos : 0 < num := by rw [h]; exact Int.mul_pos hjpos (by omega)
    have hna : num.natAbs = j * den := by
      have : ((num.natAbs : Nat) : Int) = ((j * den : Nat) : Int) := by
        rw [Int.natAbs_of_nonneg (by omega), h]
        push_cast
        rfl
      exact_mod_cast this
    have hL := log2_lt_52 j hj0 hj
    rw [roundDouble_eq_ite (by omega) (by omega), hna, roundPos_int j den hj0 hj hden]
    have hov : ¬ ((Nat.log2 j : Int) - 52 > 971 ∨
        ((Nat.log2 j : Int) - 52 = 971 ∧ j * 2 ^ (52 - Nat.log2 j) ≥ 2 ^ 53)) := by omega
    have hneg : ¬ num < 0 := by omega
    have hge : ¬ ((Nat.log2 j : Int) - 52 ≥ 0) := by omega
    have ht : (-((Nat.log2 j : Int) - 52)).toNat = 52 - Nat.log2 j := by omega
    unfold magNum magDen canon
    simp only [hov, hneg, hge, if_false, Int.one_mul, ht, hj0]

/-! ## the operations on integer values -/

theorem add_int (s t : Dbl) (i b : Nat) (hs : IsInt s i) (ht : IsInt t b) (hib : i + b < 2 ^ 52) :
    Dbl.add s t = some (canon (i + b)) := by
  unfold Dbl.add
  apply round_int (i + b) hib _ _ (Nat.mul_pos hs.1 ht.1)
  rw [hs.2, ht.2]
  push_cast
  ring

theorem div_int (t e : Dbl) (c d b : Nat) (ht : IsInt t c) (he : IsInt e d) (hd : 0 < d) (hc : c = b * d)
    (hb : b < 2 ^ 52) : Dbl.div t e = some (canon b) := by
  have hepos : 0 < e.num := by
    rw [he.2]
    exact Int.mul_pos (by omega) (by have := he.1; omega)
  unfold Dbl.div
  have h0 : ¬ e.num = 0 := by omega
  have h1 : e.num > 0 := hepos
  simp only [h0, h1, if_true, if_false]
  apply round_int b hb _ _ (Nat.mul_pos ht.1 (by omega))
  push_cast
  rw [Int.toNat_of_nonneg (by omega), ht.2, he.2, hc]
  push_cast
  ring

theorem sub_self' (t : Dbl) : Dbl.sub t t = some Dbl.zero := by
  unfold Dbl.sub
  rw [Int.sub_self, roundDouble_zero]
  rfl

theorem abs_zero : Dbl.abs Dbl.zero = Dbl.zero := rfl

theorem zero_div (e : Dbl) (he : 0 < e.num) : Dbl.div Dbl.zero e = some Dbl.zero := by
  unfold Dbl.div
  have h0 : ¬ e.num = 0 := by omega
  have h1 : e.num > 0 := he
  simp only [h0, h1, if_true, if_false]
  have : Dbl.zero.num * (e.den : Int) = 0 := by simp [Dbl.zero]
  rw [this, roundDouble_zero]
  rfl

theorem isInt_num_pos {x : Dbl} {d : Nat} (hx : IsInt x d) (hd : 0 < d) : 0 < x.num := by
  rw [hx.2]
  exact Int.mul_pos (by omega) (by have := hx.1; omega)

/-! ## sums of ones -/

theorem rowFold_int (x : VecF) (p : Nat → Bool) :
    ∀ (l : List Nat) (i : Nat), (∀ w ∈ l, IsInt (x.getD w Dbl.zero) (if p w then 1 else 0)) →
      i + (l.filter p).length < 2 ^ 52 →
      l.foldl (PowerStopF.addStep x) (some (canon i)) = some (canon (i + (l.filter p).length))
  | [], i, _, _ => by simp
  | w :: l, i, hl, hb => by
    rw [List.foldl_cons]
    have hw := hl w (by simp)
    have hl' : ∀ w' ∈ l, IsInt (x.getD w' Dbl.zero) (if p w' then 1 else 0) := fun w' hw' => hl w' (by simp [hw'])
    by_cases hp : p w = true
    · rw [if_pos hp] at hw
      have hf : ((w :: l).filter p).length = (l.filter p).length + 1 := by simp [hp]
      rw [hf] at hb ⊢
      have hadd : PowerStopF.addStep x (some (canon i)) w = some (canon (i + 1)) :=
        add_int _ _ i 1 (canon_isInt i) hw (by omega)
      rw [hadd, rowFold_int x p l (i + 1) hl' (by omega)]
      congr 2
      omega
    · rw [if_neg hp] at hw
      have hf : ((w :: l).filter p).length = (l.filter p).length := by simp [hp]
      rw [hf] at hb ⊢
      have hadd : PowerStopF.addStep x (some (canon i)) w = some (canon (i + 0)) :=
        add_int _ _ i 0 (canon_isInt i) hw (by omega)
      rw [hadd]
      exact rowFold_int x p l i hl' hb

/-! ## `allSome`, maxima of two values -/

theorem allSome_map_some {α β} (f : α → β) : ∀ l : List α, allSome (l.map fun v => some (f v)) = some (l.map f)
  | [] => rfl
  | v :: l => by
    simp only [List.map_cons, allSome, allSome_map_some f l, Option.map_some]

theorem lt_self (c : Dbl) : Dbl.lt c c = false := by
  unfold Dbl.lt
  simp

theorem lt_zero_right (c : Dbl) (hc : 0 < c.num) : Dbl.lt c Dbl.zero = false := by
  unfold Dbl.lt Dbl.zero
  simp
  omega

theorem maxD_self (c : Dbl) : Dbl.maxD c c = c := by
  unfold Dbl.maxD
  rw [lt_self]
  rfl

theorem maxD_zero_left (c : Dbl) (hc : 0 < c.num) : Dbl.maxD Dbl.zero c = c := by
  unfold Dbl.maxD
  rw [(lt_zero_iff c).2 hc]
  rfl

theorem maxD_zero_right (c : Dbl) (hc : 0 < c.num) : Dbl.maxD c Dbl.zero = c := by
  unfold Dbl.maxD
  rw [lt_zero_right c hc]
  rfl

theorem foldl_maxD_top (c : Dbl) (hc : 0 < c.num) :
    ∀ l : List Dbl, (∀ t ∈ l, t = Dbl.zero ∨ t = c) → l.foldl Dbl.maxD c = c
  | [], _ => rfl
  | t :: l, h => by
    rw [List.foldl_cons]
    have : Dbl.maxD c t = c := by
      rcases h t (by simp) with h1 | h1
      · rw [h1]; exact maxD_zero_right c hc
      · rw [h1]; exact maxD_self c
    rw [this]
    exact foldl_maxD_top c hc l fun t' ht' => h t' (by simp [ht'])

theorem foldl_maxD_two (c : Dbl) (hc : 0 < c.num) :
    ∀ l : List Dbl, (∀ t ∈ l, t = Dbl.zero ∨ t = c) → c ∈ l → l.foldl Dbl.maxD Dbl.zero = c
  | [], _, hm => by cases hm
  | t :: l, h, hm => by
    rw [List.foldl_cons]
    have hl : ∀ t' ∈ l, t' = Dbl.zero ∨ t' = c := fun t' ht' => h t' (by simp [ht'])
    rcases h t (by simp) with h0 | h0
    · rw [h0, maxD_self]
      rcases List.mem_cons.1 hm with h1 | h1
      · rw [h1, h0] at hc
        exact absurd hc (by decide)
      · exact foldl_maxD_two c hc l hl h1
    · rw [h0, maxD_zero_left _ hc]
      exact foldl_maxD_top _ hc l hl

end Dsw.PowerF
