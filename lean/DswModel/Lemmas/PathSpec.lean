import DswModel.Model.Spiderweb
import DswModel.Lemmas.Defs
import DswModel.Lemmas.Repair
/-! Helper lemmas for the declarative specification of `path_matching`. -/
namespace Dsw.PathSpec

/-- membership in the substitution candidates of `pathMatching`. -/
theorem mem_pmSubs (a : Acc) (chunk : List Char) (prev : Int) (occ : Nat) (original x : Char) :
    x ∈ pmSubs a chunk prev occ original ↔
      (∃ j, j ∈ a.live prev ∧ x = nucChar j) ∧ x ≠ original ∧
      isWalk a (a.ent prev ((nucIdx x).getD 0)) (chunk.drop (occ + 1)) = true := by
  unfold pmSubs
  simp only [List.mem_filter, List.mem_map, decide_eq_true_eq]
  constructor
  · rintro ⟨⟨⟨j, hj, rfl⟩, hne⟩, hw⟩
    exact ⟨⟨j, hj, rfl⟩, hne, hw⟩
  · rintro ⟨⟨j, hj, rfl⟩, hne, hw⟩
    exact ⟨⟨⟨j, hj, rfl⟩, hne⟩, hw⟩

/-- membership in the insertion candidates of `pathMatching`. -/
theorem mem_pmIns (a : Acc) (chunk : List Char) (prev : Int) (occ : Nat) (x : Char) :
    x ∈ pmIns a chunk prev occ ↔
      (∃ j, j ∈ a.live prev ∧ x = nucChar j) ∧
      isWalk a (a.ent prev ((nucIdx x).getD 0)) (chunk.drop occ) = true := by
  unfold pmIns
  simp only [List.mem_filter, List.mem_map]
  constructor
  · rintro ⟨⟨j, hj, rfl⟩, hw⟩
    exact ⟨⟨j, hj, rfl⟩, hw⟩
  · rintro ⟨⟨j, hj, rfl⟩, hw⟩
    exact ⟨⟨j, hj, rfl⟩, hw⟩

/-- what a record claims (same text as `RecordValid` of `Props/C08b.lean`). -/
def Valid (a : Acc) (chunk : List Char) (prev : Int) (occ : Nat) (r : RepairInfo) : Prop :=
  r.loc = occ ∧
  match r.kind with
  | .S => (∃ j, j ∈ a.live prev ∧ r.nuc = nucChar j) ∧ chunk[occ]? ≠ some r.nuc ∧
          r.fragment = chunk.set occ r.nuc ∧
          isWalk a (a.ent prev ((nucIdx r.nuc).getD 0)) (chunk.drop (occ + 1)) = true
  | .I => (∃ j, j ∈ a.live prev ∧ r.nuc = nucChar j) ∧
          r.fragment = chunk.take occ ++ [r.nuc] ++ chunk.drop occ ∧
          isWalk a (a.ent prev ((nucIdx r.nuc).getD 0)) (chunk.drop occ) = true
  | .D => chunk[occ]? = some r.nuc ∧
          r.fragment = chunk.take occ ++ chunk.drop (occ + 1) ∧
          isWalk a prev (chunk.drop (occ + 1)) = true

/-- the records returned by a successful `pathMatching` are exactly the valid ones (indel records
only with `hasIndel`). -/
theorem mem_pathMatching_iff {a : Acc} {chunk : List Char} {prev : Int} {occ : Nat} {indel : Bool}
    {recs : List RepairInfo} {n : Nat} (h : pathMatching a chunk prev occ indel = .ok (recs, n))
    (r : RepairInfo) :
    r ∈ recs ↔ Valid a chunk prev occ r ∧ (r.kind ≠ .S → indel = true) := by
  have hlt := pathMatching_ok_lt h
  have ho : chunk[occ]? = some chunk[occ] := List.getElem?_eq_getElem hlt
  rw [pathMatching_eq a chunk prev occ indel chunk[occ] ho] at h
  injection h with h
  injection h with h _
  subst h
  obtain ⟨kind, loc, nuc, frag⟩ := r
  simp only [Valid, ho, List.mem_append, List.mem_map, mem_pmSubs, RepairInfo.mk.injEq,
    Option.some.injEq, ne_eq]
  cases kind
  · -- S
    constructor
    · rintro (⟨x, ⟨hj, hne, hw⟩, -, rfl, rfl, rfl⟩ | hin)
      · exact ⟨⟨rfl, hj, fun e => hne e.symm, rfl, hw⟩, fun hk => absurd rfl hk⟩
      · exfalso
        cases indel
        · simp at hin
        · simp only [if_true, List.mem_append, List.mem_map, RepairInfo.mk.injEq] at hin
          rcases hin with ⟨x, -, hk, -⟩ | hin
          · cases hk
          · split at hin <;> simp at hin
    · rintro ⟨⟨rfl, hj, hne, rfl, hw⟩, -⟩
      exact Or.inl ⟨nuc, ⟨hj, fun e => hne e.symm, hw⟩, rfl, rfl, rfl, rfl⟩
  · -- I
    constructor
    · rintro (⟨x, -, hk, -⟩ | hin)
      · cases hk
      · cases indel
        · simp at hin
        · simp only [if_true, List.mem_append, List.mem_map, RepairInfo.mk.injEq, mem_pmIns] at hin
          rcases hin with ⟨x, ⟨hj, hw⟩, -, rfl, rfl, rfl⟩ | hin
          · exact ⟨⟨rfl, hj, rfl, hw⟩, fun _ => rfl⟩
          · split at hin <;> simp at hin
    · rintro ⟨⟨rfl, hj, rfl, hw⟩, hi⟩
      rw [hi (by simp)]
      refine Or.inr ?_
      simp only [if_true, List.mem_append, List.mem_map, RepairInfo.mk.injEq, mem_pmIns]
      exact Or.inl ⟨nuc, ⟨hj, hw⟩, by simp⟩
  · -- D
    constructor
    · rintro (⟨x, -, hk, -⟩ | hin)
      · cases hk
      · cases indel
        · simp at hin
        · simp only [if_true, List.mem_append, List.mem_map, RepairInfo.mk.injEq] at hin
          rcases hin with ⟨x, -, hk, -⟩ | hin
          · cases hk
          · split at hin
            · rename_i hw
              simp only [List.mem_singleton, RepairInfo.mk.injEq] at hin
              obtain ⟨-, rfl, rfl, rfl⟩ := hin
              exact ⟨⟨rfl, rfl, rfl, hw⟩, fun _ => rfl⟩
            · simp at hin
    · rintro ⟨⟨rfl, rfl, rfl, hw⟩, hi⟩
      rw [hi (by simp)]
      refine Or.inr ?_
      simp only [if_true, List.mem_append]
      refine Or.inr ?_
      rw [if_pos hw]
      simp

end Dsw.PathSpec
