import DswModel.Model.Spiderweb
import DswModel.Lemmas.Defs
import DswModel.Lemmas.DeBruijn
import DswModel.Lemmas.Vt
import DswModel.Lemmas.Repair
import DswModel.Lemmas.Trim
/-! Helper lemmas for C08 (repair of interior edits on vertex-induced graphs). -/
namespace Dsw.RepairEdit
open Dsw

/-! ## walks on any accessor -/

theorem isWalk_append (a : Acc) : ∀ (X Y : List Char) (v : Int),
    isWalk a v (X ++ Y) = (isWalk a v X && isWalk a (walkEnd a v X) Y)
  | [], Y, v => by simp [isWalk, walkEnd]
  | c :: X, Y, v => by
    simp only [List.cons_append, isWalk, walkEnd]
    cases h : a.next v c with
    | none => simp
    | some t =>
      simp only
      rw [isWalk_append a X Y t, (Acc.next_eq_some h).2.1]

theorem walkEnd_append (a : Acc) : ∀ (X Y : List Char) (v : Int),
    walkEnd a v (X ++ Y) = walkEnd a (walkEnd a v X) Y
  | [], Y, v => by simp [walkEnd]
  | c :: X, Y, v => by
    simp only [List.cons_append, walkEnd]
    exact walkEnd_append a X Y _

/-- a strand that is not a walk has a first symbol that is not a live arc. -/
theorem isWalk_false_split (a : Acc) : ∀ (T : List Char) (u : Int), isWalk a u T = false →
    ∃ r, ∃ h : r < T.length, isWalk a u (T.take r) = true ∧
      a.next (walkEnd a u (T.take r)) (T[r]) = none
  | [], u, h => by simp [isWalk] at h
  | c :: T, u, h => by
    cases hn : a.next u c with
    | none => exact ⟨0, by simp, by simp [isWalk], by simpa [walkEnd] using hn⟩
    | some t =>
      simp only [isWalk, hn] at h
      obtain ⟨r, hr, h1, h2⟩ := isWalk_false_split a T t h
      refine ⟨r + 1, by simpa using hr, ?_, ?_⟩
      · simpa [isWalk, hn] using h1
      · simpa [walkEnd, ← (Acc.next_eq_some hn).2.1] using h2

/-! ## vertex arithmetic -/

/-- the shift successor of vertex `u` along nucleotide `c`. -/
def stepV (k u : Nat) (c : Char) : Nat := (u * 4 + (nucIdx c).getD 0) % 4 ^ k

/-- the vertex reached from `u` after reading `X` (ignoring liveness). -/
def vAfter (k u : Nat) (X : List Char) : Nat := (u * 4 ^ X.length + kmerIdx X) % 4 ^ k

theorem vAfter_nil (k u : Nat) (hu : u < 4 ^ k) : vAfter k u [] = u := by
  simp [vAfter, kmerIdx, Nat.mod_eq_of_lt hu]

theorem vAfter_cons (k u : Nat) (c : Char) (X : List Char) :
    vAfter k u (c :: X) = vAfter k (stepV k u c) X := by
  unfold vAfter stepV
  rw [kmerIdx_cons, List.length_cons, Nat.pow_succ]
  have : u * (4 ^ X.length * 4) + ((nucIdx c).getD 0 * 4 ^ X.length + kmerIdx X) =
      (u * 4 + (nucIdx c).getD 0) * 4 ^ X.length + kmerIdx X := by
    rw [Nat.add_mul, Nat.mul_assoc, Nat.mul_comm 4]; omega
  rw [this]
  simp [Nat.add_mod, Nat.mul_mod]

theorem vAfter_suffix (k u : Nat) (A B : List Char) (hB : B.length = k) :
    vAfter k u (A ++ B) = kmerIdx B := by
  unfold vAfter
  rw [kmerIdx_append, List.length_append, hB, Nat.pow_add]
  have h := kmerIdx_lt B
  rw [hB] at h
  have : u * (4 ^ A.length * 4 ^ k) + (kmerIdx A * 4 ^ k + kmerIdx B) =
      (u * 4 ^ A.length + kmerIdx A) * 4 ^ k + kmerIdx B := by
    rw [Nat.add_mul, Nat.mul_assoc]; omega
  rw [this, Nat.mul_add_mod_self_right, Nat.mod_eq_of_lt h]

theorem vAfter_snoc (k u : Nat) (X : List Char) (c : Char) :
    vAfter k u (X ++ [c]) = stepV k (vAfter k u X) c := by
  induction X generalizing u with
  | nil =>
    simp only [List.nil_append, vAfter_cons]
    unfold vAfter stepV
    simp [kmerIdx, Nat.add_mod, Nat.mul_mod]
  | cons x X ih => simp only [List.cons_append, vAfter_cons, ih]

theorem stepV_lt (k u : Nat) (c : Char) : stepV k u c < 4 ^ k := Nat.mod_lt _ (four_pow_pos k)

/-! ## walks on a vertex-induced graph -/

theorem retained_lt {k : Nat} {s : Mask} (hs : s.size = 4 ^ k) {u : Nat} (hu : s.getD u false = true) :
    u < 4 ^ k := by
  rw [← hs]; exact Trim.Mask.lt_size_of_getD hu

/-- an arc of the induced graph: from a retained vertex, exactly the shift successors that are
retained. -/
theorem next_induced (k : Nat) (s : Mask) (hs : s.size = 4 ^ k) (u : Nat)
    (hu : s.getD u false = true) (c : Char) :
    (inducedAccessor k s).next (u : Int) c =
      if (nucIdx c).isSome = true ∧ s.getD (stepV k u c) false = true then
        some ((stepV k u c : Nat) : Int) else none := by
  unfold Acc.next stepV
  cases hj : nucIdx c with
  | none => simp
  | some j =>
    have hj4 := nucIdx_lt hj
    have e := Trim.inducedAccessor_ent_trim k s u j (retained_lt hs hu) hj4
    simp only [Option.isSome_some, Option.getD_some, true_and]
    by_cases h : s.getD ((u * 4 + j) % 4 ^ k) false = true
    · rw [if_pos ⟨hu, h⟩] at e
      rw [e, if_pos (Int.natCast_nonneg _), if_pos h]
    · rw [if_neg (fun h' => h h'.2)] at e
      rw [e, if_neg (by decide), if_neg h]

theorem isWalk_induced_cons (k : Nat) (s : Mask) (hs : s.size = 4 ^ k) (u : Nat)
    (hu : s.getD u false = true) (c : Char) (X : List Char) :
    isWalk (inducedAccessor k s) (u : Int) (c :: X) = true ↔
      (nucIdx c).isSome = true ∧ s.getD (stepV k u c) false = true ∧
        isWalk (inducedAccessor k s) ((stepV k u c : Nat) : Int) X = true := by
  simp only [isWalk, next_induced k s hs u hu c]
  by_cases h : (nucIdx c).isSome = true ∧ s.getD (stepV k u c) false = true
  · rw [if_pos h]; simp only [h.1, h.2, true_and]
  · rw [if_neg h]
    simp only [Bool.false_eq_true, false_iff]
    intro h'; exact h ⟨h'.1, h'.2.1⟩

theorem walkEnd_induced_cons (k : Nat) (s : Mask) (hs : s.size = 4 ^ k) (u : Nat)
    (hu : s.getD u false = true) (c : Char) (X : List Char)
    (hc : (nucIdx c).isSome = true) (hn : s.getD (stepV k u c) false = true) :
    walkEnd (inducedAccessor k s) (u : Int) (c :: X) =
      walkEnd (inducedAccessor k s) ((stepV k u c : Nat) : Int) X := by
  simp only [walkEnd]
  have := next_induced k s hs u hu c
  rw [if_pos ⟨hc, hn⟩] at this
  rw [← (Acc.next_eq_some this).2.1]

/-- along a walk from a retained vertex the current vertex is given by the index arithmetic and
is retained. -/
theorem walk_induced (k : Nat) (s : Mask) (hs : s.size = 4 ^ k) : ∀ (X : List Char) (u : Nat),
    s.getD u false = true → isWalk (inducedAccessor k s) (u : Int) X = true →
    walkEnd (inducedAccessor k s) (u : Int) X = ((vAfter k u X : Nat) : Int) ∧
      s.getD (vAfter k u X) false = true
  | [], u, hu, _ => by
    rw [vAfter_nil k u (retained_lt hs hu)]; exact ⟨rfl, hu⟩
  | c :: X, u, hu, h => by
    obtain ⟨h1, h2, h3⟩ := (isWalk_induced_cons k s hs u hu c X).mp h
    rw [walkEnd_induced_cons k s hs u hu c X h1 h2, vAfter_cons]
    exact walk_induced k s hs X _ h2 h3

/-! ## windows -/

/-- `S` is an ACGT string all of whose length-`k` windows are retained vertices. -/
def Windowed (k : Nat) (s : Mask) (S : List Char) : Prop :=
  IsAcgt S ∧ ∀ A B C, S = A ++ B ++ C → B.length = k → s.getD (kmerIdx B) false = true

theorem Windowed.of_walk {k : Nat} {s : Mask} (hs : s.size = 4 ^ k) {u : Nat}
    (hu : s.getD u false = true) {w : List Char}
    (hw : isWalk (inducedAccessor k s) (u : Int) w = true) : Windowed k s w := by
  refine ⟨isWalk_isAcgt _ w _ hw, ?_⟩
  intro A B C e hB
  subst e
  rw [isWalk_append, Bool.and_eq_true] at hw
  have := (walk_induced k s hs (A ++ B) u hu hw.1).2
  rwa [vAfter_suffix k u A B hB] at this

theorem Windowed.suffix {k : Nat} {s : Mask} {X S : List Char} (h : Windowed k s (X ++ S)) :
    Windowed k s S := by
  refine ⟨(IsAcgt.append.mp h.1).2, ?_⟩
  intro A B C e hB
  exact h.2 (X ++ A) B C (by rw [e]; simp) hB

theorem Windowed.prefix {k : Nat} {s : Mask} {X S : List Char} (h : Windowed k s (X ++ S)) :
    Windowed k s X := by
  refine ⟨(IsAcgt.append.mp h.1).1, ?_⟩
  intro A B C e hB
  exact h.2 A B (C ++ S) (by rw [e]; simp) hB

theorem stepV_kmerIdx (k : Nat) (b : Char) (B : List Char) (c : Char) (hB : (b :: B).length = k) :
    stepV k (kmerIdx (b :: B)) c = kmerIdx (B ++ [c]) := by
  have h1 := vAfter_suffix k 0 [] (b :: B) hB
  rw [List.nil_append] at h1
  rw [← h1, ← vAfter_snoc]
  have : (b :: B) ++ [c] = [b] ++ (B ++ [c]) := by simp
  rw [this]
  exact vAfter_suffix k 0 [b] (B ++ [c]) (by simp at hB ⊢; omega)

/-- what follows a window of a windowed string is a walk from that window's vertex. -/
theorem Windowed.walk {k : Nat} {s : Mask} (hs : s.size = 4 ^ k) (hk : 1 ≤ k) :
    ∀ (C A B S : List Char), Windowed k s S → S = A ++ B ++ C → B.length = k →
      isWalk (inducedAccessor k s) ((kmerIdx B : Nat) : Int) C = true
  | [], _, _, _, _, _, _ => rfl
  | c :: C, A, B, S, h, e, hB => by
    match B, hB with
    | [], hB => simp at hB; omega
    | b :: B', hB =>
      have hret := h.2 A (b :: B') (c :: C) e hB
      have e' : S = (A ++ [b]) ++ (B' ++ [c]) ++ C := by rw [e]; simp
      have hB' : (B' ++ [c]).length = k := by simp at hB ⊢; omega
      rw [isWalk_induced_cons k s hs _ hret, stepV_kmerIdx k b B' c hB]
      refine ⟨h.1 c (by rw [e]; simp), h.2 _ _ _ e' hB', ?_⟩
      exact Windowed.walk hs hk C (A ++ [b]) (B' ++ [c]) S h e' hB'

/-- on a vertex-induced graph the scan cannot survive `k` symbols past the edited position and
then fail: the first dead arc is met fewer than `k` symbols after the edit. -/
theorem break_lt (k : Nat) (s : Mask) (hs : s.size = 4 ^ k) (hk : 1 ≤ k) (v : Nat)
    (hv : s.getD v false = true) (P S : List Char) (y : Char) (hS : Windowed k s S)
    (r : Nat) (hr : r < (y :: S).length)
    (h1 : isWalk (inducedAccessor k s) (v : Int) (P ++ (y :: S).take r) = true)
    (h2 : (inducedAccessor k s).next
      (walkEnd (inducedAccessor k s) (v : Int) (P ++ (y :: S).take r)) ((y :: S)[r]) = none) :
    r < k := by
  apply Nat.lt_of_not_le
  intro hkr
  obtain ⟨e, hret⟩ := walk_induced k s hs _ v hv h1
  rw [e, next_induced k s hs _ hret] at h2
  have hr' : r ≤ S.length := by simp at hr; omega
  have hacgt : (nucIdx ((y :: S)[r])).isSome = true := by
    match r, hr, hkr with
    | 0, _, hkr => omega
    | r + 1, hr, _ => simp only [List.getElem_cons_succ]; exact hS.1 _ (List.getElem_mem _)
  have hnext : s.getD (stepV k (vAfter k v (P ++ (y :: S).take r)) ((y :: S)[r])) false = true := by
    rw [← vAfter_snoc, List.append_assoc, List.take_append_getElem]
    have hB : ((S.take r).drop (r - k)).length = k := by simp; omega
    have e1 : P ++ (y :: S).take (r + 1) = (P ++ y :: (S.take r).take (r - k)) ++ (S.take r).drop (r - k) := by
      simp [List.take_succ_cons]
    rw [e1, vAfter_suffix k v _ _ hB]
    exact hS.2 ((S.take r).take (r - k)) _ (S.drop r) (by simp) hB
  rw [if_pos ⟨hacgt, hnext⟩] at h2
  cases h2

/-! ## slices -/

theorem pySlice_nat {α} (l : List α) (a b : Nat) :
    pySlice l (a : Int) (b : Int) = (l.drop a).take (b - a) := by
  unfold pySlice pyNorm
  have h1 : ¬ ((a : Int) < 0) := by omega
  have h2 : ¬ ((b : Int) < 0) := by omega
  simp only [h1, h2, if_false, Int.toNat_natCast]
  by_cases ha : a ≤ l.length
  · rw [Nat.min_eq_left ha]
    by_cases hb : b ≤ l.length
    · rw [Nat.min_eq_left hb]
    · rw [Nat.min_eq_right (by omega)]
      rw [List.take_of_length_le (by simp), List.take_of_length_le (by simp; omega)]
  · rw [Nat.min_eq_right (by omega : l.length ≤ a),
      List.drop_of_length_le (by omega : l.length ≤ a), List.drop_of_length_le (Nat.le_refl _)]
    simp

theorem slice_chunk (P S : List Char) (y : Char) (k r : Nat) (hr : r < k) (hP : k ≤ P.length) :
    ((P ++ y :: S).drop (P.length + r + 1 - k)).take (P.length + r + k - (P.length + r + 1 - k)) =
      P.drop (P.length + r + 1 - k) ++ y :: S.take (r + k - 1) := by
  rw [List.drop_append_of_le_length (by omega), List.take_append]
  have e1 : (P.drop (P.length + r + 1 - k)).length = k - 1 - r := by simp; omega
  rw [e1, List.take_of_length_le (by rw [e1]; omega)]
  have e2 : P.length + r + k - (P.length + r + 1 - k) - (k - 1 - r) = (r + k - 1) + 1 := by omega
  rw [e2, List.take_succ_cons]

theorem slice_resume (P S : List Char) (y : Char) (k r : Nat) :
    ((P ++ y :: S).drop (P.length + r + 1)).take (P.length + r + k + 1 - (P.length + r + 1)) =
      (S.drop r).take k := by
  have e : P.length + r + 1 = P.length + (r + 1) := by omega
  have e' : P.length + (r + 1) - P.length = r + 1 := by omega
  rw [e, List.drop_append, List.drop_of_length_le (by omega), List.nil_append, e',
    List.drop_succ_cons]
  congr 1; omega

/-! ## the queue after a clean run -/

theorem run_queue_lt (a : Acc) : ∀ (w : List Char) (st : Scan) (j : Nat), j < st.loc →
    (st.run a w).queue[j]? = st.queue[j]?
  | [], _, _, _ => rfl
  | c :: w, st, j, hj => by
    simp only [Scan.run]
    rw [run_queue_lt a w _ j (by simp; omega)]
    simp only [Scan.advance]
    rw [List.getElem?_set_ne (by omega)]

theorem run_queue (a : Acc) : ∀ (w : List Char) (st : Scan), st.loc + w.length ≤ st.queue.length →
    ∀ i, i < w.length → (st.run a w).queue[st.loc + i]? = some (walkEnd a st.v (w.take (i + 1)))
  | [], _, _, i, hi => by simp at hi
  | c :: w, st, hl, i, hi => by
    simp only [Scan.run]
    simp only [List.length_cons] at hl hi
    match i with
    | 0 =>
      rw [Nat.add_zero, run_queue_lt a w _ st.loc (by simp)]
      simp only [Scan.advance]
      rw [List.getElem?_set_self (by omega)]
      simp [walkEnd]
    | i + 1 =>
      have := run_queue a w (st.advance c (a.ent st.v ((nucIdx c).getD 0)))
        (by simp [Scan.advance]; omega) i (by omega)
      simp only [Scan.advance_loc] at this
      rw [show st.loc + (i + 1) = st.loc + 1 + i by omega, this]
      simp [Scan.advance, walkEnd]

/-! ## one detection -/

theorem scan_detect (a : Acc) (k : Nat) (dna : List Char) (fuel : Nat) (X : List Char) (d : Char)
    (rest : List Char) (st : Scan) (hX : isWalk a st.v X = true)
    (hd : dna.drop st.loc = X ++ d :: rest) (hn : a.next (walkEnd a st.v X) d = none) :
    scan a k dna (fuel + 1 + X.length) st = scan a k dna fuel ((st.run a X).detect k dna) := by
  rw [scan_walk a k dna (fuel + 1) X st hX ⟨_, hd⟩]
  obtain ⟨h1, h2, -⟩ := Scan.run_fields a X st
  have hlen : st.loc + X.length < dna.length := by
    have := congrArg List.length hd
    simp at this; omega
  have hget : dna.getD (st.loc + X.length) 'A' = d := by
    have : (dna.drop st.loc)[X.length]? = some d := by rw [hd]; simp
    rw [List.getElem?_drop] at this
    simp [List.getD, this]
  rw [scan_succ a k dna fuel _ (by rw [h1]; exact hlen)]
  congr 1
  simp only [scanStep, h1, h2, hget, hn]

theorem detect_fields (a : Acc) (k : Nat) (dna X : List Char) (st : Scan) (cur0 : List Char)
    (tl : List (List Char)) (hsp : st.splits = cur0 :: tl) (L : Nat) (hL : L = st.loc + X.length)
    (hkL : k ≤ L) (hcur : k ≤ (cur0 ++ X).length + 1) :
    ((st.run a X).detect k dna).detected = st.detected + 1 ∧
    ((st.run a X).detect k dna).loc = L + k + 1 ∧
    ((st.run a X).detect k dna).v = ((kmerIdx ((dna.drop (L + 1)).take k) : Nat) : Int) ∧
    ((st.run a X).detect k dna).splits =
      [nucChar (kmerIdx ((dna.drop (L + 1)).take k) % 4)] ::
        (cur0 ++ X).take ((cur0 ++ X).length + 1 - k) :: tl ∧
    ((st.run a X).detect k dna).chunks = (dna.drop (L + 1 - k)).take (L + k - (L + 1 - k)) :: st.chunks ∧
    ((st.run a X).detect k dna).markers = ((st.run a X).queue.drop (L - k)).take k :: st.markers ∧
    ((st.run a X).detect k dna).queue = (st.run a X).queue ∧
    ((st.run a X).detect k dna).visited = st.visited + X.length := by
  obtain ⟨h1, h2, h3, h4, h5, h6, h7⟩ := Scan.run_fields a X st
  have h8 := Scan.run_splits a X st (by rw [hsp]; simp)
  rw [hsp] at h8
  simp only [List.headD_cons, List.tail_cons] at h8
  have hloc : (st.run a X).loc = L := by rw [h1, hL]
  have e1 : ((L : Int) + 1) = ((L + 1 : Nat) : Int) := by omega
  have e2 : ((L : Int) + k + 1) = ((L + k + 1 : Nat) : Int) := by omega
  have e3 : ((L : Int) - k + 1) = ((L + 1 - k : Nat) : Int) := by omega
  have e4 : ((L : Int) + k) = ((L + k : Nat) : Int) := by omega
  have e5 : ((L : Int) - k) = ((L - k : Nat) : Int) := by omega
  have e6 : (((cur0 ++ X).length : Int) - k + 1) = (((cur0 ++ X).length + 1 - k : Nat) : Int) := by
    omega
  have e7 : L + k + 1 - (L + 1) = k := by omega
  have e8 : L - (L - k) = k := by omega
  have ev : (pySlice dna ((L : Int) + 1) ((L : Int) + k + 1)).foldl
      (fun n c => n * 4 + (nucIdx c).getD 0) 0 = kmerIdx ((dna.drop (L + 1)).take k) := by
    rw [e1, e2, pySlice_nat, e7]; rfl
  unfold Scan.detect
  simp only [hloc, h8, List.headD_cons, List.tail_cons, ev, h3, h4, h5, h6]
  refine ⟨trivial, trivial, trivial, ?_, ?_, ?_, trivial, trivial⟩
  · rw [e6, show (0 : Int) = ((0 : Nat) : Int) from rfl, pySlice_nat]; simp
  · rw [e3, e4, pySlice_nat]
  · rw [e5, pySlice_nat, e8]

/-- the last symbol of a non-empty ACGT k-mer is the residue of its index. -/
theorem nucChar_kmerIdx_snoc (B : List Char) (c : Char) (hc : (nucIdx c).isSome = true) :
    nucChar (kmerIdx (B ++ [c]) % 4) = c := by
  rw [kmerIdx_snoc, Nat.mul_add_mod_self_right, Nat.mod_eq_of_lt (nucIdx_getD_lt c)]
  exact nucChar_nucIdx_getD hc

theorem window_last (S : List Char) (r k : Nat) (hk : 1 ≤ k) (hS : r + k ≤ S.length) :
    (S.drop r).take k = (S.drop r).take (k - 1) ++ [S[r + k - 1]] := by
  have h : k - 1 < (S.drop r).length := by simp; omega
  have := List.take_append_getElem h
  rw [show k - 1 + 1 = k by omega] at this
  rw [← this, List.getElem_drop]
  congr 3; omega

/-- the scan of a strand `P ++ y :: S` that follows `P` and `r` further symbols, meets a dead arc
and resumes on a walk: one detection, two splits, the chunk and the look-back window. -/
theorem scan_single (a : Acc) (k : Nat) (v : Int) (P S : List Char) (y : Char) (r : Nat)
    (hk : 1 ≤ k) (hr : r < k) (hP : k ≤ P.length) (hS : r + k ≤ S.length) (hacgt : IsAcgt S)
    (h1 : isWalk a v (P ++ (y :: S).take r) = true)
    (h2 : a.next (walkEnd a v (P ++ (y :: S).take r)) ((y :: S)[r]'(by simp; omega)) = none)
    (h3 : isWalk a ((kmerIdx ((S.drop r).take k) : Nat) : Int) (S.drop (r + k)) = true) :
    ∃ st marker, scan a k (P ++ y :: S) ((P ++ y :: S).length + 1) (Scan.init (P ++ y :: S) v) = some st ∧
      st.detected = 1 ∧
      st.splits = [S.drop (r + k - 1), P.take (P.length + r + 1 - k)] ∧
      st.chunks = [P.drop (P.length + r + 1 - k) ++ y :: S.take (r + k - 1)] ∧
      st.markers = [marker] ∧ marker.length = k ∧ marker.reverse[r]? = some (walkEnd a v P) := by
  have hrT : r < (y :: S).length := by simp; omega
  let dna := P ++ y :: S
  let X := P ++ (y :: S).take r
  let st0 := Scan.init dna v
  have hXlen : X.length = P.length + r := by simp [X]; omega
  have hdna : dna.length = P.length + 1 + S.length := by simp [dna]; omega
  have hd : dna.drop st0.loc = X ++ (y :: S)[r] :: (y :: S).drop (r + 1) := by
    show dna.drop 0 = _
    rw [List.getElem_cons_drop hrT, List.drop_zero]
    simp only [X, dna, List.append_assoc, List.take_append_drop]
  have hstep := scan_detect a k dna (1 + k + (S.drop (r + k)).length) X _ _ st0 h1 hd h2
  obtain ⟨f1, f2, f3, f4, f5, f6, f7, f8⟩ := detect_fields a k dna X st0 [] [] rfl (P.length + r)
    (by rw [hXlen]; simp [st0, Scan.init]) (by omega) (by rw [List.nil_append, hXlen]; omega)
  have hres : (dna.drop (P.length + r + 1)).take k = (S.drop r).take k := by
    have := slice_resume P S y k r
    rwa [show P.length + r + k + 1 - (P.length + r + 1) = k by omega] at this
  rw [hres] at f3 f4
  have hrest : dna.drop ((st0.run a X).detect k dna).loc = S.drop (r + k) ++ [] := by
    rw [f2, List.append_nil]
    show (P ++ y :: S).drop _ = _
    rw [show P.length + r + k + 1 = P.length + (r + k + 1) by omega, List.drop_append,
      List.drop_of_length_le (by omega), List.nil_append,
      show P.length + (r + k + 1) - P.length = r + k + 1 by omega, List.drop_succ_cons]
  have hw2 : isWalk a ((st0.run a X).detect k dna).v (S.drop (r + k)) = true := by rw [f3]; exact h3
  have hwalk := scan_walk a k dna (1 + k) (S.drop (r + k)) _ hw2 ⟨[], hrest⟩
  obtain ⟨g1, g2, g3, g4, g5, g6, g7⟩ := Scan.run_fields a (S.drop (r + k)) ((st0.run a X).detect k dna)
  have g8 := Scan.run_splits a (S.drop (r + k)) ((st0.run a X).detect k dna) (by rw [f4]; simp)
  refine ⟨((st0.run a X).detect k dna).run a (S.drop (r + k)),
    ((st0.run a X).queue.drop (P.length + r - k)).take k, ?_, ?_, ?_, ?_, ?_, ?_, ?_⟩
  · have e : dna.length + 1 = 1 + k + (S.drop (r + k)).length + 1 + X.length := by
      rw [hdna, hXlen]; simp; omega
    show scan a k dna (dna.length + 1) st0 = _
    rw [e, hstep, hwalk]
    exact scan_done a k dna _ _ (by rw [g1, f2, hdna]; simp; omega)
  · rw [g3, f1]; rfl
  · rw [g8, f4]
    simp only [List.headD_cons, List.tail_cons, List.nil_append]
    rw [window_last S r k hk hS, nucChar_kmerIdx_snoc _ _ (hacgt _ (List.getElem_mem _))]
    congr 1
    · rw [List.singleton_append, List.drop_eq_getElem_cons (l := S) (i := r + k - 1) (by omega),
        show r + k - 1 + 1 = r + k by omega]
    · congr 1
      rw [hXlen]
      show (P ++ (y :: S).take r).take _ = _
      rw [List.take_append_of_le_length (by omega)]
  · rw [g4, f5]
    congr 1
    exact slice_chunk P S y k r hr hP
  · rw [g5, f6]; rfl
  · have : (st0.run a X).queue.length = dna.length := by
      rw [(Scan.run_fields a X st0).2.2.2.2.2.2]; simp [st0, Scan.init]
    simp [this, hdna]; omega
  · have hq := run_queue a X st0 (by simp [st0, Scan.init, hXlen, dna]; omega) (P.length - 1)
      (by rw [hXlen]; omega)
    have hl : (((st0.run a X).queue.drop (P.length + r - k)).take k).length = k := by
      have : (st0.run a X).queue.length = dna.length := by
        rw [(Scan.run_fields a X st0).2.2.2.2.2.2]; simp [st0, Scan.init]
      simp [this, hdna]; omega
    rw [List.getElem?_reverse (by rw [hl]; exact hr), hl, List.getElem?_take,
      if_pos (by omega), List.getElem?_drop]
    have e0 : st0.loc = 0 := rfl
    rw [e0, Nat.zero_add] at hq
    rw [show P.length + r - k + (k - 1 - r) = P.length - 1 by omega, hq,
      show P.length - 1 + 1 = P.length by omega]
    simp [X, st0, Scan.init]

/-! ## the restoring record of `pathMatching` -/

theorem isWalk_prefix (a : Acc) (X Y : List Char) (v : Int) (h : isWalk a v (X ++ Y) = true) :
    isWalk a v X = true := by
  rw [isWalk_append, Bool.and_eq_true] at h; exact h.1

theorem isWalk_cons_inv {a : Acc} {v : Int} {x : Char} {R : List Char}
    (h : isWalk a v (x :: R) = true) :
    x ∈ (a.live v).map nucChar ∧ isWalk a (a.ent v ((nucIdx x).getD 0)) R = true := by
  simp only [isWalk] at h
  split at h
  · rename_i t ht
    obtain ⟨h1, h2, h3⟩ := Acc.next_eq_some ht
    refine ⟨?_, by rw [← h2]; exact h⟩
    obtain ⟨j, hj⟩ := Option.isSome_iff_exists.mp h1
    have hj4 := nucIdx_lt hj
    refine List.mem_map.mpr ⟨j, ?_, nucChar_nucIdx hj⟩
    simp only [Acc.live, List.mem_filter, List.mem_range, decide_eq_true_eq]
    refine ⟨hj4, ?_⟩
    rw [hj] at h2
    simp only [Option.getD_some] at h2
    rw [← h2]; exact h3
  · cases h

/-- how the corrupted strand differs from the original around the edited position: the original
has `mid` where the corrupted strand has the single symbol `y`. -/
def MidKind (indel : Bool) (y : Char) (mid : List Char) : Prop :=
  (∃ x, mid = [x] ∧ x ≠ y) ∨ (indel = true ∧ mid = []) ∨ (indel = true ∧ ∃ x, mid = [x, y])

theorem restore_record (a : Acc) (indel : Bool) (vp : Int) (Pd S' : List Char) (y : Char)
    (mid : List Char) (hkind : MidKind indel y mid) (hw : isWalk a vp (mid ++ S') = true) :
    ∃ pm info, pathMatching a (Pd ++ y :: S') vp Pd.length indel = .ok pm ∧ info ∈ pm.1 ∧
      info.fragment = Pd ++ mid ++ S' := by
  have hocc : (Pd ++ y :: S')[Pd.length]? = some y := by simp
  have hd1 : (Pd ++ y :: S').drop (Pd.length + 1) = S' := by simp
  have hd0 : (Pd ++ y :: S').drop Pd.length = y :: S' := by simp
  have ht : (Pd ++ y :: S').take Pd.length = Pd := by simp
  have hpm := pathMatching_eq a _ vp _ indel y hocc
  rcases hkind with ⟨x, rfl, hxy⟩ | ⟨hi, rfl⟩ | ⟨hi, x, rfl⟩
  · obtain ⟨h1, h2⟩ := isWalk_cons_inv hw
    refine ⟨_, (⟨.S, Pd.length, x, (Pd ++ y :: S').set Pd.length x⟩ : RepairInfo), hpm, ?_, by simp⟩
    apply List.mem_append_left
    refine List.mem_map.mpr ⟨x, ?_, rfl⟩
    simp only [pmSubs, List.mem_filter, hd1]
    exact ⟨⟨h1, by simpa using hxy⟩, h2⟩
  · refine ⟨_, (⟨.D, Pd.length, y, Pd ++ S'⟩ : RepairInfo), hpm, ?_, by simp⟩
    apply List.mem_append_right
    rw [if_pos hi, hd1, ht]
    apply List.mem_append_right
    rw [List.nil_append] at hw
    rw [if_pos hw]; simp
  · obtain ⟨h1, h2⟩ := isWalk_cons_inv hw
    refine ⟨_, (⟨.I, Pd.length, x, Pd ++ [x] ++ y :: S'⟩ : RepairInfo), hpm, ?_, by simp⟩
    apply List.mem_append_right
    rw [if_pos hi]
    apply List.mem_append_left
    refine List.mem_map.mpr ⟨x, ?_, by rw [ht, hd0]⟩
    simp only [pmIns, List.mem_filter, hd0]
    exact ⟨h1, h2⟩

/-- `pathMatching` proposes at most nine records, each at most one symbol longer than the chunk. -/
theorem pathMatching_records {a : Acc} {chunk : List Char} {prev : Int} {occ : Nat} {hasIndel : Bool}
    {r : List RepairInfo × Nat} (h : pathMatching a chunk prev occ hasIndel = .ok r) :
    r.1.length ≤ 9 ∧ ∀ info ∈ r.1, info.fragment.length ≤ chunk.length + 1 := by
  have hlt := pathMatching_ok_lt h
  rw [pathMatching_eq a chunk prev occ hasIndel chunk[occ] (List.getElem?_eq_getElem hlt)] at h
  cases h
  have hu : ((a.live prev).map nucChar).length ≤ 4 := by simpa using live_length_le a prev
  have hs : (pmSubs a chunk prev occ chunk[occ]).length ≤ 4 :=
    Nat.le_trans (List.length_filter_le _ _) (Nat.le_trans (List.length_filter_le _ _) hu)
  have hi : (pmIns a chunk prev occ).length ≤ 4 := Nat.le_trans (List.length_filter_le _ _) hu
  constructor
  · simp only [List.length_append, List.length_map]
    split
    · simp only [List.length_append, List.length_map]
      split <;> simp <;> omega
    · simp; omega
  · intro info hinfo
    simp only [List.mem_append, List.mem_map] at hinfo
    rcases hinfo with ⟨x, -, rfl⟩ | hinfo
    · simp
    · split at hinfo
      · simp only [List.mem_append, List.mem_map] at hinfo
        rcases hinfo with ⟨x, -, rfl⟩ | hinfo
        · simp; omega
        · split at hinfo
          · simp at hinfo; subst hinfo; simp; omega
          · simp at hinfo
      · simp at hinfo

/-! ## the fragment set -/

theorem subset_addFragments (dna : List Char) : ∀ (infos : List RepairInfo) (set : List (List Char))
    (f : List Char), f ∈ set → f ∈ addFragments dna set infos
  | [], _, _, h => h
  | info :: infos, set, f, h => by
    simp only [addFragments, List.foldl_cons]
    apply subset_addFragments dna infos
    split
    · exact h
    · split
      · exact h
      · exact List.mem_append_left _ h

theorem addFragments_length_le (dna : List Char) : ∀ (infos : List RepairInfo)
    (set : List (List Char)), (addFragments dna set infos).length ≤ set.length + infos.length
  | [], _ => by simp [addFragments]
  | info :: infos, set => by
    simp only [addFragments, List.foldl_cons]
    have := addFragments_length_le dna infos
      (if set.contains dna then set else if set.contains info.fragment then set
        else set ++ [info.fragment])
    simp only [addFragments] at this
    refine Nat.le_trans this ?_
    split
    · simp <;> omega
    · split <;> simp <;> omega

/-- a record whose fragment is not the whole strand is added to a set that does not contain the
whole strand (the `if dna in set` quirk never fires). -/
theorem mem_addFragments_new (dna : List Char) : ∀ (infos : List RepairInfo)
    (set : List (List Char)) (info : RepairInfo), dna ∉ set →
    (∀ i ∈ infos, i.fragment ≠ dna) → info ∈ infos → info.fragment ∈ addFragments dna set infos
  | [], _, _, _, _, h => by cases h
  | i0 :: infos, set, info, hset, hne, hmem => by
    simp only [addFragments, List.foldl_cons]
    have hc : set.contains dna = false := by simpa using hset
    simp only [hc, Bool.false_eq_true, if_false]
    rcases List.mem_cons.mp hmem with rfl | hmem
    · apply subset_addFragments
      split
      · rename_i h; simpa using h
      · simp
    · apply mem_addFragments_new dna infos _ info ?_ (fun i hi => hne i (List.mem_cons_of_mem _ hi)) hmem
      split
      · exact hset
      · intro h
        rcases List.mem_append.mp h with h | h
        · exact hset h
        · simp at h; exact hne i0 List.mem_cons_self h.symm

/-- a property established by the step at one list element and preserved by all steps holds of
the result of a successful `foldlM`. -/
theorem foldlM_mem_inv {α β} (f : β → α → R β) (I Q : β → Prop) :
    ∀ (l : List α) (x : α) (b r : β), x ∈ l →
      (∀ acc y r, y ∈ l → I acc → f acc y = .ok r → I r) →
      (∀ acc y r, y ∈ l → I acc → Q acc → f acc y = .ok r → Q r) →
      (∀ acc r, I acc → f acc x = .ok r → Q r) →
      I b → l.foldlM f b = .ok r → Q r := by
  intro l
  induction l with
  | nil => intro x b r hx; cases hx
  | cons y ys ih =>
    intro x b r hx hI hQ hxQ hb h
    rw [List.foldlM_cons] at h
    obtain ⟨b', hb', h'⟩ := R.bind_eq_ok _ _ _ h
    have hIb' := hI b y b' List.mem_cons_self hb hb'
    rcases List.mem_cons.mp hx with rfl | hx
    · have hQb' := hxQ b b' hb hb'
      have := foldlM_ok_inv f (fun acc => I acc ∧ Q acc) ys b' r
        (fun acc z r' hz hacc hr' =>
          ⟨hI acc z r' (List.mem_cons_of_mem _ hz) hacc.1 hr',
           hQ acc z r' (List.mem_cons_of_mem _ hz) hacc.1 hacc.2 hr'⟩) ⟨hIb', hQb'⟩ h'
      exact this.2
    · exact ih x b' r hx (fun acc z r' hz => hI acc z r' (List.mem_cons_of_mem _ hz))
        (fun acc z r' hz => hQ acc z r' (List.mem_cons_of_mem _ hz)) hxQ hIb' h'

/-- the fragment set of one detection: it exists, holds the fragment of any record found at any
look-back position, has at most nine entries per look-back position, all of them ACGT. -/
theorem collectFragments_mem (a : Acc) (k : Nat) (dna chunk : List Char) (marker : List Int)
    (hasIndel : Bool) (hk : 1 ≤ k) (hc : IsAcgt chunk) (hlen : k ≤ chunk.length)
    (hdna : chunk.length + 1 < dna.length) (prev : Int) (idx : Nat)
    (hmem : marker.reverse[idx]? = some prev) (pm : List RepairInfo × Nat) (info : RepairInfo)
    (hpm : pathMatching a chunk prev (k - idx - 1) hasIndel = .ok pm) (hinfo : info ∈ pm.1) :
    ∃ r, collectFragments a k dna chunk marker hasIndel = .ok r ∧ info.fragment ∈ r.1 ∧
      r.1.length ≤ marker.length * 9 ∧ ∀ f ∈ r.1, IsAcgt f := by
  obtain ⟨r, hr, hacgt⟩ := collectFragments_total a k dna chunk marker hasIndel hk hc (Or.inr hlen)
  refine ⟨r, hr, ?_, ?_, hacgt⟩
  · rw [collectFragments_eq] at hr
    refine foldlM_mem_inv (collectStep a k dna chunk hasIndel)
      (fun acc => ∀ f ∈ acc.1, f.length ≤ chunk.length + 1) (fun acc => info.fragment ∈ acc.1)
      _ (prev, idx) _ r (List.mem_zipIdx_iff_getElem?.mpr hmem) ?_ ?_ ?_ (by simp) hr
    · intro acc p r' _ hacc hr' f hf
      obtain ⟨pm', hpm', e⟩ := R.bind_ok _ _ _ hr'
      cases e
      rcases mem_addFragments dna _ _ f hf with hf | ⟨i, hi, rfl⟩
      · exact hacc f hf
      · exact (pathMatching_records hpm').2 i hi
    · intro acc p r' _ _ hq hr'
      obtain ⟨pm', hpm', e⟩ := R.bind_ok _ _ _ hr'
      cases e
      exact subset_addFragments dna _ _ _ hq
    · intro acc r' hacc hr'
      obtain ⟨pm', hpm', e⟩ := R.bind_ok _ _ _ hr'
      cases e
      simp only at hpm'
      rw [hpm] at hpm'
      cases hpm'
      refine mem_addFragments_new dna _ _ info ?_ ?_ hinfo
      · intro h; have := hacc dna h; omega
      · intro i hi e
        have := (pathMatching_records hpm).2 i hi
        rw [e] at this; omega
  · rw [collectFragments_eq] at hr
    have := foldlM_count_le (collectStep a k dna chunk hasIndel) (·.1.length) 9 _ _ _
      (fun acc x r' _ hr' => by
        obtain ⟨pm', hpm', e⟩ := R.bind_ok _ _ _ hr'
        cases e
        have h1 := (pathMatching_records hpm').1
        have h2 := addFragments_length_le dna pm'.1 acc.1
        simp only; omega) hr
    simpa using this

/-! ## the output stage -/

theorem mapM_mem {α β} (f : α → R β) : ∀ (l : List α) (r : List β), l.mapM f = .ok r →
    ∀ x ∈ l, ∃ y ∈ r, f x = .ok y := by
  intro l
  induction l with
  | nil => intro r _ x hx; cases hx
  | cons z zs ih =>
    intro r h x hx
    rw [List.mapM_cons] at h
    obtain ⟨y, hy, h⟩ := R.bind_eq_ok _ _ _ h
    obtain ⟨ys, hys, h⟩ := R.bind_eq_ok _ _ _ h
    simp [pure, Except.pure] at h
    subst h
    rcases List.mem_cons.mp hx with rfl | hx
    · exact ⟨y, List.mem_cons_self, hy⟩
    · obtain ⟨y', hy', e⟩ := ih ys hys x hx
      exact ⟨y', List.mem_cons_of_mem _ hy', e⟩

/-- the check of the original strand accepts the original strand. -/
theorem vtMatches_of_check (w : List Char) (chk : Option (List Char))
    (hc : chk = none ∨ ∃ m c, 1 ≤ m ∧ setVt w m = .ok c ∧ chk = some c) :
    vtMatches w chk = .ok true := by
  rcases hc with rfl | ⟨m, c, hm, hset, rfl⟩
  · rfl
  · have hl := setVt_length hm hset
    simp only [vtMatches, hl, hset, Except.map]
    simp

/-- the product path of `repairTail`: a candidate that passes the check is returned. -/
theorem repairTail_mem (dna : List Char) (chk : Option (List Char)) (heap : Nat) (st : Scan)
    (fv : List (List (List Char)) × Nat) (res : List (List Char) × RepairStats)
    (h : repairTail dna chk heap st fv = .ok res) (h1 : 1 ≤ fragCount fv.1)
    (h2 : fragCount fv.1 ≤ heap) (frs : List (List Char)) (hfrs : frs ∈ product fv.1)
    (hv : vtMatches (candOf st.splits.reverse frs) chk = .ok true) :
    res.2.detected = st.detected ∧ candOf st.splits.reverse frs ∈ res.1 := by
  unfold repairTail at h
  rw [if_neg (by omega)] at h
  obtain ⟨checked, hc, h⟩ := R.bind_ok _ _ _ h
  simp only [pure, Except.pure, Except.ok.injEq] at h
  subst h
  refine ⟨rfl, ?_⟩
  obtain ⟨y, hy, e⟩ := mapM_mem _ _ _ hc (candOf st.splits.reverse frs)
    (List.mem_map.mpr ⟨frs, hfrs, rfl⟩)
  rw [hv] at e
  simp only [Except.map, Except.ok.injEq] at e
  subst e
  simp only
  rw [mem_isort, List.mem_eraseDups]
  exact List.mem_map.mpr ⟨_, List.mem_filter.mpr ⟨hy, rfl⟩, rfl⟩

theorem fragFold_single (a : Acc) (k : Nat) (dna : List Char) (hasIndel : Bool) (st : Scan)
    (chunk : List Char) (marker : List Int) (hc : st.chunks = [chunk]) (hm : st.markers = [marker])
    (r : List (List Char) × Nat) (hr : collectFragments a k dna chunk marker hasIndel = .ok r) :
    fragFold a k dna hasIndel st = .ok ([r.1], st.visited + r.2) := by
  rw [fragFold_eq, hc, hm]
  simp [fragStep, hr, Except.bind, pure, Except.pure, bind]

/-- the single-edit theorem in decomposition form: the original strand is `P ++ mid ++ S`, the
corrupted one `P ++ y :: S`. -/
theorem single_core (k : Nat) (s : Mask) (v : Nat) (P mid S : List Char) (y : Char)
    (chk : Option (List Char)) (heap : Nat) (indel : Bool) (hk : 1 ≤ k) (hs : s.size = 4 ^ k)
    (hv : s.getD v false = true)
    (hw : isWalk (inducedAccessor k s) (v : Int) (P ++ mid ++ S) = true)
    (hkind : MidKind indel y mid) (hy : (nucIdx y).isSome = true) (hP : k ≤ P.length)
    (hS : 2 * k - 1 ≤ S.length) (hchk : vtMatches (P ++ mid ++ S) chk = .ok true)
    (hheap : 9 * k ≤ heap)
    (hbad : isWalk (inducedAccessor k s) (v : Int) (P ++ y :: S) = false) :
    ∃ cands st, repairDna (inducedAccessor k s) (P ++ y :: S) v k chk indel heap = .ok (cands, st) ∧
      st.detected = 1 ∧ (P ++ mid ++ S) ∈ cands := by
  -- the walk and its pieces
  have hwin : Windowed k s (P ++ mid ++ S) := Windowed.of_walk hs hv hw
  have hwinS : Windowed k s S := hwin.suffix
  have hacgtP : IsAcgt P := by
    have := hwin.prefix; rw [List.append_assoc] at hwin; exact hwin.prefix.1
  rw [List.append_assoc, isWalk_append, Bool.and_eq_true] at hw
  obtain ⟨hwP, hwmid⟩ := hw
  -- where the scan of the corrupted strand breaks
  rw [isWalk_append, hwP, Bool.true_and] at hbad
  obtain ⟨r, hrT, hb1, hb2⟩ := isWalk_false_split _ _ _ hbad
  have hX : isWalk (inducedAccessor k s) (v : Int) (P ++ (y :: S).take r) = true := by
    rw [isWalk_append, hwP, hb1]; rfl
  rw [← walkEnd_append] at hb2
  have hr : r < k := break_lt k s hs hk v hv P S y hwinS r hrT hX hb2
  have hSk : r + k ≤ S.length := by omega
  have hsplitS : S = S.take r ++ (S.drop r).take k ++ S.drop (r + k) := by
    rw [List.append_assoc, ← List.drop_drop, List.take_append_drop, List.take_append_drop]
  have h3 := Windowed.walk hs hk (S.drop (r + k)) (S.take r) ((S.drop r).take k) S hwinS hsplitS
    (by simp; omega)
  -- the scan
  obtain ⟨st, marker, hscan, hdet, hsplits, hchunks, hmarkers, hmlen, hmr⟩ :=
    scan_single (inducedAccessor k s) k v P S y r hk hr hP hSk hwinS.1 hX hb2 h3
  -- the restoring record
  have hmidS' : isWalk (inducedAccessor k s) (walkEnd (inducedAccessor k s) (v : Int) P)
      (mid ++ S.take (r + k - 1)) = true := by
    apply isWalk_prefix _ _ (S.drop (r + k - 1))
    rw [List.append_assoc, List.take_append_drop]; exact hwmid
  obtain ⟨pm, info, hpm, hinfo, hfrag⟩ := restore_record (inducedAccessor k s) indel
    (walkEnd (inducedAccessor k s) (v : Int) P) (P.drop (P.length + r + 1 - k)) (S.take (r + k - 1)) y
    mid hkind hmidS'
  have hPd : (P.drop (P.length + r + 1 - k)).length = k - r - 1 := by simp; omega
  rw [hPd] at hpm
  have hchunkA : IsAcgt (P.drop (P.length + r + 1 - k) ++ y :: S.take (r + k - 1)) :=
    IsAcgt.append.mpr ⟨hacgtP.drop _, IsAcgt.cons.mpr ⟨hy, hwinS.1.take _⟩⟩
  have hclen : (P.drop (P.length + r + 1 - k) ++ y :: S.take (r + k - 1)).length = 2 * k - 1 := by
    simp; omega
  obtain ⟨fr, hfr, hfmem, hflen, hfacgt⟩ := collectFragments_mem (inducedAccessor k s) k (P ++ y :: S)
    _ marker indel hk hchunkA (by rw [hclen]; omega) (by rw [hclen]; simp; omega) _ r hmr pm info hpm
    hinfo
  have hfold := fragFold_single (inducedAccessor k s) k (P ++ y :: S) indel st _ marker hchunks
    hmarkers fr hfr
  have hrep := repairDna_of_scan (chk := chk) (heap := heap) hscan hfold
  -- the output stage
  have hdnaA : IsAcgt (P ++ y :: S) := IsAcgt.append.mpr ⟨hacgtP, IsAcgt.cons.mpr ⟨hy, hwinS.1⟩⟩
  obtain ⟨res, hres⟩ := repairTail_total (P ++ y :: S) chk heap st ([fr.1], st.visited + fr.2) hdnaA
    (by
      intro sp hsp
      rw [hsplits] at hsp
      simp only [List.mem_cons, List.not_mem_nil, or_false] at hsp
      rcases hsp with rfl | rfl
      · exact hwinS.1.drop _
      · exact hacgtP.take _)
    (by
      intro fs hfs f hf
      simp only [List.mem_cons, List.not_mem_nil, or_false] at hfs
      subst hfs; exact hfacgt f hf)
  have hcount : fragCount [fr.1] = fr.1.length := by simp [fragCount]
  have hcand : candOf st.splits.reverse [info.fragment] = P ++ mid ++ S := by
    rw [hsplits, hfrag]
    simp [candOf]
    rw [← List.append_assoc, List.take_append_drop]
  have hm := repairTail_mem (P ++ y :: S) chk heap st _ res hres
    (by rw [hcount]; exact List.length_pos_of_mem hfmem)
    (by rw [hcount, hmlen] at *; omega) [info.fragment]
    (by simp [product]; exact hfmem) (by rw [hcand]; exact hchk)
  refine ⟨res.1, res.2, by rw [hrep, hres], ?_, ?_⟩
  · rw [hm.1, hdet]
  · rw [← hcand]; exact hm.2

/-! ## several edits: scan steps from an arbitrary state -/

/-- more fuel does not change a finished scan. -/
theorem scan_mono (a : Acc) (k : Nat) (dna : List Char) : ∀ (f : Nat) (st st' : Scan),
    scan a k dna f st = some st' → ∀ g, scan a k dna (f + g) st = some st'
  | 0, st, st', h, g => by
    simp only [scan] at h
    split at h
    · cases h
    · cases h; exact scan_done a k dna _ st (by omega)
  | f + 1, st, st', h, g => by
    by_cases hlt : st.loc < dna.length
    · rw [scan_succ a k dna f st hlt] at h
      rw [show f + 1 + g = (f + g) + 1 by omega, scan_succ a k dna _ st hlt]
      exact scan_mono a k dna f _ st' h g
    · rw [scan_done a k dna _ st (by omega)] at h
      cases h; exact scan_done a k dna _ st (by omega)

/-- what follows a retained window is a walk when all later windows are retained. -/
theorem Windowed.walk2 {k : Nat} {s : Mask} (hs : s.size = 4 ^ k) (hk : 1 ≤ k) :
    ∀ (C B : List Char), B.length = k → s.getD (kmerIdx B) false = true →
      Windowed k s (B.tail ++ C) → isWalk (inducedAccessor k s) ((kmerIdx B : Nat) : Int) C = true
  | [], _, _, _, _ => rfl
  | c :: C, B, hB, hret, h => by
    match B, hB with
    | [], hB => simp at hB; omega
    | b :: B', hB =>
      simp only [List.tail_cons] at h
      have hB' : (B' ++ [c]).length = k := by simp at hB ⊢; omega
      have hret' := h.2 [] (B' ++ [c]) C (by simp) hB'
      rw [isWalk_induced_cons k s hs _ hret, stepV_kmerIdx k b B' c hB]
      refine ⟨h.1 c (by simp), hret', ?_⟩
      apply Windowed.walk2 hs hk C (B' ++ [c]) hB' hret'
      match B' with
      | [] => simp; exact Windowed.suffix (X := [c]) (by simpa using h)
      | b' :: B'' =>
        simp only [List.cons_append, List.tail_cons]
        apply Windowed.suffix (X := [b'])
        simpa using h

theorem step_detect (a : Acc) (k : Nat) (dna : List Char) (st : Scan) (pre G0 S : List Char) (y : Char)
    (r : Nat) (cur : List Char) (tl : List (List Char))
    (hdna : dna = pre ++ G0 ++ y :: S) (hloc : st.loc = pre.length) (hsp : st.splits = cur :: tl)
    (hq : st.queue.length = dna.length) (hk : 1 ≤ k) (hr : r < k) (hG0 : k ≤ G0.length)
    (hS : r + k ≤ S.length) (hacgt : (nucIdx (S[r + k - 1]'(by omega))).isSome = true)
    (h1 : isWalk a st.v (G0 ++ (y :: S).take r) = true)
    (h2 : a.next (walkEnd a st.v (G0 ++ (y :: S).take r)) ((y :: S)[r]'(by simp; omega)) = none) :
    ∃ st2 marker,
      (∀ fuel, scan a k dna (fuel + (1 + (G0.length + r))) st = scan a k dna fuel st2) ∧
      st2.detected = st.detected + 1 ∧ st2.loc = (pre ++ G0 ++ y :: S.take (r + k)).length ∧
      st2.v = ((kmerIdx ((S.drop r).take k) : Nat) : Int) ∧
      st2.splits = [S[r + k - 1]] :: (cur ++ G0.take (G0.length + r + 1 - k)) :: tl ∧
      st2.chunks = (G0.drop (G0.length + r + 1 - k) ++ y :: S.take (r + k - 1)) :: st.chunks ∧
      st2.markers = marker :: st.markers ∧ marker.reverse[r]? = some (walkEnd a st.v G0) ∧
      st2.queue.length = dna.length := by
  have hrT : r < (y :: S).length := by simp; omega
  let X := G0 ++ (y :: S).take r
  have hXlen : X.length = G0.length + r := by simp [X]; omega
  have hdl : dna.length = pre.length + G0.length + 1 + S.length := by rw [hdna]; simp; omega
  have hd : dna.drop st.loc = X ++ (y :: S)[r] :: (y :: S).drop (r + 1) := by
    rw [List.getElem_cons_drop hrT, hloc, hdna, List.append_assoc, List.drop_left]
    simp only [X, List.append_assoc, List.take_append_drop]
  have hqr : (st.run a X).queue.length = dna.length := by
    rw [(Scan.run_fields a X st).2.2.2.2.2.2, hq]
  obtain ⟨f1, f2, f3, f4, f5, f6, f7, f8⟩ := detect_fields a k dna X st cur tl hsp
    (pre.length + G0.length + r) (by rw [hXlen, hloc]; omega) (by omega)
    (by rw [List.length_append, hXlen]; omega)
  have hdna' : dna = (pre ++ G0) ++ y :: S := by rw [hdna]
  have hPlen : (pre ++ G0).length = pre.length + G0.length := by simp
  have hres : (dna.drop (pre.length + G0.length + r + 1)).take k = (S.drop r).take k := by
    have := slice_resume (pre ++ G0) S y k r
    rw [hPlen] at this
    rwa [show pre.length + G0.length + r + k + 1 - (pre.length + G0.length + r + 1) = k by omega,
      ← hdna'] at this
  rw [hres] at f3 f4
  refine ⟨(st.run a X).detect k dna, _, ?_, f1, ?_, f3, ?_, ?_, f6, ?_, by rw [f7, hqr]⟩
  · intro fuel
    have := scan_detect a k dna fuel X _ _ st h1 hd h2
    rw [hXlen] at this
    rw [← this]; congr 1; omega
  · rw [f2]; simp; omega
  · rw [f4, window_last S r k hk hS, nucChar_kmerIdx_snoc _ _ hacgt]
    congr 2
    rw [List.length_append, hXlen]
    show (cur ++ (G0 ++ (y :: S).take r)).take _ = _
    rw [← List.append_assoc, List.take_append_of_le_length (by simp; omega),
      List.take_append, List.take_of_length_le (by omega)]
    congr 2; omega
  · rw [f5]
    congr 1
    have := slice_chunk (pre ++ G0) S y k r hr (by rw [hPlen]; omega)
    rw [hPlen, ← hdna'] at this
    rw [this]
    congr 1
    rw [List.drop_append, List.drop_of_length_le (by omega), List.nil_append]
    congr 1; omega
  · have hqv := run_queue a X st (by rw [hq, hdl, hXlen, hloc]; omega) (G0.length - 1)
      (by rw [hXlen]; omega)
    have hl : (((st.run a X).queue.drop (pre.length + G0.length + r - k)).take k).length = k := by
      simp [hqr, hdl]; omega
    rw [List.getElem?_reverse (by rw [hl]; exact hr), hl, List.getElem?_take,
      if_pos (by omega), List.getElem?_drop]
    rw [hloc] at hqv
    rw [show pre.length + G0.length + r - k + (k - 1 - r) = pre.length + (G0.length - 1) by omega, hqv,
      show G0.length - 1 + 1 = G0.length by omega]
    simp [X]

/-! ## several edits: blocks -/

/-- one edit seen from the strands: the original has `mid` where the corrupted strand has the
symbol `y`; both continue with the clean stretch `G`. -/
structure Blk where
  mid : List Char
  y : Char
  G : List Char

/-- the original strand after the leading clean stretch. -/
def tailO : List Blk → List Char
  | [] => []
  | b :: bs => b.mid ++ b.G ++ tailO bs

/-- the corrupted strand after the leading clean stretch. -/
def tailC : List Blk → List Char
  | [] => []
  | b :: bs => b.y :: (b.G ++ tailC bs)

/-- spacing of the blocks behind a leading clean stretch of length `g`: at least `k` clean symbols
before every edit, `2k - 1` after it, and still `k` before the next edit when the first `2k - 1`
symbols after an edit are discounted. -/
def Chain (k : Nat) : Nat → List Blk → Prop
  | _, [] => True
  | g, b :: bs => k ≤ g ∧ MidKind true b.y b.mid ∧ (nucIdx b.y).isSome = true ∧
      2 * k - 1 ≤ b.G.length ∧ Chain k (b.G.length - (2 * k - 1)) bs

theorem Chain.mono {k g g' : Nat} {bs : List Blk} (h : Chain k g bs) (hg : g ≤ g') : Chain k g' bs := by
  cases bs with
  | nil => trivial
  | cons b bs => exact ⟨Nat.le_trans h.1 hg, h.2⟩

/-- one detection of the final scan state: the split that follows it, its chunk and look-back
window, and the fragment that restores the original. -/
structure Item where
  A : List Char
  chunk : List Char
  marker : List Int
  F : List Char

/-- the fragment `F` is proposed by `pathMatching` at some look-back position of the detection
`(chunk, marker)`. -/
def Coll (a : Acc) (k : Nat) (dna chunk : List Char) (marker : List Int) (F : List Char) : Prop :=
  IsAcgt chunk ∧ k ≤ chunk.length ∧ chunk.length + 1 < dna.length ∧
    ∃ prev idx pm info, marker.reverse[idx]? = some prev ∧
      pathMatching a chunk prev (k - idx - 1) true = .ok pm ∧ info ∈ pm.1 ∧ info.fragment = F

/-- the final scan state restores `W` behind the current split `cur`. -/
def Good (a : Acc) (k : Nat) (dna cur : List Char) (tl ch : List (List Char)) (mk : List (List Int))
    (st' : Scan) (W : List Char) (n : Nat) : Prop :=
  ∃ (A0 : List Char) (items : List Item),
    st'.splits = (items.map (·.A)).reverse ++ (cur ++ A0) :: tl ∧
    st'.chunks = (items.map (·.chunk)).reverse ++ ch ∧
    st'.markers = (items.map (·.marker)).reverse ++ mk ∧
    W = A0 ++ (items.map fun it => it.F ++ it.A).flatten ∧
    (∀ it ∈ items, Coll a k dna it.chunk it.marker it.F) ∧ items.length = n

theorem take_cons_pred {α} (y : α) (S : List α) (k : Nat) (hk : 1 ≤ k) :
    (y :: S).take k = y :: S.take (k - 1) := by
  obtain ⟨j, rfl⟩ : ∃ j, k = j + 1 := ⟨k - 1, by omega⟩
  simp

/-- the scan from a synchronised state through the remaining edits: at most one detection per
edit, and when every edit is detected the final state restores the original. -/
theorem multi_scan (k : Nat) (s : Mask) (hs : s.size = 4 ^ k) (hk : 1 ≤ k) (dna : List Char)
    (fuel : Nat) : ∀ (bs : List Blk) (G0 pre : List Char) (u : Nat) (st st' : Scan) (cur : List Char)
      (tl : List (List Char)),
    dna = pre ++ G0 ++ tailC bs → st.loc = pre.length → st.v = (u : Int) →
    s.getD u false = true → isWalk (inducedAccessor k s) (u : Int) (G0 ++ tailO bs) = true →
    st.splits = cur :: tl → st.queue.length = dna.length → Chain k G0.length bs →
    scan (inducedAccessor k s) k dna fuel st = some st' →
    st'.detected ≤ st.detected + bs.length ∧
      (st'.detected = st.detected + bs.length →
        Good (inducedAccessor k s) k dna cur tl st.chunks st.markers st' (G0 ++ tailO bs) bs.length)
  | [], G0, pre, u, st, st', cur, tl, hdna, hloc, hv, hu, hw, hsp, hq, hch, hscan => by
    simp only [tailC, tailO, List.append_nil] at hdna hw ⊢
    have h := scan_mono _ k dna fuel st st' hscan G0.length
    rw [scan_walk _ k dna fuel G0 st (by rw [hv]; exact hw)
      ⟨[], by rw [hloc, hdna]; simp⟩] at h
    obtain ⟨g1, g2, g3, g4, g5, g6, g7⟩ := Scan.run_fields (inducedAccessor k s) G0 st
    have g8 := Scan.run_splits (inducedAccessor k s) G0 st (by rw [hsp]; simp)
    rw [scan_done _ k dna fuel _ (by rw [g1, hloc, hdna]; simp)] at h
    cases h
    refine ⟨by rw [g3]; simp, fun _ => ⟨G0, [], ?_, ?_, ?_, ?_, ?_, rfl⟩⟩
    · simp [g8, hsp]
    · simp [g4]
    · simp [g5]
    · simp
    · intro it hit; cases hit
  | b :: bs, G0, pre, u, st, st', cur, tl, hdna, hloc, hv, hu, hw, hsp, hq, hch, hscan => by
    obtain ⟨hkG, hkind, hy, hGlen, hch'⟩ := hch
    simp only [tailC, tailO] at hdna hw ⊢
    -- the original strand and its pieces
    have hwin : Windowed k s (G0 ++ (b.mid ++ b.G ++ tailO bs)) := Windowed.of_walk hs hu hw
    have hwinS : Windowed k s (b.G ++ tailO bs) := by
      have : G0 ++ (b.mid ++ b.G ++ tailO bs) = (G0 ++ b.mid) ++ (b.G ++ tailO bs) := by simp
      rw [this] at hwin; exact hwin.suffix
    have hacgtG0 : IsAcgt G0 := hwin.prefix.1
    have hacgtG : IsAcgt b.G := hwinS.prefix.1
    rw [isWalk_append, Bool.and_eq_true] at hw
    obtain ⟨hwG0, hwmid⟩ := hw
    rw [List.append_assoc] at hwmid
    have hdl : dna.length = pre.length + G0.length + 1 + b.G.length + (tailC bs).length := by
      rw [hdna]; simp; omega
    by_cases hT : isWalk (inducedAccessor k s) (walkEnd (inducedAccessor k s) (u : Int) G0)
        ((b.y :: (b.G ++ tailC bs)).take k) = true
    · -- the edit is not detected: the scan re-synchronises `k` symbols later
      have eT : (b.y :: (b.G ++ tailC bs)).take k = b.y :: b.G.take (k - 1) := by
        rw [take_cons_pred _ _ _ hk, List.take_append_of_le_length (by omega)]
      rw [eT] at hT
      have hX : isWalk (inducedAccessor k s) (u : Int) (G0 ++ b.y :: b.G.take (k - 1)) = true := by
        rw [isWalk_append, hwG0, hT]; rfl
      have hBlen : (b.y :: b.G.take (k - 1)).length = k := by simp; omega
      obtain ⟨e1, hret1⟩ := walk_induced k s hs _ u hu hX
      rw [vAfter_suffix k u G0 _ hBlen] at e1 hret1
      have h := scan_mono _ k dna fuel st st' hscan (G0 ++ b.y :: b.G.take (k - 1)).length
      rw [scan_walk _ k dna fuel _ st (by rw [hv]; exact hX)
        ⟨b.G.drop (k - 1) ++ tailC bs, by
          rw [hloc, hdna, List.append_assoc, List.drop_left]
          simp only [List.append_assoc, List.cons_append]
          rw [← List.append_assoc (b.G.take (k - 1)), List.take_append_drop]⟩] at h
      obtain ⟨g1, g2, g3, g4, g5, g6, g7⟩ := Scan.run_fields (inducedAccessor k s)
        (G0 ++ b.y :: b.G.take (k - 1)) st
      have g8 := Scan.run_splits (inducedAccessor k s) (G0 ++ b.y :: b.G.take (k - 1)) st
        (by rw [hsp]; simp)
      have hw1 : isWalk (inducedAccessor k s) ((kmerIdx (b.y :: b.G.take (k - 1)) : Nat) : Int)
          (b.G.drop (k - 1) ++ tailO bs) = true := by
        apply Windowed.walk2 hs hk _ _ hBlen hret1
        simp only [List.tail_cons]
        rw [← List.append_assoc, List.take_append_drop]; exact hwinS
      have ih := multi_scan k s hs hk dna fuel bs (b.G.drop (k - 1))
        (pre ++ G0 ++ b.y :: b.G.take (k - 1)) _ _ st' _ _
        (by
          rw [hdna]; simp only [List.append_assoc, List.cons_append]
          rw [← List.append_assoc (b.G.take (k - 1)), List.take_append_drop])
        (by rw [g1, hloc]; simp <;> omega) (by rw [g2, hv, e1]) hret1 hw1 g8 (by rw [g7, hq])
        (hch'.mono (by simp; omega)) h
      rw [g3] at ih
      exact ⟨by simp; omega, fun h' => by simp at h'; omega⟩
    · -- the edit is detected at `r < k` symbols past the edited position
      have hT' : isWalk (inducedAccessor k s) (walkEnd (inducedAccessor k s) (u : Int) G0)
          ((b.y :: (b.G ++ tailC bs)).take k) = false := by simpa using hT
      obtain ⟨r, hr, hb1, hb2⟩ := isWalk_false_split _ _ _ hT'
      have hrk : r < k := by simp at hr; omega
      rw [List.take_take, Nat.min_eq_left (by omega)] at hb1 hb2
      rw [List.getElem_take] at hb2
      have hX : isWalk (inducedAccessor k s) st.v (G0 ++ (b.y :: (b.G ++ tailC bs)).take r) = true := by
        rw [hv, isWalk_append, hwG0, hb1]; rfl
      rw [← walkEnd_append, ← hv] at hb2
      have hSk : r + k ≤ (b.G ++ tailC bs).length := by simp; omega
      have hget : (b.G ++ tailC bs)[r + k - 1]'(by omega) = b.G[r + k - 1]'(by omega) :=
        List.getElem_append_left (by omega)
      obtain ⟨st2, marker, hsc, d1, d2, d3, d4, d5, d6, d7, d8⟩ :=
        step_detect (inducedAccessor k s) k dna st pre G0 (b.G ++ tailC bs) b.y r cur tl hdna hloc hsp hq
          hk hrk hkG hSk (by rw [hget]; exact hacgtG _ (List.getElem_mem _)) hX hb2
      have e1 : (b.G ++ tailC bs).take (r + k) = b.G.take (r + k) :=
        List.take_append_of_le_length (by omega)
      have e2 : ((b.G ++ tailC bs).drop r).take k = (b.G.drop r).take k := by
        rw [List.drop_append_of_le_length (by omega), List.take_append_of_le_length (by simp; omega)]
      have e3 : (b.G ++ tailC bs).take (r + k - 1) = b.G.take (r + k - 1) :=
        List.take_append_of_le_length (by omega)
      rw [e1] at d2
      rw [e2] at d3
      rw [hget] at d4
      rw [e3] at d5
      have h := scan_mono _ k dna fuel st st' hscan (1 + (G0.length + r))
      rw [hsc fuel] at h
      -- the resume vertex and the walk behind it
      have hBlen : ((b.G.drop r).take k).length = k := by simp; omega
      have hsplitG : b.G ++ tailO bs =
          b.G.take r ++ (b.G.drop r).take k ++ (b.G.drop (r + k) ++ tailO bs) := by
        rw [← List.append_assoc, List.append_assoc (b.G.take r), ← List.drop_drop,
          List.take_append_drop, List.take_append_drop]
      have hret2 := hwinS.2 _ _ _ hsplitG hBlen
      have hw2 := Windowed.walk hs hk _ _ _ _ hwinS hsplitG hBlen
      have ih := multi_scan k s hs hk dna fuel bs (b.G.drop (r + k))
        (pre ++ G0 ++ b.y :: b.G.take (r + k)) _ st2 st' _ _
        (by
          rw [hdna]; simp only [List.append_assoc, List.cons_append]
          rw [← List.append_assoc (b.G.take (r + k)), List.take_append_drop])
        d2 d3 hret2 hw2 d4 d8 (hch'.mono (by simp; omega)) h
      rw [d1] at ih
      refine ⟨by simp; omega, fun h' => ?_⟩
      obtain ⟨A0', items', i1, i2, i3, i4, i5, i6⟩ := ih.2 (by simp at h'; omega)
      -- the restoring record of this detection
      have hmidS' : isWalk (inducedAccessor k s) (walkEnd (inducedAccessor k s) (u : Int) G0)
          (b.mid ++ b.G.take (r + k - 1)) = true := by
        apply isWalk_prefix _ _ (b.G.drop (r + k - 1) ++ tailO bs)
        rw [List.append_assoc, ← List.append_assoc (b.G.take (r + k - 1)), List.take_append_drop]
        exact hwmid
      obtain ⟨pm, info, hpm, hinfo, hfrag⟩ := restore_record (inducedAccessor k s) true
        (walkEnd (inducedAccessor k s) (u : Int) G0) (G0.drop (G0.length + r + 1 - k))
        (b.G.take (r + k - 1)) b.y b.mid hkind hmidS'
      have hPd : (G0.drop (G0.length + r + 1 - k)).length = k - r - 1 := by simp; omega
      rw [hPd] at hpm
      have hclen : (G0.drop (G0.length + r + 1 - k) ++ b.y :: b.G.take (r + k - 1)).length =
          2 * k - 1 := by simp; omega
      rw [hv] at d7
      refine ⟨G0.take (G0.length + r + 1 - k),
        ⟨b.G[r + k - 1]'(by omega) :: A0', G0.drop (G0.length + r + 1 - k) ++ b.y :: b.G.take (r + k - 1),
          marker, G0.drop (G0.length + r + 1 - k) ++ b.mid ++ b.G.take (r + k - 1)⟩ :: items',
        ?_, ?_, ?_, ?_, ?_, by simp [i6]⟩
      · rw [i1]; simp
      · rw [i2, d5]; simp
      · rw [i3, d6]; simp
      · have key : b.G.drop (r + k - 1) ++ tailO bs =
            b.G[r + k - 1]'(by omega) :: (A0' ++ (items'.map fun it => it.F ++ it.A).flatten) := by
          rw [List.drop_eq_getElem_cons (by omega), show r + k - 1 + 1 = r + k by omega,
            List.cons_append, i4]
        simp only [List.map_cons, List.flatten_cons, List.append_assoc, List.cons_append]
        rw [← key, ← List.append_assoc (b.G.take _), List.take_append_drop,
          ← List.append_assoc (G0.take _), List.take_append_drop]
      · intro it hit
        rcases List.mem_cons.mp hit with rfl | hit
        · refine ⟨IsAcgt.append.mpr ⟨hacgtG0.drop _, IsAcgt.cons.mpr ⟨hy, hacgtG.take _⟩⟩,
            by rw [hclen]; omega, by rw [hclen, hdl]; omega, _, r, pm, info, d7, hpm, hinfo, hfrag⟩
        · exact i5 it hit

/-! ## several edits: fragments, product and candidates -/

theorem Coll.mem {a : Acc} {k : Nat} {dna chunk : List Char} {marker : List Int} {F : List Char}
    (hk : 1 ≤ k) (h : Coll a k dna chunk marker F) {r : List (List Char) × Nat}
    (hr : collectFragments a k dna chunk marker true = .ok r) : F ∈ r.1 := by
  obtain ⟨h1, h2, h3, prev, idx, pm, info, hm, hpm, hinfo, rfl⟩ := h
  obtain ⟨r', hr', hmem, -⟩ := collectFragments_mem a k dna chunk marker true hk h1 h2 h3 prev idx hm
    pm info hpm hinfo
  rw [hr] at hr'; cases hr'; exact hmem

/-- the fragment fold over the detections described by `items`. -/
theorem fragFold_items (a : Acc) (k : Nat) (dna : List Char) (hk : 1 ≤ k) :
    ∀ (items : List Item) (acc fv : List (List (List Char)) × Nat),
      (items.map fun it => (it.chunk, it.marker)).foldlM (fragStep a k dna true) acc = .ok fv →
      (∀ it ∈ items, Coll a k dna it.chunk it.marker it.F) →
      ∃ sets, fv.1 = acc.1 ++ sets ∧ sets.length = items.length ∧
        items.map (·.F) ∈ product sets
  | [], acc, fv, h, _ => by
    simp only [List.map_nil, List.foldlM_nil, pure, Except.pure, Except.ok.injEq] at h
    subst h
    exact ⟨[], by simp, rfl, by simp [product]⟩
  | it :: items, acc, fv, h, hc => by
    rw [List.map_cons, List.foldlM_cons] at h
    obtain ⟨acc1, h1, h⟩ := R.bind_eq_ok _ _ _ h
    obtain ⟨r, hr, e⟩ := R.bind_ok _ _ _ h1
    simp only [Except.ok.injEq] at e
    subst e
    have hF := (hc it List.mem_cons_self).mem hk hr
    obtain ⟨sets, e1, e2, e3⟩ := fragFold_items a k dna hk items _ fv h
      (fun it' h' => hc it' (List.mem_cons_of_mem _ h'))
    refine ⟨r.1 :: sets, by rw [e1]; simp, by simp [e2], ?_⟩
    simp only [List.map_cons, product, List.mem_flatMap, List.mem_map]
    exact ⟨it.F, hF, _, e3, rfl⟩

/-- recombining the splits and the restoring fragments. -/
theorem candOf_items : ∀ (items : List Item) (s0 acc : List Char),
    ((s0 :: items.map (·.A)).zip (items.map (·.F))).foldl
        (fun s (p : List Char × List Char) => s ++ p.1 ++ p.2) acc ++
      (s0 :: items.map (·.A)).getLastD [] =
    acc ++ s0 ++ (items.map fun it => it.F ++ it.A).flatten
  | [], s0, acc => by simp
  | it :: items, s0, acc => by
    simp only [List.map_cons, List.zip_cons_cons, List.foldl_cons, List.flatten_cons]
    have := candOf_items items it.A (acc ++ s0 ++ it.F)
    rw [List.getLastD_cons] at this ⊢
    rw [List.getLastD_cons]
    rw [this]; simp

/-- inversion of `repairTail`: the fallback reports no detection, the product path returns every
candidate that passes the check. -/
theorem repairTail_cases {dna : List Char} {chk : Option (List Char)} {heap : Nat} {st : Scan}
    {fv : List (List (List Char)) × Nat} {res : List (List Char) × RepairStats}
    (h : repairTail dna chk heap st fv = .ok res) :
    (res.2.detected = 0 ∧ (fragCount fv.1 = 0 ∨ fragCount fv.1 > heap)) ∨
    (res.2.detected = st.detected ∧ ∀ frs ∈ product fv.1,
      vtMatches (candOf st.splits.reverse frs) chk = .ok true → candOf st.splits.reverse frs ∈ res.1) := by
  by_cases hc : fragCount fv.1 = 0 ∨ fragCount fv.1 > heap
  · left
    unfold repairTail at h
    rw [if_pos hc] at h
    obtain ⟨okc, -, h⟩ := R.bind_ok _ _ _ h
    refine ⟨?_, hc⟩
    cases okc <;> simp [pure, Except.pure] at h <;> subst h <;> rfl
  · right
    have h1 : 1 ≤ fragCount fv.1 := by omega
    have h2 : fragCount fv.1 ≤ heap := by omega
    refine ⟨?_, fun frs hfrs hv => (repairTail_mem dna chk heap st fv res h h1 h2 frs hfrs hv).2⟩
    unfold repairTail at h
    rw [if_neg hc] at h
    obtain ⟨checked, -, h⟩ := R.bind_ok _ _ _ h
    simp only [pure, Except.pure, Except.ok.injEq] at h
    subst h; rfl

theorem zip_map_self {α β γ} (f : α → β) (g : α → γ) : ∀ (l : List α),
    (l.map f).zip (l.map g) = l.map fun x => (f x, g x)
  | [] => rfl
  | x :: l => by simp [zip_map_self f g l]

/-- the multi-edit theorem in block form. -/
theorem multi_core (k : Nat) (s : Mask) (v : Nat) (G0 : List Char) (bs : List Blk)
    (chk : Option (List Char)) (heap : Nat) (hk : 1 ≤ k) (hs : s.size = 4 ^ k)
    (hv : s.getD v false = true)
    (hw : isWalk (inducedAccessor k s) (v : Int) (G0 ++ tailO bs) = true)
    (hch : Chain k G0.length bs) (hchk : vtMatches (G0 ++ tailO bs) chk = .ok true)
    (hheap : 1 ≤ heap) (cands : List (List Char)) (stats : RepairStats)
    (hres : repairDna (inducedAccessor k s) (G0 ++ tailC bs) v k chk true heap = .ok (cands, stats))
    (hdet : stats.detected = bs.length) : (G0 ++ tailO bs) ∈ cands := by
  obtain ⟨st', fv, hscan, hfold, htail⟩ := repairDna_ok_inv hres
  obtain ⟨hle, hgood⟩ := multi_scan k s hs hk (G0 ++ tailC bs) _ bs G0 [] v
    (Scan.init (G0 ++ tailC bs) v) st' [] [] (by simp) rfl rfl hv hw rfl (by simp [Scan.init]) hch hscan
  have hd0 : (Scan.init (G0 ++ tailC bs) (v : Int)).detected = 0 := rfl
  rw [hd0, Nat.zero_add] at hle hgood
  -- every edit was detected
  have hcases := repairTail_cases htail
  have hst' : st'.detected = bs.length := by
    rcases hcases with ⟨h0, -⟩ | ⟨h1, -⟩
    · simp only at h0; omega
    · simp only at h1; omega
  obtain ⟨A0, items, i1, i2, i3, i4, i5, i6⟩ := hgood hst'
  simp only [Scan.init, List.append_nil, List.nil_append] at i1 i2 i3
  -- the fragment sets
  rw [fragFold_eq, i2, i3, List.reverse_reverse, List.reverse_reverse, zip_map_self] at hfold
  obtain ⟨sets, e1, e2, e3⟩ := fragFold_items _ k _ hk items _ fv hfold i5
  simp only [List.nil_append] at e1
  rcases hcases with ⟨h0, hc⟩ | ⟨-, hmem⟩
  · exfalso
    simp only at h0
    have : sets = [] := List.eq_nil_of_length_eq_zero (by omega)
    rw [e1, this] at hc
    simp [fragCount] at hc
    omega
  · have hcand : candOf st'.splits.reverse (items.map (·.F)) = G0 ++ tailO bs := by
      rw [i1, List.reverse_append, List.reverse_reverse]
      simp only [List.reverse_cons, List.reverse_nil, List.nil_append, List.singleton_append]
      unfold candOf
      rw [candOf_items items A0 [], i4]; simp
    have := hmem (items.map (·.F)) (by rw [e1]; exact e3) (by rw [hcand]; exact hchk)
    rw [hcand] at this; exact this

/-! ## several edits: from positions to blocks -/

theorem Chain.cons {k p q : Nat} {mid : List Char} {y : Char} {G : List Char} {bs : List Blk}
    (hp : k ≤ p) (hkind : MidKind true y mid) (hy : (nucIdx y).isSome = true) (hq : q ≤ p + 2)
    (h1 : p + 2 * k + 1 ≤ G.length) (h2 : bs ≠ [] → p + 3 * k + 2 ≤ G.length)
    (h : Chain k G.length bs) : Chain k p (⟨mid, y, G.drop q⟩ :: bs) := by
  refine ⟨hp, hkind, hy, by simp; omega, ?_⟩
  cases bs with
  | nil => trivial
  | cons b bs =>
    have := h2 (by simp)
    exact ⟨by simp; omega, h.2⟩

theorem set_block (G R : List Char) (p : Nat) (x : Char) (hp : p < G.length) :
    (G ++ R).set p x = G.take p ++ x :: (G.drop (p + 1) ++ R) := by
  rw [List.set_append_left _ _ hp, List.set_eq_take_append_cons_drop, if_pos hp]
  simp

theorem ins_block (G R : List Char) (p : Nat) (x : Char) (hp : p ≤ G.length) :
    (G ++ R).take p ++ [x] ++ (G ++ R).drop p = G.take p ++ x :: (G.drop p ++ R) := by
  rw [List.take_append_of_le_length hp, List.drop_append_of_le_length hp]
  simp

theorem del_block (G R : List Char) (p : Nat) (hp : p + 1 < G.length) :
    (G ++ R).eraseIdx p = G.take p ++ G[p + 1] :: (G.drop (p + 2) ++ R) := by
  rw [List.eraseIdx_append_of_lt_length (by omega), List.eraseIdx_eq_take_drop_succ,
    List.drop_eq_getElem_cons hp]
  simp only [List.append_assoc, List.cons_append]

theorem orig_block1 (G R : List Char) (p : Nat) (hp : p < G.length) :
    G ++ R = G.take p ++ ([G[p]] ++ G.drop (p + 1) ++ R) := by
  have : G.drop p = G[p] :: G.drop (p + 1) := List.drop_eq_getElem_cons hp
  conv => lhs; rw [← List.take_append_drop p G, this]
  simp only [List.append_assoc, List.cons_append, List.nil_append]

theorem orig_block2 (G R : List Char) (p : Nat) (hp : p + 1 < G.length) :
    G ++ R = G.take p ++ ([G[p], G[p + 1]] ++ G.drop (p + 2) ++ R) := by
  have e1 : G.drop p = G[p] :: G.drop (p + 1) := List.drop_eq_getElem_cons (by omega)
  have e2 : G.drop (p + 1) = G[p + 1] :: G.drop (p + 2) := List.drop_eq_getElem_cons hp
  conv => lhs; rw [← List.take_append_drop p G, e1, e2]
  simp only [List.append_assoc, List.cons_append, List.nil_append]

end Dsw.RepairEdit
