import DswModel.Model.Spiderweb
import DswModel.Lemmas.Defs
import DswModel.Lemmas.DeBruijn
import DswModel.Lemmas.Vt
import DswModel.Lemmas.Repair
/-! Helper lemmas for C08 (repair of interior edits on vertex-induced graphs). -/
namespace Dsw

end Dsw
