import DswModel.Model.Spiderweb
import DswModel.Lemmas.Defs
/-! Helper lemmas for the trimming loop of `connect_coding_graph` (C03, thresholds ≥ 2 and phase 1). -/
namespace Dsw

end Dsw
