import DswModel.Model.Spiderweb
import DswModel.Lemmas.Defs
/-! Helper lemmas for the trimming loop of `connect_coding_graph` (C03, thresholds ≥ 2 and phase 1).

`Mask.Le`, `succCount` and `TrimClosed` are definitionally the `Mask.Sub`, `succIn` and `Closed` of
`Props/C03.lean` (which imports this file).

Everything lives in the namespace `Dsw.Trim` (use `Trim.name` from `Dsw`, or `open Trim`), and the
general-purpose facts that other lemma files also prove under the same name carry the suffix
`_trim` (`inducedAccessor_ent_trim`, `inducedAccessor_size_trim`, `Acc.row_natCast_trim`,
`obtainLatters_length_trim`, `mem_obtainLatters_trim`, `obtainLatters_getElem?_trim`), so this file
can be imported together with `Lemmas/DeBruijn.lean` and `Lemmas/Discover.lean`. -/
namespace Dsw.Trim

/-! ### counting `true`s in Boolean lists -/

theorem filter_length_mono {α} (p q : α → Bool) (hpq : ∀ x, p x = true → q x = true) :
    ∀ l : List α, (l.filter p).length ≤ (l.filter q).length := by
  intro l
  induction l with
  | nil => simp
  | cons x xs ih =>
    simp only [List.filter_cons]
    cases hp : p x
    · cases hq : q x <;> simp <;> omega
    · simp [hpq x hp]; omega

theorem boolCount_le_of_le : ∀ {a b : List Bool}, a.length = b.length →
    (∀ i, a.getD i false = true → b.getD i false = true) →
    (a.filter id).length ≤ (b.filter id).length := by
  intro a
  induction a with
  | nil => intro b _ _; simp
  | cons x xs ih =>
    intro b hl h
    cases b with
    | nil => simp at hl
    | cons y ys =>
      have hi := ih (b := ys) (by simpa using hl) (fun i hi => by simpa using h (i+1) (by simpa using hi))
      have h0 := h 0
      cases x <;> cases y
      · simpa using hi
      · simp; omega
      · simp at h0
      · simpa using hi

theorem boolList_eq_of_le_of_count : ∀ {a b : List Bool}, a.length = b.length →
    (∀ i, a.getD i false = true → b.getD i false = true) →
    (b.filter id).length = (a.filter id).length → a = b := by
  intro a
  induction a with
  | nil => intro b hl _ _; cases b <;> simp_all
  | cons x xs ih =>
    intro b hl h hc
    cases b with
    | nil => simp at hl
    | cons y ys =>
      have hl' : xs.length = ys.length := by simpa using hl
      have h' : ∀ i, xs.getD i false = true → ys.getD i false = true :=
        fun i hi => by simpa using h (i+1) (by simpa using hi)
      have h0 := h 0
      have hcl := boolCount_le_of_le hl' h'
      cases x <;> cases y
      · simp at hc ⊢; exact ih hl' h' hc
      · simp at hc; omega
      · simp at h0
      · simp at hc ⊢; exact ih hl' h' hc

/-! ### masks -/

/-- pointwise inclusion of masks (definitionally `Mask.Sub` of the property file). -/
def Mask.Le (a b : Mask) : Prop := ∀ v, a.getD v false = true → b.getD v false = true

theorem Mask.Le.refl (a : Mask) : Mask.Le a a := fun _ h => h
theorem Mask.Le.trans {a b c : Mask} (h1 : Mask.Le a b) (h2 : Mask.Le b c) : Mask.Le a c :=
  fun v h => h2 v (h1 v h)

theorem Mask.getD_toList (m : Mask) (i : Nat) : m.toList.getD i false = m.getD i false := by
  simp [List.getD_eq_getElem?_getD, Array.getD_eq_getD_getElem?]

theorem Mask.lt_size_of_getD {m : Mask} {v : Nat} (h : m.getD v false = true) : v < m.size := by
  by_cases hv : v < m.size
  · exact hv
  · simp [Array.getD_eq_getD_getElem?, Array.getElem?_eq_none (Nat.le_of_not_lt hv)] at h

theorem Mask.count_le_size (m : Mask) : m.count ≤ m.size := by
  unfold Mask.count
  simpa using List.length_filter_le id m.toList

theorem Mask.count_le_of_le {a b : Mask} (hs : a.size = b.size) (h : Mask.Le a b) :
    a.count ≤ b.count := by
  unfold Mask.count
  exact boolCount_le_of_le (by simpa using hs) (fun i hi => by
    rw [Mask.getD_toList] at hi ⊢; exact h i hi)

theorem Mask.eq_of_le_of_count {a b : Mask} (hs : a.size = b.size) (h : Mask.Le a b)
    (hc : b.count = a.count) : a = b := by
  have : a.toList = b.toList := boolList_eq_of_le_of_count (by simpa using hs) (fun i hi => by
    rw [Mask.getD_toList] at hi ⊢; exact h i hi) hc
  cases a; cases b; simp_all

theorem Mask.exists_of_count_pos {m : Mask} (h : 1 ≤ m.count) :
    ∃ v, v < m.size ∧ m.getD v false = true := by
  unfold Mask.count at h
  have : (m.toList.filter id) ≠ [] := by
    intro h0; rw [h0] at h; simp at h
  obtain ⟨b, hb⟩ := List.exists_mem_of_ne_nil _ this
  rw [List.mem_filter] at hb
  obtain ⟨hb1, hb2⟩ := hb
  obtain ⟨i, hi, rfl⟩ := List.getElem_of_mem hb1
  refine ⟨i, by simpa using hi, ?_⟩
  simp at hi
  simpa [Array.getD_eq_getD_getElem?, hi] using hb2

theorem Mask.count_zero_of_forall {m : Mask} (h : ∀ v, m.getD v false ≠ true) : m.count = 0 := by
  by_cases hc : 1 ≤ m.count
  · obtain ⟨v, _, hv⟩ := Mask.exists_of_count_pos hc
    exact absurd hv (h v)
  · omega

theorem Mask.mem_indices {m : Mask} {v : Nat} : v ∈ m.indices ↔ m.getD v false = true := by
  unfold Mask.indices
  simp only [List.mem_filter, List.mem_range]
  exact ⟨fun h => h.2, fun h => ⟨Mask.lt_size_of_getD h, h⟩⟩

theorem Mask.indices_ne_nil_of_count_pos {m : Mask} (h : 1 ≤ m.count) : m.indices ≠ [] := by
  obtain ⟨v, _, hv⟩ := Mask.exists_of_count_pos h
  exact List.ne_nil_of_mem (Mask.mem_indices.2 hv)

theorem Mask.count_pos_of_getD {m : Mask} {v : Nat} (h : m.getD v false = true) : 1 ≤ m.count := by
  have hv := Mask.lt_size_of_getD h
  unfold Mask.count
  have hmem : true ∈ m.toList.filter id := by
    rw [List.mem_filter]
    refine ⟨?_, rfl⟩
    have h' : m[v] = true := by simpa [Array.getD_eq_getD_getElem?, hv] using h
    rw [← h']
    simp
  exact List.length_pos_of_mem hmem


/-! ### one trimming round -/

/-- number of marked shift-successors (definitionally `succIn` of the property file). -/
def succCount (k : Nat) (s : Mask) (v : Nat) : Nat :=
  ((obtainLatters k v).filter fun w => s.getD w false).length

/-- every marked vertex has at least `t` marked successors (definitionally `Closed`). -/
def TrimClosed (k t : Nat) (s : Mask) : Prop := ∀ v, s.getD v false = true → t ≤ succCount k s v

theorem succCount_mono {k : Nat} {a b : Mask} (h : Mask.Le a b) (v : Nat) :
    succCount k a v ≤ succCount k b v :=
  filter_length_mono _ _ (fun w hw => h w hw) _

theorem trimStep_size (k t : Nat) (m : Mask) : (trimStep k t m).size = 4 ^ k := by
  simp [trimStep]

theorem trimStep_getD (k t : Nat) (m : Mask) (v : Nat) :
    (trimStep k t m).getD v false =
      (decide (v < 4 ^ k) && (m.getD v false && decide (t ≤ succCount k m v))) := by
  unfold trimStep succCount
  by_cases hv : v < 4 ^ k
  · simp [Array.getD_eq_getD_getElem?, hv]
  · simp [Array.getD_eq_getD_getElem?, hv]

theorem trimStep_le (k t : Nat) (m : Mask) : Mask.Le (trimStep k t m) m := by
  intro v h
  rw [trimStep_getD] at h
  simp only [Bool.and_eq_true, decide_eq_true_eq] at h
  exact h.2.1

theorem trimStep_mono {k t : Nat} {a b : Mask} (h : Mask.Le a b) :
    Mask.Le (trimStep k t a) (trimStep k t b) := by
  intro v hv
  rw [trimStep_getD] at hv ⊢
  simp only [Bool.and_eq_true, decide_eq_true_eq] at hv ⊢
  exact ⟨hv.1, h v hv.2.1, Nat.le_trans hv.2.2 (succCount_mono h v)⟩

/-- a closed subset of `m` survives a trimming round. -/
theorem trimStep_closed_le {k t : Nat} {c m : Mask} (hm : m.size = 4 ^ k) (hcm : Mask.Le c m)
    (hc : TrimClosed k t c) : Mask.Le c (trimStep k t m) := by
  intro v hv
  rw [trimStep_getD]
  have h1 := hcm v hv
  have h2 := Mask.lt_size_of_getD h1
  simp only [Bool.and_eq_true, decide_eq_true_eq]
  exact ⟨by omega, h1, Nat.le_trans (hc v hv) (succCount_mono hcm v)⟩

/-- a fixed point of the round is closed. -/
theorem closed_of_trimStep_eq {k t : Nat} {m : Mask} (h : trimStep k t m = m) :
    TrimClosed k t m := by
  intro v hv
  rw [← h, trimStep_getD] at hv
  simp only [Bool.and_eq_true, decide_eq_true_eq] at hv
  exact hv.2.2

/-! ### the loop -/

/-- the loop returns the greatest closed mask below its input, and that mask is not empty. -/
theorem trimLoop_ok (k t : Nat) : ∀ (f : Nat) (m s : Mask), m.size = 4 ^ k →
    trimLoop k t f m = .ok s →
      s.size = 4 ^ k ∧ Mask.Le s m ∧ TrimClosed k t s ∧
      (∀ c : Mask, Mask.Le c m → TrimClosed k t c → Mask.Le c s) ∧ 1 ≤ s.count := by
  intro f
  induction f with
  | zero => intro m s _ h; simp [trimLoop] at h
  | succ f ih =>
    intro m s hm h
    simp only [trimLoop] at h
    split at h
    · simp at h
    · rename_i hpos
      split at h
      · rename_i heq
        cases h
        have hfix : trimStep k t m = m :=
          Mask.eq_of_le_of_count (by rw [trimStep_size, hm]) (trimStep_le k t m) heq
        exact ⟨hm, Mask.Le.refl _, closed_of_trimStep_eq hfix, fun c hc _ => hc, by omega⟩
      · obtain ⟨h1, h2, h3, h4, h5⟩ := ih _ _ (trimStep_size k t m) h
        exact ⟨h1, h2.trans (trimStep_le k t m), h3,
          fun c hcm hc => h4 c (trimStep_closed_le hm hcm hc) hc, h5⟩

/-- with more fuel than marked vertices the loop can only fail with `ValueError`, and then no
closed subset of the input has a vertex. -/
theorem trimLoop_error (k t : Nat) : ∀ (f : Nat) (m : Mask) (e : PyErr), m.size = 4 ^ k →
    m.count < f → trimLoop k t f m = .error e →
      e = .valueError ∧
      ∀ c : Mask, Mask.Le c m → TrimClosed k t c → ∀ v, ¬ c.getD v false = true := by
  intro f
  induction f with
  | zero => intro m e _ h; omega
  | succ f ih =>
    intro m e hm hf h
    simp only [trimLoop] at h
    split at h
    · rename_i hzero
      cases h
      refine ⟨rfl, fun c hcm hc v hv => ?_⟩
      have h1 := trimStep_closed_le hm hcm hc v hv
      have h2 := Mask.count_pos_of_getD h1
      omega
    · split at h
      · simp at h
      · rename_i hne
        have hle := Mask.count_le_of_le (by rw [trimStep_size, hm]) (trimStep_le k t m)
        obtain ⟨h1, h2⟩ := ih _ e (trimStep_size k t m) (by omega) h
        exact ⟨h1, fun c hcm hc => h2 c (trimStep_closed_le hm hcm hc) hc⟩


/-- `trimLoop_ok`, first half: the result has size `4^k`, is a subset of the input and is closed. -/
theorem trimLoop_ok_closed {k t f : Nat} {m s : Mask} (hm : m.size = 4 ^ k)
    (h : trimLoop k t f m = .ok s) : s.size = 4 ^ k ∧ Mask.Le s m ∧ TrimClosed k t s :=
  have := trimLoop_ok k t f m s hm h
  ⟨this.1, this.2.1, this.2.2.1⟩

/-- `trimLoop_ok`, second half: every closed subset of the input is inside the result. -/
theorem trimLoop_ok_max {k t f : Nat} {m s : Mask} (hm : m.size = 4 ^ k)
    (h : trimLoop k t f m = .ok s) {c : Mask} (hcm : Mask.Le c m) (hc : TrimClosed k t c) :
    Mask.Le c s :=
  (trimLoop_ok k t f m s hm h).2.2.2.1 c hcm hc

/-- the result of the loop is not empty. -/
theorem trimLoop_ok_count_pos {k t f : Nat} {m s : Mask} (hm : m.size = 4 ^ k)
    (h : trimLoop k t f m = .ok s) : 1 ≤ s.count :=
  (trimLoop_ok k t f m s hm h).2.2.2.2

/-- `4^k + 1` rounds of fuel always suffice. -/
theorem trimLoop_ne_outOfFuel {k t : Nat} {m : Mask} (hm : m.size = 4 ^ k) :
    trimLoop k t (4 ^ k + 1) m ≠ .error .outOfFuel := by
  intro h
  have := Mask.count_le_size m
  have := (trimLoop_error k t _ m _ hm (by omega) h).1
  cases this

/-! ### reading the induced accessor -/

theorem inducedAccessor_size_trim (k : Nat) (s : Mask) : (inducedAccessor k s).size = 4 ^ k := by
  simp [inducedAccessor]

theorem obtainLatters_length_trim (k v : Nat) : (obtainLatters k v).length = 4 := by
  simp [obtainLatters]

theorem obtainLatters_getElem?_trim (k v j : Nat) (hj : j < 4) :
    (obtainLatters k v)[j]? = some ((v * 4 + j) % 4 ^ k) := by
  simp [obtainLatters, hj]

theorem mem_obtainLatters_trim {k v w : Nat} :
    w ∈ obtainLatters k v ↔ ∃ j, j < 4 ∧ w = (v * 4 + j) % 4 ^ k := by
  simp [obtainLatters, eq_comm]

/-- row `v` of the induced accessor. -/
theorem inducedAccessor_getD (k : Nat) (s : Mask) (v : Nat) (hv : v < 4 ^ k) :
    (inducedAccessor k s).getD v #[] =
      if s.getD v false then
        ((obtainLatters k v).map fun w => if s.getD w false then Int.ofNat w else -1).toArray
      else Array.replicate 4 (-1) := by
  simp [inducedAccessor, Array.getD_eq_getD_getElem?, hv]

theorem Acc.row_natCast_trim (a : Acc) (v : Nat) (hv : v < a.size) : a.row (v : Int) = a.getD v #[] := by
  unfold Acc.row
  have h1 : ¬ ((v : Int) < 0) := by omega
  have h2 : (0 : Int) ≤ v ∧ (v : Int) < (a.size : Int) := by omega
  simp [h1, h2]

/-- entry `(v, j)` of the induced accessor: the `j`-th shift-successor of `v` when both ends are
marked, `-1` otherwise. -/
theorem inducedAccessor_ent_trim (k : Nat) (s : Mask) (v j : Nat) (hv : v < 4 ^ k) (hj : j < 4) :
    (inducedAccessor k s).ent v j =
      if s.getD v false = true ∧ s.getD ((v * 4 + j) % 4 ^ k) false = true then
        (((v * 4 + j) % 4 ^ k : Nat) : Int) else -1 := by
  unfold Acc.ent
  rw [Acc.row_natCast_trim _ _ (by rw [inducedAccessor_size_trim]; exact hv), inducedAccessor_getD k s v hv]
  by_cases h1 : s.getD v false = true
  · rw [if_pos h1]
    simp only [Array.getD_eq_getD_getElem?, List.getElem?_toArray, List.getElem?_map,
      obtainLatters_getElem?_trim k v j hj, Option.map_some, Option.getD_some, h1, true_and]
    by_cases h2 : s[(v * 4 + j) % 4 ^ k]?.getD false = true
    · simp [h2]
    · simp [h2]
  · rw [if_neg h1]
    simp [Array.getD_eq_getD_getElem?, hj, h1]

/-- the induced accessor of any mask is an arc subset of the de Bruijn graph. -/
theorem inducedAccessor_wfdb (k : Nat) (s : Mask) : WFdB k (inducedAccessor k s) := by
  refine ⟨inducedAccessor_size_trim k s, fun v hv => ⟨?_, fun j hj => ?_⟩⟩
  · rw [inducedAccessor_getD k s v hv]
    split <;> simp [obtainLatters_length_trim]
  · rw [inducedAccessor_ent_trim k s v j hv hj]
    split <;> simp

/-- a row of the induced accessor has an arc iff the vertex is marked and has a marked successor. -/
theorem inducedAccessor_row_any (k : Nat) (s : Mask) (v : Nat) (hv : v < 4 ^ k) :
    (((inducedAccessor k s).getD v #[]).any fun e => e + 1 != 0) =
      (s.getD v false && decide (1 ≤ succCount k s v)) := by
  rw [inducedAccessor_getD k s v hv]
  by_cases h1 : s.getD v false = true
  · rw [if_pos h1, h1, Bool.true_and]
    rw [Bool.eq_iff_iff]
    simp only [List.any_toArray, List.any_map, List.any_eq_true, Function.comp, succCount]
    constructor
    · rintro ⟨w, hw, h⟩
      apply decide_eq_true
      have : s.getD w false = true := by
        by_cases h2 : s.getD w false = true
        · exact h2
        · simp [h2] at h
      exact List.length_pos_of_mem
        ((List.mem_filter (p := fun w => s.getD w false)).2 ⟨hw, this⟩)
    · intro h
      obtain ⟨w, hw⟩ := List.exists_mem_of_length_pos (of_decide_eq_true h)
      rw [List.mem_filter] at hw
      refine ⟨w, hw.1, ?_⟩
      rw [if_pos hw.2]
      simp
      omega
  · rw [if_neg h1]
    have h0 : s.getD v false = false := by simpa using h1
    rw [h0, Bool.false_and, show Array.replicate 4 (-1 : Int) = #[-1, -1, -1, -1] from rfl]
    simp

/-- on a closed mask (threshold ≥ 1) the vertices with arcs are exactly the marked ones. -/
theorem obtainVertices_inducedAccessor {k t : Nat} {s : Mask} (hs : s.size = 4 ^ k) (ht : 1 ≤ t)
    (hc : TrimClosed k t s) : obtainVertices (inducedAccessor k s) = s.indices := by
  unfold obtainVertices Mask.indices
  rw [inducedAccessor_size_trim, hs]
  apply List.filter_congr
  intro v hv
  rw [List.mem_range] at hv
  rw [inducedAccessor_row_any k s v hv]
  by_cases h1 : s.getD v false = true
  · have := hc v h1
    simp [h1]; omega
  · simp at h1; simp [h1]

/-- reading an accessor at an `Int` row index below its size: either the index denotes (after
Python's wrap-around of negative indices) a row `u`, the same for all accessors of that size, or
every read yields `-1`. -/
theorem Acc.ent_int_cases (n : Nat) (v : Int) (hv : v < n) :
    (∃ u : Nat, u < n ∧ ∀ a : Acc, a.size = n → ∀ j, a.ent v j = a.ent (u : Int) j) ∨
    (∀ a : Acc, a.size = n → ∀ j, a.ent v j = -1) := by
  by_cases h0 : v < 0
  · by_cases h1 : 0 ≤ v + n
    · refine Or.inl ⟨(v + n).toNat, by omega, fun a ha j => ?_⟩
      subst ha
      unfold Acc.ent
      rw [Acc.row_natCast_trim _ _ (by omega)]
      unfold Acc.row
      have h2 : 0 ≤ v + (a.size : Int) ∧ v + (a.size : Int) < (a.size : Int) := by omega
      simp only [h0, if_true, h2, and_self]
    · refine Or.inr fun a ha j => ?_
      subst ha
      unfold Acc.ent Acc.row
      have h2 : ¬ (0 ≤ v + (a.size : Int) ∧ v + (a.size : Int) < (a.size : Int)) := by omega
      simp [h0, h2]
  · refine Or.inl ⟨v.toNat, by omega, fun a ha j => ?_⟩
    have : ((v.toNat : Nat) : Int) = v := by omega
    rw [this]

/-- enlarging the mask keeps every arc of the induced accessor (`Nat` row index). -/
theorem inducedAccessor_ent_mono_nat {k : Nat} {s s' : Mask} (h : Mask.Le s s') (v j : Nat)
    (hv : v < 4 ^ k) (hj : j < 4) (hent : 0 ≤ (inducedAccessor k s).ent v j) :
    (inducedAccessor k s').ent v j = (inducedAccessor k s).ent v j := by
  rw [inducedAccessor_ent_trim k s v j hv hj] at hent ⊢
  rw [inducedAccessor_ent_trim k s' v j hv hj]
  split at hent
  · rename_i hs
    rw [if_pos ⟨h _ hs.1, h _ hs.2⟩, if_pos hs]
  · omega

/-- enlarging the mask keeps every arc of the induced accessor (Python row index, negative
indices wrap). -/
theorem inducedAccessor_ent_mono {k : Nat} {s s' : Mask} (h : Mask.Le s s') (v : Int) (j : Nat)
    (hv : v < (4 : Int) ^ k) (hj : j < 4) (hent : 0 ≤ (inducedAccessor k s).ent v j) :
    (inducedAccessor k s').ent v j = (inducedAccessor k s).ent v j := by
  have hv' : v < ((4 ^ k : Nat) : Int) := by
    rw [Int.natCast_pow]; exact hv
  rcases Acc.ent_int_cases (4 ^ k) v hv' with ⟨u, hu, hr⟩ | hr
  · rw [hr _ (inducedAccessor_size_trim k s)] at hent ⊢
    rw [hr _ (inducedAccessor_size_trim k s')]
    exact inducedAccessor_ent_mono_nat h u j hu hj hent
  · rw [hr _ (inducedAccessor_size_trim k s)] at hent
    omega

/-! ### `connect_coding_graph` for thresholds other than 1 -/

theorem connectCodingGraph_eq (k : Nat) (m : Mask) (t : Nat) (ht : t ≠ 1) :
    connectCodingGraph k m t =
      (trimLoop k t (4 ^ k + 1) m).map fun s => (s.indices, inducedAccessor k s) := by
  unfold connectCodingGraph
  cases trimLoop k t (4 ^ k + 1) m with
  | error e => rfl
  | ok s => simp [ht, Except.map, bind, Except.bind, pure, Except.pure]

end Dsw.Trim
