import DswModel.Model.Spiderweb
import DswModel.Lemmas.Defs
import DswModel.Lemmas.DeBruijn
/-! Helper lemmas for `find_vertices` / `connect_valid_graph` (C11). -/
namespace Dsw

theorem Mask.count_eq_zero_iff_disc (m : Mask) :
    m.count = 0 ↔ ∀ i, i < m.size → m.getD i false = false := by
  unfold Mask.count
  rw [List.length_eq_zero_iff, List.filter_eq_nil_iff]
  constructor
  · intro h i hi
    have := h (m[i]) (by simp)
    simpa [Array.getD, hi] using this
  · intro h b hb
    rw [Array.mem_toList_iff, Array.mem_iff_getElem] at hb
    obtain ⟨i, hi, rfl⟩ := hb
    have := h i hi
    simpa [Array.getD, hi] using this

theorem Mask.count_pos_iff_disc (m : Mask) :
    0 < m.count ↔ ∃ i, i < m.size ∧ m.getD i false = true := by
  rw [Nat.pos_iff_ne_zero, Ne, Mask.count_eq_zero_iff_disc]
  constructor
  · intro h
    apply Classical.byContradiction
    intro h'
    apply h
    intro i hi
    cases hb : m.getD i false with
    | false => rfl
    | true => exact absurd ⟨i, hi, hb⟩ h'
  · rintro ⟨i, hi, hb⟩ h
    rw [h i hi] at hb
    cases hb

/-- the mask computed by `find_vertices`. -/
def filterMask (k : Nat) (P : List Char → Bool) : Mask :=
  (Array.range (4 ^ k)).map fun i => P (numberToDnaInt i k)

theorem filterMask_size (k : Nat) (P : List Char → Bool) : (filterMask k P).size = 4 ^ k := by
  simp [filterMask]

theorem filterMask_getD (k : Nat) (P : List Char → Bool) (i : Nat) (hi : i < 4 ^ k) :
    (filterMask k P).getD i false = P (kmerOf k i) := by
  unfold filterMask kmerOf
  exact getD_range_map _ _ _ _ hi

theorem findVertices_eq (k : Nat) (P : List Char → Bool) :
    findVertices k P =
      if (filterMask k P).count = 0 then .error .valueError else .ok (filterMask k P) := rfl

/-- column of the `j`-th successor. -/
theorem shift_column_disc (k u j : Nat) (hk : 1 ≤ k) (hj : j < 4) : ((u * 4 + j) % 4 ^ k) % 4 = j := by
  obtain ⟨k', rfl⟩ : ∃ k', k = k' + 1 := ⟨k - 1, by omega⟩
  rw [four_pow_succ, shift_mod _ _ _ hj]
  omega

theorem inducedAccessor_size_disc (k : Nat) (m : Mask) : (inducedAccessor k m).size = 4 ^ k := by
  simp [inducedAccessor]

theorem inducedAccessor_ent_disc (k : Nat) (m : Mask) (u j : Nat) (hu : u < 4 ^ k) (hj : j < 4) :
    (inducedAccessor k m).ent (u : Int) j =
      if m.getD u false = true ∧ m.getD ((u * 4 + j) % 4 ^ k) false = true
      then (((u * 4 + j) % 4 ^ k : Nat) : Int) else -1 := by
  unfold inducedAccessor
  rw [Acc.ent_range_map _ _ _ _ hu]
  have hj' : j < (obtainLatters k u).length := by rw [obtainLatters_length]; exact hj
  by_cases h1 : m.getD u false = true
  · rw [if_pos h1, getD_map_toArray _ _ _ _ hj', obtainLatters_getElem]
    by_cases h2 : m.getD ((u * 4 + j) % 4 ^ k) false = true
    · rw [if_pos h2, if_pos ⟨h1, h2⟩]; rfl
    · rw [if_neg h2, if_neg (fun h => h2 h.2)]
  · rw [if_neg h1, if_neg (fun h => h1 h.1)]
    simp [Array.getD, hj]

end Dsw
