import DswModel.Lemmas.PowerF
/-!
# Helper lemmas for C17d: the loop of the double-precision power iteration keeps its values in `(0, 4]`
-/
namespace Dsw.PowerF
open Dsw.FloatErr Dsw.PowerStopF

/-- the double lies in `(0, 4]`. -/
def Pos4 (r : Dbl) : Prop := 0 < r.num ∧ r.num ≤ 4 * r.den ∧ 0 < r.den

theorem pos4_one : Pos4 ⟨1, 1⟩ := ⟨by decide, by decide, by decide⟩

theorem clamp_pos4 (tol ev : Dbl) (htol : 0 ≤ tol.num) (hev : Le 4 ev) : Pos4 (clampEvF tol ev) := by
  unfold clampEvF
  split
  · rename_i h
    unfold Dbl.lt at h
    rw [decide_eq_true_iff] at h
    refine ⟨?_, hev.2.2, hev.1⟩
    have h1 : 0 ≤ tol.num * (ev.den : Int) := Int.mul_nonneg htol (by omega)
    by_contra hc
    have h2 : ev.num * (tol.den : Int) ≤ 0 := Int.mul_nonpos_of_nonpos_of_nonneg (by omega) (by omega)
    omega
  · exact pos4_one

/-! ## the median -/

theorem list_getD_prop (P : Dbl → Prop) (l : List Dbl) (i : Nat) (h0 : P Dbl.zero) (h : ∀ t ∈ l, P t) :
    P (l.getD i Dbl.zero) := by
  by_cases hi : i < l.length
  · simp only [List.getD_eq_getElem?_getD, List.getElem?_eq_getElem hi, Option.getD_some]
    exact h _ (List.getElem_mem hi)
  · simp only [List.getD_eq_getElem?_getD, List.getElem?_eq_none (Nat.le_of_not_lt hi), Option.getD_none]
    exact h0

theorem median_le4 (l : List Dbl) (hl : ∀ t ∈ l, Le 4 t) (m : Dbl) (h : medianF l = some m) : Le 4 m := by
  unfold medianF at h
  have hs : ∀ t ∈ isort (fun x y => Dbl.le x y) l, Le 4 t := fun t ht => hl t ((Power.mem_isort' _ _ _).1 ht)
  have h0 : Le 4 Dbl.zero := le_zero 4 (by omega)
  simp only at h
  split at h
  · cases h
    exact list_getD_prop (Le 4) _ _ h0 hs
  · have h1 := list_getD_prop (Le 4) _ ((isort (fun x y => Dbl.le x y) l).length / 2 - 1) h0 hs
    have h2 := list_getD_prop (Le 4) _ ((isort (fun x y => Dbl.le x y) l).length / 2) h0 hs
    obtain ⟨t, ht, htl⟩ := add_le 4 4 _ _ h1 h2 (by omega) (by omega) (by norm_num)
    rw [ht] at h
    obtain ⟨r, hr, hrl⟩ := div_two 4 (by omega) (by norm_num) t (by simpa using htl)
    simp only [Option.bind_some] at h
    rw [hr] at h
    cases h
    exact hrl

/-! ## the loop, unfolded -/

/-- `relative_error < tol` (an infinite quotient is not below `tol`). -/
def relLtF (tol ev le : Dbl) : Bool :=
  if Dbl.lt Dbl.zero le then
    match ((Dbl.sub ev le).map Dbl.abs).bind fun d => Dbl.div d le with
    | some rel => Dbl.lt rel tol
    | none => false
  else Dbl.lt Dbl.zero tol

def res1F (tol : Dbl) (relLt : Bool) (md ev : Dbl) : List Dbl :=
  if relLt ∧ Dbl.lt md tol then [clampEvF tol ev] else []

def res2F (tol : Dbl) (maxIter : Nat) (queue : List Dbl) : Option (List Dbl) :=
  if queue.length > maxIter then (medianF queue).map fun m => [clampEvF tol m] else some []

theorem capLoopF_none (a : Acc) (tol : Dbl) (maxIter f : Nat) (last z : VecF) (ev : Dbl) (queue record : List Dbl)
    (hstep : capStepF a last = some (z, ev)) :
    capLoopF a tol maxIter (f + 1) last none queue record =
      capLoopF a tol maxIter f z (some ev) queue (record ++ [clampEvF tol ev]) := by
  rw [capLoopF]
  simp only [hstep]

theorem capLoopF_some (a : Acc) (tol : Dbl) (maxIter f : Nat) (last z : VecF) (ev le : Dbl) (queue record : List Dbl)
    (hstep : capStepF a last = some (z, ev)) :
    capLoopF a tol maxIter (f + 1) last (some le) queue record =
      match maxDiffF a.size z last with
      | some md =>
        (match res2F tol maxIter (queue ++ [ev]) with
         | none => none
         | some res2 =>
           if res1F tol (relLtF tol ev le) md ev ++ res2 ≠ [] then
             some ⟨res1F tol (relLtF tol ev le) md ev ++ res2, record ++ [clampEvF tol ev]⟩
           else capLoopF a tol maxIter f z (some ev) (queue ++ [ev]) (record ++ [clampEvF tol ev]))
      | none => none := by
  rw [capLoopF]
  simp only [hstep]
  rfl

theorem mem_res1F (tol : Dbl) (rel : Bool) (md ev r : Dbl) (h : r ∈ res1F tol rel md ev) : r = clampEvF tol ev := by
  unfold res1F at h
  split at h
  · exact List.mem_singleton.1 h
  · cases h

theorem mem_res2F (tol : Dbl) (maxIter : Nat) (queue res2 : List Dbl) (r : Dbl)
    (h : res2F tol maxIter queue = some res2) (hr : r ∈ res2) :
    ∃ m, medianF queue = some m ∧ r = clampEvF tol m := by
  unfold res2F at h
  split at h
  · rw [Option.map_eq_some_iff] at h
    obtain ⟨m, hm, he⟩ := h
    subst he
    exact ⟨m, hm, List.mem_singleton.1 hr⟩
  · cases h
    cases hr

theorem capLoopF_bounds (a : Acc) (tol : Dbl) (maxIter : Nat) (ha : a.Closed) (htol : 0 ≤ tol.num) :
    ∀ (f : Nat) (last : VecF) (lastEv : Option Dbl) (queue record : List Dbl) (run : CapRunF),
      In01 a.size last → (∀ r ∈ queue, Le 4 r) → (∀ r ∈ record, Pos4 r) →
      capLoopF a tol maxIter f last lastEv queue record = some run →
      (∀ r ∈ run.results, Pos4 r) ∧ ∀ r ∈ run.record, Pos4 r := by
  intro f
  induction f with
  | zero => intro last lastEv queue record run _ _ _ h; simp [capLoopF] at h
  | succ f ih =>
    intro last lastEv queue record run hl hq hr h
    obtain ⟨z, ev, hstep, hev0, hev4, hevd, hz⟩ := step_bounds a last hl ha
    have hev : Le 4 ev := ⟨hevd, hev0, hev4⟩
    have hrec : ∀ r ∈ record ++ [clampEvF tol ev], Pos4 r := by
      intro r hr'
      rcases List.mem_append.1 hr' with h' | h'
      · exact hr r h'
      · rw [List.mem_singleton.1 h']; exact clamp_pos4 _ _ htol hev
    cases lastEv with
    | none =>
      rw [capLoopF_none a tol maxIter f last z ev queue record hstep] at h
      exact ih _ _ _ _ _ hz hq hrec h
    | some le =>
      rw [capLoopF_some a tol maxIter f last z ev le queue record hstep] at h
      have hq' : ∀ r ∈ queue ++ [ev], Le 4 r := by
        intro r hr'
        rcases List.mem_append.1 hr' with h' | h'
        · exact hq r h'
        · rw [List.mem_singleton.1 h']; exact hev
      · cases hmd : maxDiffF a.size z last with
        | none => rw [hmd] at h; simp at h
        | some md =>
          rw [hmd] at h
          simp only at h
          cases hres2 : res2F tol maxIter (queue ++ [ev]) with
          | none => rw [hres2] at h; simp at h
          | some res2 =>
            rw [hres2] at h
            simp only at h
            split at h
            · cases h
              refine ⟨?_, hrec⟩
              intro r hr'
              simp only at hr'
              rcases List.mem_append.1 hr' with h' | h'
              · rw [mem_res1F _ _ _ _ _ h']; exact clamp_pos4 _ _ htol hev
              · obtain ⟨m, hm, he⟩ := mem_res2F _ _ _ _ _ hres2 h'
                rw [he]
                exact clamp_pos4 _ _ htol (median_le4 _ hq' m hm)
            · exact ih _ _ _ _ _ hz hq' hrec h

/-! ## totality -/

theorem sub_defined (x y : Dbl) (hx : Le 1 x) (hy : Le 1 y) : ∃ r, Dbl.sub x y = some r := by
  obtain ⟨hxd, hx0, hx1⟩ := hx
  obtain ⟨hyd, hy0, hy1⟩ := hy
  unfold Dbl.sub
  apply roundDouble_defined (Nat.mul_pos hxd hyd)
  have h1 : 0 ≤ x.num * (y.den : Int) := Int.mul_nonneg hx0 (by omega)
  have h2 : 0 ≤ y.num * (x.den : Int) := Int.mul_nonneg hy0 (by omega)
  have h3 : x.num * (y.den : Int) ≤ 1 * x.den * y.den := Int.mul_le_mul_of_nonneg_right hx1 (by omega)
  have h4 : y.num * (x.den : Int) ≤ 1 * y.den * x.den := Int.mul_le_mul_of_nonneg_right hy1 (by omega)
  have h5 : (1 : Int) * y.den * x.den = ((x.den * y.den : Nat) : Int) := by push_cast; ring
  have h6 : (1 : Int) * x.den * y.den = ((x.den * y.den : Nat) : Int) := by push_cast; ring
  have h7 : (((x.num * (y.den : Int) - y.num * (x.den : Int)).natAbs : Nat) : Int) ≤ ((x.den * y.den : Nat) : Int) := by
    omega
  have h8 : (x.num * (y.den : Int) - y.num * (x.den : Int)).natAbs ≤ x.den * y.den := by exact_mod_cast h7
  have h9 : x.den * y.den ≤ 2 ^ 53 * (x.den * y.den) := Nat.le_mul_of_pos_left _ (by positivity)
  omega

theorem maxDiff_defined (n : Nat) (x y : VecF) (hx : ∀ w, Le 1 (x.getD w Dbl.zero))
    (hy : ∀ w, Le 1 (y.getD w Dbl.zero)) : ∃ md, maxDiffF n x y = some md := by
  unfold maxDiffF
  obtain ⟨ds, hds⟩ := allSome_of_forall
    ((List.range n).map fun v => (Dbl.sub (x.getD v Dbl.zero) (y.getD v Dbl.zero)).map Dbl.abs) (by
      intro o ho
      obtain ⟨v, _, rfl⟩ := List.mem_map.1 ho
      obtain ⟨r, hr⟩ := sub_defined _ _ (hx v) (hy v)
      exact ⟨Dbl.abs r, by rw [hr]; rfl⟩)
  rw [hds]
  exact ⟨_, rfl⟩

theorem median_defined (l : List Dbl) (hl : ∀ t ∈ l, Le 4 t) : ∃ m, medianF l = some m := by
  unfold medianF
  have hs : ∀ t ∈ isort (fun x y => Dbl.le x y) l, Le 4 t := fun t ht => hl t ((Power.mem_isort' _ _ _).1 ht)
  have h0 : Le 4 Dbl.zero := le_zero 4 (by omega)
  simp only
  split
  · exact ⟨_, rfl⟩
  · have h1 := list_getD_prop (Le 4) _ ((isort (fun x y => Dbl.le x y) l).length / 2 - 1) h0 hs
    have h2 := list_getD_prop (Le 4) _ ((isort (fun x y => Dbl.le x y) l).length / 2) h0 hs
    obtain ⟨t, ht, htl⟩ := add_le 4 4 _ _ h1 h2 (by omega) (by omega) (by norm_num)
    rw [ht]
    obtain ⟨r, hr, _⟩ := div_two 4 (by omega) (by norm_num) t (by simpa using htl)
    simp only [Option.bind_some]
    exact ⟨r, hr⟩

/-- the loop returns: the fuel left plus the length of the queue always reaches `maxIter + 1`, where the median ends
the repeat. -/
theorem capLoopF_total (a : Acc) (tol : Dbl) (maxIter : Nat) (ha : a.Closed) :
    ∀ (f : Nat) (last : VecF) (lastEv : Option Dbl) (queue record : List Dbl),
      In01 a.size last → (∀ r ∈ queue, Le 4 r) → queue.length ≤ maxIter →
      maxIter + 1 + (if lastEv = none then 1 else 0) ≤ f + queue.length →
      ∃ run, capLoopF a tol maxIter f last lastEv queue record = some run := by
  intro f
  induction f with
  | zero =>
    intro last lastEv queue record _ _ hlen hf
    split at hf <;> omega
  | succ f ih =>
    intro last lastEv queue record hl hq hlen hf
    obtain ⟨z, ev, hstep, hev0, hev4, hevd, hz⟩ := step_bounds a last hl ha
    have hev : Le 4 ev := ⟨hevd, hev0, hev4⟩
    cases lastEv with
    | none =>
      rw [capLoopF_none a tol maxIter f last z ev queue record hstep]
      apply ih _ _ _ _ hz hq hlen
      simp only [if_true] at hf
      rw [if_neg (by simp)]
      omega
    | some le =>
      rw [if_neg (by simp)] at hf
      rw [capLoopF_some a tol maxIter f last z ev le queue record hstep]
      have hq' : ∀ r ∈ queue ++ [ev], Le 4 r := by
        intro r hr'
        rcases List.mem_append.1 hr' with h' | h'
        · exact hq r h'
        · rw [List.mem_singleton.1 h']; exact hev
      obtain ⟨md, hmd⟩ := maxDiff_defined a.size z last (in01_le hz) (in01_le hl)
      rw [hmd]
      simp only
      unfold res2F
      by_cases hc : (queue ++ [ev]).length > maxIter
      · obtain ⟨m, hm⟩ := median_defined _ hq'
        rw [if_pos hc, hm]
        simp only [Option.map_some]
        rw [if_pos (by simp)]
        exact ⟨_, rfl⟩
      · rw [if_neg hc]
        simp only
        split
        · exact ⟨_, rfl⟩
        · apply ih _ _ _ _ hz hq'
          · omega
          · rw [if_neg (by simp)]
            simp only [List.length_append, List.length_singleton] at hc ⊢
            omega

/-! ## the start vector -/

theorem zeroDeadF_getD (a : Acc) (x : VecF) (v : Nat) (hv : v < a.size) :
    (zeroDeadF a x).getD v Dbl.zero =
      if (a.getD v #[]).foldl (· + ·) 0 == -4 then Dbl.zero else x.getD v Dbl.zero := by
  unfold zeroDeadF; exact getD_range_map _ _ _ _ hv

theorem zeroDeadF_size (a : Acc) (x : VecF) : (zeroDeadF a x).size = a.size := by simp [zeroDeadF]

theorem zeroDeadF_in01 (a : Acc) (x : VecF) (hx : In01 a.size x) : In01 a.size (zeroDeadF a x) := by
  refine ⟨⟨zeroDeadF_size a x, fun v hv => ?_⟩, fun v hv => ?_⟩
  · rw [zeroDeadF_getD a x v hv]
    by_cases c : ((a.getD v #[]).foldl (· + ·) 0 == -4) = true
    · rw [if_pos c]; exact ⟨isB64_zero, le_refl _⟩
    · rw [if_neg c]; exact hx.1.2 v hv
  · rw [zeroDeadF_getD a x v hv]
    by_cases c : ((a.getD v #[]).foldl (· + ·) 0 == -4) = true
    · rw [if_pos c]; decide
    · rw [if_neg c]; exact hx.2 v hv

theorem approxF_bounds (a : Acc) (tol : Dbl) (maxIter : Nat) (starts : List VecF) (res : List Dbl)
    (recs : List (List Dbl)) (ha : a.Closed) (htol : 0 ≤ tol.num) (hs : ∀ x ∈ starts, In01 a.size x)
    (h : approximateCapacityF a tol maxIter starts = some (res, recs)) :
    (∀ r ∈ res, Pos4 r) ∧ ∀ rec ∈ recs, ∀ r ∈ rec, Pos4 r := by
  unfold approximateCapacityF at h
  split at h
  · cases h
    constructor
    · intro r hr; rw [List.mem_singleton.1 hr]; exact pos4_one
    · intro rec hrec r hr
      obtain ⟨_, _, rfl⟩ := List.mem_map.1 hrec
      rw [List.mem_singleton.1 hr]; exact pos4_one
  · have key := foldl_invariant
      (fun acc : Option (List Dbl × List (List Dbl)) => ∀ res recs, acc = some (res, recs) →
        (∀ r ∈ res, Pos4 r) ∧ ∀ rec ∈ recs, ∀ r ∈ rec, Pos4 r)
      (fun acc x0 =>
        match acc with
        | none => none
        | some (res, recs) =>
          match capLoopF a tol maxIter (maxIter + 2) (zeroDeadF a x0) none [] [] with
          | none => none
          | some run => some (res ++ run.results, recs ++ [run.record])) starts
      (by
        intro s x0 hx0 hP res' recs' heq
        cases s with
        | none => simp at heq
        | some pr =>
          obtain ⟨res0, recs0⟩ := pr
          have h0 := hP res0 recs0 rfl
          simp only at heq
          split at heq
          · cases heq
          · rename_i run hrun
            cases heq
            have hb := capLoopF_bounds a tol maxIter ha htol _ _ _ _ _ run
              (zeroDeadF_in01 a x0 (hs x0 hx0)) (by simp) (by simp) hrun
            constructor
            · intro r hr
              rcases List.mem_append.1 hr with h' | h'
              · exact h0.1 r h'
              · exact hb.1 r h'
            · intro rec hrec r hr
              rcases List.mem_append.1 hrec with h' | h'
              · exact h0.2 rec h' r hr
              · rw [List.mem_singleton.1 h'] at hr; exact hb.2 r hr)
      (some ([], [])) (by intro res' recs' heq; cases heq; simp)
    exact key res recs h

theorem approxF_total (a : Acc) (tol : Dbl) (maxIter : Nat) (starts : List VecF) (ha : a.Closed)
    (hs : ∀ x ∈ starts, In01 a.size x) :
    ∃ res recs, approximateCapacityF a tol maxIter starts = some (res, recs) := by
  unfold approximateCapacityF
  split
  · exact ⟨_, _, rfl⟩
  · have key := foldl_invariant
      (fun acc : Option (List Dbl × List (List Dbl)) => ∃ res recs, acc = some (res, recs))
      (fun acc x0 =>
        match acc with
        | none => none
        | some (res, recs) =>
          match capLoopF a tol maxIter (maxIter + 2) (zeroDeadF a x0) none [] [] with
          | none => none
          | some run => some (res ++ run.results, recs ++ [run.record])) starts
      (by
        intro s x0 hx0 hP
        obtain ⟨res0, recs0, rfl⟩ := hP
        obtain ⟨run, hrun⟩ := capLoopF_total a tol maxIter ha (maxIter + 2) (zeroDeadF a x0) none [] []
          (zeroDeadF_in01 a x0 (hs x0 hx0)) (by simp) (by simp) (by simp)
        simp only [hrun]
        exact ⟨_, _, rfl⟩)
      (some ([], [])) ⟨_, _, rfl⟩
    exact key

end Dsw.PowerF
