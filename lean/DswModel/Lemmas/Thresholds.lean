import DswModel.Model.Biofilter
import Mathlib.Data.Rat.Floor
import Mathlib.Algebra.Order.Floor.Ring
import Mathlib.Tactic.Ring
import Mathlib.Tactic.NormNum
/-! Helper lemmas for C12b (floor / ceiling thresholds). -/
namespace Dsw.Thresholds

/-- Mathlib's `⌈q⌉` on `ℚ` is core's `Rat.ceil`. -/
theorem ceil_eq (q : ℚ) : ⌈q⌉ = q.ceil :=
  eq_of_forall_ge_iff fun z => by rw [Int.ceil_le, Rat.ceil_le_iff]

/-- Mathlib's `⌊q⌋` on `ℚ` is core's `Rat.floor` (by definition of the `FloorRing ℚ` instance). -/
theorem floor_eq (q : ℚ) : ⌊q⌋ = q.floor := rfl

/-- `⌊k − x⌋ = k − ⌈x⌉`. -/
theorem floor_natCast_sub (k : Nat) (x : ℚ) : ((k : ℚ) - x).floor = (k : Int) - x.ceil := by
  rw [← floor_eq, ← ceil_eq]
  have h : ((k : ℚ) - x) = ((k : ℤ) : ℚ) + (-x) := by push_cast; ring
  rw [h, Int.floor_intCast_add, Int.floor_neg]; ring

/-- an integer count exceeds a rational bound iff it exceeds its floor. -/
theorem natCast_gt_iff (g : Nat) (x : ℚ) : ((g : ℚ) > x) ↔ ((g : Int) > x.floor) := by
  have h : (g : ℚ) = ((g : ℤ) : ℚ) := by push_cast; rfl
  rw [h]; exact Rat.floor_lt_iff.symm

/-- an integer count is below a rational bound iff it is below its ceiling. -/
theorem natCast_lt_iff (g : Nat) (x : ℚ) : ((g : ℚ) < x) ↔ ((g : Int) < x.ceil) := by
  have h : (g : ℚ) = ((g : ℤ) : ℚ) := by push_cast; rfl
  rw [h]; exact Rat.lt_ceil_iff.symm

end Dsw.Thresholds
