import DswModel.Model.Spiderweb
import DswModel.Lemmas.CoderDefs
import DswModel.Lemmas.Digit
import DswModel.Props.C15
import DswModel.Props.C16
import DswModel.Props.C18
import Mathlib.Data.Fintype.Pigeonhole
import Mathlib.Data.Fintype.Card
/-! Helper lemmas for encode/decode (CoderNormal): normal (arbitrary-precision) mode.

Architecture:
* `encodeNat` — the encoder loop on natural numbers; `encodeNormalLoop_eq_encodeNat`.
* `walkValueD` — the mixed-radix value of a walk with the *decoder's* digit `arcDigit` (equal to
  `walkValue` under `DistinctKeys`, `walkValueD_eq_walkValue`).
* `cn_decode_normal` — complete characterisation of normal-mode `decode`.
* `cn_encodeNat_spec` — the strand returned by `encodeNat` is a walk of value `q`, all of whose
  non-empty suffixes have non-zero value.
* `cn_encodeNat_total` — the fuel `L * |V| + 1` suffices on `GoodFrom` graphs.
-/
namespace Dsw

/-! ## definitions -/

/-- mixed-radix value of a walk with the decoder's digit (`arcDigit`); no hypothesis on the table
is needed for the round trip in this form. -/
def walkValueD (a : Acc) (tbl : Option Tbl) : Int → List Char → Nat
  | _, [] => 0
  | v, c :: s =>
    let j := (nucIdx c).getD 0
    let rest := walkValueD a tbl (a.ent v j) s
    if a.outDeg v > 1 then arcDigit a tbl v j + a.outDeg v * rest else rest

/-- the normal-mode encoder loop on natural numbers. -/
def encodeNat (a : Acc) (tbl : Option Tbl) : Nat → Int → Nat → R (List Char)
  | 0, _, _ => .error .outOfFuel
  | f + 1, v, q =>
    if q = 0 then .ok []
    else if a.outDeg v > 1 then
      let j := selectArc a tbl v (q % a.outDeg v)
      (encodeNat a tbl f (a.ent v j) (q / a.outDeg v)).map (nucChar j :: ·)
    else if a.outDeg v = 1 then
      let j := (a.live v).getD 0 0
      (encodeNat a tbl f (a.ent v j) q).map (nucChar j :: ·)
    else .error .valueError

/-- every non-empty suffix of the walk has non-zero `walkValueD`. -/
def TightD (a : Acc) (tbl : Option Tbl) (v : Int) (s : List Char) : Prop :=
  ∀ i, i < s.length → walkValueD a tbl (walkEnd a v (s.take i)) (s.drop i) ≠ 0

/-! ## the string loop is the Nat loop -/

theorem cn_canonical_eq_zero_iff {q : Dec} (hq : q.Canonical) : q = [0] ↔ q.toNat = 0 := by
  constructor
  · intro h; subst h; rfl
  · exact hq.eq_zero_of_toNat

theorem encodeNormalLoop_eq_encodeNat (a : Acc) (tbl : Option Tbl) (f : Nat) (v : Int) (q : Dec)
    (hq : q.Canonical) : encodeNormalLoop a tbl f v q = encodeNat a tbl f v q.toNat := by
  induction f generalizing v q with
  | zero => rfl
  | succ f ih =>
    unfold encodeNormalLoop encodeNat
    by_cases h0 : q = [0]
    · subst h0
      simp [Dec.toNat]
    · have h0' : q.toNat ≠ 0 := fun h => h0 ((cn_canonical_eq_zero_iff hq).2 h)
      simp only [h0, h0', if_false, Acc.outDeg]
      have h4 := live_length_le_four a v
      by_cases h1 : (a.live v).length > 1
      · obtain ⟨c1, v1, _, v2⟩ := C15_div q (a.live v).length hq (by omega) (by omega)
        simp only [h1, if_true]
        rw [ih _ _ c1, v1, v2]
      · simp only [h1, if_false]
        by_cases h2 : (a.live v).length = 1
        · simp only [h2, if_true]
          rw [ih _ _ hq]
        · simp [h2]

/-! ## arcs, `Acc.next`, `livePos` -/

theorem cn_next_of_live {a : Acc} {v : Int} {c : Char} {j : Nat} (hc : nucIdx c = some j)
    (hj : j ∈ a.live v) : a.next v c = some (a.ent v j) := by
  have := live_ent_nonneg a v hj
  simp [Acc.next, hc, this]

theorem cn_next_some {a : Acc} {v : Int} {c : Char} {t : Int} (h : a.next v c = some t) :
    ∃ j, nucIdx c = some j ∧ j ∈ a.live v ∧ t = a.ent v j := by
  unfold Acc.next at h
  cases hc : nucIdx c with
  | none => simp [hc] at h
  | some j =>
    simp only [hc] at h
    by_cases hge : a.ent v j ≥ 0
    · simp only [hge, if_true, Option.some.injEq] at h
      exact ⟨j, rfl, (mem_live_iff a v j).2 ⟨nucIdx_lt hc, hge⟩, h.symm⟩
    · simp [hge] at h

theorem cn_next_none {a : Acc} {v : Int} {c : Char} (h : a.next v c = none) {j : Nat}
    (hc : nucIdx c = some j) : j ∉ a.live v := by
  intro hj
  rw [cn_next_of_live hc hj] at h
  cases h

theorem cn_livePos_of_live {a : Acc} {v : Int} {c : Char} {j : Nat} (hc : nucIdx c = some j)
    (hj : j ∈ a.live v) : livePos a v c = some ((a.live v).idxOf j) := by
  simp [livePos, hc, hj]

theorem cn_livePos_of_not_live {a : Acc} {v : Int} {c : Char} {j : Nat} (hc : nucIdx c = some j)
    (hj : j ∉ a.live v) : livePos a v c = none := by
  simp [livePos, hc, hj]

theorem cn_livePos_foreign {a : Acc} {v : Int} {c : Char} (hc : nucIdx c = none) :
    livePos a v c = none := by
  simp [livePos, hc]

theorem cn_live_eq_singleton {a : Acc} {v : Int} (h : (a.live v).length = 1) :
    a.live v = [(a.live v).getD 0 0] := by
  match hl : a.live v, h with
  | [x], _ => rfl

/-! ## Horner on decimal strings -/

theorem cn_hornerStr_nil : hornerStr [] = [0] := rfl

theorem cn_hornerStr_cons (dn : Nat × Nat) (rest : List (Nat × Nat)) :
    hornerStr (dn :: rest) =
      calculusAddition (calculusMultiplication (hornerStr rest) dn.1) dn.2 := by
  simp [hornerStr, List.foldl_append]

/-! ## `decodeWalk` -/

theorem cn_decodeWalk_walk (a : Acc) (tbl : Option Tbl) : ∀ (s : List Char) (v : Int),
    isWalk a v s = true → ∃ saved, decodeWalk a tbl v s = .ok saved ∧
      (hornerStr saved).Canonical ∧ (hornerStr saved).toNat = walkValueD a tbl v s := by
  intro s
  induction s with
  | nil =>
    intro v _
    exact ⟨[], rfl, Dec.canonical_zero, rfl⟩
  | cons c s ih =>
    intro v hw
    unfold isWalk at hw
    cases hn : a.next v c with
    | none => simp [hn] at hw
    | some t =>
      simp only [hn] at hw
      obtain ⟨j, hc, hj, rfl⟩ := cn_next_some hn
      obtain ⟨saved, hs, hcan, hval⟩ := ih _ hw
      have hjd : (nucIdx c).getD 0 = j := by simp [hc]
      have h4 := live_length_le_four a v
      unfold decodeWalk walkValueD
      simp only [hjd, Acc.outDeg]
      by_cases h1 : (a.live v).length > 1
      · simp only [h1, if_true, cn_livePos_of_live hc hj, hs]
        refine ⟨_, rfl, ?_⟩
        rw [cn_hornerStr_cons]
        have hd : arcDigit a tbl v j < (a.live v).length := arcDigit_lt a tbl v hj
        obtain ⟨m1, m2⟩ := C15_mul (hornerStr saved) (a.live v).length hcan (by omega)
        obtain ⟨a1, a2⟩ := C15_add _ (posToDigit tbl v (a.live v) ((a.live v).idxOf j)) m1
          (by unfold arcDigit at hd; omega)
        refine ⟨a1, ?_⟩
        rw [a2, m2, hval]
        simp only [arcDigit]
        rw [Nat.mul_comm, Nat.add_comm]
      · have hpos : 0 < (a.live v).length := List.length_pos_of_mem hj
        have h1' : (a.live v).length = 1 := by omega
        have hsing := cn_live_eq_singleton h1'
        have hjeq : (a.live v).getD 0 0 = j := by
          rw [hsing] at hj
          exact (List.mem_singleton.1 hj).symm
        simp only [h1', if_true, hjeq, nucChar_nucIdx hc]
        exact ⟨saved, hs, hcan, hval⟩

theorem cn_decodeWalk_not_walk (a : Acc) (tbl : Option Tbl) : ∀ (s : List Char) (v : Int),
    isWalk a v s = false → decodeWalk a tbl v s = .error .valueError := by
  intro s
  induction s with
  | nil => intro v h; simp [isWalk] at h
  | cons c s ih =>
    intro v hw
    unfold isWalk at hw
    unfold decodeWalk
    cases hn : a.next v c with
    | none =>
      have hlp : livePos a v c = none := by
        cases hc : nucIdx c with
        | none => exact cn_livePos_foreign hc
        | some j => exact cn_livePos_of_not_live hc (cn_next_none hn hc)
      by_cases h1 : (a.live v).length > 1
      · simp [h1, hlp]
      · simp only [h1, if_false]
        by_cases h1' : (a.live v).length = 1
        · simp only [h1', if_true]
          have hsing := cn_live_eq_singleton h1'
          have hj0 : (a.live v).getD 0 0 ∈ a.live v := by
            rw [hsing]; simp
          have hne : c ≠ nucChar ((a.live v).getD 0 0) := by
            intro he
            have hc : nucIdx c = some ((a.live v).getD 0 0) := by
              rw [he]; exact nucIdx_nucChar _ (live_lt_four a v hj0)
            exact cn_next_none hn hc hj0
          rw [if_neg hne]
        · simp [h1']
    | some t =>
      simp only [hn] at hw
      obtain ⟨j, hc, hj, rfl⟩ := cn_next_some hn
      have hjd : (nucIdx c).getD 0 = j := by simp [hc]
      have hrec := ih _ hw
      simp only [hjd, hrec, cn_livePos_of_live hc hj]
      by_cases h1 : (a.live v).length > 1
      · simp [h1, Except.map]
      · simp only [h1, if_false]
        by_cases h1' : (a.live v).length = 1
        · simp [h1']
        · simp [h1']

end Dsw
