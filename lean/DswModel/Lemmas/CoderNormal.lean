import DswModel.Model.Spiderweb
import DswModel.Lemmas.CoderDefs
import DswModel.Lemmas.Digit
import DswModel.Props.C15
import DswModel.Props.C16
import DswModel.Props.C18
import Mathlib.Data.Fintype.Pigeonhole
import Mathlib.Data.Fintype.Card
/-! Helper lemmas for encode/decode (CoderNormal): normal (arbitrary-precision) mode.

Architecture:
* `encodeNat` — the encoder loop on natural numbers; `encodeNormalLoop_eq_encodeNat`.
* `walkValueD` — the mixed-radix value of a walk with the *decoder's* digit `arcDigit` (equal to
  `walkValue` under `DistinctKeys`, `walkValueD_eq_walkValue`).
* `cn_decode_normal` — complete characterisation of normal-mode `decode`.
* `cn_encodeNat_spec` — the strand returned by `encodeNat` is a walk of value `q`, all of whose
  non-empty suffixes have non-zero value.
* `cn_encodeNat_total` — the fuel `L * |V| + 1` suffices on `GoodFrom` graphs.
-/
namespace Dsw

/-! ## definitions -/

/-- mixed-radix value of a walk with the decoder's digit (`arcDigit`); no hypothesis on the table
is needed for the round trip in this form. -/
def walkValueD (a : Acc) (tbl : Option Tbl) : Int → List Char → Nat
  | _, [] => 0
  | v, c :: s =>
    let j := (nucIdx c).getD 0
    let rest := walkValueD a tbl (a.ent v j) s
    if a.outDeg v > 1 then arcDigit a tbl v j + a.outDeg v * rest else rest

/-- the normal-mode encoder loop on natural numbers. -/
def encodeNat (a : Acc) (tbl : Option Tbl) : Nat → Int → Nat → R (List Char)
  | 0, _, _ => .error .outOfFuel
  | f + 1, v, q =>
    if q = 0 then .ok []
    else if a.outDeg v > 1 then
      let j := selectArc a tbl v (q % a.outDeg v)
      (encodeNat a tbl f (a.ent v j) (q / a.outDeg v)).map (nucChar j :: ·)
    else if a.outDeg v = 1 then
      let j := (a.live v).getD 0 0
      (encodeNat a tbl f (a.ent v j) q).map (nucChar j :: ·)
    else .error .valueError

/-- every non-empty suffix of the walk has non-zero `walkValueD`. -/
def TightD (a : Acc) (tbl : Option Tbl) (v : Int) (s : List Char) : Prop :=
  ∀ i, i < s.length → walkValueD a tbl (walkEnd a v (s.take i)) (s.drop i) ≠ 0

/-! ## the string loop is the Nat loop -/

theorem cn_canonical_eq_zero_iff {q : Dec} (hq : q.Canonical) : q = [0] ↔ q.toNat = 0 := by
  constructor
  · intro h; subst h; rfl
  · exact hq.eq_zero_of_toNat

theorem encodeNormalLoop_eq_encodeNat (a : Acc) (tbl : Option Tbl) (f : Nat) (v : Int) (q : Dec)
    (hq : q.Canonical) : encodeNormalLoop a tbl f v q = encodeNat a tbl f v q.toNat := by
  induction f generalizing v q with
  | zero => rfl
  | succ f ih =>
    unfold encodeNormalLoop encodeNat
    by_cases h0 : q = [0]
    · subst h0
      simp [Dec.toNat]
    · have h0' : q.toNat ≠ 0 := fun h => h0 ((cn_canonical_eq_zero_iff hq).2 h)
      simp only [h0, h0', if_false, Acc.outDeg]
      have h4 := live_length_le_four a v
      by_cases h1 : (a.live v).length > 1
      · obtain ⟨c1, v1, _, v2⟩ := C15_div q (a.live v).length hq (by omega) (by omega)
        simp only [h1, if_true]
        rw [ih _ _ c1, v1, v2]
      · simp only [h1, if_false]
        by_cases h2 : (a.live v).length = 1
        · simp only [h2, if_true]
          rw [ih _ _ hq]
        · simp [h2]

end Dsw
